import NeatviVerif.Lemmas.C05eA
import NeatviVerif.Lemmas.C05eN
import NeatviVerif.Lemmas.C05eDec
import NeatviVerif.Lemmas.C02Ex
/-!
# C05e lemmas, part B: the invariant `Safe` and the handlers that neither expand a path nor run a command line

`Safe ed`: every buffer of the table was built by the lbuf API (`EdInv` of C02b: the undo history is consistent with
the text) and there is a current buffer.  Nothing else is needed by the handlers of this file: the row, the marks and
the addresses are validated by `ex_region` before any line is touched.  Every lemma is a total-correctness statement:
the handler returns, and the state it returns is `Safe` again.
-/
namespace Neatvi.Lemmas.C05e
open Neatvi Neatvi.Lbuf Neatvi.LbufIo Neatvi.Ex Neatvi.Rset
open Neatvi.Lemmas.ExFrame Neatvi.Lemmas.C02Ex Neatvi.Lemmas.C02b Neatvi.Lemmas.C06

/-- the invariant behind "no trap" -/
structure Safe (ed : Ed) : Prop where
  inv : EdInv ed
  cur : ed.cur.isSome = true
  /-- the remembered search keyword is a C string -/
  kwd : 0 ∉ ed.xkwd

/-- the handler returns, in a safe state, at the same depth `d` of nested `:@` -/
def Ret {α : Type} (d : Nat) (x : R α) : Prop := ∃ r ed', x = some (r, ed') ∧ Safe ed' ∧ ed'.atDepth = d

theorem Ret.mk {α : Type} {d : Nat} {r : α} {ed : Ed} (h : Safe ed) (hd : ed.atDepth = d) : Ret d (some (r, ed)) :=
  ⟨r, ed, rfl, h, hd⟩

theorem Ret.ne_none {α : Type} {d : Nat} {x : R α} (h : Ret d x) : x ≠ none := by
  obtain ⟨_, _, h, _⟩ := h; rw [h]; exact fun h => by cases h

theorem Ret.ite {α : Type} {d : Nat} {c : Prop} [Decidable c] {a b : R α} (ha : Ret d a) (hb : Ret d b) :
    Ret d (if c then a else b) := by
  split <;> assumption

theorem Ret.dite {α : Type} {d : Nat} {c : Prop} [Decidable c] {a b : R α} (ha : c → Ret d a) (hb : ¬ c → Ret d b) :
    Ret d (if c then a else b) := by
  split
  · exact ha (by assumption)
  · exact hb (by assumption)

theorem setLb_atDepth (ed : Ed) (lb : Lb) : (ed.setLb lb).atDepth = ed.atDepth := by
  unfold Ed.setLb; split <;> rfl

theorem setOpt_atDepth (ed : Ed) (v : String) (x : Int) : (setOpt ed v x).atDepth = ed.atDepth := by
  unfold setOpt
  repeat' split
  all_goals rfl

theorem AddrOnly.atDepth {ed ed' : Ed} (h : AddrOnly ed ed') : ed'.atDepth = ed.atDepth := by
  obtain ⟨_, _, _, rfl⟩ := h; rfl

/-- closes a goal `ed'.atDepth = d` from the equations in the context -/
macro "dep" : tactic =>
  `(tactic| first | rfl | assumption | (simp only [*, Ed.show, Ed.print, Ed.setCur, setLb_atDepth, setOpt_atDepth]; done)
                  | (simp only [*, Ed.show, Ed.print, Ed.setCur, setLb_atDepth, setOpt_atDepth]; rfl))

theorem Safe.lb {ed : Ed} (h : Safe ed) : ∃ lb, ed.lb = some lb ∧ GoodLb lb := by
  have hc := h.cur
  cases hb : ed.cur with
  | none => rw [hb] at hc; cases hc
  | some b => exact ⟨b.lb, by simp [Ed.lb, hb], edInv_cur h.inv hb⟩

theorem Safe.of_bufs {ed ed' : Ed} (h : Safe ed) (hb : ed'.bufs = ed.bufs) (hk : ed'.xkwd = ed.xkwd := by rfl) :
    Safe ed' :=
  ⟨edInv_of_bufs hb h.inv, by rw [cur_congr hb]; exact h.cur, by rw [hk]; exact h.kwd⟩

theorem Safe.addr {ed ed' : Ed} (h : Safe ed) (ha : AddrOnly ed ed') (hk : 0 ∉ ed'.xkwd) : Safe ed' :=
  ⟨edInv_of_bufs ha.bufs h.inv, by rw [cur_congr ha.bufs]; exact h.cur, hk⟩

theorem setLb_xkwd (ed : Ed) (lb : Lb) : (ed.setLb lb).xkwd = ed.xkwd := by
  unfold Ed.setLb; split <;> rfl

theorem Safe.show {ed : Ed} (h : Safe ed) (m : Bytes) : Safe (ed.show m) := h.of_bufs rfl
theorem Safe.print {ed : Ed} (h : Safe ed) (m : Bytes) : Safe (ed.print m) := h.of_bufs rfl

theorem Safe.setLb {ed : Ed} (h : Safe ed) {lb : Lb} (hg : GoodLb lb) : Safe (ed.setLb lb) := by
  refine ⟨edInv_setLb h.inv hg, ?_, by rw [setLb_xkwd]; exact h.kwd⟩
  have hc := h.cur
  unfold Ed.setLb
  cases hb : ed.cur with
  | none => rw [hb] at hc; cases hc
  | some b =>
    dsimp only
    rw [setCur_cur ed b _ hb]; rfl

theorem Safe.edit {ed ed' : Ed} (h : Safe ed) {s : Option Bytes} {b e : Int} (he : ed.edit s b e = some ed') : Safe ed' := by
  obtain ⟨_, _, lb, lb', hlb, hed, rfl, _⟩ := Ed_edit_some he
  exact h.setLb ((edInv_lb h.inv hlb).edit hed)

/-- `lbuf_edit` through the editor: a current buffer and an ordered non-negative range -/
theorem edit_atDepth {ed ed' : Ed} {s : Option Bytes} {b e : Int} (he : ed.edit s b e = some ed') :
    ed'.atDepth = ed.atDepth := by
  obtain ⟨_, _, lb, lb', _, _, rfl, _⟩ := Ed_edit_some he
  exact setLb_atDepth _ _

theorem edit_total' {ed : Ed} (h : Safe ed) (s : Option Bytes) (b e : Int) (hb : 0 ≤ b) (hbe : b ≤ e) :
    ∃ ed', ed.edit s b e = some ed' ∧ Safe ed' ∧ ed'.atDepth = ed.atDepth := by
  obtain ⟨lb, hl, _⟩ := h.lb
  obtain ⟨ed', he⟩ := ed_edit_total ed lb s b e hl hb hbe
  exact ⟨ed', he, h.edit he, edit_atDepth he⟩

/-- the region as the handlers see it: the state after it is safe, and an accepted range is ordered and inside -/
theorem region_cases (hre : ReSafe) {ed : Ed} (h : Safe ed) (loc : Bytes) (h0 : 0 ∉ loc) :
    ∃ rc b e ed1, exRegion ed loc = some ((rc, b, e), ed1) ∧ Safe ed1 ∧ ed1.atDepth = ed.atDepth ∧ (rc = 0 ∨ rc = 1) ∧
      (rc = 0 → 0 ≤ b ∧ b ≤ e ∧ e ≤ ed1.len) ∧ (rc = 1 → b = 0 → e = 0 → ed1.len = 0) := by
  obtain ⟨rc, b, e, ed1, hr, hk⟩ := exRegion_total hre ed loc h0 h.kwd
  obtain ⟨ha, h1, h2, h3⟩ := region_all ed loc rc b e ed1 hr
  exact ⟨rc, b, e, ed1, hr, h.addr ha hk, AddrOnly.atDepth ha, h1, fun h0 => ⟨(h2 h0).1, (h2 h0).2.1, (h2 h0).2.2.1⟩, h3⟩

/-! ### `:a :i :c` -/

theorem run_insert (hre : ReSafe) (f : Nat) {ed : Ed} (h : Safe ed) (loc cmd arg : Bytes) (txt : Option Bytes)
    (hloc : 0 ∉ loc) :
    Ret ed.atDepth (runCmd (f + 1) ed "ec_insert" loc cmd arg txt) := by
  rw [runCmd]
  simp (config := {decide := true}) only [if_false, if_true]
  obtain ⟨rc, b, e, ed1, hr, h1, hd1, hrc, hin, h00⟩ := region_cases hre h loc hloc
  rw [hr]
  dsimp only
  split
  · exact Ret.mk h1 (by dep)
  · rename_i hc
    have hbe : 0 ≤ b ∧ b ≤ e := by
      rcases hrc with h0 | h1'
      · exact ⟨(hin h0).1, (hin h0).2.1⟩
      · subst h1'
        simp at hc
        omega
    obtain ⟨ed2, he, h2, hd2⟩ := edit_total' h1 txt (if (List.headD cmd 0 == 97) = true then e else b)
      (if (List.headD cmd 0 != 99) = true then if (List.headD cmd 0 == 97) = true then e else b else e)
      (by split <;> omega) (by repeat' split <;> omega)
    rw [he]
    exact Ret.mk (h2.of_bufs rfl) (by dep)

/-! ### `:p` and the empty command -/

theorem foldl_safe' {α β : Type} (P : β → Prop) (F : β → α → β) (hF : ∀ s a, P s → P (F s a)) :
    ∀ (l : List α) (s : β), P s → P (l.foldl F s) := by
  intro l
  induction l with
  | nil => intro s h; exact h
  | cons a l ih => intro s h; exact ih _ (hF s a h)

theorem run_print (hre : ReSafe) (f : Nat) {ed : Ed} (h : Safe ed) (loc cmd arg : Bytes) (txt : Option Bytes)
    (hloc : 0 ∉ loc) :
    Ret ed.atDepth (runCmd (f + 1) ed "ec_print" loc cmd arg txt) := by
  rw [runCmd]
  simp (config := {decide := true}) only [if_false, if_true]
  split
  · exact Ret.mk h (by dep)
  · obtain ⟨rc, b, e, ed1, hr, h1, hd1, _⟩ := region_cases hre h loc hloc
    rw [hr]
    dsimp only
    split
    · exact Ret.mk h1 (by dep)
    · have hf : Safe ((List.range (e - b).toNat).foldl (fun (ed : Ed) (k : Nat) =>
          match ed.line (b + (k : Int)) with | some l => ed.print l | none => ed) ed1) ∧
          ((List.range (e - b).toNat).foldl (fun (ed : Ed) (k : Nat) =>
          match ed.line (b + (k : Int)) with | some l => ed.print l | none => ed) ed1).atDepth = ed.atDepth := by
        refine foldl_safe' (fun s : Ed => Safe s ∧ s.atDepth = ed.atDepth) _ ?_ _ _ ⟨h1, hd1⟩
        intro s a hs
        split
        · exact ⟨hs.1.print _, hs.2⟩
        · exact hs
      exact Ret.mk (hf.1.of_bufs rfl) hf.2

theorem run_null (hre : ReSafe) (f : Nat) {ed : Ed} (h : Safe ed) (loc cmd arg : Bytes) (txt : Option Bytes)
    (hloc : 0 ∉ loc) :
    Ret ed.atDepth (runCmd (f + 2) ed "ec_null" loc cmd arg txt) := by
  rw [runCmd]
  simp (config := {decide := true}) only [if_false, if_true]
  split
  · refine run_print hre f ?_ loc cmd arg txt hloc
    exact h.of_bufs rfl
  · obtain ⟨rc, b, e, ed1, hr, h1, hd1, _⟩ := region_cases hre h loc hloc
    rw [hr]
    dsimp only
    split
    · exact Ret.mk h1 (by dep)
    · exact Ret.mk (h1.of_bufs rfl) (by dep)

/-! ### `:d :y` -/

theorem run_delete (hre : ReSafe) (f : Nat) {ed : Ed} (h : Safe ed) (loc cmd arg : Bytes) (txt : Option Bytes)
    (hloc : 0 ∉ loc) :
    Ret ed.atDepth (runCmd (f + 1) ed "ec_delete" loc cmd arg txt) := by
  rw [runCmd]
  simp (config := {decide := true}) only [if_false, if_true]
  obtain ⟨rc, b, e, ed1, hr, h1, hd1, hrc, hin, h00⟩ := region_cases hre h loc hloc
  rw [hr]
  dsimp only
  split
  · exact Ret.mk h1 (by dep)
  · rename_i hc
    have h0 : rc = 0 := by
      rcases hrc with h0 | h1'
      · exact h0
      · subst h1'; simp at hc
    obtain ⟨ed2, he, h2, hd2⟩ := edit_total' (ed := { ed1 with regs := ed1.regs.put (regName arg) (ed1.cp b e) 1 }) (h1.of_bufs rfl)
      none b e (hin h0).1 (hin h0).2.1
    rw [he]
    exact Ret.mk (h2.of_bufs rfl) (by dep)

theorem run_yank (hre : ReSafe) (f : Nat) {ed : Ed} (h : Safe ed) (loc cmd arg : Bytes) (txt : Option Bytes)
    (hloc : 0 ∉ loc) :
    Ret ed.atDepth (runCmd (f + 1) ed "ec_yank" loc cmd arg txt) := by
  rw [runCmd]
  simp (config := {decide := true}) only [if_false, if_true]
  obtain ⟨rc, b, e, ed1, hr, h1, hd1, _⟩ := region_cases hre h loc hloc
  rw [hr]
  dsimp only
  split
  · exact Ret.mk h1 (by dep)
  · exact Ret.mk (h1.of_bufs rfl) (by dep)

/-! ### `:pu` -/

theorem run_put (hre : ReSafe) (f : Nat) {ed : Ed} (h : Safe ed) (loc cmd arg : Bytes) (txt : Option Bytes)
    (hloc : 0 ∉ loc) :
    Ret ed.atDepth (runCmd (f + 1) ed "ec_put" loc cmd arg txt) := by
  rw [runCmd]
  simp (config := {decide := true}) only [if_false, if_true]
  split
  · exact Ret.mk h (by dep)
  · rename_i buf _
    obtain ⟨rc, b, e, ed1, hr, h1, hd1, hrc, hin, h00⟩ := region_cases hre h loc hloc
    rw [hr]
    dsimp only
    split
    · exact Ret.mk h1 (by dep)
    · rename_i hc
      have he0 : 0 ≤ e := by
        rcases hrc with h0 | h1'
        · have := hin h0; omega
        · subst h1'; simp at hc; omega
      obtain ⟨ed2, he, h2, hd2⟩ := edit_total' h1 (some buf) e e he0 (Int.le_refl _)
      rw [he]
      exact Ret.mk (h2.of_bufs rfl) (by dep)

/-! ### `:=` -/

theorem run_lnum (hre : ReSafe) (f : Nat) {ed : Ed} (h : Safe ed) (loc cmd arg : Bytes) (txt : Option Bytes)
    (hloc : 0 ∉ loc) :
    Ret ed.atDepth (runCmd (f + 1) ed "ec_lnum" loc cmd arg txt) := by
  rw [runCmd]
  simp (config := {decide := true}) only [if_false, if_true]
  obtain ⟨rc, b, e, ed1, hr, h1, hd1, _⟩ := region_cases hre h loc hloc
  rw [hr]
  dsimp only
  split
  · exact Ret.mk h1 (by dep)
  · exact Ret.mk (h1.print _) (by dep)

/-! ### `:u :redo` -/

theorem run_undo (f : Nat) {ed : Ed} (h : Safe ed) (loc cmd arg : Bytes) (txt : Option Bytes) :
    Ret ed.atDepth (runCmd (f + 1) ed "ec_undo" loc cmd arg txt) := by
  rw [runCmd]
  simp (config := {decide := true}) only [if_false, if_true]
  obtain ⟨lb, hl, hg⟩ := h.lb
  obtain ⟨rc, lb', hu⟩ := undo_total hg
  rw [hl]
  simp only [Option.bind_some, hu]
  exact Ret.mk (h.setLb (hg.undo hu)) (by dep)

theorem run_redo (f : Nat) {ed : Ed} (h : Safe ed) (loc cmd arg : Bytes) (txt : Option Bytes) :
    Ret ed.atDepth (runCmd (f + 1) ed "ec_redo" loc cmd arg txt) := by
  rw [runCmd]
  simp (config := {decide := true}) only [if_false, if_true]
  obtain ⟨lb, hl, hg⟩ := h.lb
  obtain ⟨rc, lb', hu⟩ := redo_total hg
  rw [hl]
  simp only [Option.bind_some, hu]
  exact Ret.mk (h.setLb (hg.redo hu)) (by dep)

/-! ### `:k` -/

theorem run_mark (hre : ReSafe) (f : Nat) {ed : Ed} (h : Safe ed) (loc cmd arg : Bytes) (txt : Option Bytes)
    (hloc : 0 ∉ loc) :
    Ret ed.atDepth (runCmd (f + 1) ed "ec_mark" loc cmd arg txt) := by
  rw [runCmd]
  simp (config := {decide := true}) only [if_false, if_true]
  obtain ⟨rc, b, e, ed1, hr, h1, hd1, _⟩ := region_cases hre h loc hloc
  rw [hr]
  dsimp only
  split
  · exact Ret.mk h1 (by dep)
  · obtain ⟨lb, hl, hg⟩ := h1.lb
    rw [hl]
    exact Ret.mk (h1.setLb (hg.setMark _ _ _)) (by dep)

/-! ### the handlers without any trap: `:rs :se :ec` and the commands outside the model -/

theorem run_rs (f : Nat) {ed : Ed} (h : Safe ed) (loc cmd arg : Bytes) (txt : Option Bytes) :
    Ret ed.atDepth (runCmd (f + 1) ed "ec_rs" loc cmd arg txt) := by
  rw [runCmd]
  simp (config := {decide := true}) only [if_false, if_true]
  exact Ret.mk (h.of_bufs rfl) (by dep)

theorem setOpt_bufs (ed : Ed) (v : String) (x : Int) : (setOpt ed v x).bufs = ed.bufs := by
  unfold setOpt
  repeat' split
  all_goals rfl

theorem setOpt_xkwd (ed : Ed) (v : String) (x : Int) : (setOpt ed v x).xkwd = ed.xkwd := by
  unfold setOpt
  repeat' split
  all_goals rfl

theorem run_set (f : Nat) {ed : Ed} (h : Safe ed) (loc cmd arg : Bytes) (txt : Option Bytes) :
    Ret ed.atDepth (runCmd (f + 1) ed "ec_set" loc cmd arg txt) := by
  rw [runCmd]
  simp (config := {decide := true}) only [if_false, if_true]
  split
  · exact Ret.mk h (by dep)
  · split
    · exact Ret.mk (h.of_bufs (setOpt_bufs _ _ _) (setOpt_xkwd _ _ _)) (by dep)
    · exact Ret.mk (h.show _) (by dep)

theorem run_echo (f : Nat) {ed : Ed} (h : Safe ed) (loc cmd arg : Bytes) (txt : Option Bytes) :
    Ret ed.atDepth (runCmd (f + 1) ed "ec_echo" loc cmd arg txt) := by
  rw [runCmd]
  simp (config := {decide := true}) only [if_false, if_true]
  exact Ret.mk (h.print _) (by dep)

/-- the names the dispatcher knows -/
def modelled : List String :=
  ["ec_insert", "ec_print", "ec_null", "ec_delete", "ec_yank", "ec_put", "ec_lnum", "ec_undo", "ec_redo", "ec_mark",
   "ec_rs", "ec_at", "ec_glob", "ec_edit", "ec_substitute", "ec_exec", "ec_read", "ec_write", "ec_quit", "ec_buffer",
   "ec_set", "ec_echo"]

/-- every other handler name (`ec_cmap`, `ec_ft`, `ec_make`, `ec_next`, … and any string at all) is answered with
    "not modelled": return code 1, no trap -/
theorem run_other (f : Nat) (ed : Ed) (hd : String) (hn : hd ∉ modelled) (loc cmd arg : Bytes) (txt : Option Bytes) :
    runCmd (f + 1) ed hd loc cmd arg txt = some (1, { ed with unmodelled := true }) := by
  simp only [modelled, List.mem_cons, List.not_mem_nil, or_false, not_or] at hn
  obtain ⟨h1, h2, h3, h4, h5, h6, h7, h8, h9, h10, h11, h12, h13, h14, h15, h16, h17, h18, h19, h20, h21, h22⟩ := hn
  rw [runCmd]
  simp only [beq_iff_eq, h1, h2, h3, h4, h5, h6, h7, h8, h9, h10, h11, h12, h13, h14, h15, h16, h17, h18, h19, h20,
    h21, h22, if_false, Bool.or_eq_true, or_self]

end Neatvi.Lemmas.C05e
