import NeatviVerif.Lemmas.C07Scan
/-!
# C07 helper lemmas: `lbuf_findchar` on an ASCII line against `Spec.Motion.findChar`
-/
set_option linter.unusedSimpArgs false
set_option linter.unusedVariables false

namespace Neatvi.Lemmas.C07
open Neatvi Neatvi.Uc Neatvi.Mot

/-- `uc_nextdir` as used by `lbuf_findchar`, for a line of `len` characters -/
def stepdOf (len : Int) : Int → Int → Option Int := fun p d =>
  if d < 0 then (if p ≤ 0 then none else some (p - 1))
  else (if p + 1 ≥ len then none else some (p + 1))

/-- occurrences of `c` after position `p`, nearest first -/
def occF (ln : Bytes) (c : Nat) (p : Nat) : List Nat :=
  ((List.range ln.length).drop (p + 1)).filter (fun j => ln.getD j 0 == c)

/-- occurrences of `c` before position `p`, nearest first -/
def occB (ln : Bytes) (c : Nat) (p : Nat) : List Nat :=
  ((List.range p).filter (fun j => ln.getD j 0 == c)).reverse

theorem occF_end (ln : Bytes) (c p : Nat) (h : ln.length ≤ p + 1) : occF ln c p = [] := by
  unfold occF
  rw [List.drop_eq_nil_of_le (by simpa using h)]
  rfl

theorem occF_step (ln : Bytes) (c p : Nat) (h : p + 1 < ln.length) :
    occF ln c p = (if ln.getD (p + 1) 0 == c then [p + 1] else []) ++ occF ln c (p + 1) := by
  unfold occF
  rw [List.drop_eq_getElem_cons (by simpa using h)]
  simp only [List.getElem_range, List.filter_cons]
  split <;> rfl

theorem occB_zero (ln : Bytes) (c : Nat) : occB ln c 0 = [] := rfl

theorem occB_step (ln : Bytes) (c p : Nat) :
    occB ln c (p + 1) = (if ln.getD p 0 == c then [p] else []) ++ occB ln c p := by
  unfold occB
  rw [List.range_succ, List.filter_append, List.reverse_append]
  simp only [List.filter_cons, List.filter_nil]
  split <;> rfl

theorem occF_mem (ln : Bytes) (c p j : Nat) (h : j ∈ occF ln c p) : p < j ∧ j < ln.length := by
  unfold occF at h
  have h1 := (List.mem_filter.mp h).1
  rw [List.mem_iff_getElem] at h1
  obtain ⟨i, hi, he⟩ := h1
  simp at hi
  simp at he
  omega

theorem occB_mem (ln : Bytes) (c p j : Nat) (h : j ∈ occB ln c p) : j < p := by
  unfold occB at h
  have h1 := (List.mem_filter.mp (List.mem_reverse.mp h)).1
  simpa using h1

theorem go_zero (ln : Bytes) (dir : Int) (want : Nat) (st : Int → Int → Option Int) (f : Nat) (p k : Int) (hk : k ≤ 0) :
    findchar.go ln dir want st f p k = (p, k) := by
  cases f with
  | zero => unfold findchar.go; rfl
  | succ f => unfold findchar.go; rw [if_pos hk]

/-- the forward scan finds the `k`-th occurrence after `p` -/
theorem go_fwd (ln : Bytes) (hs : Ascii ln) (c : Nat) (f : Nat) (p : Nat) (k : Int) (hk : 1 ≤ k)
    (hp : p < ln.length) (hf : ln.length - p ≤ f) :
    ∀ p' k', findchar.go ln 1 c (stepdOf ln.length) f p k = (p', k') →
      (k' = 0 → 0 ≤ p' ∧ (occF ln c p)[k.toNat - 1]? = some p'.toNat) ∧
      (k' ≠ 0 → (occF ln c p)[k.toNat - 1]? = none) := by
  induction f generalizing p k with
  | zero => omega
  | succ f ih =>
    intro p' k' hgo
    unfold findchar.go at hgo
    rw [if_neg (by omega)] at hgo
    by_cases hend : (p : Int) + 1 ≥ ln.length
    · have : stepdOf (ln.length : Int) (p : Int) 1 = none := by
        unfold stepdOf; rw [if_neg (by omega), if_pos hend]
      rw [this] at hgo
      simp only [] at hgo
      cases hgo
      rw [occF_end ln c p (by omega)]
      exact ⟨fun h => by omega, fun _ => rfl⟩
    · have : stepdOf (ln.length : Int) (p : Int) 1 = some ((p : Int) + 1) := by
        unfold stepdOf; rw [if_neg (by omega), if_neg hend]
      rw [this] at hgo
      simp only [] at hgo
      have hcode := codeAt_ascii ln hs ((p : Int) + 1) (by omega) (by omega)
      have htn : ((p : Int) + 1).toNat = p + 1 := by omega
      rw [hcode, htn] at hgo
      rw [occF_step ln c p (by omega)]
      by_cases hm : (ln.getD (p + 1) 0 == c) = true
      · rw [if_pos hm] at hgo
        rw [if_pos hm]
        by_cases hk1 : k = 1
        · subst hk1
          rw [go_zero _ _ _ _ _ _ _ (by omega)] at hgo
          cases hgo
          refine ⟨fun _ => ⟨by omega, ?_⟩, fun h => absurd rfl h⟩
          simp
        · have := ih (p + 1) (k - 1) (by omega) (by omega) (by omega) p' k' (by
            rw [← hgo]; congr 1)
          have hidx : k.toNat - 1 = ((k - 1).toNat - 1) + 1 := by omega
          rw [hidx]
          simpa using this
      · rw [if_neg hm] at hgo
        rw [if_neg hm]
        have := ih (p + 1) k hk (by omega) (by omega) p' k' (by rw [← hgo]; congr 1)
        simpa using this

/-- the backward scan finds the `k`-th occurrence before `p` -/
theorem go_bwd (ln : Bytes) (hs : Ascii ln) (c : Nat) (f : Nat) (p : Nat) (k : Int) (hk : 1 ≤ k)
    (hp : p ≤ ln.length) (hf : p ≤ f) :
    ∀ p' k', findchar.go ln (-1) c (stepdOf ln.length) f p k = (p', k') →
      (k' = 0 → 0 ≤ p' ∧ (occB ln c p)[k.toNat - 1]? = some p'.toNat) ∧
      (k' ≠ 0 → (occB ln c p)[k.toNat - 1]? = none) := by
  induction f generalizing p k with
  | zero =>
    intro p' k' hgo
    have : p = 0 := by omega
    subst this
    unfold findchar.go at hgo
    cases hgo
    exact ⟨fun h => by omega, fun _ => rfl⟩
  | succ f ih =>
    intro p' k' hgo
    unfold findchar.go at hgo
    rw [if_neg (by omega)] at hgo
    cases p with
    | zero =>
      have : stepdOf (ln.length : Int) ((0 : Nat) : Int) (-1) = none := by
        unfold stepdOf; simp
      rw [this] at hgo
      simp only [] at hgo
      cases hgo
      exact ⟨fun h => by omega, fun _ => rfl⟩
    | succ q =>
      have : stepdOf (ln.length : Int) ((q + 1 : Nat) : Int) (-1) = some (q : Int) := by
        unfold stepdOf
        rw [if_pos (by omega), if_neg (by omega)]
        congr 1; omega
      rw [this] at hgo
      simp only [] at hgo
      have hcode := codeAt_ascii ln hs (q : Int) (by omega) (by omega)
      have htn : (q : Int).toNat = q := by omega
      rw [hcode, htn] at hgo
      rw [occB_step ln c q]
      by_cases hm : (ln.getD q 0 == c) = true
      · rw [if_pos hm] at hgo
        rw [if_pos hm]
        by_cases hk1 : k = 1
        · subst hk1
          rw [go_zero _ _ _ _ _ _ _ (by omega)] at hgo
          cases hgo
          refine ⟨fun _ => ⟨by omega, ?_⟩, fun h => absurd rfl h⟩
          simp
        · have := ih q (k - 1) (by omega) (by omega) (by omega) p' k' hgo
          have hidx : k.toNat - 1 = ((k - 1).toNat - 1) + 1 := by omega
          rw [hidx]
          simpa using this
      · rw [if_neg hm] at hgo
        rw [if_neg hm]
        have := ih q k hk (by omega) (by omega) p' k' hgo
        simpa using this


theorem filter_gt_eq_drop (n p : Nat) (m : Nat → Bool) :
    (List.range n).filter (fun j => decide (j > p) && m j) = ((List.range n).drop (p + 1)).filter m := by
  induction n with
  | zero => simp
  | succ n ih =>
    rw [List.range_succ, List.filter_append, ih]
    by_cases h : p + 1 ≤ n
    · rw [List.drop_append_of_le_length (by simpa using h), List.filter_append]
      congr 1
      have : decide (n > p) = true := by simp; omega
      simp [List.filter_cons, this]
    · have h1 : (List.range n).drop (p + 1) = [] := List.drop_eq_nil_of_le (by simp; omega)
      have h2 : (List.range n ++ [n]).drop (p + 1) = [] := List.drop_eq_nil_of_le (by simp; omega)
      rw [h1, h2]
      have : decide (n > p) = false := by simp; omega
      simp [List.filter_cons, this]

theorem getD_snoc_lt (w : Bytes) (x j : Nat) (h : j < w.length) : (w ++ [x]).getD j 0 = w.getD j 0 := by
  simp [List.getD, List.getElem?_append_left h]

theorem getD_snoc_eq (w : Bytes) (x : Nat) : (w ++ [x]).getD w.length 0 = x := by
  simp [List.getD]

/-- on `w ++ "\n"` the occurrences of a non-newline `c` are those of the reference, on `w` -/
theorem occF_line (w : Bytes) (c p : Nat) (hc : c ≠ 10) :
    occF (w ++ [10]) c p = (List.range w.length).filter (fun j => decide (j > p) && w.getD j 0 == c) := by
  unfold occF
  rw [← filter_gt_eq_drop]
  simp only [List.length_append, List.length_singleton]
  rw [List.range_succ, List.filter_append]
  have h1 : [w.length].filter (fun j => decide (j > p) && (w ++ [10]).getD j 0 == c) = [] := by
    simp only [List.filter_cons, List.filter_nil, getD_snoc_eq]
    have : (10 == c) = false := by simp; omega
    simp [this]
  rw [h1, List.append_nil]
  apply List.filter_congr
  intro j hj
  simp at hj
  rw [getD_snoc_lt w 10 j hj]

theorem occB_line (w : Bytes) (c p : Nat) (hp : p ≤ w.length) :
    occB (w ++ [10]) c p = ((List.range (min p w.length)).filter (fun j => w.getD j 0 == c)).reverse := by
  unfold occB
  rw [Nat.min_eq_left hp]
  congr 1
  apply List.filter_congr
  intro j hj
  simp at hj
  rw [getD_snoc_lt w 10 j (by omega)]


theorem findchar_unfold (ls : Lines) (r : Int) (ln : Bytes) (hline : lineAt ls r = some ln) (hs : Ascii ln)
    (c : Nat) (hc : c < 128) (cmd : Nat) (n : Int) (hn : 0 < n) (o : Int) (ho' : o < ln.length) :
    findchar ls [c] cmd n r o =
      (match findchar.go ln (if (cmd == 102 || cmd == 116) = true then 1 else -1) c (stepdOf ln.length) (ln.length + 2) o n with
      | (p, k) => if (k != 0) = true then none else
        some (if (cmd == 116 || cmd == 84) = true then
          ((stepdOf ln.length) p (-(if (cmd == 102 || cmd == 116) = true then 1 else -1))).getD p else p)) := by
  unfold findchar
  rw [hline]
  simp only []
  rw [ucSlen_ascii ln hs]
  have hcode : (ucCode [c]).getD 0 = c := by
    rw [ucCode_low [c] (by simpa [Bytes.hd] using hc)]; rfl
  rw [hcode]
  rw [if_neg (show ¬ n < 0 by omega), if_neg (show ¬ n < 0 by omega), if_pos ho']
  rfl

/-- forward (`f`, `t`) -/
theorem findchar_fwd (ls : Lines) (r : Int) (w : Bytes) (hline : lineAt ls r = some (w ++ [10])) (hw : Ascii w)
    (c : Nat) (hc : c < 128) (hc10 : c ≠ 10) (cmd : Nat) (hcmd : cmd = 102 ∨ cmd = 116)
    (n : Int) (hn : 0 < n) (o : Nat) (ho : o ≤ w.length) :
    (findchar ls [c] cmd n r o).map Int.toNat = Spec.Motion.findChar w o c true (cmd == 116) n.toNat ∧
    ∀ p, findchar ls [c] cmd n r o = some p → 0 ≤ p := by
  have hs := ascii_snoc_nl hw
  have hlen : (w ++ [10]).length = w.length + 1 := by simp
  rw [findchar_unfold ls r _ hline hs c hc cmd n hn o (by rw [hlen]; omega)]
  have hdir : (if (cmd == 102 || cmd == 116) = true then (1 : Int) else -1) = 1 := by
    rcases hcmd with h | h <;> subst h <;> rfl
  rw [hdir]
  cases hgo : findchar.go (w ++ [10]) 1 c (stepdOf ((w ++ [10]).length : Nat)) ((w ++ [10]).length + 2) o n with
  | mk p k =>
    obtain ⟨g1, g2⟩ := go_fwd (w ++ [10]) hs c _ o n (by omega) (by rw [hlen]; omega) (by omega) p k hgo
    simp only []
    unfold Spec.Motion.findChar
    have hcnt : (n.toNat == 0) = false := by simp; omega
    simp only [hcnt, Bool.false_eq_true, if_false, if_true]
    rw [← occF_line w c o hc10]
    by_cases hk : k = 0
    · obtain ⟨p0, hocc⟩ := g1 hk
      have hkb : (k != 0) = false := by simp [hk]
      simp only [hkb, Bool.false_eq_true, if_false]
      rw [hocc]
      have hmem := occF_mem _ _ _ _ (List.mem_of_getElem? hocc)
      simp only []
      have hst : stepdOf ((w ++ [10]).length : Nat) p (-1) = some (p - 1) := by
        unfold stepdOf
        rw [if_pos (by omega), if_neg (by omega)]
      rw [hst]
      simp only [Option.getD_some, Option.map_some]
      have htill : (cmd == 116 || cmd == 84) = (cmd == 116) := by
        rcases hcmd with h | h <;> subst h <;> rfl
      rw [htill]
      cases (cmd == 116)
      · simp only [Bool.false_eq_true, if_false]
        exact ⟨trivial, fun q hq => by cases hq; exact p0⟩
      · simp only [if_true]
        refine ⟨?_, fun q hq => by cases hq; omega⟩
        congr 1; omega
    · have hocc := g2 hk
      have hkb : (k != 0) = true := by simp [hk]
      simp only [hkb, if_true]
      rw [hocc]
      exact ⟨rfl, fun q hq => by cases hq⟩

/-- backward (`F`, `T`) -/
theorem findchar_bwd (ls : Lines) (r : Int) (w : Bytes) (hline : lineAt ls r = some (w ++ [10])) (hw : Ascii w)
    (c : Nat) (hc : c < 128) (cmd : Nat) (hcmd : cmd = 70 ∨ cmd = 84)
    (n : Int) (hn : 0 < n) (o : Nat) (ho : o ≤ w.length) :
    (findchar ls [c] cmd n r o).map Int.toNat = Spec.Motion.findChar w o c false (cmd == 84) n.toNat ∧
    ∀ p, findchar ls [c] cmd n r o = some p → 0 ≤ p := by
  have hs := ascii_snoc_nl hw
  have hlen : (w ++ [10]).length = w.length + 1 := by simp
  rw [findchar_unfold ls r _ hline hs c hc cmd n hn o (by rw [hlen]; omega)]
  have hdir : (if (cmd == 102 || cmd == 116) = true then (1 : Int) else -1) = -1 := by
    rcases hcmd with h | h <;> subst h <;> rfl
  rw [hdir]
  cases hgo : findchar.go (w ++ [10]) (-1) c (stepdOf ((w ++ [10]).length : Nat)) ((w ++ [10]).length + 2) o n with
  | mk p k =>
    obtain ⟨g1, g2⟩ := go_bwd (w ++ [10]) hs c _ o n (by omega) (by rw [hlen]; omega) (by omega) p k hgo
    simp only []
    unfold Spec.Motion.findChar
    have hcnt : (n.toNat == 0) = false := by simp; omega
    simp only [hcnt, Bool.false_eq_true, if_false]
    rw [← occB_line w c o ho]
    by_cases hk : k = 0
    · obtain ⟨p0, hocc⟩ := g1 hk
      have hkb : (k != 0) = false := by simp [hk]
      simp only [hkb, Bool.false_eq_true, if_false]
      rw [hocc]
      have hmem := occB_mem _ _ _ _ (List.mem_of_getElem? hocc)
      simp only []
      have hst : stepdOf ((w ++ [10]).length : Nat) p (- -1) = some (p + 1) := by
        unfold stepdOf
        rw [if_neg (by omega), if_neg (by omega)]
      rw [hst]
      simp only [Option.getD_some, Option.map_some]
      have htill : (cmd == 116 || cmd == 84) = (cmd == 84) := by
        rcases hcmd with h | h <;> subst h <;> rfl
      rw [htill]
      cases (cmd == 84)
      · simp only [Bool.false_eq_true, if_false]
        exact ⟨trivial, fun q hq => by cases hq; exact p0⟩
      · simp only [if_true]
        refine ⟨?_, fun q hq => by cases hq; omega⟩
        congr 1; omega
    · have hocc := g2 hk
      have hkb : (k != 0) = true := by simp [hk]
      simp only [hkb, if_true]
      rw [hocc]
      exact ⟨rfl, fun q hq => by cases hq⟩

end Neatvi.Lemmas.C07
