import NeatviVerif.Lemmas.C09cExtra
/-!
# C09c, part 18: between two commands the sequence numbers of the current buffer lie strictly below its counter

The last thing an iteration of `vi()` does is `lbuf_modified(xb)` (twice).  `viPost_end`: the end of an iteration as a
function of the state before it; `boundary_ok`: after an iteration that went through that end, starting from a state
whose numbers lie (weakly) below the counters, the hypotheses `DotSeqOk` and `out = []` of `dot_retyped` hold.
-/
namespace Neatvi.Lemmas.C09c
open Neatvi Neatvi.Uc Neatvi.Lbuf Neatvi.Ex Neatvi.Vi Neatvi.Mot
open Neatvi.Lemmas.C09 (bind_apply pure_apply)
open Neatvi.Lemmas.C09b (viStep_eq_mid stepMid)

theorem seqStrict_bump {lb : Lb} (h : SeqOk lb) : SeqStrict (modified lb).2 := by
  obtain ⟨h1, h2, h3⟩ := h
  refine ⟨?_, ?_, fun e he => ?_⟩
  · show lb.useqZero < lb.useq + 1; omega
  · show lb.useqLast < lb.useq + 1; omega
  · have := h3 e he
    show e.seq < lb.useq + 1
    omega

theorem seqOk_bump {lb : Lb} (h : SeqOk lb) : SeqOk (modified lb).2 := by
  obtain ⟨h1, h2, h3⟩ := seqStrict_bump h
  exact ⟨Nat.le_of_lt h1, Nat.le_of_lt h2, fun e he => Nat.le_of_lt (h3 e he)⟩

/-- after `lbuf_modified(xb)` the numbers of the current buffer lie strictly below its counter -/
theorem dotSeqOk_bumpEd {e : Ed} (h : EdSeqOk e) : DotSeqOk (bumpEd e) := by
  unfold bumpEd
  cases hb : e.bufs with
  | nil =>
    have hl : e.lb = none := by unfold Ed.lb Ed.cur; rw [hb]; rfl
    rw [hl]
    refine ⟨h, fun b hc => ?_⟩
    unfold Ed.cur at hc; rw [hb] at hc; cases hc
  | cons x l =>
    cases x with
    | none =>
      have hl : e.lb = none := by unfold Ed.lb Ed.cur; rw [hb]; rfl
      rw [hl]
      refine ⟨h, fun b hc => ?_⟩
      unfold Ed.cur at hc; rw [hb] at hc; cases hc
    | some b =>
      have hl : e.lb = some b.lb := by unfold Ed.lb Ed.cur; rw [hb]; rfl
      rw [hl]
      have hbufs : (e.setLb (modified b.lb).2).bufs = some { b with lb := (modified b.lb).2 } :: l := by
        simp [Ed.setLb, Ed.cur, Ed.setCur, hb]
      have hb0 : SeqOk b.lb := h b (by rw [hb]; simp)
      refine ⟨fun c hc => ?_, fun c hc => ?_⟩
      · rw [hbufs] at hc
        rcases List.mem_cons.mp hc with e1 | e1
        · cases e1; exact seqOk_bump hb0
        · exact h c (by rw [hb]; simp [e1])
      · unfold Ed.cur at hc
        rw [hbufs] at hc
        cases hc
        exact seqStrict_bump hb0

theorem ite_app {α β : Type} (c : Prop) [Decidable c] (a b : α → β) (x : α) :
    (if c then a else b) x = if c then a x else b x := by split <;> rfl

/-- the unary reading of `Rel2`: the computation keeps the sequence numbers below the counters -/
theorem keeps_seqOk {α : Type} {m : M α} (hm : Rel2 false NoEsc m m) {Z Z' : VS} {a : α} (hZ : EdSeqOk Z.ed)
    (h : m Z = Res.ok a Z') : EdSeqOk Z'.ed := by
  rcases (hm Z Z (Sim.refl hZ false)).noEsc_cases with ⟨b, x, y, r1, r2, h'⟩ | ⟨r1, _⟩ | ⟨r1, _⟩
  · rw [h] at r1; cases r1; exact h'.ed.seqOk_left
  · rw [h] at r1; cases r1
  · rw [h] at r1; cases r1

theorem peel {α : Type} {m : M α} {f : α → M Unit} (hm : Rel2 false NoEsc m m) {Z s : VS} (hZ : EdSeqOk Z.ed)
    (h : (m >>= f) Z = Res.ok () s) : ∃ a Z', EdSeqOk Z'.ed ∧ f a Z' = Res.ok () s := by
  rw [bind_apply] at h
  cases hz : m Z with
  | ok a Z' => rw [hz] at h; exact ⟨a, Z', keeps_seqOk hm hZ hz, h⟩
  | eof => rw [hz] at h; cases h
  | trap => rw [hz] at h; cases h

theorem viWait_out {Z Z2 : VS} (hZ : EdSeqOk Z.ed) (h : viWait Z = Res.ok () Z2) :
    ∃ Z3 : VS, EdSeqOk Z3.ed ∧ Z2 = { Z3 with ed := { Z3.ed with out := [] } } := by
  unfold viWait at h
  simp only [bind_apply, Vi.get] at h
  split at h
  · rw [bind_apply] at h
    cases hl : (ledLine [58] [] [] 0 false) Z with
    | eof => rw [hl] at h; cases h
    | trap => rw [hl] at h; cases h
    | ok a Z3 =>
      rw [hl] at h
      refine ⟨Z3, keeps_seqOk (rel2_ledLine (E := NoEsc) _ _ _ _ _ _) hZ hl, ?_⟩
      cases h
      rfl
  · refine ⟨Z, hZ, ?_⟩
    cases h
    rfl

/-- the last three steps of an iteration -/
theorem postTail_end {Z s : VS} (hZ : EdSeqOk Z.ed)
    (h : (do viWait; lbufModified; lbufModified : M Unit) Z = Res.ok () s) :
    ∃ Y : VS, EdSeqOk Y.ed ∧ s = { Y with ed := bumpEd (bumpEd { Y.ed with out := [] }) } := by
  rw [bind_apply] at h
  cases hw : viWait Z with
  | eof => rw [hw] at h; cases h
  | trap => rw [hw] at h; cases h
  | ok u Z2 =>
    rw [hw] at h
    obtain ⟨Y, hy, e⟩ := viWait_out hZ hw
    refine ⟨Y, hy, ?_⟩
    subst e
    cases h
    rfl

/-- **the end of an iteration**: whatever the iteration did, it ends with the pending output dropped and two bumps of
the counter of the current buffer -/
theorem viPost_end (mod : Nat) (X s : VS) (hq : X.ed.xquit = false) (hX : EdSeqOk X.ed)
    (h : viPost (some mod) X = Res.ok () s) :
    ∃ Y : VS, EdSeqOk Y.ed ∧ s = { Y with ed := bumpEd (bumpEd { Y.ed with out := [] }) } := by
  rw [Lemmas.C07.viPost_some, bind_apply, viWfix_eq] at h
  unfold Lemmas.C07.viPostRest at h
  have hq1 : (wfixEd X).xquit = false := hq
  -- every step but the last three only updates `xcol` and `xleft`
  have key : ∀ (REST : M Unit), (∀ Z, EdSeqOk Z.ed → REST Z = Res.ok () s →
      ∃ Y : VS, EdSeqOk Y.ed ∧ s = { Y with ed := bumpEd (bumpEd { Y.ed with out := [] }) }) →
      (do
        let s ← Vi.get
        if s.ed.xquit then pure () else
        if mod != 0 then Vi.modify fun s => { s with xcol := off2col s s.ed.xrow s.ed.xoff }
        let s ← Vi.get
        let xcol := s.xcol
        if xcol ≥ s.ed.xleft + s.xcols then withEd fun ed => { ed with xleft := xcol - s.xcols / 2 }
        let s ← Vi.get
        if xcol < s.ed.xleft then withEd fun ed => { ed with xleft := if xcol < s.xcols then 0 else xcol - s.xcols / 2 }
        REST : M Unit) { X with ed := wfixEd X } = Res.ok () s →
      ∃ Y : VS, EdSeqOk Y.ed ∧ s = { Y with ed := bumpEd (bumpEd { Y.ed with out := [] }) } := by
    intro REST hR h
    simp only [bind_apply, Vi.get, hq1, Bool.false_eq_true, if_false] at h
    repeat' (first | (split at h) | (simp only [ite_app, bind_apply, Vi.get, Vi.modify, withEd] at h))
    all_goals (refine hR _ ?_ h; exact hX)
  exact key _ (fun Z hZ hz => postTail_end hZ hz) h


theorem rel2_stepMid {E : Option Nat → Option Nat → Prop} (mv r o : Int) : Rel2 false E (stepMid mv r o) (stepMid mv r o) := by
  unfold stepMid
  rel_tac

theorem dotSeqOk_bump2 {e : Ed} (h : EdSeqOk e) : DotSeqOk (bumpEd (bumpEd e)) := dotSeqOk_bumpEd (dotSeqOk_bumpEd h).1

/-- **between two commands**: after an iteration that went through its end (`stepMid` returned `some mod`, the editor
is not quitting), from a state whose sequence numbers lie below the counters: the numbers of every buffer lie below
its counter, those of the current buffer strictly, and no output is pending -/
theorem boundary_ok (s0 s1 X s : VS) (mv r o : Int) (mod : Nat) (h0 : EdSeqOk s0.ed)
    (hpre : viPre s0 = Res.ok (mv, r, o) s1) (hmid : stepMid mv r o s1 = Res.ok (some mod) X)
    (hq : X.ed.xquit = false) (hs : viStep s0 = Res.ok () s) : DotSeqOk s.ed ∧ s.ed.out = [] := by
  have h1 : EdSeqOk s1.ed := keeps_seqOk rel2_viPre h0 hpre
  have hX : EdSeqOk X.ed := keeps_seqOk (rel2_stepMid (E := NoEsc) mv r o) h1 hmid
  rw [viStep_eq_mid, bind_apply, hpre] at hs
  simp only [] at hs
  rw [bind_apply, hmid] at hs
  obtain ⟨Y, hy, e⟩ := viPost_end mod X s hq hX hs
  subst e
  have hy' : EdSeqOk ({ Y.ed with out := [] } : Ed) := hy
  exact ⟨dotSeqOk_bump2 hy', by show (bumpEd (bumpEd _)).out = []; rw [bumpEd_out, bumpEd_out]⟩

/-! ### what related states show alike, spelled out -/

theorem all2_paths {l l' : List (Option Buf)} (h : All2 (OBufRel false) l l') :
    l.map (Option.map (·.path)) = l'.map (Option.map (·.path)) := by
  induction h with
  | nil => rfl
  | cons h1 _ ih => simp only [List.map_cons, ih, h1.path_eq]

theorem bufsRel_paths {w : Bool} {l l' : List (Option Buf)} (h : BufsRel w l l') :
    l.map (Option.map (·.path)) = l'.map (Option.map (·.path)) := by
  cases l <;> cases l'
  · rfl
  · exact h.elim
  · exact h.elim
  · simp only [List.map_cons, all2_paths h.2, h.1.path_eq]

/-- **what two related `ex` states show alike**: the text of the current buffer, the cursor, the registers, the dirty
flag of the current buffer, the names of all buffers, the window; and, without the exemption, all marks -/
theorem EdRel.observables {w : Bool} {a b : Ed} (h : EdRel w a b) :
    a.lb.map (·.lines) = b.lb.map (·.lines) ∧ a.xrow = b.xrow ∧ a.xoff = b.xoff ∧ a.regs = b.regs ∧
    a.lb.map (fun l => (modified l).1) = b.lb.map (fun l => (modified l).1) ∧
    a.bufs.map (Option.map (·.path)) = b.bufs.map (Option.map (·.path)) ∧ a.xtop = b.xtop ∧ a.xleft = b.xleft ∧
    (w = false → a.lb.map (·.mark) = b.lb.map (·.mark) ∧ a.lb.map (·.markOff) = b.lb.map (·.markOff)) := by
  refine ⟨h.lines_eq, h.xrow, h.xoff, h.regs, ?_, bufsRel_paths h.bufs, h.xtop, h.xleft, ?_⟩
  · rcases h.lb_cases with ⟨r1, r2⟩ | ⟨la, lb, r1, r2, hl⟩
    · rw [r1, r2]
    · rw [r1, r2]
      simp only [Option.map_some, (modified_rel hl).1]
  · intro hw
    subst hw
    rcases h.lb_cases with ⟨r1, r2⟩ | ⟨la, lb, r1, r2, hl⟩
    · rw [r1, r2]; exact ⟨rfl, rfl⟩
    · rw [r1, r2]
      simp only [Option.map_some, hl.mark_eq, hl.markOff_eq]
      exact ⟨trivial, trivial⟩

end Neatvi.Lemmas.C09c
