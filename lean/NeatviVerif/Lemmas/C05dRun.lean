import NeatviVerif.Lemmas.C05dVisit
/-!
# C05d lemmas, part 5: `:g`, `:@`, `:e`, command lines, `ex_command`; the induction on the fuel

The invariant `PosOk M` is kept by a whole run provided every visited state (`VCommand …`) has the length of its
current buffer under the cap `M`; without a cap (`M = none`) the side condition is void.
-/
namespace Neatvi.Lemmas.C05d
open Neatvi Neatvi.Lbuf Neatvi.LbufIo Neatvi.Ex Neatvi.Rset Neatvi.Lemmas.ExFrame Neatvi.Lemmas.C02Ex
open Neatvi.Lemmas.C06b Neatvi.Lemmas.C02c

variable {M : Option Int}

/-- running a line with fuel `f` keeps the invariant, given the cap on the visited states -/
def ExecOK (M : Option Int) (f : Nat) : Prop := ∀ ed ln r ed', PosOk M ed → exExec f ed ln = some (r, ed') →
  (∀ s, VExec f ed ln s → LenLe M s.len) → PosOk M ed' ∧ ∀ s, VExec f ed ln s → PosOk M s
def CmdOK (M : Option Int) (f : Nat) : Prop := ∀ ed ln r ed', PosOk M ed → exCommand f ed ln = some (r, ed') →
  (∀ s, VCommand f ed ln s → LenLe M s.len) → PosOk M ed' ∧ ∀ s, VCommand f ed ln s → PosOk M s
def RunOK (M : Option Int) (f : Nat) : Prop := ∀ ed h loc cmd arg txt r ed', PosOk M ed →
  runCmd f ed h loc cmd arg txt = some (r, ed') → LenLe M ed'.len →
  (∀ s, VRun f ed h loc cmd arg txt s → LenLe M s.len) → PosOk M ed' ∧ ∀ s, VRun f ed h loc cmd arg txt s → PosOk M s

theorem fr_exTxt (ed : Ed) (src abbr : Bytes) : Fr ed (exTxt ed src abbr).2 := by
  unfold exTxt
  simp only []
  repeat' split
  all_goals exact ⟨rfl, rfl, rfl⟩

/-! ### `:g` -/

theorem adv_pos (dep : Nat) : ∀ (h : Nat) (ed : Ed) (i : Int), PosOk M ed →
    PosOk M (ecGlob.scan.adv dep h ed i).1 ∧ i ≤ (ecGlob.scan.adv dep h ed i).2 := by
  intro h
  induction h with
  | zero => intro ed i hi; rw [ecGlob.scan.adv]; exact ⟨hi, Int.le_refl _⟩
  | succ h ih =>
    intro ed i hi
    rw [ecGlob.scan.adv]
    split
    · exact ⟨hi, Int.le_refl _⟩
    · split
      · exact ⟨hi, Int.le_refl _⟩
      · rename_i lb hlb
        simp only []
        have e1 : PosOk M (ed.setLb (globGet lb i.toNat dep).2) := posOk_setLb hi (lbPos_globGet (hi.lbPos hlb) _ _)
        split
        · exact ⟨e1, Int.le_refl _⟩
        · obtain ⟨a, b⟩ := ih _ (i + 1) e1
          exact ⟨a, by omega⟩

/-- one round of the loop of `:g` -/
theorem globStep_pos (f : Nat) (neg : Bool) (body : Bytes) (re : RStr) (hbody : ExecOK M f) {ed ed2 : Ed} {i i2 : Int}
    {st : Bool} (hi : PosOk M ed) (hrow : RowOk M i) (hs : globStep f neg body re ed i = some (st, ed2, i2))
    (hv : ∀ ln res x s, ed.line i = some ln → rstrFind re ln 16 0 ND NG = some (res, x) → ((res < 0) == neg) = true →
      VExec f { ed with xrow := i } body s → LenLe M s.len) :
    PosOk M ed2 ∧ ∀ ln res x s, ed.line i = some ln → rstrFind re ln 16 0 ND NG = some (res, x) →
      ((res < 0) == neg) = true → VExec f { ed with xrow := i } body s → PosOk M s := by
  unfold globStep at hs
  split at hs
  · cases hs
  · rename_i ln0 hline
    split at hs
    · cases hs
    · rename_i res0 x0 y0 hfind
      split at hs
      · rename_i hneg
        split at hs
        · cases hs
        · rename_i r1 ed1 hx
          obtain ⟨p1, q1⟩ := hbody { ed with xrow := i } _ _ _ (hi.row rfl hrow rfl) hx
            (fun s hs' => hv ln0 res0 (x0, y0) s hline hfind hneg hs')
          refine ⟨?_, ?_⟩
          · split at hs
            · cases hs; exact p1
            · cases hs; exact p1
          · intro ln res x s h1 h2 _ hs'
            exact q1 s hs'
      · rename_i hneg
        cases hs
        refine ⟨hi, ?_⟩
        intro ln res x s h1 h2 h3 _
        rw [hline] at h1; cases h1
        rw [hfind] at h2; cases h2
        exact absurd h3 hneg

theorem scan_pos (f : Nat) (neg : Bool) (body : Bytes) (re : RStr) (dep : Nat) (hbody : ExecOK M f) :
    ∀ (g : Nat) (ed : Ed) (i : Int) (ed' : Ed), PosOk M ed → 0 ≤ i → ecGlob.scan f neg body re dep g ed i = some ed' →
      (∀ s, VScan f neg body re dep g ed i s → LenLe M s.len) →
      PosOk M ed' ∧ ∀ s, VScan f neg body re dep g ed i s → PosOk M s := by
  intro g
  induction g with
  | zero => intro ed i ed' _ _ h; rw [ecGlob.scan] at h; cases h
  | succ g ih =>
    intro ed i ed' hi h0 h hv
    rw [scan_succ] at h
    split at h
    · rename_i hge
      cases h
      refine ⟨hi, ?_⟩
      intro s hs
      cases hs with
      | here hlt => exact absurd hge hlt
      | body hlt _ _ _ _ => exact absurd hge hlt
      | next hlt _ _ _ => exact absurd hge hlt
    · rename_i hlt
      have hle : LenLe M ed.len := hv ed (VScan.here hlt)
      have hrow : RowOk M i := RowOk.of_le (by omega) (by omega) hle
      cases hstep : globStep f neg body re ed i with
      | none => rw [hstep] at h; cases h
      | some z =>
        obtain ⟨st, ed2, i2⟩ := z
        rw [hstep] at h
        obtain ⟨p2, q2⟩ := globStep_pos f neg body re hbody hi hrow hstep
          (fun ln res x s h1 h2 h3 hs => hv s (VScan.body hlt h1 h2 h3 hs))
        cases st with
        | true =>
          simp only [] at h
          cases h
          refine ⟨p2, ?_⟩
          intro s hs
          cases hs with
          | here _ => exact hi
          | body _ h1 h2 h3 hs' => exact q2 _ _ _ s h1 h2 h3 hs'
          | next _ hs2 _ _ => rw [hstep] at hs2; cases hs2
        | false =>
          simp only [] at h
          split at h
          · cases h
          · rename_i hnn
            obtain ⟨a, b⟩ := adv_pos (M := M) dep (ed2.len.toNat + 1) ed2 i2 p2
            obtain ⟨a', b'⟩ := ih _ _ _ a (by omega) h (fun s hs' => hv s (VScan.next hlt hstep hnn hs'))
            refine ⟨a', ?_⟩
            intro s hs
            cases hs with
            | here _ => exact hi
            | body _ h1 h2 h3 hs' => exact q2 _ _ _ s h1 h2 h3 hs'
            | next _ hs2 _ hrest =>
              rw [hstep] at hs2
              cases hs2
              exact b' s hrest

theorem gMark_pos {ed : Ed} (b e : Int) (dep : Nat) (h : PosOk M ed) : PosOk M (gMark ed b e dep) := by
  unfold gMark
  refine foldl_inv (PosOk M) _ ?_ _ _ (h.to rfl rfl rfl)
  intro s k hs
  exact posOk_updLb (fun lb => globSet lb (b.toNat + 1 + k) dep) (fun lb hl => lbPos_globSet hl _ _) hs

theorem gSweep_pos {ed : Ed} (dep : Nat) (h : PosOk M ed) : PosOk M (gSweep ed dep) := by
  unfold gSweep
  exact posOk_updLb (fun lb => (List.range lb.lines.length).foldl (fun lb k => (globGet lb k dep).2) lb)
    (fun lb hl => foldl_inv LbPos _ (fun s k hs => lbPos_globGet hs _ _) _ _ hl) h

theorem fr_gPrep (ed : Ed) (arg : Bytes) : Fr ed (gPrep ed arg) := by
  unfold gPrep
  repeat' split
  all_goals exact ⟨rfl, rfl, rfl⟩

theorem ecGlob_pos (f : Nat) (hbody : ExecOK M f) (ed ed' : Ed) (loc cmd arg : Bytes) (r : Int) (hi : PosOk M ed)
    (h : ecGlob (f + 1) ed loc cmd arg = some (r, ed'))
    (hv : ∀ s, VGlob (f + 1) ed loc cmd arg s → LenLe M s.len) :
    PosOk M ed' ∧ ∀ s, VGlob (f + 1) ed loc cmd arg s → PosOk M s := by
  rw [ecGlob_eq'] at h
  by_cases hdep : ed.xgdep ≥ 7
  · rw [if_pos hdep] at h
    cases h
    refine ⟨hi.to rfl rfl rfl, ?_⟩
    intro s hs
    cases hs with
    | scan hlt _ _ _ _ _ => omega
  rw [if_neg hdep] at h
  -- the scan, when the run gets there
  have hscan : ∀ rc b e ed1 re ed2,
      exRegion ed (if loc.isEmpty && ed.xgdep == 0 then [37] else loc) = some ((rc, b, e), ed1) → (rc != 0) = false →
      ((gPrep ed1 arg).xkwddir == 0) = false → (gPrep ed1 arg).mkRe (gPrep ed1 arg).xkwd = some (some re) →
      ecGlob.scan f (hasBang cmd || cmd.headD 0 == 118) (reRead arg).2 re ((gPrep ed1 arg).xgdep + 1)
        (gBudget (gMark (gPrep ed1 arg) b e ((gPrep ed1 arg).xgdep + 1)))
        (gMark (gPrep ed1 arg) b e ((gPrep ed1 arg).xgdep + 1)) b = some ed2 →
      PosOk M ed2 ∧ ∀ s, VScan f (hasBang cmd || cmd.headD 0 == 118) (reRead arg).2 re ((gPrep ed1 arg).xgdep + 1)
        (gBudget (gMark (gPrep ed1 arg) b e ((gPrep ed1 arg).xgdep + 1)))
        (gMark (gPrep ed1 arg) b e ((gPrep ed1 arg).xgdep + 1)) b s → PosOk M s := by
    intro rc b e ed1 re ed2 hr hrc hkw hre hsc
    obtain ⟨hreg, hbe, _⟩ := exRegion_ok hr
    have e1 : PosOk M ed1 := hi.reg hreg
    have e2 : PosOk M (gPrep ed1 arg) := e1.fr (fr_gPrep ed1 arg)
    obtain ⟨b0, _, _⟩ := hbe (by simpa using hrc)
    have e4 := gMark_pos (M := M) b e ((gPrep ed1 arg).xgdep + 1) e2
    exact scan_pos f _ _ _ _ hbody _ _ _ _ e4 b0 hsc (fun s hs => hv s (VGlob.scan (by omega) hr hrc hkw hre hs))
  constructor
  · split at h
    · cases h
    · rename_i rc b e ed1 hr
      obtain ⟨hreg, hbe, _⟩ := exRegion_ok hr
      have e1 : PosOk M ed1 := hi.reg hreg
      have e2 : PosOk M (gPrep ed1 arg) := e1.fr (fr_gPrep ed1 arg)
      split at h
      · cases h; exact e1
      · rename_i hrc
        split at h
        · cases h; exact e2
        · rename_i hkw
          split at h
          · cases h
          · cases h; exact e2
          · rename_i re hre
            split at h
            · cases h
            · rename_i ed2 hsc
              cases h
              have e3 := (hscan _ _ _ _ _ _ hr (by simpa using hrc) (by simpa using hkw) hre hsc).1
              exact (gSweep_pos _ e3).to rfl rfl rfl
  · intro s hs
    cases hs with
    | scan _ hr hrc hkw hre hsv =>
      rw [hr] at h
      simp only [] at h
      rw [if_neg (by simpa using hrc), if_neg (by simpa using hkw), hre] at h
      simp only [] at h
      split at h
      · cases h
      · rename_i ed2 hsc
        exact (hscan _ _ _ _ _ _ hr hrc hkw hre hsc).2 s hsv

/-! ### `:@` -/

theorem ecAt_pos (f : Nat) (hcmd : CmdOK M f) (ed ed' : Ed) (loc cmd arg : Bytes) (r : Int) (hi : PosOk M ed)
    (h : ecAt (f + 1) ed loc cmd arg = some (r, ed'))
    (hv : ∀ s, VAt (f + 1) ed loc cmd arg s → LenLe M s.len) :
    PosOk M ed' ∧ ∀ s, VAt (f + 1) ed loc cmd arg s → PosOk M s := by
  rw [ecAt] at h
  -- the nested command line, when the run gets there
  have hnest : ∀ buf rc b e ed1 r2 ed2, regGet ed (regName arg) = some buf → exRegion ed loc = some ((rc, b, e), ed1) →
      (rc != 0) = false → ed1.atDepth < 16 → (cmd.headD 0 == 114 && cmd.getD 1 0 == 97) = false →
      exCommand f { ed1 with xrow := b, atDepth := ed1.atDepth + 1 } buf = some (r2, ed2) →
      PosOk M ed2 ∧ ∀ s, VCommand f { ed1 with xrow := b, atDepth := ed1.atDepth + 1 } buf s → PosOk M s := by
    intro buf rc b e ed1 r2 ed2 hreg0 hr hrc hdp hra hc
    obtain ⟨hreg, hbe, hb⟩ := exRegion_ok hr
    have e1 := hi.reg hreg
    obtain ⟨b0, _, _⟩ := hbe (by simpa using hrc)
    have hrow : RowOk M b := hi.row_reg (by omega) hb
    exact hcmd { ed1 with xrow := b, atDepth := ed1.atDepth + 1 } _ _ _ (e1.row rfl hrow rfl) hc
      (fun s hs => hv s (VAt.cmd hreg0 hr hrc hdp hra hs))
  constructor
  · split at h
    · cases h; exact hi
    · rename_i buf hreg0
      split at h
      · cases h
      · rename_i rc b e ed1 hr
        obtain ⟨hreg, hbe, hb⟩ := exRegion_ok hr
        have e1 := hi.reg hreg
        split at h
        · cases h; exact e1
        · rename_i hrc
          obtain ⟨b0, _, _⟩ := hbe (by simpa using hrc)
          have hrow : RowOk M b := hi.row_reg (by omega) hb
          have e2 : PosOk M { ed1 with xrow := b } := e1.row rfl hrow rfl
          split at h
          · cases h; exact e1.to rfl rfl rfl
          · rename_i hdp
            simp only [] at h
            split at h
            · cases h; exact e2.to rfl rfl rfl
            · rename_i hra
              split at h
              · cases h
              · rename_i r2 ed2 hx
                cases h
                exact ((hnest _ _ _ _ _ _ _ hreg0 hr (by simpa using hrc) (by omega) (by simpa using hra) hx).1).to
                  rfl rfl rfl
  · intro s hs
    cases hs with
    | cmd hreg0 hr hrc hdp hra hsv =>
      rw [hreg0] at h
      simp only [] at h
      rw [hr] at h
      simp only [] at h
      rw [if_neg (by simpa using hrc), if_neg (by omega), if_neg (by simpa using hra)] at h
      split at h
      · cases h
      · rename_i r2 ed2 hx
        exact (hnest _ _ _ _ _ _ _ hreg0 hr hrc hdp hra hx).2 s hsv

/-! ### `:e` -/

theorem clampRow_ok {ed : Ed} (h : PosOk M ed) (x len : Int) (hx : RowOk M x) : RowOk M (clampRow x len) := by
  have z := h.row_zero
  unfold clampRow
  exact ⟨by omega, fun m hm => by have a := hx.2 m hm; have b := z.2 m hm; omega⟩

theorem editRead_pos {ed ed' : Ed} {b : Buf} (h : PosOk M ed) (hb : ed.cur = some b) (hr : editRead ed b = some ed') :
    PosOk M ed' ∧ ed'.xrow = ed.xrow := by
  unfold editRead at hr
  split at hr
  · split at hr
    · cases hr; exact ⟨h, rfl⟩
    · split at hr
      · cases hr
      · rename_i lb1 hrd
        cases hr
        exact ⟨(posOk_setLb (lb := lb1) h (lbPos_rd (h.curPos hb).lb _ _ _ _ _ hrd)).fr (fr_show _ _),
          (setLb_fr_pos ed lb1).1⟩
  · cases hr; exact ⟨h, rfl⟩

theorem editFinish_pos {ed ed' : Ed} {path : Bytes} (h : PosOk M ed) (hf : editFinish ed path = some ed') :
    PosOk M ed' := by
  unfold editFinish at hf
  split at hf
  · cases hf
  · rename_i b hb
    split at hf
    · cases hf
    · rename_i ed1 hrd
      obtain ⟨p1, hx⟩ := editRead_pos h hb hrd
      split at hf
      · cases hf
      · rename_i b1 hb1
        simp only [] at hf
        cases hf
        have hb1p := p1.curPos hb1
        let b2 : Buf := { b1 with lb := (modified (savedCore b1.lb (!path.isEmpty))).2, mtime := ed1.mtimeOf b1.path }
        have p2 : PosOk M (ed1.setCur b2) :=
          posOk_setCur p1 ⟨lbPos_modified (lbPos_savedCore hb1p.lb _), hb1p.row, hb1p.off⟩
        exact p2.row0 rfl (clampRow_ok p1 _ _ p1.xrow) rfl

theorem editStage_pos {ed : Ed} {cmd arg : Bytes} {x : Sum (Int × Ed) Ed} (hi : PosOk M ed)
    (h : editStage ed cmd arg = some x) : PosOk M (match x with | .inl y => y.2 | .inr e => e) := by
  unfold editStage at h
  split at h
  · cases h
  · rename_i ed1 hg
    cases h
    exact (posOk_guard hi hg).1
  · rename_i ed1 hg
    have e1 : PosOk M ed1 := (posOk_guard hi hg).1
    split at h
    · cases h
    · rename_i ed2 hp
      cases h
      exact e1.fr (fr_pathExpand hp)
    · rename_i path ed2 hp
      have e2 : PosOk M ed2 := e1.fr (fr_pathExpand hp)
      have e3 : PosOk M (Props.C20.ewPre ed2 cmd path) := by
        unfold Props.C20.ewPre; split
        · exact posOk_bufsSwitch _ e2
        · exact e2
      split at h
      · cases h
        exact posOk_bufsSwitch _ e3
      · split at h
        · cases h
        · rename_i ed3 hg2
          cases h
          unfold editGuard2 at hg2
          exact (posOk_guard e3 hg2).1
        · rename_i ed3 hg2
          have e3g : PosOk M ed3 := by unfold editGuard2 at hg2; exact (posOk_guard e3 hg2).1
          have e4 : PosOk M (editOpen ed3 path) := by
            unfold editOpen; split
            · exact posOk_bufsSwitch _ (posOk_bufsOpen _ e3g)
            · exact e3g
          split at h
          · cases h
          · rename_i ed5 hfin
            cases h
            exact editFinish_pos e4 hfin

theorem ecEdit_pos (f : Nat) (hcmd : CmdOK M f) (ed ed' : Ed) (cmd arg : Bytes) (r : Int) (hi : PosOk M ed)
    (h : ecEdit (f + 1) ed cmd arg = some (r, ed'))
    (hv : ∀ s, VEdit (f + 1) ed cmd arg s → LenLe M s.len) :
    PosOk M ed' ∧ ∀ s, VEdit (f + 1) ed cmd arg s → PosOk M s := by
  rw [ecEdit_stage] at h
  constructor
  · split at h
    · cases h
    · rename_i x hs
      cases h
      exact editStage_pos hi hs
    · rename_i edX hs
      have p : PosOk M edX := editStage_pos hi hs
      unfold editPlus at h
      split at h
      · rename_i hplus
        exact (hcmd _ _ _ _ p h (fun s hs' => hv s (VEdit.plus hs hplus hs'))).1
      · cases h; exact p
  · intro s hs
    cases hs with
    | start hst hplus =>
      exact editStage_pos hi hst
    | plus hst hplus hsv =>
      rw [hst] at h
      simp only [] at h
      unfold editPlus at h
      rw [if_pos hplus] at h
      exact (hcmd _ _ _ _ (editStage_pos hi hst) h (fun s hs' => hv s (VEdit.plus hst hplus hs'))).2 s hsv

/-! ### command lines -/

theorem cmds_pos (f : Nat) (hrun : RunOK M f) :
    ∀ (g : Nat) (ed : Ed) (ln : Bytes) (ret r : Int) (ed' : Ed), PosOk M ed →
      exExec.cmds f g ed ln ret = some (r, ed') → (∀ s, VCmds f g ed ln ret s → LenLe M s.len) →
      PosOk M ed' ∧ ∀ s, VCmds f g ed ln ret s → PosOk M s := by
  intro g
  induction g with
  | zero =>
    intro ed ln ret r ed' hi h _
    rw [exExec.cmds] at h; cases h
    exact ⟨hi, fun s hs => by cases hs⟩
  | succ g ih =>
    intro ed ln ret r ed' hi h hv
    rw [cmds_succ] at h
    split at h
    · rename_i hemp
      cases h
      refine ⟨hi, ?_⟩
      intro s hs
      cases hs with
      | ret hne _ => rw [hemp] at hne; cases hne
      | inner hne _ _ => rw [hemp] at hne; cases hne
      | later hne _ _ => rw [hemp] at hne; cases hne
    · rename_i hne
      have hne' : ln.isEmpty = false := by simpa using hne
      split at h
      · cases h
      · rename_i r1 ed1 rest hone
        have key : PosOk M ed1 ∧ ∀ a hh s, (parse1 ln).idx = some (a, hh) →
            VRun f (exTxt ed (parse1 ln).rest a).2 hh (parse1 ln).loc (parse1 ln).cmd (parse1 ln).arg
              (exTxt ed (parse1 ln).rest a).1.1 s → PosOk M s := by
          have hone' := hone
          unfold runOne at hone
          split at hone
          · rename_i hidx
            cases hone
            refine ⟨(hi.fr (fr_exTxt _ _ _)).fr (fr_show _ _), ?_⟩
            intro a hh s hidx' _
            rw [hidx] at hidx'; cases hidx'
          · rename_i a hh hidx
            split at hone
            · cases hone
            · rename_i r2 ed2 hr
              cases hone
              have ha : abbrOf (parse1 ln).idx = a := by rw [hidx]; rfl
              rw [ha] at hr
              obtain ⟨p, q⟩ := hrun _ _ _ _ _ _ _ _ (hi.fr (fr_exTxt _ _ _)) hr (hv _ (VCmds.ret hne' hone'))
                (fun s hs => hv s (VCmds.inner hne' hidx hs))
              refine ⟨p, ?_⟩
              intro a' hh' s hidx' hs
              rw [hidx] at hidx'; cases hidx'
              exact q s hs
        obtain ⟨p1, q1⟩ := key
        obtain ⟨a, b⟩ := ih _ _ _ _ _ p1 h (fun s hs => hv s (VCmds.later hne' hone hs))
        refine ⟨a, ?_⟩
        intro s hs
        cases hs with
        | ret _ h1 => rw [hone] at h1; cases h1; exact p1
        | inner _ hidx hs' => exact q1 _ _ s hidx hs'
        | later _ h1 h2 =>
          rw [hone] at h1
          cases h1
          exact b s h2

theorem exExec_pos (f : Nat) (hrun : RunOK M f) : ExecOK M (f + 1) := by
  intro ed ln r ed' hi h hv
  rw [exExec] at h
  split at h
  · rename_i hlong
    cases h
    refine ⟨hi.fr (fr_show _ _), ?_⟩
    intro s hs
    cases hs with
    | cmds hlt _ => omega
  · rename_i hlen
    obtain ⟨a, b⟩ := cmds_pos f hrun _ _ _ _ _ _ hi h (fun s hs => hv s (VExec.cmds (by omega) hs))
    refine ⟨a, ?_⟩
    intro s hs
    cases hs with
    | cmds _ hs' => exact b s hs'

theorem exCommand_pos (f : Nat) (hx : ExecOK M f) : CmdOK M (f + 1) := by
  intro ed ln r ed' hi h hv
  rw [exCommand] at h
  split at h
  · cases h
  · rename_i r1 ed1 he
    cases h
    obtain ⟨a, b⟩ := hx _ _ _ _ hi he (fun s hs => hv s (VCommand.exec hs))
    refine ⟨(posOk_modifiedAt 0 a).1, ?_⟩
    intro s hs
    cases hs with
    | exec hs' => exact b s hs'

theorem runCmd_at (f : Nat) (ed : Ed) (loc cmd arg : Bytes) (txt : Option Bytes) :
    runCmd (f + 1) ed "ec_at" loc cmd arg txt = ecAt f ed loc cmd arg := by
  rw [runCmd]
  simp only [String.reduceBEq, Bool.false_eq_true, ↓reduceIte, Bool.or_self]

theorem runCmd_glob (f : Nat) (ed : Ed) (loc cmd arg : Bytes) (txt : Option Bytes) :
    runCmd (f + 1) ed "ec_glob" loc cmd arg txt = ecGlob f ed loc cmd arg := by
  rw [runCmd]
  simp only [String.reduceBEq, Bool.false_eq_true, ↓reduceIte, Bool.or_self]

theorem runCmd_ok (f : Nat) (hx : ExecOK M f) (hc : CmdOK M f) : RunOK M (f + 2) := by
  intro ed hd loc cmd arg txt r ed' hi h hl hv
  constructor
  · refine runCmd_pos (f + 1) ed ed' hd loc cmd arg txt r ?_ ?_ ?_ hi h hl
    · intro hhd r0 ed0' h0
      subst hhd
      exact (ecAt_pos f hc ed ed0' loc cmd arg r0 hi h0 (fun s hs => hv s (VRun.at hs))).1
    · intro hhd r0 ed0' h0
      subst hhd
      exact (ecGlob_pos f hx ed ed0' loc cmd arg r0 hi h0 (fun s hs => hv s (VRun.glob hs))).1
    · intro hhd r0 ed0' h0
      subst hhd
      exact (ecEdit_pos f hc ed ed0' cmd arg r0 hi h0 (fun s hs => hv s (VRun.edit hs))).1
  · intro s hs
    cases hs with
    | «at» hs' =>
      rw [runCmd_at] at h
      exact (ecAt_pos f hc ed ed' loc cmd arg r hi h (fun s hs => hv s (VRun.at hs))).2 s hs'
    | glob hs' =>
      rw [runCmd_glob] at h
      exact (ecGlob_pos f hx ed ed' loc cmd arg r hi h (fun s hs => hv s (VRun.glob hs))).2 s hs'
    | edit hs' =>
      rw [runCmd_edit] at h
      exact (ecEdit_pos f hc ed ed' cmd arg r hi h (fun s hs => hv s (VRun.edit hs))).2 s hs'

theorem runOK_zero : RunOK M 0 := by
  intro ed hd loc cmd arg txt r ed' _ h; rw [runCmd] at h; cases h

theorem runOK_one : RunOK M 1 := by
  intro ed hd loc cmd arg txt r ed' hi h hl _
  constructor
  · refine runCmd_pos 0 ed ed' hd loc cmd arg txt r ?_ ?_ ?_ hi h hl
    · intro _ r ed' h; rw [ecAt] at h; cases h
    · intro _ r ed' h; rw [ecGlob] at h; cases h
    · intro _ r ed' h; rw [ecEdit] at h; cases h
  · intro s hs
    cases hs with
    | «at» hs' => cases hs'
    | glob hs' => cases hs'
    | edit hs' => cases hs'

/-- **every ex command line keeps the position invariant, whatever the fuel** -/
theorem all_ok (M : Option Int) : ∀ f : Nat, ExecOK M f ∧ CmdOK M f ∧ RunOK M f ∧ RunOK M (f + 1) := by
  intro f
  induction f with
  | zero =>
    refine ⟨?_, ?_, runOK_zero, runOK_one⟩
    · intro ed ln r ed' _ h; rw [exExec] at h; cases h
    · intro ed ln r ed' _ h; rw [exCommand] at h; cases h
  | succ f ih =>
    obtain ⟨hx, hc, hr0, hr1⟩ := ih
    exact ⟨exExec_pos f hr0, exCommand_pos f hx, hr1, runCmd_ok f hx hc⟩

end Neatvi.Lemmas.C05d
