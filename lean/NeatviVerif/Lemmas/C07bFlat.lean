import NeatviVerif.Lemmas.C07Scan
/-!
# C07b helper lemmas: ASCII buffers, the flat sequence of the reference, and `lbuf_next` on it

An ASCII buffer is `lsOf b = b.map (· ++ [10])` for a reference buffer `b` whose lines consist of
non-zero bytes below 128 other than the newline (`AsciiB b`).  `cat b` is the buffer as one byte
string; `Rep b r o i` says that the model position `(r, o)` is a character of the buffer (the newline
of its line included) and that `i` is its index in `cat b` / `Spec.Motion.flat b`.
-/
set_option linter.unusedSimpArgs false
set_option linter.unusedVariables false
namespace Neatvi.Lemmas.C07b
open Neatvi Neatvi.Uc Neatvi.Mot Neatvi.Lemmas.C07 Neatvi.Spec.Motion

/-- the text of an ASCII line: bytes that are not NUL, not the newline, and below 128 -/
def AsciiW (w : List Nat) : Prop := ∀ c ∈ w, 0 < c ∧ c < 128 ∧ c ≠ 10
def AsciiB (b : Buf) : Prop := ∀ w ∈ b, AsciiW w
/-- the lines of the model for the reference buffer `b` -/
def lsOf (b : Buf) : Lines := b.map (fun w => w ++ [10])
/-- every line is ASCII text followed by its newline -/
def AsciiBuf (ls : Lines) : Prop := ∀ l ∈ ls, ∃ w, l = w ++ [10] ∧ AsciiW w
/-- the reference buffer of a list of lines: every line without its last byte -/
def refBuf (ls : Lines) : Buf := ls.map (fun l => l.dropLast)

theorem asciiBuf_eq (ls : Lines) (h : AsciiBuf ls) : ls = lsOf (refBuf ls) ∧ AsciiB (refBuf ls) := by
  induction ls with
  | nil => exact ⟨rfl, fun w hw => by simp [refBuf] at hw⟩
  | cons l t ih =>
    obtain ⟨w, rfl, hw⟩ := h l (by simp)
    obtain ⟨e, a⟩ := ih (fun l' hl' => h l' (by simp [hl']))
    constructor
    · show (w ++ [10]) :: t = ((w ++ [10]).dropLast ++ [10]) :: lsOf (refBuf t)
      rw [← e]; simp
    · intro x hx
      simp only [refBuf, List.map_cons, List.mem_cons] at hx
      rcases hx with hx | hx
      · subst hx; simpa using hw
      · exact a x hx

theorem AsciiB.tail {w : List Nat} {b : Buf} (h : AsciiB (w :: b)) : AsciiB b := fun x hx => h x (by simp [hx])
theorem AsciiB.head {w : List Nat} {b : Buf} (h : AsciiB (w :: b)) : AsciiW w := h w (by simp)

theorem asciiW_line {w : List Nat} (h : AsciiW w) : Ascii (w ++ [10]) :=
  ascii_snoc_nl (fun c hc => ⟨(h c hc).1, (h c hc).2.1⟩)

/-! ### sizes -/
def total : Buf → Nat
  | [] => 0
  | w :: b => w.length + 1 + total b

/-- index in `cat b` of the first character of row `r` -/
def rowStart (b : Buf) (r : Nat) : Nat := total (b.take r)

/-- the buffer as one string -/
def cat : Buf → List Nat
  | [] => []
  | w :: b => w ++ 10 :: cat b

/-- the text of row `r` -/
def rowOf (b : Buf) (r : Nat) : List Nat := b.getD r []

@[simp] theorem rowStart_zero (b : Buf) : rowStart b 0 = 0 := by simp [rowStart, total]
@[simp] theorem rowStart_cons (w : List Nat) (b : Buf) (r : Nat) :
    rowStart (w :: b) (r + 1) = w.length + 1 + rowStart b r := by simp [rowStart, total]
@[simp] theorem rowOf_cons_zero (w : List Nat) (b : Buf) : rowOf (w :: b) 0 = w := by simp [rowOf]
@[simp] theorem rowOf_cons_succ (w : List Nat) (b : Buf) (r : Nat) : rowOf (w :: b) (r + 1) = rowOf b r := by
  simp [rowOf]

theorem rowStart_step (b : Buf) (r : Nat) (h : r < b.length) :
    rowStart b (r + 1) = rowStart b r + (rowOf b r).length + 1 := by
  induction b generalizing r with
  | nil => simp at h
  | cons w b ih =>
    cases r with
    | zero => simp
    | succ r => simp at h; simp [ih r h]; omega

theorem rowStart_len (b : Buf) : rowStart b b.length = total b := by simp [rowStart]

theorem rowStart_mono (b : Buf) (r r' : Nat) (h : r < r') (h' : r' ≤ b.length) :
    rowStart b r + (rowOf b r).length + 1 ≤ rowStart b r' := by
  induction r' with
  | zero => omega
  | succ k ih =>
    have hk := rowStart_step b k (by omega)
    by_cases hrk : r = k
    · subst hrk; omega
    · have := ih (by omega) (by omega); omega

theorem cat_length (b : Buf) : (cat b).length = total b := by
  induction b with
  | nil => rfl
  | cons w b ih => simp [cat, total, ih]; omega

theorem foldl_total_aux (b : Buf) (a : Nat) : (lsOf b).foldl (fun a l => a + l.length) a = a + total b := by
  induction b generalizing a with
  | nil => rfl
  | cons w b ih =>
    simp only [lsOf, List.map_cons, List.foldl_cons] at ih ⊢
    rw [ih]; simp [total]; omega

theorem foldl_total (b : Buf) : (lsOf b).foldl (fun a l => a + l.length) 0 = total b := by
  rw [foldl_total_aux]; omega

/-! ### positions -/
/-- `(r, o)` is a character of the buffer and `i` its index -/
def Rep (b : Buf) (r o : Int) (i : Nat) : Prop :=
  ∃ rn cn : Nat, r = rn ∧ o = cn ∧ rn < b.length ∧ cn ≤ (rowOf b rn).length ∧ i = rowStart b rn + cn

theorem rep_lt {b : Buf} {r o : Int} {i : Nat} (h : Rep b r o i) : i < total b := by
  obtain ⟨rn, cn, _, _, h1, h2, rfl⟩ := h
  have := rowStart_mono b rn b.length h1 (Nat.le_refl _)
  rw [rowStart_len] at this
  omega

theorem rep_exists (b : Buf) (i : Nat) (h : i < total b) : ∃ r o, Rep b r o i := by
  induction b generalizing i with
  | nil => simp [total] at h
  | cons w b ih =>
    by_cases hi : i ≤ w.length
    · exact ⟨0, i, 0, i, rfl, rfl, by simp, by simpa using hi, by simp⟩
    · obtain ⟨r, o, rn, cn, rfl, rfl, h1, h2, h3⟩ := ih (i - (w.length + 1)) (by simp [total] at h; omega)
      refine ⟨(rn + 1 : Nat), cn, rn + 1, cn, rfl, rfl, by simpa using h1, by simpa using h2, ?_⟩
      simp; omega

theorem rep_row_col {b : Buf} {rn cn rn' cn' : Nat} (h1 : rn < b.length) (h1' : rn' < b.length)
    (h2 : cn ≤ (rowOf b rn).length) (h2' : cn' ≤ (rowOf b rn').length)
    (h : rowStart b rn + cn = rowStart b rn' + cn') : rn = rn' ∧ cn = cn' := by
  have hr : rn = rn' := by
    rcases Nat.lt_trichotomy rn rn' with hlt | heq | hgt
    · have := rowStart_mono b rn rn' hlt (by omega); omega
    · exact heq
    · have := rowStart_mono b rn' rn hgt (by omega); omega
  subst hr
  exact ⟨rfl, by omega⟩

theorem rep_inj {b : Buf} {r o r' o' : Int} {i : Nat} (h : Rep b r o i) (h' : Rep b r' o' i) : r = r' ∧ o = o' := by
  obtain ⟨rn, cn, rfl, rfl, h1, h2, h3⟩ := h
  obtain ⟨rn', cn', rfl, rfl, h1', h2', h3'⟩ := h'
  obtain ⟨a, c⟩ := rep_row_col h1 h1' h2 h2' (by omega)
  subst a; subst c; exact ⟨rfl, rfl⟩

theorem rep_idx_inj {b : Buf} {r o : Int} {i j : Nat} (h : Rep b r o i) (h' : Rep b r o j) : i = j := by
  obtain ⟨rn, cn, e1, e2, h1, h2, h3⟩ := h
  obtain ⟨rn', cn', e1', e2', h1', h2', h3'⟩ := h'
  have : rn = rn' := by omega
  have : cn = cn' := by omega
  subst_vars; rfl

/-! ### `flat` -/
def rowE (r : Nat) (l : List Nat) : List (Nat × Nat × Nat) :=
  (List.range l.length).map (fun c => (r, c, l.getD c 0)) ++ [(r, l.length, 10)]

def flatFrom : Nat → Buf → List (Nat × Nat × Nat)
  | _, [] => []
  | k, w :: b => rowE k w ++ flatFrom (k + 1) b

theorem flat_range' (b : Buf) (k : Nat) :
    (List.range' k b.length).flatMap (fun r => rowE r (b.getD (r - k) [])) = flatFrom k b := by
  induction b generalizing k with
  | nil => rfl
  | cons w b ih =>
    rw [List.length_cons, List.range'_succ, List.flatMap_cons]
    simp only [Nat.sub_self, List.getD_cons_zero]
    show rowE k w ++ _ = rowE k w ++ flatFrom (k + 1) b
    congr 1
    rw [← ih (k + 1)]
    rw [List.flatMap_def, List.flatMap_def]
    congr 1
    apply List.map_congr_left
    intro r hr
    have : k + 1 ≤ r := by
      rw [List.mem_range'] at hr
      obtain ⟨i, _, rfl⟩ := hr; omega
    rw [show r - k = (r - (k + 1)) + 1 by omega]
    simp

theorem flat_eq (b : Buf) : flat b = flatFrom 0 b := by
  rw [← flat_range' b 0]
  unfold flat
  rw [List.range_eq_range']
  rfl

theorem rowE_length (r : Nat) (l : List Nat) : (rowE r l).length = l.length + 1 := by simp [rowE]

theorem flatFrom_length (k : Nat) (b : Buf) : (flatFrom k b).length = total b := by
  induction b generalizing k with
  | nil => rfl
  | cons w b ih => simp [flatFrom, rowE_length, total, ih]

theorem flat_length (b : Buf) : (flat b).length = total b := by rw [flat_eq, flatFrom_length]

theorem rowE_get (r : Nat) (l : List Nat) (c : Nat) (h : c ≤ l.length) :
    (rowE r l)[c]? = some (r, c, (l ++ [10]).getD c 0) := by
  unfold rowE
  by_cases hc : c < l.length
  · rw [List.getElem?_append_left (by simpa using hc)]
    simp [hc, List.getD, List.getElem?_append_left hc]
  · have : c = l.length := by omega
    subst this
    rw [List.getElem?_append_right (by simp)]
    simp [List.getD]

theorem flatFrom_get (k : Nat) (b : Buf) (r c : Nat) (hr : r < b.length) (hc : c ≤ (rowOf b r).length) :
    (flatFrom k b)[rowStart b r + c]? = some (k + r, c, (rowOf b r ++ [10]).getD c 0) := by
  induction b generalizing k r with
  | nil => simp at hr
  | cons w b ih =>
    cases r with
    | zero =>
      simp only [rowOf_cons_zero] at hc
      simp only [rowStart_zero, Nat.zero_add, flatFrom, rowOf_cons_zero, Nat.add_zero]
      rw [List.getElem?_append_left (by rw [rowE_length]; omega)]
      exact rowE_get k w c hc
    | succ r =>
      simp only [rowOf_cons_succ] at hc
      simp only [rowStart_cons, flatFrom, rowOf_cons_succ]
      rw [List.getElem?_append_right (by rw [rowE_length]; omega), rowE_length]
      rw [show w.length + 1 + rowStart b r + c - (w.length + 1) = rowStart b r + c by omega]
      rw [ih (k + 1) r (by simpa using hr) hc]
      congr 2; omega

theorem flat_get (b : Buf) (r c : Nat) (hr : r < b.length) (hc : c ≤ (rowOf b r).length) :
    (flat b)[rowStart b r + c]? = some (r, c, (rowOf b r ++ [10]).getD c 0) := by
  rw [flat_eq, flatFrom_get 0 b r c hr hc]; simp

theorem range_map_getD (l : List Nat) : (List.range l.length).map (fun c => l.getD c 0) = l := by
  apply List.ext_getElem
  · simp
  · intro i h1 h2
    simp at h1
    simp [List.getD, List.getElem?_eq_getElem h1]

theorem flatFrom_map (k : Nat) (b : Buf) : (flatFrom k b).map (fun x => x.2.2) = cat b := by
  induction b generalizing k with
  | nil => rfl
  | cons w b ih =>
    simp only [flatFrom, List.map_append, ih, cat, rowE, List.map_map, List.map_cons, List.map_nil]
    have := range_map_getD w
    simp only [Function.comp_def] at this ⊢
    rw [this]; simp

theorem flat_map (b : Buf) : (flat b).map (fun x => x.2.2) = cat b := by rw [flat_eq, flatFrom_map]

/-- the byte at index `i` (the newline beyond the buffer, as in `cpAt`) -/
def cp (b : Buf) (i : Nat) : Nat := (cat b).getD i 10

theorem cpAt_flat (b : Buf) (i : Nat) : cpAt (flat b) i = cp b i := by
  unfold cpAt cp
  rw [← flat_map, List.getD, List.getElem?_map]
  cases h : (flat b)[i]? with
  | none => rfl
  | some x => obtain ⟨r, c, v⟩ := x; rfl

theorem cp_rep {b : Buf} {rn cn : Nat} (hr : rn < b.length) (hc : cn ≤ (rowOf b rn).length) :
    cp b (rowStart b rn + cn) = (rowOf b rn ++ [10]).getD cn 0 := by
  rw [← cpAt_flat]; unfold cpAt; rw [flat_get b rn cn hr hc]

theorem colAt_rep {b : Buf} {rn cn : Nat} (hr : rn < b.length) (hc : cn ≤ (rowOf b rn).length) :
    colAt (flat b) (rowStart b rn + cn) = cn := by
  unfold colAt; rw [flat_get b rn cn hr hc]

theorem posAt_rep {b : Buf} {rn cn : Nat} (hr : rn < b.length) (hc : cn ≤ (rowOf b rn).length) :
    posAt (flat b) (rowStart b rn + cn) = ⟨rn, cn⟩ := by
  unfold posAt; rw [flat_get b rn cn hr hc]

theorem rowOf_ascii {b : Buf} (hb : AsciiB b) {r : Nat} (hr : r < b.length) : AsciiW (rowOf b r) := by
  unfold rowOf
  rw [List.getD_eq_getElem?_getD, List.getElem?_eq_getElem hr]
  exact hb _ (List.getElem_mem hr)

theorem getD_line_lt (w : List Nat) (c : Nat) (h : c < w.length) : (w ++ [10]).getD c 0 = w[c] := by
  simp [List.getD, List.getElem?_append_left h, List.getElem?_eq_getElem h]
theorem getD_line_eq (w : List Nat) : (w ++ [10]).getD w.length 0 = 10 := by
  simp [List.getD]

/-- in an ASCII buffer the newline is exactly the last byte of a line -/
theorem cp_rep_nl {b : Buf} (hb : AsciiB b) {rn cn : Nat} (hr : rn < b.length) (hc : cn ≤ (rowOf b rn).length) :
    cp b (rowStart b rn + cn) = 10 ↔ cn = (rowOf b rn).length := by
  rw [cp_rep hr hc]
  constructor
  · intro h
    by_cases hlt : cn < (rowOf b rn).length
    · rw [getD_line_lt _ _ hlt] at h
      exact absurd h (rowOf_ascii hb hr _ (List.getElem_mem hlt)).2.2
    · omega
  · intro h; rw [h, getD_line_eq]

theorem cp_lt {b : Buf} (hb : AsciiB b) (i : Nat) : 0 < cp b i ∧ cp b i < 128 := by
  by_cases hi : i < total b
  · obtain ⟨r, o, rn, cn, rfl, rfl, h1, h2, rfl⟩ := rep_exists b i hi
    rw [cp_rep h1 h2]
    by_cases hlt : cn < (rowOf b rn).length
    · rw [getD_line_lt _ _ hlt]
      have := rowOf_ascii hb h1 _ (List.getElem_mem hlt)
      omega
    · have : cn = (rowOf b rn).length := by omega
      rw [this, getD_line_eq]; omega
  · unfold cp
    rw [List.getD_eq_getElem?_getD, List.getElem?_eq_none (by rw [cat_length]; omega)]
    simp

/-- column 0 in terms of the byte string: the first index, or the index after a newline -/
theorem colAt_zero_iff {b : Buf} (hb : AsciiB b) (i : Nat) (hi : i < total b) :
    colAt (flat b) i = 0 ↔ (i = 0 ∨ cp b (i - 1) = 10) := by
  obtain ⟨r, o, rn, cn, rfl, rfl, h1, h2, rfl⟩ := rep_exists b i hi
  rw [colAt_rep h1 h2]
  constructor
  · intro h
    subst h
    cases rn with
    | zero => left; simp
    | succ k =>
      right
      have hs := rowStart_step b k (by omega)
      rw [show rowStart b (k + 1) + 0 - 1 = rowStart b k + (rowOf b k).length by omega]
      exact (cp_rep_nl hb (by omega) (Nat.le_refl _)).2 rfl
  · intro h
    rcases h with h | h
    · cases rn with
      | zero => simpa using h
      | succ k => have := rowStart_step b k (by omega); omega
    · by_cases hc : cn = 0
      · exact hc
      · rw [show rowStart b rn + cn - 1 = rowStart b rn + (cn - 1) by omega] at h
        have := (cp_rep_nl hb h1 (by omega : cn - 1 ≤ _)).1 h
        omega

/-- `indexOf` on `flat` -/
theorem indexOf_rep {b : Buf} {rn cn : Nat} (hr : rn < b.length) (hc : cn ≤ (rowOf b rn).length) :
    indexOf (flat b) ⟨rn, cn⟩ = some (rowStart b rn + cn) := by
  have hlt : rowStart b rn + cn < total b := rep_lt ⟨rn, cn, rfl, rfl, hr, hc, rfl⟩
  unfold indexOf
  apply range_find_first
  · rw [flat_length]; exact hlt
  · rw [flat_get b rn cn hr hc]; simp
  · intro j hj
    obtain ⟨r, o, rn', cn', rfl, rfl, h1, h2, rfl⟩ := rep_exists b j (by omega)
    rw [flat_get b rn' cn' h1 h2]
    simp only []
    cases hh : (rn' == rn && cn' == cn) with
    | false => rfl
    | true =>
      simp only [Bool.and_eq_true, beq_iff_eq] at hh
      obtain ⟨rfl, rfl⟩ := hh
      omega

theorem indexOf_some_rep {b : Buf} {p : Pos} {i : Nat} (h : indexOf (flat b) p = some i) :
    Rep b p.row p.col i := by
  unfold indexOf at h
  have h1 := List.find?_some h
  have h2 := List.mem_of_find?_eq_some h
  simp only [List.mem_range, flat_length] at h2
  obtain ⟨r, o, rn, cn, rfl, rfl, a1, a2, rfl⟩ := rep_exists b i h2
  rw [flat_get b rn cn a1 a2] at h1
  simp only [Bool.and_eq_true, beq_iff_eq] at h1
  exact ⟨rn, cn, by rw [h1.1], by rw [h1.2], a1, a2, rfl⟩

/-! ### the model on an ASCII buffer -/
theorem lineAt_rep (b : Buf) (rn : Nat) (hr : rn < b.length) :
    lineAt (lsOf b) (rn : Int) = some (rowOf b rn ++ [10]) := by
  unfold lineAt lsOf rowOf
  rw [if_neg (by omega)]
  simp [List.getElem?_eq_getElem hr, List.getD]

theorem lineAt_none (b : Buf) (r : Int) (hr : r < 0 ∨ (b.length : Int) ≤ r) : lineAt (lsOf b) r = none := by
  unfold lineAt lsOf
  split
  · rfl
  · rw [List.getElem?_eq_none]; simp; omega

theorem slenAt_rep {b : Buf} (hb : AsciiB b) (rn : Nat) (hr : rn < b.length) :
    slenAt (lsOf b) (rn : Int) = ((rowOf b rn).length + 1 : Nat) := by
  unfold slenAt
  rw [lineAt_rep b rn hr]
  simp only []
  rw [ucSlen_ascii _ (asciiW_line (rowOf_ascii hb hr))]
  simp

theorem eol_rep {b : Buf} (hb : AsciiB b) (rn : Nat) (hr : rn < b.length) :
    eol (lsOf b) (rn : Int) = ((rowOf b rn).length : Nat) := by
  rw [eol_closed, slenAt_rep hb rn hr]; omega

theorem lbufChr_rep {b : Buf} (hb : AsciiB b) {rn cn : Nat} (hr : rn < b.length) (hc : cn ≤ (rowOf b rn).length) :
    lbufChr (lsOf b) (rn : Int) (cn : Int) = (rowOf b rn ++ [10]).drop cn := by
  unfold lbufChr
  rw [lineAt_rep b rn hr]
  simp only []
  rw [chrAt_ascii _ (asciiW_line (rowOf_ascii hb hr)) _ (by omega) (by simp; omega)]
  simp

/-- the first byte of the character at a position of the buffer -/
theorem hd_rep {b : Buf} (hb : AsciiB b) {r o : Int} {i : Nat} (h : Rep b r o i) :
    Bytes.hd (lbufChr (lsOf b) r o) = cp b i := by
  obtain ⟨rn, cn, rfl, rfl, h1, h2, rfl⟩ := h
  rw [lbufChr_rep hb h1 h2, hd_drop_getD, cp_rep h1 h2]

theorem codeAt_rep {b : Buf} (hb : AsciiB b) {r o : Int} {i : Nat} (h : Rep b r o i) :
    codeAt (lsOf b) r o = cp b i := by
  have hh := hd_rep hb h
  unfold codeAt
  rw [ucCode_low _ (by rw [hh]; exact (cp_lt hb i).2), hh]
  rfl

theorem kindAt_rep {b : Buf} (hb : AsciiB b) {r o : Int} {i : Nat} (h : Rep b r o i) :
    kindAt (lsOf b) r o = ucKind (cp b i) := by
  unfold kindAt; rw [hd_rep hb h]

theorem isSpaceAt_rep {b : Buf} (hb : AsciiB b) {r o : Int} {i : Nat} (h : Rep b r o i) :
    isSpaceAt (lsOf b) r o = ucIsSpace (cp b i) := by
  unfold isSpaceAt; rw [hd_rep hb h]

/-- `uc_kind` is the reference's class on ASCII -/
theorem ucKind_cls (c : Nat) (h : c < 128) : ucKind c = cls c := by
  have : ∀ x : Fin 128, ucKind x.val = cls x.val := by decide +kernel
  exact this ⟨c, h⟩

theorem ucIsSpace_cls (c : Nat) (h : c < 128) : ucIsSpace c = (cls c == 0) := by
  have : ∀ x : Fin 128, ucIsSpace x.val = (cls x.val == 0) := by decide +kernel
  exact this ⟨c, h⟩

/-! ### `lbuf_next` -/
theorem next_fwd_some {b : Buf} (hb : AsciiB b) {r o : Int} {i : Nat} (h : Rep b r o i) (hi : i + 1 < total b) :
    ∃ r' o', next (lsOf b) 1 r o = some (r', o') ∧ Rep b r' o' (i + 1) := by
  obtain ⟨rn, cn, rfl, rfl, h1, h2, rfl⟩ := h
  unfold next lnNext
  simp only [show ¬ ((1 : Int) < 0) by omega, decide_false, Bool.false_and, Bool.false_eq_true, if_false]
  rw [slenAt_rep hb rn h1, lineAt_rep b rn h1]
  by_cases hc : cn < (rowOf b rn).length
  · rw [if_neg (by simp; omega)]
    exact ⟨rn, cn + 1, rfl, rn, cn + 1, rfl, by omega, h1, by omega, by omega⟩
  · have hcn : cn = (rowOf b rn).length := by omega
    rw [if_pos (by simp; omega)]
    simp only []
    have hs := rowStart_step b rn h1
    have hlast : rn + 1 < b.length := by
      rcases Nat.lt_or_ge (rn + 1) b.length with h | h
      · exact h
      · have : rn + 1 = b.length := by omega
        rw [this, rowStart_len] at hs
        omega
    rw [show ((rn : Int) + 1) = ((rn + 1 : Nat) : Int) by omega, lineAt_rep b (rn + 1) hlast]
    simp only [Option.isNone_some, Bool.false_eq_true, if_false, show (1 : Int) > 0 by omega, if_true]
    exact ⟨_, _, rfl, rn + 1, 0, rfl, rfl, hlast, by omega, by omega⟩

theorem next_fwd_none {b : Buf} (hb : AsciiB b) {r o : Int} {i : Nat} (h : Rep b r o i) (hi : i + 1 = total b) :
    next (lsOf b) 1 r o = none := by
  obtain ⟨rn, cn, rfl, rfl, h1, h2, rfl⟩ := h
  unfold next lnNext
  simp only [show ¬ ((1 : Int) < 0) by omega, decide_false, Bool.false_and, Bool.false_eq_true, if_false]
  rw [slenAt_rep hb rn h1, lineAt_rep b rn h1]
  have hs := rowStart_step b rn h1
  have hm : rn + 1 = b.length := by
    rcases Nat.lt_or_ge (rn + 1) b.length with h | h
    · have := rowStart_mono b (rn + 1) b.length h (Nat.le_refl _)
      rw [rowStart_len] at this; omega
    · omega
  have hcn : cn = (rowOf b rn).length := by
    rw [hm, rowStart_len] at hs; omega
  rw [if_pos (by simp; omega)]
  simp only []
  rw [lineAt_none b _ (Or.inr (by omega))]
  simp

theorem next_bwd_some {b : Buf} (hb : AsciiB b) {r o : Int} {i : Nat} (h : Rep b r o (i + 1)) :
    ∃ r' o', next (lsOf b) (-1) r o = some (r', o') ∧ Rep b r' o' i := by
  obtain ⟨rn, cn, rfl, rfl, h1, h2, h3⟩ := h
  unfold next lnNext
  have hlen : (lsOf b).length = b.length := by simp [lsOf]
  have hge : ¬ ((rn : Int) ≥ ((lsOf b).length : Int)) := by rw [hlen]; omega
  simp only [show ((-1 : Int) < 0) by omega, decide_true, Bool.true_and, hge, decide_false, Bool.false_eq_true,
    if_false]
  rw [slenAt_rep hb rn h1, lineAt_rep b rn h1]
  by_cases hc : 0 < cn
  · rw [if_neg (by simp; omega)]
    rw [show ((cn : Int) + -1) = ((cn - 1 : Nat) : Int) by omega]
    exact ⟨rn, ((cn - 1 : Nat) : Int), rfl, rn, cn - 1, rfl, rfl, h1, by omega, by omega⟩
  · have hcn : cn = 0 := by omega
    subst hcn
    rw [if_pos (by simp)]
    simp only []
    cases rn with
    | zero => simp at h3
    | succ k =>
      have hs := rowStart_step b k (by omega)
      rw [show (((k + 1 : Nat) : Int) + -1) = (k : Int) by omega, lineAt_rep b k (by omega)]
      simp only [Option.isNone_some, Bool.false_eq_true, if_false, show ¬ ((-1 : Int) > 0) by omega]
      rw [eol_rep hb k (by omega)]
      exact ⟨_, _, rfl, k, (rowOf b k).length, rfl, rfl, by omega, Nat.le_refl _, by omega⟩

theorem next_bwd_none {b : Buf} (hb : AsciiB b) {r o : Int} (h : Rep b r o 0) :
    next (lsOf b) (-1) r o = none := by
  obtain ⟨rn, cn, rfl, rfl, h1, h2, h3⟩ := h
  have hlen : (lsOf b).length = b.length := by simp [lsOf]
  have hr0 : rn = 0 := by
    cases rn with
    | zero => rfl
    | succ k => have := rowStart_step b k (by omega); omega
  subst hr0
  have hc0 : cn = 0 := by simp at h3; omega
  subst hc0
  unfold next lnNext
  have hge : ¬ (((0 : Nat) : Int) ≥ ((lsOf b).length : Int)) := by rw [hlen]; omega
  simp only [show ((-1 : Int) < 0) by omega, decide_true, Bool.true_and, hge, decide_false, Bool.false_eq_true,
    if_false]
  rw [if_pos (by simp)]
  simp only []
  rw [lineAt_none b _ (Or.inl (by omega))]
  simp

/-- the last position of the buffer -/
theorem rep_last {b : Buf} (hb : b ≠ []) :
    Rep b ((b.length - 1 : Nat) : Int) (((rowOf b (b.length - 1)).length : Nat) : Int) (total b - 1) := by
  have hpos : 0 < b.length := List.length_pos_iff.mpr hb
  have hs := rowStart_step b (b.length - 1) (by omega)
  rw [show b.length - 1 + 1 = b.length by omega, rowStart_len] at hs
  exact ⟨b.length - 1, _, rfl, rfl, by omega, Nat.le_refl _, by omega⟩

end Neatvi.Lemmas.C07b
