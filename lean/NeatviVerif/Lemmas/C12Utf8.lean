import NeatviVerif.Lemmas.C12Ascii
import NeatviVerif.Props.C16
/-!
# C12 lemmas, part 10: valid UTF-8 subjects and literals satisfy `SubjOk`
-/
namespace Neatvi.C12
open Neatvi Neatvi.Uc Neatvi.Regex Neatvi.Rset Neatvi.Spec

/-- a continuation byte -/
def IsCont (x : Nat) : Prop := 128 ≤ x ∧ x < 192

theorem hd_enc_append {c : Nat} (hc : ValidCp c) (B : Bytes) : Bytes.hd (enc c ++ B) = Bytes.hd (enc c) := by
  obtain ⟨a, t, he, _⟩ := enc_chr hc
  rw [he]; rfl

theorem getD_append_right' (A B : Bytes) (j : Nat) : (A ++ B).getD (A.length + j) 0 = B.getD j 0 := by
  simp [List.getD_eq_getElem?_getD, List.getElem?_append_right]

theorem getD_zero_hd (B : Bytes) : B.getD 0 0 = Bytes.hd B := by
  cases B <;> rfl

/-- at a character boundary the engine's step is the length of the encoded character -/
theorem rxLen_at {c : Nat} (hc : ValidCp c) (A B : Bytes) :
    rxLen (A ++ (enc c ++ B)) A.length = (enc c).length := by
  unfold rxLen
  have h1 : (A ++ (enc c ++ B)).getD A.length 0 = Bytes.hd (enc c) := by
    have := getD_append_right' A (enc c ++ B) 0
    rw [Nat.add_zero] at this
    rw [this, getD_zero_hd, hd_enc_append hc]
  rw [h1, Props.C16.len_enc hc]
  simp only [List.length_append]
  omega

theorem drop_eq_getElem_cons' {α : Type} {l : List α} {k : Nat} (h : k < l.length) :
    l.drop k = l[k] :: l.drop (k + 1) := by
  simp

/-- every character boundary of an encoded string is a start position of `regexec` -/
theorem starts_take {cs : List Nat} (hv : ∀ c ∈ cs, ValidCp c) :
    ∀ k, k ≤ cs.length → Starts (encStr cs) (encStr (cs.take k)).length := by
  intro k
  induction k with
  | zero => intro _; exact Starts.zero
  | succ k ih =>
    intro hk
    have hlt : k < cs.length := by omega
    have hc : ValidCp cs[k] := hv _ (List.getElem_mem hlt)
    have hsplit : encStr cs = encStr (cs.take k) ++ (enc cs[k] ++ encStr (cs.drop (k + 1))) := by
      conv => lhs; rw [← List.take_append_drop k cs, drop_eq_getElem_cons' hlt]
      rw [encStr_append, encStr_cons]
    have hlen : (encStr (cs.take k)).length < (encStr cs).length := by
      rw [hsplit]; have := enc_length_pos cs[k]; simp; omega
    have hstep := Starts.step (ih (by omega)) hlen
    have hrx : rxLen (encStr cs) (encStr (cs.take k)).length = (enc cs[k]).length := by
      conv => lhs; rw [hsplit]
      exact rxLen_at hc _ _
    rw [hrx] at hstep
    have htk : cs.take (k + 1) = cs.take k ++ [cs[k]] := by
      rw [List.take_add_one, List.getElem?_eq_getElem hlt]; rfl
    rw [htk, encStr_append]
    simpa using hstep

theorem starts_boundary {cs : List Nat} (hv : ∀ c ∈ cs, ValidCp c) (pre post : List Nat)
    (h : cs = pre ++ post) : Starts (encStr cs) (encStr pre).length := by
  have := starts_take hv pre.length (by rw [h]; simp)
  rw [h, List.take_left'] at this
  · rw [h]; exact this
  · rfl

/-- a position of an encoded string that does not hold a continuation byte is a character boundary -/
theorem boundary_of_noncont : ∀ (cs : List Nat), (∀ c ∈ cs, ValidCp c) → ∀ r, r ≤ (encStr cs).length →
    ¬ IsCont ((encStr cs).getD r 0) → ∃ pre post, cs = pre ++ post ∧ r = (encStr pre).length := by
  intro cs
  induction cs with
  | nil =>
    intro _ r hr _
    exact ⟨[], [], rfl, by simpa using hr⟩
  | cons c cs ih =>
    intro hv r hr hnc
    obtain ⟨a, t, he, hch⟩ := enc_chr (hv c (by simp))
    by_cases h0 : r = 0
    · exact ⟨[], c :: cs, rfl, by simp [h0]⟩
    · rw [encStr_cons, he] at hr hnc
      by_cases h1 : r ≤ t.length
      · exfalso
        apply hnc
        obtain ⟨q, rfl⟩ : ∃ q, r = q + 1 := ⟨r - 1, by omega⟩
        rw [List.cons_append, List.getD_cons_succ, getD_append_left (by omega)]
        exact hch.tl _ (getD_mem (by omega))
      · obtain ⟨q, rfl⟩ : ∃ q, r = (a :: t).length + q := ⟨r - (t.length + 1), by simp; omega⟩
        rw [getD_append_right'] at hnc
        obtain ⟨pre, post, h2, h3⟩ := ih (fun d hd => hv d (by simp [hd])) q
          (by simp at hr; omega) hnc
        refine ⟨c :: pre, post, by rw [h2]; rfl, ?_⟩
        rw [encStr_cons, he, h3]; simp; omega

theorem lowerB_cont {a b : Nat} (h : lowerB a = lowerB b) : IsCont a ↔ IsCont b := by
  unfold lowerB isUpperB at h
  unfold IsCont
  simp only [Bool.and_eq_true, decide_eq_true_eq] at h
  split at h <;> split at h <;> omega

/-- what `match_case` says about the first byte -/
theorem matchCase_head {s : Bytes} {r b : Nat} {lit' : Bytes} {ic : Bool}
    (h : matchCase (s.drop r) (b :: lit') ic = true) :
    r < s.length ∧ (if ic then lowerB (s.getD r 0) = lowerB b else s.getD r 0 = b) := by
  by_cases hr : r < s.length
  · rw [drop_eq_cons hr, matchCase_cons_iff] at h
    exact ⟨hr, h.1⟩
  · rw [List.drop_eq_nil_of_le (by omega), matchCase_nil_left] at h
    cases h

/-- **synchronisation**: in a valid UTF-8 subject a valid UTF-8 literal only compares equal at a
    character boundary, i.e. at a position the engine tries -/
theorem sync_utf8 {cs lcps : List Nat} (hv : ∀ c ∈ cs, ValidCp c) (hl : ∀ c ∈ lcps, ValidCp c)
    (hne : lcps ≠ []) (ic : Bool) (r : Nat)
    (h : matchCase ((encStr cs).drop r) (encStr lcps) ic = true) : Starts (encStr cs) r := by
  cases lcps with
  | nil => exact absurd rfl hne
  | cons l0 lrest =>
    obtain ⟨a, t, he, hch⟩ := enc_chr (hl l0 (by simp))
    rw [encStr_cons, he, List.cons_append] at h
    obtain ⟨hr, hb⟩ := matchCase_head h
    have hna : ¬ IsCont a := by
      unfold IsCont
      rcases hch.lead with ⟨h1, _⟩ | h1 <;> omega
    have hnc : ¬ IsCont ((encStr cs).getD r 0) := by
      cases ic
      · simp only [Bool.false_eq_true, if_false] at hb; rw [hb]; exact hna
      · simp only [if_true] at hb; rw [lowerB_cont hb]; exact hna
    obtain ⟨pre, post, h1, h2⟩ := boundary_of_noncont cs hv r (by omega) hnc
    rw [h2]
    exact starts_boundary hv pre post h1

/-! ### the character before a position -/

/-- every continuation byte is preceded by a byte `≥ 128` (a lead or continuation byte) -/
def ContPrev (s : Bytes) : Prop :=
  ∀ i, i < s.length → IsCont (s.getD i 0) → 0 < i ∧ 128 ≤ s.getD (i - 1) 0

theorem contPrev_encStr : ∀ (cs : List Nat), (∀ c ∈ cs, ValidCp c) → ContPrev (encStr cs) := by
  intro cs
  induction cs with
  | nil => intro _ i hi; simp at hi
  | cons c cs ih =>
    intro hv i hi hc
    obtain ⟨a, t, he, hch⟩ := enc_chr (hv c (by simp))
    rw [encStr_cons, he] at hi hc ⊢
    have hna : ¬ IsCont a := by
      unfold IsCont
      rcases hch.lead with ⟨h1, _⟩ | h1 <;> omega
    by_cases h0 : i = 0
    · subst h0; exact absurd hc hna
    · by_cases h1 : i ≤ t.length
      · refine ⟨by omega, ?_⟩
        obtain ⟨q, rfl⟩ : ∃ q, i = q + 1 := ⟨i - 1, by omega⟩
        rw [Nat.add_sub_cancel, List.cons_append]
        cases q with
        | zero =>
          rw [List.getD_cons_zero]
          rcases hch.lead with ⟨_, h2⟩ | h2
          · rw [h2] at h1; simp at h1
          · omega
        | succ q =>
          rw [List.getD_cons_succ, getD_append_left (by omega)]
          exact (hch.tl _ (getD_mem (by omega))).1
      · obtain ⟨q, rfl⟩ : ∃ q, i = (a :: t).length + q := ⟨i - (t.length + 1), by simp; omega⟩
        rw [getD_append_right'] at hc
        have := ih (fun d hd => hv d (by simp [hd])) q (by simp at hi; omega) hc
        refine ⟨by omega, ?_⟩
        rw [show (a :: t).length + q - 1 = (a :: t).length + (q - 1) by omega, getD_append_right']
        exact this.2

/-- walking back over continuation bytes, each followed (towards the start) by a byte `≥ 128` -/
def Chain (L : Bytes) : Prop :=
  ∀ i, i < L.length → IsCont (L.getD i 0) → i + 1 < L.length ∧ 128 ≤ L.getD (i + 1) 0

theorem ucBeg_high : ∀ (rev : Bytes) (cur : Nat), (∀ x ∈ cur :: rev, x < 256) → 128 ≤ cur →
    Chain (cur :: rev) → 128 ≤ (cur :: rev).getD (ucBeg cur rev) 0 := by
  intro rev
  induction rev with
  | nil => intro cur _ h _; simpa [ucBeg] using h
  | cons p rev ih =>
    intro cur hlt hcur hch
    rw [ucBeg, contB_eq cur (hlt cur (by simp))]
    by_cases hc : 128 ≤ cur ∧ cur < 192
    · simp only [hc, and_self, decide_true, if_true]
      rw [List.getD_cons_succ]
      have h0 := hch 0 (by simp) (by simpa [IsCont] using hc)
      rw [List.getD_cons_succ, List.getD_cons_zero] at h0
      refine ih p (fun x hx => hlt x (by simp at hx ⊢; right; exact hx)) h0.2 ?_
      intro i hi hci
      have := hch (i + 1) (by simp at hi ⊢; omega) (by rw [List.getD_cons_succ]; exact hci)
      rw [List.getD_cons_succ] at this
      exact ⟨by have := this.1; simp at this ⊢; omega, this.2⟩
    · simp only [hc, decide_false, Bool.false_eq_true, if_false, List.getD_cons_zero]
      exact hcur

theorem getD_reverse_take {s : Bytes} {q i : Nat} (hq : q < s.length) (hi : i ≤ q) :
    ((s.take (q + 1)).reverse).getD i 0 = s.getD (q - i) 0 := by
  rw [List.getD_eq_getElem?_getD, List.getD_eq_getElem?_getD, List.getElem?_reverse (by simp; omega)]
  simp only [List.length_take]
  rw [show min (q + 1) s.length - 1 - i = q - i by omega, List.getElem?_take]
  rw [if_pos (by omega)]

theorem isWordB_high {x : Nat} (h : 128 ≤ x) : isWordB x = true := by
  unfold isWordB
  have : decide (x > 127) = true := by simp; omega
  rw [this]; simp

/-- **previous character**: on valid UTF-8 the engine's word test on the first byte of the previous
    character and the fast path's test on the previous byte agree -/
theorem prevLead_word {s : Bytes} (hlt : ∀ x ∈ s, x < 256) (hcp : ContPrev s) {p : Nat} (h0 : 0 < p)
    (hp : p ≤ s.length) : isWordB (prevLead s p) = isWordB (s.getD (p - 1) 0) := by
  obtain ⟨q, rfl⟩ : ∃ q, p = q + 1 := ⟨p - 1, by omega⟩
  have hq : q < s.length := by omega
  have hrev : (s.take (q + 1)).reverse = s[q] :: (s.take q).reverse := by
    rw [List.take_add_one, List.getElem?_eq_getElem hq]; simp
  have hg : s.getD q 0 = s[q] := by
    rw [List.getD_eq_getElem?_getD, List.getElem?_eq_getElem hq]; rfl
  unfold prevLead
  rw [hrev]
  simp only [List.headD_cons, List.drop_succ_cons, List.drop_zero, Nat.add_sub_cancel]
  rw [hg]
  by_cases hlow : s[q] < 128
  · have hk : ucBeg s[q] (s.take q).reverse = 0 := by
      cases (s.take q).reverse with
      | nil => rfl
      | cons x t => simp [ucBeg, contB_ascii hlow]
    rw [hk]; rfl
  · have hhi : 128 ≤ s[q] := by omega
    rw [isWordB_high hhi]
    apply isWordB_high
    apply ucBeg_high _ _ _ hhi
    · rw [← hrev]
      intro i hi hci
      have hi' : i ≤ q := by simp at hi; omega
      rw [getD_reverse_take hq hi'] at hci
      have := hcp (q - i) (by omega) hci
      refine ⟨by simp; omega, ?_⟩
      rw [getD_reverse_take hq (by omega), show q - (i + 1) = q - i - 1 by omega]
      exact this.2
    · intro x hx
      rw [← hrev] at hx
      exact hlt x (List.mem_of_mem_take (List.mem_reverse.mp hx))

/-! ### ICASE: code-point folding versus byte-wise `tolower` -/

theorem lowerB_cases {a b : Nat} (h : lowerB a = lowerB b) : a = b ∨ (a < 128 ∧ b < 128) := by
  unfold lowerB isUpperB at h
  simp only [Bool.and_eq_true, decide_eq_true_eq] at h
  split at h <;> split at h <;> omega

theorem matchCase_append_same (x S L : Bytes) (ic : Bool) :
    matchCase (x ++ S) (x ++ L) ic = matchCase S L ic := by
  induction x with
  | nil => rfl
  | cons a x ih =>
    rw [List.cons_append, List.cons_append, matchCase_cons]
    cases ic <;> simp [ih]

theorem enc_high {c : Nat} (h : 128 ≤ c) (h2 : c < 0x110000) : ∀ y ∈ enc c, 128 ≤ y := by
  unfold enc
  intro y hy
  split at hy
  · omega
  · split at hy
    · simp at hy; omega
    · split at hy <;> (simp at hy; omega)

theorem enc_low {c : Nat} (h : c < 128) : enc c = [c] := by
  unfold enc; rw [if_pos (by omega)]

theorem enc_lead_low {c a : Nat} {t : Bytes} (hv : ValidCp c) (he : enc c = a :: t) (ha : a < 128) :
    c = a ∧ t = [] := by
  by_cases hc : c < 128
  · rw [enc_low hc] at he
    simp at he; exact ⟨he.1, he.2⟩
  · have := enc_high (by omega) hv.2 a (by rw [he]; simp)
    omega

theorem matchCase_prefix_high : ∀ (Y X L : Bytes), matchCase X (Y ++ L) true = true → (∀ y ∈ Y, 128 ≤ y) →
    ∃ S', X = Y ++ S' := by
  intro Y
  induction Y with
  | nil => intro X L _ _; exact ⟨X, rfl⟩
  | cons y Y ih =>
    intro X L h hy
    cases X with
    | nil => rw [List.cons_append, matchCase_nil_left] at h; cases h
    | cons x X =>
      rw [List.cons_append, matchCase_cons_iff] at h
      have h1 := h.1
      simp only [if_true] at h1
      have hxy : x = y := by
        rcases lowerB_cases h1 with h2 | h2
        · exact h2
        · have := hy y (by simp); omega
      obtain ⟨S', hS⟩ := ih X L h.2 (fun z hz => hy z (by simp [hz]))
      exact ⟨S', by rw [hxy, hS]; rfl⟩

/-- fold-equal code points have encodings of the same length that compare equal under `tolower` -/
theorem fold_eq {c1 c2 : Nat} (h : lowerB c1 = lowerB c2) (S L : Bytes) :
    (enc c1).length = (enc c2).length ∧
      matchCase (enc c2 ++ S) (enc c1 ++ L) true = matchCase S L true := by
  rcases lowerB_cases h with h1 | ⟨h1, h2⟩
  · subst h1; exact ⟨rfl, matchCase_append_same _ _ _ _⟩
  · rw [enc_low h1, enc_low h2]
    refine ⟨rfl, ?_⟩
    rw [List.cons_append, List.cons_append, matchCase_cons]
    simp [h]

/-- fold-different code points have encodings that differ under `tolower` -/
theorem fold_ne {c1 c2 : Nat} (hv1 : ValidCp c1) (hv2 : ValidCp c2) (h : lowerB c1 ≠ lowerB c2) (S L : Bytes) :
    matchCase (enc c2 ++ S) (enc c1 ++ L) true = false := by
  cases hm : matchCase (enc c2 ++ S) (enc c1 ++ L) true with
  | false => rfl
  | true =>
    exfalso
    by_cases hc : c1 < 128
    · obtain ⟨a, t, he, _⟩ := enc_chr hv2
      rw [enc_low hc, he, List.cons_append, List.cons_append, matchCase_cons_iff] at hm
      have h1 := hm.1
      simp only [if_true] at h1
      have ha : a < 128 := by rcases lowerB_cases h1 with h2 | h2 <;> omega
      obtain ⟨h3, _⟩ := enc_lead_low hv2 he ha
      rw [h3] at h
      exact h h1.symm
    · obtain ⟨S', hS⟩ := matchCase_prefix_high (enc c1) _ L hm (enc_high (by omega) hv1.2)
      have e1 := Props.C16.code_enc hv2 S
      have e2 := Props.C16.code_enc hv1 S'
      rw [hS, e2] at e1
      simp only [Option.some.injEq] at e1
      exact h (by rw [e1])

theorem length_le_encStr (cs : List Nat) : cs.length ≤ (encStr cs).length := by
  induction cs with
  | nil => simp
  | cons c cs ih => rw [encStr_cons]; have := enc_length_pos c; simp; omega

theorem ucCode_nil : ucCode [] = some 0 := by decide

/-- the engine's ICASE comparison on valid UTF-8, from character boundaries of literal and subject -/
theorem chrIcase_utf8 {cs lcps : List Nat} (hv : ∀ c ∈ cs, ValidCp c) (hl : ∀ c ∈ lcps, ValidCp c) :
    ∀ (lpost lpre spre spost : List Nat) (f : Nat), lcps = lpre ++ lpost → cs = spre ++ spost →
      lpost.length + 1 ≤ f →
      chrIcase (encStr lcps) (encStr cs) f (encStr lpre).length (encStr spre).length =
        if matchCase (encStr spost) (encStr lpost) true = true
        then AR.ok ((encStr spre).length + (encStr lpost).length) else AR.fail := by
  intro lpost
  induction lpost with
  | nil =>
    intro lpre spre spost f h1 _ hf
    obtain ⟨f', rfl⟩ : ∃ f', f = f' + 1 := ⟨f - 1, by omega⟩
    rw [List.append_nil] at h1
    subst h1
    rw [chrIcase, rdb_le (Nat.le_refl _), getD_eq_zero_of_ge (Nat.le_refl _)]
    simp [matchCase_nil]
  | cons c1 lpost ih =>
    intro lpre spre spost f h1 h2 hf
    obtain ⟨f', rfl⟩ : ∃ f', f = f' + 1 := ⟨f - 1, by omega⟩
    have hv1 : ValidCp c1 := hl c1 (by rw [h1]; simp)
    have hlit : encStr lcps = encStr lpre ++ (enc c1 ++ encStr lpost) := by
      rw [h1, encStr_append, encStr_cons]
    have hs : encStr cs = encStr spre ++ encStr spost := by rw [h2, encStr_append]
    have hk : (encStr lpre).length ≤ (encStr lcps).length := by rw [hlit]; simp
    have hget : (encStr lcps).getD (encStr lpre).length 0 = Bytes.hd (enc c1) := by
      have := getD_append_right' (encStr lpre) (enc c1 ++ encStr lpost) 0
      rw [Nat.add_zero] at this
      rw [hlit, this, getD_zero_hd, hd_enc_append hv1]
    have hnz : Bytes.hd (enc c1) ≠ 0 := by
      have := hd_enc_ne_zero hv1 []
      rwa [List.append_nil] at this
    rw [chrIcase_step (by rw [rdb_le hk, hget]) hnz]
    have hd1 : decAt (encStr lcps) (encStr lpre).length = some c1 := by
      unfold decAt
      rw [if_pos hk]
      conv => lhs; rw [hlit, List.drop_left' rfl]
      exact Props.C16.code_enc hv1 _
    have hdrop : (encStr cs).drop (encStr spre).length = encStr spost := by
      rw [hs, List.drop_left' rfl]
    have hrk : (encStr spre).length ≤ (encStr cs).length := by rw [hs]; simp
    rw [hd1]
    have hrx : rxLen (encStr lcps) (encStr lpre).length = (enc c1).length := by
      conv => lhs; rw [hlit]
      exact rxLen_at hv1 _ _
    cases spost with
    | nil =>
      have hd2 : decAt (encStr cs) (encStr spre).length = some 0 := by
        unfold decAt
        rw [if_pos hrk, hdrop]; exact ucCode_nil
      rw [hd2]
      dsimp only
      rw [foldc_true, foldc_true]
      have h0 : (lowerB 0 == 0) = true := by decide
      rw [h0, Bool.or_true]
      obtain ⟨a, t, he, _⟩ := enc_chr hv1
      rw [encStr_cons, he, encStr_nil, List.cons_append, matchCase_nil_left]
      simp
    | cons c2 spost =>
      have hv2 : ValidCp c2 := hv c2 (by rw [h2]; simp)
      have hd2 : decAt (encStr cs) (encStr spre).length = some c2 := by
        unfold decAt
        rw [if_pos hrk, hdrop, encStr_cons]; exact Props.C16.code_enc hv2 _
      have hrx2 : rxLen (encStr cs) (encStr spre).length = (enc c2).length := by
        conv => lhs; rw [hs, encStr_cons]
        exact rxLen_at hv2 _ _
      rw [hd2]
      dsimp only
      rw [foldc_true, foldc_true, hrx, hrx2, encStr_cons, encStr_cons,
        nat_beq_zero_false (lowerB_pos hv2.1), Bool.or_false]
      by_cases heq : lowerB c1 = lowerB c2
      · obtain ⟨hlen, hmc⟩ := fold_eq heq (encStr spost) (encStr lpost)
        rw [nat_bne_false heq, hmc]
        simp only [Bool.false_eq_true, if_false]
        have := ih (lpre ++ [c1]) (spre ++ [c2]) spost f' (by rw [h1]; simp) (by rw [h2]; simp)
          (by simp at hf; omega)
        rw [encStr_append, encStr_append] at this
        simp only [encStr_cons, encStr_nil, List.append_nil, List.length_append] at this
        rw [this]
        simp only [List.length_append]
        rw [show (encStr spre).length + (enc c2).length + (encStr lpost).length =
          (encStr spre).length + ((enc c1).length + (encStr lpost).length) by omega]
      · rw [nat_bne_true heq, fold_ne hv1 hv2 heq]
        simp

/-! ### assembling `SubjOk` -/

/-- a start position of `regexec` on an encoded string is a character boundary -/
theorem boundary_of_starts {cs : List Nat} (hv : ∀ c ∈ cs, ValidCp c) {r : Nat} (h : Starts (encStr cs) r) :
    ∃ pre post, cs = pre ++ post ∧ r = (encStr pre).length := by
  induction h with
  | zero => exact ⟨[], cs, rfl, rfl⟩
  | @step i _ hlt ih =>
    obtain ⟨pre, post, h1, h2⟩ := ih
    cases post with
    | nil =>
      rw [List.append_nil] at h1
      rw [h1] at hlt; omega
    | cons c post =>
      have hc : ValidCp c := hv c (by rw [h1]; simp)
      refine ⟨pre ++ [c], post, by rw [h1]; simp, ?_⟩
      have hsplit : encStr cs = encStr pre ++ (enc c ++ encStr post) := by
        rw [h1, encStr_append, encStr_cons]
      have hrx : rxLen (encStr cs) i = (enc c).length := by
        rw [h2]
        conv => lhs; rw [hsplit]
        exact rxLen_at hc _ _
      rw [hrx, h2, encStr_append]; simp

/-- the encoding of valid code points is a whole number of characters for the engine -/
theorem litOk_encStr {lcps : List Nat} (hl : ∀ c ∈ lcps, ValidCp c) : LitOk (encStr lcps) := by
  have key : ∀ (post pre : List Nat), lcps = pre ++ post → Steps (encStr lcps) (encStr pre).length := by
    intro post
    induction post with
    | nil =>
      intro pre h
      rw [List.append_nil] at h
      rw [← h]; exact Steps.done
    | cons c post ih =>
      intro pre h
      have hc : ValidCp c := hl c (by rw [h]; simp)
      have hsplit : encStr lcps = encStr pre ++ (enc c ++ encStr post) := by
        rw [h, encStr_append, encStr_cons]
      have hget : (encStr lcps).getD (encStr pre).length 0 = Bytes.hd (enc c) := by
        have := getD_append_right' (encStr pre) (enc c ++ encStr post) 0
        rw [Nat.add_zero] at this
        rw [hsplit, this, getD_zero_hd, hd_enc_append hc]
      have hpos := enc_length_pos c
      refine Steps.step ?_ ?_ ?_
      · rw [hsplit]; simp; omega
      · rw [hget, Props.C16.len_enc hc]; exact hpos
      · rw [hget, Props.C16.len_enc hc]
        have := ih (pre ++ [c]) (by rw [h]; simp)
        rw [encStr_append] at this
        simpa using this
  exact key lcps [] rfl

/-- **UTF-8 instance**: the encoding of valid code points as subject and a non-empty encoding of
    valid code points as literal satisfy the hypotheses of the agreement theorem, with or without ICASE -/
theorem subjOk_utf8 {cs lcps : List Nat} (hv : ∀ c ∈ cs, ValidCp c) (hl : ∀ c ∈ lcps, ValidCp c)
    (hne : lcps ≠ []) (ic : Bool) : SubjOk (encStr cs) (encStr lcps) ic := by
  refine ⟨?_, ?_, ?_⟩
  · intro r h
    exact sync_utf8 hv hl hne ic r h
  · intro p h0 hp
    exact prevLead_word (encStr_lt hv) (contPrev_encStr cs hv) h0 hp
  · intro _ r hst
    obtain ⟨spre, spost, h1, h2⟩ := boundary_of_starts hv hst
    have := chrIcase_utf8 hv hl lcps [] spre spost ((encStr lcps).length + 2) rfl h1
      (by have := length_le_encStr lcps; omega)
    rw [encStr_nil, List.length_nil, ← h2] at this
    rw [this]
    have hdrop : (encStr cs).drop r = encStr spost := by
      rw [h2, h1, encStr_append, List.drop_left' rfl]
    rw [hdrop]

theorem enc_no_nl {c : Nat} (hc : c ≠ 10) (h2 : c < 0x110000) : ¬ 10 ∈ enc c := by
  intro h
  by_cases hlow : c < 128
  · rw [enc_low hlow] at h; simp at h; omega
  · have := enc_high (by omega) h2 10 h; omega

theorem encStr_no_nl {cs : List Nat} (h : ∀ c ∈ cs, ValidCp c ∧ c ≠ 10) : ¬ 10 ∈ encStr cs := by
  induction cs with
  | nil => simp
  | cons c cs ih =>
    rw [encStr_cons]
    intro hm
    rcases List.mem_append.mp hm with h1 | h1
    · exact enc_no_nl (h c (by simp)).2 (h c (by simp)).1.2 h1
    · exact ih (fun d hd => h d (by simp [hd])) h1

theorem encStr_snoc_nl (cs : List Nat) : encStr cs ++ [10] = encStr (cs ++ [10]) := by
  rw [encStr_append]; rfl

end Neatvi.C12
