import NeatviVerif.Model.ViCmd
/-!
# C09 (key queue): what `term_read`, `term_push`, `.` and `@r` do to the stream of pending keys

`pending s` is the key stream the editor is going to see (the `vi_buf` push-back stack aside): the
unread part of `term.c`'s `ibuf` followed by the keys the terminal has not delivered yet.
-/
namespace Neatvi.Lemmas.C09
open Neatvi Neatvi.Vi

/-- the key stream the editor will see (`vibuf` aside) -/
def pending (s : VS) : Bytes := s.ibuf.drop s.ibufPos ++ s.typed

/-- the queue invariant of term.c: `ibuf_pos ≤ ibuf_cnt` (holds initially, kept by every primitive) -/
def QWf (s : VS) : Prop := s.ibufPos ≤ s.ibuf.length

/-- nothing that was pushed is still unread -/
def Drained (s : VS) : Prop := s.ibufPos = s.ibuf.length

/-- the state `term_push(x)` produces -/
def push (x : Bytes) (s : VS) : VS := { s with ibuf := s.ibuf ++ x.take (4096 - s.ibuf.length) }

/-- `n` pushes of `x` -/
def pushN : Nat → Bytes → VS → VS
  | 0, _, s => s
  | n + 1, x, s => pushN n x (push x s)

/-- the `icmd` after reading key `k` -/
def icmdAfter (ic : Bytes) (k : Nat) : Bytes := if ic.length < 4096 then ic ++ [k] else ic

/-! ### term_read -/

theorem termRead_eof (s : VS) (h : pending s = []) : termRead s = Res.eof := by
  obtain ⟨h1, h2⟩ := List.append_eq_nil_iff.mp h
  have hn : s.ibuf.length ≤ s.ibufPos := by
    have := congrArg List.length h1
    simp at this; omega
  simp [termRead, hn, h2]

/-- the state after `term_read` returned key `k` with `rest` still pending: `ibuf`/`ibufPos`/`typed`
are existentially hidden, everything else is given by `s` -/
theorem termRead_ok (s : VS) (k : Nat) (rest : Bytes) (h : pending s = k :: rest) :
    ∃ ib ip ty, termRead s = Res.ok (k : Int)
        { s with ibuf := ib, ibufPos := ip, typed := ty, icmd := icmdAfter s.icmd k } ∧
      ib.drop ip ++ ty = rest ∧ ip ≤ ib.length ∧
      (s.ibufPos < s.ibuf.length → ib = s.ibuf ∧ ip = s.ibufPos + 1 ∧ ty = s.typed) ∧
      (s.ibuf.length ≤ s.ibufPos → ib = [k] ∧ ip = 1 ∧ ty = rest) := by
  unfold pending at h
  by_cases hn : s.ibuf.length ≤ s.ibufPos
  · have hd : s.ibuf.drop s.ibufPos = [] := List.drop_eq_nil_of_le hn
    rw [hd, List.nil_append] at h
    refine ⟨[k], 1, rest, ?_, by simp, by simp, fun h' => by omega, fun _ => ⟨rfl, rfl, rfl⟩⟩
    simp [termRead, hn, h, icmdAfter]
  · have hlt : s.ibufPos < s.ibuf.length := by omega
    have hd : s.ibuf.drop s.ibufPos = s.ibuf[s.ibufPos] :: s.ibuf.drop (s.ibufPos + 1) :=
      List.drop_eq_getElem_cons hlt
    rw [hd, List.cons_append] at h
    injection h with hk hr
    refine ⟨s.ibuf, s.ibufPos + 1, s.typed, ?_, hr, by omega, fun _ => ⟨rfl, rfl, rfl⟩, fun h' => by omega⟩
    have hg : s.ibuf[s.ibufPos]?.getD 0 = k := by
      simp [List.getElem?_eq_getElem hlt, hk]
    simp [termRead, hn, hg, icmdAfter]

/-- reading a key when at most that key is left of what was pushed: afterwards nothing pushed is pending -/
theorem termRead_ok_drained (s : VS) (k : Nat) (rest : Bytes) (h : pending s = k :: rest)
    (hd : s.ibuf.length ≤ s.ibufPos + 1) :
    ∃ ib, termRead s = Res.ok (k : Int)
        { s with ibuf := ib, ibufPos := ib.length, typed := rest, icmd := icmdAfter s.icmd k } ∧
      ib.length ≤ max 1 s.ibuf.length := by
  obtain ⟨ib, ip, ty, h1, h2, -, h4, h5⟩ := termRead_ok s k rest h
  by_cases hn : s.ibuf.length ≤ s.ibufPos
  · obtain ⟨a, b, c⟩ := h5 hn
    subst a b c
    exact ⟨[k], h1, by simp; omega⟩
  · obtain ⟨a, b, c⟩ := h4 (by omega)
    subst a b c
    rw [List.drop_eq_nil_of_le (by omega), List.nil_append] at h2
    subst h2
    have : s.ibufPos + 1 = s.ibuf.length := by omega
    rw [this] at h1
    exact ⟨s.ibuf, h1, by omega⟩

/-- **`termRead_pending`**: `term_read` delivers the head of the pending stream, appends it to `icmd`
(below the 4096 limit) and touches nothing else. -/
theorem termRead_pending (s : VS) (k : Nat) (rest : Bytes) (h : pending s = k :: rest) :
    ∃ s', termRead s = Res.ok (k : Int) s' ∧ pending s' = rest ∧ QWf s' ∧
      s'.icmd = (if s.icmd.length < 4096 then s.icmd ++ [k] else s.icmd) ∧
      { s' with ibuf := s.ibuf, ibufPos := s.ibufPos, typed := s.typed, icmd := s.icmd } = s := by
  obtain ⟨ib, ip, ty, h1, h2, h3, -, -⟩ := termRead_ok s k rest h
  exact ⟨_, h1, h2, h3, rfl, rfl⟩

/-- the field-by-field form of the frame part of `termRead_pending` -/
theorem termRead_frame (s s' : VS) (c : Int) (h : termRead s = Res.ok c s') :
    s'.ed = s.ed ∧ s'.vibuf = s.vibuf ∧ s'.xcol = s.xcol ∧ s'.arg1 = s.arg1 ∧ s'.arg2 = s.arg2 ∧
    s'.ybuf = s.ybuf ∧ s'.charlast = s.charlast ∧ s'.charcmd = s.charcmd ∧ s'.pcol = s.pcol ∧
    s'.soset = s.soset ∧ s'.so = s.so ∧ s'.scroll = s.scroll ∧ s'.repCmd = s.repCmd ∧
    s'.execReg = s.execReg ∧ s'.msg = s.msg ∧ s'.xrows = s.xrows ∧ s'.xcols = s.xcols ∧
    s'.xai = s.xai ∧ s'.xkmap = s.xkmap ∧ s'.exKmap = s.exKmap ∧ s'.xkmapAlt = s.xkmapAlt ∧
    s'.unmodelled = s.unmodelled := by
  cases hp : pending s with
  | nil => rw [termRead_eof s hp] at h; cases h
  | cons k rest =>
    obtain ⟨ib, ip, ty, h1, -⟩ := termRead_ok s k rest hp
    rw [h1] at h
    injection h with _ hs
    subst hs
    simp

/-- the key returned is the head of the pending stream -/
theorem termRead_key (s s' : VS) (c : Int) (h : termRead s = Res.ok c s') :
    ∃ k rest, pending s = k :: rest ∧ c = (k : Int) ∧ pending s' = rest := by
  cases hp : pending s with
  | nil => rw [termRead_eof s hp] at h; cases h
  | cons k rest =>
    obtain ⟨s1, h1, h2, -⟩ := termRead_pending s k rest hp
    rw [h1] at h
    injection h with hc hs
    subst hs
    exact ⟨k, rest, rfl, hc.symm, h2⟩

/-- `term_read` never traps -/
theorem termRead_ne_trap (s : VS) : termRead s ≠ Res.trap := by
  cases hp : pending s with
  | nil => rw [termRead_eof s hp]; intro h; cases h
  | cons k rest =>
    obtain ⟨s1, h1, -⟩ := termRead_pending s k rest hp
    rw [h1]; intro h; cases h

/-! ### term_push -/

theorem termPush_eq (x : Bytes) (s : VS) : termPush x s = Res.ok () (push x s) := rfl

theorem push_qwf (x : Bytes) (s : VS) (h : QWf s) : QWf (push x s) := by
  simp only [QWf, push, List.length_append] at *
  omega

theorem pushN_qwf (n : Nat) (x : Bytes) (s : VS) (h : QWf s) : QWf (pushN n x s) := by
  induction n generalizing s with
  | zero => exact h
  | succ n ih => exact ih _ (push_qwf x s h)

/-- **`termPush_pending`**: pushed keys go after the not-yet-read pushed keys and before the keys of
the terminal.  (`QWf s`, i.e. `ibuf_pos ≤ ibuf_cnt`, is needed: the statement is false without it.) -/
theorem termPush_pending (x : Bytes) (s : VS) (hwf : QWf s) :
    ∃ s', termPush x s = Res.ok () s' ∧
      s' = { s with ibuf := s.ibuf ++ x.take (4096 - s.ibuf.length) } ∧
      pending s' = s.ibuf.drop s.ibufPos ++ x.take (4096 - s.ibuf.length) ++ s.typed := by
  refine ⟨_, rfl, rfl, ?_⟩
  simp only [pending, List.drop_append, List.append_assoc]
  have : s.ibufPos - s.ibuf.length = 0 := by unfold QWf at hwf; omega
  rw [this, List.drop_zero]

/-- pushing when nothing pushed is pending and there is room equals typing -/
theorem push_when_drained (x : Bytes) (s : VS) (hwf : QWf s) (hd : s.ibufPos ≥ s.ibuf.length)
    (hroom : s.ibuf.length + x.length ≤ 4096) :
    ∃ s', termPush x s = Res.ok () s' ∧ s' = { s with ibuf := s.ibuf ++ x } ∧
      pending s' = x ++ s.typed := by
  obtain ⟨s', h1, h2, h3⟩ := termPush_pending x s hwf
  have ht : x.take (4096 - s.ibuf.length) = x := List.take_of_length_le (by omega)
  rw [ht] at h2 h3
  refine ⟨s', h1, h2, ?_⟩
  rw [h3, List.drop_eq_nil_of_le hd, List.nil_append]

/-! ### repeated pushes -/

theorem repeatM_push (n : Nat) (x : Bytes) (s : VS) :
    repeatM n (termPush x) s = Res.ok () (pushN n x s) := by
  induction n generalizing s with
  | zero => rfl
  | succ n ih =>
    show (termPush x >>= fun _ => repeatM n (termPush x)) s = _
    show (match termPush x s with | Res.ok a s' => (fun _ => repeatM n (termPush x)) a s' | Res.eof => Res.eof | Res.trap => Res.trap) = _
    rw [termPush_eq]
    exact ih _

/-- with room for all of them, `n` pushes of `x` append `n` copies of `x` to `ibuf` -/
theorem pushN_room (n : Nat) (x : Bytes) (s : VS) (hroom : s.ibuf.length + n * x.length ≤ 4096) :
    pushN n x s = { s with ibuf := s.ibuf ++ (List.replicate n x).flatten } := by
  induction n generalizing s with
  | zero => simp [pushN]
  | succ n ih =>
    have hm : (n + 1) * x.length = n * x.length + x.length := by rw [Nat.add_mul, Nat.one_mul]
    have ht : x.take (4096 - s.ibuf.length) = x := List.take_of_length_le (by omega)
    have hp : push x s = { s with ibuf := s.ibuf ++ x } := by simp [push, ht]
    rw [pushN, hp, ih]
    · simp [List.replicate_succ, List.append_assoc]
    · simp only [List.length_append]; omega

theorem pending_pushN_room (n : Nat) (x : Bytes) (s : VS) (hwf : QWf s)
    (hroom : s.ibuf.length + n * x.length ≤ 4096) :
    pending (pushN n x s) = s.ibuf.drop s.ibufPos ++ (List.replicate n x).flatten ++ s.typed := by
  rw [pushN_room n x s hroom]
  simp only [pending, List.drop_append, List.append_assoc]
  have : s.ibufPos - s.ibuf.length = 0 := by unfold QWf at hwf; omega
  rw [this, List.drop_zero]

theorem pending_pushN_drained (n : Nat) (x : Bytes) (s : VS) (hd : Drained s)
    (hroom : s.ibuf.length + n * x.length ≤ 4096) :
    pending (pushN n x s) = (List.replicate n x).flatten ++ s.typed := by
  have hwf : QWf s := by unfold QWf; unfold Drained at hd; omega
  rw [pending_pushN_room n x s hwf hroom, List.drop_eq_nil_of_le (by unfold Drained at hd; omega),
    List.nil_append]

/-- without any room hypothesis: the pending keys of the terminal stay last and the unread pushed keys
stay first -/
theorem pending_pushN_shape (n : Nat) (x : Bytes) (s : VS) (hwf : QWf s) :
    ∃ mid, pending (pushN n x s) = s.ibuf.drop s.ibufPos ++ mid ++ s.typed ∧
      (pushN n x s).ibuf = s.ibuf ++ mid ∧
      pushN n x s = { s with ibuf := s.ibuf ++ mid } := by
  induction n generalizing s with
  | zero => exact ⟨[], by simp [pushN, pending], by simp [pushN], by simp [pushN]⟩
  | succ n ih =>
    obtain ⟨mid, h1, h2, h3⟩ := ih (push x s) (push_qwf x s hwf)
    refine ⟨x.take (4096 - s.ibuf.length) ++ mid, ?_, ?_, ?_⟩
    · rw [pushN, h1]
      simp only [push, List.drop_append, List.append_assoc]
      have : s.ibufPos - s.ibuf.length = 0 := by unfold QWf at hwf; omega
      rw [this, List.drop_zero]
    · rw [pushN, h2]; simp [push]
    · rw [pushN, h3]; simp [push]

end Neatvi.Lemmas.C09
