import NeatviVerif.Lemmas.C20cLocal
import NeatviVerif.Lemmas.C02cStages
/-!
# C20c lemmas, part 4: every ex command line is a sequence of atomic table steps

`StepClosed T`: a relation between editor states that contains the atomic steps — a local step, a
quiet step, `bufs_switch`, `bufs_open`, `bufs_shift`, the fresh buffer of `:b !`, `:b ~` — and is
reflexive and transitive.  `exExec_T`: every such relation contains every run of `ex_exec`, whatever
the line (`|`-lists, `:g`, `:@`, `:e +cmd`, …) and the fuel.
-/
namespace Neatvi.Lemmas.C20c
open Neatvi Neatvi.Lbuf Neatvi.Ex Neatvi.Rset Neatvi.Props.C20 Neatvi.Props.C20b Neatvi.Lemmas.C20b
open Neatvi.Lemmas.ExFrame Neatvi.Lemmas.C02Ex Neatvi.Lemmas.C02b Neatvi.Lemmas.C02c

/-- the table of a running editor: 16 slots, unique buffer numbers within `1..bufsCnt`, the occupied
    slots a prefix -/
def TableOk (ed : Ed) : Prop := ed.bufs.length = Gen.NBUFS ∧ IdsOk ed ∧ Packed ed

/-- `T` contains the atomic steps and is reflexive and transitive.  The switch carries what its call
    sites know: on a well-formed table the slot switched to is occupied. -/
structure StepClosed (T : Ed → Ed → Prop) : Prop where
  refl : ∀ ed, T ed ed
  trans : ∀ {a b c}, T a b → T b c → T a c
  loc : ∀ {ed ed'}, Loc ed ed' → T ed ed'
  cmd : ∀ {f ed hd loc cmd arg txt r ed'}, tableHandler hd = false →
    runCmd f ed hd loc cmd arg txt = some (r, ed') → T ed ed'
  quiet : ∀ {ed ed'}, Quiet ed ed' → T ed ed'
  sw : ∀ ed idx, (TableOk ed → (ed.bufs.getD idx none).isSome = true) → T ed (ed.bufsSwitch idx)
  opn : ∀ ed p, T ed (ed.bufsOpen p).2
  shift : ∀ ed, T ed ed.bufsShift
  fresh : ∀ ed, ed.cur = none →
    T ed { ed with bufs := ed.bufs.set 0 (some (freshBuf ed)), bufsCnt := ed.bufsCnt + 1 }
  renum : ∀ ed, T ed (renumEd ed)

theorem Quiet.isSome {ed ed' : Ed} (h : Quiet ed ed') (i : Nat) :
    (ed'.bufs.getD i none).isSome = (ed.bufs.getD i none).isSome := by
  have := congrArg Option.isSome (h.getD i)
  simpa using this

theorem Loc.isSome {ed ed' : Ed} (h : Loc ed ed') (i : Nat) :
    (ed'.bufs.getD i none).isSome = (ed.bufs.getD i none).isSome := by
  cases i with
  | zero =>
    have := congrArg Option.isSome h.id0
    simpa [Ed.cur] using this
  | succ i => rw [h.getD (i + 1) (by omega)]

/-! ### the listing form of `:b` -/

/-- one round of the listing loop -/
def listStep (st : Bool × Ed) (i : Nat) : Bool × Ed :=
  let (go, ed) := st
  if !go then st else
  match ed.bufs.getD i none with
  | none => (false, ed)
  | some b =>
    let (m, ed) := ed.modifiedAt i
    let alias := (strOf "%#^").getD i 32
    let idstr := intStr b.id
    let line := (List.replicate (2 - idstr.length) 32) ++ idstr ++ [32, alias, 32] ++ b.path ++ [32, if m then 42 else 32]
    (true, ed.print (line.take 127))

/-- the state after `:b` without an argument -/
def listEd (ed : Ed) : Ed := ((List.range ed.bufs.length).foldl listStep (true, ed)).2

theorem runCmd_b_list (f : Nat) (ed : Ed) (loc cmd arg : Bytes) (txt : Option Bytes) (h : arg.isEmpty = true) :
    runCmd (f + 1) ed "ec_buffer" loc cmd arg txt = some (0, listEd ed) := by
  rw [runCmd.eq_2]
  simp only [String.reduceBEq, Bool.false_eq_true, if_false, if_true, Bool.or_self, h]
  rfl

theorem quiet_listStep (st : Bool × Ed) (i : Nat) : Quiet st.2 (listStep st i).2 := by
  obtain ⟨go, ed⟩ := st
  unfold listStep
  simp only []
  split
  · exact Quiet.refl _
  · split
    · exact Quiet.refl _
    · have hm := quiet_modifiedAt ed i
      generalize ed.modifiedAt i = p at hm
      obtain ⟨m, ed1⟩ := p
      exact hm.trans (quiet_print _ _)

theorem quiet_foldl_listStep : ∀ (l : List Nat) (st : Bool × Ed), Quiet st.2 (l.foldl listStep st).2 := by
  intro l
  induction l with
  | nil => intro st; exact Quiet.refl _
  | cons i l ih => intro st; rw [List.foldl_cons]; exact (quiet_listStep st i).trans (ih _)

/-- `:b` without an argument changes no buffer, no number, no view: it bumps sequence counters and
    prints -/
theorem quiet_listEd (ed : Ed) : Quiet ed (listEd ed) := quiet_foldl_listStep _ (true, ed)

theorem editFinish_loc (ed ed' : Ed) (path : Bytes) (h : editFinish ed path = some ed') : Loc ed ed' := by
  unfold editFinish at h
  split at h
  · cases h
  · rename_i b hb
    split at h
    · cases h
    · rename_i ed1 hrd
      have l1 : Loc ed ed1 := by
        unfold editRead at hrd
        split at hrd
        · split at hrd
          · cases hrd; exact Loc.refl _
          · split at hrd
            · cases hrd
            · cases hrd
              exact (loc_setLb _ _).to rfl rfl
        · cases hrd; exact Loc.refl _
      split at h
      · cases h
      · rename_i b1 hb1
        cases h
        exact Loc.trans l1 (Loc.to
          (b := ed1.setCur { b1 with lb := (modified (savedCore b1.lb (!path.isEmpty))).2, mtime := ed1.mtimeOf b1.path })
          (loc_setCur hb1 rfl) rfl rfl)

theorem findRoom_set_isSome (ed : Ed) (p : Bytes) (hl : 0 < ed.bufs.length) :
    ((ed.bufsOpen p).2.bufs.getD (ed.bufsOpen p).1 none).isSome = true := by
  show ((ed.bufsOpen p).2.bufs.getD ed.findRoom none).isSome = true
  rw [(open_uses_free_slot ed p).2.2.2.2.2.2.2 hl]; rfl

theorem adv_loc (dep : Nat) : ∀ (h : Nat) (ed : Ed) (i : Int), Loc ed (ecGlob.scan.adv dep h ed i).1 := by
  intro h
  induction h with
  | zero => intro ed i; rw [ecGlob.scan.adv]; exact Loc.refl _
  | succ h ih =>
    intro ed i
    rw [ecGlob.scan.adv]
    split
    · exact Loc.refl _
    · split
      · exact Loc.refl _
      · rename_i lb hlb
        simp only []
        have e1 : Loc ed (ed.setLb (globGet lb i.toNat dep).2) := loc_setLb _ _
        split
        · exact e1
        · exact e1.trans (ih _ _)

theorem foldl_loc {α} (F : Ed → α → Ed) (hF : ∀ s a, Loc s (F s a)) : ∀ (l : List α) (s : Ed), Loc s (l.foldl F s) := by
  intro l
  induction l with
  | nil => intro s; exact Loc.refl _
  | cons a l ih => intro s; exact (hF s a).trans (ih _)

theorem runCmd_at (f : Nat) (ed : Ed) (loc cmd arg : Bytes) (txt : Option Bytes) :
    runCmd (f + 1) ed "ec_at" loc cmd arg txt = ecAt f ed loc cmd arg := by
  rw [runCmd.eq_2]
  simp only [String.reduceBEq, Bool.false_eq_true, if_false, if_true, Bool.or_self]

theorem runCmd_glob (f : Nat) (ed : Ed) (loc cmd arg : Bytes) (txt : Option Bytes) :
    runCmd (f + 1) ed "ec_glob" loc cmd arg txt = ecGlob f ed loc cmd arg := by
  rw [runCmd.eq_2]
  simp only [String.reduceBEq, Bool.false_eq_true, if_false, if_true, Bool.or_self]

theorem loc_modifiedAt0 (ed : Ed) : Loc ed (ed.modifiedAt 0).2 := by
  rw [modifiedAt_eq]
  cases hb : ed.bufs.getD 0 none with
  | none => exact Loc.refl _
  | some b => exact loc_bumpAt0 ed b hb

section generic
variable {T : Ed → Ed → Prop} (hT : StepClosed T)
include hT

theorem T_same {a b c : Ed} (h : T a b) (hs : Same b c) : T a c := hT.trans h (hT.loc (Loc.of_same hs))
theorem T_to {a b c : Ed} (h : T a b) (hb : c.bufs = b.bufs) (hc : c.bufsCnt = b.bufsCnt) : T a c :=
  T_same hT h ⟨hb, hc⟩

/-! ### `:q` -/

theorem each_T (cmd : Bytes) (all : Bool) : ∀ (g i : Nat) (ed ed' : Ed) (r : Bool),
    runCmd.each cmd all g i ed = some (r, ed') → T ed ed' := by
  intro g
  induction g with
  | zero => intro i ed ed' r h; rw [runCmd.each.eq_1] at h; cases h; exact hT.refl _
  | succ g ih =>
    intro i ed ed' r h
    rw [runCmd.each.eq_2] at h
    split at h
    · cases h; exact hT.refl _
    · split at h
      · exact ih _ _ _ _ h
      · rename_i b0 hb0
        simp only [] at h
        split at h
        · cases h
        · rename_i ed1 hchk
          have q1 : Quiet ed ed1 := by
            split at hchk
            · exact quiet_bufsModified hchk
            · cases hchk
          cases h
          refine hT.trans (hT.quiet q1) (hT.sw _ _ ?_)
          intro _
          rw [q1.isSome, hb0]; rfl
        · rename_i ed1 hchk
          have q1 : Quiet ed ed1 := by
            split at hchk
            · exact quiet_bufsModified hchk
            · cases hchk; exact Quiet.refl _
          have h1 : T ed ed1 := hT.quiet q1
          split at h
          · split at h
            · cases h
            · rename_i b1 hb1
              split at h
              · cases h
              · rename_i err ed2 hs
                have io := lbufSaveP_io _ _ _ _ _ _ _ _ _ hs
                cases h
                refine T_to hT (hT.trans (T_same hT h1 io.same) (hT.sw _ _ ?_)) rfl rfl
                intro _
                rw [io.same.1, hb1]; rfl
              · rename_i ed2 hs
                have io := lbufSaveP_io _ _ _ _ _ _ _ _ _ hs
                exact hT.trans (T_same hT h1 io.same) (ih _ _ _ _ h)
          · exact hT.trans h1 (ih _ _ _ _ h)

theorem quit_T (f : Nat) (ed ed' : Ed) (loc cmd arg : Bytes) (txt : Option Bytes) (r : Int)
    (h : runCmd (f + 1) ed "ec_quit" loc cmd arg txt = some (r, ed')) : T ed ed' := by
  rw [runCmd_quit] at h
  split at h
  · cases h
  · rename_i rc ed1 hw
    have h1 : T ed ed1 := by
      split at hw
      · exact hT.loc (ecWrite_loc hw)
      · cases hw; exact hT.refl _
    split at h
    · cases h; exact h1
    · split at h
      · cases h
      · rename_i he; cases h; exact hT.trans h1 (each_T hT _ _ _ _ _ _ _ he)
      · rename_i he; cases h; exact T_to hT (hT.trans h1 (each_T hT _ _ _ _ _ _ _ he)) rfl rfl

/-! ### `:b` -/

theorem switchTo_T (ed ed' : Ed) (cmd : Bytes) (idx r : Int) (h : switchTo ed cmd idx = some (r, ed')) : T ed ed' := by
  unfold switchTo at h
  split at h
  · next hc =>
    simp only [Bool.and_eq_true, decide_eq_true_eq] at hc
    split at h
    · cases h
    · next ed1 hg =>
      cases h
      unfold bufferGuard at hg
      exact hT.loc (loc_guard0 hg)
    · next ed1 hg =>
      cases h
      unfold bufferGuard at hg
      have l1 := loc_guard0 hg
      refine hT.trans (hT.loc l1) (hT.sw _ _ ?_)
      intro _
      rw [l1.isSome]; exact hc.2
  · cases h
    exact hT.loc (Loc.of_same ⟨rfl, rfl⟩)

theorem delEd_T (ed : Ed) : T ed (delEd ed) := by
  unfold delEd
  split
  · next hc =>
    refine hT.trans (hT.shift ed) ?_
    have := hT.fresh ed.bufsShift (by simpa using hc)
    exact this
  · exact hT.shift ed

theorem buffer_T (f : Nat) (ed ed' : Ed) (loc cmd arg : Bytes) (txt : Option Bytes) (r : Int)
    (h : runCmd (f + 1) ed "ec_buffer" loc cmd arg txt = some (r, ed')) : T ed ed' := by
  cases h0 : arg.isEmpty
  · by_cases h33 : arg.headD 0 = 33
    · rw [runCmd_b_delete f ed loc cmd arg txt h33] at h
      cases h
      exact delEd_T hT ed
    · by_cases h126 : arg.headD 0 = 126
      · rw [runCmd_b_renumber f ed loc cmd arg txt h126] at h
        cases h
        exact hT.renum ed
      · obtain ⟨idx, hs⟩ := runCmd_b_switch f ed loc cmd arg txt h0 h33 h126
        rw [hs] at h
        exact switchTo_T hT ed ed' cmd idx r h
  · rw [runCmd_b_list f ed loc cmd arg txt h0] at h
    cases h
    exact hT.quiet (quiet_listEd ed)

/-! ### `:e` -/

theorem editOpen_T (ed : Ed) (path : Bytes) : T ed (editOpen ed path) := by
  unfold editOpen
  split
  · simp only []
    refine hT.trans (hT.opn ed path) (hT.sw _ _ ?_)
    intro hok
    apply findRoom_set_isSome
    have : (ed.bufsOpen path).2.bufs.length = ed.bufs.length := by
      rw [(open_uses_free_slot ed path).2.1, List.length_set]
    rw [← this, hok.1]; decide
  · exact hT.refl _

theorem ewPre_T (ed : Ed) (cmd path : Bytes) : T ed (ewPre ed cmd path) := by
  unfold ewPre
  split
  · next hc =>
    simp only [Bool.and_eq_true, decide_eq_true_eq] at hc
    refine hT.sw _ _ ?_
    intro hok
    obtain ⟨_, ⟨b, hb, _⟩, _⟩ := find_by_path ed path _ rfl (by omega)
    refine hok.2.2 1 _ ?_ (by rw [hb]; rfl)
    omega
  · exact hT.refl _

theorem editPlus_T (f : Nat) (hcmd : ∀ ed ln r ed', exCommand f ed ln = some (r, ed') → T ed ed')
    (pls : Bytes) (ed ed' : Ed) (r : Int) (h : editPlus f pls ed = some (r, ed')) : T ed ed' := by
  unfold editPlus at h
  split at h
  · exact hcmd _ _ _ _ h
  · cases h; exact hT.refl _

theorem ecEdit_T (f : Nat) (hcmd : ∀ ed ln r ed', exCommand f ed ln = some (r, ed') → T ed ed')
    (ed ed' : Ed) (cmd arg : Bytes) (r : Int)
    (h : ecEdit (f + 1) ed cmd arg = some (r, ed')) : T ed ed' := by
  rw [ecEdit_stages] at h
  split at h
  · cases h
  · rename_i ed1 hg
    cases h
    unfold editGuard at hg
    exact hT.loc (loc_guard0 hg)
  · rename_i ed1 hg
    unfold editGuard at hg
    have e1 : T ed ed1 := hT.loc (loc_guard0 hg)
    split at h
    · cases h
    · rename_i ed2 hp
      cases h
      exact T_same hT e1 (pathExpand_same hp)
    · rename_i path ed2 hp
      have e2 : T ed ed2 := T_same hT e1 (pathExpand_same hp)
      have e3 : T ed (ewPre ed2 cmd path) := hT.trans e2 (ewPre_T hT ed2 cmd path)
      split at h
      · next hc =>
        simp only [Bool.and_eq_true, decide_eq_true_eq] at hc
        refine hT.trans (hT.trans e3 (hT.sw _ _ ?_)) (editPlus_T hT f hcmd _ _ _ _ h)
        intro _
        obtain ⟨_, ⟨b, hb, _⟩, _⟩ := find_by_path (ewPre ed2 cmd path) path _ rfl hc.2
        rw [hb]; rfl
      · split at h
        · cases h
        · rename_i ed3 hg2
          cases h
          unfold editGuard2 at hg2
          exact hT.trans e3 (hT.quiet (quiet_guard hg2))
        · rename_i ed3 hg2
          unfold editGuard2 at hg2
          have e4 : T ed ed3 := hT.trans e3 (hT.quiet (quiet_guard hg2))
          split at h
          · cases h
          · rename_i ed5 hfin
            have e5 : T ed ed5 := hT.trans (hT.trans e4 (editOpen_T hT ed3 path)) (hT.loc (editFinish_loc _ _ _ hfin))
            exact hT.trans e5 (editPlus_T hT f hcmd _ _ _ _ h)

/-! ### `:@` and `:g` -/

theorem ecAt_T (f : Nat) (hcmd : ∀ ed ln r ed', exCommand f ed ln = some (r, ed') → T ed ed')
    (ed ed' : Ed) (loc cmd arg : Bytes) (r : Int)
    (h : ecAt (f + 1) ed loc cmd arg = some (r, ed')) : T ed ed' := by
  rw [ecAt] at h
  split at h
  · cases h; exact hT.refl _
  · split at h
    · cases h
    · rename_i hr
      have e1 : T ed _ := hT.loc (Loc.of_same (exRegion_same hr))
      split at h
      · cases h; exact e1
      · split at h
        · cases h; exact T_to hT e1 rfl rfl
        · simp only [] at h
          split at h
          · cases h; exact T_to hT e1 rfl rfl
          · split at h
            · cases h
            · rename_i r2 ed2 hx
              cases h
              refine T_to hT (hT.trans ?_ (hcmd _ _ _ _ hx)) rfl rfl
              exact T_to hT e1 rfl rfl

theorem scan_T (f : Nat) (neg : Bool) (s : Bytes) (re : RStr) (dep : Nat)
    (hbody : ∀ ed ln r ed', exExec f ed ln = some (r, ed') → T ed ed') :
    ∀ (g : Nat) (ed : Ed) (i : Int) (ed' : Ed), ecGlob.scan f neg s re dep g ed i = some ed' → T ed ed' := by
  intro g
  induction g with
  | zero => intro ed i ed' h; rw [ecGlob.scan] at h; cases h
  | succ g ih =>
    intro ed i ed' h
    rw [ecGlob.scan] at h
    split at h
    · cases h; exact hT.refl _
    · split at h
      · cases h
      · split at h
        · cases h
        · simp only [] at h
          split at h
          · cases h
          · rename_i edx _ hstep
            cases h
            split at hstep
            · split at hstep
              · cases hstep
              · rename_i hx
                split at hstep
                · cases hstep
                  refine hT.trans ?_ (hbody _ _ _ _ hx)
                  exact hT.loc (Loc.of_same ⟨rfl, rfl⟩)
                · cases hstep
            · cases hstep
          · rename_i edx ix hstep
            have e1 : T ed edx := by
              split at hstep
              · split at hstep
                · cases hstep
                · rename_i hx
                  split at hstep
                  · cases hstep
                  · cases hstep
                    refine hT.trans ?_ (hbody _ _ _ _ hx)
                    exact hT.loc (Loc.of_same ⟨rfl, rfl⟩)
              · cases hstep; exact hT.refl _
            split at h
            · cases h
            · exact hT.trans (hT.trans e1 (hT.loc (adv_loc _ _ _ _))) (ih _ _ _ h)

open Neatvi.Props.C15 in
theorem ecGlob_T (f : Nat) (hbody : ∀ ed ln r ed', exExec f ed ln = some (r, ed') → T ed ed')
    (ed ed' : Ed) (loc cmd arg : Bytes) (r : Int)
    (h : ecGlob (f + 1) ed loc cmd arg = some (r, ed')) : T ed ed' := by
  rw [ecGlob_eq] at h
  by_cases hdep : ed.xgdep ≥ 7
  · rw [if_pos hdep] at h; cases h; exact T_to hT (hT.refl _) rfl rfl
  rw [if_neg hdep] at h
  split at h
  · cases h
  · rename_i rc b e ed1 hr
    have e1 : T ed ed1 := hT.loc (Loc.of_same (exRegion_same hr))
    have e2 : T ed (globPrep ed1 arg) := T_same hT e1 (globPrep_same ed1 arg)
    split at h
    · cases h; exact e1
    · split at h
      · cases h; exact e2
      · split at h
        · cases h
        · cases h; exact e2
        · split at h
          · cases h
          · rename_i ed2 hscan
            cases h
            have e4 : T ed (globMark (globPrep ed1 arg) b e ((globPrep ed1 arg).xgdep + 1)) := by
              unfold globMark
              refine hT.trans (b := { globPrep ed1 arg with xgdep := (globPrep ed1 arg).xgdep + 1 }) (T_to hT e2 rfl rfl)
                (hT.loc (foldl_loc _ ?_ _ _))
              intro s k
              split
              · exact loc_setLb _ _
              · exact Loc.refl _
            have e3 := hT.trans e4 (scan_T hT f _ _ _ _ hbody _ _ _ _ hscan)
            have e5 : T ed (globSweep ed2 ((globPrep ed1 arg).xgdep + 1)) := by
              refine hT.trans e3 (hT.loc ?_)
              unfold globSweep
              split
              · exact loc_setLb _ _
              · exact Loc.refl _
            exact T_to hT e5 rfl rfl

/-! ### the dispatcher, command lines, the induction on the fuel -/

def ExecT (T : Ed → Ed → Prop) (f : Nat) : Prop := ∀ ed ln r ed', exExec f ed ln = some (r, ed') → T ed ed'
def CmdT (T : Ed → Ed → Prop) (f : Nat) : Prop := ∀ ed ln r ed', exCommand f ed ln = some (r, ed') → T ed ed'
def RunT (T : Ed → Ed → Prop) (f : Nat) : Prop := ∀ ed h loc cmd arg txt r ed',
  runCmd f ed h loc cmd arg txt = some (r, ed') → T ed ed'

theorem runCmd_T (f : Nat)
    (hat : ∀ ed loc cmd arg r ed', ecAt f ed loc cmd arg = some (r, ed') → T ed ed')
    (hglob : ∀ ed loc cmd arg r ed', ecGlob f ed loc cmd arg = some (r, ed') → T ed ed')
    (hedit : ∀ ed cmd arg r ed', ecEdit f ed cmd arg = some (r, ed') → T ed ed') : RunT T (f + 1) := by
  intro ed hd loc cmd arg txt r ed' h
  cases hl : tableHandler hd
  · exact hT.cmd hl h
  · simp only [tableHandler, Bool.or_eq_true, beq_iff_eq] at hl
    rcases hl with (((he | hb) | hq) | hg) | ha
    · subst he; rw [runCmd_edit] at h; exact hedit _ _ _ _ _ h
    · subst hb; exact buffer_T hT f ed ed' loc cmd arg txt r h
    · subst hq; exact quit_T hT f ed ed' loc cmd arg txt r h
    · subst hg; rw [runCmd_glob] at h; exact hglob _ _ _ _ _ _ h
    · subst ha; rw [runCmd_at] at h; exact hat _ _ _ _ _ _ h

theorem cmds_T (f : Nat) (hrun : RunT T f) :
    ∀ (g : Nat) (ed : Ed) (ln : Bytes) (ret r : Int) (ed' : Ed),
      exExec.cmds f g ed ln ret = some (r, ed') → T ed ed' := by
  intro g
  induction g with
  | zero => intro ed ln ret r ed' h; rw [exExec.cmds] at h; cases h; exact hT.refl _
  | succ g ih =>
    intro ed ln ret r ed' h
    rw [exExec.cmds] at h
    split at h
    · cases h; exact hT.refl _
    · generalize exLoc ln = p1 at h
      obtain ⟨loc, l1⟩ := p1
      simp only [] at h
      generalize exCmd l1 = p2 at h
      obtain ⟨cmd, l2⟩ := p2
      simp only [] at h
      generalize exIdx cmd = idx at h
      cases idx with
      | none =>
        simp only [] at h
        generalize exArg l2 (strOf "unknown") = p3 at h
        obtain ⟨arg, l3⟩ := p3
        simp only [] at h
        have hb := exTxt_same ed l3 (strOf "unknown")
        generalize exTxt ed l3 (strOf "unknown") = X at h hb
        obtain ⟨⟨txt, l4⟩, edT⟩ := X
        simp only [] at h hb
        refine hT.trans ?_ (ih _ _ _ _ _ h)
        exact T_to hT (hT.loc (Loc.of_same hb)) rfl rfl
      | some ah =>
        obtain ⟨a, hh⟩ := ah
        simp only [] at h
        generalize exArg l2 a = p3 at h
        obtain ⟨arg, l3⟩ := p3
        simp only [] at h
        have hb := exTxt_same ed l3 a
        generalize exTxt ed l3 a = X at h hb
        obtain ⟨⟨txt, l4⟩, edT⟩ := X
        simp only [] at h hb
        split at h
        · cases h
        · rename_i r1 ed1 hr
          exact hT.trans (hT.trans (hT.loc (Loc.of_same hb)) (hrun _ _ _ _ _ _ _ _ hr)) (ih _ _ _ _ _ h)

theorem exExec_T' (f : Nat) (hrun : RunT T f) : ExecT T (f + 1) := by
  intro ed ln r ed' h
  rw [exExec] at h
  split at h
  · cases h; exact hT.loc (Loc.of_same ⟨rfl, rfl⟩)
  · exact cmds_T hT f hrun _ _ _ _ _ _ h

theorem exCommand_T' (f : Nat) (hx : ExecT T f) : CmdT T (f + 1) := by
  intro ed ln r ed' h
  rw [exCommand] at h
  split at h
  · cases h
  · rename_i r1 ed1 he
    cases h
    exact hT.trans (hx _ _ _ _ he) (hT.loc (loc_modifiedAt0 _))

theorem all_T : ∀ f : Nat, ExecT T f ∧ CmdT T f ∧ RunT T f ∧ RunT T (f + 1) := by
  intro f
  induction f with
  | zero =>
    refine ⟨?_, ?_, ?_, ?_⟩
    · intro ed ln r ed' h; rw [exExec] at h; cases h
    · intro ed ln r ed' h; rw [exCommand] at h; cases h
    · intro ed hd loc cmd arg txt r ed' h; rw [runCmd] at h; cases h
    · refine runCmd_T hT 0 ?_ ?_ ?_
      · intro ed loc cmd arg r ed' h; rw [ecAt] at h; cases h
      · intro ed loc cmd arg r ed' h; rw [ecGlob] at h; cases h
      · intro ed cmd arg r ed' h; rw [ecEdit] at h; cases h
  | succ f ih =>
    obtain ⟨hx, hc, hr0, hr1⟩ := ih
    refine ⟨exExec_T' hT f hr0, exCommand_T' hT f hx, hr1, ?_⟩
    refine runCmd_T hT (f + 1) ?_ ?_ ?_
    · intro ed loc cmd arg r ed' h; exact ecAt_T hT f hc ed ed' loc cmd arg r h
    · intro ed loc cmd arg r ed' h; exact ecGlob_T hT f hx ed ed' loc cmd arg r h
    · intro ed cmd arg r ed' h; exact ecEdit_T hT f hc ed ed' cmd arg r h

/-- **every run of `ex_exec` is a sequence of atomic table steps** -/
theorem exExec_T {f : Nat} {ed ed' : Ed} {ln : Bytes} {r : Int} (h : exExec f ed ln = some (r, ed')) : T ed ed' :=
  (all_T hT f).1 _ _ _ _ h

theorem exCommand_T {f : Nat} {ed ed' : Ed} {ln : Bytes} {r : Int} (h : exCommand f ed ln = some (r, ed')) : T ed ed' :=
  (all_T hT f).2.1 _ _ _ _ h

theorem runCmd_T_all {f : Nat} {ed ed' : Ed} {hd : String} {loc cmd arg : Bytes} {txt : Option Bytes} {r : Int}
    (h : runCmd f ed hd loc cmd arg txt = some (r, ed')) : T ed ed' :=
  (all_T hT f).2.2.1 _ _ _ _ _ _ _ _ h

theorem ecEdit_T_all {f : Nat} {ed ed' : Ed} {cmd arg : Bytes} {r : Int}
    (h : ecEdit f ed cmd arg = some (r, ed')) : T ed ed' := by
  cases f with
  | zero => rw [ecEdit] at h; cases h
  | succ f => exact ecEdit_T hT f (all_T hT f).2.1 ed ed' cmd arg r h

/-- one round of the `ex()` loop -/
theorem exStep_T {ed ed' : Ed} {r : Int} (h : exStep ed = some (r, ed')) : T ed ed' := by
  unfold exStep at h
  split at h
  · cases h
  · rename_i ln rest hin
    simp only [] at h
    split at h
    · cases h
    · rename_i r1 ed1 hc
      cases h
      refine T_to hT (hT.trans ?_ (exCommand_T hT hc)) rfl rfl
      exact hT.loc (Loc.of_same ⟨rfl, rfl⟩)

theorem exInit_T {ed ed' : Ed} {files : List Bytes} {r : Int} (h : exInit ed files = some (r, ed')) : T ed ed' :=
  ecEdit_T_all hT h

end generic

end Neatvi.Lemmas.C20c
