import NeatviVerif.Lemmas.C05jC
/-!
# C05j, part D: the remembered replacement `xrep` is written by `:s` only — frame facts for the covered handlers,
and `NoNul xrep` / `NoNul xkwd` across a covered `:` line
-/
set_option linter.unusedSimpArgs false
set_option linter.unusedVariables false
namespace Neatvi.Lemmas.C05j
open Neatvi Neatvi.Uc Neatvi.Lbuf Neatvi.LbufIo Neatvi.Ex Neatvi.Mot Neatvi.Vi Neatvi.Rset
open Neatvi.Lemmas.C05f Neatvi.Lemmas.ExFrame Neatvi.Lemmas.C06b Neatvi.Lemmas.C05h
open Neatvi.Lemmas.C05e (modelled)

theorem region_xrep {ed ed' : Ed} {loc : Bytes} {r : Nat × Int × Int} (h : exRegion ed loc = some (r, ed')) :
    ed'.xrep = ed.xrep := by
  obtain ⟨rc, b, e⟩ := r
  obtain ⟨ha, _⟩ := Lemmas.C06.region_all ed loc rc b e ed' h
  obtain ⟨_, _, _, rfl⟩ := ha
  rfl

theorem setLb_xrep (ed : Ed) (lb : Lb) : (ed.setLb lb).xrep = ed.xrep := by unfold Ed.setLb; split <;> rfl

theorem edit_xrep {ed ed' : Ed} {t : Option Bytes} {b e : Int} (h : ed.edit t b e = some ed') : ed'.xrep = ed.xrep := by
  obtain ⟨_, _, lb, lb', _, _, rfl, _⟩ := Ed_edit_some h
  exact setLb_xrep _ _

theorem setOpt_xrep (ed : Ed) (v : String) (x : Int) : (setOpt ed v x).xrep = ed.xrep := by
  unfold setOpt
  repeat' split
  all_goals rfl

theorem xrep_insert (f : Nat) {ed ed' : Ed} (loc cmd arg : Bytes) (txt : Option Bytes)
    (r : Int) (hr : runCmd (f + 1) ed "ec_insert" loc cmd arg txt = some (r, ed')) : ed'.xrep = ed.xrep := by
  rw [runCmd] at hr
  simp (config := {decide := true}) only [if_false, if_true] at hr
  split at hr
  · cases hr
  · rename_i rc b e ed1 hreg
    have h1 := region_xrep hreg
    split at hr
    · cases hr; exact h1
    · split at hr
      · cases hr
      · rename_i ed2 he
        cases hr
        exact (edit_xrep he).trans h1

theorem xrep_print (f : Nat) {ed ed' : Ed} (loc cmd arg : Bytes) (txt : Option Bytes)
    (r : Int) (hr : runCmd (f + 1) ed "ec_print" loc cmd arg txt = some (r, ed')) : ed'.xrep = ed.xrep := by
  rw [runCmd] at hr
  simp (config := {decide := true}) only [if_false, if_true] at hr
  split at hr
  · cases hr; rfl
  · split at hr
    · cases hr
    · rename_i rc b e ed1 hreg
      have h1 := region_xrep hreg
      split at hr
      · cases hr; exact h1
      · cases hr
        have hf : ((List.range (e - b).toNat).foldl (fun (ed : Ed) (k : Nat) =>
            match ed.line (b + (k : Int)) with | some l => ed.print l | none => ed) ed1).xrep = ed.xrep := by
          refine foldl_inv (fun s : Ed => s.xrep = ed.xrep) _ ?_ _ _ h1
          intro s a hs
          split
          · exact hs
          · exact hs
        exact hf

theorem xrep_null (f : Nat) {ed ed' : Ed} (loc cmd arg : Bytes) (txt : Option Bytes)
    (r : Int) (hr : runCmd (f + 2) ed "ec_null" loc cmd arg txt = some (r, ed')) : ed'.xrep = ed.xrep := by
  rw [runCmd] at hr
  simp (config := {decide := true}) only [if_false, if_true] at hr
  split at hr
  · exact xrep_print f (ed := { ed with xrow := if ed.xrow + 1 < ed.len then ed.xrow + 1 else ed.xrow }) loc cmd arg txt r hr
  · split at hr
    · cases hr
    · rename_i rc b e ed1 hreg
      have h1 := region_xrep hreg
      split at hr
      · cases hr; exact h1
      · cases hr; exact h1

theorem xrep_delete (f : Nat) {ed ed' : Ed} (loc cmd arg : Bytes) (txt : Option Bytes)
    (r : Int) (hr : runCmd (f + 1) ed "ec_delete" loc cmd arg txt = some (r, ed')) : ed'.xrep = ed.xrep := by
  rw [runCmd] at hr
  simp (config := {decide := true}) only [if_false, if_true] at hr
  split at hr
  · cases hr
  · rename_i rc b e ed1 hreg
    have h1 := region_xrep hreg
    split at hr
    · cases hr; exact h1
    · split at hr
      · cases hr
      · rename_i ed2 he
        cases hr
        exact (edit_xrep he).trans h1

theorem xrep_yank (f : Nat) {ed ed' : Ed} (loc cmd arg : Bytes) (txt : Option Bytes)
    (r : Int) (hr : runCmd (f + 1) ed "ec_yank" loc cmd arg txt = some (r, ed')) : ed'.xrep = ed.xrep := by
  rw [runCmd] at hr
  simp (config := {decide := true}) only [if_false, if_true] at hr
  split at hr
  · cases hr
  · rename_i rc b e ed1 hreg
    have h1 := region_xrep hreg
    split at hr
    · cases hr; exact h1
    · cases hr; exact h1

theorem xrep_put (f : Nat) {ed ed' : Ed} (loc cmd arg : Bytes) (txt : Option Bytes)
    (r : Int) (hr : runCmd (f + 1) ed "ec_put" loc cmd arg txt = some (r, ed')) : ed'.xrep = ed.xrep := by
  rw [runCmd] at hr
  simp (config := {decide := true}) only [if_false, if_true] at hr
  split at hr
  · cases hr; rfl
  · split at hr
    · cases hr
    · rename_i rc b e ed1 hreg
      have h1 := region_xrep hreg
      split at hr
      · cases hr; exact h1
      · split at hr
        · cases hr
        · rename_i ed2 he
          cases hr
          exact (edit_xrep he).trans h1

theorem xrep_lnum (f : Nat) {ed ed' : Ed} (loc cmd arg : Bytes) (txt : Option Bytes)
    (r : Int) (hr : runCmd (f + 1) ed "ec_lnum" loc cmd arg txt = some (r, ed')) : ed'.xrep = ed.xrep := by
  rw [runCmd] at hr
  simp (config := {decide := true}) only [if_false, if_true] at hr
  split at hr
  · cases hr
  · rename_i rc b e ed1 hreg
    have h1 := region_xrep hreg
    split at hr
    · cases hr; exact h1
    · cases hr; exact h1

theorem xrep_undo (f : Nat) {ed ed' : Ed} (loc cmd arg : Bytes) (txt : Option Bytes)
    (r : Int) (hr : runCmd (f + 1) ed "ec_undo" loc cmd arg txt = some (r, ed')) : ed'.xrep = ed.xrep := by
  rw [runCmd] at hr
  simp (config := {decide := true}) only [if_false, if_true] at hr
  split at hr
  · cases hr
  · cases hr; exact setLb_xrep _ _

theorem xrep_redo (f : Nat) {ed ed' : Ed} (loc cmd arg : Bytes) (txt : Option Bytes)
    (r : Int) (hr : runCmd (f + 1) ed "ec_redo" loc cmd arg txt = some (r, ed')) : ed'.xrep = ed.xrep := by
  rw [runCmd] at hr
  simp (config := {decide := true}) only [if_false, if_true] at hr
  split at hr
  · cases hr
  · cases hr; exact setLb_xrep _ _

theorem xrep_mark (f : Nat) {ed ed' : Ed} (loc cmd arg : Bytes) (txt : Option Bytes)
    (r : Int) (hr : runCmd (f + 1) ed "ec_mark" loc cmd arg txt = some (r, ed')) : ed'.xrep = ed.xrep := by
  rw [runCmd] at hr
  simp (config := {decide := true}) only [if_false, if_true] at hr
  split at hr
  · cases hr
  · rename_i rc b e ed1 hreg
    have h1 := region_xrep hreg
    split at hr
    · cases hr; exact h1
    · split at hr
      · cases hr
      · cases hr; exact (setLb_xrep _ _).trans h1

theorem xrep_rs (f : Nat) {ed ed' : Ed} (loc cmd arg : Bytes) (txt : Option Bytes)
    (r : Int) (hr : runCmd (f + 1) ed "ec_rs" loc cmd arg txt = some (r, ed')) : ed'.xrep = ed.xrep := by
  rw [runCmd] at hr
  simp (config := {decide := true}) only [if_false, if_true] at hr
  cases hr; rfl

theorem xrep_set (f : Nat) {ed ed' : Ed} (loc cmd arg : Bytes) (txt : Option Bytes)
    (r : Int) (hr : runCmd (f + 1) ed "ec_set" loc cmd arg txt = some (r, ed')) : ed'.xrep = ed.xrep := by
  rw [runCmd] at hr
  simp (config := {decide := true}) only [if_false, if_true] at hr
  split at hr
  · cases hr; rfl
  · split at hr
    · cases hr; exact setOpt_xrep _ _ _
    · cases hr; rfl

theorem xrep_echo (f : Nat) {ed ed' : Ed} (loc cmd arg : Bytes) (txt : Option Bytes)
    (r : Int) (hr : runCmd (f + 1) ed "ec_echo" loc cmd arg txt = some (r, ed')) : ed'.xrep = ed.xrep := by
  rw [runCmd] at hr
  simp (config := {decide := true}) only [if_false, if_true] at hr
  cases hr; rfl

theorem xrep_other (f : Nat) {ed ed' : Ed} (hd : String) (hn : hd ∉ modelled) (loc cmd arg : Bytes) (txt : Option Bytes)
    (r : Int) (hr : runCmd (f + 1) ed hd loc cmd arg txt = some (r, ed')) : ed'.xrep = ed.xrep := by
  rw [Lemmas.C05e.run_other f ed hd hn loc cmd arg txt] at hr
  cases hr; rfl

end Neatvi.Lemmas.C05j
