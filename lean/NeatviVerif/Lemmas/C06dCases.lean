import NeatviVerif.Lemmas.C06dRef
/-!
# C06d: facts about the reference evaluator alone — exact arithmetic, the search, acceptance and the rejection cases
-/
namespace Neatvi.Lemmas.C06d
open Neatvi

/-! ### arithmetic -/

theorem digitsVal_nonneg : ∀ (ds : Bytes), (∀ d ∈ ds, isDigit d = true) → 0 ≤ digitsVal ds := by
  intro ds h
  unfold digitsVal
  have key : ∀ (l : Bytes) (a : Int), 0 ≤ a → (∀ d ∈ l, isDigit d = true) →
      0 ≤ l.foldl (fun (a : Int) (d : Nat) => a * 10 + ((d : Int) - 48)) a := by
    intro l
    induction l with
    | nil => intro a h _; exact h
    | cons d r ih =>
      intro a h hd
      simp only [List.foldl_cons]
      apply ih
      · have := hd d (List.mem_cons_self ..)
        simp only [isDigit, Bool.and_eq_true, decide_eq_true_eq] at this
        omega
      · intro x hx; exact hd x (List.mem_cons_of_mem _ hx)
  exact key ds 0 (Int.le_refl 0) h

/-- an offset whose number is at most `2^40` adds exactly that number -/
theorem off_val_exact (o : Off) (hd : ∀ d ∈ o.ds, isDigit d = true) (h : digitsVal o.ds ≤ termMax) :
    o.val = if o.neg then -digitsVal o.ds else digitsVal o.ds := by
  have := digitsVal_nonneg o.ds hd
  unfold Off.val
  apply sat_id
  · split <;> (unfold termMax at *; omega)
  · split <;> (unfold termMax at *; omega)

/-- a line number of at most `2^40` is line `n - 1` (0-based) exactly -/
theorem num_eval_exact (w : World) (c : Cursor) (ds : Bytes) (hd : ∀ d ∈ ds, isDigit d = true)
    (h : digitsVal ds ≤ termMax) : (Base.num ds).eval w c = some (some (digitsVal ds - 1), c) := by
  have := digitsVal_nonneg ds hd
  simp only [Base.eval]
  rw [sat_id _ _ (by unfold termMax at *; omega) h]

/-- an address whose exact value is a line number (within `±2^29`) has that value: no saturation is visible -/
theorem addr_eval_exact (w : World) (c c1 : Cursor) (a : Addr) (v : Int) (hb : a.base.eval w c = some (some v, c1))
    (h0 : -numMax ≤ v + offsVal a.offs) (h1 : v + offsVal a.offs ≤ numMax) :
    a.eval w c = some (some (v + offsVal a.offs), c1) := by
  unfold Addr.eval
  rw [hb]
  simp only [sat_id _ _ h0 h1]

/-! ### the search: the nearest matching line, no wrap-around -/

/-- forward search (`dir = 1`): the result is the first row from `row` on that matches, every row before it does not -/
theorem nearest_forward (hit : Int → Option Bool) (len : Int) : ∀ (k : Nat) (row r : Int),
    nearest hit len 1 k row = some (some r) →
    row ≤ r ∧ 0 ≤ r ∧ r < len ∧ hit r = some true ∧ ∀ j, row ≤ j → j < r → hit j = some false := by
  intro k
  induction k with
  | zero => intro row r h; rw [nearest] at h; cases h
  | succ k ih =>
    intro row r h
    rw [nearest] at h
    split at h
    · cases h
    · rename_i hr
      split at h
      · cases h
      · rename_i ht
        simp only [Option.some.injEq] at h
        subst h
        exact ⟨Int.le_refl _, by omega, by omega, ht, fun j h1 h2 => by omega⟩
      · rename_i hf
        obtain ⟨i1, i2, i3, i4, i5⟩ := ih _ _ h
        refine ⟨by omega, i2, i3, i4, fun j h1 h2 => ?_⟩
        by_cases hj : j = row
        · subst hj; exact hf
        · exact i5 j (by omega) h2

/-- backward search (`dir = -1`) -/
theorem nearest_backward (hit : Int → Option Bool) (len : Int) : ∀ (k : Nat) (row r : Int),
    nearest hit len (-1) k row = some (some r) →
    r ≤ row ∧ 0 ≤ r ∧ r < len ∧ hit r = some true ∧ ∀ j, r < j → j ≤ row → hit j = some false := by
  intro k
  induction k with
  | zero => intro row r h; rw [nearest] at h; cases h
  | succ k ih =>
    intro row r h
    rw [nearest] at h
    split at h
    · cases h
    · rename_i hr
      split at h
      · cases h
      · rename_i ht
        simp only [Option.some.injEq] at h
        subst h
        exact ⟨Int.le_refl _, by omega, by omega, ht, fun j h1 h2 => by omega⟩
      · rename_i hf
        obtain ⟨i1, i2, i3, i4, i5⟩ := ih _ _ h
        refine ⟨by omega, i2, i3, i4, fun j h1 h2 => ?_⟩
        by_cases hj : j = row
        · subst hj; exact hf
        · exact i5 j h1 (by omega)

/-- no matching line between `row` and the end of the buffer: the forward search fails (`len.toNat + 1` rows are
    enough to reach the end from any row of the buffer) -/
theorem nearest_forward_none (hit : Int → Option Bool) (len : Int) (hnone : ∀ j, 0 ≤ j → j < len → hit j = some false) :
    ∀ (k : Nat) (row : Int), nearest hit len 1 k row = some none := by
  intro k
  induction k with
  | zero => intro row; rw [nearest]
  | succ k ih =>
    intro row
    rw [nearest]
    split
    · rfl
    · rename_i hr
      rw [hnone row (by omega) (by omega)]
      exact ih _

/-! ### acceptance and the rejection cases -/

theorem verdict_accept (len b e : Int) :
    (verdict len b e).1 = 0 ↔
      b < e ∧ 0 ≤ (if b < 0 ∧ e = 0 then 0 else b) ∧ (if b < 0 ∧ e = 0 then 0 else b) < len ∧ e ≤ len := by
  unfold verdict
  by_cases h1 : e ≤ b
  · rw [if_pos h1]
    constructor
    · intro h; cases h
    · intro h; omega
  · rw [if_neg h1]
    simp only []
    by_cases h2 : 0 ≤ (if b < 0 ∧ e = 0 then 0 else b) ∧ (if b < 0 ∧ e = 0 then 0 else b) < len ∧ e ≤ len
    · rw [if_pos h2]
      exact ⟨fun _ => ⟨by omega, h2⟩, fun _ => rfl⟩
    · rw [if_neg h2]
      constructor
      · intro h; cases h
      · intro h; exact absurd h.2 h2

/-- a reversed range (the last address precedes the one before it) is rejected with `-1, -1` -/
theorem verdict_reversed (len b e : Int) (h : e ≤ b) : verdict len b e = (1, -1, -1) := by
  unfold verdict; rw [if_pos h]

/-- an address beyond the last line is rejected (the out-of-range values are reported) -/
theorem verdict_beyond (len b e : Int) (h0 : 0 ≤ b) (h1 : b < e) (h : len < e) : verdict len b e = (1, b, e) := by
  have hb : (if b < 0 ∧ e = 0 then 0 else b) = b := if_neg (by omega)
  unfold verdict
  rw [if_neg (by omega)]
  simp only [hb]
  rw [if_neg (by omega)]

/-- address `0` (value `-1`): the empty range before line 1, accepted iff the buffer is not empty -/
theorem verdict_zero (len : Int) : verdict len (-1) 0 = (if 0 < len then 0 else 1, 0, 0) := by
  unfold verdict
  by_cases h : 0 < len
  · have h2 : (0 : Int) ≤ len := by omega
    simp [h, h2]
  · simp [h]

/-- a mark that is not set does not resolve -/
theorem eval_mark_unset (w : World) (c : Cursor) (m : Nat) (offs : List Off) (junk : Bytes) (h : w.mark m = none) :
    (Addr.mk (.mark m) offs junk).eval w c = some (none, c) := by
  simp [Addr.eval, Base.eval, h]

/-- an unresolved address anywhere in the list rejects the whole location with `-1, -1`; what follows it is not
    evaluated -/
theorem evalList_unresolved (w : World) (c c1 : Cursor) (a : Addr) (s : Sep) (r : AddrList)
    (h : a.eval w c = some (none, c1)) : evalList w c ((a, s) :: r) = some (none, c1) := by
  simp [evalList, h]

theorem refRegion_unresolved (w : World) (c c1 : Cursor) (l : AddrList) (h : evalList w c l = some (none, c1)) :
    refRegion w c (.list l) = some ((1, -1, -1), c1) := by
  simp [refRegion, h]

/-- a search without a previous pattern does not resolve -/
theorem eval_search_noprev (w : World) (c : Cursor) (back cl : Bool) (h : c.dir = 0) :
    (Base.search back [] cl).eval w c = some (none, c) := by
  simp [Base.eval, cookedPat, h]

/-- the value of a single numeric address `n`: row `n - 1`, so the region is `n-1 .. n` -/
theorem refRegion_num (w : World) (c : Cursor) (ds : Bytes) (hd : ∀ d ∈ ds, isDigit d = true)
    (h : digitsVal ds - 1 ≤ numMax) :
    refRegion w c (.list [(⟨.num ds, [], []⟩, .fin)]) =
      some (verdict w.len (digitsVal ds - 1) (digitsVal ds), c) := by
  have h0 := digitsVal_nonneg ds hd
  have ht : digitsVal ds ≤ termMax := by unfold termMax numMax at *; omega
  have hev : (Addr.mk (.num ds) [] []).eval w c = some (some (digitsVal ds - 1), c) := by
    have := addr_eval_exact w c c ⟨.num ds, [], []⟩ (digitsVal ds - 1) (num_eval_exact w c ds hd ht)
      (by simp [offsVal]; unfold numMax; omega) (by simpa [offsVal] using h)
    simpa [offsVal] using this
  simp only [refRegion, evalList, hev]
  rw [if_neg (by omega)]
  simp [begOf, endOf]

end Neatvi.Lemmas.C06d
