import NeatviVerif.Lemmas.C05dScript
import NeatviVerif.Props.C06b
/-!
# C05d lemmas, part 7: concrete states — what the invariant cannot say

The current row is NOT kept inside the buffer by the ex layer: `:u` (and `:redo`, `:!`, `:s`) change the number of
lines and leave `xrow` alone, an address `N;` sets `xrow` to `N - 1` before anything is checked, and `:c` with no
text on a buffer that becomes empty sets it to `-1`.  The C code does the same (see the report).
-/
namespace Neatvi.Lemmas.C05d
open Neatvi Neatvi.Lbuf Neatvi.LbufIo Neatvi.Ex

theorem some_getD {α} {o : Option α} {d : α} (h : o.isSome = true) : o = some (o.getD d) := by
  cases o with
  | none => cases h
  | some x => rfl

/-- from an evaluated summary `(code, row, length)` of a handler call back to the call -/
theorem extract {f : Nat} {ed : Ed} {hd : String} {loc cmd arg : Bytes} {txt : Option Bytes} {v : Int × Int × Int}
    (h : (runCmd f ed hd loc cmd arg txt).map (fun x => (x.1, x.2.xrow, x.2.len)) = some v) :
    ∃ r ed', runCmd f ed hd loc cmd arg txt = some (r, ed') ∧ ed'.xrow = v.2.1 ∧ ed'.len = v.2.2 := by
  cases hr : runCmd f ed hd loc cmd arg txt with
  | none => rw [hr] at h; cases h
  | some x =>
    rw [hr] at h
    simp only [Option.map_some, Option.some.injEq] at h
    exact ⟨x.1, x.2, rfl, by rw [← h], by rw [← h]⟩

/-- one line `a` -/
def wLb1 : Lb := (Lbuf.edit Lbuf.make (some [97, 10]) 0 0).getD Lbuf.make
/-- the command boundary -/
def wLb2 : Lb := (modified wLb1).2
/-- `b`, `c` appended: three lines, the last two undoable as one step -/
def wLb3 : Lb := (Lbuf.edit wLb2 (some [98, 10, 99, 10]) 1 1).getD Lbuf.make
/-- the next command boundary -/
def wLb4 : Lb := (modified wLb3).2

theorem wLb1_eq : Lbuf.edit Lbuf.make (some [97, 10]) 0 0 = some wLb1 := some_getD (by decide +kernel)
theorem wLb3_eq : Lbuf.edit wLb2 (some [98, 10, 99, 10]) 1 1 = some wLb3 := some_getD (by decide +kernel)

theorem wLb4_pos : LbPos wLb4 :=
  lbPos_modified (lbPos_edit (lbPos_modified (lbPos_edit lbPos_make _ _ _ wLb1_eq)) _ _ _ wLb3_eq)

/-- an editor on that buffer (three lines `a`, `b`, `c`), the current row on the last line; a file `g` of two lines -/
def wEd : Ed :=
  { bufs := some { path := [102], lb := wLb4 } :: List.replicate 15 none, xrow := 2,
    files := [⟨[103], [120, 10, 121, 10], 5⟩] }

theorem wEd_posOk : PosOk none wEd := by
  refine ⟨fun m h => (by cases h), rowOk_none (by decide), (by decide), ?_⟩
  intro b hb
  have : b = { path := [102], lb := wLb4 } := by
    simp only [wEd, List.mem_cons, Option.some.injEq, List.mem_replicate, reduceCtorEq, and_false, or_false] at hb
    exact hb
  subst this
  exact ⟨wLb4_pos, rowOk_none (by decide), (by decide)⟩

theorem wEd_inside : wEd.len = 3 ∧ wEd.xrow = 2 := by decide +kernel

/-- `:u` in that state: one line is left, the current row is still `2` -/
theorem w_undo : (runCmd 1 wEd "ec_undo" [] [117] [] none).map (fun x => (x.1, x.2.xrow, x.2.len)) = some (0, 2, 1) := by
  rw [runCmd]; decide +kernel

/-- `:9;p` in that state: the command fails (`9` is not a line), the current row is `8` -/
theorem w_semicolon :
    (runCmd 1 wEd "ec_print" [57, 59] [112] [] none).map (fun x => (x.1, x.2.xrow, x.2.len)) = some (1, 8, 3) := by
  rw [runCmd]; decide +kernel

/-- `:$r g` in that state: five lines, the current row on the last one -/
theorem w_read : (runCmd 1 wEd "ec_read" [36] [114] [103] none).map (fun x => (x.1, x.2.xrow, x.2.len)) = some (0, 4, 5) := by
  rw [runCmd]; decide +kernel

/-- `:$r g` and then `:u`: three lines again, the current row is `4` -/
theorem w_read_undo :
    ((runCmd 1 wEd "ec_read" [36] [114] [103] none).bind (fun x => runCmd 1 x.2 "ec_undo" [] [117] [] none)).map
      (fun x => (x.1, x.2.xrow, x.2.len)) = some (0, 4, 3) := by
  rw [runCmd]
  simp only [runCmd]
  decide +kernel

/-- an empty buffer -/
def wEd0 : Ed := { bufs := some { path := [], lb := Lbuf.make } :: List.replicate 15 none }

theorem wEd0_posOk : PosOk none wEd0 := by
  refine ⟨fun m h => (by cases h), rowOk_none (by decide), (by decide), ?_⟩
  intro b hb
  have : b = { path := [], lb := Lbuf.make } := by
    simp only [wEd0, List.mem_cons, Option.some.injEq, List.mem_replicate, reduceCtorEq, and_false, or_false] at hb
    exact hb
  subst this
  exact ⟨lbPos_make, rowOk_none (by decide), (by decide)⟩

/-- `:c` with no text on the empty buffer: the current row is `-1` -/
theorem w_change_empty :
    (runCmd 1 wEd0 "ec_insert" [] [99] [] (some [])).map (fun x => (x.1, x.2.xrow, x.2.len)) = some (0, -1, 0) := by
  rw [runCmd]; decide +kernel

/-! ### what a line of one plain command visits -/

open Neatvi.Lemmas.C06b in
/-- a line whose first command is not `:@`, `:g`, `:e` and leaves nothing behind visits exactly one state: the one
    that command returned -/
theorem vcmds_single {f g : Nat} {ed ed1 s : Ed} {ln : Bytes} {ret r : Int}
    (hone : runOne f ed (parse1 ln) ret = some ((r, ed1), []))
    (hat : ∀ a h, (parse1 ln).idx = some (a, h) → h ≠ "ec_at" ∧ h ≠ "ec_glob" ∧ h ≠ "ec_edit")
    (hv : VCmds f g ed ln ret s) : s = ed1 := by
  cases hv with
  | ret _ h1 =>
    rw [hone] at h1
    cases h1; rfl
  | inner _ hidx hr =>
    obtain ⟨a1, a2, a3⟩ := hat _ _ hidx
    exact absurd hr (vrun_atomic a1 a2 a3)
  | later _ h1 h2 =>
    rw [hone] at h1
    simp only [Option.some.injEq, Prod.mk.injEq] at h1
    obtain ⟨⟨_, rfl⟩, rfl⟩ := h1
    cases h2 with
    | ret h _ => cases h
    | inner h _ _ => cases h
    | later h _ _ => cases h

open Neatvi.Lemmas.C06b in
/-- the same for a round of the `ex()` loop -/
theorem vstep_single {ed ed1 s : Ed} {ln : Bytes} {rest0 : List Bytes} {r : Int} (hin : ed.input = ln :: rest0)
    (hone : runOne (FUEL - 2) (stepStart ed rest0) (parse1 ln) 0 = some ((r, ed1), []))
    (hat : ∀ a h, (parse1 ln).idx = some (a, h) → h ≠ "ec_at" ∧ h ≠ "ec_glob" ∧ h ≠ "ec_edit")
    (hv : VStep ed s) : s = ed1 := by
  cases hv with
  | line hin' hc =>
    rw [hin] at hin'
    cases hin'
    cases hc with
    | exec he =>
      cases he with
      | cmds _ hcm => exact vcmds_single hone hat hcm

/-- `wEd` about to read the line `$r g` -/
def wEdIn : Ed := { wEd with input := [[36, 114, 32, 103]] }

theorem wEdIn_posOk : PosOk (some NUMMAX) wEdIn := by
  refine ⟨fun m h => (by cases h; exact Int.le_refl _), ⟨by decide, fun m h => (by cases h; decide)⟩, (by decide), ?_⟩
  intro b hb
  have : b = { path := [102], lb := wLb4 } := by
    simp only [wEdIn, wEd, List.mem_cons, Option.some.injEq, List.mem_replicate, reduceCtorEq, and_false, or_false] at hb
    exact hb
  subst this
  exact ⟨wLb4_pos, ⟨by decide, fun m h => (by cases h; decide)⟩, (by decide)⟩

open Neatvi.Lemmas.C06b in
/-- the one round of the `ex()` loop on that line visits a state of five lines only -/
theorem wEdIn_visits (s : Ed) (hv : VStep wEdIn s) : s.len = 5 := by
  cases hv with
  | line hin hc =>
    have hin' : ([36, 114, 32, 103] : Bytes) :: [] = _ := hin
    cases hin'
    cases hc with
    | exec he =>
      cases he with
      | cmds _ hcm =>
        have hp : (parse1 [36, 114, 32, 103]).idx = some ([114], "ec_read") := by decide +kernel
        have hev : ((runOne (FUEL - 2) (stepStart wEdIn []) (parse1 [36, 114, 32, 103]) 0).map (fun x => (x.1.2.len, x.2))) =
            some (5, []) := by
          rw [show FUEL - 2 = (FUEL - 3) + 1 from rfl]
          unfold runOne
          rw [hp]
          simp only [abbrOf]
          rw [runCmd]
          decide +kernel
        cases hone : runOne (FUEL - 2) (stepStart wEdIn []) (parse1 [36, 114, 32, 103]) 0 with
        | none => rw [hone] at hev; cases hev
        | some x =>
          obtain ⟨⟨r, ed1⟩, rest⟩ := x
          rw [hone] at hev
          simp only [Option.map_some, Option.some.injEq, Prod.mk.injEq] at hev
          obtain ⟨h5, rfl⟩ := hev
          have := vcmds_single hone (by intro a h hi; rw [hp] at hi; cases hi; decide) hcm
          rw [this]; exact h5

open Neatvi.Lemmas.C06b in
/-- one round of the `ex()` loop on a line whose first command leaves nothing behind -/
theorem exStep_single {ed ed1 : Ed} {ln : Bytes} {rest0 : List Bytes} {r : Int} (hin : ed.input = ln :: rest0)
    (hlen : ln.length < Gen.EXLEN) (hne : ln.isEmpty = false)
    (hone : runOne (FUEL - 2) (stepStart ed rest0) (parse1 ln) 0 = some ((r, ed1), [])) :
    exStep ed = some (r, { (ed1.modifiedAt 0).2 with regs := (ed1.modifiedAt 0).2.regs.put 58 ln 1, faults := [] }) := by
  unfold exStep
  rw [hin]
  simp only []
  have hc : exCommand FUEL (stepStart ed rest0) ln = some (r, (ed1.modifiedAt 0).2) := by
    show exCommand ((FUEL - 2) + 1 + 1) _ _ = _
    rw [exCommand, Props.C06b.exExec_short (FUEL - 2) _ _ hlen, cmds_succ, if_neg (by simp [hne]), hone]
    simp only [cmds_nil]
  have hc' : exCommand FUEL { ed with input := rest0, out := [], msg := [], calls := 0, fired := 0 } ln =
      some (r, (ed1.modifiedAt 0).2) := hc
  rw [hc']

open Neatvi.Lemmas.C06b in
/-- the round on the line `$r g` at the witness state, evaluated: it succeeds, the buffer has five lines then -/
theorem wEdIn_step : ∃ r ed', exStep wEdIn = some (r, ed') ∧ ed'.len = 5 ∧ ed'.input = [] := by
  have hp : (parse1 [36, 114, 32, 103]).idx = some ([114], "ec_read") := by decide +kernel
  have hev : ((runOne (FUEL - 2) (stepStart wEdIn []) (parse1 [36, 114, 32, 103]) 0).map
      (fun x => (x.1.2.len, x.1.2.input, x.2))) = some (5, [], []) := by
    rw [show FUEL - 2 = (FUEL - 3) + 1 from rfl]
    unfold runOne
    rw [hp]
    simp only [abbrOf]
    rw [runCmd]
    decide +kernel
  cases hone : runOne (FUEL - 2) (stepStart wEdIn []) (parse1 [36, 114, 32, 103]) 0 with
  | none => rw [hone] at hev; cases hev
  | some x =>
    obtain ⟨⟨r, ed1⟩, rest⟩ := x
    rw [hone] at hev
    simp only [Option.map_some, Option.some.injEq, Prod.mk.injEq] at hev
    obtain ⟨h5, hinp, rfl⟩ := hev
    refine ⟨r, _, exStep_single (ed := wEdIn) rfl (by decide) (by decide) hone, ?_, ?_⟩
    · show (ed1.modifiedAt 0).2.len = 5
      rw [modifiedAt_len]; exact h5
    · show (ed1.modifiedAt 0).2.input = []
      have : (ed1.modifiedAt 0).2.input = ed1.input := by
        unfold Ed.modifiedAt; split <;> rfl
      rw [this]; exact hinp

/-- `ex_init` on a file of three lines -/
def wEdStart : Ed := { files := [⟨[102], [97, 10, 98, 10, 99, 10], 5⟩] }

theorem wEdStart_init : ∃ rc ed1, exInit wEdStart [[102]] = some (rc, ed1) ∧ ed1.len = 3 ∧ ed1.xrow = 0 := by
  have hev : (exInit wEdStart [[102]]).map (fun x => (x.2.len, x.2.xrow)) = some (3, 0) := by
    rw [exInit, show ecEdit FUEL = ecEdit ((FUEL - 1) + 1) from rfl, ecEdit]; decide +kernel
  cases h : exInit wEdStart [[102]] with
  | none => rw [h] at hev; cases hev
  | some x =>
    rw [h] at hev
    simp only [Option.map_some, Option.some.injEq, Prod.mk.injEq] at hev
    exact ⟨x.1, x.2, rfl, hev.1, hev.2⟩

end Neatvi.Lemmas.C05d
