import NeatviVerif.Lemmas.C02bMark
import NeatviVerif.Lemmas.ExFrame
import NeatviVerif.Lemmas.C02Ex
import NeatviVerif.Props.C20
/-!
# C02b lemmas, part 3: the invariant of the buffer table and the primitive operations on it

`EdInv ed`: every buffer of the table was built by the lbuf API (`LbReach`), and every buffer other
than the current one (slot 0) has all its groups closed (it was bumped when it was left).
-/
namespace Neatvi.Lemmas.C02b
open Neatvi Neatvi.Lbuf Neatvi.Ex Neatvi.Spec Neatvi.Lemmas.ExFrame Neatvi.Lemmas.C02Ex

/-- built by the lbuf API, with some ghost file text -/
def GoodLb (lb : Lb) : Prop := ∃ d, LbReach lb d

theorem goodLb_make : GoodLb Lbuf.make := ⟨_, LbReach.make⟩
theorem GoodLb.bump {lb} (h : GoodLb lb) : GoodLb (modified lb).2 := by
  obtain ⟨d, h⟩ := h; exact ⟨d, h.bump⟩
theorem GoodLb.closed_bump {lb} (h : GoodLb lb) : Closed (modified lb).2 := by
  obtain ⟨d, h⟩ := h; exact h.closed_bump
theorem GoodLb.edit {lb lb'} (h : GoodLb lb) {buf : Option Bytes} {b e : Nat} (he : Lbuf.edit lb buf b e = some lb') :
    GoodLb lb' := by
  obtain ⟨d, h⟩ := h; exact ⟨d, h.edit _ _ _ he⟩
theorem GoodLb.undo {lb lb' rc} (h : GoodLb lb) (he : Lbuf.undo lb = some (rc, lb')) : GoodLb lb' := by
  obtain ⟨d, h⟩ := h; exact ⟨d, h.undo he⟩
theorem GoodLb.redo {lb lb' rc} (h : GoodLb lb) (he : Lbuf.redo lb = some (rc, lb')) : GoodLb lb' := by
  obtain ⟨d, h⟩ := h; exact ⟨d, h.redo he⟩
theorem GoodLb.rd {lb lb'} (h : GoodLb lb) {chunks : List Bytes} {fe : Bool} {b e rc : Nat}
    (he : LbufIo.rd lb chunks fe b e = some (rc, lb')) : GoodLb lb' := by
  obtain ⟨d, h⟩ := h; exact ⟨d, h.rd he⟩
theorem GoodLb.setMark {lb} (h : GoodLb lb) (c : Nat) (p o : Int) : GoodLb (Lbuf.setMark lb c p o) := by
  obtain ⟨d, h⟩ := h; exact ⟨d, h.setMark c p o⟩
theorem GoodLb.globSet {lb} (h : GoodLb lb) (p d : Nat) : GoodLb (Lbuf.globSet lb p d) := by
  obtain ⟨d', h⟩ := h; exact ⟨d', h.globSet p d⟩
theorem GoodLb.globGet {lb} (h : GoodLb lb) (p d : Nat) : GoodLb (Lbuf.globGet lb p d).2 := by
  obtain ⟨d', h⟩ := h; exact ⟨d', h.globGet p d⟩
theorem GoodLb.savedBump {lb} (h : GoodLb lb) (c : Bool) : GoodLb (modified (savedCore lb c)).2 := by
  obtain ⟨d, h⟩ := h
  cases c
  · exact ⟨_, h.saved⟩
  · exact ⟨_, h.savedClear⟩
theorem GoodLb.partialWrite {lb} (h : GoodLb lb) : GoodLb (unsavedMark lb) := by
  obtain ⟨d, h⟩ := h; exact ⟨_, h.partialWrite⟩

def TabInv (bufs : List (Option Buf)) : Prop :=
  ∀ i b, bufs.getD i none = some b → GoodLb b.lb ∧ (i ≠ 0 → Closed b.lb)

/-- every slot good and closed -/
def TabStrong (bufs : List (Option Buf)) : Prop :=
  ∀ b, some b ∈ bufs → GoodLb b.lb ∧ Closed b.lb

def EdInv (ed : Ed) : Prop := TabInv ed.bufs

theorem TabStrong.inv {bufs} (h : TabStrong bufs) : TabInv bufs := by
  intro i b hb
  obtain ⟨h1, h2⟩ := h b (Props.C20.mem_of_getD _ _ _ hb).1
  exact ⟨h1, fun _ => h2⟩

theorem tabInv_replicate (n : Nat) : TabInv (List.replicate n none) := by
  intro i b hb
  rw [List.getD_eq_getElem?_getD, List.getElem?_replicate] at hb
  split at hb <;> cases hb

theorem edInv_of_bufs {ed ed' : Ed} (hb : ed'.bufs = ed.bufs) (h : EdInv ed) : EdInv ed' := by
  unfold EdInv; rw [hb]; exact h

theorem tabInv_setAt {bufs : List (Option Buf)} {i : Nat} {b : Buf} (h : TabInv bufs) (hb : GoodLb b.lb)
    (hc : i ≠ 0 → Closed b.lb) : TabInv (bufs.set i (some b)) := by
  intro j b' hj
  by_cases hij : i = j
  · subst hij
    by_cases hl : i < bufs.length
    · rw [getD_set_self _ _ _ hl] at hj
      cases hj
      exact ⟨hb, hc⟩
    · rw [List.set_eq_of_length_le (by omega)] at hj
      exact h i b' hj
  · rw [getD_set_ne _ _ _ _ hij] at hj
    exact h j b' hj

theorem edInv_setCur {ed : Ed} {b : Buf} (h : EdInv ed) (hb : GoodLb b.lb) : EdInv (ed.setCur b) :=
  tabInv_setAt h hb (fun h0 => absurd rfl h0)

theorem edInv_cur {ed : Ed} {b : Buf} (h : EdInv ed) (hc : ed.cur = some b) : GoodLb b.lb := (h 0 b hc).1

theorem lb_some {ed : Ed} {lb : Lb} (h : ed.lb = some lb) : ∃ b, ed.cur = some b ∧ b.lb = lb := by
  unfold Ed.lb at h
  cases hc : ed.cur with
  | none => rw [hc] at h; cases h
  | some b => rw [hc] at h; cases h; exact ⟨b, rfl, rfl⟩

theorem edInv_lb {ed : Ed} {lb : Lb} (h : EdInv ed) (hl : ed.lb = some lb) : GoodLb lb := by
  obtain ⟨b, hc, rfl⟩ := lb_some hl
  exact edInv_cur h hc

/-- replacing the line buffer of the current slot by a good one -/
theorem edInv_setLb {ed : Ed} {lb : Lb} (h : EdInv ed) (hb : GoodLb lb) : EdInv (ed.setLb lb) := by
  unfold Ed.setLb
  split
  · exact edInv_setCur h hb
  · exact h

/-- the current line buffer transformed by an API call -/
theorem edInv_updLb {ed : Ed} (F : Lb → Lb) (hF : ∀ lb, GoodLb lb → GoodLb (F lb)) (h : EdInv ed) :
    EdInv (match ed.lb with | some lb => ed.setLb (F lb) | none => ed) := by
  cases hl : ed.lb with
  | none => exact h
  | some lb => exact edInv_setLb h (hF lb (edInv_lb h hl))

theorem edInv_edit {ed ed' : Ed} {s : Option Bytes} {b e : Int} (h : EdInv ed) (he : ed.edit s b e = some ed') :
    EdInv ed' := by
  obtain ⟨_, _, lb, lb', hlb, hed, rfl, _⟩ := Ed_edit_some he
  exact edInv_setLb h ((edInv_lb h hlb).edit hed)

theorem edInv_modifiedAt {ed : Ed} (idx : Nat) (h : EdInv ed) : EdInv (ed.modifiedAt idx).2 := by
  unfold Ed.modifiedAt
  cases hb : ed.bufs.getD idx none with
  | none => exact h
  | some b =>
    obtain ⟨h1, h2⟩ := h idx b hb
    exact tabInv_setAt (b := { b with lb := (modified b.lb).2 }) h h1.bump (fun hi => closed_bump (h2 hi))

theorem edInv_bufsModified {ed ed' : Ed} {idx : Nat} {msg : Option Bytes} {r : Bool} (h : EdInv ed)
    (hm : bufsModified ed idx msg = some (r, ed')) : EdInv ed' := by
  unfold bufsModified at hm
  have h1 := edInv_modifiedAt idx h
  generalize ed.modifiedAt idx = p at hm h1
  obtain ⟨m, ed1⟩ := p
  simp only [] at hm h1
  split at hm
  · cases hm; exact h
  · split at hm
    · cases hm; exact h1
    · split at hm
      · cases hm
      · split at hm
        · split at hm
          · cases hm
          · rename_i hs
            cases hm
            exact edInv_of_bufs (lbufSave_bufs _ _ _ _ _ _ _ _ _ hs) h1
        · cases hm
          split
          · exact h1
          · exact h1

/-! ### `bufs_switch`, `bufs_open`, `bufs_shift` -/

theorem leftBufs_strong {ed : Ed} (h : EdInv ed) : TabStrong (Props.C20.leftBufs ed) := by
  intro b hb
  obtain ⟨i, hi, hget⟩ := List.getElem_of_mem hb
  have hg : (Props.C20.leftBufs ed).getD i none = some b := by
    rw [List.getD_eq_getElem?_getD, List.getElem?_eq_getElem hi, hget]; rfl
  cases i with
  | zero =>
    cases h0 : ed.bufs.getD 0 none with
    | none => rw [Props.C20.leftBufs_zero_none ed h0] at hg; cases hg
    | some b0 =>
      rw [Props.C20.leftBufs_zero ed b0 h0] at hg
      cases hg
      have := (h 0 b0 h0).1
      exact ⟨this.bump, this.closed_bump⟩
  | succ j =>
    rw [Props.C20.leftBufs_getD ed (j + 1) (by omega)] at hg
    obtain ⟨h1, h2⟩ := h (j + 1) b hg
    exact ⟨h1, h2 (by omega)⟩

theorem edInv_bufsSwitch {ed : Ed} (idx : Nat) (h : EdInv ed) : EdInv (ed.bufsSwitch idx) := by
  unfold EdInv
  rw [Props.C20.switch_rotation]
  apply TabStrong.inv
  have hs := leftBufs_strong h
  intro b hb
  simp only [List.mem_append, List.mem_singleton] at hb
  rcases hb with (hb | hb) | hb
  · exact hs b (Props.C20.mem_of_getD _ _ _ hb.symm).1
  · exact hs b (List.mem_of_mem_take hb)
  · exact hs b (List.mem_of_mem_drop hb)

theorem edInv_bufsOpen {ed : Ed} (p : Bytes) (h : EdInv ed) : EdInv (ed.bufsOpen p).2 := by
  unfold Ed.bufsOpen
  exact tabInv_setAt (b := { path := normPath p, lb := Lbuf.make, id := ed.bufsCnt + 1 }) h goodLb_make
    (fun _ => closed_make)

theorem edInv_bufsLoad {ed : Ed} (h : EdInv ed) : EdInv ed.bufsLoad :=
  edInv_of_bufs (Props.C20.bufsLoad_bufs ed) h

theorem edInv_bufsShift {ed : Ed} (h : EdInv ed) : EdInv ed.bufsShift := by
  unfold Ed.bufsShift
  apply edInv_bufsLoad
  show TabInv (ed.bufs.drop 1 ++ [none])
  apply TabStrong.inv
  intro b hb
  simp only [List.mem_append, List.mem_singleton, reduceCtorEq, or_false] at hb
  obtain ⟨i, hi, hget⟩ := List.getElem_of_mem hb
  have hg : ed.bufs.getD (i + 1) none = some b := by
    rw [List.getD_eq_getElem?_getD]
    rw [List.getElem_drop] at hget
    have hlt : 1 + i < ed.bufs.length := by simp at hi; omega
    rw [show i + 1 = 1 + i by omega, List.getElem?_eq_getElem hlt, hget]; rfl
  obtain ⟨h1, h2⟩ := h (i + 1) b hg
  exact ⟨h1, h2 (by omega)⟩

/-- a table with the same line buffers slot by slot -/
theorem tabInv_congr_lb {l l' : List (Option Buf)}
    (hm : l'.map (Option.map (·.lb)) = l.map (Option.map (·.lb))) (h : TabInv l) : TabInv l' := by
  intro i b' hb'
  obtain ⟨_, hget⟩ := getD_some hb'
  have h1 : (l'.map (Option.map (·.lb)))[i]? = some (some b'.lb) := by
    rw [List.getElem?_map, hget]; rfl
  rw [hm, List.getElem?_map] at h1
  cases hx : l[i]? with
  | none => rw [hx] at h1; cases h1
  | some x =>
    rw [hx] at h1
    cases x with
    | none => simp at h1
    | some b =>
      simp only [Option.map_some, Option.some.injEq] at h1
      have hg : l.getD i none = some b := by rw [List.getD_eq_getElem?_getD, hx]; rfl
      rw [← h1]
      exact h i b hg

/-- the renumbering loop of `:b ~` keeps the line buffers -/
theorem renumber_lbs : ∀ (l : List (Option Buf)) (acc : List (Option Buf)) (n : Int),
    ((l.foldl (fun (acc : List (Option Buf) × Int) b =>
      match b with
      | some x => (acc.1 ++ [some { x with id := acc.2 + 1 }], acc.2 + 1)
      | none => (acc.1 ++ [none], acc.2)) (acc, n)).1).map (Option.map (·.lb)) =
    (acc ++ l).map (Option.map (·.lb)) := by
  intro l
  induction l with
  | nil => intro acc n; simp
  | cons a l ih =>
    intro acc n
    rw [List.foldl_cons]
    cases a with
    | none => simp only []; rw [ih]; simp
    | some x => simp only []; rw [ih]; simp

end Neatvi.Lemmas.C02b
