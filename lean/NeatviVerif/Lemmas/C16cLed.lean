import NeatviVerif.Lemmas.C16cSpec
import NeatviVerif.Lemmas.C16d
/-!
# C16c, part 13: the line editor `led_line` on *any* valid key stream (no `^V`): the text it returns is valid
  UTF-8 — backspace, `^U ^W ^T ^D`, the registers (`^P`, `^R` with any register name, also a multi-byte one),
  digraphs (`^K` with any two characters), keymaps (`^F ^E`), multi-byte characters
-/
set_option linter.unusedSimpArgs false
set_option linter.unusedVariables false
namespace Neatvi.Lemmas.C16c
open Neatvi Neatvi.Uc Neatvi.Spec Neatvi.Lbuf Neatvi.Ex Neatvi.Mot Neatvi.Vi Neatvi.Props.C11b Neatvi.Props.C16b
open Neatvi.Lemmas.C08 (bind_apply pure_apply get_apply)
open Neatvi.Lemmas.C09 (pending)
open Neatvi.Lemmas.C08b (Reads afterStep afterStep_spec afterRedraw redrawOf setKmapOf getKmapOf redraw_read ledLine_eq
  redrawOf_apply reads_afterRedraw)

/-! ## the tables -/

theorem digraphs_valid : ∀ d ∈ Gen.digraphs, u8chk d.2 = true := by decide +kernel
theorem kmaps_valid : ∀ km ∈ Gen.kmaps, ∀ e ∈ km, u8chk e.2 = true := by decide +kernel

theorem kmapMap_valid (kmap c : Nat) (h0 : 0 < c) (hc : c < 128) : IsU8 (kmapMap kmap c) := by
  unfold kmapMap
  rw [if_neg (by simp; omega)]
  split
  · rename_i e he
    have hm := List.mem_of_find?_eq_some he
    unfold List.getD at hm
    cases hk : Gen.kmaps[kmap]? with
    | none => rw [hk] at hm; simp at hm
    | some km =>
      rw [hk] at hm
      exact (u8chk_iff _).mp (kmaps_valid km (List.mem_of_getElem? hk) e (by simpa using hm))
  · exact isU8_single (by omega) (by omega)

/-! ## the key stream -/

/-- **the keys to come are valid UTF-8 and hold no `^V`** (which inserts a raw byte) -/
def KeysOk (s : VS) : Prop := ∃ cs, Valid cs ∧ 22 ∉ cs ∧ pending s = encStr cs

instance (s : VS) : Decidable (KeysOk s) :=
  decidable_of_iff (u8chk (pending s) = true ∧ 22 ∉ pending s) (by
    constructor
    · rintro ⟨h1, h2⟩
      obtain ⟨cs, hv, e⟩ := (u8chk_iff _).mp h1
      refine ⟨cs, hv, ?_, e⟩
      intro hm
      apply h2
      rw [e]
      obtain ⟨a, b, rfl⟩ := List.append_of_mem hm
      rw [encStr_append, encStr_cons, C12.enc_low (by decide)]
      simp
    · rintro ⟨cs, hv, h22, e⟩
      refine ⟨(u8chk_iff _).mpr ⟨cs, hv, e⟩, ?_⟩
      rw [e]
      intro hm
      clear e
      induction cs with
      | nil => simp at hm
      | cons c cs ih =>
        rw [encStr_cons] at hm
        rcases List.mem_append.mp hm with h1 | h1
        · by_cases hlt : c < 128
          · rw [C12.enc_low hlt] at h1
            simp at h1
            exact h22 (by simp [h1])
          · have := C12.enc_high (c := c) (by omega) (valid_cons.mp hv).1.2 22 h1
            omega
        · exact ih (valid_cons.mp hv).2 (fun h => h22 (by simp [h])) h1)

/-- the shape of an encoded character as the key reader sees it -/
theorem enc_shape {c : Nat} (hc : ValidCp c) : ∃ k t, enc c = k :: t ∧ t.length = ucLen k - 1 ∧ 0 < k ∧ k < 256 ∧
    (c < 128 → k = c ∧ t = []) ∧ (128 ≤ c → 192 ≤ k) ∧ (∀ x ∈ t, 128 ≤ x ∧ x < 192) := by
  obtain ⟨a, t, he, hch⟩ := enc_chr hc
  have hl := Props.C16.len_enc hc
  rw [he] at hl
  simp only [Bytes.hd_cons, List.length_cons] at hl
  refine ⟨a, t, he, by omega, hch.pos, hch.lt, ?_, ?_, hch.tl⟩
  · intro hlt
    rw [C12.enc_low hlt] at he
    injection he with h1 h2
    exact ⟨h1.symm, h2.symm⟩
  · intro hge
    have := C12.enc_high (c := c) hge hc.2 a (by rw [he]; simp)
    rcases hch.lead with ⟨h1, _⟩ | h1
    · omega
    · exact h1

/-- a key stream that starts with the continuation bytes `t` of a character whose lead byte was read -/
def KeysMid (t : Bytes) (s : VS) : Prop := ∃ cs, Valid cs ∧ 22 ∉ cs ∧ pending s = t ++ encStr cs

theorem KeysOk.of_mid_nil {s : VS} (h : KeysMid [] s) : KeysOk s := by
  obtain ⟨cs, a, b, c⟩ := h; exact ⟨cs, a, b, by simpa using c⟩

/-- `KeysOk` and `KeysMid` read the key queue only -/
theorem KeysMid.congr {t : Bytes} {s s' : VS} (h : KeysMid t s) (hp : pending s' = pending s) : KeysMid t s' := by
  obtain ⟨cs, a, b, c⟩ := h; exact ⟨cs, a, b, by rw [hp]; exact c⟩
theorem KeysOk.congr {s s' : VS} (h : KeysOk s) (hp : pending s' = pending s) : KeysOk s' := by
  obtain ⟨cs, a, b, c⟩ := h; exact ⟨cs, a, b, by rw [hp]; exact c⟩

/-- the head of a valid key stream: the first byte `k` of the first character `c`, its continuation bytes `t` -/
theorem KeysOk.head {s : VS} (h : KeysOk s) (hne : pending s ≠ []) :
    ∃ c k t rest, ValidCp c ∧ c ≠ 22 ∧ enc c = k :: t ∧ pending s = k :: (t ++ rest) ∧ t.length = ucLen k - 1 ∧
      0 < k ∧ k < 256 ∧ (c < 128 → k = c ∧ t = []) ∧ (128 ≤ c → 192 ≤ k) ∧
      (∀ s', pending s' = rest → KeysOk s') ∧ (∀ x ∈ t, 128 ≤ x ∧ x < 192) := by
  obtain ⟨cs, hv, h22, e⟩ := h
  cases cs with
  | nil => exact absurd e hne
  | cons c cs =>
    have hc := (valid_cons.mp hv).1
    have hcs := (valid_cons.mp hv).2
    obtain ⟨k, t, he, hl, h0, h256, hlo, hhi, htl⟩ := enc_shape hc
    refine ⟨c, k, t, encStr cs, hc, fun h => h22 (by simp [h]), he, ?_, hl, h0, h256, hlo, hhi, ?_, htl⟩
    · rw [e, encStr_cons, he]; rfl
    · intro s' hp; exact ⟨cs, hcs, fun h => h22 (by simp [h]), hp⟩

/-- **`led_readkey()` on a valid key stream** reads one whole character: the stream stays valid -/
theorem readKey_keysOk (s s' : VS) (c : Int) (h : KeysOk s) (hr : readKey s = Res.ok c s') : KeysOk s' := by
  obtain ⟨k, rest, hp, hc, hp', hlen⟩ := Lemmas.C16d.readKey_key s s' c hr
  obtain ⟨c0, k0, t, rest0, hv, _, he, hp0, hl, _, _, hlo, hhi, hok, _⟩ := h.head (by rw [hp]; simp)
  rw [hp] at hp0
  injection hp0 with e1 e2
  subst e1
  apply hok
  rw [hp', e2]
  by_cases hlt : c0 < 128
  · obtain ⟨e3, e4⟩ := hlo hlt
    subst e4
    rw [if_neg (by omega)]; simp
  · have := hhi (by omega)
    rw [if_pos this, ← hl]; simp

theorem Reads.vsOk {ins : Bool} {used : Bytes} {s s' : VS} (h : Reads ins used s s') (hs : VsOk s) : VsOk s' := by
  obtain ⟨ib, ip, ty, xl, rfl, _⟩ := h
  exact EdOk.to hs rfl


/-! ## the text keys -/

/-- backspace: the last character goes, whole -/
theorem take_lastChar_valid {sb : Bytes} (h : IsU8 sb) : IsU8 (sb.take (lastChar sb)) := by
  obtain ⟨cs, hv, rfl⟩ := h
  rcases List.eq_nil_or_concat cs with rfl | ⟨pre, c, rfl⟩
  · exact isU8_nil
  · rw [List.concat_eq_append] at hv ⊢
    have hv' := valid_append.mp hv
    have hc : ValidCp c := hv'.2 c (by simp)
    rw [encStr_append, show encStr [c] = enc c by simp, Lemmas.C08b.take_lastChar_enc _ c hc]
    exact isU8_encStr hv'.1

/-- `^W`: the cut is at the start of a character -/
theorem take_lastWord_valid {sb : Bytes} (h : IsU8 sb) : IsU8 (sb.take (lastWord sb)) := by
  obtain ⟨cs, hv, rfl⟩ := h
  unfold lastWord
  split
  · exact isU8_nil
  · dsimp only
    generalize hidx : lastWord.back2 _ _ _ _ = idx
    rw [Props.C16.chop_spec hv]
    unfold List.getD
    cases hg : ((List.range (cs.length + 1)).map (byteOff cs)).dropLast[idx]? with
    | none => simpa using isU8_nil
    | some x =>
      simp only [Option.getD_some]
      have hm := (List.dropLast_sublist _).subset (List.mem_of_getElem? hg)
      simp only [List.mem_map, List.mem_range] at hm
      obtain ⟨j, _, rfl⟩ := hm
      exact (cut_codepoints hv j).1

/-- **`led_readchar` for an ASCII key** (not `^V`) on a valid key stream: a keymap text, the key itself, or — `^K` —
a digraph; the stream stays valid (`^K` reads two whole characters) -/
theorem readCharS_ascii_ok (k kmap : Nat) (s r' : VS) (r : Option Bytes) (h0 : 0 < k) (hk : k < 128) (h22 : k ≠ 22)
    (hs : VsOk s) (hq : KeysOk s) (h : readCharS (k : Int) kmap s = Res.ok r r') :
    OptValid r ∧ VsOk r' ∧ KeysOk r' := by
  unfold readCharS at h
  rw [if_neg (by simp; omega)] at h
  by_cases h11 : k = 11
  · subst h11
    simp only [show (((11 : Nat) : Int) == 11) = true from rfl, if_true] at h
    rw [bind_apply] at h
    cases h1 : readKey s with
    | eof => rw [h1] at h; cases h
    | trap => rw [h1] at h; cases h
    | ok c1 s1 =>
      rw [h1] at h
      have hs1 := pres_readKey s c1 s1 hs h1
      have hq1 := readKey_keysOk s s1 c1 hq h1
      dsimp only at h
      split at h
      · cases h; exact ⟨optValid_none, hs1, hq1⟩
      · split at h
        · cases h; exact ⟨optValid_some.mpr isU8_nil, hs1, hq1⟩
        · rw [bind_apply] at h
          cases h2 : readKey s1 with
          | eof => rw [h2] at h; cases h
          | trap => rw [h2] at h; cases h
          | ok c2 s2 =>
            rw [h2] at h
            have hs2 := pres_readKey s1 c2 s2 hs1 h2
            have hq2 := readKey_keysOk s1 s2 c2 hq1 h2
            dsimp only at h
            split at h
            · cases h; exact ⟨optValid_none, hs2, hq2⟩
            · cases h
              refine ⟨?_, hs2, hq2⟩
              intro x hx
              cases hf : Gen.digraphs.find? (fun d => d.1.headD 0 == c1.toNat && d.1.getD 1 0 == c2.toNat) with
              | none => rw [hf] at hx; cases hx
              | some d =>
                rw [hf] at hx
                simp only [Option.map_some, Option.some.injEq] at hx
                subst hx
                exact (u8chk_iff _).mp (digraphs_valid d (List.mem_of_find?_eq_some hf))
  · rw [if_neg (by simp; omega), if_neg (by omega)] at h
    cases h
    refine ⟨optValid_some.mpr ?_, hs, hq⟩
    rw [Int.toNat_natCast]
    exact kmapMap_valid kmap k h0 hk

/-! ## one iteration, for the keys `Lemmas/C08bLed` has no step lemma for -/

section Step
variable (pref post : Bytes) (aiMax : Nat) (ins ex : Bool)

local notation "GO" => ledLine.go post aiMax ins pref.isEmpty (setKmapOf ex) (getKmapOf ex) (redrawOf pref ins)

theorem go_eof (f : Nat) (sb ai : Bytes) (c1 : Int) (s : VS) (h : pending s = []) :
    GO (f + 1) sb ai c1 s = Res.eof := by
  rw [ledLine.go]
  have h2 := (reads_afterRedraw pref ins ai sb post s).2
  simp only [bind_apply, redrawOf_apply]
  rw [Lemmas.C09.termRead_eof _ (by rw [h2]; exact h)]

theorem go_kmap (f : Nat) (sb ai : Bytes) (c1 : Int) (s : VS) (k : Nat) (rest : Bytes)
    (h : pending s = k :: rest) (hk : k = 6 ∨ k = 5) :
    GO (f + 1) sb ai c1 s =
      (setKmapOf ex (if k = 6 then none else some 0) >>= fun _ => GO f sb ai c1) (afterStep pref ins ai sb post s) := by
  rw [ledLine.go]
  rw [redraw_read pref ins ai sb post _ s k rest h]
  rcases hk with rfl | rfl <;> rfl

theorem go_ctrlP (f : Nat) (sb ai : Bytes) (c1 : Int) (s : VS) (rest : Bytes) (h : pending s = 16 :: rest) :
    GO (f + 1) sb ai c1 s =
      GO f (sb ++ ((regGet (afterStep pref ins ai sb post s).ed 0).getD [])) ai 16 (afterStep pref ins ai sb post s) := by
  rw [ledLine.go]
  rw [redraw_read pref ins ai sb post _ s 16 rest h]
  rfl

theorem go_ctrlR (f : Nat) (sb ai : Bytes) (c1 : Int) (s : VS) (rest : Bytes) (h : pending s = 18 :: rest) :
    GO (f + 1) sb ai c1 s =
      (readKey >>= fun y => Vi.get >>= fun s2 =>
        GO f (if y > 0 then sb ++ ((regGet s2.ed y.toNat).getD []) else sb) ai 18) (afterStep pref ins ai sb post s) := by
  rw [ledLine.go]
  rw [redraw_read pref ins ai sb post _ s 18 rest h]
  rfl

theorem go_ctrlA (f : Nat) (sb ai : Bytes) (c1 : Int) (s : VS) (rest : Bytes) (h : pending s = 1 :: rest) :
    GO (f + 1) sb ai c1 s =
      (if (ins && c1 != 1) = true then (Vi.unmodelled >>= fun _ => GO f sb ai 1) (afterStep pref ins ai sb post s)
       else GO f sb ai 1 (afterStep pref ins ai sb post s)) := by
  rw [ledLine.go]
  rw [redraw_read pref ins ai sb post _ s 1 rest h]
  cases hc : (ins && c1 != 1) <;> simp only [hc] <;> rfl

/-- what the loop keeps: the text valid, the auto-indent made of blanks, the state valid, the keys to come valid -/
def LedPost (r : Bytes × Int × Bytes) (s' : VS) : Prop :=
  IsU8 r.1 ∧ (∀ c ∈ r.2.2, isBlankC c = true) ∧ VsOk s' ∧ KeysOk s'

theorem blank_dropLast {ai : Bytes} (h : ∀ c ∈ ai, isBlankC c = true) : ∀ c ∈ ai.dropLast, isBlankC c = true :=
  fun c hc => h c ((List.dropLast_sublist _).subset hc)

theorem setKmapOf_spec (ex : Bool) (v : Option Nat) (s : VS) :
    ∃ s2, setKmapOf ex v s = Res.ok () s2 ∧ s2.ed = s.ed ∧ pending s2 = pending s := by
  unfold setKmapOf Vi.modify
  dsimp only
  split
  · exact ⟨_, rfl, rfl, rfl⟩
  · exact ⟨_, rfl, rfl, rfl⟩

theorem VsOk.of_ed {s s2 : VS} (h : VsOk s) (he : s2.ed = s.ed) : VsOk s2 := by unfold VsOk; rw [he]; exact h

/-- **the loop of `led_line` on a valid key stream without `^V`** -/
theorem go_keys : ∀ (f : Nat) (sb ai : Bytes) (c1 : Int) (s : VS) (r : Bytes × Int × Bytes) (s' : VS),
    VsOk s → KeysOk s → IsU8 sb → (∀ c ∈ ai, isBlankC c = true) →
    GO f sb ai c1 s = Res.ok r s' → LedPost r s' := by
  intro f
  induction f with
  | zero =>
    intro sb ai c1 s r s' hs hq hsb hai h
    rw [Lemmas.C08b.go_zero] at h
    cases h
    exact ⟨hsb, hai, hs, hq⟩
  | succ f ih =>
    intro sb ai c1 s r s' hs hq hsb hai h
    by_cases hne : pending s = []
    · rw [go_eof pref post aiMax ins ex f sb ai c1 s hne] at h; cases h
    · obtain ⟨c, k, t, rest, hcv, hc22, he, hp, hl, hk0, hk256, hlo, hhi, hok, htl⟩ := hq.head hne
      obtain ⟨hrd, hp1⟩ := afterStep_spec pref ins ai sb post s k (t ++ rest) hp
      have hs1 : VsOk (afterStep pref ins ai sb post s) := Reads.vsOk hrd hs
      by_cases hlt : c < 128
      · -- an ASCII key
        obtain ⟨e1, e2⟩ := hlo hlt
        subst e1; subst e2
        have hq1 : KeysOk (afterStep pref ins ai sb post s) := hok _ (by simpa using hp1)
        have hp' : pending s = k :: rest := by simpa using hp
        by_cases h6 : k = 6 ∨ k = 5
        · rw [go_kmap pref post aiMax ins ex f sb ai c1 s k rest hp' h6, bind_apply] at h
          obtain ⟨s2, e1, e2, e3⟩ := setKmapOf_spec ex (if k = 6 then none else some 0) (afterStep pref ins ai sb post s)
          rw [e1] at h
          exact ih _ _ _ _ _ _ (hs1.of_ed e2) (hq1.congr e3) hsb hai h
        by_cases h8 : k = 8 ∨ k = 127
        · rw [Lemmas.C08b.go_bs pref post aiMax ins ex f sb ai c1 s k rest hp' h8] at h
          refine ih _ _ _ _ _ _ hs1 hq1 ?_ hai h
          split
          · exact hsb
          · exact take_lastChar_valid hsb
        by_cases h21 : k = 21
        · subst h21
          rw [Lemmas.C08b.go_killline pref post aiMax ins ex f sb ai c1 s rest hp'] at h
          exact ih _ _ _ _ _ _ hs1 hq1 isU8_nil hai h
        by_cases h23 : k = 23
        · subst h23
          rw [Lemmas.C08b.go_killword pref post aiMax ins ex f sb ai c1 s rest hp'] at h
          refine ih _ _ _ _ _ _ hs1 hq1 ?_ hai h
          split
          · exact hsb
          · exact take_lastWord_valid hsb
        by_cases h20 : k = 20
        · subst h20
          rw [Lemmas.C08b.go_ctrlT pref post aiMax ins ex f sb ai c1 s rest hp'] at h
          refine ih _ _ _ _ _ _ hs1 hq1 hsb ?_ h
          split
          · intro x hx
            rcases List.mem_append.mp hx with h1 | h1
            · exact hai x h1
            · simp at h1; subst h1; rfl
          · exact hai
        by_cases h4 : k = 4
        · subst h4
          rw [Lemmas.C08b.go_ctrlD pref post aiMax ins ex f sb ai c1 s rest hp'] at h
          refine ih _ _ _ _ _ _ hs1 hq1 ?_ (blank_dropLast hai) h
          split
          · rename_i hb
            simp only [Bool.and_eq_true] at hb
            refine isU8_drop_one_ascii hsb ?_
            have := hb.2
            unfold isBlankC at this
            simp only [Bool.or_eq_true, beq_iff_eq] at this
            rcases this with h1 | h1 <;> omega
          · exact hsb
        by_cases h16 : k = 16
        · subst h16
          rw [go_ctrlP pref post aiMax ins ex f sb ai c1 s rest hp'] at h
          refine ih _ _ _ _ _ _ hs1 hq1 (isU8_append hsb ?_) hai h
          have hv := regGet_valid hs1 0
          cases hg : regGet (afterStep pref ins ai sb post s).ed 0 with
          | none => exact isU8_nil
          | some x => exact hv x hg
        by_cases h18 : k = 18
        · subst h18
          rw [go_ctrlR pref post aiMax ins ex f sb ai c1 s rest hp', bind_apply] at h
          cases hy : readKey (afterStep pref ins ai sb post s) with
          | eof => rw [hy] at h; cases h
          | trap => rw [hy] at h; cases h
          | ok y s2 =>
            rw [hy] at h
            have hs2 := pres_readKey _ y s2 hs1 hy
            have hq2 := readKey_keysOk _ s2 y hq1 hy
            dsimp only at h
            rw [bind_apply, get_apply] at h
            dsimp only at h
            refine ih _ _ _ _ _ _ hs2 hq2 ?_ hai h
            split
            · refine isU8_append hsb ?_
              have hv := regGet_valid hs2 y.toNat
              cases hg : regGet s2.ed y.toNat with
              | none => exact isU8_nil
              | some x => exact hv x hg
            · exact hsb
        by_cases h1 : k = 1
        · subst h1
          rw [go_ctrlA pref post aiMax ins ex f sb ai c1 s rest hp'] at h
          split at h
          · rw [bind_apply] at h
            have hu : Vi.unmodelled (afterStep pref ins ai sb post s) =
                Res.ok () { afterStep pref ins ai sb post s with unmodelled := true } := rfl
            rw [hu] at h
            dsimp only at h
            exact ih sb ai 1 { afterStep pref ins ai sb post s with unmodelled := true } _ _ (hs1.of_ed rfl)
              (hq1.congr rfl) hsb hai h
          · exact ih _ _ _ _ _ _ hs1 hq1 hsb hai h
        by_cases h10 : k = 10
        · subst h10
          rw [Lemmas.C08b.go_newline pref post aiMax ins ex f sb ai c1 s rest hp'] at h
          cases h
          obtain ⟨g1, g2⟩ := reads_afterRedraw pref ins ai sb [] (afterStep pref ins ai sb post s)
          exact ⟨hsb, hai, Reads.vsOk g1 hs1, hq1.congr g2⟩
        by_cases h27 : k = 27 ∨ k = 3
        · rw [Lemmas.C08b.go_int pref post aiMax ins ex f sb ai c1 s k rest hp' h27] at h
          cases h
          exact ⟨hsb, hai, hs1, hq1⟩
        · -- a text key: `led_readchar`
          rw [Lemmas.C08b.go_char pref post aiMax ins ex f sb ai c1 s k rest hp'
            ⟨by omega, by omega, by omega, by omega, h21, h23, h20, h4, h16, h18, h1, h10, by omega, by omega⟩] at h
          cases hr : readCharS (k : Int) (if ex then (afterStep pref ins ai sb post s).exKmap else (afterStep pref ins ai sb post s).xkmap)
              (afterStep pref ins ai sb post s) with
          | eof => rw [hr] at h; cases h
          | trap => rw [hr] at h; cases h
          | ok a s2 =>
            rw [hr] at h
            obtain ⟨ha, hs2, hq2⟩ := readCharS_ascii_ok k _ _ s2 a hk0 hlt hc22 hs1 hq1 hr
            cases a with
            | none => exact ih _ _ _ _ _ _ hs2 hq2 hsb hai h
            | some cs => exact ih _ _ _ _ _ _ hs2 hq2 (isU8_append hsb (ha cs rfl)) hai h
      · -- a multi-byte character
        have hk192 := hhi (by omega)
        rw [Lemmas.C08b.go_char pref post aiMax ins ex f sb ai c1 s k (t ++ rest) hp
          ⟨by omega, by omega, by omega, by omega, by omega, by omega, by omega, by omega, by omega, by omega, by omega,
            by omega, by omega, by omega⟩] at h
        obtain ⟨s2, e1, e2, e3⟩ := Lemmas.C08b.readCharS_multi k
          (if ex then (afterStep pref ins ai sb post s).exKmap else (afterStep pref ins ai sb post s).xkmap)
          (afterStep pref ins ai sb post s) t rest hk192 hp1 hl
        rw [e1] at h
        dsimp only at h
        have hmap : t.map (· % 256) = t := by
          have hm : ∀ (l : Bytes), (∀ x ∈ l, x < 256) → l.map (· % 256) = l := by
            intro l
            induction l with
            | nil => intro _; rfl
            | cons a l ihl =>
              intro hl'
              rw [List.map_cons, ihl (fun x hx => hl' x (by simp [hx]))]
              congr 1
              exact Nat.mod_eq_of_lt (hl' a (by simp))
          exact hm t (fun x hx => by have := htl x hx; omega)
        have htw : (k :: t.map (· % 256)).takeWhile (· != 0) = enc c := by
          rw [hmap, he]
          apply Props.C01.takeWhile_all
          intro x hx
          rcases List.mem_cons.mp hx with rfl | h1
          · simp; omega
          · have := htl x h1; simp; omega
        rw [htw] at h
        exact ih _ _ _ _ _ _ (Reads.vsOk e2 hs1) (hok s2 e3) (isU8_append hsb (isU8_enc hcv)) hai h

end Step

/-- **`led_line` on a valid key stream without `^V`**: the text is valid UTF-8, the auto-indent is made of blanks,
the state and the keys to come stay valid -/
theorem ledLine_keys (pref post ai0 : Bytes) (aiMax : Nat) (ins ex : Bool) (s s' : VS) (r : Bytes × Int × Bytes)
    (hs : VsOk s) (hq : KeysOk s) (hai : ∀ c ∈ ai0, isBlankC c = true)
    (h : ledLine pref post ai0 aiMax ins ex s = Res.ok r s') : LedPost r s' := by
  rw [ledLine_eq] at h
  exact go_keys pref post aiMax ins ex _ _ _ _ _ _ _ hs hq isU8_nil hai h

/-! ## `led_input`, `vi_input`, `vi_char` -/

theorem viNextlineR_keys (s s' : VS) (hs : VsOk s) (hq : KeysOk s) (h : viNextlineR s = Res.ok () s') :
    VsOk s' ∧ KeysOk s' := by
  obtain ⟨k1, k2⟩ := prel_viNextlineR s () s' h
  refine ⟨k1 hs, ?_⟩
  rw [k2]; exact hq.congr rfl

theorem repeat_nextline_keys : ∀ (n : Nat) (s s' : VS), VsOk s → KeysOk s → Vi.repeatM n viNextlineR s = Res.ok () s' →
    VsOk s' ∧ KeysOk s' := by
  intro n
  induction n with
  | zero => intro s s' hs hq h; cases h; exact ⟨hs, hq⟩
  | succ n ih =>
    intro s s' hs hq h
    unfold Vi.repeatM at h
    rw [bind_apply] at h
    cases h1 : viNextlineR s with
    | eof => rw [h1] at h; cases h
    | trap => rw [h1] at h; cases h
    | ok u s1 =>
      rw [h1] at h
      obtain ⟨a, b⟩ := viNextlineR_keys s s1 hs hq h1
      exact ih s1 s' a b h

theorem take_blanks (ln : Bytes) (k : Nat) (hk : k ≤ (ln.takeWhile isBlankC).length) :
    ∀ c ∈ ln.take k, isBlankC c = true := by
  intro c hc
  have hpre : ln.take k = (ln.takeWhile isBlankC).take k := by
    have hp : ln.takeWhile isBlankC <+: ln := List.takeWhile_prefix _
    obtain ⟨t, ht⟩ := hp
    conv => lhs; rw [← ht]
    rw [List.take_append_of_le_length hk]
  rw [hpre] at hc
  exact mem_takeWhile_imp' _ _ _ ((List.take_sublist _ _).subset hc)

/-- the loop of `led_input` -/
theorem ledInput_loop_keys (xai : Bool) : ∀ (f : Nat) (sb : Bytes) (pref : Option Bytes) (post ai : Bytes) (s s' : VS)
    (r : Bytes × Bytes), VsOk s → KeysOk s → IsU8 sb → OptValid pref → IsU8 post → (∀ c ∈ ai, isBlankC c = true) →
    ledInput.loop xai f sb pref post ai s = Res.ok r s' → IsU8 r.1 ∧ VsOk s' ∧ KeysOk s' := by
  intro f
  induction f with
  | zero =>
    intro sb pref post ai s s' r hs hq hsb hp hpost hai h
    unfold ledInput.loop at h
    cases h
    exact ⟨isU8_append hsb hpost, hs, hq⟩
  | succ f ih =>
    intro sb pref post ai s s' r hs hq hsb hp hpost hai h
    unfold ledInput.loop at h
    dsimp only at h
    rw [bind_apply] at h
    cases hl : ledLine (pref.getD []) post ai 127 true false s with
    | eof => rw [hl] at h; cases h
    | trap => rw [hl] at h; cases h
    | ok res s1 =>
      rw [hl] at h
      obtain ⟨ln, key, ai1⟩ := res
      obtain ⟨hln, hai1, hs1, hq1⟩ := ledLine_keys _ _ _ _ _ _ s s1 _ hs hq hai hl
      dsimp only at h hln hai1
      have hpv : IsU8 (pref.getD []) := by
        cases pref with
        | none => exact isU8_nil
        | some x => exact hp x rfl
      rw [bind_apply] at h
      cases hn : Vi.repeatM (nlCount ln + if (key == 10) = true then 1 else 0) viNextlineR s1 with
      | eof => rw [hn] at h; cases h
      | trap => rw [hn] at h; cases h
      | ok u s2 =>
        rw [hn] at h
        obtain ⟨hs2, hq2⟩ := repeat_nextline_keys _ s1 s2 hs1 hq1 hn
        dsimp only at h
        have hsb' : ∀ b : Bool, IsU8 ((if b = true then sb ++ ai1 else sb) ++ pref.getD [] ++ ln ++
              (if (key == 10) = true then [10] else [])) := by
          intro b
          refine isU8_append (isU8_append (isU8_append ?_ hpv) hln) ?_
          · split
            · exact isU8_append hsb (isU8_blanks hai1)
            · exact hsb
          · split
            · exact isU8_nl
            · exact isU8_nil
        have hai' : ∀ b : Bool, ∀ c ∈ (if (!xai) = true then []
            else if (!b) = true then ai1 ++ ln.take (min (ln.takeWhile isBlankC).length (127 - ai1.length)) else ai1),
            isBlankC c = true := by
          intro b
          split
          · intro c hc; simp at hc
          · split
            · intro c hc
              rcases List.mem_append.mp hc with h1 | h1
              · exact hai1 c h1
              · exact take_blanks ln _ (Nat.min_le_left _ _) c h1
            · exact hai1
        split at h
        · cases h
          exact ⟨isU8_append (hsb' _) hpost, hs2, hq2⟩
        · refine ih _ none _ _ s2 s' r hs2 hq2 (hsb' _) optValid_none ?_ (hai' _) h
          split
          · rw [drop_takeWhile_length]
            exact isU8_dropWhile_ascii hpost _ (by
              intro c hc; unfold isBlankC at hc
              simp only [Bool.or_eq_true, beq_iff_eq] at hc
              rcases hc with hc | hc <;> omega)
          · simpa using hpost

/-- **`vi_input` (insert mode) on a valid key stream without `^V`**: the text it returns is valid UTF-8 when the
text around the insertion point is; the keys to come stay valid -/
theorem viInput_keys (pref post : Bytes) (s s' : VS) (r : Bytes × Int × Int) (hs : VsOk s) (hq : KeysOk s)
    (hp : IsU8 pref) (hpost : IsU8 post) (h : viInput pref post s = Res.ok r s') : IsU8 r.1 ∧ VsOk s' ∧ KeysOk s' := by
  unfold viInput at h
  rw [bind_apply] at h
  cases hl : ledInput pref post s with
  | eof => rw [hl] at h; cases h
  | trap => rw [hl] at h; cases h
  | ok res s1 =>
    rw [hl] at h
    dsimp only at h
    cases h
    unfold ledInput at hl
    rw [bind_apply, get_apply] at hl
    dsimp only at hl
    refine ledInput_loop_keys _ _ _ _ _ _ s s' res hs hq isU8_nil ?_ hpost ?_ hl
    · apply optValid_some.mpr
      have h1 := Lemmas.C08b.aiOf_append_prefRest pref
      exact isU8_of_append_right (a := Lemmas.C08b.aiOf pref) (b := Lemmas.C08b.prefRest pref)
        (by rw [h1]; exact hp) (isU8_blanks (aiOf_blank pref))
    · exact aiOf_blank pref

/-- a valid key stream without `^V` makes `TypedTextValid` true -/
theorem typedTextValid_of_keys {s : VS} (hq : KeysOk s) : TypedTextValid s := by
  intro sI pref post r sJ hsI hsv hp hpost hin
  exact (viInput_keys pref post sI sJ r hsv (hq.congr (by rw [hsI]; rfl)) hp hpost hin).1

/-- **`i a I A o O` on any valid key stream without `^V`** -/
theorem vcInsert_keys_ok (cmd : Nat) (s s' : VS) (a : Nat) (hs : VsOk s) (hq : KeysOk s)
    (h : vcInsert cmd s = Res.ok a s') : VsOk s' := presT_vcInsert cmd s a s' hs (typedTextValid_of_keys hq) h

/-- **`c` on a region, any valid key stream without `^V`** -/
theorem viChange_keys_ok (r1 o1 r2 o2 : Int) (ln : Bool) (s s' : VS) (a : Nat) (hs : VsOk s) (hq : KeysOk s)
    (h : viChange r1 o1 r2 o2 ln s = Res.ok a s') : VsOk s' :=
  presT_viChange r1 o1 r2 o2 ln s a s' hs (typedTextValid_of_keys hq) h

/-- `vi_char` (the argument of `r f t F T`) on a valid key stream without `^V` reads a whole character -/
theorem viChar_go_keys : ∀ (f : Nat) (s s' : VS) (r : Option Bytes), VsOk s → KeysOk s →
    viChar.go f s = Res.ok r s' → OptValid r ∧ VsOk s' ∧ KeysOk s' := by
  intro f
  induction f with
  | zero => intro s s' r hs hq h; unfold viChar.go at h; cases h; exact ⟨optValid_none, hs, hq⟩
  | succ f ih =>
    intro s s' r hs hq h
    unfold viChar.go at h
    rw [bind_apply] at h
    by_cases hne : pending s = []
    · rw [Lemmas.C09.termRead_eof s hne] at h; cases h
    · obtain ⟨c, k, t, rest, hcv, hc22, he, hp, hl, hk0, hk256, hlo, hhi, hok, htl⟩ := hq.head hne
      obtain ⟨h1, h2, h3⟩ := Lemmas.C08b.termRead_afterRead s k (t ++ rest) hp
      rw [h1] at h
      have hs1 : VsOk (Lemmas.C08b.afterRead s) := Reads.vsOk h3 hs
      dsimp only at h
      split at h
      · cases h
        refine ⟨optValid_none, hs1, ?_⟩
        -- an interrupt key is ASCII
        rename_i hint
        have hlt : c < 128 := by
          apply Classical.byContradiction
          intro hge
          have := hhi (by omega)
          have : tkInt (k : Int) = false := Lemmas.C08b.tkInt_cast k (by omega) (by omega)
          rw [this] at hint; cases hint
        obtain ⟨e1, e2⟩ := hlo hlt
        subst e2
        exact hok _ (by simpa using h2)
      · split at h
        · rename_i h6
          have hk6 : k = 6 := by
            have : (k : Int) = 6 := by simpa using h6
            omega
          have hlt : c < 128 := by
            apply Classical.byContradiction
            intro hge; have := hhi (by omega); omega
          obtain ⟨e1, e2⟩ := hlo hlt
          subst e2
          rw [bind_apply] at h
          exact ih { Lemmas.C08b.afterRead s with xkmap := (Lemmas.C08b.afterRead s).xkmapAlt } _ _ (hs1.of_ed rfl)
            ((hok (Lemmas.C08b.afterRead s) (by simpa using h2)).congr rfl) h
        · split at h
          · rename_i h5
            have hk5 : k = 5 := by
              have : (k : Int) = 5 := by simpa using h5
              omega
            have hlt : c < 128 := by
              apply Classical.byContradiction
              intro hge; have := hhi (by omega); omega
            obtain ⟨e1, e2⟩ := hlo hlt
            subst e2
            rw [bind_apply] at h
            exact ih { Lemmas.C08b.afterRead s with xkmap := 0 } _ _ (hs1.of_ed rfl)
              ((hok (Lemmas.C08b.afterRead s) (by simpa using h2)).congr rfl) h
          · rw [bind_apply, get_apply] at h
            dsimp only at h
            by_cases hlt : c < 128
            · obtain ⟨e1, e2⟩ := hlo hlt
              subst e1; subst e2
              exact readCharS_ascii_ok k _ _ s' r hk0 hlt hc22 hs1 (hok _ (by simpa using h2)) h
            · have hk192 := hhi (by omega)
              obtain ⟨s2, e1, e2, e3⟩ := Lemmas.C08b.readCharS_multi k (Lemmas.C08b.afterRead s).xkmap
                (Lemmas.C08b.afterRead s) t rest hk192 h2 hl
              rw [e1] at h
              cases h
              have hm : ∀ (l : Bytes), (∀ x ∈ l, x < 256) → l.map (· % 256) = l := by
                intro l
                induction l with
                | nil => intro _; rfl
                | cons a l ihl =>
                  intro hl'
                  rw [List.map_cons, ihl (fun x hx => hl' x (by simp [hx]))]
                  congr 1
                  exact Nat.mod_eq_of_lt (hl' a (by simp))
              have htw : (k :: t.map (· % 256)).takeWhile (· != 0) = enc c := by
                rw [hm t (fun x hx => by have := htl x hx; omega), he]
                apply Props.C01.takeWhile_all
                intro x hx
                rcases List.mem_cons.mp hx with rfl | h1
                · simp; omega
                · have := htl x h1; simp; omega
              rw [htw]
              exact ⟨optValid_some.mpr (isU8_enc hcv), Reads.vsOk e2 hs1, hok s' e3⟩

/-- **`r` on any valid key stream without `^V`** -/
theorem vcReplace_keys_ok (s s' : VS) (a : Nat) (hs : VsOk s) (hq : KeysOk s) (h : vcReplace s = Res.ok a s') : VsOk s' := by
  refine vcReplace_ok s s' a hs ?_ h
  intro cs s1 hv
  unfold viChar at hv
  exact (viChar_go_keys 64 s s1 _ hs hq hv).1 cs rfl

end Neatvi.Lemmas.C16c
