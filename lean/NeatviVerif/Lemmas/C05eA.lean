import NeatviVerif.Lemmas.C02bEd
import NeatviVerif.Lemmas.C06Ex
import NeatviVerif.Lemmas.C06Lbuf
/-!
# C05e lemmas, part A: the primitives below the `ec_*` handlers never trap

* `lbuf_undo` / `lbuf_redo` on a buffer built by the lbuf API (`GoodLb`), `lbuf_rd`, `lbuf_save`
  (whatever faults are scheduled), `bufs_modified`;
* address evaluation (`ex_search`, `ex_lineno`, `ex_region`) given that the matcher does not trap
  (`ReSafe`, discharged in part R).
-/
namespace Neatvi.Lemmas.C05e
open Neatvi Neatvi.Lbuf Neatvi.LbufIo Neatvi.Ex Neatvi.Rset Neatvi.Sbuf
open Neatvi.Props.C01 Neatvi.Lemmas.Hist Neatvi.Lemmas.C02b Neatvi.Lemmas.C06

theorem ite_total {α β : Type} {c : Prop} [Decidable c] {a b : Option (α × β)} (ha : ∃ r e, a = some (r, e))
    (hb : ∃ r e, b = some (r, e)) : ∃ r e, (if c then a else b) = some (r, e) := by
  split <;> assumption

/-! ### the line buffer -/

theorem undo_total {lb : Lb} (h : GoodLb lb) : ∃ rc lb', undo lb = some (rc, lb') := by
  obtain ⟨d, hr⟩ := h
  obtain ⟨T0, pg, fg, m, hi, _⟩ := hr.inv
  rcases hinv_undo hi with ⟨_, h1⟩ | ⟨g, ps, lb', _, h1, _⟩
  · exact ⟨_, _, h1⟩
  · exact ⟨_, _, h1⟩

theorem redo_total {lb : Lb} (h : GoodLb lb) : ∃ rc lb', redo lb = some (rc, lb') := by
  obtain ⟨d, hr⟩ := h
  obtain ⟨T0, pg, fg, m, hi, _⟩ := hr.inv
  rcases hinv_redo hi with ⟨_, h1⟩ | ⟨g, ps, lb', _, h1, _⟩
  · exact ⟨_, _, h1⟩
  · exact ⟨_, _, h1⟩

/-- `lbuf_rd` with an ordered range never traps, whatever the chunks -/
theorem rd_total (lb : Lb) (chunks : List Bytes) (fe : Bool) (b e : Nat) (hbe : b ≤ e) :
    ∃ rc lb', rd lb chunks fe b e = some (rc, lb') := by
  obtain ⟨sb, h1, _, h3⟩ := rdAcc_ok chunks {} (Or.inr ⟨rfl, rfl⟩)
  unfold rd
  simp only [h1, buf_ok sb h3]
  cases fe with
  | true => exact ⟨_, _, rfl⟩
  | false =>
    simp only [Bool.false_eq_true, if_false]
    obtain ⟨lb', he⟩ := C06.edit_total lb (some (cstr sb.s)) b e hbe
    rw [he]
    exact ⟨_, _, rfl⟩

/-! ### writing with faults -/

/-- schedules whose counts make progress (errors allowed) -/
def ProgSched (sched : List WOut) : Prop := ∀ k, WOut.cnt k ∈ sched → 1 ≤ k

theorem ProgSched.tail {o : WOut} {r : List WOut} (h : ProgSched (o :: r)) : ProgSched r :=
  fun k hk => h k (by simp [hk])

theorem writeFully_total : ∀ (fuel : Nat) (buf : Bytes) (sched : List WOut), ProgSched sched → buf.length ≤ fuel →
    ∃ ok w r, writeFully fuel buf sched = some (ok, w, r) ∧ ProgSched r := by
  intro fuel
  induction fuel with
  | zero =>
    intro buf sched hs hf
    have : buf = [] := by cases buf <;> simp_all
    subst this; exact ⟨true, [], sched, by simp [writeFully], hs⟩
  | succ f ih =>
    intro buf sched hs hf
    by_cases hb : buf = []
    · subst hb; exact ⟨true, [], sched, by simp [writeFully], hs⟩
    · simp only [writeFully, hb, if_false]
      cases sched with
      | nil => exact ⟨_, _, [], rfl, by intro k hk; simp at hk⟩
      | cons o rest =>
        cases o with
        | err => exact ⟨_, _, rest, rfl, hs.tail⟩
        | cnt k =>
          have hk1 : 1 ≤ k := hs k (by simp)
          have hpos : 0 < buf.length := by cases buf <;> simp_all
          simp only []
          obtain ⟨ok, w, r, h1, h2⟩ := ih (buf.drop (min k buf.length)) rest hs.tail (by simp; omega)
          rw [h1]
          exact ⟨_, _, r, rfl, h2⟩

/-- what the loop of `lbuf_wr` keeps, also after a failed write -/
structure WrOk (batch : Nat) (st : WrState) : Prop where
  fits : st.buf.length ≤ batch
  sched : ProgSched st.sched

theorem wrStep_total (batch fuel : Nat) (hf : batch ≤ fuel) (st : WrState) (ln : Bytes)
    (hl : ln.length ≤ fuel) (h : WrOk batch st) :
    ∃ st', wrStep batch fuel st ln = some st' ∧ WrOk batch st' := by
  obtain ⟨hfits, hsched⟩ := h
  unfold wrStep
  by_cases hok : st.ok = true
  · simp only [hok, Bool.not_true, Bool.false_eq_true, if_false]
    -- flush
    have s1 : ∃ st1, (if (decide (st.buf.length > 0) && decide (st.buf.length + ln.length > batch)) = true
          then flush fuel st else some st) = some st1 ∧ WrOk batch st1 ∧
          (st1.buf.length + ln.length ≤ batch ∨ st1.buf = []) := by
      by_cases hc : (decide (st.buf.length > 0) && decide (st.buf.length + ln.length > batch)) = true
      · rw [if_pos hc]
        obtain ⟨ok, w, r, h1, h2⟩ := writeFully_total fuel st.buf st.sched hsched (by omega)
        refine ⟨{ st with buf := [], out := st.out ++ w, sched := r, ok := ok }, ?_, ⟨by simp, h2⟩, Or.inr rfl⟩
        simp [flush, h1]
      · rw [if_neg hc]
        refine ⟨st, rfl, ⟨hfits, hsched⟩, ?_⟩
        simp only [Bool.and_eq_true, decide_eq_true_eq, not_and] at hc
        by_cases h0 : st.buf.length > 0
        · left; have := hc h0; omega
        · right; cases hbuf : st.buf <;> simp_all
    obtain ⟨st1, e1, ⟨hfits1, hsched1⟩, hroom⟩ := s1
    rw [e1]
    simp only []
    by_cases hok1 : st1.ok = true
    · simp only [hok1, Bool.not_true, Bool.false_eq_true, if_false]
      by_cases hbig : ln.length ≥ batch
      · rw [if_pos hbig]
        obtain ⟨ok, w, r, h1, h2⟩ := writeFully_total fuel ln st1.sched hsched1 hl
        simp only [direct, h1]
        cases ok with
        | true => exact ⟨_, rfl, ⟨hfits1, h2⟩⟩
        | false => exact ⟨_, rfl, ⟨hfits1, h2⟩⟩
      · rw [if_neg hbig]
        have hroom' : st1.buf.length + ln.length ≤ batch := by
          rcases hroom with h | h
          · exact h
          · rw [h]; simp; omega
        rw [if_pos hroom']
        simp only [Bool.not_true, Bool.false_eq_true, if_false]
        exact ⟨_, rfl, ⟨by simpa using hroom', hsched1⟩⟩
    · have : st1.ok = false := by cases h : st1.ok <;> simp_all
      simp only [this, Bool.not_false, if_true]
      exact ⟨st1, rfl, ⟨hfits1, hsched1⟩⟩
  · have : st.ok = false := by cases h : st.ok <;> simp_all
    simp only [this, Bool.not_false, if_true]
    exact ⟨st, rfl, ⟨hfits, hsched⟩⟩

theorem wrLoop_total (batch fuel : Nat) (hf : batch ≤ fuel) (ls : List Bytes) (hl : ∀ l ∈ ls, l.length ≤ fuel) :
    ∀ (st : WrState), WrOk batch st → ∃ st', wrLoop batch fuel ls st = some st' ∧ WrOk batch st' := by
  induction ls with
  | nil => intro st h; exact ⟨st, rfl, h⟩
  | cons l ls ih =>
    intro st h
    obtain ⟨st1, h1, h2⟩ := wrStep_total batch fuel hf st l (hl l (by simp)) h
    obtain ⟨st2, h3, h4⟩ := ih (fun x hx => hl x (by simp [hx])) st1 h2
    refine ⟨st2, ?_, h4⟩
    simp only [wrLoop, h1]; exact h3

theorem wrFinal_total (lines : List Bytes) (b e batch fuel : Nat) (sched : List WOut)
    (he : e ≤ lines.length) (hf : batch ≤ fuel) (hl : ∀ l ∈ lines, l.length ≤ fuel) (hs : ProgSched sched) :
    ∃ st, wrFinal lines b e batch fuel sched = some st := by
  unfold wrFinal
  rw [if_neg (by omega)]
  have hl' : ∀ l ∈ (lines.drop b).take (e - b), l.length ≤ fuel :=
    fun l h => hl l (List.mem_of_mem_drop (List.mem_of_mem_take h))
  obtain ⟨st, h1, ⟨hfits, hsched⟩⟩ := wrLoop_total batch fuel hf _ hl' { sched := sched } ⟨by simp, hs⟩
  rw [h1]
  simp only []
  split
  · exact ⟨_, rfl⟩
  · split
    · obtain ⟨ok, w, r, h2, _⟩ := writeFully_total fuel st.buf st.sched hsched (by omega)
      exact ⟨{ st with buf := [], out := st.out ++ w, sched := r, ok := ok }, by simp [flush, h2]⟩
    · exact ⟨_, rfl⟩


theorem wrFinal_ne_none (lines : List Bytes) (b e batch fuel : Nat) (sched : List WOut)
    (he : e ≤ lines.length) (hf : batch ≤ fuel) (hl : ∀ l ∈ lines, l.length ≤ fuel) (hs : ProgSched sched) :
    wrFinal lines b e batch fuel sched ≠ none := by
  obtain ⟨st, h⟩ := wrFinal_total lines b e batch fuel sched he hf hl hs
  rw [h]; exact fun h => by cases h

theorem foldl_max_ge (ls : List Bytes) : ∀ (m : Nat), m ≤ ls.foldl (fun m l => max m l.length) m ∧
    ∀ l ∈ ls, l.length ≤ ls.foldl (fun m l => max m l.length) m := by
  induction ls with
  | nil => intro m; exact ⟨Nat.le_refl _, by intro l hl; simp at hl⟩
  | cons x ls ih =>
    intro m
    simp only [List.foldl_cons]
    obtain ⟨h1, h2⟩ := ih (max m x.length)
    refine ⟨by omega, ?_⟩
    intro l hl
    simp only [List.mem_cons] at hl
    rcases hl with rfl | hl
    · omega
    · exact h2 l hl

/-- the schedule `lbuf_save` builds from the fault table makes progress -/
theorem saveSched_prog (faults : List (Nat × Nat)) (calls n : Nat) :
    ProgSched ((List.range n).map (fun k =>
        match (faults.find? (fun f => f.1 == calls + k)).map (·.2) with
        | some 101 => WOut.err
        | some d => if 49 ≤ d && d ≤ 57 then WOut.cnt (d - 48) else WOut.cnt 1000000000
        | none => WOut.cnt 1000000000)) := by
  intro k hk
  simp only [List.mem_map, List.mem_range] at hk
  obtain ⟨i, _, hi⟩ := hk
  split at hi
  · cases hi
  · split at hi
    · rename_i hd
      simp only [Bool.and_eq_true, decide_eq_true_eq] at hd
      injection hi with hi; omega
    · injection hi with hi; omega
  · injection hi with hi; omega

/-- **`lbuf_save` never traps**: whatever faults are scheduled, for an end that is `-1` (the whole buffer) or inside it -/
theorem lbufSave_total (ed : Ed) (lb : Lb) (b : Nat) (e : Int) (path : Bytes) (force : Bool) (ts : Int)
    (he : e < 0 ∨ e ≤ lb.lines.length) : ∃ r ed', lbufSave ed lb b e path force ts = some (r, ed') := by
  unfold lbufSave
  simp only []
  split
  · exact ⟨_, _, rfl⟩
  · split
    · exact ⟨_, _, rfl⟩
    · split
      · exact ⟨_, _, rfl⟩
      · have hfuel := foldl_max_ge lb.lines Gen.WR_BATCH
        have he' : (if e < 0 then lb.lines.length else e.toNat) ≤ lb.lines.length := by
          split
          · exact Nat.le_refl _
          · rcases he with he | he <;> omega
        split
        · rename_i heq
          exact absurd heq (wrFinal_ne_none lb.lines b _ Gen.WR_BATCH _ _ he' (by omega)
            (fun l hl => by have := hfuel.2 l hl; omega) (saveSched_prog _ _ _))
        · simp only [Ed.nextFault]
          exact ite_total ⟨_, _, rfl⟩ (ite_total ⟨_, _, rfl⟩ ⟨_, _, rfl⟩)


theorem lbufSaveP_total (ed : Ed) (lb : Lb) (b : Nat) (e : Int) (path : Bytes) (force : Bool) (ts : Int)
    (he : e < 0 ∨ e ≤ lb.lines.length) : ∃ r ed', lbufSaveP ed lb b e path force ts = some (r, ed') := by
  unfold lbufSaveP
  split
  · exact ⟨_, _, rfl⟩
  · exact lbufSave_total ed lb b e path force ts he

/-- **`bufs_modified` never traps** -/
theorem bufsModified_total (ed : Ed) (idx : Nat) (msg : Option Bytes) : ∃ r ed', bufsModified ed idx msg = some (r, ed') := by
  unfold bufsModified
  cases hb : ed.bufs.getD idx none with
  | none => exact ⟨_, _, rfl⟩
  | some b =>
    simp only []
    have hm : ed.modifiedAt idx = ((modified b.lb).1, { ed with bufs := ed.bufs.set idx (some { b with lb := (modified b.lb).2 }) }) := by
      unfold Ed.modifiedAt; rw [hb]
    rw [hm]
    simp only []
    have hlt : idx < ed.bufs.length := (Lemmas.C02Ex.getD_some hb).1
    split
    · exact ⟨_, _, rfl⟩
    · rw [Lemmas.C02Ex.getD_set_self _ _ _ hlt]
      simp only []
      split
      · obtain ⟨r, ed', h⟩ := lbufSave_total
          { ed with bufs := ed.bufs.set idx (some { b with lb := (modified b.lb).2 }) } (modified b.lb).2 0 (-1) b.path false b.mtime
          (Or.inl (by omega))
        rw [h]
        exact ⟨_, _, rfl⟩
      · exact ⟨_, _, rfl⟩

/-! ### what `lbuf_save` may move: the file system, the clock, the counters of the fault schedule -/

def IoFr (ed ed' : Ed) : Prop :=
  ∃ fs c k fi, ed' = { ed with files := fs, clock := c, calls := k, fired := fi }

theorem IoFr.refl (ed : Ed) : IoFr ed ed := ⟨_, _, _, _, rfl⟩

theorem IoFr.trans {a b c : Ed} (h1 : IoFr a b) (h2 : IoFr b c) : IoFr a c := by
  obtain ⟨_, _, _, _, e1⟩ := h1
  obtain ⟨_, _, _, _, e2⟩ := h2
  subst e1; subst e2
  exact ⟨_, _, _, _, rfl⟩

theorem ioFr_putFile (ed : Ed) (f : File) : IoFr ed (ed.putFile f) := by
  unfold Ed.putFile
  split <;> exact ⟨_, _, _, _, rfl⟩

theorem ioFr_nextFault (ed : Ed) : IoFr ed ed.nextFault.2 := ⟨_, _, _, _, rfl⟩

theorem IoFr.bufs {ed ed' : Ed} (h : IoFr ed ed') : ed'.bufs = ed.bufs := by
  obtain ⟨_, _, _, _, e⟩ := h; subst e; rfl

theorem IoFr.atDepth {ed ed' : Ed} (h : IoFr ed ed') : ed'.atDepth = ed.atDepth := by
  obtain ⟨_, _, _, _, e⟩ := h; subst e; rfl

theorem lbufSave_ioFr (ed ed' : Ed) (lb : Lb) (b : Nat) (e : Int) (path : Bytes) (force : Bool) (ts : Int)
    (r : Option Bytes) (h : lbufSave ed lb b e path force ts = some (r, ed')) : IoFr ed ed' := by
  unfold lbufSave at h
  rcases hnf : ed.nextFault with ⟨fo, ed1⟩
  have h1 : IoFr ed ed1 := by
    have := ioFr_nextFault ed
    rw [hnf] at this; exact this
  simp only [hnf] at h
  generalize LbufIo.wrFinal _ _ _ _ _ _ = w at h
  split at h
  · simp only [Option.some.injEq, Prod.mk.injEq] at h; rw [← h.2]; exact IoFr.refl _
  · split at h
    · simp only [Option.some.injEq, Prod.mk.injEq] at h; rw [← h.2]; exact IoFr.refl _
    · cases hfo : fo == 101
      · simp only [hfo, Bool.false_eq_true, if_false] at h
        have hA : ∀ (f1 : File) (c1 : Int), IoFr ed { ed1.putFile f1 with clock := c1 } := by
          intro f1 c1
          refine h1.trans ((ioFr_putFile ed1 f1).trans ⟨_, _, _, _, rfl⟩)
        cases w with
        | none => cases h
        | some st =>
          simp only at h
          have hB : ∀ (e2 : Ed) (f2 : File) (c2 : Int) (k2 : Nat), IoFr ed e2 →
              IoFr ed { e2.putFile f2 with clock := c2, calls := k2 } := by
            intro e2 f2 c2 k2 h2
            exact h2.trans ((ioFr_putFile e2 f2).trans ⟨_, _, _, _, rfl⟩)
          cases hok : st.ok
          · simp only [hok, Bool.not_false, if_true, Option.some.injEq, Prod.mk.injEq] at h
            rw [← h.2]
            exact (hB _ _ _ _ (hA _ _)).trans (ioFr_nextFault _)
          · simp only [hok, Bool.not_true, Bool.false_eq_true, if_false] at h
            generalize hX : Ed.nextFault _ = nf at h
            have h2 : IoFr ed nf.2 := by
              rw [← hX]
              exact (hB _ _ _ _ (hA _ _)).trans (ioFr_nextFault _)
            obtain ⟨fc, ed2⟩ := nf
            simp only at h h2
            split at h
            · simp only [Option.some.injEq, Prod.mk.injEq] at h; rw [← h.2]; exact h2
            · simp only [Option.some.injEq, Prod.mk.injEq] at h; rw [← h.2]; exact h2
      · simp only [hfo, if_true, Option.some.injEq, Prod.mk.injEq] at h; rw [← h.2]
        exact h1.trans ⟨_, _, _, _, rfl⟩

theorem lbufSaveP_ioFr (ed ed' : Ed) (lb : Lb) (b : Nat) (e : Int) (path : Bytes) (force : Bool) (ts : Int)
    (r : Option Bytes) (h : lbufSaveP ed lb b e path force ts = some (r, ed')) : IoFr ed ed' := by
  unfold lbufSaveP at h
  split at h
  · simp only [Option.some.injEq, Prod.mk.injEq] at h
    rw [← h.2]
    split
    · exact ⟨_, _, _, _, rfl⟩
    · exact ioFr_nextFault ed
  · exact lbufSave_ioFr _ _ _ _ _ _ _ _ _ h

/-! ### the matcher, as a hypothesis -/

/-- the regular-expression layer never traps: `rstr_make` on any pattern that is a C string (no NUL byte),
    `rstr_find` of what it made on any subject.  Discharged in part R (`reSafe`). -/
structure ReSafe : Prop where
  make : ∀ (pat : Bytes) (flg : Nat), 0 ∉ pat → rstrMake pat flg ≠ none
  find : ∀ (pat : Bytes) (flg : Nat) (re : RStr) (s : Bytes) (n fl : Nat), rstrMake pat flg = some (some re) →
    rstrFind re s n fl ND NG ≠ none

theorem ReSafe.mkRe (hre : ReSafe) (ed : Ed) (pat : Bytes) (h0 : 0 ∉ pat) :
    ed.mkRe pat = some none ∨ ∃ re, ed.mkRe pat = some (some re) := by
  have := hre.make pat (if ed.xic != 0 then RE_ICASE else 0) h0
  unfold Ed.mkRe
  cases h : rstrMake pat (if ed.xic != 0 then RE_ICASE else 0) with
  | none => exact absurd h this
  | some o => cases o with
    | none => exact Or.inl rfl
    | some re => exact Or.inr ⟨re, rfl⟩

theorem ReSafe.find' (hre : ReSafe) {ed : Ed} {pat : Bytes} {re : RStr} (h : ed.mkRe pat = some (some re)) (s : Bytes) (n fl : Nat) :
    ∃ r offs c, rstrFind re s n fl ND NG = some (r, offs, c) := by
  have := hre.find pat _ re s n fl h
  cases hf : rstrFind re s n fl ND NG with
  | none => exact absurd hf this
  | some p => exact ⟨p.1, p.2.1, p.2.2, rfl⟩

/-! ### patterns are cut out of the command text: no NUL in the text, none in the pattern -/

theorem reRead_go_mem (delim : Nat) : ∀ (f : Nat) (s acc : Bytes) (c : Nat), c ∈ (reRead.go delim f s acc).1 → c ∈ acc ∨ c ∈ s := by
  intro f
  induction f with
  | zero => intro s acc c h; rw [reRead.go] at h; exact Or.inl h
  | succ f ih =>
    intro s acc c h
    cases s with
    | nil => rw [reRead.go] at h; exact Or.inl h
    | cons x r =>
      rw [reRead.go] at h
      split at h
      · exact Or.inl h
      · split at h
        · rename_i hb
          have hr : r ≠ [] := by
            intro h0; rw [h0] at hb; simp at hb
          have hd : r.headD 0 ∈ r := by cases r with | nil => exact absurd rfl hr | cons y ys => simp
          have hx : x = 92 := by simp only [Bool.and_eq_true, beq_iff_eq] at hb; exact hb.1
          rcases ih _ _ _ h with h1 | h1
          · split at h1
            · simp only [List.mem_append, List.mem_cons, List.not_mem_nil, or_false] at h1
              rcases h1 with h1 | h1 | h1
              · exact Or.inl h1
              · right; rw [h1, ← hx]; simp
              · right; rw [h1]; exact List.mem_cons_of_mem _ hd
            · simp only [List.mem_append, List.mem_cons, List.not_mem_nil, or_false] at h1
              rcases h1 with h1 | h1
              · exact Or.inl h1
              · right; rw [h1]; exact List.mem_cons_of_mem _ hd
          · right; simp [List.mem_of_mem_drop h1]
        · rcases ih _ _ _ h with h1 | h1
          · simp only [List.mem_append, List.mem_cons, List.not_mem_nil, or_false] at h1
            rcases h1 with h1 | h1
            · exact Or.inl h1
            · right; rw [h1]; simp
          · right; simp [h1]

/-- the pattern `re_read` cuts out holds only bytes of the text -/
theorem reRead_mem (src : Bytes) (k : Bytes) (h : (reRead src).1 = some k) : ∀ c ∈ k, c ∈ src := by
  unfold reRead at h
  cases src with
  | nil => cases h
  | cons d s =>
    dsimp only at h
    cases h
    intro c hc
    rcases reRead_go_mem d _ _ _ _ hc with h1 | h1
    · cases h1
    · simp [h1]

theorem kwdSet_nul {ed : Ed} {k : Bytes} {d : Int} (hk : 0 ∉ k) : 0 ∉ (ed.kwdSet (some k) d).xkwd := by
  unfold Ed.kwdSet
  intro h
  exact hk (List.mem_of_mem_take h)

/-- the keyword a command sets from its text -/
theorem kwEd_nul (ed : Ed) (src : Bytes) (d : Int) (h0 : 0 ∉ src) (hk : 0 ∉ ed.xkwd) : 0 ∉ (kwEd ed (reRead src).1 d).xkwd := by
  unfold kwEd
  cases hr : (reRead src).1 with
  | none => exact hk
  | some k =>
    dsimp only
    split
    · exact kwdSet_nul (fun h => h0 (reRead_mem src k hr 0 h))
    · exact hk

/-! ### addresses -/

theorem searchScan_total (hre : ReSafe) (ed ed0 : Ed) (pat : Bytes) (re : RStr) (hm : ed0.mkRe pat = some (some re)) (dir len : Int) :
    ∀ (f : Nat) (row : Int), ∃ r, exSearch.scan ed re dir len f row = some r := by
  intro f
  induction f with
  | zero => intro row; exact ⟨_, rfl⟩
  | succ f ih =>
    intro row
    rw [exSearch.scan]
    split
    · exact ⟨_, rfl⟩
    · split
      · exact ⟨_, rfl⟩
      · rename_i ln _
        obtain ⟨r, offs, c, hf⟩ := hre.find' hm ln 0 0
        rw [hf]
        simp only []
        split
        · exact ⟨_, rfl⟩
        · exact ih _

theorem exSearch_total (hre : ReSafe) (ed : Ed) (loc : Bytes) (h0 : 0 ∉ loc) (hk : 0 ∉ ed.xkwd) :
    ∃ r ed', exSearch ed loc = some (r, ed') ∧ 0 ∉ ed'.xkwd := by
  rw [exSearch_eq]
  simp only []
  have hk1 := kwEd_nul ed loc (if loc.headD 0 == 47 then 1 else -1) h0 hk
  generalize kwEd ed (reRead loc).1 (if loc.headD 0 == 47 then 1 else -1) = ed1 at hk1
  split
  · exact ⟨_, _, rfl, hk1⟩
  · rcases hre.mkRe ed1 ed1.xkwd hk1 with h | ⟨re, h⟩
    · rw [h]; exact ⟨_, _, rfl, hk1⟩
    · rw [h]
      simp only []
      obtain ⟨r, hr⟩ := searchScan_total hre ed1 ed1 ed1.xkwd re h ed1.xkwddir ed1.len (ed1.len.toNat + 1) (ed1.xrow + ed1.xkwddir)
      rw [hr]
      exact ⟨_, _, rfl, hk1⟩

theorem exLineno_total (hre : ReSafe) (ed : Ed) (loc : Bytes) (h0 : 0 ∉ loc) (hk : 0 ∉ ed.xkwd) :
    ∃ r ed', exLineno ed loc = some (r, ed') ∧ 0 ∉ ed'.xkwd := by
  unfold exLineno
  simp only []
  generalize hb : @ite (R (Int × Bytes)) ((loc.headD 0 == 46) = true) _ _ _ = base
  have hbase : ∃ x ed1, base = some (x, ed1) ∧ 0 ∉ ed1.xkwd := by
    subst hb
    split
    · exact ⟨_, _, rfl, hk⟩
    · split
      · exact ⟨_, _, rfl, hk⟩
      · split
        · split <;> exact ⟨_, _, rfl, hk⟩
        · split
          · obtain ⟨r, ed', h, hk'⟩ := exSearch_total hre ed loc h0 hk
            rw [h]
            simp only []
            split <;> exact ⟨_, _, rfl, hk'⟩
          · split <;> exact ⟨_, _, rfl, hk⟩
  obtain ⟨x, ed1, hx, hk1⟩ := hbase
  rw [hx]
  simp only []
  split <;> exact ⟨_, _, rfl, hk1⟩

theorem reRead_go_suffix' (delim : Nat) : ∀ (f : Nat) (s acc : Bytes), (reRead.go delim f s acc).2 <:+ s := by
  intro f
  induction f with
  | zero => intro s acc; rw [reRead.go]; exact List.suffix_refl _
  | succ f ih =>
    intro s acc
    cases s with
    | nil => rw [reRead.go]; exact List.suffix_refl _
    | cons c r =>
      rw [reRead.go]
      split
      · exact List.suffix_cons _ _
      · split
        · exact ((ih (r.drop 1) _).trans (List.drop_suffix 1 r)).trans (List.suffix_cons _ _)
        · exact (ih r _).trans (List.suffix_cons _ _)

theorem reRead_suffix' (s : Bytes) : (reRead s).2 <:+ s := by
  unfold reRead
  cases s with
  | nil => exact List.suffix_refl _
  | cons d r =>
    dsimp only
    exact (reRead_go_suffix' d (r.length + 1) r []).trans (List.suffix_cons _ _)

theorem offs_suffix : ∀ (f : Nat) (n : Int) (s : Bytes), (exLineno.offs f n s).2 <:+ s := by
  intro f
  induction f with
  | zero => intro n s; rw [exLineno.offs]; exact List.suffix_refl _
  | succ f ih =>
    intro n s
    rw [exLineno.offs]
    split
    · exact ((ih _ _).trans (List.dropWhile_suffix _)).trans (List.drop_suffix 1 s)
    · exact List.suffix_refl _

theorem exSearch_rest (ed : Ed) (loc : Bytes) (r : Int × Bytes) (ed' : Ed) (h : exSearch ed loc = some (r, ed')) :
    r.2 = (reRead loc).2 := by
  rw [exSearch_eq] at h
  generalize kwEd ed (reRead loc).1 (if loc.headD 0 == 47 then 1 else -1) = ed1 at h
  simp only [] at h
  split at h
  · cases h; rfl
  · split at h
    · cases h
    · cases h; rfl
    · split at h
      · cases h
      · cases h; rfl

/-- what an address leaves of the text is a suffix of it -/
theorem exLineno_rest_sublist (ed : Ed) (loc : Bytes) (r : Int × Bytes) (ed' : Ed) (h : exLineno ed loc = some (r, ed')) :
    ∀ c ∈ r.2, c ∈ loc := by
  have key : r.2 <:+ loc := by
    unfold exLineno at h
    simp only [] at h
    generalize hb : @ite (R (Int × Bytes)) ((loc.headD 0 == 46) = true) _ _ _ = base at h
    have hbase : ∀ x ed1, base = some (x, ed1) → x.2 <:+ loc := by
      subst hb
      intro x ed1 hx
      split at hx
      · cases hx; exact List.drop_suffix 1 loc
      · split at hx
        · cases hx; exact List.drop_suffix 1 loc
        · split at hx
          · split at hx
            · cases hx; exact List.drop_suffix 1 loc
            · cases hx; exact List.drop_suffix 2 loc
          · split at hx
            · split at hx
              · cases hx
              · rename_i n rest ed2 hs
                have := exSearch_rest _ _ _ _ hs
                simp only [] at this
                split at hx <;> (cases hx; rw [this]; exact reRead_suffix' loc)
            · split at hx
              · cases hx; exact List.dropWhile_suffix _
              · cases hx; exact List.suffix_refl _
    clear hb
    split at h
    · cases h
    · have h1 := hbase _ _ rfl
      simp only [] at h1
      split at h
      · cases h; exact h1
      · cases h
        exact (offs_suffix _ _ _).trans h1
  intro c hc
  exact key.subset hc

theorem exRegion_go_total (hre : ReSafe) : ∀ (f : Nat) (ed : Ed) (loc : Bytes) (naddr : Nat) (b e : Int),
    0 ∉ loc → 0 ∉ ed.xkwd → ∃ r ed', exRegion.go f ed loc naddr b e = some (r, ed') ∧ 0 ∉ ed'.xkwd := by
  intro f
  induction f with
  | zero => intro ed loc naddr b e _ hk; exact ⟨_, _, rfl, hk⟩
  | succ f ih =>
    intro ed loc naddr b e h0 hk
    rw [exRegion.go]
    simp only []
    split
    · exact ⟨_, _, rfl, hk⟩
    · obtain ⟨r, ed', h, hk'⟩ := exLineno_total hre ed loc h0 hk
      rw [h]
      simp only []
      have hrest := exLineno_rest_sublist ed loc r ed' h
      split
      · exact ⟨_, _, rfl, hk'⟩
      · split
        · exact ⟨_, _, rfl, hk'⟩
        · refine ih _ _ _ _ _ ?_ ?_
          · intro hm
            exact h0 (hrest 0 ((List.dropWhile_suffix _).subset (List.mem_of_mem_drop hm)))
          · split <;> exact hk'

/-- **`ex_region` never traps** (given the matcher) -/
theorem exRegion_total (hre : ReSafe) (ed : Ed) (loc : Bytes) (h0 : 0 ∉ loc) (hk : 0 ∉ ed.xkwd) :
    ∃ rc b e ed', exRegion ed loc = some ((rc, b, e), ed') ∧ 0 ∉ ed'.xkwd := by
  unfold exRegion
  simp only []
  split
  · exact ⟨_, _, _, _, rfl, hk⟩
  · split
    · exact ⟨_, _, _, _, rfl, hk⟩
    · obtain ⟨r, ed', h, hk'⟩ := exRegion_go_total hre (loc.length + 1) ed loc 0 0 0 h0 hk
      rw [h]
      simp only []
      repeat' split
      all_goals exact ⟨_, _, _, _, rfl, hk'⟩

end Neatvi.Lemmas.C05e
