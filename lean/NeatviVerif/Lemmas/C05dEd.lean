import NeatviVerif.Lemmas.C05dLb
import NeatviVerif.Lemmas.ExFrame
import NeatviVerif.Lemmas.C02Ex
import NeatviVerif.Lemmas.C05bRegion
import NeatviVerif.Props.C20
/-!
# C05d lemmas, part 2: the position invariant of the ex layer and the primitive operations on the state

`PosOk ed`: the current row is at least `-1`, the current column at least `0`, every buffer of the table keeps its
marks inside itself (`LbPos`) and its parked row / column at least `-1` / `0`.
-/
namespace Neatvi.Lemmas.C05d
open Neatvi Neatvi.Lbuf Neatvi.LbufIo Neatvi.Ex Neatvi.Spec Neatvi.Lemmas.ExFrame Neatvi.Lemmas.C02Ex
open Neatvi.Lemmas.Hist

/-- a row under the cap `M`: at least `-1`, and at most `m` when `M = some m` (`M = none`: no upper bound) -/
def RowOk (M : Option Int) (r : Int) : Prop := -1 ≤ r ∧ ∀ m, M = some m → r ≤ m

/-- the number `n` (a buffer length) is under the cap -/
def LenLe (M : Option Int) (n : Int) : Prop := ∀ m, M = some m → n ≤ m

theorem lenLe_none (n : Int) : LenLe none n := by intro m h; cases h

theorem rowOk_none {r : Int} (h : -1 ≤ r) : RowOk none r := ⟨h, by intro m hm; cases hm⟩

/-- a row of a buffer whose length is under the cap -/
theorem RowOk.of_le {M : Option Int} {r n : Int} (h0 : -1 ≤ r) (h1 : r ≤ n) (hn : LenLe M n) : RowOk M r :=
  ⟨h0, fun m hm => Int.le_trans h1 (hn m hm)⟩

/-- a slot of the buffer table: its line buffer keeps its marks inside, the row and column parked by
    `bufs_save()` are at least `-1` and `0` (the row under the cap) -/
structure BufPos (M : Option Int) (b : Buf) : Prop where
  lb : LbPos b.lb
  row : RowOk M b.row
  off : 0 ≤ b.off

/-- the table part of the invariant -/
def TabPos (M : Option Int) (bufs : List (Option Buf)) : Prop := ∀ b, some b ∈ bufs → BufPos M b

/-- **the position invariant of the ex layer**, with an optional cap `M` on the rows (a cap is at least `NUMMAX`,
    the largest line number an address can set the current row to) -/
structure PosOk (M : Option Int) (ed : Ed) : Prop where
  cap : ∀ m, M = some m → NUMMAX ≤ m
  xrow : RowOk M ed.xrow
  xoff : 0 ≤ ed.xoff
  tab : TabPos M ed.bufs

theorem PosOk.row_zero {M : Option Int} {ed : Ed} (h : PosOk M ed) : RowOk M 0 :=
  ⟨by decide, fun m hm => by have := h.cap m hm; unfold NUMMAX at this; omega⟩

/-- the first line of a region (`exRegion_ok`) -/
theorem PosOk.row_reg {M : Option Int} {ed : Ed} (h : PosOk M ed) {b : Int} (h0 : -1 ≤ b)
    (h1 : b ≤ max NUMMAX ed.xrow) : RowOk M b :=
  ⟨h0, fun m hm => by have a := h.cap m hm; have c := h.xrow.2 m hm; omega⟩

/-- a line number delivered by `ex_lineno` -/
theorem PosOk.row_num {M : Option Int} {ed : Ed} (h : PosOk M ed) {r : Int} (h0 : -1 ≤ r) (h1 : r ≤ NUMMAX) : RowOk M r :=
  ⟨h0, fun m hm => Int.le_trans h1 (h.cap m hm)⟩

variable {M : Option Int}

/-- `ed'` differs from `ed` in nothing the invariant reads -/
def Fr (ed ed' : Ed) : Prop := ed'.bufs = ed.bufs ∧ ed'.xrow = ed.xrow ∧ ed'.xoff = ed.xoff

theorem Fr.refl (ed : Ed) : Fr ed ed := ⟨rfl, rfl, rfl⟩
theorem Fr.trans {a b c : Ed} (h1 : Fr a b) (h2 : Fr b c) : Fr a c :=
  ⟨h2.1.trans h1.1, h2.2.1.trans h1.2.1, h2.2.2.trans h1.2.2⟩
theorem Fr.len {a b : Ed} (h : Fr a b) : b.len = a.len := len_of_bufs h.1
theorem Fr.lb {a b : Ed} (h : Fr a b) : b.lb = a.lb := lb_of_bufs h.1
theorem Fr.cur {a b : Ed} (h : Fr a b) : b.cur = a.cur := cur_congr h.1

theorem PosOk.fr {ed ed' : Ed} (h : PosOk M ed) (f : Fr ed ed') : PosOk M ed' :=
  ⟨h.cap, by rw [f.2.1]; exact h.xrow, by rw [f.2.2]; exact h.xoff, by rw [f.1]; exact h.tab⟩

theorem PosOk.to {ed ed' : Ed} (h : PosOk M ed) (h1 : ed'.bufs = ed.bufs) (h2 : ed'.xrow = ed.xrow)
    (h3 : ed'.xoff = ed.xoff) : PosOk M ed' := h.fr ⟨h1, h2, h3⟩

/-- a new current row -/
theorem PosOk.row {ed ed' : Ed} (h : PosOk M ed) (h1 : ed'.bufs = ed.bufs) (h2 : RowOk M ed'.xrow)
    (h3 : ed'.xoff = ed.xoff) : PosOk M ed' :=
  ⟨h.cap, h2, by rw [h3]; exact h.xoff, by rw [h1]; exact h.tab⟩

/-- a new current row and column `0` -/
theorem PosOk.row0 {ed ed' : Ed} (h : PosOk M ed) (h1 : ed'.bufs = ed.bufs) (h2 : RowOk M ed'.xrow)
    (h3 : ed'.xoff = 0) : PosOk M ed' :=
  ⟨h.cap, h2, by rw [h3]; exact Int.le_refl 0, by rw [h1]; exact h.tab⟩

theorem len_nonneg (ed : Ed) : 0 ≤ ed.len := by
  unfold Ed.len; split <;> omega

/-! ### the table -/

theorem tabPos_replicate (n : Nat) : TabPos M (List.replicate n none) := by
  intro b hb
  rw [List.mem_replicate] at hb
  cases hb.2

theorem tabPos_set {bufs : List (Option Buf)} {i : Nat} {x : Buf} (h : TabPos M bufs) (hx : BufPos M x) :
    TabPos M (bufs.set i (some x)) := by
  intro b hb
  rcases List.mem_or_eq_of_mem_set hb with hb | hb
  · exact h b hb
  · cases hb; exact hx

theorem tabPos_getD {bufs : List (Option Buf)} {i : Nat} {b : Buf} (h : TabPos M bufs)
    (hb : bufs.getD i none = some b) : BufPos M b := h b (Props.C20.mem_of_getD _ _ _ hb).1

theorem PosOk.curPos {ed : Ed} {b : Buf} (h : PosOk M ed) (hc : ed.cur = some b) : BufPos M b := tabPos_getD h.tab hc

theorem PosOk.lbPos {ed : Ed} {lb : Lb} (h : PosOk M ed) (hl : ed.lb = some lb) : LbPos lb := by
  unfold Ed.lb at hl
  cases hc : ed.cur with
  | none => rw [hc] at hl; cases hl
  | some b => rw [hc] at hl; cases hl; exact (h.curPos hc).lb

theorem posOk_setCur {ed : Ed} {b : Buf} (h : PosOk M ed) (hb : BufPos M b) : PosOk M (ed.setCur b) :=
  ⟨h.cap, h.xrow, h.xoff, tabPos_set h.tab hb⟩

/-- the line buffer of the current slot replaced by one that keeps its marks inside -/
theorem posOk_setLb {ed : Ed} {lb : Lb} (h : PosOk M ed) (hl : LbPos lb) : PosOk M (ed.setLb lb) := by
  unfold Ed.setLb
  split
  · rename_i b hc
    exact posOk_setCur h ⟨hl, (h.curPos hc).row, (h.curPos hc).off⟩
  · exact h

theorem setLb_fr_pos (ed : Ed) (lb : Lb) : (ed.setLb lb).xrow = ed.xrow ∧ (ed.setLb lb).xoff = ed.xoff := by
  unfold Ed.setLb; split <;> exact ⟨rfl, rfl⟩

theorem posOk_updLb {ed : Ed} (F : Lb → Lb) (hF : ∀ lb, LbPos lb → LbPos (F lb)) (h : PosOk M ed) :
    PosOk M (match ed.lb with | some lb => ed.setLb (F lb) | none => ed) := by
  cases hl : ed.lb with
  | none => exact h
  | some lb => exact posOk_setLb h (hF lb (h.lbPos hl))

/-! ### `lbuf_edit` on the current buffer -/

theorem lbuf_edit_len {lb lb' : Lb} {buf : Option Bytes} {b e : Nat} (he : Lbuf.edit lb buf b e = some lb') :
    min b lb.lines.length ≤ min e lb.lines.length ∧
    lb'.lines.length = lb.lines.length - (min e lb.lines.length - min b lb.lines.length) + (optLines buf).length := by
  unfold Lbuf.edit at he
  simp only [] at he
  split at he
  · cases he
  · rename_i hlt
    split at he
    · rename_i hc
      cases he
      simp only [Bool.and_eq_true, beq_iff_eq, Option.isNone_iff_eq_none] at hc
      obtain ⟨h1, rfl⟩ := hc
      refine ⟨by omega, ?_⟩
      simp only [optLines, List.length_nil]
      omega
    · obtain ⟨_, hl⟩ := replace_lines_length _ _ _ _ _ he
      refine ⟨by omega, ?_⟩
      rw [hl]
      rfl

theorem setLb_len {ed : Ed} {lb0 lb : Lb} (h : ed.lb = some lb0) : (ed.setLb lb).len = lb.lines.length := by
  unfold Ed.len
  rw [setLb_lb, h]
  rfl

/-- `lbuf_edit(xb, s, b, e)`: the invariant is kept, row and column stay, and the new length is known -/
theorem posOk_edit {ed ed' : Ed} {s : Option Bytes} {b e : Int} (h : PosOk M ed) (he : ed.edit s b e = some ed') :
    PosOk M ed' ∧ ed'.xrow = ed.xrow ∧ ed'.xoff = ed.xoff ∧ 0 ≤ b ∧ 0 ≤ e ∧ min b ed.len ≤ min e ed.len ∧
      ed'.len = ed.len - (min e ed.len - min b ed.len) + (optLines s).length := by
  obtain ⟨hb, he0, lb, lb', hlb, hed, rfl, _⟩ := Ed_edit_some he
  obtain ⟨h1, h2⟩ := lbuf_edit_len hed
  have hlen : ed.len = lb.lines.length := by unfold Ed.len; rw [hlb]
  refine ⟨posOk_setLb h (lbPos_edit (h.lbPos hlb) _ _ _ hed), (setLb_fr_pos ed lb').1, (setLb_fr_pos ed lb').2,
    hb, he0, ?_, ?_⟩
  · rw [hlen]; omega
  · rw [setLb_len hlb, hlen, h2]; omega

/-! ### frames: what does not touch the table, the row, the column -/

theorem fr_show (ed : Ed) (m : Bytes) : Fr ed (ed.show m) := ⟨rfl, rfl, rfl⟩
theorem fr_print (ed : Ed) (m : Bytes) : Fr ed (ed.print m) := ⟨rfl, rfl, rfl⟩
theorem fr_kwdSet (ed : Ed) (k : Option Bytes) (d : Int) : Fr ed (ed.kwdSet k d) := ⟨rfl, rfl, rfl⟩
theorem fr_nextFault (ed : Ed) : Fr ed ed.nextFault.2 := ⟨rfl, rfl, rfl⟩
theorem fr_putFile (ed : Ed) (f : File) : Fr ed (ed.putFile f) := by
  unfold Ed.putFile; split <;> exact ⟨rfl, rfl, rfl⟩

theorem fr_setOpt (ed : Ed) (v : String) (x : Int) : Fr ed (setOpt ed v x) := by
  unfold setOpt
  repeat' split
  all_goals exact ⟨rfl, rfl, rfl⟩

theorem fr_of_kwOnly {ed ed' : Ed} (h : Lemmas.C05b.KwOnly ed ed') : Fr ed ed' := by
  obtain ⟨k, d, rfl⟩ := h
  exact ⟨rfl, rfl, rfl⟩

theorem fr_exLineno {ed ed' : Ed} {loc : Bytes} {r : Int × Bytes} (h : exLineno ed loc = some (r, ed')) : Fr ed ed' :=
  fr_of_kwOnly (Lemmas.C05b.exLineno_kwOnly ed loc r ed' h)

theorem fr_pathExpand {ed ed' : Ed} {src : Bytes} {sp : Bool} {r : Option Bytes}
    (h : pathExpand ed src sp = some (r, ed')) : Fr ed ed' := by
  unfold pathExpand at h
  repeat' (first | split at h | (simp only at h; split at h))
  all_goals (try cases h)
  all_goals (try (simp only [Option.some.injEq, Prod.mk.injEq] at h; rw [← h.2]))
  all_goals (first | exact Fr.refl _ | exact fr_show _ _)

theorem fr_lbufSave {ed ed' : Ed} {lb : Lb} {b : Nat} {e : Int} {path : Bytes} {force : Bool} {ts : Int}
    {r : Option Bytes} (h : lbufSave ed lb b e path force ts = some (r, ed')) : Fr ed ed' := by
  unfold lbufSave at h
  rcases hnf : ed.nextFault with ⟨fo, ed1⟩
  have h1 : Fr ed ed1 := by have := fr_nextFault ed; rw [hnf] at this; exact this
  simp only [hnf] at h
  generalize LbufIo.wrFinal _ _ _ _ _ _ = w at h
  split at h
  · simp only [Option.some.injEq, Prod.mk.injEq] at h; rw [← h.2]; exact Fr.refl _
  · split at h
    · simp only [Option.some.injEq, Prod.mk.injEq] at h; rw [← h.2]; exact Fr.refl _
    · cases hfo : fo == 101
      · simp only [hfo, Bool.false_eq_true, if_false] at h
        cases w with
        | none => cases h
        | some st =>
          simp only at h
          have hp : ∀ (f1 f2 : File) (c1 c2 : Int) (k : Nat),
              Fr ed ({ ({ ed1.putFile f1 with clock := c1 } : Ed).putFile f2 with clock := c2, calls := k } : Ed) := by
            intro f1 f2 c1 c2 k
            have a := fr_putFile ed1 f1
            have b := fr_putFile ({ ed1.putFile f1 with clock := c1 } : Ed) f2
            exact ⟨b.1.trans (a.1.trans h1.1), b.2.1.trans (a.2.1.trans h1.2.1), b.2.2.trans (a.2.2.trans h1.2.2)⟩
          cases hok : st.ok
          · simp only [hok, Bool.not_false, if_true, Option.some.injEq, Prod.mk.injEq] at h
            rw [← h.2]
            exact (hp _ _ _ _ _).trans (fr_nextFault _)
          · simp only [hok, Bool.not_true, Bool.false_eq_true, if_false] at h
            generalize hX : Ed.nextFault _ = nf at h
            have h2 : Fr ed nf.2 := by rw [← hX]; exact (hp _ _ _ _ _).trans (fr_nextFault _)
            obtain ⟨fc, ed2⟩ := nf
            simp only at h h2
            split at h
            · simp only [Option.some.injEq, Prod.mk.injEq] at h; rw [← h.2]; exact h2
            · simp only [Option.some.injEq, Prod.mk.injEq] at h; rw [← h.2]; exact h2
      · simp only [hfo, if_true, Option.some.injEq, Prod.mk.injEq] at h; rw [← h.2]
        exact ⟨h1.1, h1.2.1, h1.2.2⟩

theorem fr_unnamedFail (ed : Ed) : Fr ed (unnamedFail ed) := by
  unfold unnamedFail; split <;> exact ⟨rfl, rfl, rfl⟩

theorem fr_lbufSaveP {ed ed' : Ed} {lb : Lb} {b : Nat} {e : Int} {path : Bytes} {force : Bool} {ts : Int}
    {r : Option Bytes} (h : lbufSaveP ed lb b e path force ts = some (r, ed')) : Fr ed ed' := by
  by_cases hp : path = []
  · subst hp
    rw [(lbufSaveP_empty_err _ _ _ _ _ _ _ _ h).2]
    exact fr_unnamedFail ed
  · rw [lbufSaveP_of_ne hp] at h
    exact fr_lbufSave h

/-! ### `ex_region` -/

/-- what address evaluation does to the state: the table and the column stay, the row stays or (after `;`) is a
    line number `ex_lineno` delivered, in `[-1, NUMMAX]` -/
def RegFr (ed ed' : Ed) : Prop :=
  ed'.bufs = ed.bufs ∧ ed'.xoff = ed.xoff ∧ (ed'.xrow = ed.xrow ∨ (-1 ≤ ed'.xrow ∧ ed'.xrow ≤ NUMMAX))

theorem RegFr.len {a b : Ed} (h : RegFr a b) : b.len = a.len := len_of_bufs h.1

theorem PosOk.reg {ed ed' : Ed} (h : PosOk M ed) (f : RegFr ed ed') : PosOk M ed' := by
  refine ⟨h.cap, ?_, by rw [f.2.1]; exact h.xoff, by rw [f.1]; exact h.tab⟩
  rcases f.2.2 with e | e
  · rw [e]; exact h.xrow
  · exact h.row_num e.1 e.2

theorem regFr_go : ∀ (f : Nat) (ed ed' : Ed) (loc : Bytes) (na : Nat) (b e : Int) (r : Int × Int),
    exRegion.go f ed loc na b e = some (r, ed') → b ≤ NUMMAX → e ≤ NUMMAX + 1 →
    RegFr ed ed' ∧ r.1 ≤ NUMMAX ∧ r.2 ≤ NUMMAX + 1 := by
  intro f
  induction f with
  | zero =>
    intro ed ed' loc na b e r h hb he
    rw [exRegion.go.eq_1] at h
    cases h; exact ⟨⟨rfl, rfl, Or.inl rfl⟩, hb, he⟩
  | succ f ih =>
    intro ed ed' loc na b e r h hb he
    rw [exRegion.go.eq_2] at h
    split at h
    · cases h; exact ⟨⟨rfl, rfl, Or.inl rfl⟩, hb, he⟩
    · split at h
      · cases h
      · rename_i n rest ed1 hl
        have h1 := fr_exLineno hl
        have hn := Lemmas.C05b.exLineno_bounded _ _ _ _ _ hl
        have r1 : RegFr ed ed1 := ⟨h1.1, h1.2.2, Or.inl h1.2.1⟩
        have hN : (0 : Int) ≤ NUMMAX := by decide
        split at h
        · cases h; exact ⟨r1, by show (-7 : Int) ≤ NUMMAX; omega, by show (-7 : Int) ≤ NUMMAX + 1; omega⟩
        · rename_i hn1
          simp only at h
          have hb' : (if (na != 0) = true then e - 1 else n + 1 - 1) ≤ NUMMAX := by split <;> omega
          split at h
          · cases h
            exact ⟨r1, hb', by show n + 1 ≤ NUMMAX + 1; omega⟩
          · obtain ⟨r2, q1, q2⟩ := ih _ _ _ _ _ _ _ h hb' (by omega)
            refine ⟨⟨?_, ?_, ?_⟩, q1, q2⟩
            · rw [r2.1]; split <;> exact h1.1
            · rw [r2.2.1]; split <;> exact h1.2.2
            · rcases r2.2.2 with e2 | e2
              · rw [e2]
                split
                · right
                  show -1 ≤ n + 1 - 1 ∧ n + 1 - 1 ≤ NUMMAX
                  omega
                · left; exact h1.2.1
              · exact Or.inr e2

/-- `ex_region`: the effect on the state, the region it delivers when it succeeds, and a bound on `beg` -/
theorem exRegion_ok {ed ed' : Ed} {loc : Bytes} {rc : Nat} {b e : Int}
    (h : exRegion ed loc = some ((rc, b, e), ed')) :
    RegFr ed ed' ∧ (rc = 0 → 0 ≤ b ∧ b ≤ e ∧ e ≤ ed'.len) ∧ b ≤ max NUMMAX ed.xrow := by
  unfold exRegion at h
  simp only at h
  have hl := len_nonneg ed
  have hN : (0 : Int) ≤ NUMMAX := by decide
  split at h
  · simp only [Option.some.injEq, Prod.mk.injEq] at h
    obtain ⟨⟨_, rfl, rfl⟩, rfl⟩ := h
    exact ⟨⟨rfl, rfl, Or.inl rfl⟩, fun _ => by omega, by omega⟩
  · split at h
    · simp only [Option.some.injEq, Prod.mk.injEq] at h
      obtain ⟨⟨_, rfl, rfl⟩, rfl⟩ := h
      refine ⟨⟨rfl, rfl, Or.inl rfl⟩, fun _ => ?_, by omega⟩
      split
      · rename_i hc
        simp only [beq_iff_eq] at hc
        omega
      · rename_i hc
        simp only [beq_iff_eq] at hc
        omega
    · split at h
      · cases h
      · rename_i b0 e0 ed1 hg
        obtain ⟨h1, q1, q2⟩ := regFr_go _ _ _ _ _ _ _ _ hg hN (by omega)
        have q1' : b0 ≤ NUMMAX := q1
        have hl1 := len_nonneg ed1
        repeat' split at h
        all_goals
          simp only [Option.some.injEq, Prod.mk.injEq] at h
          obtain ⟨⟨rfl, rfl, rfl⟩, rfl⟩ := h
          refine ⟨h1, fun h0 => ?_, ?_⟩
        all_goals first
          | (exact absurd h0 (by decide))
          | omega
          | (split <;> omega)
          | skip
        all_goals
          rename_i h4 h5 h6
          simp only [Bool.or_eq_true, decide_eq_true_eq, not_or, Int.not_lt, ge_iff_le] at h4 h5 h6
          omega

/-! ### the counter bump and the guards -/

theorem lbPos_bumpBuf {b : Buf} (h : BufPos M b) : BufPos M { b with lb := (modified b.lb).2 } :=
  ⟨lbPos_modified h.lb, h.row, h.off⟩

theorem posOk_modifiedAt {ed : Ed} (idx : Nat) (h : PosOk M ed) :
    PosOk M (ed.modifiedAt idx).2 ∧ (ed.modifiedAt idx).2.xrow = ed.xrow ∧ (ed.modifiedAt idx).2.xoff = ed.xoff := by
  unfold Ed.modifiedAt
  cases hb : ed.bufs.getD idx none with
  | none => exact ⟨h, rfl, rfl⟩
  | some b => exact ⟨⟨h.cap, h.xrow, h.xoff, tabPos_set h.tab (lbPos_bumpBuf (tabPos_getD h.tab hb))⟩, rfl, rfl⟩

theorem modifiedAt_len (ed : Ed) (idx : Nat) : (ed.modifiedAt idx).2.len = ed.len := by
  unfold Ed.modifiedAt
  cases hb : ed.bufs.getD idx none with
  | none => rfl
  | some b =>
    simp only []
    unfold Ed.len Ed.lb Ed.cur
    cases idx with
    | zero =>
      cases hbs : ed.bufs with
      | nil => rw [hbs] at hb; simp at hb
      | cons a l =>
        rw [hbs] at hb
        simp at hb
        subst hb
        simp [modified]
    | succ i =>
      cases hbs : ed.bufs with
      | nil => rfl
      | cons a l => simp

theorem posOk_bufsModified {ed ed' : Ed} {idx : Nat} {msg : Option Bytes} {r : Bool} (h : PosOk M ed)
    (hm : bufsModified ed idx msg = some (r, ed')) :
    PosOk M ed' ∧ ed'.xrow = ed.xrow ∧ ed'.xoff = ed.xoff ∧ ed'.len = ed.len := by
  unfold bufsModified at hm
  have h1 := posOk_modifiedAt idx h
  have hl1 := modifiedAt_len ed idx
  generalize ed.modifiedAt idx = p at hm h1 hl1
  obtain ⟨m, ed1⟩ := p
  simp only [] at hm h1 hl1
  split at hm
  · cases hm; exact ⟨h, rfl, rfl, rfl⟩
  · split at hm
    · cases hm; exact ⟨h1.1, h1.2.1, h1.2.2, hl1⟩
    · split at hm
      · cases hm
      · split at hm
        · split at hm
          · cases hm
          · rename_i hs
            cases hm
            have f := fr_lbufSave hs
            exact ⟨h1.1.fr f, f.2.1.trans h1.2.1, f.2.2.trans h1.2.2, f.len.trans hl1⟩
        · cases hm
          split
          · exact ⟨h1.1.fr (fr_show _ _), h1.2.1, h1.2.2, hl1⟩
          · exact ⟨h1.1, h1.2.1, h1.2.2, hl1⟩

/-- the guard `if c then bufs_modified(...) else pass` -/
theorem posOk_guard {ed ed' : Ed} {c : Prop} [Decidable c] {idx : Nat} {msg : Option Bytes} {r : Bool} (h : PosOk M ed)
    (hg : (if c then bufsModified ed idx msg else some (false, ed) : R Bool) = some (r, ed')) :
    PosOk M ed' ∧ ed'.xrow = ed.xrow ∧ ed'.xoff = ed.xoff ∧ ed'.len = ed.len := by
  split at hg
  · exact posOk_bufsModified h hg
  · cases hg; exact ⟨h, rfl, rfl, rfl⟩

/-! ### `bufs_switch`, `bufs_open`, `bufs_shift`, `bufs_load` -/

theorem posOk_bufsLoad {ed : Ed} (h0 : PosOk M ed) : PosOk M ed.bufsLoad := by
  have h := h0.tab
  unfold Ed.bufsLoad
  split
  · rename_i b hc
    have hb := tabPos_getD h hc
    exact ⟨h0.cap, hb.row, hb.off, h⟩
  · exact ⟨h0.cap, h0.row_zero, by show (0 : Int) ≤ 0; decide, h⟩

/-- `bufs_load()` after the table was replaced -/
theorem posOk_bufsLoad' {ed : Ed} (bufs : List (Option Buf)) (h0 : PosOk M ed) (h : TabPos M bufs) :
    PosOk M ({ ed with bufs := bufs } : Ed).bufsLoad :=
  posOk_bufsLoad ⟨h0.cap, h0.xrow, h0.xoff, h⟩

theorem leftBufs_tabPos {ed : Ed} (h : PosOk M ed) : TabPos M (Props.C20.leftBufs ed) := by
  unfold Props.C20.leftBufs
  split
  · rename_i b hb
    refine tabPos_set h.tab ?_
    have := tabPos_getD h.tab hb
    exact ⟨lbPos_modified this.lb, h.xrow, h.xoff⟩
  · exact h.tab

theorem posOk_bufsSwitch {ed : Ed} (idx : Nat) (h : PosOk M ed) : PosOk M (ed.bufsSwitch idx) := by
  rw [Props.C20.switch_def]
  have hmid : PosOk M (Props.C20.mid ed) := by
    refine ⟨h.cap, ?_, ?_, by rw [Props.C20.mid_bufs]; exact leftBufs_tabPos h⟩
    · have e : (Props.C20.mid ed).xrow = ed.xrow := by
        unfold Props.C20.mid Ed.bufsSave Ed.setCur
        repeat' split
        all_goals rfl
      rw [e]; exact h.xrow
    · have e : (Props.C20.mid ed).xoff = ed.xoff := by
        unfold Props.C20.mid Ed.bufsSave Ed.setCur
        repeat' split
        all_goals rfl
      rw [e]; exact h.xoff
  apply posOk_bufsLoad' _ hmid
  show TabPos M ([(Props.C20.mid ed).bufs.getD idx none] ++ (Props.C20.mid ed).bufs.take idx ++
    (Props.C20.mid ed).bufs.drop (idx + 1))
  rw [Props.C20.mid_bufs]
  have hs := leftBufs_tabPos h
  intro b hb
  simp only [List.mem_append, List.mem_singleton] at hb
  rcases hb with (hb | hb) | hb
  · exact tabPos_getD hs hb.symm
  · exact hs b (List.mem_of_mem_take hb)
  · exact hs b (List.mem_of_mem_drop hb)

theorem bufPos_fresh {ed : Ed} (h : PosOk M ed) (p : Bytes) (id : Int) : BufPos M { path := p, lb := Lbuf.make, id := id } :=
  ⟨lbPos_make, h.row_zero, by show (0 : Int) ≤ 0; decide⟩

theorem posOk_bufsOpen {ed : Ed} (p : Bytes) (h : PosOk M ed) : PosOk M (ed.bufsOpen p).2 := by
  unfold Ed.bufsOpen
  exact ⟨h.cap, h.xrow, h.xoff, tabPos_set h.tab (bufPos_fresh h _ _)⟩

theorem posOk_bufsShift {ed : Ed} (h : PosOk M ed) : PosOk M ed.bufsShift := by
  unfold Ed.bufsShift
  apply posOk_bufsLoad' _ h
  show TabPos M (ed.bufs.drop 1 ++ [none])
  intro b hb
  simp only [List.mem_append, List.mem_singleton, reduceCtorEq, or_false] at hb
  exact h.tab b (List.mem_of_mem_drop hb)

/-- a table with the same line buffers, rows and columns slot by slot (the renumbering of `:b ~`) -/
theorem renumber_tabPos : ∀ (l : List (Option Buf)) (acc : List (Option Buf)) (n : Int), TabPos M acc → TabPos M l →
    TabPos M ((l.foldl (fun (acc : List (Option Buf) × Int) b =>
      match b with
      | some x => (acc.1 ++ [some { x with id := acc.2 + 1 }], acc.2 + 1)
      | none => (acc.1 ++ [none], acc.2)) (acc, n)).1) := by
  intro l
  induction l with
  | nil => intro acc n ha _; exact ha
  | cons a l ih =>
    intro acc n ha hl
    rw [List.foldl_cons]
    have hl' : TabPos M l := fun b hb => hl b (List.mem_cons_of_mem _ hb)
    cases a with
    | none =>
      refine ih _ _ ?_ hl'
      intro b hb
      simp only [List.mem_append, List.mem_singleton, reduceCtorEq, or_false] at hb
      exact ha b hb
    | some x =>
      refine ih _ _ ?_ hl'
      intro b hb
      simp only [List.mem_append, List.mem_singleton, Option.some.injEq] at hb
      rcases hb with hb | rfl
      · exact ha b hb
      · have hx := hl x (List.mem_cons_self)
        exact ⟨hx.lb, hx.row, hx.off⟩

end Neatvi.Lemmas.C05d
