import NeatviVerif.Lemmas.C09bCount
/-!
# C09c: equality of editor states up to a monotone renumbering of the undo sequence numbers

`lbuf.c` stamps every undo record with the value of the counter `useq` and bumps that counter in
`lbuf_modified()`.  The numbers are only ever *compared*: `lbuf_undo` / `lbuf_redo` group the records that carry the
same number, `lbuf_modified` compares the number at the undo position with `useq_zero` (the dirty flag), and a new
record takes the current value of the counter.  So two states that agree in everything but these numbers behave
alike, provided the numbers are *order-isomorphic* and the counter is the largest of them on both sides.

* `LbRel w a b` — two line buffers: same lines, marks, glob marks, undo position, same undo records but for `seq`;
  the pairs `(n, n')` of corresponding numbers (`SeqP`: the counter, `useq_zero`, `useq_last`, the records) are
  ordered alike (`p.1 ≤ q.1 ↔ p.2 ≤ q.2`: order preserving **and** group preserving) and lie below the counters.
  With `w = true` the mark `^` (index 30) is exempt.
* `EdRel w a b` — two `ex` states: every field but the buffer table equal; the tables related slot by slot (the
  exemption `w` concerns the current buffer only).
* `Sim w s t` — two `vi` states: `EdRel w` on `ed`, every other field equal.
-/
namespace Neatvi.Lemmas.C09c
open Neatvi Neatvi.Lbuf Neatvi.Ex Neatvi.Vi

/-! ### lists related element by element -/

inductive All2 {α β : Type} (R : α → β → Prop) : List α → List β → Prop where
  | nil : All2 R [] []
  | cons {a : α} {b : β} {l : List α} {l' : List β} : R a b → All2 R l l' → All2 R (a :: l) (b :: l')

namespace All2
variable {α β : Type} {R : α → β → Prop}

theorem length_eq {l : List α} {l' : List β} (h : All2 R l l') : l.length = l'.length := by
  induction h with
  | nil => rfl
  | cons _ _ ih => simp [ih]

theorem imp {S : α → β → Prop} (hRS : ∀ a b, R a b → S a b) {l : List α} {l' : List β} (h : All2 R l l') :
    All2 S l l' := by
  induction h with
  | nil => exact nil
  | cons h1 _ ih => exact cons (hRS _ _ h1) ih

theorem getElem? {l : List α} {l' : List β} (h : All2 R l l') (i : Nat) :
    (l[i]? = none ∧ l'[i]? = none) ∨ ∃ a b, l[i]? = some a ∧ l'[i]? = some b ∧ R a b := by
  induction h generalizing i with
  | nil => left; simp
  | cons h1 _ ih =>
    cases i with
    | zero => right; exact ⟨_, _, by simp, by simp, h1⟩
    | succ i => simpa using ih i

theorem getD {l : List α} {l' : List β} (h : All2 R l l') {d : α} {d' : β} (hd : R d d') (i : Nat) :
    R (l.getD i d) (l'.getD i d') := by
  rw [List.getD_eq_getElem?_getD, List.getD_eq_getElem?_getD]
  rcases h.getElem? i with ⟨h1, h2⟩ | ⟨a, b, h1, h2, h3⟩
  · rw [h1, h2]; exact hd
  · rw [h1, h2]; exact h3

theorem set {l : List α} {l' : List β} (h : All2 R l l') (i : Nat) {a : α} {b : β} (hab : R a b) :
    All2 R (l.set i a) (l'.set i b) := by
  induction h generalizing i with
  | nil => exact nil
  | cons h1 h2 ih =>
    cases i with
    | zero => exact cons hab h2
    | succ i => exact cons h1 (ih i)

theorem take {l : List α} {l' : List β} (h : All2 R l l') (n : Nat) : All2 R (l.take n) (l'.take n) := by
  induction h generalizing n with
  | nil => simpa using nil
  | cons h1 _ ih =>
    cases n with
    | zero => exact nil
    | succ n => exact cons h1 (ih n)

theorem drop {l : List α} {l' : List β} (h : All2 R l l') (n : Nat) : All2 R (l.drop n) (l'.drop n) := by
  induction h generalizing n with
  | nil => simpa using nil
  | cons h1 h2 ih =>
    cases n with
    | zero => exact cons h1 h2
    | succ n => exact ih n

theorem append {l1 l2 : List α} {l1' l2' : List β} (h1 : All2 R l1 l1') (h2 : All2 R l2 l2') :
    All2 R (l1 ++ l2) (l1' ++ l2') := by
  induction h1 with
  | nil => exact h2
  | cons h _ ih => exact cons h ih

theorem replicate (n : Nat) {a : α} {b : β} (h : R a b) : All2 R (List.replicate n a) (List.replicate n b) := by
  induction n with
  | zero => exact nil
  | succ n ih => exact cons h ih

theorem refl {R : α → α → Prop} (l : List α) (h : ∀ a ∈ l, R a a) : All2 R l l := by
  induction l with
  | nil => exact nil
  | cons a l ih => exact cons (h a (by simp)) (ih fun x hx => h x (by simp [hx]))

theorem single {a : α} {b : β} (h : R a b) : All2 R [a] [b] := cons h nil

end All2

/-! ### line buffers -/

/-- two undo records that differ at most in their sequence number -/
structure EntRel (e e' : Entry) : Prop where
  pos : e.pos = e'.pos
  nIns : e.nIns = e'.nIns
  nDel : e.nDel = e'.nDel
  ins : e.ins = e'.ins
  del : e.del = e'.del
  posOff : e.posOff = e'.posOff
  marks : e.marks = e'.marks

theorem EntRel.rfl' (e : Entry) : EntRel e e := ⟨rfl, rfl, rfl, rfl, rfl, rfl, rfl⟩

/-- the pairs of sequence numbers of corresponding undo records -/
inductive HP : List Entry → List Entry → Nat × Nat → Prop where
  | head {e e' : Entry} {l l' : List Entry} : HP (e :: l) (e' :: l') (e.seq, e'.seq)
  | tail {e e' : Entry} {l l' : List Entry} {p : Nat × Nat} : HP l l' p → HP (e :: l) (e' :: l') p

theorem HP.of_take {l l' : List Entry} {p : Nat × Nat} (n : Nat) (h : HP (l.take n) (l'.take n) p) : HP l l' p := by
  induction n generalizing l l' with
  | zero => simp at h; cases h
  | succ n ih =>
    cases l with
    | nil => simp at h; cases h
    | cons e l =>
      cases l' with
      | nil => simp at h; cases h
      | cons e' l' =>
        simp only [List.take_succ_cons] at h
        cases h with
        | head => exact HP.head
        | tail h => exact HP.tail (ih h)

theorem HP.of_append_single {l l' : List Entry} {e e' : Entry} {p : Nat × Nat} (hl : l.length = l'.length)
    (h : HP (l ++ [e]) (l' ++ [e']) p) : HP l l' p ∨ p = (e.seq, e'.seq) := by
  induction l generalizing l' with
  | nil =>
    cases l' with
    | nil =>
      cases h with
      | head => right; rfl
      | tail h => cases h
    | cons _ _ => simp at hl
  | cons a l ih =>
    cases l' with
    | nil => simp at hl
    | cons a' l' =>
      simp only [List.cons_append] at h
      cases h with
      | head => left; exact HP.head
      | tail h =>
        rcases ih (by simpa using hl) h with h | h
        · left; exact HP.tail h
        · right; exact h

theorem HP.of_getElem {l l' : List Entry} {e e' : Entry} (i : Nat) (h : l[i]? = some e) (h' : l'[i]? = some e') :
    HP l l' (e.seq, e'.seq) := by
  induction l generalizing l' i with
  | nil => simp at h
  | cons a l ih =>
    cases l' with
    | nil => simp at h'
    | cons a' l' =>
      cases i with
      | zero =>
        simp at h h'
        subst h h'
        exact HP.head
      | succ i => exact HP.tail (ih i (by simpa using h) (by simpa using h'))

theorem HP.refl_aux {l l2 : List Entry} {p : Nat × Nat} (h : HP l l2 p) (e : l = l2) :
    p.1 = p.2 ∧ ∃ x ∈ l, x.seq = p.1 := by
  induction h with
  | head => cases e; exact ⟨rfl, _, by simp, rfl⟩
  | tail _ ih =>
    cases e
    obtain ⟨h1, x, hx, h2⟩ := ih rfl
    exact ⟨h1, x, by simp [hx], h2⟩

theorem HP.refl_mem {l : List Entry} {p : Nat × Nat} (h : HP l l p) : p.1 = p.2 ∧ ∃ e ∈ l, e.seq = p.1 :=
  h.refl_aux rfl

theorem HP.of_mem {l : List Entry} {e : Entry} (h : e ∈ l) : HP l l (e.seq, e.seq) := by
  induction l with
  | nil => cases h
  | cons a l ih =>
    rcases List.mem_cons.mp h with rfl | h
    · exact HP.head
    · exact HP.tail (ih h)

/-- the pairs of corresponding sequence numbers of two line buffers -/
def SeqP (a b : Lb) (p : Nat × Nat) : Prop :=
  p = (a.useq, b.useq) ∨ p = (a.useqZero, b.useqZero) ∨ p = (a.useqLast, b.useqLast) ∨ HP a.hist b.hist p

/-- `l` with the mark `^` overwritten when `w` -/
def wset (w : Bool) (l : List Int) (p : Int) : List Int := if w then l.set 30 p else l

/-- **two line buffers that are equal up to a monotone renumbering of their sequence numbers** -/
structure LbRel (w : Bool) (a b : Lb) : Prop where
  lines : a.lines = b.lines
  glob : a.glob = b.glob
  lnSz : a.lnSz = b.lnSz
  mark : ∀ p, wset w a.mark p = wset w b.mark p
  markOff : ∀ p, wset w a.markOff p = wset w b.markOff p
  histSz : a.histSz = b.histSz
  histU : a.histU = b.histU
  unsaved : a.unsaved = b.unsaved
  hist : All2 EntRel a.hist b.hist
  /-- order preserving and group preserving -/
  ord : ∀ p q, SeqP a b p → SeqP a b q → (p.1 ≤ q.1 ↔ p.2 ≤ q.2)
  /-- the counters are the largest numbers -/
  top : ∀ p, SeqP a b p → p.1 ≤ a.useq ∧ p.2 ≤ b.useq

/-- the sequence numbers of a line buffer lie below its counter -/
def SeqOk (a : Lb) : Prop := a.useqZero ≤ a.useq ∧ a.useqLast ≤ a.useq ∧ ∀ e ∈ a.hist, e.seq ≤ a.useq

theorem seqP_refl {a : Lb} {p : Nat × Nat} (h : SeqP a a p) :
    p.1 = p.2 ∧ (p.1 = a.useq ∨ p.1 = a.useqZero ∨ p.1 = a.useqLast ∨ ∃ e ∈ a.hist, e.seq = p.1) := by
  rcases h with rfl | rfl | rfl | h
  · exact ⟨rfl, Or.inl rfl⟩
  · exact ⟨rfl, Or.inr (Or.inl rfl)⟩
  · exact ⟨rfl, Or.inr (Or.inr (Or.inl rfl))⟩
  · exact ⟨h.refl_mem.1, Or.inr (Or.inr (Or.inr h.refl_mem.2))⟩

theorem LbRel.refl {a : Lb} (h : SeqOk a) (w : Bool) : LbRel w a a := by
  refine ⟨rfl, rfl, rfl, fun _ => rfl, fun _ => rfl, rfl, rfl, rfl, All2.refl _ fun e _ => EntRel.rfl' e, ?_, ?_⟩
  · intro p q hp hq
    rw [(seqP_refl hp).1, (seqP_refl hq).1]
  · intro p hp
    obtain ⟨h1, h2⟩ := seqP_refl hp
    rw [← h1]
    obtain ⟨z, l, hh⟩ := h
    rcases h2 with h2 | h2 | h2 | ⟨e, he, h2⟩
    · omega
    · omega
    · omega
    · have := hh e he; omega

theorem LbRel.seqOk_left {w : Bool} {a b : Lb} (h : LbRel w a b) : SeqOk a := by
  refine ⟨(h.top _ (Or.inr (Or.inl rfl))).1, (h.top _ (Or.inr (Or.inr (Or.inl rfl)))).1, fun e he => ?_⟩
  obtain ⟨i, hi⟩ := List.getElem?_of_mem he
  rcases h.hist.getElem? i with ⟨h1, _⟩ | ⟨x, y, h1, h2, _⟩
  · rw [h1] at hi; cases hi
  · rw [h1] at hi; cases hi
    exact (h.top _ (Or.inr (Or.inr (Or.inr (HP.of_getElem i h1 h2))))).1

theorem LbRel.seqOk_right {w : Bool} {a b : Lb} (h : LbRel w a b) : SeqOk b := by
  refine ⟨(h.top _ (Or.inr (Or.inl rfl))).2, (h.top _ (Or.inr (Or.inr (Or.inl rfl)))).2, fun e he => ?_⟩
  obtain ⟨i, hi⟩ := List.getElem?_of_mem he
  rcases h.hist.getElem? i with ⟨_, h1⟩ | ⟨x, y, h1, h2, _⟩
  · rw [h1] at hi; cases hi
  · rw [h2] at hi; cases hi
    exact (h.top _ (Or.inr (Or.inr (Or.inr (HP.of_getElem i h1 h2))))).2

theorem wset_false (l : List Int) (p : Int) : wset false l p = l := rfl

theorem LbRel.mark_eq {a b : Lb} (h : LbRel false a b) : a.mark = b.mark := h.mark 0
theorem LbRel.markOff_eq {a b : Lb} (h : LbRel false a b) : a.markOff = b.markOff := h.markOff 0

/-- the strong relation implies the weak one -/
theorem LbRel.weaken {a b : Lb} (h : LbRel false a b) (w : Bool) : LbRel w a b :=
  { h with
    mark := fun p => by rw [h.mark_eq]
    markOff := fun p => by rw [h.markOff_eq] }

/-- equal numbers correspond to equal numbers -/
theorem LbRel.eq_iff {w : Bool} {a b : Lb} (h : LbRel w a b) {p q : Nat × Nat} (hp : SeqP a b p) (hq : SeqP a b q) :
    p.1 = q.1 ↔ p.2 = q.2 := by
  have h1 := h.ord p q hp hq
  have h2 := h.ord q p hq hp
  omega

/-! ### the buffer table and the `ex` state -/

structure BufRel (w : Bool) (x y : Buf) : Prop where
  path : x.path = y.path
  lb : LbRel w x.lb y.lb
  row : x.row = y.row
  off : x.off = y.off
  top : x.top = y.top
  left : x.left = y.left
  id : x.id = y.id
  td : x.td = y.td
  mtime : x.mtime = y.mtime

def OBufRel (w : Bool) : Option Buf → Option Buf → Prop
  | none, none => True
  | some x, some y => BufRel w x y
  | _, _ => False

/-- slot 0 (the current buffer) with the exemption `w`, the others without -/
def BufsRel (w : Bool) : List (Option Buf) → List (Option Buf) → Prop
  | x :: l, y :: l' => OBufRel w x y ∧ All2 (OBufRel false) l l'
  | [], [] => True
  | _, _ => False

theorem BufRel.weaken {x y : Buf} (h : BufRel false x y) (w : Bool) : BufRel w x y := { h with lb := h.lb.weaken w }

theorem OBufRel.weaken {x y : Option Buf} (h : OBufRel false x y) (w : Bool) : OBufRel w x y := by
  cases x <;> cases y <;> first | exact h | exact BufRel.weaken h w

theorem bufsRel_false {l l' : List (Option Buf)} : BufsRel false l l' ↔ All2 (OBufRel false) l l' := by
  cases l <;> cases l'
  · exact ⟨fun _ => All2.nil, fun _ => trivial⟩
  · exact ⟨fun h => h.elim, fun h => by cases h⟩
  · exact ⟨fun h => h.elim, fun h => by cases h⟩
  · exact ⟨fun h => All2.cons h.1 h.2, fun h => by cases h with | cons h1 h2 => exact ⟨h1, h2⟩⟩

/-- **two `ex` states that are equal up to a monotone renumbering of the sequence numbers of their buffers** -/
structure EdRel (w : Bool) (a b : Ed) : Prop where
  bufs : BufsRel w a.bufs b.bufs
  bufsCnt : a.bufsCnt = b.bufsCnt
  xrow : a.xrow = b.xrow
  xoff : a.xoff = b.xoff
  xtop : a.xtop = b.xtop
  xleft : a.xleft = b.xleft
  xtd : a.xtd = b.xtd
  xquit : a.xquit = b.xquit
  xvis : a.xvis = b.xvis
  xaw : a.xaw = b.xaw
  xwa : a.xwa = b.xwa
  xic : a.xic = b.xic
  xkwd : a.xkwd = b.xkwd
  xrep : a.xrep = b.xrep
  xkwddir : a.xkwddir = b.xkwddir
  xgdep : a.xgdep = b.xgdep
  atDepth : a.atDepth = b.atDepth
  regs : a.regs = b.regs
  files : a.files = b.files
  clock : a.clock = b.clock
  faults : a.faults = b.faults
  calls : a.calls = b.calls
  fired : a.fired = b.fired
  input : a.input = b.input
  out : a.out = b.out
  msg : a.msg = b.msg
  pipes : a.pipes = b.pipes
  unmodelled : a.unmodelled = b.unmodelled

/-- **two `vi` states that are equal up to a monotone renumbering of the sequence numbers** (`w`: the mark `^` of the
current buffer is exempt) -/
structure Sim (w : Bool) (s t : VS) : Prop where
  ed : EdRel w s.ed t.ed
  typed : s.typed = t.typed
  ibuf : s.ibuf = t.ibuf
  ibufPos : s.ibufPos = t.ibufPos
  icmd : s.icmd = t.icmd
  vibuf : s.vibuf = t.vibuf
  xcol : s.xcol = t.xcol
  arg1 : s.arg1 = t.arg1
  arg2 : s.arg2 = t.arg2
  ybuf : s.ybuf = t.ybuf
  charlast : s.charlast = t.charlast
  charcmd : s.charcmd = t.charcmd
  pcol : s.pcol = t.pcol
  soset : s.soset = t.soset
  so : s.so = t.so
  scroll : s.scroll = t.scroll
  repCmd : s.repCmd = t.repCmd
  execReg : s.execReg = t.execReg
  msg : s.msg = t.msg
  xrows : s.xrows = t.xrows
  xcols : s.xcols = t.xcols
  xai : s.xai = t.xai
  xkmap : s.xkmap = t.xkmap
  exKmap : s.exKmap = t.exKmap
  xkmapAlt : s.xkmapAlt = t.xkmapAlt
  unmodelled : s.unmodelled = t.unmodelled

/-! ### reflexivity: the unary invariant -/

/-- in every buffer of the table the sequence numbers lie below the counter -/
def EdSeqOk (ed : Ed) : Prop := ∀ b, some b ∈ ed.bufs → SeqOk b.lb

theorem BufRel.refl {x : Buf} (h : SeqOk x.lb) (w : Bool) : BufRel w x x :=
  ⟨rfl, LbRel.refl h w, rfl, rfl, rfl, rfl, rfl, rfl, rfl⟩

theorem OBufRel.refl {x : Option Buf} (h : ∀ b, x = some b → SeqOk b.lb) (w : Bool) : OBufRel w x x := by
  cases x with
  | none => trivial
  | some b => exact BufRel.refl (h b rfl) w

theorem EdRel.refl {ed : Ed} (h : EdSeqOk ed) (w : Bool) : EdRel w ed ed := by
  refine ⟨?_, rfl, rfl, rfl, rfl, rfl, rfl, rfl, rfl, rfl, rfl, rfl, rfl, rfl, rfl, rfl, rfl, rfl, rfl, rfl, rfl, rfl,
    rfl, rfl, rfl, rfl, rfl, rfl⟩
  unfold EdSeqOk at h
  cases hb : ed.bufs with
  | nil => trivial
  | cons x l =>
    rw [hb] at h
    exact ⟨OBufRel.refl (fun b e => h b (by simp [e])) w,
      All2.refl _ fun y hy => OBufRel.refl (fun b e => h b (by simp [← e, hy])) false⟩

theorem Sim.refl {s : VS} (h : EdSeqOk s.ed) (w : Bool) : Sim w s s :=
  ⟨EdRel.refl h w, rfl, rfl, rfl, rfl, rfl, rfl, rfl, rfl, rfl, rfl, rfl, rfl, rfl,
    rfl, rfl, rfl, rfl, rfl, rfl, rfl, rfl, rfl, rfl, rfl, rfl⟩

theorem OBufRel.seqOk_left {w : Bool} {x y : Option Buf} (h : OBufRel w x y) (b : Buf) (e : x = some b) : SeqOk b.lb := by
  subst e
  cases y with
  | none => exact h.elim
  | some c => exact (BufRel.lb h).seqOk_left

theorem OBufRel.seqOk_right {w : Bool} {x y : Option Buf} (h : OBufRel w x y) (b : Buf) (e : y = some b) : SeqOk b.lb := by
  subst e
  cases x with
  | none => exact h.elim
  | some c => exact (BufRel.lb h).seqOk_right

theorem All2.mem_left {α β : Type} {R : α → β → Prop} {l : List α} {l' : List β} (h : All2 R l l') {a : α}
    (ha : a ∈ l) : ∃ b ∈ l', R a b := by
  induction h with
  | nil => cases ha
  | cons h1 _ ih =>
    rcases List.mem_cons.mp ha with rfl | ha
    · exact ⟨_, by simp, h1⟩
    · obtain ⟨b, hb, hr⟩ := ih ha
      exact ⟨b, by simp [hb], hr⟩

theorem All2.mem_right {α β : Type} {R : α → β → Prop} {l : List α} {l' : List β} (h : All2 R l l') {b : β}
    (hb : b ∈ l') : ∃ a ∈ l, R a b := by
  induction h with
  | nil => cases hb
  | cons h1 _ ih =>
    rcases List.mem_cons.mp hb with rfl | hb
    · exact ⟨_, by simp, h1⟩
    · obtain ⟨a, ha, hr⟩ := ih hb
      exact ⟨a, by simp [ha], hr⟩

/-- related states satisfy the unary invariant -/
theorem EdRel.seqOk_left {w : Bool} {a b : Ed} (h : EdRel w a b) : EdSeqOk a := by
  intro x hx
  have hb := h.bufs
  cases ha : a.bufs with
  | nil => rw [ha] at hx; cases hx
  | cons y l =>
    rw [ha] at hx hb
    cases hb' : b.bufs with
    | nil => rw [hb'] at hb; exact hb.elim
    | cons y' l' =>
      rw [hb'] at hb
      rcases List.mem_cons.mp hx with e | hx
      · exact hb.1.seqOk_left x e.symm
      · obtain ⟨z, _, hz⟩ := hb.2.mem_left hx
        exact hz.seqOk_left x rfl

theorem EdRel.seqOk_right {w : Bool} {a b : Ed} (h : EdRel w a b) : EdSeqOk b := by
  intro x hx
  have hb := h.bufs
  cases hb' : b.bufs with
  | nil => rw [hb'] at hx; cases hx
  | cons y' l' =>
    rw [hb'] at hx hb
    cases ha : a.bufs with
    | nil => rw [ha] at hb; exact hb.elim
    | cons y l =>
      rw [ha] at hb
      rcases List.mem_cons.mp hx with e | hx
      · exact hb.1.seqOk_right x e.symm
      · obtain ⟨z, _, hz⟩ := hb.2.mem_right hx
        exact hz.seqOk_right x rfl

end Neatvi.Lemmas.C09c
