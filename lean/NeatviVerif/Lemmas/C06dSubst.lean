import NeatviVerif.Lemmas.C06dFrame
/-!
# C06d: `:s` is a splice of the addressed range (proved directly from the model, for the loop that follows the
# lines it has pushed down: `i += n; end += n`)

The loop of `ec_substitute` makes `e - b` rounds; round `k` works on row `b + k + sh`, `sh` being the change of the
number of lines so far.  Invariant: after `k` rounds the text is `take b ++ (the first k lines of the range, each
replaced by the lines of its new text) ++ drop (b + k)`, and `sh` is the length of the middle part minus `k` — so the
row of round `k` is exactly the `k`-th line of the original range.
-/
set_option linter.unusedSimpArgs false
namespace Neatvi.Lemmas.C06d
open Neatvi Neatvi.Lbuf Neatvi.Ex Neatvi.Rset Neatvi.Lemmas.C06 Neatvi.Lemmas.C06b
open Neatvi.Lemmas.Hist (optLines)

/-- the prologue of `ec_substitute`: pattern and replacement are read from the argument and remembered;
    the state it leaves and the `g` flag -/
def substPrepD (ed : Ed) (arg : Bytes) : Ed × Bool :=
  let (pat, s) := reRead arg
  let ed := match pat with | some p => if !p.isEmpty then ed.kwdSet (some p) 1 else ed | none => ed
  let (rep, s) := if pat.isSome && !s.isEmpty then
      let delim := arg.headD 0
      let (r, s') := reRead ([delim] ++ s)
      (r, s')
    else (none, s)
  let ed := if pat.isSome || rep.isSome then { ed with xrep := (rep.getD []).take (Gen.EXLEN - 1) } else ed
  (ed, s.contains 103)

/-- one round of the loop -/
def substRound (re : RStr) (g : Bool) (b : Int) (acc : Option (Ed × Int)) (k : Nat) : Option (Ed × Int) :=
  match acc with
  | none => none
  | some (ed, sh) =>
    match ed.line (b + (k : Int) + sh) with
    | none => none
    | some ln =>
      match substLine re ed.xrep g ln with
      | none => none
      | some none => some (ed, sh)
      | some (some nl) =>
        match ed.edit (some nl) (b + (k : Int) + sh) (b + (k : Int) + sh + 1) with
        | none => none
        | some ed' => some (ed', sh + (ed'.len - ed.len))

/-- the `ec_substitute` branch of `runCmd`, in these terms -/
theorem runCmd_subst_eqD (f : Nat) (ed : Ed) (loc cmd arg : Bytes) (txt : Option Bytes) :
    runCmd (f + 1) ed "ec_substitute" loc cmd arg txt =
      match exRegion ed loc with
      | none => none
      | some ((rc, b, e), ed) =>
        if rc != 0 then some (1, ed) else
        if (substPrepD ed arg).1.xkwddir == 0 then some (1, (substPrepD ed arg).1) else
        match (substPrepD ed arg).1.mkRe (substPrepD ed arg).1.xkwd with
        | none => none
        | some none => some (1, (substPrepD ed arg).1)
        | some (some re) =>
          match (List.range (e - b).toNat).foldl (substRound re (substPrepD ed arg).2 b) (some ((substPrepD ed arg).1, 0)) with
          | none => none
          | some (ed, _) => some (0, ed) := by
  rw [runCmd]
  simp (config := {decide := true}) only [if_false, if_true]
  rfl

theorem substPrepD_bufs (ed : Ed) (arg : Bytes) : (substPrepD ed arg).1.bufs = ed.bufs := by
  unfold substPrepD
  simp only []
  repeat' split
  all_goals rfl

/-- what one line becomes: the lines of its new text, or itself when nothing matched -/
def rewriteLine (re : RStr) (rep : Bytes) (g : Bool) (ln : Bytes) : List Bytes :=
  match substLine re rep g ln with
  | some (some nl) => splitLines nl
  | _ => [ln]

def rewriteAll (re : RStr) (rep : Bytes) (g : Bool) (ls : List Bytes) : List Bytes :=
  ls.flatMap (rewriteLine re rep g)

theorem rewriteAll_snoc (re : RStr) (rep : Bytes) (g : Bool) (ls : List Bytes) (ln : Bytes) :
    rewriteAll re rep g (ls ++ [ln]) = rewriteAll re rep g ls ++ rewriteLine re rep g ln := by
  simp [rewriteAll]

theorem take_succ_drop (L : List Bytes) (b n : Nat) (ln : Bytes) (h : L[b + n]? = some ln) :
    (L.drop b).take (n + 1) = (L.drop b).take n ++ [ln] := by
  rw [List.take_add_one, List.getElem?_drop, h]
  rfl

theorem drop_cons_of_get (L : List Bytes) (i : Nat) (ln : Bytes) (h : L[i]? = some ln) : L.drop i = ln :: L.drop (i + 1) := by
  have hi : i < L.length := by
    rcases Nat.lt_or_ge i L.length with h1 | h1
    · exact h1
    · rw [List.getElem?_eq_none h1] at h; cases h
  rw [List.drop_eq_getElem_cons hi]
  rw [List.getElem?_eq_getElem hi] at h
  simp only [Option.some.injEq] at h
  rw [h]

/-- the invariant of the loop -/
theorem subst_loop (re : RStr) (g : Bool) (bn : Nat) (ed0 : Ed) : ∀ (n : Nat) (ed' : Ed) (sh : Int),
    bn + n ≤ (lines ed0).length →
    (List.range n).foldl (substRound re g (bn : Int)) (some (ed0, 0)) = some (ed', sh) →
    lines ed' = (lines ed0).take bn ++ rewriteAll re ed0.xrep g (((lines ed0).drop bn).take n) ++ (lines ed0).drop (bn + n) ∧
    sh = ((rewriteAll re ed0.xrep g (((lines ed0).drop bn).take n)).length : Int) - n ∧
    ed' = { ed0 with bufs := ed'.bufs } := by
  intro n
  induction n with
  | zero =>
    intro ed' sh _ h
    simp only [List.range_zero, List.foldl_nil, Option.some.injEq, Prod.mk.injEq] at h
    obtain ⟨rfl, rfl⟩ := h
    refine ⟨by simp [rewriteAll], by simp [rewriteAll], rfl⟩
  | succ n ih =>
    intro ed' sh hn h
    rw [List.range_succ, List.foldl_append] at h
    simp only [List.foldl_cons, List.foldl_nil] at h
    cases hm : (List.range n).foldl (substRound re g (bn : Int)) (some (ed0, 0)) with
    | none => rw [hm] at h; simp [substRound] at h
    | some x =>
      obtain ⟨edk, shk⟩ := x
      rw [hm] at h
      obtain ⟨i1, i2, i3⟩ := ih edk shk (by omega) hm
      -- the row of this round is line `bn + n` of the original text
      obtain ⟨ln, hln⟩ : ∃ ln, (lines ed0)[bn + n]? = some ln := ⟨_, List.getElem?_eq_getElem (by omega)⟩
      generalize hR : rewriteAll re ed0.xrep g (((lines ed0).drop bn).take n) = R at i1 i2
      have hrow : (bn : Int) + (n : Int) + shk = ((bn + R.length : Nat) : Int) := by rw [i2]; push_cast; omega
      have hdrop := drop_cons_of_get (lines ed0) (bn + n) ln hln
      have htk : ((lines ed0).take bn).length = bn := by rw [List.length_take]; omega
      have hlk : lines edk = ((lines ed0).take bn ++ R) ++ ln :: (lines ed0).drop (bn + n + 1) := by
        rw [i1, hdrop]
      have hget : edk.line ((bn : Int) + (n : Int) + shk) = some ln := by
        rw [hrow, line_eq, hlk, List.getElem?_append_right (by simp [htk])]
        simp [htk]
      have hxrep : edk.xrep = ed0.xrep := by rw [i3]
      have htake := take_succ_drop (lines ed0) bn n ln hln
      unfold substRound at h
      simp only [hget, hxrep] at h
      cases hs : substLine re ed0.xrep g ln with
      | none => rw [hs] at h; cases h
      | some o =>
        rw [hs] at h
        cases o with
        | none =>
          have hrw : rewriteLine re ed0.xrep g ln = [ln] := by unfold rewriteLine; rw [hs]
          simp only [Option.some.injEq, Prod.mk.injEq] at h
          obtain ⟨rfl, rfl⟩ := h
          rw [htake, rewriteAll_snoc, hR, hrw]
          refine ⟨?_, ?_, i3⟩
          · rw [hlk]; simp [List.append_assoc, Nat.add_assoc]
          · rw [i2]; simp only [List.length_append, List.length_cons, List.length_nil]; push_cast; omega
        | some nl =>
          have hrw : rewriteLine re ed0.xrep g ln = splitLines nl := by unfold rewriteLine; rw [hs]
          simp only [] at h
          split at h
          · cases h
          · rename_i ed2 hed
            simp only [Option.some.injEq, Prod.mk.injEq] at h
            obtain ⟨rfl, rfl⟩ := h
            have hlenk : edk.len = ((((lines ed0).take bn ++ R) ++ ln :: (lines ed0).drop (bn + n + 1)).length : Int) := by
              rw [len_eq, hlk]
            rw [hrow] at hed
            have hfr := ed_edit_frame edk ed2 (some nl) _ _ (by omega) (by omega)
              (by rw [hlenk]; simp only [List.length_append, List.length_cons, htk]; push_cast; omega) hed
            rw [htake, rewriteAll_snoc, hR, hrw]
            refine ⟨?_, ?_, ?_⟩
            · have hP : ((lines ed0).take bn ++ R).length = bn + R.length := by simp [htk]
              have e1 : ((bn + R.length : Nat) : Int).toNat = bn + R.length := by omega
              have e2 : (((bn + R.length : Nat) : Int) + 1).toNat = bn + R.length + 1 := by omega
              rw [hfr.1, hlk, e1, e2, ← hP]
              have h1 : ∀ P : List Bytes, (P ++ ln :: (lines ed0).drop (bn + n + 1)).take P.length = P := by
                intro P; simp
              have h2 : ∀ P : List Bytes,
                  (P ++ ln :: (lines ed0).drop (bn + n + 1)).drop (P.length + 1) = (lines ed0).drop (bn + n + 1) := by
                intro P; simp
              rw [h1, h2]
              simp [optLines, List.append_assoc, Nat.add_assoc]
            · rw [hfr.2, i2]
              simp only [optLines, List.length_append]
              push_cast
              omega
            · rw [edit_fields _ _ _ _ _ hed, i3]

/-- **`:s` is a splice of the addressed range.**  On success (return 0) the region `b..e` is valid, the remembered
    pattern compiles to `re`, and the new text is the old one with lines `b..e-1` replaced, each by the lines of its
    rewritten text (`rewriteLine`: the line itself when nothing matched; several lines when the replacement brought
    newlines) — every line outside the range keeps its bytes and order.  On failure (return 1: bad address, no
    pattern, pattern does not compile) the text is unchanged. -/
theorem subst_splice (f : Nat) (ed ed' : Ed) (loc cmd arg : Bytes) (txt : Option Bytes) (rc : Int)
    (h : runCmd (f + 1) ed "ec_substitute" loc cmd arg txt = some (rc, ed')) :
    (rc = 0 ∨ rc = 1) ∧
    (rc = 0 → ∃ b e ed1 re, exRegion ed loc = some ((0, b, e), ed1) ∧ 0 ≤ b ∧ b ≤ e ∧ e ≤ ed.len ∧
      (substPrepD ed1 arg).1.mkRe (substPrepD ed1 arg).1.xkwd = some (some re) ∧
      lines ed' = (lines ed).take b.toNat ++
        rewriteAll re (substPrepD ed1 arg).1.xrep (substPrepD ed1 arg).2 (((lines ed).drop b.toNat).take (e.toNat - b.toNat)) ++
        (lines ed).drop e.toNat) ∧
    (rc = 1 → lines ed' = lines ed) := by
  rw [runCmd_subst_eqD] at h
  split at h
  · cases h
  · rename_i r b e ed1 hreg
    obtain ⟨ha, _, hv, _⟩ := region_all _ _ _ _ _ _ hreg
    have hl1 : lines (substPrepD ed1 arg).1 = lines ed := (lines_of_bufs' (substPrepD_bufs ed1 arg)).trans ha.lines
    split at h
    · cases h; exact ⟨Or.inr rfl, fun h0 => by omega, fun _ => ha.lines⟩
    · rename_i hr0
      have hr : r = 0 := by simpa using hr0
      subst hr
      obtain ⟨v1, v2, v3, _⟩ := hv rfl
      split at h
      · cases h; exact ⟨Or.inr rfl, fun h0 => by omega, fun _ => hl1⟩
      · split at h
        · cases h
        · cases h; exact ⟨Or.inr rfl, fun h0 => by omega, fun _ => hl1⟩
        · rename_i re hre
          split at h
          · cases h
          · rename_i edr shr hloop
            cases h
            refine ⟨Or.inl rfl, fun _ => ?_, fun h0 => by omega⟩
            obtain ⟨bn, rfl⟩ : ∃ bn : Nat, b = (bn : Int) := ⟨b.toNat, by omega⟩
            have hlen : ed.len = ((lines ed).length : Int) := len_eq ed
            have hn : bn + (e - (bn : Int)).toNat ≤ (lines (substPrepD ed1 arg).1).length := by
              rw [hl1]; rw [ha.len] at v3; omega
            obtain ⟨k1, _, _⟩ := subst_loop re (substPrepD ed1 arg).2 bn (substPrepD ed1 arg).1 _ ed' shr hn hloop
            rw [hl1] at k1
            refine ⟨bn, e, ed1, re, hreg, v1, v2, by rw [← ha.len]; exact v3, hre, ?_⟩
            rw [k1]
            have e3 : ((bn : Int)).toNat = bn := by omega
            have e1 : (e - (bn : Int)).toNat = e.toNat - bn := by omega
            have e2 : bn + (e.toNat - bn) = e.toNat := by omega
            rw [e3, e1, e2]

/-- `:s` with the region of the reference evaluator -/
theorem subst_ref (f : Nat) (ed ed' : Ed) (loc : Loc) (cmd arg : Bytes) (txt : Option Bytes) (rc : Int)
    (hok : loc.Ok) (hx : ed.xrow ≠ -1000000)
    (h : runCmd (f + 1) ed "ec_substitute" loc.render cmd arg txt = some (rc, ed')) :
    (rc = 0 ∨ rc = 1) ∧
    (rc = 0 → ∃ b e c1 re, refRegion (worldOf ed) (cursorOf ed) loc = some ((0, b, e), c1) ∧ 0 ≤ b ∧ b ≤ e ∧ e ≤ ed.len ∧
      (substPrepD (withCursor ed c1) arg).1.mkRe (substPrepD (withCursor ed c1) arg).1.xkwd = some (some re) ∧
      lines ed' = (LineOp.change (rewriteAll re (substPrepD (withCursor ed c1) arg).1.xrep (substPrepD (withCursor ed c1) arg).2
        (((lines ed).drop b.toNat).take (e.toNat - b.toNat)))).apply (lines ed) b.toNat e.toNat) ∧
    (rc = 1 → lines ed' = lines ed) := by
  obtain ⟨h1, h2, h3⟩ := subst_splice f ed ed' loc.render cmd arg txt rc h
  refine ⟨h1, fun h0 => ?_, h3⟩
  obtain ⟨b, e, ed1, re, k1, k2, k3, k4, k5, k6⟩ := h2 h0
  obtain ⟨c1, m1, m2⟩ := region_transfer ed loc hok hx 0 b e ed1 k1
  subst m2
  exact ⟨b, e, c1, re, m1, k2, k3, k4, k5, k6⟩

/-! ### scripts with `:s` and `:w` -/

open Neatvi.Props.C06b Neatvi.Props.C06c

/-- the splice `:s` performs in state `ed` (`rc` its return code) -/
def substSplice (ed : Ed) (loc arg : Bytes) (rc : Int) : Splice :=
  if rc != 0 then (0, 0, []) else
  match exRegion ed loc with
  | some ((_, b, e), ed1) =>
    (match (substPrepD ed1 arg).1.mkRe (substPrepD ed1 arg).1.xkwd with
    | some (some re) =>
      (b.toNat, e.toNat, rewriteAll re (substPrepD ed1 arg).1.xrep (substPrepD ed1 arg).2
        (((lines ed).drop b.toNat).take (e.toNat - b.toNat)))
    | _ => (0, 0, []))
  | none => (0, 0, [])

/-- the reference splice of a line command: filters, `:s` and `:w` included -/
def spliceOfS (ed : Ed) (c : LineCmd) (rc : Int) : Splice :=
  if c.hd == "ec_substitute" then substSplice ed c.loc c.arg rc
  else if c.hd == "ec_write" then (0, 0, [])
  else spliceOfX ed c rc

/-- `a i c d y pu k = p r rs`, a filter with an address, `:s`, `:w` -/
def CoveredS (c : LineCmd) : Prop := CoveredX c ∨ c.hd = "ec_substitute" ∨ c.hd = "ec_write"

theorem cmd_splice_s (f : Nat) (ed ed' : Ed) (c : LineCmd) (rc : Int) (hc : CoveredS c)
    (h : runCmd (f + 1) ed c.hd c.loc c.cmd c.arg c.txt = some (rc, ed')) :
    (spliceOfS ed c rc).1 ≤ (spliceOfS ed c rc).2.1 ∧ (spliceOfS ed c rc).2.1 ≤ (lines ed).length ∧
      lines ed' = applySplice (lines ed) (spliceOfS ed c rc) := by
  rcases hc with hc | hc | hc
  · have hne1 : (c.hd == "ec_substitute") = false := by
      rcases hc with hc | ⟨hc, _⟩
      · simp only [covered, List.mem_cons, List.not_mem_nil, or_false] at hc
        rcases hc with k | k | k | k | k | k | k | k | k <;> rw [k] <;> decide
      · rw [hc]; decide
    have hne2 : (c.hd == "ec_write") = false := by
      rcases hc with hc | ⟨hc, _⟩
      · simp only [covered, List.mem_cons, List.not_mem_nil, or_false] at hc
        rcases hc with k | k | k | k | k | k | k | k | k <;> rw [k] <;> decide
      · rw [hc]; decide
    unfold spliceOfS
    rw [hne1, hne2]
    exact cmd_splice_x f ed ed' c rc hc h
  · obtain ⟨hd, loc, cmd, arg, txt⟩ := c
    simp only [] at hc h
    subst hc
    have hlen := len_eq ed
    obtain ⟨h1, h2, h3⟩ := subst_splice f ed ed' loc cmd arg txt rc h
    simp only [spliceOfS, beq_self_eq_true, if_true, substSplice]
    rcases h1 with rfl | rfl
    · obtain ⟨b, e, ed1, re, k1, k2, k3, k4, k5, k6⟩ := h2 rfl
      simp only [bne_self_eq_false, Bool.false_eq_true, if_false, k1, k5]
      exact ⟨by omega, by omega, k6⟩
    · rw [if_pos (by decide), applySplice_id]
      exact ⟨Nat.le_refl _, Nat.zero_le _, h3 rfl⟩
  · obtain ⟨hd, loc, cmd, arg, txt⟩ := c
    simp only [] at hc h
    subst hc
    have : spliceOfS ed ⟨"ec_write", loc, cmd, arg, txt⟩ rc = (0, 0, []) := by
      unfold spliceOfS
      simp only []
      rw [if_neg (by decide), if_pos (by decide)]
    rw [this, applySplice_id]
    refine ⟨Nat.le_refl _, Nat.zero_le _, ?_⟩
    rw [runCmd] at h
    simp only [String.reduceBEq, Bool.false_eq_true, ↓reduceIte, Bool.or_false, Bool.or_self] at h
    exact ecWrite_lines ed ed' loc cmd arg rc h

/-- run a script of parsed line commands, collecting the splices -/
def runScriptS (f : Nat) : Ed → List LineCmd → Option (List Splice × Ed)
  | ed, [] => some ([], ed)
  | ed, c :: cs =>
    match runCmd (f + 1) ed c.hd c.loc c.cmd c.arg c.txt with
    | none => none
    | some (rc, ed1) => (runScriptS f ed1 cs).map (fun x => (spliceOfS ed c rc :: x.1, x.2))

/-- **script_frame with `:s` and `:w`**: after a script of `a i c d y pu k = p r rs`, filters `[range]!cmd`,
    substitutes and writes (any address texts, any return codes) the text is the initial text put through one splice
    `take b ++ new ++ drop e` per command, each inside the text it applies to -/
theorem script_frame_s (f : Nat) : ∀ (script : List LineCmd) (ed ed' : Ed) (ss : List Splice),
    (∀ c ∈ script, CoveredS c) → runScriptS f ed script = some (ss, ed') →
    lines ed' = applySplices (lines ed) ss ∧ ss.length = script.length ∧ SplicesOk (lines ed) ss := by
  intro script
  induction script with
  | nil =>
    intro ed ed' ss _ h
    simp only [runScriptS, Option.some.injEq, Prod.mk.injEq] at h
    obtain ⟨rfl, rfl⟩ := h
    exact ⟨rfl, rfl, trivial⟩
  | cons c cs ih =>
    intro ed ed' ss hcov h
    simp only [runScriptS] at h
    split at h
    · cases h
    · rename_i rc ed1 hrun
      simp only [Option.map_eq_some_iff, Prod.mk.injEq] at h
      obtain ⟨⟨ss1, ed2⟩, h1, rfl, rfl⟩ := h
      obtain ⟨k1, k2, k3⟩ := cmd_splice_s f ed ed1 c rc (hcov c (by simp)) hrun
      obtain ⟨i1, i2, i3⟩ := ih ed1 ed2 ss1 (fun x hx => hcov x (by simp [hx])) h1
      refine ⟨?_, by simp [i2], ?_⟩
      · simp only [applySplices, List.foldl_cons]
        rw [← k3]
        exact i1
      · refine ⟨k1, k2, ?_⟩
        rw [← k3]
        exact i3

end Neatvi.Lemmas.C06d
