import NeatviVerif.Lemmas.C20cMore
import NeatviVerif.Props.C06b
/-!
# C20c lemmas, part 9: concrete runs (for the non-vacuity examples of `Props/C20c.lean`)
-/
namespace Neatvi.Lemmas.C20c
open Neatvi Neatvi.Lbuf Neatvi.Ex Neatvi.Props.C20 Neatvi.Props.C20b Neatvi.Lemmas.C20b
open Neatvi.Lemmas.C06b Neatvi.Props.C06b

/-- a line that holds one known command taking no text runs that command -/
theorem exExec_single (f : Nat) (ed ed1 : Ed) (ln a : Bytes) (hd : String) (r : Int) (hne : ln ≠ [])
    (hlen : ln.length < Gen.EXLEN) (hi : (parse1 ln).idx = some (a, hd)) (ht : takesText a = false)
    (hrest : (parse1 ln).rest = [])
    (hr : runCmd f ed hd (parse1 ln).loc (parse1 ln).cmd (parse1 ln).arg none = some (r, ed1)) :
    exExec (f + 1) ed ln = some (r, ed1) := by
  have h1 : runOne f ed (parse1 ln) 0 = some ((r, ed1), []) := by
    rw [runOne_known f ed (parse1 ln) 0 a hd hi ht, hr, hrest]; rfl
  rw [exExec_seq f ed ed1 ln [] r hne hlen h1 (Or.inl rfl)]
  simp

theorem runCmd_echo (f : Nat) (ed : Ed) (loc cmd arg : Bytes) (txt : Option Bytes) :
    runCmd (f + 1) ed "ec_echo" loc cmd arg txt = some (0, ed.print arg) := by
  rw [runCmd.eq_2]
  simp only [String.reduceBEq, Bool.false_eq_true, if_false, if_true, Bool.or_self]

/-- three buffers "a" (current, viewed at 5/2), "b", "c" with numbers 1, 2, 3; option `wa` set, so
    that the unsaved-changes guard of `:b` does not interfere -/
def edS : Ed := { exEd with xwa := 1 }

/-- the script `:b 2`, `:ec hi`, `:b`, `:b !` -/
def scriptS : List Bytes := [[98, 32, 50], [101, 99, 32, 104, 105], [98], [98, 32, 33]]

def edS1 : Ed := edS.bufsSwitch 1
def edS2 : Ed := edS1.print [104, 105]
def edS3 : Ed := listEd edS2
def edS4 : Ed := delEd edS3

theorem line1 : exExec 2 edS [98, 32, 50] = some (0, edS1) := by
  refine exExec_single 1 edS edS1 _ [98] "ec_buffer" 0 (by decide) (by decide) (by decide +kernel) (by decide)
    (by decide +kernel) ?_
  rw [show (parse1 [98, 32, 50]).arg = [50] by decide +kernel]
  exact b_number 0 edS edS _ _ [50] none 1 { path := [98], lb := { lines := [[121, 10], [122, 10]] }, id := 2, row := 1, off := 3 }
    (by decide) rfl (by decide +kernel)
    (by
      intro j b' hj hb'
      have : j = 0 := by omega
      subst this
      have e : b' = { path := [97], lb := { lines := [[120, 10]] }, id := 1, row := 0, off := 0 } := by
        have : edS.bufs.getD 0 none = some { path := [97], lb := { lines := [[120, 10]] }, id := 1, row := 0, off := 0 } := rfl
        rw [this] at hb'; cases hb'; rfl
      rw [e]; decide +kernel)
    rfl

theorem line2 : exExec 2 edS1 [101, 99, 32, 104, 105] = some (0, edS2) := by
  refine exExec_single 1 edS1 edS2 _ [101, 99] "ec_echo" 0 (by decide) (by decide) (by decide +kernel) (by decide)
    (by decide +kernel) ?_
  rw [show (parse1 [101, 99, 32, 104, 105]).arg = [104, 105] by decide +kernel]
  exact runCmd_echo 0 edS1 _ _ _ none

theorem line3 : exExec 2 edS2 [98] = some (0, edS3) := by
  refine exExec_single 1 edS2 edS3 _ [98] "ec_buffer" 0 (by decide) (by decide) (by decide +kernel) (by decide)
    (by decide +kernel) ?_
  exact runCmd_b_list 0 edS2 _ _ _ none (by decide +kernel)

theorem line4 : exExec 2 edS3 [98, 32, 33] = some (0, edS4) := by
  refine exExec_single 1 edS3 edS4 _ [98] "ec_buffer" 0 (by decide) (by decide) (by decide +kernel) (by decide)
    (by decide +kernel) ?_
  exact runCmd_b_delete 0 edS3 _ _ _ none (by decide +kernel)

/-- the script runs, from `edS` to `edS4` -/
theorem scriptS_runs : runLines 2 edS scriptS = some edS4 := by
  simp only [scriptS, runLines, line1, line2, line3, line4]

/-- at the end "a" is current again, with the view it was left with, "c" is parked, "b" is gone; the
    sequence counters have moved -/
theorem scriptS_result :
    (edS4.bufs.take 3).map exView = [some ([97], [[120, 10]], 5, 2, 1), some ([99], [], 7, 0, 3), none] ∧
    (edS4.xrow, edS4.xoff) = (5, 2) ∧
    (edS4.bufs.take 2).map (fun b => b.map (·.lb.useq)) = [some 3, some 2] ∧
    (edS.bufs.take 3).map (fun b => b.map (·.lb.useq)) = [some 1, some 1, some 1] := by
  refine ⟨?_, ?_, ?_, ?_⟩ <;> decide +kernel

/-! ### a chain written out: switch to "b", delete its first line, switch back -/

theorem edS1_edit_isSome : (edS1.edit none 0 1).isSome = true := by decide +kernel

/-- "b" current with its first line deleted -/
def edE : Ed := (edS1.edit none 0 1).get edS1_edit_isSome

theorem edE_loc : Loc edS1 edE := loc_edit (Option.some_get edS1_edit_isSome).symm

/-- switch to slot 1 ("b"), a local step (the deletion), switch to slot 1 again (back to "a") -/
def chainE : Trace := [(edS, .sw 1, edS1), (edS1, .loc, edE), (edE, .sw 1, edE.bufsSwitch 1)]

theorem chainE_ok : Chain edS chainE (edE.bufsSwitch 1) :=
  ⟨rfl, ⟨rfl, fun _ => by decide +kernel⟩, rfl, edE_loc, rfl, ⟨rfl, fun _ => by decide +kernel⟩, rfl⟩

end Neatvi.Lemmas.C20c
