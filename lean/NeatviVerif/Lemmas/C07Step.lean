import NeatviVerif.Lemmas.C07Keeps
import NeatviVerif.Lemmas.C07Ren
/-!
# C07 helper lemmas: the shape of one iteration of the vi loop on the motion branches
-/
set_option linter.unusedSimpArgs false
set_option linter.unusedVariables false

namespace Neatvi.Lemmas.C07
open Neatvi Neatvi.Uc Neatvi.Lbuf Neatvi.Ex Neatvi.Mot Neatvi.Vi

theorem bind_ok {α β : Type} (m : M α) (f : α → M β) (s : VS) (a : α) (s1 : VS) (h : m s = Res.ok a s1) :
    (m >>= f) s = f a s1 := by
  show (match m s with
    | Res.ok a s' => f a s'
    | Res.eof => Res.eof
    | Res.trap => Res.trap) = _
  rw [h]

theorem bind_inv {α β : Type} (m : M α) (f : α → M β) (s : VS) (b : β) (s' : VS) (h : (m >>= f) s = Res.ok b s') :
    ∃ a s1, m s = Res.ok a s1 ∧ f a s1 = Res.ok b s' := by
  change (match m s with
    | Res.ok a s1 => f a s1
    | Res.eof => Res.eof
    | Res.trap => Res.trap) = Res.ok b s' at h
  split at h
  · rename_i a s1 h1; exact ⟨a, s1, h1, h⟩
  · cases h
  · cases h

/-- the continuation of one iteration once the prefix and the motion have been read -/
def stepCont (mv nrow noff : Int) : M (Option Nat) :=
  if mv > 0 then motionTail mv nrow noff
  else if mv == 0 then commandTail
  else pure (some 0)

theorem viStep_of_pre (s s1 : VS) (mv r o : Int) (h : viPre s = Res.ok (mv, r, o) s1) :
    viStep s = (stepCont mv r o >>= viPost) s1 := by
  unfold viStep
  rw [bind_ok _ _ _ _ _ h]
  rfl

/-- `vi_noeol` of a non-negative offset is non-negative -/
theorem noeol_nonneg (s : VS) (r o : Int) (h : 0 ≤ o) : 0 ≤ noeol s r o := by
  unfold noeol
  split
  · simp only []
    split <;> omega
  · exact renNoeol_nonneg _ _ h

/-- the offset `motionTail` hands to `ren_noeol` -/
def motionOff (s : VS) (mv nrow noff : Int) : Int :=
  let jk := mv == 106 || mv == 107
  let noff := if noff < 0 && !jk then indents (lines s) nrow else noff
  if jk then col2off s nrow s.xcol else noff

theorem indents_nonneg (ls : Lines) (r : Int) : 0 ≤ indents ls r := by
  unfold indents; split <;> omega

theorem motionOff_nonneg (s : VS) (mv nrow noff : Int) : 0 ≤ motionOff s mv nrow noff := by
  unfold motionOff
  simp only []
  have := indents_nonneg (lines s) nrow
  split
  · unfold col2off; split <;> omega
  · split
    · exact this
    · rename_i h1 h2
      simp only [Bool.and_eq_true, decide_eq_true_eq, Bool.not_eq_true', not_and, Bool.not_eq_false] at h2
      simp only [Bool.or_eq_true, beq_iff_eq] at h1 h2
      by_cases h3 : noff < 0
      · exact absurd (h2 h3) h1
      · omega

/-- what `motionTail` does after the optional `vi_marksave()` -/
def motionRest (mv nrow noff : Int) : M (Option Nat) := do
  setRow nrow
  let s ← get
  let jk := mv == 106 || mv == 107
  let noff := if noff < 0 && !jk then indents (lines s) nrow else noff
  let noff := if jk then col2off s nrow s.xcol else noff
  let xoff := noeol s nrow noff
  setOff xoff
  if !(jk || mv == 124) then modify fun s => { s with xcol := off2col s nrow xoff }
  if mv == 124 then modify fun s => { s with xcol := s.pcol }
  pure (some 0)

theorem motionTail_eq (mv nrow noff : Int) :
    motionTail mv nrow noff =
      ((if strHas "'`GHML/?{}[]nN" mv || (mv == 37 && noff < 0) then markSave else pure ()) >>= fun _ =>
        motionRest mv nrow noff) := by
  unfold motionTail
  by_cases hc : (strHas "'`GHML/?{}[]nN" mv || (mv == 37 && decide (noff < 0))) = true
  · simp only [hc, if_true]; rfl
  · simp only [hc, if_false]; rfl

/-- the rest of `motionTail` always succeeds; it sets the row to `nrow` and the offset to a
    non-negative `ren_noeol` of `motionOff` -/
theorem motionRest_run (mv nrow noff : Int) (s : VS) :
    ∃ s', motionRest mv nrow noff s = Res.ok (some 0) s' ∧ s'.ed.xrow = nrow ∧
      s'.ed.xoff = noeol s nrow (motionOff s mv nrow noff) ∧ s'.ed.xtop = s.ed.xtop ∧ s'.xrows = s.xrows ∧
      lbText s' = lbText s := by
  unfold motionRest motionOff
  simp only []
  generalize (mv == 124) = b2
  generalize (mv == 106 || mv == 107) = jk
  cases b2 <;> cases jk <;> exact ⟨_, rfl, rfl, rfl, rfl, rfl, rfl⟩

theorem markSaveOpt_run (c : Bool) (s a s') (h : (if c then markSave else pure ()) s = Res.ok a s') :
    curOf s' = curOf s ∧ lbText s' = lbText s := by
  have hk : Keeps true (if c then markSave else pure () : M Unit) := by
    split
    · exact keeps_markSave
    · exact Keeps.pure _
  exact ⟨hk.cursor h, hk.text h⟩

theorem lineOf_of_lbText {s s' : VS} (h : lbText s' = lbText s) (r : Int) : lineOf s' r = lineOf s r := by
  unfold lineOf; rw [lines_of_lbText h]

/-- a successful motion leaves `xrow = nrow` and `0 ≤ xoff`, and keeps the text and the window -/
theorem motionTail_run (mv nrow noff : Int) (s : VS) (c : Option Nat) (s' : VS)
    (h : motionTail mv nrow noff s = Res.ok c s') :
    c = some 0 ∧ s'.ed.xrow = nrow ∧ 0 ≤ s'.ed.xoff ∧ s'.ed.xtop = s.ed.xtop ∧ s'.xrows = s.xrows ∧
      lbText s' = lbText s := by
  rw [motionTail_eq] at h
  obtain ⟨u, s1, h1, h2⟩ := bind_inv _ _ _ _ _ h
  obtain ⟨hc, ht⟩ := markSaveOpt_run _ _ _ _ h1
  obtain ⟨s2, e1, e2, e3, e4, e5, e6⟩ := motionRest_run mv nrow noff s1
  rw [e1] at h2
  cases h2
  unfold curOf at hc
  simp only [Prod.mk.injEq] at hc
  refine ⟨rfl, e2, ?_, by rw [e4]; exact hc.2.2.1, by rw [e5]; exact hc.2.2.2, by rw [e6, ht]⟩
  rw [e3]
  exact noeol_nonneg _ _ _ (motionOff_nonneg _ _ _ _)

end Neatvi.Lemmas.C07
