import NeatviVerif.Lemmas.C20cRun
import NeatviVerif.Lemmas.C15bBits
/-!
# C15b lemmas, part 2: the recursion depth `xgdep` is the same after every command

`xgdep` is written in `ec_glob` only (`xgdep++` … `xgdep--`).  Here: every helper of the ex layer leaves the field
alone, every handler of the dispatcher does (given that the command lines it runs do), `ec_glob` restores it on every
exit path, and by induction on the fuel every run of `ex_exec` / `ex_command` ends at the depth it started from —
whatever the line is (`|`-lists, nested `:g`, `:@`, `:e +cmd`, `:w`, `:q`, `:b`, `:!`, …).
-/
namespace Neatvi.Lemmas.C15b
open Neatvi Neatvi.Lbuf Neatvi.Ex Neatvi.Rset Neatvi.Props Neatvi.Props.C15 Neatvi.Props.C20 Neatvi.Props.C20b
open Neatvi.Lemmas.ExFrame Neatvi.Lemmas.C02Ex Neatvi.Lemmas.C02c Neatvi.Lemmas.C20c

/-! ### the helpers -/

theorem addrOnly_dep {ed ed' : Ed} (h : Lemmas.C06.AddrOnly ed ed') : ed'.xgdep = ed.xgdep := by
  obtain ⟨_, _, _, rfl⟩ := h; rfl

theorem ioOnly_dep {ed ed' : Ed} (h : IoOnly ed ed') : ed'.xgdep = ed.xgdep := by
  obtain ⟨_, _, _, _, rfl⟩ := h; rfl

theorem exRegion_dep {ed ed' : Ed} {loc : Bytes} {r : Nat × Int × Int} (h : exRegion ed loc = some (r, ed')) :
    ed'.xgdep = ed.xgdep := by
  obtain ⟨rc, b, e⟩ := r
  exact addrOnly_dep (Lemmas.C06.region_all ed loc rc b e ed' h).1

theorem setCur_dep (ed : Ed) (b : Buf) : (ed.setCur b).xgdep = ed.xgdep := rfl

theorem setLb_dep (ed : Ed) (lb : Lb) : (ed.setLb lb).xgdep = ed.xgdep := by
  unfold Ed.setLb; split <;> rfl

theorem edit_dep {ed ed' : Ed} {s : Option Bytes} {b e : Int} (h : ed.edit s b e = some ed') :
    ed'.xgdep = ed.xgdep := by
  obtain ⟨_, _, lb, lb', _, _, rfl, _⟩ := Ed_edit_some h
  exact setLb_dep _ _

theorem pathExpand_dep {ed ed' : Ed} {src : Bytes} {sp : Bool} {r : Option Bytes}
    (h : pathExpand ed src sp = some (r, ed')) : ed'.xgdep = ed.xgdep := by
  rcases Lemmas.C02c.pathExpand_cases ed ed' src sp r h with h1 | ⟨m, h1⟩ <;> rw [h1] <;> rfl

theorem setOpt_dep (ed : Ed) (v : String) (val : Int) : (setOpt ed v val).xgdep = ed.xgdep := by
  unfold setOpt
  repeat' split
  all_goals rfl

theorem exTxt_dep (ed : Ed) (src ex : Bytes) : (exTxt ed src ex).2.xgdep = ed.xgdep := by
  unfold exTxt
  simp only []
  repeat' split
  all_goals rfl

theorem foldl_print_dep (b : Int) : ∀ (l : List Nat) (ed : Ed),
    (l.foldl (fun (ed : Ed) (k : Nat) => match ed.line (b + (k : Int)) with | some l => ed.print l | none => ed) ed).xgdep
      = ed.xgdep := by
  intro l
  induction l with
  | nil => intro ed; rfl
  | cons k l ih =>
    intro ed
    rw [List.foldl_cons, ih]
    split <;> rfl

theorem bumpAt_dep (ed : Ed) (i : Nat) (b : Buf) : (bumpAt ed i b).xgdep = ed.xgdep := rfl

theorem modifiedAt_dep (ed : Ed) (i : Nat) : (ed.modifiedAt i).2.xgdep = ed.xgdep := by
  rw [modifiedAt_eq]
  split <;> rfl

theorem showOpt_dep (ed : Ed) (m : Option Bytes) : (showOpt ed m).xgdep = ed.xgdep := by
  cases m <;> rfl

theorem bufsModified_dep {ed ed' : Ed} {idx : Nat} {msg : Option Bytes} {r : Bool}
    (h : bufsModified ed idx msg = some (r, ed')) : ed'.xgdep = ed.xgdep := by
  rcases bufsModified_shape ed ed' idx msg r h with ⟨_, he, _⟩ | ⟨b, hb, h1 | h1 | h1⟩
  · rw [he]
  · rw [h1.1]; rfl
  · rw [h1.2.2.2, showOpt_dep]; rfl
  · rw [ioOnly_dep h1.2.2]; rfl

theorem lbufSaveP_dep {ed ed' : Ed} {lb : Lb} {b : Nat} {e : Int} {path : Bytes} {force : Bool} {ts : Int}
    {r : Option Bytes} (h : lbufSaveP ed lb b e path force ts = some (r, ed')) : ed'.xgdep = ed.xgdep :=
  ioOnly_dep (lbufSaveP_io _ _ _ _ _ _ _ _ _ h)

theorem bufsSwitch_dep (ed : Ed) (idx : Nat) : (ed.bufsSwitch idx).xgdep = ed.xgdep := by
  unfold Ed.bufsSwitch Ed.bufsLoad Ed.bufsSave Ed.setCur
  simp only []
  repeat' split
  all_goals rfl

theorem bufsOpen_dep (ed : Ed) (p : Bytes) : (ed.bufsOpen p).2.xgdep = ed.xgdep := rfl

theorem bufsShift_dep (ed : Ed) : ed.bufsShift.xgdep = ed.xgdep := by
  unfold Ed.bufsShift Ed.bufsLoad
  simp only []
  split <;> rfl

theorem globPrep_dep (ed : Ed) (arg : Bytes) : (globPrep ed arg).xgdep = ed.xgdep := by
  unfold globPrep
  repeat' split
  all_goals rfl

theorem substPrep_dep (ed : Ed) (arg : Bytes) : (C14.substPrep ed arg).1.xgdep = ed.xgdep := by
  unfold C14.substPrep
  simp only []
  repeat' split
  all_goals rfl

theorem substLoop_dep (re : RStr) (g : Bool) (b : Int) : ∀ (n : Nat) (ed ed' : Ed),
    C14.substLoop re g b n ed = some ed' → ed'.xgdep = ed.xgdep := by
  intro n
  induction n with
  | zero => intro ed ed' h; cases h; rfl
  | succ n ih =>
    intro ed ed' h
    rw [C14.substLoop_succ] at h
    cases hm : C14.substLoop re g b n ed with
    | none => rw [hm] at h; cases h
    | some em =>
      rw [hm] at h
      simp only [Option.bind_some] at h
      rw [← ih _ _ hm]
      unfold C14.substStep at h
      repeat' (split at h)
      all_goals (first | cases h | skip)
      · rfl
      · exact edit_dep h

/-! ### the handlers that make no call of their own -/

theorem ite_dep {c : Prop} [Decidable c] {x y : Ed} {n : Nat} (hx : x.xgdep = n) (hy : y.xgdep = n) :
    (if c then x else y).xgdep = n := by
  split <;> assumption

theorem ecWrite_dep {ed ed' : Ed} {loc cmd arg : Bytes} {r : Int}
    (hw : ecWrite ed loc cmd arg = some (r, ed')) : ed'.xgdep = ed.xgdep := by
  unfold ecWrite at hw
  simp only [] at hw
  split at hw
  · cases hw
  · rename_i path ed1 hp
    have h1 : ed1.xgdep = ed.xgdep := by
      split at hp
      · exact pathExpand_dep hp
      · cases hp; rfl
    have hxx : ∀ (m : Bool) (ed2 : Ed), (if (List.headD cmd 0 == 120) = true then some (ed1.modifiedAt 0) else some (true, ed1)) = some (m, ed2) →
        ed2.xgdep = ed.xgdep := by
      intro m ed2 hx
      split at hx
      · have e := (Lemmas.C02b.some_pair_inj (b := (ed1.modifiedAt 0).2) hx).2
        rw [← e, modifiedAt_dep]; exact h1
      · cases hx; exact h1
    split at hw
    · cases hw
    · rename_i ed2 hx
      cases hw
      exact hxx _ _ hx
    · rename_i ed2 hx
      have h2 : ed2.xgdep = ed.xgdep := hxx _ _ hx
      split at hw
      · cases hw
      · rename_i rc b e ed3 hr
        have h3 : ed3.xgdep = ed.xgdep := (exRegion_dep hr).trans h2
        split at hw
        · cases hw; exact h3
        · split at hw
          · cases hw
          · rename_i cur hcur
            split at hw
            · split at hw
              · cases hw; exact h3
              · cases hw
                exact ite_dep h3 h3
            · split at hw
              · cases hw
              · rename_i err ed4 hs
                have h4 : ed4.xgdep = ed.xgdep := (lbufSaveP_dep hs).trans h3
                cases hw
                exact h4
              · rename_i ed4 hs
                have h4 : ed4.xgdep = ed.xgdep := (lbufSaveP_dep hs).trans h3
                generalize hE : Ed.show ed4 _ = ed5 at hw
                have h5 : ed5.xgdep = ed.xgdep := by rw [← hE]; exact h4
                split at hw
                · cases hw
                · rename_i cur2 hcur2
                  generalize hX : (if cur2.path.isEmpty = true then _ else (cur2, ed5) : Buf × Ed) = X at hw
                  have hX2 : X.2.xgdep = ed.xgdep := by rw [← hX]; split <;> exact h5
                  obtain ⟨c3, ed6⟩ := X
                  simp only [] at hw hX2
                  repeat' (split at hw)
                  all_goals
                    cases hw
                    exact hX2

theorem runCmd_print_dep (f : Nat) (ed ed' : Ed) (loc cmd arg : Bytes) (txt : Option Bytes) (r : Int)
    (h : runCmd f ed "ec_print" loc cmd arg txt = some (r, ed')) : ed'.xgdep = ed.xgdep := by
  cases f with
  | zero => rw [runCmd] at h; cases h
  | succ f =>
    rw [runCmd] at h
    rw [if_neg (by decide), if_pos (by decide)] at h
    split at h
    · cases h; rfl
    · split at h
      · cases h
      · rename_i hr
        have e1 := exRegion_dep hr
        split at h
        · cases h; exact e1
        · cases h
          exact (foldl_print_dep _ _ _).trans e1

theorem subst_dep (f : Nat) (ed ed' : Ed) (loc cmd arg : Bytes) (txt : Option Bytes) (r : Int)
    (h : runCmd (f + 1) ed "ec_substitute" loc cmd arg txt = some (r, ed')) : ed'.xgdep = ed.xgdep := by
  rw [C14.runCmd_subst_eq] at h
  split at h
  · cases h
  · rename_i ed1 hr
    have e1 : ed1.xgdep = ed.xgdep := exRegion_dep hr
    have e2 : (C14.substPrep ed1 arg).1.xgdep = ed.xgdep := (substPrep_dep ed1 arg).trans e1
    repeat' (split at h)
    all_goals (first | cases h | skip)
    · exact e1
    · exact e2
    · exact e2
    · rename_i hl
      exact (substLoop_dep _ _ _ _ _ _ hl).trans e2

/-- every command other than `:e`, `:b`, `:q`, `:g`, `:@` leaves `xgdep` alone -/
theorem runCmd_local_dep (f : Nat) (ed ed' : Ed) (hd : String) (loc cmd arg : Bytes) (txt : Option Bytes) (r : Int)
    (hl : tableHandler hd = false)
    (h : runCmd (f + 1) ed hd loc cmd arg txt = some (r, ed')) : ed'.xgdep = ed.xgdep := by
  simp only [tableHandler, Bool.or_eq_false_iff, beq_eq_false_iff_ne, ne_eq] at hl
  obtain ⟨⟨⟨⟨he, hbuf⟩, hq⟩, hglob⟩, hat⟩ := hl
  by_cases hs : hd = "ec_substitute"
  · subst hs
    exact subst_dep f ed ed' loc cmd arg txt r h
  by_cases hw : hd = "ec_write"
  · subst hw
    rw [runCmd_write] at h
    exact ecWrite_dep h
  rw [runCmd] at h
  by_cases c : (hd == "ec_insert") = true
  · rw [if_pos c] at h
    simp only [] at h
    split at h
    · cases h
    · rename_i hr
      have e1 := exRegion_dep hr
      repeat' (split at h)
      all_goals (first | cases h | skip)
      all_goals (first | exact e1 | (have he := edit_dep (by assumption); exact he.trans e1))
  rw [if_neg c] at h; clear c
  by_cases c : (hd == "ec_print") = true
  · have : hd = "ec_print" := by simpa using c
    subst this
    have h' : runCmd (f + 1) ed "ec_print" loc cmd arg txt = some (r, ed') := by
      rw [runCmd, if_neg (by decide), if_pos (by decide)]
      rw [if_pos c] at h
      exact h
    exact runCmd_print_dep _ _ _ _ _ _ _ _ h'
  rw [if_neg c] at h; clear c
  by_cases c : (hd == "ec_null") = true
  · rw [if_pos c] at h
    split at h
    · simp only [] at h
      exact (runCmd_print_dep _ _ _ _ _ _ _ _ h).trans rfl
    · split at h
      · cases h
      · rename_i hr
        have e1 := exRegion_dep hr
        split at h
        · cases h; exact e1
        · cases h; exact e1
  rw [if_neg c] at h; clear c
  by_cases c : (hd == "ec_delete" || hd == "ec_yank") = true
  · rw [if_pos c] at h
    simp only [] at h
    split at h
    · cases h
    · rename_i hr
      have e1 := exRegion_dep hr
      repeat' (split at h)
      all_goals (first | cases h | skip)
      all_goals (first | exact e1 | (have he := edit_dep (by assumption); exact he.trans e1))
  rw [if_neg c] at h; clear c
  by_cases c : (hd == "ec_put") = true
  · rw [if_pos c] at h
    simp only [] at h
    split at h
    · cases h; rfl
    · split at h
      · cases h
      · rename_i hr
        have e1 := exRegion_dep hr
        repeat' (split at h)
        all_goals (first | cases h | skip)
        all_goals (first | exact e1 | (have he := edit_dep (by assumption); exact he.trans e1))
  rw [if_neg c] at h; clear c
  by_cases c : (hd == "ec_lnum") = true
  · rw [if_pos c] at h
    split at h
    · cases h
    · rename_i hr
      have e1 := exRegion_dep hr
      split at h
      · cases h; exact e1
      · cases h; exact e1
  rw [if_neg c] at h; clear c
  by_cases c : (hd == "ec_undo") = true
  · rw [if_pos c] at h
    split at h
    · cases h
    · cases h
      exact setLb_dep _ _
  rw [if_neg c] at h; clear c
  by_cases c : (hd == "ec_redo") = true
  · rw [if_pos c] at h
    split at h
    · cases h
    · cases h
      exact setLb_dep _ _
  rw [if_neg c] at h; clear c
  by_cases c : (hd == "ec_mark") = true
  · rw [if_pos c] at h
    split at h
    · cases h
    · rename_i hr
      have e1 := exRegion_dep hr
      split at h
      · cases h; exact e1
      · split at h
        · cases h
        · cases h
          exact (setLb_dep _ _).trans e1
  rw [if_neg c] at h; clear c
  by_cases c : (hd == "ec_rs") = true
  · rw [if_pos c] at h
    cases h; rfl
  rw [if_neg c] at h; clear c
  by_cases c : (hd == "ec_at") = true
  · exact absurd (by simpa using c) hat
  rw [if_neg c] at h; clear c
  by_cases c : (hd == "ec_glob") = true
  · exact absurd (by simpa using c) hglob
  rw [if_neg c] at h; clear c
  by_cases c : (hd == "ec_edit") = true
  · exact absurd (by simpa using c) he
  rw [if_neg c] at h; clear c
  by_cases c : (hd == "ec_substitute") = true
  · exact absurd (by simpa using c) hs
  rw [if_neg c] at h; clear c
  by_cases c : (hd == "ec_exec") = true
  · rw [if_pos c] at h
    simp only [] at h
    split at h
    · cases h
    · rename_i ed1 hg
      cases h
      split at hg
      · exact bufsModified_dep hg
      · cases hg
    · rename_i ed1 hg
      have e0 : ed1.xgdep = ed.xgdep := by
        split at hg
        · exact bufsModified_dep hg
        · cases hg; rfl
      split at h
      · cases h
      · rename_i ed2 hp
        cases h
        exact (pathExpand_dep hp).trans e0
      · rename_i ecmd ed2 hp
        have e1 : ed2.xgdep = ed.xgdep := (pathExpand_dep hp).trans e0
        split at h
        · cases h; exact e1
        · split at h
          · cases h
          · rename_i hr
            have e2 := (exRegion_dep hr).trans e1
            repeat' (split at h)
            all_goals (first | cases h | skip)
            all_goals (first | exact e2 | skip)
            · rename_i hm
              cases hx : Ed.edit _ _ _ _ with
              | none => rw [hx] at h; cases h
              | some edx =>
                rw [hx] at h
                cases h
                exact (edit_dep hx).trans e2
  rw [if_neg c] at h; clear c
  by_cases c : (hd == "ec_read") = true
  · rw [if_pos c] at h
    simp only [] at h
    split at h
    · cases h
    · rename_i path ed1 hp
      have e0 : ed1.xgdep = ed.xgdep := by
        split at hp
        · exact pathExpand_dep hp
        · cases hp; rfl
      split at h
      · cases h
      · rename_i edr hr
        have e1 := (exRegion_dep hr).trans e0
        repeat' (split at h)
        all_goals (first | cases h | skip)
        all_goals (first | exact e1 | skip)
        · rename_i hm
          split at hm
          · exact (edit_dep hm).trans e1
          · cases hm; exact e1
        · rename_i lb1 hrd
          exact (setLb_dep _ lb1).trans e1
  rw [if_neg c] at h; clear c
  by_cases c : (hd == "ec_write") = true
  · exact absurd (by simpa using c) hw
  rw [if_neg c] at h; clear c
  by_cases c : (hd == "ec_quit") = true
  · exact absurd (by simpa using c) hq
  rw [if_neg c] at h; clear c
  by_cases c : (hd == "ec_buffer") = true
  · exact absurd (by simpa using c) hbuf
  rw [if_neg c] at h; clear c
  by_cases c : (hd == "ec_set") = true
  · rw [if_pos c] at h
    simp only [] at h
    repeat' (split at h)
    all_goals (first | cases h | skip)
    all_goals (first | rfl | exact setOpt_dep _ _ _)
  rw [if_neg c] at h; clear c
  by_cases c : (hd == "ec_echo") = true
  · rw [if_pos c] at h
    cases h; rfl
  rw [if_neg c] at h; clear c
  cases h; rfl

theorem runCmd_local_dep_any (f : Nat) (ed ed' : Ed) (hd : String) (loc cmd arg : Bytes) (txt : Option Bytes) (r : Int)
    (hl : tableHandler hd = false) (h : runCmd f ed hd loc cmd arg txt = some (r, ed')) : ed'.xgdep = ed.xgdep := by
  cases f with
  | zero => rw [runCmd] at h; cases h
  | succ f => exact runCmd_local_dep f ed ed' hd loc cmd arg txt r hl h

/-! ### `:q` and `:b` -/

theorem each_dep (cmd : Bytes) (all : Bool) : ∀ (g i : Nat) (ed ed' : Ed) (r : Bool),
    runCmd.each cmd all g i ed = some (r, ed') → ed'.xgdep = ed.xgdep := by
  intro g
  induction g with
  | zero => intro i ed ed' r h; rw [runCmd.each.eq_1] at h; cases h; rfl
  | succ g ih =>
    intro i ed ed' r h
    rw [runCmd.each.eq_2] at h
    split at h
    · cases h; rfl
    · split at h
      · exact ih _ _ _ _ h
      · rename_i b0 hb0
        simp only [] at h
        split at h
        · cases h
        · rename_i ed1 hchk
          have q1 : ed1.xgdep = ed.xgdep := by
            split at hchk
            · exact bufsModified_dep hchk
            · cases hchk
          cases h
          exact (bufsSwitch_dep _ _).trans q1
        · rename_i ed1 hchk
          have h1 : ed1.xgdep = ed.xgdep := by
            split at hchk
            · exact bufsModified_dep hchk
            · cases hchk; rfl
          split at h
          · split at h
            · cases h
            · rename_i b1 hb1
              split at h
              · cases h
              · rename_i err ed2 hs
                cases h
                exact ((bufsSwitch_dep _ _).trans (lbufSaveP_dep hs)).trans h1
              · rename_i ed2 hs
                exact (ih _ _ _ _ h).trans ((lbufSaveP_dep hs).trans h1)
          · exact (ih _ _ _ _ h).trans h1

theorem quit_dep (f : Nat) (ed ed' : Ed) (loc cmd arg : Bytes) (txt : Option Bytes) (r : Int)
    (h : runCmd (f + 1) ed "ec_quit" loc cmd arg txt = some (r, ed')) : ed'.xgdep = ed.xgdep := by
  rw [runCmd_quit] at h
  split at h
  · cases h
  · rename_i rc ed1 hw
    have h1 : ed1.xgdep = ed.xgdep := by
      split at hw
      · exact ecWrite_dep hw
      · cases hw; rfl
    split at h
    · cases h; exact h1
    · split at h
      · cases h
      · rename_i he; cases h; exact (each_dep _ _ _ _ _ _ _ he).trans h1
      · rename_i he; cases h; exact (each_dep _ _ _ _ _ _ _ he).trans h1

theorem switchTo_dep (ed ed' : Ed) (cmd : Bytes) (idx r : Int) (h : switchTo ed cmd idx = some (r, ed')) :
    ed'.xgdep = ed.xgdep := by
  unfold switchTo at h
  split at h
  · split at h
    · cases h
    · next ed1 hg =>
      cases h
      unfold bufferGuard at hg
      split at hg
      · exact bufsModified_dep hg
      · cases hg
    · next ed1 hg =>
      cases h
      unfold bufferGuard at hg
      refine (bufsSwitch_dep _ _).trans ?_
      split at hg
      · exact bufsModified_dep hg
      · cases hg; rfl
  · cases h; rfl

theorem delEd_dep (ed : Ed) : (delEd ed).xgdep = ed.xgdep := by
  unfold delEd
  split
  · exact bufsShift_dep ed
  · exact bufsShift_dep ed

theorem listStep_dep (st : Bool × Ed) (i : Nat) : (listStep st i).2.xgdep = st.2.xgdep := by
  obtain ⟨go, ed⟩ := st
  unfold listStep
  simp only []
  split
  · rfl
  · split
    · rfl
    · have hm := modifiedAt_dep ed i
      generalize ed.modifiedAt i = p at hm
      obtain ⟨m, ed1⟩ := p
      exact hm

theorem foldl_listStep_dep : ∀ (l : List Nat) (st : Bool × Ed), (l.foldl listStep st).2.xgdep = st.2.xgdep := by
  intro l
  induction l with
  | nil => intro st; rfl
  | cons i l ih => intro st; rw [List.foldl_cons, ih, listStep_dep]

theorem buffer_dep (f : Nat) (ed ed' : Ed) (loc cmd arg : Bytes) (txt : Option Bytes) (r : Int)
    (h : runCmd (f + 1) ed "ec_buffer" loc cmd arg txt = some (r, ed')) : ed'.xgdep = ed.xgdep := by
  cases h0 : arg.isEmpty
  · by_cases h33 : arg.headD 0 = 33
    · rw [runCmd_b_delete f ed loc cmd arg txt h33] at h
      cases h
      exact delEd_dep ed
    · by_cases h126 : arg.headD 0 = 126
      · rw [runCmd_b_renumber f ed loc cmd arg txt h126] at h
        cases h
        rfl
      · obtain ⟨idx, hs⟩ := runCmd_b_switch f ed loc cmd arg txt h0 h33 h126
        rw [hs] at h
        exact switchTo_dep ed ed' cmd idx r h
  · rw [runCmd_b_list f ed loc cmd arg txt h0] at h
    cases h
    exact foldl_listStep_dep _ (true, ed)

/-! ### `:e` -/

theorem editOpen_dep (ed : Ed) (path : Bytes) : (editOpen ed path).xgdep = ed.xgdep := by
  unfold editOpen
  split
  · simp only []
    exact (bufsSwitch_dep _ _).trans (bufsOpen_dep ed path)
  · rfl

theorem ewPre_dep (ed : Ed) (cmd path : Bytes) : (ewPre ed cmd path).xgdep = ed.xgdep := by
  unfold ewPre
  split
  · exact bufsSwitch_dep _ _
  · rfl

theorem editFinish_dep (ed ed' : Ed) (path : Bytes) (h : editFinish ed path = some ed') : ed'.xgdep = ed.xgdep := by
  unfold editFinish at h
  split at h
  · cases h
  · rename_i b hb
    split at h
    · cases h
    · rename_i ed1 hrd
      have l1 : ed1.xgdep = ed.xgdep := by
        unfold editRead at hrd
        split at hrd
        · split at hrd
          · cases hrd; rfl
          · split at hrd
            · cases hrd
            · cases hrd
              exact setLb_dep _ _
        · cases hrd; rfl
      split at h
      · cases h
      · cases h
        exact l1

theorem editPlus_dep (f : Nat) (hcmd : ∀ ed ln r ed', exCommand f ed ln = some (r, ed') → ed'.xgdep = ed.xgdep)
    (pls : Bytes) (ed ed' : Ed) (r : Int) (h : editPlus f pls ed = some (r, ed')) : ed'.xgdep = ed.xgdep := by
  unfold editPlus at h
  split at h
  · exact hcmd _ _ _ _ h
  · cases h; rfl

theorem ecEdit_dep (f : Nat) (hcmd : ∀ ed ln r ed', exCommand f ed ln = some (r, ed') → ed'.xgdep = ed.xgdep)
    (ed ed' : Ed) (cmd arg : Bytes) (r : Int)
    (h : ecEdit (f + 1) ed cmd arg = some (r, ed')) : ed'.xgdep = ed.xgdep := by
  rw [ecEdit_stages] at h
  have hguard : ∀ g ed1, editGuard ed cmd = some (g, ed1) → ed1.xgdep = ed.xgdep := by
    intro g ed1 hg
    unfold editGuard at hg
    split at hg
    · exact bufsModified_dep hg
    · cases hg; rfl
  split at h
  · cases h
  · rename_i ed1 hg
    cases h
    exact hguard _ _ hg
  · rename_i ed1 hg
    have e1 : ed1.xgdep = ed.xgdep := hguard _ _ hg
    split at h
    · cases h
    · rename_i ed2 hp
      cases h
      exact (pathExpand_dep hp).trans e1
    · rename_i path ed2 hp
      have e2 : ed2.xgdep = ed.xgdep := (pathExpand_dep hp).trans e1
      have e3 : (ewPre ed2 cmd path).xgdep = ed.xgdep := (ewPre_dep ed2 cmd path).trans e2
      have hguard2 : ∀ g ed3, editGuard2 (ewPre ed2 cmd path) path = some (g, ed3) → ed3.xgdep = ed.xgdep := by
        intro g ed3 hg2
        unfold editGuard2 at hg2
        split at hg2
        · exact (bufsModified_dep hg2).trans e3
        · cases hg2; exact e3
      split at h
      · exact (editPlus_dep f hcmd _ _ _ _ h).trans ((bufsSwitch_dep _ _).trans e3)
      · split at h
        · cases h
        · rename_i ed3 hg2
          cases h
          exact hguard2 _ _ hg2
        · rename_i ed3 hg2
          have e4 : ed3.xgdep = ed.xgdep := hguard2 _ _ hg2
          split at h
          · cases h
          · rename_i ed5 hfin
            have e5 : ed5.xgdep = ed.xgdep :=
              ((editFinish_dep _ _ _ hfin).trans (editOpen_dep ed3 path)).trans e4
            exact (editPlus_dep f hcmd _ _ _ _ h).trans e5

/-! ### `:@` -/

theorem ecAt_dep (f : Nat) (hcmd : ∀ ed ln r ed', exCommand f ed ln = some (r, ed') → ed'.xgdep = ed.xgdep)
    (ed ed' : Ed) (loc cmd arg : Bytes) (r : Int)
    (h : ecAt (f + 1) ed loc cmd arg = some (r, ed')) : ed'.xgdep = ed.xgdep := by
  rw [ecAt] at h
  split at h
  · cases h; rfl
  · split at h
    · cases h
    · rename_i hr
      have e1 := exRegion_dep hr
      split at h
      · cases h; exact e1
      · split at h
        · cases h; exact e1
        · simp only [] at h
          split at h
          · cases h; exact e1
          · split at h
            · cases h
            · rename_i r2 ed2 hx
              cases h
              exact (hcmd _ _ _ _ hx).trans e1

/-! ### `:g` -/

theorem adv_dep (dep : Nat) : ∀ (h : Nat) (ed : Ed) (i : Int), (ecGlob.scan.adv dep h ed i).1.xgdep = ed.xgdep := by
  intro h
  induction h with
  | zero => intro ed i; rw [ecGlob.scan.adv]
  | succ h ih =>
    intro ed i
    rw [ecGlob.scan.adv]
    split
    · rfl
    · split
      · rfl
      · simp only []
        split
        · exact setLb_dep _ _
        · rw [ih]; exact setLb_dep _ _

/-- the loop of `:g` ends at the depth it runs at, given that its command list keeps the depth -/
theorem scan_dep (f : Nat) (neg : Bool) (s : Bytes) (re : RStr) (dep : Nat)
    (hbody : ∀ ed ln r ed', exExec f ed ln = some (r, ed') → ed'.xgdep = ed.xgdep) :
    ∀ (g : Nat) (ed : Ed) (i : Int) (ed' : Ed), ecGlob.scan f neg s re dep g ed i = some ed' → ed'.xgdep = ed.xgdep := by
  intro g
  induction g with
  | zero => intro ed i ed' h; rw [ecGlob.scan] at h; cases h
  | succ g ih =>
    intro ed i ed' h
    rw [ecGlob.scan] at h
    split at h
    · cases h; rfl
    · split at h
      · cases h
      · split at h
        · cases h
        · simp only [] at h
          split at h
          · cases h
          · rename_i edx _ hstep
            cases h
            split at hstep
            · split at hstep
              · cases hstep
              · rename_i hx
                split at hstep
                · cases hstep
                  exact (hbody _ _ _ _ hx).trans rfl
                · cases hstep
            · cases hstep
          · rename_i edx ix hstep
            have e1 : edx.xgdep = ed.xgdep := by
              split at hstep
              · split at hstep
                · cases hstep
                · rename_i hx
                  split at hstep
                  · cases hstep
                  · cases hstep
                    exact (hbody _ _ _ _ hx).trans rfl
              · cases hstep; rfl
            split at h
            · cases h
            · exact ((ih _ _ _ h).trans (adv_dep _ _ _ _)).trans e1

theorem foldl_globSet_dep (b dep : Nat) : ∀ (l : List Nat) (ed : Ed),
    (l.foldl (fun (ed : Ed) k =>
      match ed.lb with | some lb => ed.setLb (globSet lb (b + 1 + k) dep) | none => ed) ed).xgdep = ed.xgdep := by
  intro l
  induction l with
  | nil => intro ed; rfl
  | cons k l ih =>
    intro ed
    rw [List.foldl_cons, ih]
    split
    · exact setLb_dep _ _
    · rfl

/-- after the marking loop the depth is the one `xgdep++` made -/
theorem globMark_dep (ed : Ed) (b e : Int) (dep : Nat) : (globMark ed b e dep).xgdep = dep := by
  unfold globMark
  exact foldl_globSet_dep b.toNat dep _ _

theorem globSweep_dep (ed : Ed) (dep : Nat) : (globSweep ed dep).xgdep = ed.xgdep := by
  unfold globSweep
  split
  · exact setLb_dep _ _
  · rfl

/-- the outcomes of `ec_glob` one by one, with the depth at each exit:
    * seven `:g` are nested already: returns 1 at once (the guard of the repaired `ec_glob`);
    * the range is bad (`ex_region` fails): returns 1 before `xgdep++`;
    * there is no pattern to use (`g//d` without a previous search), or the pattern does not compile: returns 1
      before `xgdep++`;
    * otherwise `xgdep < 7`, the loop runs at depth `xgdep + 1 ≤ 7` and — normal end or `break` after a failing command — ends at
      that depth (so the model's `xgdep := dep - 1` is the `xgdep--` of the C code), and `ec_glob` returns 0 at the
      depth it was called at. -/
theorem ecGlob_outcomes (f : Nat) (hbody : ∀ ed ln r ed', exExec f ed ln = some (r, ed') → ed'.xgdep = ed.xgdep)
    (ed ed' : Ed) (loc cmd arg : Bytes) (r : Int)
    (h : ecGlob (f + 1) ed loc cmd arg = some (r, ed')) :
    ed'.xgdep = ed.xgdep ∧
    (r = 1 ∨ (r = 0 ∧ ed.xgdep < 7 ∧ ∃ rc b e ed1 re ed2,
      exRegion ed (if loc.isEmpty && ed.xgdep == 0 then [37] else loc) = some ((rc, b, e), ed1) ∧
      ecGlob.scan f (hasBang cmd || cmd.headD 0 == 118) (reRead arg).2 re (ed.xgdep + 1)
        (globBudget (globMark (globPrep ed1 arg) b e (ed.xgdep + 1)))
        (globMark (globPrep ed1 arg) b e (ed.xgdep + 1)) b = some ed2 ∧
      ed2.xgdep = ed.xgdep + 1 ∧ ed' = { globSweep ed2 (ed.xgdep + 1) with xgdep := ed2.xgdep - 1 })) := by
  rw [ecGlob_eq] at h
  split at h
  · cases h; exact ⟨rfl, Or.inl rfl⟩
  rename_i hguard
  split at h
  · cases h
  · rename_i rc b e ed1 hr
    have e1 := exRegion_dep hr
    have e2 := (globPrep_dep ed1 arg).trans e1
    split at h
    · cases h; exact ⟨e1, Or.inl rfl⟩
    · split at h
      · cases h; exact ⟨e2, Or.inl rfl⟩
      · split at h
        · cases h
        · cases h; exact ⟨e2, Or.inl rfl⟩
        · rename_i re hre
          split at h
          · cases h
          · rename_i ed2 hscan
            cases h
            rw [e2] at hscan
            have e3 : ed2.xgdep = ed.xgdep + 1 :=
              (scan_dep f _ _ _ _ hbody _ _ _ _ hscan).trans (globMark_dep _ _ _ _)
            refine ⟨by show (globPrep ed1 arg).xgdep + 1 - 1 = ed.xgdep; rw [e2]; rfl, Or.inr ⟨rfl, by omega, ?_⟩⟩
            refine ⟨rc, b, e, ed1, re, ed2, hr, hscan, e3, ?_⟩
            rw [e2, e3]

theorem ecGlob_dep (f : Nat) (hbody : ∀ ed ln r ed', exExec f ed ln = some (r, ed') → ed'.xgdep = ed.xgdep)
    (ed ed' : Ed) (loc cmd arg : Bytes) (r : Int)
    (h : ecGlob (f + 1) ed loc cmd arg = some (r, ed')) : ed'.xgdep = ed.xgdep :=
  (ecGlob_outcomes f hbody ed ed' loc cmd arg r h).1

/-! ### the dispatcher, command lines, the induction on the fuel -/

def ExecD (f : Nat) : Prop := ∀ ed ln r ed', exExec f ed ln = some (r, ed') → ed'.xgdep = ed.xgdep
def CmdD (f : Nat) : Prop := ∀ ed ln r ed', exCommand f ed ln = some (r, ed') → ed'.xgdep = ed.xgdep
def RunD (f : Nat) : Prop := ∀ ed h loc cmd arg txt r ed',
  runCmd f ed h loc cmd arg txt = some (r, ed') → ed'.xgdep = ed.xgdep

theorem runCmd_dep (f : Nat)
    (hat : ∀ ed loc cmd arg r ed', ecAt f ed loc cmd arg = some (r, ed') → ed'.xgdep = ed.xgdep)
    (hglob : ∀ ed loc cmd arg r ed', ecGlob f ed loc cmd arg = some (r, ed') → ed'.xgdep = ed.xgdep)
    (hedit : ∀ ed cmd arg r ed', ecEdit f ed cmd arg = some (r, ed') → ed'.xgdep = ed.xgdep) : RunD (f + 1) := by
  intro ed hd loc cmd arg txt r ed' h
  cases hl : tableHandler hd
  · exact runCmd_local_dep f ed ed' hd loc cmd arg txt r hl h
  · simp only [tableHandler, Bool.or_eq_true, beq_iff_eq] at hl
    rcases hl with (((he | hb) | hq) | hg) | ha
    · subst he; rw [runCmd_edit] at h; exact hedit _ _ _ _ _ h
    · subst hb; exact buffer_dep f ed ed' loc cmd arg txt r h
    · subst hq; exact quit_dep f ed ed' loc cmd arg txt r h
    · subst hg; rw [runCmd_glob] at h; exact hglob _ _ _ _ _ _ h
    · subst ha; rw [runCmd_at] at h; exact hat _ _ _ _ _ _ h

theorem cmds_dep (f : Nat) (hrun : RunD f) :
    ∀ (g : Nat) (ed : Ed) (ln : Bytes) (ret r : Int) (ed' : Ed),
      exExec.cmds f g ed ln ret = some (r, ed') → ed'.xgdep = ed.xgdep := by
  intro g
  induction g with
  | zero => intro ed ln ret r ed' h; rw [exExec.cmds] at h; cases h; rfl
  | succ g ih =>
    intro ed ln ret r ed' h
    rw [exExec.cmds] at h
    split at h
    · cases h; rfl
    · generalize exLoc ln = p1 at h
      obtain ⟨loc, l1⟩ := p1
      simp only [] at h
      generalize exCmd l1 = p2 at h
      obtain ⟨cmd, l2⟩ := p2
      simp only [] at h
      generalize exIdx cmd = idx at h
      cases idx with
      | none =>
        simp only [] at h
        generalize exArg l2 (strOf "unknown") = p3 at h
        obtain ⟨arg, l3⟩ := p3
        simp only [] at h
        have hb := exTxt_dep ed l3 (strOf "unknown")
        generalize exTxt ed l3 (strOf "unknown") = X at h hb
        obtain ⟨⟨txt, l4⟩, edT⟩ := X
        simp only [] at h hb
        exact (ih _ _ _ _ _ h).trans hb
      | some ah =>
        obtain ⟨a, hh⟩ := ah
        simp only [] at h
        generalize exArg l2 a = p3 at h
        obtain ⟨arg, l3⟩ := p3
        simp only [] at h
        have hb := exTxt_dep ed l3 a
        generalize exTxt ed l3 a = X at h hb
        obtain ⟨⟨txt, l4⟩, edT⟩ := X
        simp only [] at h hb
        split at h
        · cases h
        · rename_i r1 ed1 hr
          exact ((ih _ _ _ _ _ h).trans (hrun _ _ _ _ _ _ _ _ hr)).trans hb

theorem exExec_dep' (f : Nat) (hrun : RunD f) : ExecD (f + 1) := by
  intro ed ln r ed' h
  rw [exExec] at h
  split at h
  · cases h; rfl
  · exact cmds_dep f hrun _ _ _ _ _ _ h

theorem exCommand_dep' (f : Nat) (hx : ExecD f) : CmdD (f + 1) := by
  intro ed ln r ed' h
  rw [exCommand] at h
  split at h
  · cases h
  · rename_i r1 ed1 he
    cases h
    exact (modifiedAt_dep _ _).trans (hx _ _ _ _ he)

theorem all_dep : ∀ f : Nat, ExecD f ∧ CmdD f ∧ RunD f ∧ RunD (f + 1) := by
  intro f
  induction f with
  | zero =>
    refine ⟨?_, ?_, ?_, ?_⟩
    · intro ed ln r ed' h; rw [exExec] at h; cases h
    · intro ed ln r ed' h; rw [exCommand] at h; cases h
    · intro ed hd loc cmd arg txt r ed' h; rw [runCmd] at h; cases h
    · refine runCmd_dep 0 ?_ ?_ ?_
      · intro ed loc cmd arg r ed' h; rw [ecAt] at h; cases h
      · intro ed loc cmd arg r ed' h; rw [ecGlob] at h; cases h
      · intro ed cmd arg r ed' h; rw [ecEdit] at h; cases h
  | succ f ih =>
    obtain ⟨hx, hc, hr0, hr1⟩ := ih
    refine ⟨exExec_dep' f hr0, exCommand_dep' f hx, hr1, ?_⟩
    refine runCmd_dep (f + 1) ?_ ?_ ?_
    · intro ed loc cmd arg r ed' h; exact ecAt_dep f hc ed ed' loc cmd arg r h
    · intro ed loc cmd arg r ed' h; exact ecGlob_dep f hx ed ed' loc cmd arg r h
    · intro ed cmd arg r ed' h; exact ecEdit_dep f hc ed ed' cmd arg r h

/-- **every run of `ex_exec` ends at the `:g` depth it started at** -/
theorem exExec_dep {f : Nat} {ed ed' : Ed} {ln : Bytes} {r : Int} (h : exExec f ed ln = some (r, ed')) :
    ed'.xgdep = ed.xgdep := (all_dep f).1 _ _ _ _ h

theorem exCommand_dep {f : Nat} {ed ed' : Ed} {ln : Bytes} {r : Int} (h : exCommand f ed ln = some (r, ed')) :
    ed'.xgdep = ed.xgdep := (all_dep f).2.1 _ _ _ _ h

theorem runCmd_dep_all {f : Nat} {ed ed' : Ed} {hd : String} {loc cmd arg : Bytes} {txt : Option Bytes} {r : Int}
    (h : runCmd f ed hd loc cmd arg txt = some (r, ed')) : ed'.xgdep = ed.xgdep :=
  (all_dep f).2.2.1 _ _ _ _ _ _ _ _ h

/-- **ecGlob_restores_depth**, for every fuel, state, range, pattern and command list -/
theorem ecGlob_restores_depth_all {f : Nat} {ed ed' : Ed} {loc cmd arg : Bytes} {r : Int}
    (h : ecGlob f ed loc cmd arg = some (r, ed')) : ed'.xgdep = ed.xgdep := by
  cases f with
  | zero => rw [ecGlob] at h; cases h
  | succ f => exact ecGlob_dep f (all_dep f).1 ed ed' loc cmd arg r h

/-- the exits of `ec_glob`, with nothing assumed about the command list -/
theorem ecGlob_outcomes_all (f : Nat) (ed ed' : Ed) (loc cmd arg : Bytes) (r : Int)
    (h : ecGlob (f + 1) ed loc cmd arg = some (r, ed')) :
    ed'.xgdep = ed.xgdep ∧
    (r = 1 ∨ (r = 0 ∧ ed.xgdep < 7 ∧ ∃ rc b e ed1 re ed2,
      exRegion ed (if loc.isEmpty && ed.xgdep == 0 then [37] else loc) = some ((rc, b, e), ed1) ∧
      ecGlob.scan f (hasBang cmd || cmd.headD 0 == 118) (reRead arg).2 re (ed.xgdep + 1)
        (globBudget (globMark (globPrep ed1 arg) b e (ed.xgdep + 1)))
        (globMark (globPrep ed1 arg) b e (ed.xgdep + 1)) b = some ed2 ∧
      ed2.xgdep = ed.xgdep + 1 ∧ ed' = { globSweep ed2 (ed.xgdep + 1) with xgdep := ed2.xgdep - 1 })) :=
  ecGlob_outcomes f (all_dep f).1 ed ed' loc cmd arg r h

end Neatvi.Lemmas.C15b
