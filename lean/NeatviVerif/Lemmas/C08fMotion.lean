import NeatviVerif.Lemmas.C08fOps
/-!
# C08f: `readMotion` for the motion keys, and `opRegion` on one row
-/
set_option linter.unusedSimpArgs false
set_option linter.unusedVariables false
namespace Neatvi.Lemmas.C08f
open Neatvi Neatvi.Uc Neatvi.Vi Neatvi.Ex Neatvi.Lbuf Neatvi.Mot Neatvi.Spec Neatvi.Lemmas.C08 Neatvi.Lemmas.C09 Neatvi.Lemmas.C08b

/-! ### `readMotion` -/

/-- a line motion -/
theorem readMotion_line (cmd : Nat) (r1 o1 : Int) (s s1 : VS) (k t : Int) (hk : viRead s = Res.ok k s1)
    (ht : lnTarget s r1 cmd k = some t) (hk0 : k ≠ 0) :
    readMotion cmd r1 o1 s = Res.ok (some (k, (if t < 0 then 0 else t), -1)) s1 := by
  unfold readMotion
  simp only [bind_apply]
  rw [viMotionln_line r1 cmd s s1 k t hk ht]
  simp only []
  rw [if_pos (by simpa using hk0)]
  rfl

/-- not a line motion: the key is handed to `vi_motion` -/
theorem readMotion_char (cmd : Nat) (r1 o1 : Int) (s s1 s2 : VS) (k mv r2 o2 : Int) (hk : viRead s = Res.ok k s1)
    (hn : isLnKey cmd k = false)
    (hm : viMotion r1 o1 { s1 with vibuf := k :: s1.vibuf } = Res.ok (mv, r2, o2) s2) (hmv : mv ≠ 0) :
    readMotion cmd r1 o1 s = Res.ok (some (mv, r2, o2)) s2 := by
  unfold readMotion
  simp only [bind_apply]
  rw [viMotionln_other r1 cmd s s1 k hk hn]
  simp only [bne_self_eq_false, Bool.false_eq_true, if_false, bind_apply]
  rw [hm]
  simp only []
  rw [if_neg (by simpa using hmv)]
  rfl

/-! ### `vi_motion`, key by key (`s1`: the state after the key was read) -/

/-- the step of `SPC`: one character to the right, up to the newline -/
def stepSpc (ls : Lines) (r o : Int) : Option (Int × Int) :=
  if o + 1 < 0 || (lineAt ls r).isNone || o + 1 ≥ slenAt ls r then none else some (r, o + 1)

/-- the step of `BS` / `DEL`: one character to the left -/
def stepBs (ls : Lines) (r o : Int) : Option (Int × Int) :=
  if o - 1 < 0 || (lineAt ls r).isNone || o - 1 ≥ slenAt ls r then none else some (r, o - 1)

theorem viMotion_spc (row off : Int) (s s1 : VS) (hk : viRead s = Res.ok 32 s1) :
    viMotion row off s = Res.ok (32, repeatMove (stepSpc (lines s1)) (cntOf s).toNat row off) s1 := by
  unfold viMotion
  simp only [bind_apply, get_apply]
  rw [viMotionln_other row 0 s s1 32 hk (by decide)]
  simp (config := {decide := true}) only [bind_apply, get_apply, viRead_back, if_false, if_true]
  rfl

theorem viMotion_bs (row off : Int) (s s1 : VS) (hk : viRead s = Res.ok 8 s1) :
    viMotion row off s = Res.ok (8, repeatMove (stepBs (lines s1)) (cntOf s).toNat row off) s1 := by
  unfold viMotion
  simp only [bind_apply, get_apply]
  rw [viMotionln_other row 0 s s1 8 hk (by decide)]
  simp (config := {decide := true}) only [bind_apply, get_apply, viRead_back, if_false, if_true]
  rfl

theorem viMotion_dollar (row off : Int) (s s1 : VS) (hk : viRead s = Res.ok 36 s1) :
    viMotion row off s = Res.ok (36, row, eol (lines s1) row) s1 := by
  unfold viMotion
  simp only [bind_apply, get_apply]
  rw [viMotionln_other row 0 s s1 36 hk (by decide)]
  simp (config := {decide := true}) only [bind_apply, get_apply, viRead_back, if_false, if_true]
  rfl

theorem viMotion_zero (row off : Int) (s s1 : VS) (hk : viRead s = Res.ok 48 s1) :
    viMotion row off s = Res.ok (48, row, 0) s1 := by
  unfold viMotion
  simp only [bind_apply, get_apply]
  rw [viMotionln_other row 0 s s1 48 hk (by decide)]
  simp (config := {decide := true}) only [bind_apply, get_apply, viRead_back, if_false, if_true]
  rfl

theorem viMotion_e (row off : Int) (s s1 : VS) (hk : viRead s = Res.ok 101 s1) :
    viMotion row off s = Res.ok (101, viMotion.go 101 (lines s1) false (cntOf s).toNat row off) s1 := by
  unfold viMotion
  simp only [bind_apply, get_apply]
  rw [viMotionln_other row 0 s s1 101 hk (by decide)]
  simp (config := {decide := true}) only [bind_apply, get_apply, viRead_back, if_false, if_true]
  rfl

theorem viMotion_w (row off : Int) (s s1 : VS) (hk : viRead s = Res.ok 119 s1) :
    viMotion row off s = Res.ok (119, viMotion.go 119 (lines s1) false (cntOf s).toNat row off) s1 := by
  unfold viMotion
  simp only [bind_apply, get_apply]
  rw [viMotionln_other row 0 s s1 119 hk (by decide)]
  simp (config := {decide := true}) only [bind_apply, get_apply, viRead_back, if_false, if_true]
  rfl

theorem viMotion_f (row off : Int) (s s1 s2 : VS) (cs : Bytes) (hk : viRead s = Res.ok 102 s1)
    (hc : viChar s1 = Res.ok (some cs) s2) :
    viMotion row off s =
      match findchar (lines s1) cs 102 (cntOf s) row off with
      | none => Res.ok (-1, row, off) { s2 with charlast := cs, charcmd := 102 }
      | some o => Res.ok (102, row, o) { s2 with charlast := cs, charcmd := 102 } := by
  unfold viMotion
  simp only [bind_apply, get_apply]
  rw [viMotionln_other row 0 s s1 102 hk (by decide)]
  simp (config := {decide := true}) only [bind_apply, get_apply, viRead_back, if_false, if_true, hc, Int.reduceToNat]
  cases findchar (lines s1) cs 102 (cntOf s) row off <;> rfl

theorem viMotion_t (row off : Int) (s s1 s2 : VS) (cs : Bytes) (hk : viRead s = Res.ok 116 s1)
    (hc : viChar s1 = Res.ok (some cs) s2) :
    viMotion row off s =
      match findchar (lines s1) cs 116 (cntOf s) row off with
      | none => Res.ok (-1, row, off) { s2 with charlast := cs, charcmd := 116 }
      | some o => Res.ok (116, row, o) { s2 with charlast := cs, charcmd := 116 } := by
  unfold viMotion
  simp only [bind_apply, get_apply]
  rw [viMotionln_other row 0 s s1 116 hk (by decide)]
  simp (config := {decide := true}) only [bind_apply, get_apply, viRead_back, if_false, if_true, hc, Int.reduceToNat]
  cases findchar (lines s1) cs 116 (cntOf s) row off <;> rfl

theorem viMotion_F_ (row off : Int) (s s1 s2 : VS) (cs : Bytes) (hk : viRead s = Res.ok 70 s1)
    (hc : viChar s1 = Res.ok (some cs) s2) :
    viMotion row off s =
      match findchar (lines s1) cs 70 (cntOf s) row off with
      | none => Res.ok (-1, row, off) { s2 with charlast := cs, charcmd := 70 }
      | some o => Res.ok (70, row, o) { s2 with charlast := cs, charcmd := 70 } := by
  unfold viMotion
  simp only [bind_apply, get_apply]
  rw [viMotionln_other row 0 s s1 70 hk (by decide)]
  simp (config := {decide := true}) only [bind_apply, get_apply, viRead_back, if_false, if_true, hc, Int.reduceToNat]
  cases findchar (lines s1) cs 70 (cntOf s) row off <;> rfl

theorem viMotion_T_ (row off : Int) (s s1 s2 : VS) (cs : Bytes) (hk : viRead s = Res.ok 84 s1)
    (hc : viChar s1 = Res.ok (some cs) s2) :
    viMotion row off s =
      match findchar (lines s1) cs 84 (cntOf s) row off with
      | none => Res.ok (-1, row, off) { s2 with charlast := cs, charcmd := 84 }
      | some o => Res.ok (84, row, o) { s2 with charlast := cs, charcmd := 84 } := by
  unfold viMotion
  simp only [bind_apply, get_apply]
  rw [viMotionln_other row 0 s s1 84 hk (by decide)]
  simp (config := {decide := true}) only [bind_apply, get_apply, viRead_back, if_false, if_true, hc, Int.reduceToNat]
  cases findchar (lines s1) cs 84 (cntOf s) row off <;> rfl

/-! ### `opRegion` -/

/-- a line motion: the rows in order, line mode -/
theorem opRegion_line (s : VS) (mv r1 o1 r2 : Int) :
    ∃ a b, opRegion s mv r1 o1 r2 (-1) = (min r1 r2, a, max r1 r2, b, true) := by
  unfold opRegion normRegion
  have hd : decide ((-1 : Int) < 0) = true := by decide
  simp only [hd, if_true, Bool.not_true, Bool.false_and, Bool.false_eq_true, if_false]
  by_cases h : r1 > r2
  · rw [if_pos h]
    simp only []
    rw [show min r1 r2 = r2 by omega, show max r1 r2 = r1 by omega]
    exact ⟨_, _, rfl⟩
  · rw [if_neg h]
    simp only []
    rw [show min r1 r2 = r1 by omega, show max r1 r2 = r2 by omega]
    exact ⟨_, _, rfl⟩

/-- a motion within the row: the offsets in order, the inclusive adjustment -/
theorem opRegion_row (s : VS) (mv r o t : Int) (ht : 0 ≤ t) :
    opRegion s mv r o r t = (r, noeol s r (min o t), r,
      (if inclusive s mv && decide (max o t < eol (lines s) r) then noeol s r (max o t) + 1 else max o t), false) := by
  unfold opRegion normRegion
  have hd : decide (t < 0) = false := by simp; omega
  simp only [hd, Bool.false_eq_true, if_false, Bool.not_false, Bool.true_and, gt_iff_lt, Int.lt_irrefl, beq_self_eq_true]
  by_cases h : t < o
  · rw [if_pos (by simpa using h)]
    simp only []
    rw [show min o t = t by omega, show max o t = o by omega]
  · rw [if_neg (by simpa using h)]
    simp only []
    rw [show min o t = o by omega, show max o t = t by omega]

end Neatvi.Lemmas.C08f
