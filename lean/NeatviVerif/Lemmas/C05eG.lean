import NeatviVerif.Lemmas.C05eE
import NeatviVerif.Lemmas.C05eF
/-!
# C05e lemmas, part G: the handlers that run command lines of their own — `:@`, `:e +cmd`

Each is total given that the command line it runs returns (`hC`); the fuel they need is one more than the fuel of
that command line.
-/
namespace Neatvi.Lemmas.C05e
open Neatvi Neatvi.Lbuf Neatvi.LbufIo Neatvi.Ex Neatvi.Rset
open Neatvi.Lemmas.ExFrame Neatvi.Lemmas.C02Ex Neatvi.Lemmas.C02b Neatvi.Lemmas.C06 Neatvi.Props.C20

/-! ### `:@` -/

theorem ecAt_ret (hre : ReSafe) (f : Nat) {ed : Ed} (h : Safe ed) (loc cmd arg : Bytes) (hloc : 0 ∉ loc)
    (hC : ∀ (ed' : Ed) (buf : Bytes), Safe ed' → ed'.atDepth = ed.atDepth + 1 → ed.atDepth < 16 →
      ¬ ((cmd.headD 0 == 114 && cmd.getD 1 0 == 97) = true) → Ret (ed.atDepth + 1) (exCommand f ed' buf)) :
    Ret ed.atDepth (ecAt (f + 1) ed loc cmd arg) := by
  rw [ecAt]
  split
  · exact Ret.mk h rfl
  · rename_i buf _
    obtain ⟨rc, b, e, ed1, hr, h1, hd1, _⟩ := region_cases hre h loc hloc
    rw [hr]
    dsimp only
    split
    · exact Ret.mk h1 hd1
    · split
      · exact Ret.mk (h1.show _) hd1
      · rename_i hdep
        split
        · exact Ret.mk (h1.of_bufs rfl) hd1
        · rename_i hra
          obtain ⟨r, ed2, he, h2, hd2⟩ := hC { ed1 with xrow := b, atDepth := ed1.atDepth + 1 } buf (h1.of_bufs rfl)
            (by show ed1.atDepth + 1 = _; rw [hd1]) (by rw [← hd1]; omega) hra
          rw [he]
          exact Ret.mk (h2.of_bufs rfl) (by show ed2.atDepth - 1 = _; rw [hd2]; omega)

theorem run_at (hre : ReSafe) (f : Nat) {ed : Ed} (h : Safe ed) (loc cmd arg : Bytes) (txt : Option Bytes)
    (hloc : 0 ∉ loc) (hC : ∀ (ed' : Ed) (buf : Bytes), Safe ed' → ed'.atDepth = ed.atDepth + 1 → ed.atDepth < 16 →
      ¬ ((cmd.headD 0 == 114 && cmd.getD 1 0 == 97) = true) → Ret (ed.atDepth + 1) (exCommand f ed' buf)) :
    Ret ed.atDepth (runCmd (f + 2) ed "ec_at" loc cmd arg txt) := by
  rw [runCmd]
  simp (config := {decide := true}) only [if_false, if_true]
  exact ecAt_ret hre f h loc cmd arg hloc hC


/-! ### `:e` cut into stages -/

/-- `ex_plus`: the `+cmd` word and the rest of the argument -/
def plusOf (arg0 : Bytes) : Bytes × Bytes :=
  let arg := arg0.dropWhile (· == 32)
  if arg.headD 0 == 43 then
    let (p, r) := copyUntilPlus (arg.length + 1) arg []
    (p, r.dropWhile (fun c => c == 32 || c == 9))
  else ([], arg)

/-- the end of `ec_edit`: the `+cmd` -/
def editPlus (f : Nat) (ed : Ed) (pls : Bytes) : R Int :=
  if pls.headD 0 == 43 then exCommand f ed (pls.drop 1) else some (0, ed)

/-- the buffer is current: read the file, mark saved, clamp the view, run the `+cmd` -/
def editTail (f : Nat) (ed : Ed) (path pls : Bytes) : R Int :=
  match ed.cur with
  | none => none
  | some b =>
    let rdres : Option Ed := match ed.findFile b.path with
      | some fl =>
        if b.path.isEmpty then some ed else
        (match rd b.lb [fl.data] false 0 b.lb.lines.length with
        | none => none
        | some (_, lb) =>
          let ed := ed.setLb lb
          some (ed.show ([34] ++ b.path ++ strOf "\"  [=" ++ natStr lb.lines.length ++ strOf "]  [r]")))
      | none => some ed
    match rdres with
    | none => none
    | some ed =>
      match ed.cur with
      | none => none
      | some b =>
        let lb := savedCore b.lb (!path.isEmpty)
        let ed := ed.setCur { b with lb := (modified lb).2, mtime := ed.mtimeOf b.path }
        let len := ed.len
        let ed := { ed with xrow := clampRow ed.xrow len, xoff := 0, xtop := clampRow ed.xtop len }
        editPlus f ed pls

/-- no buffer of that name: make room, open, go on -/
def editOpen (f : Nat) (ed : Ed) (path pls : Bytes) : R Int :=
  let guard2 : R Bool :=
    if (!path.isEmpty || ed.cur.isNone) && ed.xwa == 0 then bufsModified ed ed.findRoom (some (strOf "last buffer modified"))
    else some (false, ed)
  match guard2 with
  | none => none
  | some (true, ed) => some (1, ed)
  | some (false, ed) =>
    let ed := if !path.isEmpty || ed.cur.isNone then
        let (idx, ed) := ed.bufsOpen path; ed.bufsSwitch idx
      else ed
    editTail f ed path pls

/-- after the path is known -/
def editPath (f : Nat) (ed : Ed) (cmd path pls : Bytes) : R Int :=
  let ed := if !path.isEmpty && cmd.headD 0 == 101 && cmd.getD 1 0 == 119 && ed.bufsFind path > 1 then ed.bufsSwitch 1 else ed
  if !path.isEmpty && ed.bufsFind path ≥ 0 then
    editPlus f (ed.bufsSwitch (ed.bufsFind path).toNat) pls
  else editOpen f ed path pls

theorem ecEdit_eq (f : Nat) (ed : Ed) (cmd arg : Bytes) :
    ecEdit (f + 1) ed cmd arg =
      match (if !hasBang cmd && ed.cur.isSome && ed.xwa == 0 then bufsModified ed 0 (some (strOf "buffer modified"))
        else some (false, ed) : R Bool) with
      | none => none
      | some (true, ed) => some (1, ed)
      | some (false, ed) =>
        match pathExpand ed (plusOf arg).2 false with
        | none => none
        | some (none, ed) => some (1, ed)
        | some (some path, ed) => editPath f ed cmd path (plusOf arg).1 := by
  rw [ecEdit]
  rfl


/-! ### the stages return -/

/-- a table that `:e` can start from: every buffer good, at least one slot (there need not be a current buffer:
    `ex_init` starts from an empty table) -/
structure Pre (ed : Ed) : Prop where
  inv : EdInv ed
  len : 0 < ed.bufs.length
  kwd : 0 ∉ ed.xkwd

theorem Safe.pre {ed : Ed} (h : Safe ed) : Pre ed := by
  refine ⟨h.inv, ?_, h.kwd⟩
  have hc := h.cur
  cases hb : ed.cur with
  | none => rw [hb] at hc; cases hc
  | some b => exact (getD_some (show ed.bufs.getD 0 none = some b from hb)).1

theorem switch_safe {ed : Ed} (hi : EdInv ed) (hk : 0 ∉ ed.xkwd) (idx : Nat) (hs : (ed.bufs.getD idx none).isSome = true) :
    Safe (ed.bufsSwitch idx) := ⟨edInv_bufsSwitch idx hi, switch_cur_isSome ed idx hs, by rw [switch_xkwd]; exact hk⟩

/-- what the `+cmd` needs: the command line it runs returns -/
def PlusOk (f d : Nat) (pls : Bytes) : Prop :=
  (pls.headD 0 == 43) = true → ∀ ed' : Ed, Safe ed' → ed'.atDepth = d → Ret d (exCommand f ed' (pls.drop 1))

theorem editPlus_ret {f : Nat} {ed : Ed} {pls : Bytes} (h : Safe ed) (hC : PlusOk f ed.atDepth pls) :
    Ret ed.atDepth (editPlus f ed pls) := by
  unfold editPlus
  split
  · rename_i hp; exact hC hp ed h rfl
  · exact Ret.mk h rfl

theorem editTail_ret {f : Nat} {ed : Ed} {path pls : Bytes} (h : Safe ed) (hC : PlusOk f ed.atDepth pls) :
    Ret ed.atDepth (editTail f ed path pls) := by
  unfold editTail
  cases hcur : ed.cur with
  | none => have := h.cur; rw [hcur] at this; cases this
  | some b =>
    dsimp only
    have hgb : GoodLb b.lb := edInv_cur h.inv hcur
    have hrd : ∃ ed1, (match ed.findFile b.path with
        | some fl =>
          if b.path.isEmpty then some ed else
          (match rd b.lb [fl.data] false 0 b.lb.lines.length with
          | none => none
          | some (_, lb) =>
            some ((ed.setLb lb).show ([34] ++ b.path ++ strOf "\"  [=" ++ natStr lb.lines.length ++ strOf "]  [r]")))
        | none => some ed) = some ed1 ∧ Safe ed1 ∧ ed1.atDepth = ed.atDepth := by
      split
      · rename_i fl _
        split
        · exact ⟨ed, rfl, h, rfl⟩
        · obtain ⟨rc, lb', hr⟩ := rd_total b.lb [fl.data] false 0 b.lb.lines.length (Nat.zero_le _)
          rw [hr]
          exact ⟨_, rfl, (h.setLb (hgb.rd hr)).show _, by dep⟩
      · exact ⟨ed, rfl, h, rfl⟩
    obtain ⟨ed1, hr1, h1, hd1⟩ := hrd
    rw [hr1]
    dsimp only
    cases hcur1 : ed1.cur with
    | none => have := h1.cur; rw [hcur1] at this; cases this
    | some b1 =>
      dsimp only
      have hgb1 : GoodLb b1.lb := edInv_cur h1.inv hcur1
      have h2 : Safe (ed1.setCur { b1 with lb := (modified (savedCore b1.lb (!path.isEmpty))).2, mtime := ed1.mtimeOf b1.path }) :=
        h1.setCur (hgb1.savedBump _)
      have := editPlus_ret (f := f) (pls := pls) (h2.of_bufs (ed' := { ed1.setCur { b1 with lb := (modified (savedCore b1.lb (!path.isEmpty))).2, mtime := ed1.mtimeOf b1.path } with
          xrow := clampRow (ed1.setCur { b1 with lb := (modified (savedCore b1.lb (!path.isEmpty))).2, mtime := ed1.mtimeOf b1.path }).xrow
            (ed1.setCur { b1 with lb := (modified (savedCore b1.lb (!path.isEmpty))).2, mtime := ed1.mtimeOf b1.path }).len,
          xoff := 0,
          xtop := clampRow (ed1.setCur { b1 with lb := (modified (savedCore b1.lb (!path.isEmpty))).2, mtime := ed1.mtimeOf b1.path }).xtop
            (ed1.setCur { b1 with lb := (modified (savedCore b1.lb (!path.isEmpty))).2, mtime := ed1.mtimeOf b1.path }).len }) rfl)
        (by show PlusOk f ed1.atDepth pls; rw [hd1]; exact hC)
      have e : ({ ed1.setCur { b1 with lb := (modified (savedCore b1.lb (!path.isEmpty))).2, mtime := ed1.mtimeOf b1.path } with
          xrow := clampRow (ed1.setCur { b1 with lb := (modified (savedCore b1.lb (!path.isEmpty))).2, mtime := ed1.mtimeOf b1.path }).xrow
            (ed1.setCur { b1 with lb := (modified (savedCore b1.lb (!path.isEmpty))).2, mtime := ed1.mtimeOf b1.path }).len,
          xoff := 0,
          xtop := clampRow (ed1.setCur { b1 with lb := (modified (savedCore b1.lb (!path.isEmpty))).2, mtime := ed1.mtimeOf b1.path }).xtop
            (ed1.setCur { b1 with lb := (modified (savedCore b1.lb (!path.isEmpty))).2, mtime := ed1.mtimeOf b1.path }).len } : Ed).atDepth = ed.atDepth := hd1
      rw [e] at this
      exact this


theorem open_switch_safe {ed : Ed} (hp : Pre ed) (path : Bytes) :
    Safe ((ed.bufsOpen path).2.bufsSwitch (ed.bufsOpen path).1) ∧
    ((ed.bufsOpen path).2.bufsSwitch (ed.bufsOpen path).1).atDepth = ed.atDepth := by
  obtain ⟨e1, _, _, _, _, _, _, e8⟩ := open_uses_free_slot ed path
  refine ⟨switch_safe (edInv_bufsOpen path hp.inv) hp.kwd _ ?_, ?_⟩
  · rw [e1, e8 hp.len]; rfl
  · rw [switch_atDepth]; rfl

theorem findRoom_none_of_cur_none {ed : Ed} (_hp : Pre ed) (hc : ed.cur = none) : ed.bufs.getD ed.findRoom none = none := by
  rcases room_policy ed with ⟨_, h2, _⟩ | ⟨h1, h2⟩
  · exact h2
  · by_cases hl : 0 < ed.bufs.length - 1
    · have := h2 0 hl
      unfold Ed.cur at hc
      rw [hc] at this; cases this
    · have : ed.findRoom = 0 := by omega
      rw [this]; exact hc

theorem editOpen_ret {f : Nat} {ed : Ed} {path pls : Bytes} (hp : Pre ed) (hC : PlusOk f ed.atDepth pls) :
    Ret ed.atDepth (editOpen f ed path pls) := by
  unfold editOpen
  dsimp only
  cases hcur : ed.cur with
  | some b0 =>
    have h : Safe ed := ⟨hp.inv, by rw [hcur]; rfl, hp.kwd⟩
    obtain ⟨r, ed1, hg, h1, hq, hd1⟩ := guard_total h (((!path.isEmpty || (some b0 : Option Buf).isNone) && ed.xwa == 0) = true)
      ed.findRoom (some (strOf "last buffer modified"))
    rw [hg]
    cases r with
    | true => exact Ret.mk h1 hd1
    | false =>
      dsimp only
      by_cases hc : (!path.isEmpty || ed1.cur.isNone) = true
      · rw [if_pos hc]
        obtain ⟨h2, hd2⟩ := open_switch_safe h1.pre path
        have := editTail_ret (f := f) (path := path) (pls := pls) h2 (by rw [hd2, hd1]; exact hC)
        rw [hd2, hd1] at this
        exact this
      · rw [if_neg hc]
        have := editTail_ret (f := f) (path := path) (pls := pls) h1 (by rw [hd1]; exact hC)
        rw [hd1] at this
        exact this
  | none =>
    have hslot := findRoom_none_of_cur_none hp hcur
    have hg : (if ((!path.isEmpty || (none : Option Buf).isNone) && ed.xwa == 0) = true then
        bufsModified ed ed.findRoom (some (strOf "last buffer modified")) else some (false, ed) : R Bool) = some (false, ed) := by
      split
      · unfold bufsModified; rw [hslot]
      · rfl
    rw [hg]
    dsimp only
    rw [if_pos (by rw [hcur]; simp)]
    obtain ⟨h2, hd2⟩ := open_switch_safe hp path
    have := editTail_ret (f := f) (path := path) (pls := pls) h2 (by rw [hd2]; exact hC)
    rw [hd2] at this
    exact this

/-- a buffer found further back is still found after `bufs_switch(1)` -/
theorem find_after_switch1 (ed : Ed) (path : Bytes) (h : ed.bufsFind path > 1) : 0 ≤ (ed.bufsSwitch 1).bufsFind path := by
  obtain ⟨hlt, ⟨b, hb, hpth⟩, _⟩ := find_by_path ed path _ rfl (by omega)
  have hk : 1 < (ed.bufsFind path).toNat := by omega
  have hslot : (ed.bufsSwitch 1).bufs.getD (ed.bufsFind path).toNat none = some b := by
    rw [(switch_slots ed 1 (by omega)).2.2 _ hk, leftBufs_getD ed _ (by omega)]
    exact hb
  rcases bufsFind_cases (ed.bufsSwitch 1) path with ⟨n, _, hn⟩ | ⟨_, hn⟩
  · rw [hn]; omega
  · exact absurd hpth (find_by_path_none _ path hn _ b hslot)

theorem editPath_ret {f : Nat} {ed : Ed} {cmd path pls : Bytes} (hp : Pre ed) (hC : PlusOk f ed.atDepth pls) :
    Ret ed.atDepth (editPath f ed cmd path pls) := by
  unfold editPath
  dsimp only
  have hfound : ∀ ed1 : Ed, EdInv ed1 → 0 ∉ ed1.xkwd → ed1.atDepth = ed.atDepth → 0 ≤ ed1.bufsFind path →
      Ret ed.atDepth (editPlus f (ed1.bufsSwitch (ed1.bufsFind path).toNat) pls) := by
    intro ed1 hi hk hd h0
    obtain ⟨_, ⟨b, hb, _⟩, _⟩ := find_by_path ed1 path _ rfl h0
    have hs := switch_safe hi hk (ed1.bufsFind path).toNat (by rw [hb]; rfl)
    have := editPlus_ret (f := f) (pls := pls) hs (by rw [switch_atDepth, hd]; exact hC)
    rw [switch_atDepth, hd] at this
    exact this
  by_cases hew : (!path.isEmpty && cmd.headD 0 == 101 && cmd.getD 1 0 == 119 && decide (ed.bufsFind path > 1)) = true
  · rw [if_pos hew]
    simp only [Bool.and_eq_true, decide_eq_true_eq] at hew
    have h0 := find_after_switch1 ed path hew.2
    rw [if_pos (by simp only [Bool.and_eq_true, decide_eq_true_eq]; exact ⟨hew.1.1.1, h0⟩)]
    exact hfound _ (edInv_bufsSwitch 1 hp.inv) (by rw [switch_xkwd]; exact hp.kwd) (switch_atDepth ed 1) h0
  · rw [if_neg hew]
    split
    · rename_i hf
      simp only [Bool.and_eq_true, decide_eq_true_eq] at hf
      exact hfound ed hp.inv hp.kwd rfl hf.2
    · exact editOpen_ret hp hC


/-- **`:e`** from a safe state -/
theorem ecEdit_ret (f : Nat) {ed : Ed} (h : Safe ed) (cmd arg : Bytes) (hp : PathFits ed (plusOf arg).2 false)
    (hC : PlusOk f ed.atDepth (plusOf arg).1) : Ret ed.atDepth (ecEdit (f + 1) ed cmd arg) := by
  rw [ecEdit_eq]
  obtain ⟨g, ed1, hg, h1, hq, hd1⟩ := guard_total h ((!hasBang cmd && ed.cur.isSome && ed.xwa == 0) = true) 0
    (some (strOf "buffer modified"))
  rw [hg]
  cases g with
  | true => exact Ret.mk h1 hd1
  | false =>
    dsimp only
    obtain ⟨path, ed2, he, h2, _, hd2⟩ := pathExpand_cases h1 (hp.congr hq)
    rw [he]
    cases path with
    | none => exact Ret.mk h2 (by dep)
    | some path =>
      dsimp only
      have := editPath_ret (f := f) (cmd := cmd) (path := path) (pls := (plusOf arg).1) h2.pre
        (by rw [hd2, hd1]; exact hC)
      rw [hd2, hd1] at this
      exact this

theorem run_edit (f : Nat) {ed : Ed} (h : Safe ed) (loc cmd arg : Bytes) (txt : Option Bytes)
    (hp : PathFits ed (plusOf arg).2 false) (hC : PlusOk f ed.atDepth (plusOf arg).1) :
    Ret ed.atDepth (runCmd (f + 2) ed "ec_edit" loc cmd arg txt) := by
  rw [runCmd]
  simp (config := {decide := true}) only [if_false, if_true]
  exact ecEdit_ret f h cmd arg hp hC

/-- without `%` and `#` the expansion is never "not set" -/
theorem pathGo_set (ed : Ed) (sp : Bool) : ∀ (f : Nat) (src dst : Bytes), (∀ c ∈ src, c ≠ 37 ∧ c ≠ 35) →
    ∃ p, pathExpand.go ed sp f src dst = some (some p) := by
  intro f
  induction f with
  | zero => intro src dst _; exact ⟨_, rfl⟩
  | succ f ih =>
    intro src dst hs
    rw [pathExpand.go.eq_def]
    dsimp only
    cases src with
    | nil => exact ⟨_, rfl⟩
    | cons c r =>
      dsimp only
      have hc := hs c (by simp)
      have hr : ∀ x ∈ r, x ≠ 37 ∧ x ≠ 35 := fun x hx => hs x (by simp [hx])
      have hr1 : ∀ x ∈ r.drop 1, x ≠ 37 ∧ x ≠ 35 := fun x hx => hr x (List.mem_of_mem_drop hx)
      split
      · exact ⟨_, rfl⟩
      · rw [if_neg (by simp [hc.1, hc.2])]
        split
        · split
          · split <;> exact ih _ _ hr
          · exact ih _ _ hr
        · split
          · exact ih _ _ hr1
          · exact ih _ _ hr

/-- **`:e` as `ex_init` calls it**: from a table without a current buffer, with a file name free of `%` and `#` -/
theorem ecEdit_init (f : Nat) {ed : Ed} (hp : Pre ed) (hc : ed.cur = none) (cmd arg : Bytes)
    (hfit : PathFits ed (plusOf arg).2 false) (hset : ∀ c ∈ (plusOf arg).2, c ≠ 37 ∧ c ≠ 35)
    (hC : PlusOk f ed.atDepth (plusOf arg).1) : Ret ed.atDepth (ecEdit (f + 1) ed cmd arg) := by
  rw [ecEdit_eq]
  rw [if_neg (by rw [hc]; simp)]
  dsimp only
  obtain ⟨p, hgo⟩ := pathGo_set ed false ((plusOf arg).2.length + 1) (plusOf arg).2 [] hset
  have hlt := hfit p hgo
  have he : pathExpand ed (plusOf arg).2 false = some (some p, ed) := by
    unfold pathExpand
    rw [hgo]
    dsimp only
    rw [if_neg (by omega)]
  rw [he]
  exact editPath_ret hp hC

end Neatvi.Lemmas.C05e
