import NeatviVerif.Lemmas.C08gO
/-!
# C08g: the iterations `x`, `dw`, `p`, `P` one by one
-/
set_option linter.unusedSimpArgs false
set_option linter.unusedVariables false
namespace Neatvi.Lemmas.C08g
open Neatvi Neatvi.Uc Neatvi.Vi Neatvi.Ex Neatvi.Lbuf Neatvi.Mot Neatvi.Spec
open Neatvi.Lemmas.C08 Neatvi.Lemmas.C08b Neatvi.Lemmas.C08f
open Neatvi.Lemmas.C09 (finRec pending)
open Neatvi.Props.C07c (Utf8Buf refBufU)
open Neatvi.Props.C08f

/-- the cursor row of `s` now holds `body'`, the other rows are as they were -/
def RowIs (s s'' : VS) (body' : List Nat) : Prop :=
  lines s'' = (lines s).take s.ed.xrow.toNat ++ [encStr (body' ++ [10])] ++ (lines s).drop (s.ed.xrow.toNat + 1)

theorem onRow_of_rowIs {s s'' : VS} {body body' : List Nat} {o o' : Nat} (hrow : OnRow s body o) (h : RowIs s s'' body')
    (hx : s''.ed.xrow = s.ed.xrow) (ho : s''.ed.xoff = (o' : Int)) (hv : ∀ c ∈ body', ValidCp c) (h10 : 10 ∉ body')
    (hlt : o' < body'.length) : OnRow s'' body' o' := by
  have hrlt : s.ed.xrow.toNat < (lines s).length := (List.getElem?_eq_some_iff.mp hrow.line).1
  refine ⟨by rw [hx]; exact hrow.row0, ?_, hv, h10, ho, hlt⟩
  rw [h, hx]
  rw [List.append_assoc, List.getElem?_append_right (by simp; omega)]
  simp only [List.length_take]
  rw [show s.ed.xrow.toNat - min s.ed.xrow.toNat (lines s).length = 0 by omega]
  rfl

/-- a deletion on the row, settled: the cursor stays on `(r, a)` when a character is left there -/
theorem settle_rowDeleted {s0 sm s' s'' : VS} {body : List Nat} {a b : Nat}
    (hd : RowDeleted s0 sm s' s0.ed.xrow body a b) (hs : Settled s' s'') (hrow0 : 0 ≤ s0.ed.xrow)
    (hline : (lines s0)[s0.ed.xrow.toNat]? = some (encStr (body ++ [10])))
    (hv : ∀ c ∈ body, ValidCp c) (h10 : 10 ∉ body) (hab : a ≤ b) (hb : b ≤ body.length) (hleft : a + (body.length - b) > a) :
    s''.ed.xrow = s0.ed.xrow ∧ s''.ed.xoff = (a : Int) := by
  have hrlt : s0.ed.xrow.toNat < (lines s0).length := (List.getElem?_eq_some_iff.mp hline).1
  have hv' : ∀ c ∈ body.take a ++ body.drop b, ValidCp c := by
    intro c hc
    rcases List.mem_append.mp hc with hc | hc
    · exact hv c (List.mem_of_mem_take hc)
    · exact hv c (List.mem_of_mem_drop hc)
  have h10' : 10 ∉ body.take a ++ body.drop b := by
    intro hc
    rcases List.mem_append.mp hc with hc | hc
    · exact h10 (List.mem_of_mem_take hc)
    · exact h10 (List.mem_of_mem_drop hc)
  have hrow' : OnRow s' (body.take a ++ body.drop b) a := by
    refine ⟨by rw [hd.xrow]; exact hrow0, ?_, hv', h10', hd.xoff, by simp [List.length_take, List.length_drop]; omega⟩
    rw [hd.lines, hd.xrow, List.append_assoc, List.getElem?_append_right (by simp; omega)]
    simp only [List.length_take]
    rw [show s0.ed.xrow.toNat - min s0.ed.xrow.toNat (lines s0).length = 0 by omega]
    rfl
  have hlen : s'.ed.xrow < lenOf s' := by
    have := (List.getElem?_eq_some_iff.mp hrow'.line).1
    show s'.ed.xrow < ((lines s').length : Int)
    have := hrow'.row0
    omega
  exact ⟨by rw [hs.xrow, wfixRow_valid s' hrow'.row0 hlen, hd.xrow], by rw [hs.xoff, wfixOff_onRow s' _ a hrow']⟩

/-- **`x` as one iteration** on a character that is not the last of its line: the character is gone, the unnamed
register holds it, the cursor stays (now on the character that followed) -/
theorem x_step (s : VS) (body : List Nat) (o : Nat) (rest : Bytes) (hi : Idle s) (hwf : RegsWf s.ed.regs)
    (hp : pending s = 120 :: rest) (hrow : OnRow s body o) (hnl : o + 1 < body.length) :
    ∃ s'', viStep s = Res.ok () s'' ∧ StepDone s s'' rest ∧ RowIs s s'' (body.take o ++ body.drop (o + 1)) ∧
      s''.ed.xrow = s.ed.xrow ∧ s''.ed.xoff = (o : Int) ∧
      s''.ed.regs.getRaw 0 = (some (encStr ((body.take (o + 1)).drop o)), 0) := by
  obtain ⟨sm, hcs, hpend, hvb, hpre, hfin⟩ := step_x s rest hi hp
  have hrow0 : OnRow { sm with vibuf := [32] } body o := onRow_vibuf (hcs.onRow hrow) _
  obtain ⟨s', hd, hld⟩ := x_spec { sm with vibuf := [32] } sm 0 body o hpre hrow0
  have hoc : opCount { sm with vibuf := [32] } 0 = 1 := hcs.opCount
  rw [hoc, show min (o + (1 : Int).toNat) body.length = o + 1 by simp; omega] at hld
  have hek : edk s' = edk s := by
    rw [← hcs.edk]
    exact edk_lands 100 (by simp) { sm with vibuf := [32] } sm (setArg2 0 sm) 0 32 32 body o _ hrow0
      (lands_spc _ sm 0 body o hpre hrow0) _ _ hd
  obtain ⟨s'', e, hs⟩ := hfin _ _ hd hek
  have hregs : s'.ed.regs = s.ed.regs.put 0 (encStr ((body.take (o + 1)).drop o)) 0 := by
    rw [hld.regs]; show sm.ed.regs.put sm.ybuf _ 0 = _; rw [hcs.regs, hcs.ybuf]
  have hwf' : RegsWf s'.ed.regs := by rw [hregs]; exact Props.C08.put_wf _ _ _ _ hwf
  have hfr := hld.frame
  obtain ⟨hx, ho⟩ := settle_rowDeleted hld hs hrow0.row0 hrow0.line hrow.valid hrow.no10 (by omega) (by omega) (by omega)
  refine ⟨s'', e, ⟨hs.idle (by rw [hfr]; exact hvb), hs.wf hwf', by rw [hs.pending, hfr]; exact hpend, ?_, ?_, ?_⟩, ?_, ?_, ho, ?_⟩
  · rw [hs.xkmap, hfr]; exact hcs.xkmap
  · rw [hs.xai, hfr]; exact hcs.xai
  · rw [hs.xtd]
    have := congrArg (fun t => t.2.2) hek
    simp only [edk] at this
    exact this
  · unfold RowIs
    rw [hs.lines, hld.lines]
    show (lines sm).take sm.ed.xrow.toNat ++ _ ++ (lines sm).drop _ = _
    rw [hcs.lines, hcs.xrow]
  · rw [hx]; exact hcs.xrow
  · rw [hs.regs hwf' 0 (by omega), hregs, getRaw0_put0 _ _ _ hwf]

/-- **`dw` as one iteration**, when the next word starts at `t` on the same row (`o < t < |body|`): the characters
`[o, t)` are gone, the unnamed register holds them, the cursor stays -/
theorem dw_step (s : VS) (body : List Nat) (o t : Nat) (rest : Bytes) (hi : Idle s) (hwf : RegsWf s.ed.regs)
    (hp : pending s = 100 :: 119 :: rest) (hrow : OnRow s body o) (hu : Utf8Buf (lines s))
    (href : Motion.wordFwdRaw false (refBufU (lines s)) ⟨s.ed.xrow.toNat, o⟩ 1 = ⟨s.ed.xrow.toNat, t⟩)
    (hot : o < t) (htl : t < body.length) :
    ∃ s'', viStep s = Res.ok () s'' ∧ StepDone s s'' rest ∧ RowIs s s'' (body.take o ++ body.drop t) ∧
      s''.ed.xrow = s.ed.xrow ∧ s''.ed.xoff = (o : Int) ∧
      s''.ed.regs.getRaw 0 = (some (encStr ((body.take t).drop o)), 0) := by
  obtain ⟨sm, s2, hcs, hpre, hpend, hv2, hfin⟩ := step_op 100 (by simp) 119 (by omega) s rest hi hp
  have hrow0 : OnRow sm body o := hcs.onRow hrow
  have href0 : Motion.wordFwdRaw false (refBufU (lines sm)) ⟨sm.ed.xrow.toNat, o⟩ (opCount sm 0).toNat = ⟨sm.ed.xrow.toNat, t⟩ := by
    rw [hcs.lines, hcs.xrow, hcs.opCount]; exact href
  have hu0 : Utf8Buf (lines sm) := by rw [hcs.lines]; exact hu
  obtain ⟨s', hd, hld⟩ := dw_spec sm s2 0 body o t hpre hrow0 hu0 href0
  rw [show min o t = o by omega, show max o t = t by omega] at hld
  have hek : edk s' = edk s := by
    rw [← hcs.edk]
    exact edk_lands 100 (by simp) sm s2 (setArg2 0 s2) 0 119 119 body o t hrow0 (lands_w sm s2 0 body o t hpre hrow0 hu0 href0) _ _ hd
  obtain ⟨s'', e, hs⟩ := hfin _ _ hd hek
  have hregs : s'.ed.regs = s.ed.regs.put 0 (encStr ((body.take t).drop o)) 0 := by
    rw [hld.regs, hcs.regs, hcs.ybuf]
  have hwf' : RegsWf s'.ed.regs := by rw [hregs]; exact Props.C08.put_wf _ _ _ _ hwf
  have hfr := hld.frame
  obtain ⟨hx, ho⟩ := settle_rowDeleted hld hs hrow0.row0 hrow0.line hrow.valid hrow.no10 (by omega) (by omega) (by omega)
  refine ⟨s'', e, ⟨hs.idle (by rw [hfr]; exact hv2), hs.wf hwf', by rw [hs.pending, hfr]; exact hpend, ?_, ?_, ?_⟩, ?_, ?_, ho, ?_⟩
  · rw [hs.xkmap, hfr]; show s2.xkmap = _; rw [hpre.frame.xkmap, hcs.xkmap]
  · rw [hs.xai, hfr]; show s2.xai = _; rw [(prefixed_qonly hpre).xai, hcs.xai]
  · rw [hs.xtd]
    have := congrArg (fun t => t.2.2) hek
    simp only [edk] at this
    exact this
  · unfold RowIs
    rw [hs.lines, hld.lines, hcs.lines, hcs.xrow]
  · rw [hx]; exact hcs.xrow
  · rw [hs.regs hwf' 0 (by omega), hregs, getRaw0_put0 _ _ _ hwf]

/-! ### `p`, `P` -/

/-- **`p` / `P` with the unnamed register holding the characters `bs` (character mode), as one iteration**: `bs` goes in
after (`p`) / before (`P`) the cursor character, the cursor ends on its last character -/
theorem put_chars_step (c : Nat) (hc : c = 112 ∨ c = 80) (s : VS) (body bs : List Nat) (o : Nat) (rest : Bytes) (hi : Idle s)
    (hwf : RegsWf s.ed.regs) (hp : pending s = c :: rest) (hrow : OnRow s body o)
    (hreg : s.ed.regs.getRaw 0 = (some (encStr bs), 0)) (hbs : ∀ c ∈ bs, ValidCp c) (hbs10 : 10 ∉ bs) (hne : bs ≠ []) :
    ∃ s'', viStep s = Res.ok () s'' ∧ StepDone s s'' rest ∧
      RowIs s s'' (body.take (o + if c = 112 then 1 else 0) ++ bs ++ body.drop (o + if c = 112 then 1 else 0)) ∧
      s''.ed.xrow = s.ed.xrow ∧ s''.ed.xoff = ((o + (if c = 112 then 1 else 0) + bs.length - 1 : Nat) : Int) ∧
      s''.ed.regs.getRaw 0 = (some (encStr bs), 0) := by
  obtain ⟨sm, hcs, hpend, hvb, hfin⟩ := step_put c hc s rest hi hp
  have hrow0 : OnRow sm body o := hcs.onRow hrow
  have hreg0 : regGetLn sm.ed sm.ybuf = (some (encStr bs), some 0) := by rw [hcs.regGetLn0, hreg]
  have hbl : 0 < bs.length := by cases bs with | nil => exact absurd rfl hne | cons _ _ => simp
  obtain ⟨p, hpdef⟩ : ∃ p, p = o + (if c = 112 then 1 else 0) := ⟨_, rfl⟩
  have hple : p ≤ body.length := by have := hrow.onChar; rw [hpdef]; split <;> omega
  obtain ⟨s', hd, hld, hfr⟩ : ∃ s', vcPut c sm = Res.ok VC_OK s' ∧ PutChars sm s' sm.ed.xrow body (copies (cnt1 sm) bs) p ∧
      s' = { sm with ed := s'.ed } := by
    rcases hc with rfl | rfl
    · obtain ⟨s', a1, a2, a3⟩ := vcPut_chars_p sm body bs o hrow0 hreg0 hbs hbs10 hne
      exact ⟨s', a1, by rw [hpdef]; simpa using a2, a3⟩
    · obtain ⟨s', a1, a2, a3⟩ := vcPut_chars_P sm body bs o hrow0 hreg0 hbs hbs10 hne
      exact ⟨s', a1, by rw [hpdef]; simpa using a2, a3⟩
  rw [hcs.cnt1, show copies 1 bs = bs by simp [copies]] at hld
  rw [← hpdef]
  obtain ⟨s'', e, hs⟩ := hfin _ _ hd
  have hregs : s'.ed.regs = s.ed.regs := by rw [hld.regs, hcs.regs]
  have hwf' : RegsWf s'.ed.regs := by rw [hregs]; exact hwf
  have hv' : ∀ d ∈ body.take p ++ bs ++ body.drop p, ValidCp d := by
    intro d hd
    rcases List.mem_append.mp hd with hd | hd
    · rcases List.mem_append.mp hd with hd | hd
      · exact hrow.valid d (List.mem_of_mem_take hd)
      · exact hbs d hd
    · exact hrow.valid d (List.mem_of_mem_drop hd)
  have h10' : 10 ∉ body.take p ++ bs ++ body.drop p := by
    intro hd
    rcases List.mem_append.mp hd with hd | hd
    · rcases List.mem_append.mp hd with hd | hd
      · exact hrow.no10 (List.mem_of_mem_take hd)
      · exact hbs10 hd
    · exact hrow.no10 (List.mem_of_mem_drop hd)
  have hrlt : sm.ed.xrow.toNat < (lines sm).length := (List.getElem?_eq_some_iff.mp hrow0.line).1
  have hrow' : OnRow s' (body.take p ++ bs ++ body.drop p) (p + bs.length - 1) := by
    refine ⟨by rw [hld.xrow]; exact hrow0.row0, ?_, hv', h10', by rw [hld.xoff]; omega,
      by simp [List.length_take, List.length_drop]; omega⟩
    rw [hld.lines, hld.xrow, List.append_assoc, List.getElem?_append_right (by simp; omega)]
    simp only [List.length_take]
    rw [show sm.ed.xrow.toNat - min sm.ed.xrow.toNat (lines sm).length = 0 by omega]
    rfl
  have hlen : s'.ed.xrow < lenOf s' := by
    have := (List.getElem?_eq_some_iff.mp hrow'.line).1
    show s'.ed.xrow < ((lines s').length : Int)
    have := hrow'.row0
    omega
  refine ⟨s'', e, ⟨hs.idle (by rw [hfr]; exact hvb), hs.wf hwf', by rw [hs.pending, hfr]; exact hpend, ?_, ?_, ?_⟩, ?_, ?_, ?_, ?_⟩
  · rw [hs.xkmap, hfr]; exact hcs.xkmap
  · rw [hs.xai, hfr]; exact hcs.xai
  · rw [hs.xtd]
    have := congrArg (fun t => t.2.2) ((ek_vcPut c).keep sm _ s' hd)
    simp only [edk] at this
    rw [this, hcs.xtd]
  · unfold RowIs
    rw [hs.lines, hld.lines, hcs.lines, hcs.xrow]
  · rw [hs.xrow, wfixRow_valid s' hrow'.row0 hlen, hld.xrow, hcs.xrow]
  · rw [hs.xoff, wfixOff_onRow s' _ _ hrow']
  · rw [hs.regs hwf' 0 (by omega), hregs, hreg]

/-- **`p` / `P` with the unnamed register holding the lines `rows` (line mode), as one iteration**: they are inserted
below (`p`) / above (`P`) the cursor row, the cursor goes to the first of them -/
theorem put_lines_step (c : Nat) (hc : c = 112 ∨ c = 80) (s : VS) (rows : List Bytes) (lnm : Nat) (rest : Bytes) (hi : Idle s)
    (hwf : RegsWf s.ed.regs) (hp : pending s = c :: rest) (h0 : 0 ≤ s.ed.xrow) (h1 : s.ed.xrow < lenOf s)
    (hreg : s.ed.regs.getRaw 0 = (some rows.flatten, lnm)) (hl : lnm ≠ 0)
    (hrows : ∀ l ∈ rows, Props.C01.WfLine l) (hne : rows ≠ []) :
    ∃ s'', viStep s = Res.ok () s'' ∧ StepDone s s'' rest ∧
      lines s'' = (lines s).take (s.ed.xrow + if c = 112 then 1 else 0).toNat ++ rows ++
        (lines s).drop (s.ed.xrow + if c = 112 then 1 else 0).toNat ∧
      s''.ed.xrow = s.ed.xrow + (if c = 112 then 1 else 0) ∧
      s''.ed.regs.getRaw 0 = (some rows.flatten, lnm) := by
  obtain ⟨sm, hcs, hpend, hvb, hfin⟩ := step_put c hc s rest hi hp
  have hreg0 : regGetLn sm.ed sm.ybuf = (some rows.flatten, some lnm) := by rw [hcs.regGetLn0, hreg]
  have hlt : sm.ed.xrow.toNat < (lines sm).length := by
    have := hcs.lenOf; unfold Vi.lenOf at this h1; rw [hcs.xrow, hcs.lines]; omega
  obtain ⟨lb, hlb⟩ := lb_of_line sm sm.ed.xrow.toNat _ (List.getElem?_eq_getElem hlt)
  obtain ⟨r, hrdef⟩ : ∃ r, r = s.ed.xrow + (if c = 112 then 1 else 0) := ⟨_, rfl⟩
  have hr0 : 0 ≤ r ∧ r ≤ lenOf s := by rw [hrdef]; split <;> omega
  obtain ⟨s', hd, hld, hfr⟩ : ∃ s', vcPut c sm = Res.ok VC_OK s' ∧ PutLines sm s' r (copies (cnt1 sm) rows) ∧
      s' = { sm with ed := s'.ed } := by
    rcases hc with rfl | rfl
    · obtain ⟨s', a1, a2, a3⟩ := vcPut_lines_p sm rows lnm lb hlb hreg0 hl hrows hne (by rw [hcs.xrow]; exact h0)
        (by rw [hcs.xrow, hcs.lenOf]; exact h1)
      exact ⟨s', a1, by rw [hrdef, ← hcs.xrow]; simpa using a2, a3⟩
    · obtain ⟨s', a1, a2, a3⟩ := vcPut_lines_P sm rows lnm lb hlb hreg0 hl hrows hne (by rw [hcs.lenOf]; omega)
        (by rw [hcs.xrow]; exact h0) (by rw [hcs.xrow, hcs.lenOf]; omega)
      exact ⟨s', a1, by rw [hrdef, ← hcs.xrow]; simpa using a2, a3⟩
  rw [hcs.cnt1, show copies 1 rows = rows by simp [copies]] at hld
  rw [← hrdef]
  obtain ⟨s'', e, hs⟩ := hfin _ _ hd
  have hregs : s'.ed.regs = s.ed.regs := by rw [hld.regs, hcs.regs]
  have hwf' : RegsWf s'.ed.regs := by rw [hregs]; exact hwf
  have hrl : 0 < rows.length := by cases rows with | nil => exact absurd rfl hne | cons _ _ => simp
  have hlen : s'.ed.xrow < lenOf s' := by
    show s'.ed.xrow < ((lines s').length : Int)
    rw [hld.xrow, hld.lines, hcs.lines]
    simp only [List.length_append, List.length_take, List.length_drop]
    have := hr0
    unfold Vi.lenOf at this
    omega
  refine ⟨s'', e, ⟨hs.idle (by rw [hfr]; exact hvb), hs.wf hwf', by rw [hs.pending, hfr]; exact hpend, ?_, ?_, ?_⟩, ?_, ?_, ?_⟩
  · rw [hs.xkmap, hfr]; exact hcs.xkmap
  · rw [hs.xai, hfr]; exact hcs.xai
  · rw [hs.xtd]
    have := congrArg (fun t => t.2.2) ((ek_vcPut c).keep sm _ s' hd)
    simp only [edk] at this
    rw [this, hcs.xtd]
  · rw [hs.lines, hld.lines, hcs.lines]
  · rw [hs.xrow, wfixRow_valid s' (by rw [hld.xrow]; exact hr0.1) hlen, hld.xrow]
  · rw [hs.regs hwf' 0 (by omega), hregs, hreg]

end Neatvi.Lemmas.C08g
