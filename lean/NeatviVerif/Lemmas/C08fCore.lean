import NeatviVerif.Lemmas.C08Motion
import NeatviVerif.Lemmas.C08bInsert
/-!
# C08f: `vc_motion` split into its stages

`vcMotion cmd` = read the second count; `readMotion` (the line motion `viMotionln`, else the motion
`viMotion`); `opRegion` (the region normalisation `normRegion` and the inclusive-motion adjustment);
`applyOp` (the operator dispatch).
-/
namespace Neatvi.Lemmas.C08f
open Neatvi Neatvi.Uc Neatvi.Vi Neatvi.Ex Neatvi.Lbuf Neatvi.Mot Neatvi.Lemmas.C08

/-- the operator dispatch of `vc_motion` -/
def applyOp (cmd : Nat) (r1 o1 r2 o2 : Int) (lnmode : Bool) : M Nat :=
  if cmd == 121 then viYank r1 o1 r2 o2 lnmode
  else if cmd == 100 then viDelete r1 o1 r2 o2 lnmode
  else if cmd == 99 then viChange r1 o1 r2 o2 lnmode
  else if cmd == 126 || cmd == 117 || cmd == 85 then viCase r1 o1 r2 o2 lnmode cmd
  else if cmd == 62 || cmd == 60 then viShift r1 r2 (if cmd == 62 then 1 else -1)
  else if cmd == 33 then do
    let _ ← viPrompt
    unmodelled
    pure VC_WIN
  else pure 0

/-- is the motion `mv` inclusive (`f t e E %`, and `;` `,` repeating a forward / backward find)? -/
def inclusive (s : VS) (mv : Int) : Bool :=
  strHas "fteE%" mv || (mv == 59 && (s.charcmd == 102 || s.charcmd == 116 || s.charcmd == 0))
    || (mv == 44 && (s.charcmd == 70 || s.charcmd == 84 || s.charcmd == 0))

/-- the region handed to the operator: `(r1, o1, r2, o2, lnmode)` from the cursor `(r1, o1)`, the motion
key `mv` and its target `(r2, o2)` (`o2 < 0`: a line motion) -/
def opRegion (s : VS) (mv r1 o1 r2 o2 : Int) : Int × Int × Int × Int × Bool :=
  let lnmode : Bool := o2 < 0
  let (r1, o1, r2, o2) := normRegion s lnmode r1 o1 r2 o2
  let o2 := if !lnmode && inclusive s mv && o2 < eol (lines s) r2 then noeol s r2 o2 + 1 else o2
  (r1, o1, r2, o2, lnmode)

/-- the motion that follows the operator: `none` = no motion key (the key is dropped) -/
def readMotion (cmd : Nat) (r1 o1 : Int) : M (Option (Int × Int × Int)) := do
  let (mvl, r2l) ← viMotionln r1 cmd
  if mvl != 0 then pure (some (mvl, r2l, (-1 : Int))) else do
    let (mv, r2, o2) ← viMotion r1 o1
    if mv == 0 then do
      let _ ← viRead
      pure none
    else pure (some (mv, r2, o2))

/-- `vc_motion` after its count prefix, from the cursor `(r1, o1)` -/
def vcCore (cmd : Nat) (r1 o1 : Int) : M Nat := do
  let res ← readMotion cmd r1 o1
  match res with
  | none => pure 0
  | some (mv, r2, o2) =>
    if mv < 0 then pure 0 else do
      let s ← get
      let (a, b, c, d, ln) := opRegion s mv r1 o1 r2 o2
      applyOp cmd a b c d ln

theorem bind_assoc' {α β γ : Type} (m : M α) (f : α → M β) (g : β → M γ) :
    (m >>= f) >>= g = m >>= fun a => f a >>= g := by
  funext s
  simp only [bind_apply]
  cases m s <;> rfl

theorem bind_congr' {α β : Type} (m : M α) (f g : α → M β) (h : ∀ a, f a = g a) : m >>= f = m >>= g := by
  have : f = g := funext h
  rw [this]

theorem vcMotion'_eq_core (cmd : Nat) : vcMotion' cmd = (do
    let s0 ← get
    let a2 ← viPrefix
    modify fun s => { s with arg2 := a2 }
    if a2 < 0 then pure 0 else vcCore cmd s0.ed.xrow (noeol s0 s0.ed.xrow s0.ed.xoff)) := by
  unfold vcMotion' vcCore readMotion
  refine bind_congr' _ _ _ (fun s0 => ?_)
  refine bind_congr' _ _ _ (fun a2 => ?_)
  refine bind_congr' _ _ _ (fun _ => ?_)
  split
  · rfl
  · rw [bind_assoc']
    rfl

/-- `vc_motion`, pointwise: the count prefix, then `vcCore` from the cursor -/
theorem vcMotion_apply (cmd : Nat) (s : VS) : vcMotion cmd s =
    match viPrefix s with
    | Res.ok a2 sp =>
      if a2 < 0 then Res.ok 0 { sp with arg2 := a2 }
      else vcCore cmd s.ed.xrow (noeol s s.ed.xrow s.ed.xoff) { sp with arg2 := a2 }
    | Res.eof => Res.eof
    | Res.trap => Res.trap := by
  rw [vcMotion_eq, vcMotion'_eq_core]
  simp only [bind_apply, get_apply]
  cases viPrefix s with
  | ok a2 sp =>
    simp only []
    show (if a2 < 0 then (pure 0 : M Nat) else _) _ = _
    split <;> rfl
  | eof => rfl
  | trap => rfl

/-- `vcCore`, pointwise -/
theorem vcCore_apply (cmd : Nat) (r1 o1 : Int) (s : VS) : vcCore cmd r1 o1 s =
    match readMotion cmd r1 o1 s with
    | Res.ok none sm => Res.ok 0 sm
    | Res.ok (some (mv, r2, o2)) sm =>
      if mv < 0 then Res.ok 0 sm
      else applyOp cmd (opRegion sm mv r1 o1 r2 o2).1 (opRegion sm mv r1 o1 r2 o2).2.1
        (opRegion sm mv r1 o1 r2 o2).2.2.1 (opRegion sm mv r1 o1 r2 o2).2.2.2.1
        (opRegion sm mv r1 o1 r2 o2).2.2.2.2 sm
    | Res.eof => Res.eof
    | Res.trap => Res.trap := by
  unfold vcCore
  simp only [bind_apply]
  cases readMotion cmd r1 o1 s with
  | ok res sm =>
    cases res with
    | none => rfl
    | some t =>
      obtain ⟨mv, r2, o2⟩ := t
      simp only []
      split <;> rfl
  | eof => rfl
  | trap => rfl

end Neatvi.Lemmas.C08f
