import NeatviVerif.Model.Uc
import NeatviVerif.Spec.Layout
/-! Bisection over sorted disjoint range tables equals linear membership. -/
namespace Neatvi.Uc
open Neatvi Neatvi.Spec

def sortedDisj : Tab → Bool
  | [] => true
  | [a] => a.1 ≤ a.2
  | a :: b :: r => a.1 ≤ a.2 && a.2 < b.1 && sortedDisj (b :: r)

theorem sorted_row {t : Tab} (hs : sortedDisj t = true) : ∀ i (hi : i < t.length), (t[i]).1 ≤ (t[i]).2 := by
  induction t with
  | nil => intro i hi; simp at hi
  | cons a r ih =>
    intro i hi
    cases r with
    | nil =>
      have : i = 0 := by simp at hi; omega
      subst this; simpa [sortedDisj] using hs
    | cons b r' =>
      simp [sortedDisj] at hs
      cases i with
      | zero => exact hs.1.1
      | succ i' => exact ih hs.2 i' (by simp at hi ⊢; omega)

theorem sorted_lt {t : Tab} (hs : sortedDisj t = true) : ∀ i j (hi : i < j) (hj : j < t.length),
    (t[i]'(by omega)).2 < (t[j]).1 := by
  induction t with
  | nil => intro i j hi hj; simp at hj
  | cons a r ih =>
    intro i j hi hj
    cases r with
    | nil => simp at hj; omega
    | cons b r' =>
      have hs' := hs
      simp [sortedDisj] at hs
      obtain ⟨⟨h1, h2⟩, h3⟩ := hs
      have ihr := ih h3
      cases i with
      | zero =>
        cases j with
        | zero => omega
        | succ j' =>
          cases j' with
          | zero => simpa using h2
          | succ j'' =>
            have := ihr 0 (j'' + 1) (by omega) (by simp at hj ⊢; omega)
            have hb := sorted_row h3 0 (by simp)
            simp at this hb ⊢; omega
      | succ i' =>
        cases j with
        | zero => omega
        | succ j' =>
          have := ihr i' j' (by omega) (by simp at hj ⊢; omega)
          simpa using this

def InRow (c : Nat) (r : Nat × Nat) : Prop := r.1 ≤ c ∧ c ≤ r.2

theorem bis_iff {t : Tab} (hs : sortedDisj t = true) (c : Nat) :
    ∀ fuel l h, h ≤ t.length → h - l ≤ fuel →
      (bis t c fuel l h = true ↔ ∃ i, ∃ (hi : i < t.length), l ≤ i ∧ i < h ∧ InRow c t[i]) := by
  intro fuel
  induction fuel with
  | zero =>
    intro l h _ hf
    simp only [bis]
    constructor
    · intro hh; cases hh
    · rintro ⟨i, _, h1, h2, _⟩; omega
  | succ f ih =>
    intro l h hh hf
    simp only [bis]
    by_cases hlh : l < h
    · simp only [hlh, if_true]
      have hm1 : l ≤ (l + h - 1) / 2 := by omega
      have hm2 : (l + h - 1) / 2 < h := by omega
      have hmlen : (l + h - 1) / 2 < t.length := by omega
      rw [List.getElem?_eq_getElem hmlen]
      simp only []
      by_cases hin : (t[(l + h - 1) / 2]).1 ≤ c ∧ c ≤ (t[(l + h - 1) / 2]).2
      · have : ((t[(l + h - 1) / 2]).1 ≤ c && c ≤ (t[(l + h - 1) / 2]).2) = true := by simp [hin]
        simp only [this, if_true, true_iff]
        exact ⟨_, hmlen, hm1, hm2, hin⟩
      · have : ((t[(l + h - 1) / 2]).1 ≤ c && c ≤ (t[(l + h - 1) / 2]).2) = false := by
          simp only [Bool.and_eq_false_iff, decide_eq_false_iff_not]
          by_cases h1 : (t[(l + h - 1) / 2]).1 ≤ c
          · right; intro h2; exact hin ⟨h1, h2⟩
          · left; exact h1
        simp only [this, Bool.false_eq_true, if_false]
        by_cases hlt : c < (t[(l + h - 1) / 2]).1
        · simp only [hlt, if_true]
          rw [ih l _ (by omega) (by omega)]
          constructor
          · rintro ⟨i, hi, h1, h2, h3⟩; exact ⟨i, hi, h1, by omega, h3⟩
          · rintro ⟨i, hi, h1, h2, h3⟩
            refine ⟨i, hi, h1, ?_, h3⟩
            by_cases him : i < (l + h - 1) / 2
            · exact him
            · exfalso
              by_cases heq : i = (l + h - 1) / 2
              · subst heq; exact hin h3
              · have := sorted_lt hs ((l + h - 1) / 2) i (by omega) hi
                have hr := sorted_row hs _ hmlen
                unfold InRow at h3; omega
        · simp only [hlt, if_false]
          rw [ih _ h hh (by omega)]
          have hgt : (t[(l + h - 1) / 2]).2 < c := by
            by_cases h2 : c ≤ (t[(l + h - 1) / 2]).2
            · exact absurd ⟨by omega, h2⟩ hin
            · omega
          constructor
          · rintro ⟨i, hi, h1, h2, h3⟩; exact ⟨i, hi, by omega, h2, h3⟩
          · rintro ⟨i, hi, h1, h2, h3⟩
            refine ⟨i, hi, ?_, h2, h3⟩
            by_cases him : (l + h - 1) / 2 < i
            · omega
            · exfalso
              by_cases heq : i = (l + h - 1) / 2
              · subst heq; exact hin h3
              · have := sorted_lt hs i ((l + h - 1) / 2) (by omega) hmlen
                unfold InRow at h3; omega
    · simp only [hlh, if_false]
      constructor
      · intro hh; cases hh
      · rintro ⟨i, _, h1, h2, _⟩; omega

theorem memTab_iff (c : Nat) (t : Tab) :
    memTab c t = true ↔ ∃ i, ∃ (hi : i < t.length), InRow c t[i] := by
  unfold memTab InRow
  rw [List.any_eq_true]
  constructor
  · rintro ⟨r, hr, h⟩
    obtain ⟨i, hi, rfl⟩ := List.mem_iff_getElem.mp hr
    exact ⟨i, hi, by simpa using h⟩
  · rintro ⟨i, hi, h⟩
    exact ⟨t[i], List.getElem_mem hi, by simpa using h⟩

/-- `find` of uc.c is linear membership, on every sorted table of disjoint ranges -/
theorem find_eq_mem {t : Tab} (hs : sortedDisj t = true) (c : Nat) : find c t = memTab c t := by
  cases t with
  | nil => simp [find, memTab]
  | cons r0 r =>
    simp only [find]
    by_cases hc : c < r0.1
    · simp only [hc, if_true]
      symm
      rw [Bool.eq_false_iff]
      intro hm
      obtain ⟨i, hi, h1, h2⟩ := (memTab_iff c _).mp hm
      cases i with
      | zero => simp at h1; omega
      | succ i' =>
        have := sorted_lt hs 0 (i' + 1) (by omega) hi
        have hr := sorted_row hs 0 (by simp)
        simp at this hr h1; omega
    · simp only [hc, if_false]
      have := bis_iff hs c (r0 :: r).length 0 (r0 :: r).length (Nat.le_refl _) (by omega)
      rw [Bool.eq_iff_iff, this, memTab_iff]
      constructor
      · rintro ⟨i, hi, _, _, h⟩; exact ⟨i, hi, h⟩
      · rintro ⟨i, hi, h⟩; exact ⟨i, hi, Nat.zero_le _, hi, h⟩

theorem dw_sorted : sortedDisj Gen.dwchars = true := by decide +kernel
theorem zw_sorted : sortedDisj Gen.zwchars = true := by decide +kernel
theorem b_sorted : sortedDisj Gen.bchars = true := by decide +kernel

end Neatvi.Uc
