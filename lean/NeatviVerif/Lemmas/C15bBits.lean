import NeatviVerif.Props.C15
/-!
# C15b lemmas, part 1: the marks of the other depths

`lbuf_globset(lb, pos, dep)` is `ln_glob[pos] |= 1 << dep`, `lbuf_globget(lb, pos, dep)` reads bit `dep` and clears
it with `ln_glob[pos] &= ~(1 << dep)`.  A nested `:g` works on bit `xgdep + 1`; here: bit `k` of every entry, for every
`k` other than `dep`, is what it was.

`ln_glob` is an array of `char`; the model keeps the entries as natural numbers, sets a bit with `|||` (no
truncation) and clears it with `&&& (255 ^^^ (1 <<< dep))`.  So

* `globSet` leaves every other bit alone for every `dep` whatsoever;
* `globGet` leaves the bits `k < 8` other than `dep` alone (and all other bits if the entries are bytes, which they are
  as long as no `globSet` with `dep ≥ 8` happened);
* for `dep ≥ 8` (`globSet_beyond`, `globGet_beyond`): `globSet` makes the entry `≥ 256` (in C the assignment to a
  `char` dropped the bit: no mark at all) and `globGet` reports the bit without clearing it (in C it reported 0).
  Comparing the two showed a defect of the program: `ec_glob` had no bound on `xgdep`, an eighth nested `:g` worked on
  the first line of its range only, and `1 << xgdep` was undefined from 31 on.  It is repaired (`ec_glob` returns 1
  with "global commands nested too deep" when `xgdep >= 7`), the model follows, and `Lemmas/C15bSweep.marks_depth_le_7`
  says that the two functions are only called with `dep ≤ 7` now: the lemmas for `dep ≥ 8` describe calls that no longer
  happen and are kept as the record of the defect.
-/
namespace Neatvi.Lemmas.C15b
open Neatvi Neatvi.Lbuf Neatvi.Props.C15

/-- the table entry `j` after `lbuf_globset(lb, pos, dep)` -/
theorem globSet_entry (lb : Lb) (pos dep j : Nat) :
    (globSet lb pos dep).glob.getD j 0 =
      if j = pos ∧ pos < lb.glob.length then lb.glob.getD pos 0 ||| (1 <<< dep) else lb.glob.getD j 0 := by
  unfold globSet
  simp only []
  by_cases hp : pos < lb.glob.length
  · rw [getD_set _ _ _ _ (Or.inl hp)]
    by_cases hj : j = pos
    · subst hj; rw [if_pos rfl, if_pos ⟨rfl, hp⟩]
    · rw [if_neg hj, if_neg (fun h => hj h.1)]
  · rw [List.set_eq_of_length_le (by omega), if_neg (fun h => hp h.2)]

/-- **globSet_other_depths**: `lbuf_globset(lb, pos, d)` changes no bit `k ≠ d` of any entry `j` (whatever `pos` and `d`
    are: also `pos` beyond the table, also `d ≥ 8`) -/
theorem globSet_other_depths (lb : Lb) (pos d j k : Nat) (hk : k ≠ d) :
    ((globSet lb pos d).glob.getD j 0).testBit k = (lb.glob.getD j 0).testBit k := by
  rw [globSet_entry]
  split
  · next h =>
    rw [h.1, set_testBit]
    simp [hk]
  · rfl

/-- `x & ~(1 << dep)` as the model writes it, bit by bit, for the bits of a `char` -/
theorem clr_testBit_low (x dep k : Nat) (hk : k < 8) : (clr x dep).testBit k = (x.testBit k && k != dep) := by
  unfold clr
  rw [Nat.testBit_and, Nat.testBit_xor, Nat.one_shiftLeft, Nat.testBit_two_pow,
    show (255 : Nat) = 2 ^ 8 - 1 by rfl, Nat.testBit_two_pow_sub_one]
  by_cases hd : dep = k
  · subst hd; simp [hk]
  · have : k ≠ dep := fun h => hd h.symm
    simp [hk, hd, this]

/-- **globGet_other_depths** (the bits of a `char`): `lbuf_globget(lb, pos, d)` changes no bit `k ≠ d`, `k < 8`, of any
    entry `j`, whatever `pos` and `d` are -/
theorem globGet_other_depths (lb : Lb) (pos d j k : Nat) (hk : k ≠ d) (h8 : k < 8) :
    ((globGet lb pos d).2.glob.getD j 0).testBit k = (lb.glob.getD j 0).testBit k := by
  rw [globGet_entry]
  split
  · next h =>
    rw [h, clr_testBit_low _ _ _ h8]
    simp [hk]
  · rfl

theorem getD_lt_256 (l : List Nat) (hb : ∀ x ∈ l, x < 256) (i : Nat) : l.getD i 0 < 256 := by
  rw [List.getD_eq_getElem?_getD]
  cases hget : l[i]? with
  | none => simp
  | some v => exact hb v (List.mem_of_getElem? hget)

/-- **globGet_other_depths** (all bits, on a table of bytes) -/
theorem globGet_other_depths_bytes (lb : Lb) (pos d j k : Nat) (hk : k ≠ d) (hb : ∀ x ∈ lb.glob, x < 256) :
    ((globGet lb pos d).2.glob.getD j 0).testBit k = (lb.glob.getD j 0).testBit k := by
  rw [globGet_clears lb pos d j k hb]
  simp [hk]

/-- the value `lbuf_globget` returns depends on bit `d` of entry `pos` only: marks of other depths are invisible to it -/
theorem globGet_value_other_depths (lb lb2 : Lb) (pos d : Nat)
    (h : (lb2.glob.getD pos 0).testBit d = (lb.glob.getD pos 0).testBit d) :
    (globGet lb2 pos d).1 = (globGet lb pos d).1 := by
  rw [globGet_fst, globGet_fst, h]

/-- the marks stay bytes under `lbuf_globset` for the depths a `char` can hold -/
theorem globSet_bytes (lb : Lb) (pos d : Nat) (hd : d < 8) (hb : ∀ x ∈ lb.glob, x < 256) :
    ∀ x ∈ (globSet lb pos d).glob, x < 256 := by
  intro x hx
  unfold globSet at hx
  simp only [] at hx
  rcases List.mem_or_eq_of_mem_set hx with h | h
  · exact hb x h
  · rw [h]
    have h1 := getD_lt_256 lb.glob hb pos
    have h2 : 1 <<< d < 2 ^ 8 := by
      rw [Nat.one_shiftLeft]
      exact Nat.pow_lt_pow_right (by omega) hd
    exact Nat.or_lt_two_pow (n := 8) h1 h2

/-! ### beyond the eight bits of a `char` -/

/-- **beyond depth 7, setting**: `lbuf_globset` with `d ≥ 8` on an existing entry leaves a value no `char` holds
    (the C assignment drops the bit: the line is not marked at all) -/
theorem globSet_beyond (lb : Lb) (pos d : Nat) (hd : 8 ≤ d) (hp : pos < lb.glob.length) :
    256 ≤ (globSet lb pos d).glob.getD pos 0 := by
  rw [globSet_entry, if_pos ⟨rfl, hp⟩]
  have h1 : 2 ^ 8 ≤ 2 ^ d := Nat.pow_le_pow_right (by omega) hd
  have h2 : 1 <<< d ≤ lb.glob.getD pos 0 ||| 1 <<< d := Nat.right_le_or
  rw [Nat.one_shiftLeft] at h2
  rw [Nat.one_shiftLeft]
  omega

/-- **beyond depth 7, reading**: `lbuf_globget` with `d ≥ 8` does not clear the bit it reports (the mask
    `255 ^^^ (1 <<< d)` keeps bit `d`), so it reports the same mark again and again -/
theorem globGet_beyond (lb : Lb) (pos d : Nat) (hd : 8 ≤ d) :
    ((globGet lb pos d).2.glob.getD pos 0).testBit d = (lb.glob.getD pos 0).testBit d ∧
    (globGet (globGet lb pos d).2 pos d).1 = (globGet lb pos d).1 := by
  have h1 : ((globGet lb pos d).2.glob.getD pos 0).testBit d = (lb.glob.getD pos 0).testBit d := by
    rw [globGet_entry, if_pos rfl]
    unfold clr
    rw [Nat.testBit_and, Nat.testBit_xor, Nat.one_shiftLeft, Nat.testBit_two_pow_self,
      show (255 : Nat) = 2 ^ 8 - 1 by rfl, Nat.testBit_two_pow_sub_one]
    have : ¬ d < 8 := by omega
    simp [this]
  exact ⟨h1, globGet_value_other_depths _ _ _ _ h1⟩

/-- the seeded regression (`=` for `|=` in `lbuf_globset`): assigning `1 << 2` to an entry that carries the mark of
    depth 1 loses that mark, the model's `|||` keeps it -/
example : ((1 <<< 2 : Nat)).testBit 1 = false ∧
    ((globSet { lines := [[10]], glob := [2] } 0 2).glob.getD 0 0).testBit 1 = true := by decide

/-- marking line 1 for depth 2 and asking for depth 2 on line 1 leaves the depth-1 marks `[2, 2, 0]` of a table alone -/
example : (globGet (globSet { lines := [[10], [10], [10]], glob := [2, 2, 0] } 1 2) 1 2).2.glob = [2, 2, 0] := by decide

end Neatvi.Lemmas.C15b
