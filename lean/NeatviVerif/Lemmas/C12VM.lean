import NeatviVerif.Lemmas.C12Parse
/-!
# C12 lemmas, part 4: the VM on a straight-line program (marks and atoms only)
-/
namespace Neatvi.C12
open Neatvi Neatvi.Uc Neatvi.Regex Neatvi.Rset

/-- sequencing of atom results -/
def arBind (r : AR) (k : Nat → AR) : AR :=
  match r with
  | AR.ok p => k p
  | AR.fail => AR.fail
  | AR.trap => AR.trap

/-- the atoms of a concatenation matched one after the other -/
def runAtoms (subj : Bytes) (flg : Nat) : List Atom → Nat → AR
  | [], pos => AR.ok pos
  | a :: as, pos => arBind (atomMatch a subj flg pos) (runAtoms subj flg as)

theorem runAtoms_append (subj : Bytes) (flg : Nat) (as bs : List Atom) (pos : Nat) :
    runAtoms subj flg (as ++ bs) pos = arBind (runAtoms subj flg as pos) (runAtoms subj flg bs) := by
  induction as generalizing pos with
  | nil => simp [runAtoms, arBind]
  | cons a as ih =>
    simp only [List.cons_append, runAtoms]
    cases atomMatch a subj flg pos <;> simp [arBind, ih]

theorem get_post (pre mid post : List Inst) (i k : Nat) (hk : k = pre.length + mid.length + i) :
    (pre ++ mid ++ post)[k]? = post[i]? := by
  subst hk
  rw [List.getElem?_append_right (by simp)]
  simp

variable (cx : Ctx)

theorem loop_atom {pc : Nat} {a : Atom} (h : cx.prog[pc]? = some (Inst.atom a))
    (dep pos : Nat) (m : Marks) (cuts : Nat) :
    loop cx dep pc pos m cuts =
      match atomMatch a cx.subj cx.flg pos with
      | AR.fail => Res.fail cuts
      | AR.trap => Res.trap
      | AR.ok pos' => loop cx dep (pc + 1) pos' m cuts := by
  rw [loop]
  split <;> rename_i heq <;> rw [h] at heq <;> cases heq <;> rfl

theorem loop_mark {pc k : Nat} (h : cx.prog[pc]? = some (Inst.mark k))
    (dep pos : Nat) (m : Marks) (cuts : Nat) :
    loop cx dep pc pos m cuts =
      loop cx dep (pc + 1) pos (if k < cx.ngrps then m.set k (pos : Int) else m) cuts := by
  rw [loop]
  split <;> rename_i heq <;> rw [h] at heq <;> cases heq <;> rfl

theorem loop_mtch {pc : Nat} (h : cx.prog[pc]? = some Inst.mtch)
    (dep pos : Nat) (m : Marks) (cuts : Nat) :
    loop cx dep pc pos m cuts = Res.ok pos m cuts := by
  rw [loop]
  split <;> rename_i heq <;> rw [h] at heq <;> cases heq <;> rfl

/-- the result of running a straight-line block, as a continuation -/
def resBind (r : AR) (cuts : Nat) (k : Nat → Res) : Res :=
  match r with
  | AR.ok p => k p
  | AR.fail => Res.fail cuts
  | AR.trap => Res.trap

/-- **straight-line run**: on the code of a concatenation of atoms the VM matches each atom in
    order; it fails (without consuming the cut budget) or traps as soon as one atom does -/
theorem straightline_run (as : List Atom) :
    ∀ (pre post : List Inst), cx.prog = pre ++ as.map Inst.atom ++ post →
    ∀ (dep pos : Nat) (m : Marks) (cuts : Nat),
      loop cx dep pre.length pos m cuts =
        resBind (runAtoms cx.subj cx.flg as pos) cuts
          (fun p' => loop cx dep (pre.length + as.length) p' m cuts) := by
  induction as with
  | nil => intro pre post _ dep pos m cuts; simp [runAtoms, resBind]
  | cons a as ih =>
    intro pre post hp dep pos m cuts
    have hget : cx.prog[pre.length]? = some (Inst.atom a) := by
      rw [hp]; simp
    rw [loop_atom cx hget]
    simp only [runAtoms]
    cases hm : atomMatch a cx.subj cx.flg pos with
    | fail => simp [arBind, resBind]
    | trap => simp [arBind, resBind]
    | ok p' =>
      simp only [arBind]
      have := ih (pre ++ [Inst.atom a]) post (by rw [hp]; simp) dep p' m cuts
      simp only [List.length_append, List.length_cons, List.length_nil] at this
      rw [this]
      simp only [List.length_cons]
      rw [show pre.length + (as.length + 1) = pre.length + (0 + 1) + as.length by omega]

/-- the marks after a successful run of the literal program -/
def marksOf (ng : Nat) (so eo : Nat) : Marks :=
  ((((((List.replicate (2 * ng) (-1 : Int)).set 0 so).set 2 so).set 4 so).set 5 eo).set 3 eo).set 1 eo

/-- the program of `((re))` for a literal pattern -/
def litCode (as : List Atom) : List Inst :=
  [Inst.mark 0] ++ ([Inst.mark 2, Inst.mark 4] ++ as.map Inst.atom ++ [Inst.mark 5, Inst.mark 3]) ++
    [Inst.mark 1, Inst.mtch]

/-- one start position of the literal program -/
theorem recmatch_litCode (as : List Atom) (hp : cx.prog = litCode as) (hnd : 1 ≤ cx.nd) (hng : 6 ≤ cx.ngrps)
    (start cuts : Nat) :
    recmatch cx start cuts =
      resBind (runAtoms cx.subj cx.flg as start) cuts
        (fun p' => Res.ok p' (marksOf cx.ngrps start p') cuts) := by
  have hp' : cx.prog = [Inst.mark 0, Inst.mark 2, Inst.mark 4] ++ as.map Inst.atom ++
      [Inst.mark 5, Inst.mark 3, Inst.mark 1, Inst.mtch] := by rw [hp]; simp [litCode]
  have g0 : cx.prog[0]? = some (Inst.mark 0) := by rw [hp']; simp
  have g1 : cx.prog[1]? = some (Inst.mark 2) := by rw [hp']; simp
  have g2 : cx.prog[2]? = some (Inst.mark 4) := by rw [hp']; simp
  have g3 : cx.prog[3 + as.length]? = some (Inst.mark 5) := by
    rw [hp', get_post _ _ _ 0 _ (by simp)]; rfl
  have g4 : cx.prog[3 + as.length + 1]? = some (Inst.mark 3) := by
    rw [hp', get_post _ _ _ 1 _ (by simp)]; rfl
  have g5 : cx.prog[3 + as.length + 1 + 1]? = some (Inst.mark 1) := by
    rw [hp', get_post _ _ _ 2 _ (by simp)]; rfl
  have g6 : cx.prog[3 + as.length + 1 + 1 + 1]? = some Inst.mtch := by
    rw [hp', get_post _ _ _ 3 _ (by simp)]; rfl
  have k0 : 0 < cx.ngrps := by omega
  have k1 : 1 < cx.ngrps := by omega
  have k2 : 2 < cx.ngrps := by omega
  have k3 : 3 < cx.ngrps := by omega
  have k4 : 4 < cx.ngrps := by omega
  have k5 : 5 < cx.ngrps := by omega
  unfold recmatch
  rw [act, if_neg (by omega)]
  rw [loop_mark cx g0, loop_mark cx g1, loop_mark cx g2]
  have := straightline_run cx as [Inst.mark 0, Inst.mark 2, Inst.mark 4]
    [Inst.mark 5, Inst.mark 3, Inst.mark 1, Inst.mtch] hp'
  simp only [List.length_cons, List.length_nil, Nat.zero_add] at this
  rw [this]
  cases runAtoms cx.subj cx.flg as start with
  | fail => simp [resBind]
  | trap => simp [resBind]
  | ok p' =>
    simp only [resBind]
    rw [loop_mark cx g3, loop_mark cx g4, loop_mark cx g5, loop_mtch cx g6]
    simp only [k0, k1, k2, k3, k4, k5, if_true, marksOf]

end Neatvi.C12
