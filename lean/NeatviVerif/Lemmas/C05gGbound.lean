import NeatviVerif.Lemmas.C05gGrestore
import NeatviVerif.Lemmas.C05gBound
/-!
# C05g lemmas, part 8: at most seven `:g` are nested

Along any execution — in every state visited while a command line runs (`VCommand`, `Lemmas/C05dVisit.lean`) — the
nesting level `xgdep` lies between the level at the start and 7: `ec_glob` refuses an eighth level, so the mark bit
`1 << xgdep` stays inside a `char`.
-/
namespace Neatvi.Lemmas.C05g
open Neatvi Neatvi.Lbuf Neatvi.LbufIo Neatvi.Ex Neatvi.Rset Neatvi.Lemmas.ExFrame
open Neatvi.Lemmas.C05d Neatvi.Lemmas.C06b Neatvi.Lemmas.C02c

/-- `s` is nested at least as deep as `ed`, and at most 7 deep -/
def Bg (ed s : Ed) : Prop := ed.xgdep ≤ s.xgdep ∧ s.xgdep ≤ 7

theorem Bg.of_eq {ed ed1 s : Ed} (h : Bg ed1 s) (e : ed1.xgdep = ed.xgdep) : Bg ed s := by
  unfold Bg at *; omega

def ExecBg (f : Nat) : Prop := ∀ ed ln s, ed.xgdep ≤ 7 → VExec f ed ln s → Bg ed s
def CmdBg (f : Nat) : Prop := ∀ ed ln s, ed.xgdep ≤ 7 → VCommand f ed ln s → Bg ed s
def RunBg (f : Nat) : Prop := ∀ ed h loc cmd arg txt s, ed.xgdep ≤ 7 → VRun f ed h loc cmd arg txt s → Bg ed s

theorem runOne_gdep {f : Nat} {ed ed1 : Ed} {p : Parsed} {ret r : Int} {rest : Bytes}
    (h : runOne f ed p ret = some ((r, ed1), rest)) : ed1.xgdep = ed.xgdep := by
  unfold runOne at h
  split at h
  · cases h; simp only [show_gdep, exTxt_gdep]
  · split at h
    · cases h
    · rename_i r1 e1 hr
      cases h
      rw [(all_gdep f).2.2.1 _ _ _ _ _ _ _ _ hr, exTxt_gdep]

theorem cmdsBg (f : Nat) (hrun : RunBg f) : ∀ (g : Nat) (ed : Ed) (ln : Bytes) (ret : Int) (s : Ed),
    ed.xgdep ≤ 7 → VCmds f g ed ln ret s → Bg ed s := by
  intro g
  induction g with
  | zero => intro ed ln ret s _ hv; cases hv
  | succ g ih =>
    intro ed ln ret s hd hv
    cases hv with
    | ret _ h1 =>
      have := runOne_gdep h1
      unfold Bg; omega
    | @inner _ _ _ _ _ a _ _ _ hidx hr =>
      have e := exTxt_gdep ed (parse1 ln).rest a
      exact (hrun _ _ _ _ _ _ _ (by omega) hr).of_eq e
    | later _ h1 h2 =>
      have e := runOne_gdep h1
      exact (ih _ _ _ _ (by omega) h2).of_eq e

theorem execBg_succ (f : Nat) (hrun : RunBg f) : ExecBg (f + 1) := by
  intro ed ln s hd hv
  cases hv with
  | cmds _ hc => exact cmdsBg f hrun _ _ _ _ _ hd hc

theorem cmdBg_succ (f : Nat) (hx : ExecBg f) : CmdBg (f + 1) := by
  intro ed ln s hd hv
  cases hv with
  | exec he => exact hx _ _ _ hd he

theorem globStep_gdep {f : Nat} {neg : Bool} {body : Bytes} {re : RStr} {ed ed2 : Ed} {i i2 : Int} {st : Bool}
    (h : globStep f neg body re ed i = some (st, ed2, i2)) : ed2.xgdep = ed.xgdep := by
  unfold globStep at h
  have hx := (all_gdep f).1
  frame_cases
  all_goals depth_facts [hx]
  all_goals gdep_omega

theorem scanBg (f : Nat) (neg : Bool) (body : Bytes) (re : RStr) (dep : Nat) (hx : ExecBg f) :
    ∀ (g : Nat) (ed : Ed) (i : Int) (s : Ed), ed.xgdep ≤ 7 → VScan f neg body re dep g ed i s → Bg ed s := by
  intro g
  induction g with
  | zero => intro ed i s _ hv; cases hv
  | succ g ih =>
    intro ed i s hd hv
    cases hv with
    | here _ => unfold Bg; omega
    | body _ _ _ _ he => exact (hx { ed with xrow := i } _ _ hd he).of_eq rfl
    | @next _ _ _ _ _ _ _ _ ed2 i2 _ _ hstep _ hrest =>
      have e1 := globStep_gdep hstep
      have e2 := adv_gdep dep (ed2.len.toNat + 1) ed2 i2
      exact (ih _ _ _ (by omega) hrest).of_eq (by omega)

theorem gPrep_gdep (ed : Ed) (arg : Bytes) : (gPrep ed arg).xgdep = ed.xgdep := by
  unfold gPrep
  gdep_omega

theorem gMark_gdep (ed : Ed) (b e : Int) (dep : Nat) : (gMark ed b e dep).xgdep = dep := by
  unfold gMark
  rw [foldl_ed_gdep]
  intro ed a
  gdep_omega

theorem runBg_succ (f : Nat) (hx : ExecBg f) (hc : CmdBg f) : RunBg (f + 2) := by
  intro ed h loc cmd arg txt s hd hv
  cases hv with
  | «at» ha =>
    cases ha with
    | @cmd _ _ _ _ _ buf rc b e ed1 _ hreg hr hrc hdp hra hvc =>
      have e1 := exRegion_gdep hr
      exact (hc { ed1 with xrow := b, atDepth := ed1.atDepth + 1 } _ _ (by show ed1.xgdep ≤ 7; omega) hvc).of_eq e1
  | glob hg =>
    cases hg with
    | @scan _ _ _ _ _ rc b e ed1 re _ hlt hr hrc hkw hre hvs =>
      have e1 := exRegion_gdep hr
      have e2 := gPrep_gdep ed1 arg
      have e3 := gMark_gdep (gPrep ed1 arg) b e ((gPrep ed1 arg).xgdep + 1)
      have := scanBg f _ _ _ _ hx _ _ _ _ (by omega) hvs
      unfold Bg at *
      omega
  | edit he =>
    cases he with
    | start hs _ =>
      have e1 : Ed.xgdep _ = ed.xgdep := editStage_gdep hs
      unfold Bg; omega
    | plus hs _ hvc =>
      have e1 : Ed.xgdep _ = ed.xgdep := editStage_gdep hs
      exact (hc _ _ _ (by omega) hvc).of_eq e1

theorem runBg_zero : RunBg 0 := by
  intro ed h loc cmd arg txt s _ hv; cases hv

theorem runBg_one : RunBg 1 := by
  intro ed h loc cmd arg txt s _ hv
  cases hv with
  | «at» ha => cases ha
  | glob hg => cases hg
  | edit he => cases he

theorem all_gbound : ∀ f : Nat, ExecBg f ∧ CmdBg f ∧ RunBg f ∧ RunBg (f + 1) := by
  intro f
  induction f with
  | zero =>
    refine ⟨?_, ?_, runBg_zero, runBg_one⟩
    · intro ed ln s _ hv; cases hv
    · intro ed ln s _ hv; cases hv
  | succ f ih =>
    obtain ⟨hx, hc, hr0, hr1⟩ := ih
    exact ⟨execBg_succ f hr0, cmdBg_succ f hx, hr1, runBg_succ f hx hc⟩

end Neatvi.Lemmas.C05g
