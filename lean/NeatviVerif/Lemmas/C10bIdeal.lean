import NeatviVerif.Spec.RegexSem
import NeatviVerif.Lemmas.C10Bt
/-!
# C10b lemmas, part 1: three-valued outcomes, `firstSome`, and the idealised backtracker `btJ`

`O3` is the outcome of a search without counters: `fail`, `ok r`, or `bad` (the search went into a
depth cut; everything after a cut is excluded from the completeness/priority claims).
`firstSome l k` runs the continuation `k` over the list `l` in order and stops at the first outcome
that is not `fail`.

`btJ env N t` is the backtracker `bt` with the depth and the cut counter forgotten: it has the
structure of `bt`, the marks are set as in `RegexSem.results`, atoms that trap simply fail, and the
closing fork of an unbounded repetition has a budget of `N` iterations, after which the outcome is
`bad`.
-/
namespace Neatvi.Lemmas.C10b
open Neatvi Neatvi.Regex Neatvi.Spec.RegexSem

inductive O3 where
  | fail | bad | ok (r : R)
deriving DecidableEq, Repr

/-- sequential "or": the second search runs only when the first one failed -/
def O3.seq : O3 → O3 → O3
  | .fail, b => b
  | .bad, _ => .bad
  | .ok r, _ => .ok r

/-- first outcome of `k` over `l`, in order, that is not `fail` -/
def firstSome : List R → (R → O3) → O3
  | [], _ => .fail
  | r :: rest, k => (k r).seq (firstSome rest k)

@[simp] theorem seq_fail_left (b : O3) : O3.fail.seq b = b := rfl
@[simp] theorem seq_bad_left (b : O3) : O3.bad.seq b = O3.bad := rfl
@[simp] theorem seq_ok_left (r : R) (b : O3) : (O3.ok r).seq b = O3.ok r := rfl
@[simp] theorem seq_fail_right (a : O3) : a.seq O3.fail = a := by cases a <;> rfl

theorem seq_assoc (a b c : O3) : (a.seq b).seq c = a.seq (b.seq c) := by cases a <;> rfl

@[simp] theorem firstSome_nil (k : R → O3) : firstSome [] k = O3.fail := rfl
@[simp] theorem firstSome_cons (r : R) (l : List R) (k : R → O3) :
    firstSome (r :: l) k = (k r).seq (firstSome l k) := rfl

theorem firstSome_append (l1 l2 : List R) (k : R → O3) :
    firstSome (l1 ++ l2) k = (firstSome l1 k).seq (firstSome l2 k) := by
  induction l1 with
  | nil => rfl
  | cons r l ih => simp only [List.cons_append, firstSome_cons, ih, seq_assoc]

theorem firstSome_single (r : R) (k : R → O3) : firstSome [r] k = k r := by simp

theorem firstSome_bind (l : List R) (f : R → List R) (k : R → O3) :
    firstSome (bindR l f) k = firstSome l (fun r => firstSome (f r) k) := by
  unfold bindR
  induction l with
  | nil => rfl
  | cons r l ih => simp only [List.flatMap_cons, firstSome_append, firstSome_cons, ih]

theorem firstSome_map (l : List R) (g : R → R) (k : R → O3) :
    firstSome (l.map g) k = firstSome l (fun r => k (g r)) := by
  induction l with
  | nil => rfl
  | cons r l ih => simp only [List.map_cons, firstSome_cons, ih]

theorem firstSome_congr {l : List R} {k1 k2 : R → O3} (h : ∀ r ∈ l, k1 r = k2 r) :
    firstSome l k1 = firstSome l k2 := by
  induction l with
  | nil => rfl
  | cons r l ih =>
    simp only [firstSome_cons]
    rw [h r (List.mem_cons_self), ih (fun x hx => h x (List.mem_cons_of_mem _ hx))]

/-! ### refinement (`bad` below everything) and shape equivalence -/

/-- `a` is `bad` or equal to `b` -/
def Le (a b : O3) : Prop := a = O3.bad ∨ a = b

theorem Le.refl (a : O3) : Le a a := Or.inr rfl
theorem Le.bad (b : O3) : Le O3.bad b := Or.inl rfl

theorem Le.seq {a b c d : O3} (h1 : Le a b) (h2 : Le c d) : Le (a.seq c) (b.seq d) := by
  rcases h1 with h1 | h1
  · subst h1; exact Le.bad _
  · subst h1
    cases a with
    | fail => exact h2
    | bad => exact Le.bad _
    | ok r => exact Le.refl _

theorem Le.trans {a b c : O3} (h1 : Le a b) (h2 : Le b c) : Le a c := by
  rcases h1 with h1 | h1
  · exact Or.inl h1
  · subst h1; exact h2

theorem Le.eq_of_ne {a b : O3} (h : Le a b) (hn : a ≠ O3.bad) : a = b := by
  rcases h with h | h
  · exact absurd h hn
  · exact h

/-- pointwise refinement of continuations -/
def LeK (k1 k2 : R → O3) : Prop := ∀ s, Le (k1 s) (k2 s)

theorem firstSome_le {l : List R} {k1 k2 : R → O3} (h : ∀ r ∈ l, Le (k1 r) (k2 r)) :
    Le (firstSome l k1) (firstSome l k2) := by
  induction l with
  | nil => exact Le.refl _
  | cons r l ih =>
    simp only [firstSome_cons]
    exact Le.seq (h r (List.mem_cons_self)) (ih (fun x hx => h x (List.mem_cons_of_mem _ hx)))

/-- same constructor (the payload of `ok` is ignored) -/
def Sh : O3 → O3 → Prop
  | .fail, .fail => True
  | .bad, .bad => True
  | .ok _, .ok _ => True
  | _, _ => False

theorem Sh.refl (a : O3) : Sh a a := by cases a <;> trivial

theorem Sh.seq {a b c d : O3} (h1 : Sh a b) (h2 : Sh c d) : Sh (a.seq c) (b.seq d) := by
  cases a <;> cases b <;> first | exact h2 | trivial | exact h1.elim

theorem Sh.bad_iff {a b : O3} (h : Sh a b) : a = O3.bad ↔ b = O3.bad := by
  cases a <;> cases b <;> simp_all [Sh]

/-- continuations whose outcome constructor depends only on the position -/
def ShK (k k' : R → O3) : Prop := ∀ s s' : R, s.1 = s'.1 → Sh (k s) (k' s')

/-! ### the idealised backtracker -/

abbrev KJ := R → O3
abbrev BodyJ := R → KJ → O3

def copiesJ (body : BodyJ) : Nat → BodyJ
  | 0 => fun r k => k r
  | n + 1 => fun r k => body r (fun r' => copiesJ body n r' k)

def optsJ (body : BodyJ) : Nat → BodyJ
  | 0 => fun r k => k r
  | n + 1 => fun r k => (body r (fun r' => optsJ body n r' k)).seq (k r)

/-- the closing fork of an unbounded repetition with a budget of iterations -/
def starJ (body : BodyJ) (k : KJ) : Nat → KJ
  | 0 => fun _ => O3.bad
  | f + 1 => fun r => (body r (starJ body k f)).seq (k r)

def repJ (N : Nat) (body : BodyJ) (mn mx : Int) : BodyJ := fun r k =>
  if mn == 0 && mx == 0 then k r
  else if mn == 1 && mx == 1 then body r k
  else
    let tail : KJ := fun r' =>
      if mx < 0 then starJ body k N r' else optsJ body (mx - max 1 mn).toNat r' k
    let main : O3 := copiesJ body (max 1 mn).toNat r tail
    if mn == 0 then main.seq (k r) else main

def atomJ (env : Env) (a : Atom) : BodyJ := fun r k =>
  match atomMatch a env.subj env.flg r.1 with
  | AR.ok j => k (j, r.2)
  | _ => O3.fail

def grpJ (inner : BodyJ) (g : Nat) : BodyJ := fun r k =>
  inner (r.1, setMark r.2 (2 * g) r.1) (fun r' => k (r'.1, setMark r'.2 (2 * g + 1) r'.1))

def btJ (env : Env) (N : Nat) : RNode → BodyJ
  | .nul => fun r k => k r
  | .atom a mn mx => repJ N (atomJ env a) mn mx
  | .cat a b => fun r k => btJ env N a r (fun r' => btJ env N b r' k)
  | .alt a b => fun r k => (btJ env N a r k).seq (btJ env N b r k)
  | .grp a g mn mx => repJ N (grpJ (btJ env N a) g) mn mx

theorem repJ_general {N : Nat} {body : BodyJ} {mn mx : Int} (h00 : ¬(mn = 0 ∧ mx = 0))
    (h11 : ¬(mn = 1 ∧ mx = 1)) (r : R) (k : KJ) :
    repJ N body mn mx r k =
      if mn = 0 then
        (copiesJ body (max 1 mn).toNat r (fun r' =>
          if mx < 0 then starJ body k N r' else optsJ body (mx - max 1 mn).toNat r' k)).seq (k r)
      else copiesJ body (max 1 mn).toNat r (fun r' =>
          if mx < 0 then starJ body k N r' else optsJ body (mx - max 1 mn).toNat r' k) := by
  have e0 : (mn == 0 && mx == 0) = false := by simp; omega
  have e1 : (mn == 1 && mx == 1) = false := by simp; omega
  unfold repJ
  simp only [e0, e1]
  by_cases hmn : mn = 0
  · simp [hmn]
  · simp [hmn]

/-! ### blindness: the outcome constructor does not depend on the marks -/

def BlindB (B : BodyJ) : Prop :=
  ∀ (r r' : R) (k k' : KJ), r.1 = r'.1 → ShK k k' → Sh (B r k) (B r' k')

theorem copiesJ_blind {B : BodyJ} (hB : BlindB B) : ∀ n, BlindB (copiesJ B n) := by
  intro n
  induction n with
  | zero => intro r r' k k' h hk; exact hk r r' h
  | succ n ih =>
    intro r r' k k' h hk
    simp only [copiesJ]
    exact hB r r' _ _ h (fun s s' hs => ih s s' k k' hs hk)

theorem optsJ_blind {B : BodyJ} (hB : BlindB B) : ∀ n, BlindB (optsJ B n) := by
  intro n
  induction n with
  | zero => intro r r' k k' h hk; exact hk r r' h
  | succ n ih =>
    intro r r' k k' h hk
    simp only [optsJ]
    exact Sh.seq (hB r r' _ _ h (fun s s' hs => ih s s' k k' hs hk)) (hk r r' h)

theorem starJ_blind {B : BodyJ} (hB : BlindB B) {k k' : KJ} (hk : ShK k k') :
    ∀ f, ShK (starJ B k f) (starJ B k' f) := by
  intro f
  induction f with
  | zero => intro s s' _; trivial
  | succ f ih =>
    intro s s' h
    simp only [starJ]
    exact Sh.seq (hB s s' _ _ h ih) (hk s s' h)

theorem repJ_blind {B : BodyJ} (hB : BlindB B) (N : Nat) (mn mx : Int) : BlindB (repJ N B mn mx) := by
  intro r r' k k' h hk
  by_cases h00 : mn = 0 ∧ mx = 0
  · simp only [repJ, h00]; exact hk r r' h
  by_cases h11 : mn = 1 ∧ mx = 1
  · simp only [repJ, h11]; exact hB r r' k k' h hk
  rw [repJ_general h00 h11, repJ_general h00 h11]
  have main : Sh
      (copiesJ B (max 1 mn).toNat r (fun r' =>
        if mx < 0 then starJ B k N r' else optsJ B (mx - max 1 mn).toNat r' k))
      (copiesJ B (max 1 mn).toNat r' (fun r' =>
        if mx < 0 then starJ B k' N r' else optsJ B (mx - max 1 mn).toNat r' k')) := by
    apply copiesJ_blind hB _ r r' _ _ h
    intro s s' hs
    show Sh (if mx < 0 then _ else _) (if mx < 0 then _ else _)
    split
    · exact starJ_blind hB hk N s s' hs
    · exact optsJ_blind hB _ s s' k k' hs hk
  split
  · exact Sh.seq main (hk r r' h)
  · exact main

theorem atomJ_blind (env : Env) (a : Atom) : BlindB (atomJ env a) := by
  intro r r' k k' h hk
  unfold atomJ
  rw [← h]
  split
  · exact hk _ _ rfl
  · trivial

theorem grpJ_blind {inner : BodyJ} (hi : BlindB inner) (g : Nat) : BlindB (grpJ inner g) := by
  intro r r' k k' h hk
  unfold grpJ
  exact hi _ _ _ _ h (fun s s' hs => hk _ _ hs)

theorem btJ_blind (env : Env) (N : Nat) (t : RNode) : BlindB (btJ env N t) := by
  induction t with
  | nul => intro r r' k k' h hk; exact hk r r' h
  | atom a mn mx => simp only [btJ]; exact repJ_blind (atomJ_blind env a) N mn mx
  | cat a b iha ihb =>
    intro r r' k k' h hk
    simp only [btJ]
    exact iha r r' _ _ h (fun s s' hs => ihb s s' k k' hs hk)
  | alt a b iha ihb =>
    intro r r' k k' h hk
    simp only [btJ]
    exact Sh.seq (iha r r' k k' h hk) (ihb r r' k k' h hk)
  | grp a g mn mx iha => simp only [btJ]; exact repJ_blind (grpJ_blind iha g) N mn mx

/-! ### monotonicity: a continuation that goes `bad` more often makes the search go `bad` more often -/

def MonoB (B : BodyJ) : Prop := ∀ (r : R) (k1 k2 : KJ), LeK k1 k2 → Le (B r k1) (B r k2)

theorem copiesJ_mono {B : BodyJ} (hB : MonoB B) : ∀ n, MonoB (copiesJ B n) := by
  intro n
  induction n with
  | zero => intro r k1 k2 h; exact h r
  | succ n ih =>
    intro r k1 k2 h
    simp only [copiesJ]
    exact hB r _ _ (fun s => ih s k1 k2 h)

theorem optsJ_mono {B : BodyJ} (hB : MonoB B) : ∀ n, MonoB (optsJ B n) := by
  intro n
  induction n with
  | zero => intro r k1 k2 h; exact h r
  | succ n ih =>
    intro r k1 k2 h
    simp only [optsJ]
    exact Le.seq (hB r _ _ (fun s => ih s k1 k2 h)) (h r)

theorem starJ_mono {B : BodyJ} (hB : MonoB B) {k1 k2 : KJ} (hk : LeK k1 k2) :
    ∀ f, LeK (starJ B k1 f) (starJ B k2 f) := by
  intro f
  induction f with
  | zero => intro s; exact Le.refl _
  | succ f ih =>
    intro s
    simp only [starJ]
    exact Le.seq (hB s _ _ ih) (hk s)

/-- a smaller budget only turns outcomes into `bad` -/
theorem starJ_fuel_mono {B : BodyJ} (hB : MonoB B) (k : KJ) :
    ∀ f, LeK (starJ B k f) (starJ B k (f + 1)) := by
  intro f
  induction f with
  | zero => intro s; exact Le.bad _
  | succ f ih =>
    intro s
    rw [starJ, starJ]
    exact Le.seq (hB s _ _ ih) (Le.refl _)

theorem repJ_mono {B : BodyJ} (hB : MonoB B) (N : Nat) (mn mx : Int) : MonoB (repJ N B mn mx) := by
  intro r k1 k2 h
  by_cases h00 : mn = 0 ∧ mx = 0
  · simp only [repJ, h00]; exact h r
  by_cases h11 : mn = 1 ∧ mx = 1
  · simp only [repJ, h11]; exact hB r k1 k2 h
  rw [repJ_general h00 h11, repJ_general h00 h11]
  have main : Le
      (copiesJ B (max 1 mn).toNat r (fun r' =>
        if mx < 0 then starJ B k1 N r' else optsJ B (mx - max 1 mn).toNat r' k1))
      (copiesJ B (max 1 mn).toNat r (fun r' =>
        if mx < 0 then starJ B k2 N r' else optsJ B (mx - max 1 mn).toNat r' k2)) := by
    apply copiesJ_mono hB _ r
    intro s
    show Le (if mx < 0 then _ else _) (if mx < 0 then _ else _)
    split
    · exact starJ_mono hB h N s
    · exact optsJ_mono hB _ s k1 k2 h
  split
  · exact Le.seq main (h r)
  · exact main

theorem atomJ_mono (env : Env) (a : Atom) : MonoB (atomJ env a) := by
  intro r k1 k2 h
  unfold atomJ
  split
  · exact h _
  · exact Le.refl _

theorem grpJ_mono {inner : BodyJ} (hi : MonoB inner) (g : Nat) : MonoB (grpJ inner g) := by
  intro r k1 k2 h
  unfold grpJ
  exact hi _ _ _ (fun s => h _)

theorem btJ_mono (env : Env) (N : Nat) (t : RNode) : MonoB (btJ env N t) := by
  induction t with
  | nul => intro r k1 k2 h; exact h r
  | atom a mn mx => simp only [btJ]; exact repJ_mono (atomJ_mono env a) N mn mx
  | cat a b iha ihb =>
    intro r k1 k2 h
    simp only [btJ]
    exact iha r _ _ (fun s => ihb s k1 k2 h)
  | alt a b iha ihb =>
    intro r k1 k2 h
    simp only [btJ]
    exact Le.seq (iha r k1 k2 h) (ihb r k1 k2 h)
  | grp a g mn mx iha => simp only [btJ]; exact repJ_mono (grpJ_mono iha g) N mn mx

end Neatvi.Lemmas.C10b
