import NeatviVerif.Lemmas.C20cSoloE
/-!
# C20c lemmas, part 17: a command line made of local commands does not look at the parked buffers
-/
namespace Neatvi.Lemmas.C20c
open Neatvi Neatvi.Lbuf Neatvi.LbufIo Neatvi.Ex Neatvi.Rset Neatvi.Props.C20 Neatvi.Props.C20b Neatvi.Lemmas.C20b
open Neatvi.Lemmas.ExFrame Neatvi.Lemmas.C02Ex

/-- the commands `ex_exec` will dispatch on the line (the split of a line into commands does not
    depend on the editor state) are all local: none of `:e`, `:b`, `:q`/`:wq`/`:x`, `:g`/`:v`, `:@` -/
def localCmds : Nat → Bytes → Bool
  | 0, _ => true
  | g + 1, ln =>
    if ln.isEmpty then true else
    let (_, ln) := exLoc ln
    let (cmd, ln) := exCmd ln
    let idx := exIdx cmd
    let abbr := match idx with | some (a, _) => a | none => strOf "unknown"
    let (_, ln) := exArg ln abbr
    let ln := (exTxt {} ln abbr).1.2
    match idx with
    | none => localCmds g ln
    | some (_, h) => !tableHandler h && localCmds g ln

/-- a line of local commands -/
def localLine (ln : Bytes) : Bool := localCmds (ln.length + 1) ln

theorem exTxt_withTail (L : List (Option Buf)) (ed : Ed) (src a : Bytes) :
    exTxt (withTail L ed) src a = ((exTxt ed src a).1, withTail L (exTxt ed src a).2) := by
  unfold exTxt
  simp only []
  repeat' split
  all_goals rfl

theorem runCmd_withTail_any (L : List (Option Buf)) (f : Nat) (ed : Ed) (hA : Alt L ed) (hd : String)
    (loc cmd arg : Bytes) (txt : Option Bytes) (hl : tableHandler hd = false) :
    runCmd f (withTail L ed) hd loc cmd arg txt = tailR L (runCmd f ed hd loc cmd arg txt) := by
  cases f with
  | zero => rw [runCmd, runCmd]; rfl
  | succ f => exact runCmd_withTail L f ed hA hd loc cmd arg txt hl

theorem cmds_withTail (L : List (Option Buf)) (f : Nat) :
    ∀ (g : Nat) (ed : Ed) (ln : Bytes) (ret : Int), Alt L ed → localCmds g ln = true →
      exExec.cmds f g (withTail L ed) ln ret = tailR L (exExec.cmds f g ed ln ret) := by
  intro g
  induction g with
  | zero => intro ed ln ret _ _; rw [exExec.cmds, exExec.cmds]; rfl
  | succ g ih =>
    intro ed ln ret hA hq
    rw [exExec.cmds, exExec.cmds]
    rw [localCmds] at hq
    by_cases hne : ln.isEmpty = true
    · simp only [hne, if_true]; rfl
    have hne' : ln.isEmpty = false := by simpa using hne
    simp only [hne', Bool.false_eq_true, if_false] at hq ⊢
    generalize exLoc ln = p1 at hq ⊢
    obtain ⟨loc, l1⟩ := p1
    simp only [] at hq ⊢
    generalize exCmd l1 = p2 at hq ⊢
    obtain ⟨cmd, l2⟩ := p2
    simp only [] at hq ⊢
    generalize exIdx cmd = idx at hq ⊢
    cases idx with
    | none =>
      simp only [] at hq ⊢
      generalize exArg l2 (strOf "unknown") = p3 at hq ⊢
      obtain ⟨arg, l3⟩ := p3
      simp only [] at hq ⊢
      rw [exTxt_withTail]
      have hb := exTxt_same ed l3 (strOf "unknown")
      have hrst := Props.C15.exTxt_rest ed l3 (strOf "unknown")
      generalize exTxt ed l3 (strOf "unknown") = X at hb hrst ⊢
      obtain ⟨⟨txt, l4⟩, edT⟩ := X
      simp only [] at hb hrst ⊢
      subst hrst
      have hAT : Alt L (edT.show (strOf "unknown command")) := hA.loc (Loc.of_same ⟨hb.1, hb.2⟩)
      exact ih (edT.show (strOf "unknown command")) _ ret hAT hq
    | some ah =>
      obtain ⟨a, hh⟩ := ah
      simp only [] at hq ⊢
      generalize exArg l2 a = p3 at hq ⊢
      obtain ⟨arg, l3⟩ := p3
      simp only [] at hq ⊢
      rw [exTxt_withTail]
      have hb := exTxt_same ed l3 a
      have hrst := Props.C15.exTxt_rest ed l3 a
      generalize exTxt ed l3 a = X at hb hrst ⊢
      obtain ⟨⟨txt, l4⟩, edT⟩ := X
      simp only [] at hb hrst ⊢
      subst hrst
      simp only [Bool.and_eq_true, Bool.not_eq_true'] at hq
      have hAT : Alt L edT := hA.loc (Loc.of_same hb)
      rw [runCmd_withTail_any L f edT hAT hh loc cmd arg txt hq.1]
      cases hr : runCmd f edT hh loc cmd arg txt with
      | none => rfl
      | some p =>
        obtain ⟨r1, ed1⟩ := p
        simp only [tailR_some]
        exact ih ed1 _ r1 (hAT.loc (runCmd_local_any f edT ed1 hh loc cmd arg txt r1 hq.1 hr)) hq.2

/-- **a line of local commands does not look at the parked buffers**: with the parked slots replaced
    by any list `L` naming the same alternate file, `ex_exec` returns the same value and leaves the
    same editor — current buffer, view, registers, options, files, output, messages — with `L` in
    place of the parked slots -/
theorem exExec_withTail (L : List (Option Buf)) (f : Nat) (ed : Ed) (ln : Bytes) (hA : Alt L ed)
    (hq : localLine ln = true) : exExec f (withTail L ed) ln = tailR L (exExec f ed ln) := by
  cases f with
  | zero => rw [exExec, exExec]; rfl
  | succ f =>
    rw [exExec, exExec]
    by_cases hlen : ln.length ≥ Gen.EXLEN
    · simp only [hlen, if_true]; rfl
    · simp only [hlen, if_false]
      exact cmds_withTail L f _ ed ln 0 hA hq


theorem cmds_local (f : Nat) :
    ∀ (g : Nat) (ed : Ed) (ln : Bytes) (ret r : Int) (ed' : Ed), localCmds g ln = true →
      exExec.cmds f g ed ln ret = some (r, ed') → Loc ed ed' := by
  intro g
  induction g with
  | zero => intro ed ln ret r ed' _ h; rw [exExec.cmds] at h; cases h; exact Loc.refl _
  | succ g ih =>
    intro ed ln ret r ed' hq h
    rw [exExec.cmds] at h
    rw [localCmds] at hq
    split at h
    · cases h; exact Loc.refl _
    · rename_i hne
      rw [if_neg hne] at hq
      generalize exLoc ln = p1 at h hq
      obtain ⟨loc, l1⟩ := p1
      simp only [] at h hq
      generalize exCmd l1 = p2 at h hq
      obtain ⟨cmd, l2⟩ := p2
      simp only [] at h hq
      generalize exIdx cmd = idx at h hq
      cases idx with
      | none =>
        simp only [] at h hq
        generalize exArg l2 (strOf "unknown") = p3 at h hq
        obtain ⟨arg, l3⟩ := p3
        simp only [] at h hq
        have hb := exTxt_same ed l3 (strOf "unknown")
        have hrst := Props.C15.exTxt_rest ed l3 (strOf "unknown")
        generalize exTxt ed l3 (strOf "unknown") = X at h hb hrst
        obtain ⟨⟨txt, l4⟩, edT⟩ := X
        simp only [] at h hb hrst
        subst hrst
        refine Loc.trans ?_ (ih _ _ _ _ _ hq h)
        exact Loc.to (Loc.of_same hb) rfl rfl
      | some ah =>
        obtain ⟨a, hh⟩ := ah
        simp only [] at h hq
        generalize exArg l2 a = p3 at h hq
        obtain ⟨arg, l3⟩ := p3
        simp only [] at h hq
        have hb := exTxt_same ed l3 a
        have hrst := Props.C15.exTxt_rest ed l3 a
        generalize exTxt ed l3 a = X at h hb hrst
        obtain ⟨⟨txt, l4⟩, edT⟩ := X
        simp only [] at h hb hrst
        subst hrst
        simp only [Bool.and_eq_true, Bool.not_eq_true'] at hq
        split at h
        · cases h
        · rename_i r1 ed1 hr
          exact ((Loc.of_same hb).trans (runCmd_local_any f edT ed1 hh loc cmd arg txt r1 hq.1 hr)).trans
            (ih _ _ _ _ _ hq.2 h)

/-- **a line of local commands is a local step**: every parked buffer record is exactly what it was -/
theorem exExec_local (f : Nat) (ed ed' : Ed) (ln : Bytes) (r : Int) (hq : localLine ln = true)
    (h : exExec f ed ln = some (r, ed')) : Loc ed ed' := by
  cases f with
  | zero => rw [exExec] at h; cases h
  | succ f =>
    rw [exExec] at h
    split at h
    · cases h; exact Loc.of_same ⟨rfl, rfl⟩
    · exact cmds_local f _ ed ln 0 r ed' hq h

end Neatvi.Lemmas.C20c
