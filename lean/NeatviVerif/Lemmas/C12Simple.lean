import NeatviVerif.Model.Rset
/-!
# C12 lemmas, part 1: the classifier `simple` (`rstr_simple`)
-/
namespace Neatvi.C12
open Neatvi Neatvi.Uc Neatvi.Regex Neatvi.Rset

/-- the anchor prefix of a literal pattern -/
def pre (lbeg wbeg : Bool) : Bytes := (if lbeg then [94] else []) ++ (if wbeg then [92, 60] else [])
/-- the anchor suffix of a literal pattern -/
def suf (wend lend : Bool) : Bytes := (if wend then [92, 62] else []) ++ (if lend then [36] else [])

theorem eq_cons_of_headD {l : Bytes} {a : Nat} (h : (l.headD 0 == a) = true) (_ha : a ≠ 0) :
    l = a :: l.drop 1 := by
  cases l with
  | nil => simp at h; omega
  | cons x t => simp at h; simp [h]

theorem eq_cons2_of_headD {l : Bytes} {a b : Nat}
    (h : (l.headD 0 == a && l.getD 1 0 == b) = true) (_ha : a ≠ 0) (hb : b ≠ 0) :
    l = a :: b :: l.drop 2 := by
  cases l with
  | nil => simp at h; omega
  | cons x t =>
    cases t with
    | nil => simp at h; omega
    | cons y u => simp at h; simp [h]

theorem drop_takeWhile_length (p : Nat → Bool) (l : Bytes) :
    l.drop (l.takeWhile p).length = l.dropWhile p := by
  induction l with
  | nil => rfl
  | cons a t ih =>
    simp only [List.takeWhile_cons, List.dropWhile_cons]
    split <;> simp [ih]

theorem mem_takeWhile_imp {p : Nat → Bool} {l : Bytes} {c : Nat} (h : c ∈ l.takeWhile p) : p c = true := by
  induction l with
  | nil => simp at h
  | cons a t ih =>
    rw [List.takeWhile_cons] at h
    split at h
    · rcases List.mem_cons.mp h with rfl | h
      · assumption
      · exact ih h
    · simp at h

theorem takeWhile_append_drop (p : Nat → Bool) (l : Bytes) :
    l = l.takeWhile p ++ l.drop (l.takeWhile p).length := by
  rw [drop_takeWhile_length, List.takeWhile_append_dropWhile]

/-- the shape of a pattern accepted by the classifier -/
theorem simple_decomp {re : Bytes} {lbeg wbeg wend lend : Bool} {lit : Bytes}
    (h : simple re = some (lbeg, wbeg, wend, lend, lit)) :
    re = pre lbeg wbeg ++ lit ++ suf wend lend ∧ (∀ c ∈ lit, isStop c = false) := by
  unfold simple at h
  extract_lets lbeg' re1 wbeg' re2 lit' re3 wend' re4 lend' re5 at h
  have hre1 : (if lbeg' = true then re.drop 1 else re) = re1 := rfl
  have hre2 : (if wbeg' = true then re1.drop 2 else re1) = re2 := rfl
  have hre3 : re2.drop lit'.length = re3 := rfl
  have hre4 : (if wend' = true then re3.drop 2 else re3) = re4 := rfl
  have hre5 : (if lend' = true then re4.drop 1 else re4) = re5 := rfl
  have hlit : re2.takeWhile (fun c => !isStop c) = lit' := rfl
  have h1 : (re.headD 0 == 94) = lbeg' := rfl
  have h2 : (re1.headD 0 == 92 && re1.getD 1 0 == 60) = wbeg' := rfl
  have h3 : (re3.headD 0 == 92 && re3.getD 1 0 == 62) = wend' := rfl
  have h4 : (re4.headD 0 == 36) = lend' := rfl
  clear_value re5 lend' re4 wend' re3 lit' re2 wbeg' re1 lbeg'
  split at h
  · rename_i h5
    simp only [Option.some.injEq, Prod.mk.injEq] at h
    obtain ⟨rfl, rfl, rfl, rfl, rfl⟩ := h
    have e5 : re5 = [] := by simpa using h5
    have e4 : re4 = (if lend' then [36] else []) := by
      cases lend' with
      | true =>
        have := eq_cons_of_headD h4 (by decide)
        simp only [if_true] at hre5; rw [hre5, e5] at this; simpa using this
      | false => simp at hre5; simp [hre5, e5]
    have e3 : re3 = (if wend' then [92, 62] else []) ++ re4 := by
      cases wend' with
      | true =>
        have := eq_cons2_of_headD h3 (by decide) (by decide)
        simp only [if_true] at hre4; rw [hre4] at this; simpa using this
      | false => simp at hre4; simp [hre4]
    have e2 : re2 = lit' ++ re3 := by
      have := takeWhile_append_drop (fun c => !isStop c) re2
      rw [hlit, hre3] at this; exact this
    have e1 : re1 = (if wbeg' then [92, 60] else []) ++ re2 := by
      cases wbeg' with
      | true =>
        have := eq_cons2_of_headD h2 (by decide) (by decide)
        simp only [if_true] at hre2; rw [hre2] at this; simpa using this
      | false => simp at hre2; simp [hre2]
    have e0 : re = (if lbeg' then [94] else []) ++ re1 := by
      cases lbeg' with
      | true =>
        have := eq_cons_of_headD h1 (by decide)
        simp only [if_true] at hre1; rw [hre1] at this; simpa using this
      | false => simp at hre1; simp [hre1]
    refine ⟨?_, ?_⟩
    · rw [e0, e1, e2, e3, e4]; simp [pre, suf]
    · intro c hc
      rw [← hlit] at hc
      simpa using mem_takeWhile_imp hc
  · cases h

end Neatvi.C12
