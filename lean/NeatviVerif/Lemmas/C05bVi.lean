import NeatviVerif.Model.ViCmd
/-!
# C05b, vi level: the counts of vi.c stay inside `int`

* `viPrefix.digits` keeps `0 ≤ n ≤ 999999999` (`digits_bounded`), and the only arithmetic it performs,
  `n * 10 + (c - 48)`, is computed for `0 ≤ n < 100000000`, `48 ≤ c ≤ 57` only (`digit_step`);
* `digitsChk`: the same loop with the C `int` range checked at the multiplication and at the addition;
  from an accumulator in range it is the loop of the model (`digitsChk_eq`), i.e. the check never fires;
* `cntOf`, the page count of `^F` / `^B`.
-/
namespace Neatvi.Lemmas.C05b
open Neatvi Neatvi.Vi

/-- `x` is a value of the C type `int` -/
def FitsInt (x : Int) : Prop := -2147483648 ≤ x ∧ x ≤ 2147483647

instance (x : Int) : Decidable (FitsInt x) := by unfold FitsInt; exact inferInstance

theorem two_pow_31 : (2 : Int) ^ 31 = 2147483648 := by decide
theorem two_pow_63 : (2 : Int) ^ 63 = 9223372036854775808 := by decide

/-! ### one step of the digit loop -/

/-- the arithmetic of one step: below the cut-off the product, the C intermediate `n * 10 + c`, the digit
    and the sum are all in range, and the new accumulator is at most nine digits long -/
theorem digit_step (n c : Int) (h0 : 0 ≤ n) (hn : n < 100000000) (hc0 : 48 ≤ c) (hc1 : c ≤ 57) :
    0 ≤ n * 10 ∧ n * 10 ≤ 999999990 ∧ 0 ≤ c - 48 ∧ c - 48 ≤ 9 ∧
    0 ≤ n * 10 + c ∧ n * 10 + c ≤ 1000000047 ∧
    0 ≤ n * 10 + (c - 48) ∧ n * 10 + (c - 48) ≤ 999999999 := by
  omega

/-- the accumulator after one step -/
theorem digit_acc (n c : Int) (h0 : 0 ≤ n) (hn : n ≤ 999999999) (hc0 : 48 ≤ c) (hc1 : c ≤ 57) :
    0 ≤ (if n < 100000000 then n * 10 + (c - 48) else n) ∧
    (if n < 100000000 then n * 10 + (c - 48) else n) ≤ 999999999 := by
  split <;> omega

/-- the guard of the loop as a proposition -/
theorem digit_guard (c : Int) (h : (decide (48 ≤ c) && decide (c ≤ 57)) = true) : 48 ≤ c ∧ c ≤ 57 := by
  simpa using h

/-! ### the loop -/

theorem bind_apply {α β : Type} (m : M α) (g : α → M β) (s : VS) :
    (m >>= g) s = match m s with
      | Res.ok a s' => g a s'
      | Res.eof => Res.eof
      | Res.trap => Res.trap := rfl

theorem digits_zero (n c : Int) (s : VS) :
    viPrefix.digits 0 n c s = Res.ok n { s with vibuf := c :: s.vibuf } := by
  unfold viPrefix.digits
  rfl

theorem digits_stop (f : Nat) (n c : Int) (s : VS) (h : (decide (48 ≤ c) && decide (c ≤ 57)) = false) :
    viPrefix.digits (f + 1) n c s = Res.ok n { s with vibuf := c :: s.vibuf } := by
  unfold viPrefix.digits
  simp only [h]
  rfl

theorem digits_step (f : Nat) (n c : Int) (s : VS) (h : (decide (48 ≤ c) && decide (c ≤ 57)) = true) :
    viPrefix.digits (f + 1) n c s =
      match viRead s with
      | Res.ok c' s' => viPrefix.digits f (if n < 100000000 then n * 10 + (c - 48) else n) c' s'
      | Res.eof => Res.eof
      | Res.trap => Res.trap := by
  conv => lhs; unfold viPrefix.digits
  simp only [h, if_true]
  rw [bind_apply]
  cases viRead s <;> rfl

/-- the invariant of `viPrefix.digits`: an accumulator in `[0, 999999999]` stays there -/
theorem digits_bounded : ∀ (f : Nat) (n c : Int) (s s' : VS) (m : Int),
    0 ≤ n → n ≤ 999999999 → viPrefix.digits f n c s = Res.ok m s' → 0 ≤ m ∧ m ≤ 999999999 := by
  intro f
  induction f with
  | zero =>
    intro n c s s' m h0 h1 h
    rw [digits_zero] at h
    cases h
    exact ⟨h0, h1⟩
  | succ f ih =>
    intro n c s s' m h0 h1 h
    cases hg : (decide (48 ≤ c) && decide (c ≤ 57)) with
    | false =>
      rw [digits_stop f n c s hg] at h
      cases h
      exact ⟨h0, h1⟩
    | true =>
      rw [digits_step f n c s hg] at h
      obtain ⟨hc0, hc1⟩ := digit_guard c hg
      obtain ⟨k0, k1⟩ := digit_acc n c h0 h1 hc0 hc1
      cases hr : viRead s with
      | ok c' s1 => rw [hr] at h; exact ih _ _ _ _ _ k0 k1 h
      | eof => rw [hr] at h; cases h
      | trap => rw [hr] at h; cases h

/-- the loop never decreases its accumulator -/
theorem digits_mono : ∀ (f : Nat) (n c : Int) (s s' : VS) (m : Int),
    0 ≤ n → viPrefix.digits f n c s = Res.ok m s' → n ≤ m := by
  intro f
  induction f with
  | zero =>
    intro n c s s' m _ h
    rw [digits_zero] at h
    cases h
    exact Int.le_refl _
  | succ f ih =>
    intro n c s s' m h0 h
    cases hg : (decide (48 ≤ c) && decide (c ≤ 57)) with
    | false =>
      rw [digits_stop f n c s hg] at h
      cases h
      exact Int.le_refl _
    | true =>
      rw [digits_step f n c s hg] at h
      obtain ⟨hc0, hc1⟩ := digit_guard c hg
      cases hr : viRead s with
      | ok c' s1 =>
        rw [hr] at h
        have := ih _ _ _ _ _ (by split <;> omega) h
        split at this <;> omega
      | eof => rw [hr] at h; cases h
      | trap => rw [hr] at h; cases h

/-! ### the loop with the C range checked -/

/-- `viPrefix.digits` with a trap wherever the C code would leave `int`: at `n * 10`, at `n * 10 + c`
    (the order in which C evaluates `n * 10 + c - '0'`), at `c - '0'` and at the result -/
def digitsChk : Nat → Int → Int → M Int
  | 0, n, c => do viBack c; pure n
  | f + 1, n, c => if 48 ≤ c && c ≤ 57 then do
      let c' ← viRead
      if n < 100000000 then
        if FitsInt (n * 10) ∧ FitsInt (n * 10 + c) ∧ FitsInt (c - 48) ∧ FitsInt (n * 10 + (c - 48)) then
          digitsChk f (n * 10 + (c - 48)) c'
        else trap
      else digitsChk f n c'
    else do viBack c; pure n

/-- from an accumulator in `[0, 999999999]` the checked loop is the loop of the model: no check fires -/
theorem digitsChk_eq : ∀ (f : Nat) (n c : Int), 0 ≤ n → n ≤ 999999999 →
    digitsChk f n c = viPrefix.digits f n c := by
  intro f
  induction f with
  | zero => intro n c _ _; unfold digitsChk viPrefix.digits; rfl
  | succ f ih =>
    intro n c h0 h1
    funext s
    cases hg : (decide (48 ≤ c) && decide (c ≤ 57)) with
    | false =>
      rw [digits_stop f n c s hg]
      unfold digitsChk
      simp only [hg]
      rfl
    | true =>
      rw [digits_step f n c s hg]
      obtain ⟨hc0, hc1⟩ := digit_guard c hg
      obtain ⟨k0, k1⟩ := digit_acc n c h0 h1 hc0 hc1
      unfold digitsChk
      simp only [hg, if_true]
      rw [bind_apply]
      cases hr : viRead s with
      | eof => rfl
      | trap => rfl
      | ok c' s1 =>
        simp only []
        by_cases hn : n < 100000000
        · have hfit : FitsInt (n * 10) ∧ FitsInt (n * 10 + c) ∧ FitsInt (c - 48) ∧ FitsInt (n * 10 + (c - 48)) := by
            unfold FitsInt; omega
          simp only [hn, if_true, hfit, and_self] at k0 k1 ⊢
          rw [ih _ _ k0 k1]
        · simp only [hn, if_false] at k0 k1 ⊢
          rw [ih _ _ k0 k1]

/-! ### `vi_prefix()` -/

theorem viPrefix_eq (s : VS) : viPrefix s =
    match viRead s with
    | Res.ok c s1 =>
      if 49 ≤ c && c ≤ 57 then viPrefix.digits 64 0 c s1
      else Res.ok 0 { s1 with vibuf := c :: s1.vibuf }
    | Res.eof => Res.eof
    | Res.trap => Res.trap := by
  unfold viPrefix
  rw [bind_apply]
  cases viRead s with
  | eof => rfl
  | trap => rfl
  | ok c s1 =>
    simp only []
    split <;> rfl

/-- `vi_prefix()` returns a count of at most nine digits -/
theorem viPrefix_bounded (s s' : VS) (n : Int) (h : viPrefix s = Res.ok n s') :
    0 ≤ n ∧ n ≤ 999999999 := by
  rw [viPrefix_eq] at h
  cases hr : viRead s with
  | eof => rw [hr] at h; cases h
  | trap => rw [hr] at h; cases h
  | ok c s1 =>
    rw [hr] at h
    simp only [] at h
    split at h
    · exact digits_bounded _ _ _ _ _ _ (by omega) (by omega) h
    · cases h; omega

/-- `vi_prefix()` with the `int` range checked at every arithmetic operation -/
def viPrefixChk : M Int := do
  let c ← viRead
  if 49 ≤ c && c ≤ 57 then digitsChk 64 0 c
  else
    viBack c
    pure 0

/-- the checked `vi_prefix()` is `vi_prefix()`: none of its arithmetic leaves `int`, for every state and
    every typed key sequence -/
theorem viPrefixChk_eq : viPrefixChk = viPrefix := by
  unfold viPrefixChk viPrefix
  simp only [digitsChk_eq 64 0 _ (Int.le_refl 0) (by omega)]

/-! ### the counts of the state: `vi_arg1`, `vi_arg2` -/

/-- both counts of the state are what `vi_prefix()` can deliver -/
def CountsFit (s : VS) : Prop := 0 ≤ s.arg1 ∧ s.arg1 ≤ 999999999 ∧ 0 ≤ s.arg2 ∧ s.arg2 ≤ 999999999

theorem termRead_args (s s' : VS) (c : Int) (h : termRead s = Res.ok c s') :
    s'.arg1 = s.arg1 ∧ s'.arg2 = s.arg2 := by
  unfold termRead at h
  simp only [] at h
  split at h
  · cases h
  · cases h
    constructor <;> (simp only []; split <;> rfl)

theorem viRead_args (s s' : VS) (c : Int) (h : viRead s = Res.ok c s') :
    s'.arg1 = s.arg1 ∧ s'.arg2 = s.arg2 := by
  unfold viRead at h
  split at h
  · cases h; exact ⟨rfl, rfl⟩
  · exact termRead_args s s' c h

theorem digits_args : ∀ (f : Nat) (n c : Int) (s s' : VS) (m : Int),
    viPrefix.digits f n c s = Res.ok m s' → s'.arg1 = s.arg1 ∧ s'.arg2 = s.arg2 := by
  intro f
  induction f with
  | zero =>
    intro n c s s' m h
    rw [digits_zero] at h
    cases h
    exact ⟨rfl, rfl⟩
  | succ f ih =>
    intro n c s s' m h
    cases hg : (decide (48 ≤ c) && decide (c ≤ 57)) with
    | false =>
      rw [digits_stop f n c s hg] at h
      cases h
      exact ⟨rfl, rfl⟩
    | true =>
      rw [digits_step f n c s hg] at h
      cases hr : viRead s with
      | ok c' s1 =>
        rw [hr] at h
        obtain ⟨a1, a2⟩ := viRead_args _ _ _ hr
        obtain ⟨b1, b2⟩ := ih _ _ _ _ _ h
        exact ⟨b1.trans a1, b2.trans a2⟩
      | eof => rw [hr] at h; cases h
      | trap => rw [hr] at h; cases h

/-- `vi_prefix()` does not touch the counts of the state -/
theorem viPrefix_args (s s' : VS) (n : Int) (h : viPrefix s = Res.ok n s') :
    s'.arg1 = s.arg1 ∧ s'.arg2 = s.arg2 := by
  rw [viPrefix_eq] at h
  cases hr : viRead s with
  | eof => rw [hr] at h; cases h
  | trap => rw [hr] at h; cases h
  | ok c s1 =>
    rw [hr] at h
    simp only [] at h
    obtain ⟨a1, a2⟩ := viRead_args _ _ _ hr
    split at h
    · obtain ⟨b1, b2⟩ := digits_args _ _ _ _ _ _ h
      exact ⟨b1.trans a1, b2.trans a2⟩
    · cases h; exact ⟨a1, a2⟩

/-! ### `vi_cnt()` and the page count -/

/-- a factor of `vi_cnt()`: the count, or 1 when none was typed -/
theorem factor_bounded (a : Int) (h0 : 0 ≤ a) (h1 : a ≤ 999999999) :
    1 ≤ (if a != 0 then a else 1) ∧ (if a != 0 then a else 1) ≤ 999999999 := by
  by_cases h : a = 0
  · subst h; simp
  · have : (a != 0) = true := by simpa using h
    simp only [this, if_true]
    omega

theorem prod_bounded (a b : Int) (ha0 : 1 ≤ a) (ha1 : a ≤ 999999999) (hb0 : 1 ≤ b) (hb1 : b ≤ 999999999) :
    1 ≤ a * b ∧ a * b ≤ 999999999 * 999999999 := by
  constructor
  · have := Int.mul_le_mul ha0 hb0 (by omega) (by omega)
    omega
  · exact Int.mul_le_mul ha1 hb1 (by omega) (by omega)

/-- `min (max 1 a1) len * (rows - 1)` -/
theorem page_bounded (a1 len rows : Int) (hlen : 0 ≤ len) (hrows : 1 ≤ rows) (hfit : len * rows < 2147483648) :
    0 ≤ min (max 1 a1) len * (rows - 1) ∧ min (max 1 a1) len * (rows - 1) < 2147483648 ∧
    0 ≤ min (max 1 a1) len ∧ min (max 1 a1) len ≤ len := by
  have hm0 : 0 ≤ min (max 1 a1) len := by omega
  have hm1 : min (max 1 a1) len ≤ len := by omega
  refine ⟨Int.mul_nonneg hm0 (by omega), ?_, hm0, hm1⟩
  have h1 : min (max 1 a1) len * (rows - 1) ≤ len * (rows - 1) :=
    Int.mul_le_mul_of_nonneg_right hm1 (by omega)
  have h2 : len * (rows - 1) ≤ len * rows :=
    Int.mul_le_mul_of_nonneg_left (by omega) hlen
  omega

end Neatvi.Lemmas.C05b
