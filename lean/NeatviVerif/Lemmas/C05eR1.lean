import NeatviVerif.Props.C11
import NeatviVerif.Props.C10
import NeatviVerif.Model.Rset
/-!
# C05e lemmas, part R1: `regcomp` never traps on the patterns `rstr_make` hands it

`rset_make` wraps the pattern as `((pat))`.  The two traps of the parser — a backslash as the last byte
(`ratom_read` loops on the terminator) and `{` with nothing after the bounds (`++*pat` steps over the terminator)
— need the pattern text to *end* where they look; a text that ends in `)` and holds no NUL byte never does.  The
fuel of the recursive descent (`4 * length + 8`) suffices: every nested call consumes a byte.
-/
namespace Neatvi.Lemmas.C05e
open Neatvi Neatvi.Uc Neatvi.Regex Neatvi.Rset

/-- the text ends in `)` -/
def EndP (p : Bytes) : Prop := p.getLast? = some 41

theorem EndP.ne_nil {p : Bytes} (h : EndP p) : p ≠ [] := by
  intro h0; rw [h0] at h; cases h

theorem EndP.of_suffix {p r : Bytes} (h : EndP p) (hs : r <:+ p) (hr : r ≠ []) : EndP r := by
  obtain ⟨t, rfl⟩ := hs
  unfold EndP at h ⊢
  rw [List.getLast?_append] at h
  cases hl : r.getLast? with
  | none => exact absurd (List.getLast?_eq_none_iff.mp hl) hr
  | some x => rw [hl] at h; simpa using h

theorem EndP.tail {c : Nat} {r : Bytes} (h : EndP (c :: r)) (hc : c ≠ 41) : EndP r := by
  have hr : r ≠ [] := by
    intro h0; rw [h0] at h; simp [EndP] at h; exact hc h
  exact h.of_suffix (List.suffix_cons c r) hr

theorem EndP.drop1 {p : Bytes} (h : EndP p) (hc : p.headD 0 ≠ 41) : EndP (p.drop 1) := by
  cases p with
  | nil => exact absurd rfl h.ne_nil
  | cons c r => exact h.tail hc

/-- `p = []` or it ends in `)` -/
def GoodP (p : Bytes) : Prop := p = [] ∨ EndP p

theorem GoodP.of_suffix {p r : Bytes} (h : GoodP p) (hs : r <:+ p) : GoodP r := by
  by_cases hr : r = []
  · exact Or.inl hr
  · rcases h with h | h
    · subst h; exact absurd (List.suffix_nil.mp hs) hr
    · exact Or.inr (h.of_suffix hs hr)

/-! ### the repetition suffix -/

theorem readDigits_suffix : ∀ (p : Bytes) (v : Int), (readDigits p v).2 <:+ p := by
  intro p
  induction p with
  | nil => intro v; exact List.suffix_refl _
  | cons c r ih =>
    intro v
    rw [readDigits]
    split
    · exact (ih _).trans (List.suffix_cons _ _)
    · exact List.suffix_refl _

theorem readDigits_endP : ∀ (p : Bytes) (v : Int), EndP p → EndP (readDigits p v).2 := by
  intro p
  induction p with
  | nil => intro v h; exact absurd rfl h.ne_nil
  | cons c r ih =>
    intro v h
    rw [readDigits]
    split
    · rename_i hd
      simp only [Bool.and_eq_true, decide_eq_true_eq] at hd
      exact ih _ (h.tail (by omega))
    · exact h

/-- `rnode_atom`'s repetition suffix never steps over the terminator of a text that ends in `)` -/
theorem readRep_total (n : RNode) {p : Bytes} (h : GoodP p) : ∃ n' r, readRep n p = some (n', r) ∧ r <:+ p := by
  unfold readRep
  dsimp only
  generalize hq1 : (if (p.headD 0 == 42) = true then (setRep n 0 (-1), p.drop 1)
      else if (p.headD 0 == 63) = true then (setRep n 0 1, p.drop 1) else (n, p)) = q1
  have h1 : q1.2 <:+ p := by
    rw [← hq1]; split
    · exact List.drop_suffix 1 p
    · split
      · exact List.drop_suffix 1 p
      · exact List.suffix_refl _
  obtain ⟨n1, p1⟩ := q1
  dsimp only at h1 ⊢
  generalize hq2 : (if (p1.headD 0 == 43) = true then (setRep n1 1 (-1), p1.drop 1) else (n1, p1)) = q2
  have h2 : q2.2 <:+ p1 := by
    rw [← hq2]; split
    · exact List.drop_suffix 1 p1
    · exact List.suffix_refl _
  obtain ⟨n2, p2⟩ := q2
  dsimp only at h2 ⊢
  have hg2 : GoodP p2 := h.of_suffix (h2.trans h1)
  split
  · rename_i hb
    simp only [beq_iff_eq] at hb
    have he2 : EndP p2 := by
      rcases hg2 with h0 | h0
      · rw [h0] at hb; simp at hb
      · exact h0
    have he3 : EndP (p2.drop 1) := he2.drop1 (by rw [hb]; decide)
    have he4 := readDigits_endP (p2.drop 1) 0 he3
    have hs4 : (readDigits (p2.drop 1) 0).2 <:+ p := ((readDigits_suffix _ _).trans (List.drop_suffix 1 p2)).trans (h2.trans h1)
    generalize readDigits (p2.drop 1) 0 = d1 at he4 hs4
    obtain ⟨mn, p3⟩ := d1
    dsimp only at he4 hs4 ⊢
    generalize hq5 : (if (p3.headD 0 == 44) = true then
        readDigits (p3.drop 1) (if ((p3.drop 1).headD 0 == 125) = true then -1 else 0) else (mn, p3)) = q5
    have h5 : EndP q5.2 ∧ q5.2 <:+ p := by
      rw [← hq5]; split
      · rename_i hc
        simp only [beq_iff_eq] at hc
        exact ⟨readDigits_endP _ _ (he4.drop1 (by rw [hc]; decide)),
          ((readDigits_suffix _ _).trans (List.drop_suffix 1 p3)).trans hs4⟩
      · exact ⟨he4, hs4⟩
    obtain ⟨mx, p4⟩ := q5
    dsimp only at h5 ⊢
    cases p4 with
    | nil => exact absurd rfl h5.1.ne_nil
    | cons x p' =>
      dsimp only
      split
      · exact ⟨_, _, rfl, (List.suffix_cons _ _).trans h5.2⟩
      · exact ⟨_, _, rfl, (List.suffix_cons _ _).trans h5.2⟩
  · exact ⟨_, _, rfl, h2.trans h1⟩


/-! ### atoms -/

theorem rdb_some (p : Bytes) (i : Nat) (h : i ≤ p.length) : ∃ c, rdb p i = some c ∧ (i < p.length → c = p.getD i 0) ∧
    (i = p.length → c = 0) := by
  unfold rdb
  by_cases hlt : i < p.length
  · rw [if_pos hlt]
    refine ⟨p[i], List.getElem?_eq_getElem hlt, fun _ => ?_, fun he => by omega⟩
    rw [List.getD_eq_getElem?_getD, List.getElem?_eq_getElem hlt]; rfl
  · rw [if_neg hlt, if_pos (by omega)]
    exact ⟨0, rfl, fun h' => absurd h' hlt, fun _ => rfl⟩

theorem ucLen_pos' {c : Nat} (h : 0 < c) : 0 < ucLen c := by
  unfold ucLen
  split
  · simp
  · split
    · omega
    · split
      · omega
      · split <;> omega

theorem isSpecial_zero : isSpecial 0 = true := by decide

/-- the literal-run loop from a position `i ≥ 1` inside the text -/
theorem litLoop_from (p : Bytes) : ∀ (f i : Nat), 1 ≤ i → i ≤ p.length → p.length - i + 1 ≤ f →
    ∃ n, litLoop p f i = some n ∧ i ≤ n ∧ n ≤ p.length := by
  intro f
  induction f with
  | zero => intro i _ _ hf; omega
  | succ f ih =>
    intro i hi1 hil hf
    rw [litLoop]
    obtain ⟨c, hc, hc1, hc2⟩ := rdb_some p i hil
    rw [hc]
    dsimp only
    by_cases hsp : isSpecial c = true
    · rw [if_neg (by simp [hsp]; omega)]
      exact ⟨i, rfl, Nat.le_refl _, hil⟩
    · rw [if_pos (by simp [hsp])]
      have hlt : i < p.length := by
        rcases Nat.lt_or_ge i p.length with h | h
        · exact h
        · have := hc2 (by omega); rw [this] at hsp; exact absurd isSpecial_zero hsp
      have hcne : c ≠ 0 := fun h0 => by rw [h0] at hsp; exact hsp isSpecial_zero
      have hl1 : 1 ≤ rxLen p i := by
        unfold rxLen
        rw [← hc1 hlt]
        have := ucLen_pos' (c := c) (by omega)
        omega
      have hl2 : i + rxLen p i ≤ p.length := by unfold rxLen; omega
      rw [if_neg (by simp; omega)]
      rw [if_pos (by simp; omega)]
      obtain ⟨nx, hnx, _⟩ := rdb_some p (i + rxLen p i) hl2
      rw [hnx]
      dsimp only
      split
      · exact ⟨i, rfl, Nat.le_refl _, hil⟩
      · obtain ⟨n, hn, h1, h2⟩ := ih (i + rxLen p i) (by omega) hl2 (by omega)
        exact ⟨n, hn, by omega, h2⟩

/-- the literal-run loop from the start of a text whose first byte is not NUL: at least one byte is taken -/
theorem litLoop_total (p : Bytes) (hp : p ≠ []) (h0 : p.headD 0 ≠ 0) :
    ∃ n, litLoop p (p.length + 2) 0 = some n ∧ 1 ≤ n ∧ n ≤ p.length := by
  rw [litLoop]
  have hlen : 0 < p.length := by cases p with | nil => exact absurd rfl hp | cons _ _ => simp
  obtain ⟨c, hc, hc1, _⟩ := rdb_some p 0 (Nat.zero_le _)
  rw [hc]
  dsimp only
  have hc0 : c = p.headD 0 := by
    rw [hc1 hlen]; cases p with | nil => rfl | cons _ _ => rfl
  have hl1 : 1 ≤ rxLen p 0 := by
    unfold rxLen
    have : p.getD 0 0 = p.headD 0 := by cases p with | nil => rfl | cons _ _ => rfl
    rw [this]
    have := ucLen_pos' (c := p.headD 0) (by omega)
    omega
  have hl2 : rxLen p 0 ≤ p.length := by unfold rxLen; omega
  rw [if_pos (by simp)]
  rw [if_neg (by simp; omega)]
  simp only [bne_self_eq_false, Bool.false_eq_true, if_false, Bool.false_and]
  obtain ⟨n, hn, h1, h2⟩ := litLoop_from p (p.length + 1) (0 + rxLen p 0) (by omega) (by omega) (by omega)
  exact ⟨n, hn, by omega, h2⟩

theorem brkLenLoop_ge (s : Bytes) : ∀ (f n : Nat), n ≤ brkLenLoop s f n := by
  intro f
  induction f with
  | zero => intro n; rw [brkLenLoop]; exact Nat.le_refl _
  | succ f ih =>
    intro n
    rw [brkLenLoop]
    dsimp only
    split
    · refine Nat.le_trans ?_ (ih _)
      split
      · split <;> omega
      · split <;> omega
    · exact Nat.le_refl _

theorem brkLen_pos (s : Bytes) : 1 ≤ brkLen s := by
  unfold brkLen
  dsimp only
  have key : ∀ n0, 1 ≤ n0 → 1 ≤ brkLenLoop s (s.length + 1) n0 := fun n0 h => Nat.le_trans h (brkLenLoop_ge _ _ _)
  repeat' split
  all_goals first | exact Nat.le_succ_of_le (key _ (by omega)) | exact key _ (by omega)

/-- `ratom_read` on a text that ends in `)`, holds no NUL and does not start with one of the bytes `rnode_atom`
    handles itself: an atom is read, at least one byte is consumed -/
theorem ratomRead_total {p : Bytes} (he : EndP p) (hnul : 0 ∉ p) :
    ∃ a r, ratomRead p = some (a, r) ∧ r <:+ p ∧ r.length < p.length := by
  cases p with
  | nil => exact absurd rfl he.ne_nil
  | cons c r =>
    have hc0 : c ≠ 0 := fun h => hnul (by simp [h])
    unfold ratomRead
    dsimp only
    split
    · exact ⟨_, _, rfl, List.suffix_cons _ _, by simp⟩
    · split
      · exact ⟨_, _, rfl, List.suffix_cons _ _, by simp⟩
      · split
        · exact ⟨_, _, rfl, List.suffix_cons _ _, by simp⟩
        · split
          · refine ⟨_, _, rfl, List.drop_suffix _ _, ?_⟩
            have : 1 ≤ brkLen (c :: r) := brkLen_pos _
            simp only [List.length_drop, List.length_cons]; omega
          · split
            · rename_i h92
              simp only [beq_iff_eq] at h92
              have hr : EndP r := he.tail (by omega)
              split
              · exact ⟨_, _, rfl, (List.drop_suffix 1 r).trans (List.suffix_cons _ _), by
                  simp only [List.length_drop, List.length_cons]; omega⟩
              · split
                · exact ⟨_, _, rfl, (List.drop_suffix 1 r).trans (List.suffix_cons _ _), by
                    simp only [List.length_drop, List.length_cons]; omega⟩
                · have hr0 : r.headD 0 ≠ 0 := by
                    intro h0
                    cases r with
                    | nil => exact absurd rfl hr.ne_nil
                    | cons x xs => simp at h0; exact hnul (by simp [h0])
                  obtain ⟨n, hn, h1, h2⟩ := litLoop_total r hr.ne_nil hr0
                  rw [hn]
                  exact ⟨_, _, rfl, (List.drop_suffix n r).trans (List.suffix_cons _ _), by
                    simp only [List.length_drop, List.length_cons]; omega⟩
            · obtain ⟨n, hn, h1, h2⟩ := litLoop_total (c :: r) (by simp) (by simpa using hc0)
              rw [hn]
              exact ⟨_, _, rfl, List.drop_suffix n _, by
                simp only [List.length_drop, List.length_cons] at h2 ⊢; omega⟩


/-! ### the recursive descent -/

theorem headD_ne_of_nil {p : Bytes} {c : Nat} (h : p.headD 0 = c) (hc : c ≠ 0) : p ≠ [] := by
  intro h0; rw [h0] at h; exact hc h.symm

/-- all four functions of the parser return, with the fuel `4 * length + k`; what they leave is a suffix of what
    they were given, and a node that is not NULL cost at least one byte -/
theorem parse_total : ∀ (f : Nat) (p : Bytes), GoodP p → 0 ∉ p →
    (4 * p.length + 4 ≤ f → ∃ n r, parseAlt f p = some (n, r) ∧ r <:+ p) ∧
    (4 * p.length + 3 ≤ f → ∃ n r, parseSeq f p = some (n, r) ∧ r <:+ p) ∧
    (4 * p.length + 2 ≤ f → ∃ n r, parseAtom f p = some (n, r) ∧ r <:+ p ∧ (n.isSome = true → r.length < p.length)) ∧
    (4 * p.length + 1 ≤ f → p.headD 0 = 40 → ∃ n r, parseGrp f p = some (n, r) ∧ r <:+ p ∧ r.length < p.length) := by
  intro f
  induction f with
  | zero =>
    intro p _ _
    exact ⟨fun h => by omega, fun h => by omega, fun h => by omega, fun h => by omega⟩
  | succ f ih =>
    intro p hg hnul
    have nul_suffix : ∀ {r : Bytes}, r <:+ p → 0 ∉ r := fun hs h0 => hnul (hs.subset h0)
    refine ⟨?_, ?_, ?_, ?_⟩
    · -- parseAlt
      intro hf
      rw [parseAlt]
      obtain ⟨c1, p1, h1, hs1⟩ := (ih p hg hnul).2.1 (by omega)
      rw [h1]
      dsimp only
      split
      · exact ⟨_, _, rfl, hs1⟩
      · rename_i hbar
        simp only [bne_iff_ne, ne_eq, Decidable.not_not] at hbar
        have hne : p1 ≠ [] := headD_ne_of_nil hbar (by decide)
        have hl1 : (p1.drop 1).length + 1 ≤ p.length := by
          have := hs1.length_le
          have : 0 < p1.length := by cases p1 with | nil => exact absurd rfl hne | cons _ _ => simp
          simp only [List.length_drop]; omega
        have hs2 : p1.drop 1 <:+ p := (List.drop_suffix 1 p1).trans hs1
        obtain ⟨c2, p2, h2, hs3⟩ := (ih (p1.drop 1) (hg.of_suffix hs2) (nul_suffix hs2)).1 (by omega)
        rw [h2]
        cases c2 with
        | none => exact ⟨_, _, rfl, hs3.trans hs2⟩
        | some b => exact ⟨_, _, rfl, hs3.trans hs2⟩
    · -- parseSeq
      intro hf
      rw [parseSeq]
      obtain ⟨c1, p1, h1, hs1, hlt⟩ := (ih p hg hnul).2.2.1 (by omega)
      rw [h1]
      cases c1 with
      | none => exact ⟨_, _, rfl, hs1⟩
      | some n1 =>
        dsimp only
        have hl := hlt rfl
        obtain ⟨c2, p2, h2, hs2⟩ := (ih p1 (hg.of_suffix hs1) (nul_suffix hs1)).2.1 (by omega)
        rw [h2]
        cases c2 with
        | none => exact ⟨_, _, rfl, hs2.trans hs1⟩
        | some n2 => exact ⟨_, _, rfl, hs2.trans hs1⟩
    · -- parseAtom
      intro hf
      rw [parseAtom]
      split
      · exact ⟨_, _, rfl, List.suffix_refl _, fun h => by cases h⟩
      · rename_i hc
        simp only [Bool.or_eq_true, beq_iff_eq, not_or] at hc
        split
        · rename_i h40
          simp only [beq_iff_eq] at h40
          obtain ⟨n, p1, h1, hs1, hlt⟩ := (ih p hg hnul).2.2.2 (by omega) h40
          rw [h1]
          cases n with
          | none => exact ⟨_, _, rfl, hs1, fun h => by cases h⟩
          | some nd =>
            dsimp only
            obtain ⟨n', r, hr, hs2⟩ := readRep_total nd (hg.of_suffix hs1)
            rw [hr]
            exact ⟨_, _, rfl, hs2.trans hs1, fun _ => Nat.lt_of_le_of_lt hs2.length_le hlt⟩
        · have hne : p ≠ [] := headD_ne_of_nil rfl hc.1.1
          have hep : EndP p := by
            rcases hg with h0 | h0
            · exact absurd h0 hne
            · exact h0
          obtain ⟨a, p1, h1, hs1, hlt⟩ := ratomRead_total hep hnul
          rw [h1]
          dsimp only
          obtain ⟨n', r, hr, hs2⟩ := readRep_total (RNode.atom a 1 1) (hg.of_suffix hs1)
          rw [hr]
          exact ⟨_, _, rfl, hs2.trans hs1, fun _ => Nat.lt_of_le_of_lt hs2.length_le hlt⟩
    · -- parseGrp
      intro hf h40
      rw [parseGrp]
      have hne : p ≠ [] := headD_ne_of_nil h40 (by decide)
      have hlen : 0 < p.length := by cases p with | nil => exact absurd rfl hne | cons _ _ => simp
      have hs1 : p.drop 1 <:+ p := List.drop_suffix 1 p
      have hl1 : (p.drop 1).length + 1 = p.length := by simp only [List.length_drop]; omega
      split
      · obtain ⟨n, p2, h2, hs2⟩ := (ih (p.drop 1) (hg.of_suffix hs1) (nul_suffix hs1)).1 (by omega)
        rw [h2]
        cases n with
        | none => exact ⟨_, _, rfl, hs2.trans hs1, by have := hs2.length_le; omega⟩
        | some nd =>
          dsimp only
          split
          · exact ⟨_, _, rfl, hs2.trans hs1, by have := hs2.length_le; omega⟩
          · exact ⟨_, _, rfl, ((List.drop_suffix 1 p2).trans hs2).trans hs1, by
              have := hs2.length_le
              simp only [List.length_drop]; omega⟩
      · exact ⟨_, _, rfl, (List.drop_suffix 1 _).trans hs1, by simp only [List.length_drop]; omega⟩

/-- `rnode_parse` on `((pat))` -/
theorem parse_combined (pat : Bytes) (hnul : 0 ∉ pat) : ∃ t, parse (combined [some pat]) = some t := by
  have hc : combined [some pat] = [40, 40] ++ pat ++ [41, 41] := by simp [combined]
  have hg : GoodP (combined [some pat]) := by
    right; rw [hc]; unfold EndP
    rw [List.getLast?_append]; rfl
  have hn : 0 ∉ combined [some pat] := by
    rw [hc]; simp; exact hnul
  obtain ⟨n, r, h, _⟩ := (parse_total (parseFuel (combined [some pat])) _ hg hn).1 (by unfold parseFuel; omega)
  unfold parse
  rw [h]
  exact ⟨_, rfl⟩

/-- **`regcomp` does not trap** on the text `rset_make` builds from a pattern without NUL -/
theorem regcomp_total (pat : Bytes) (hnul : 0 ∉ pat) (flg : Nat) : ∃ r, regcomp (combined [some pat]) flg = some r := by
  obtain ⟨t, ht⟩ := parse_combined pat hnul
  unfold regcomp
  rw [ht]
  cases t with
  | none => exact ⟨_, rfl⟩
  | some t =>
    dsimp only
    split <;> exact ⟨_, rfl⟩

/-- **`rstr_make` does not trap** -/
theorem rstrMake_total (pat : Bytes) (hnul : 0 ∉ pat) (flg : Nat) : ∃ r, rstrMake pat flg = some r := by
  unfold rstrMake
  dsimp only
  split
  · exact ⟨_, rfl⟩
  · unfold Rset.make
    dsimp only
    obtain ⟨r, hr⟩ := regcomp_total pat hnul (1 ||| if (flg &&& RE_ICASE != 0) = true then REG_ICASE else 0)
    simp only [List.foldl_cons, List.foldl_nil]
    rw [hr]
    cases r <;> exact ⟨_, rfl⟩

end Neatvi.Lemmas.C05e
