import NeatviVerif.Lemmas.C08gJ
/-!
# C08g: one iteration of the loop of `vi()` (`viStep`) on a plain command key

`viPre` on a command key typed without a count or a register prefix (`viPre_cmd`): the key is looked at by
`vi_yankbuf`, `vi_prefix` and `vi_motion`, each pushing it back, so that `commandTail` finds it on the push-back
stack; the counts and the register prefix are cleared and `icmd` restarts with this key.  `viPost` after a
command (`viPost_spec`): the window fix, the sticky column, the pending output, `lbuf_modified`.
-/
set_option linter.unusedSimpArgs false
set_option linter.unusedVariables false
namespace Neatvi.Lemmas.C08g
open Neatvi Neatvi.Uc Neatvi.Vi Neatvi.Ex Neatvi.Lbuf Neatvi.Mot Neatvi.Spec
open Neatvi.Lemmas.C08 Neatvi.Lemmas.C08b Neatvi.Lemmas.C08f
open Neatvi.Lemmas.C09 (finRec pending termRead_ok icmdAfter)
open Neatvi.Props.C08f

/-! ### `viPost` -/

/-- `lbuf_modified` keeps everything but the counters of the buffer -/
theorem lbufModified_spec (s : VS) : ∃ B, lbufModified s = Res.ok () { s with ed := { s.ed with bufs := B } } ∧
    lines { s with ed := { s.ed with bufs := B } } = lines s := by
  unfold lbufModified withEd Vi.modify
  cases h : s.ed.lb with
  | none => exact ⟨s.ed.bufs, by simp [h], rfl⟩
  | some lb =>
    refine ⟨(s.ed.setLb (Lbuf.modified lb).2).bufs, ?_, ?_⟩
    · simp only [h]
      rw [← Lemmas.C06.setLb_fields]
    · show Lemmas.C06.lines _ = Lemmas.C06.lines s.ed
      rw [← Lemmas.C06.setLb_fields, Lemmas.C06.lines_of_lb (Lemmas.C06.setLb_lb s.ed lb _ h), Lemmas.C06.lines_of_lb h]
      rfl

/-- the row and offset `vi_wfix()` settles on -/
def wfixRow (s : VS) : Int :=
  if s.ed.xrow < 0 || s.ed.xrow ≥ lenOf s then (if lenOf s != 0 then lenOf s - 1 else 0) else s.ed.xrow

def wfixOff (s : VS) : Int :=
  match lineOf s (wfixRow s) with | some l => Ren.renNoeol l s.ed.xoff | none => Ren.renNoeol [] s.ed.xoff

theorem viWfix_spec (s : VS) : ∃ xt, viWfix s = Res.ok ()
    { s with ed := { s.ed with xrow := wfixRow s, xtop := xt, xoff := wfixOff s } } :=
  ⟨_, rfl⟩

theorem viWait_quiet (s : VS) (h : nlCount s.ed.out ≤ 1) : viWait s = Res.ok () { s with ed := { s.ed with out := [] } } := by
  unfold viWait
  simp only [bind_apply, get_apply]
  rw [if_neg (by omega)]
  rfl

/-- the state `lbuf_modified` leaves -/
def modSt (s : VS) : VS := match lbufModified s with | Res.ok _ s' => s' | _ => s

theorem lbufModified_eq (s : VS) : lbufModified s = Res.ok () (modSt s) := by
  obtain ⟨B, h, -⟩ := lbufModified_spec s
  unfold modSt; rw [h]

theorem modSt_spec (s : VS) : ∃ B, modSt s = { s with ed := { s.ed with bufs := B } } ∧ lines (modSt s) = lines s := by
  obtain ⟨B, h, hl⟩ := lbufModified_spec s
  refine ⟨B, ?_, ?_⟩ <;> (unfold modSt; rw [h])
  exact hl

/-- the tail of `viPost`: `vi_wait()` without output to show, and the two `lbuf_modified` -/
def tailSt (s : VS) : VS := modSt (modSt { s with ed := { s.ed with out := [] } })

theorem tail_eq (s : VS) (h : nlCount s.ed.out ≤ 1) :
    (do viWait; lbufModified; lbufModified : M Unit) s = Res.ok () (tailSt s) := by
  simp only [bind_apply, viWait_quiet s h, lbufModified_eq]
  rfl

theorem tailSt_spec (s : VS) : ∃ B, tailSt s = { s with ed := { s.ed with out := [], bufs := B } } ∧ lines (tailSt s) = lines s := by
  obtain ⟨B1, e1, l1⟩ := modSt_spec { s with ed := { s.ed with out := [] } }
  obtain ⟨B2, e2, l2⟩ := modSt_spec (modSt { s with ed := { s.ed with out := [] } })
  refine ⟨B2, ?_, ?_⟩
  · unfold tailSt; rw [e2, e1]
  · unfold tailSt; rw [l2, l1]; rfl

/-- what the end of an iteration leaves: the window fix moved the cursor to `(wfixRow, wfixOff)`; the sticky column,
the window, the output buffer and the counters of the buffer may differ; nothing else does -/
structure PostFrame (s s' : VS) : Prop where
  eq : ∃ xc xt xl B, s' =
    { s with xcol := xc, ed := { s.ed with xrow := wfixRow s, xoff := wfixOff s, xtop := xt, xleft := xl, out := [], bufs := B } }
  lines : lines s' = lines s

theorem post_leaf (s t : VS)
    (ht : t = { s with xcol := t.xcol, ed := { s.ed with xrow := wfixRow s, xoff := wfixOff s, xtop := t.ed.xtop, xleft := t.ed.xleft } })
    (hout : nlCount s.ed.out ≤ 1) :
    ∃ s', (do viWait; lbufModified; lbufModified : M Unit) t = Res.ok () s' ∧ PostFrame s s' := by
  obtain ⟨xc, hxc⟩ : ∃ xc, xc = t.xcol := ⟨_, rfl⟩
  obtain ⟨xt, hxt⟩ : ∃ xt, xt = t.ed.xtop := ⟨_, rfl⟩
  obtain ⟨xl, hxl⟩ : ∃ xl, xl = t.ed.xleft := ⟨_, rfl⟩
  rw [← hxc, ← hxt, ← hxl] at ht
  subst ht
  obtain ⟨B, e, l⟩ := tailSt_spec { s with xcol := xc, ed := { s.ed with xrow := wfixRow s, xoff := wfixOff s, xtop := xt, xleft := xl } }
  exact ⟨_, tail_eq _ hout, ⟨xc, xt, xl, B, e⟩, l⟩

theorem viPost_spec (mod : Nat) (s : VS) (hq : s.ed.xquit = false) (hout : nlCount s.ed.out ≤ 1) :
    ∃ s', viPost (some mod) s = Res.ok () s' ∧ PostFrame s s' := by
  obtain ⟨xt, hw⟩ := viWfix_spec s
  rw [Lemmas.C07.viPost_some]
  simp only [bind_apply, hw]
  unfold Lemmas.C07.viPostRest
  simp only [bind_apply, get_apply]
  split
  · rename_i h
    exact absurd (h : s.ed.xquit = true) (by rw [hq]; simp)
  split
  · simp only [bind_apply, Vi.modify, get_apply, withEd]
    split
    · simp only [bind_apply, Vi.modify, get_apply, withEd]
      split
      · exact post_leaf s _ rfl hout
      · exact post_leaf s _ rfl hout
    · simp only [bind_apply, Vi.modify, get_apply, withEd]
      split
      · exact post_leaf s _ rfl hout
      · exact post_leaf s _ rfl hout
  · simp only [bind_apply, Vi.modify, get_apply, withEd]
    split
    · simp only [bind_apply, Vi.modify, get_apply, withEd]
      split
      · exact post_leaf s _ rfl hout
      · exact post_leaf s _ rfl hout
    · simp only [bind_apply, Vi.modify, get_apply, withEd]
      split
      · exact post_leaf s _ rfl hout
      · exact post_leaf s _ rfl hout

/-! ### `viPre` on a command key -/

/-- the state `viPre` leaves when the plain command key `c` was typed: counts and register prefix cleared, `icmd`
restarted with the key, the key on the push-back stack -/
def preSt (s : VS) (c : Nat) (ib : Bytes) (ip : Nat) (ty : Bytes) : VS :=
  { s with ibuf := ib, ibufPos := ip, typed := ty, icmd := [c], arg1 := 0, arg2 := 0, ybuf := 0, vibuf := [(c : Int)] }

macro "viPre_key" s:ident c:num more:ident hv:ident hp:ident : tactic => `(tactic|
  (obtain ⟨ib, ip, ty, h1, h2, -⟩ := termRead_ok { $s with icmd := [], arg2 := 0 } $c $more $hp
   refine ⟨ib, ip, ty, ?_, h2⟩
   have hr : viRead { $s with icmd := [], arg2 := 0 } = termRead { $s with icmd := [], arg2 := 0 } := by
     unfold viRead; simp only [$hv:ident]
   unfold viPre viYankbuf viPrefix viMotion viMotionln preSt
   simp only [bind_apply, get_apply, termCmd, Vi.modify, hr, h1]
   simp (config := {decide := true}) only [bind_apply, get_apply, viBack, viRead, Vi.modify, pure_apply, if_false, if_true, icmdAfter]
   rw [$hv:ident]
   rfl))

theorem viPre_99 (s : VS) (more : Bytes) (hv : s.vibuf = []) (hp : pending s = 99 :: more) :
    ∃ ib ip ty, viPre s = Res.ok (0, s.ed.xrow, noeol s s.ed.xrow s.ed.xoff) (preSt s 99 ib ip ty) ∧ ib.drop ip ++ ty = more := by
  viPre_key s 99 more hv hp

theorem viPre_100 (s : VS) (more : Bytes) (hv : s.vibuf = []) (hp : pending s = 100 :: more) :
    ∃ ib ip ty, viPre s = Res.ok (0, s.ed.xrow, noeol s s.ed.xrow s.ed.xoff) (preSt s 100 ib ip ty) ∧ ib.drop ip ++ ty = more := by
  viPre_key s 100 more hv hp

theorem viPre_121 (s : VS) (more : Bytes) (hv : s.vibuf = []) (hp : pending s = 121 :: more) :
    ∃ ib ip ty, viPre s = Res.ok (0, s.ed.xrow, noeol s s.ed.xrow s.ed.xoff) (preSt s 121 ib ip ty) ∧ ib.drop ip ++ ty = more := by
  viPre_key s 121 more hv hp

theorem viPre_62 (s : VS) (more : Bytes) (hv : s.vibuf = []) (hp : pending s = 62 :: more) :
    ∃ ib ip ty, viPre s = Res.ok (0, s.ed.xrow, noeol s s.ed.xrow s.ed.xoff) (preSt s 62 ib ip ty) ∧ ib.drop ip ++ ty = more := by
  viPre_key s 62 more hv hp

theorem viPre_60 (s : VS) (more : Bytes) (hv : s.vibuf = []) (hp : pending s = 60 :: more) :
    ∃ ib ip ty, viPre s = Res.ok (0, s.ed.xrow, noeol s s.ed.xrow s.ed.xoff) (preSt s 60 ib ip ty) ∧ ib.drop ip ++ ty = more := by
  viPre_key s 60 more hv hp

theorem viPre_112 (s : VS) (more : Bytes) (hv : s.vibuf = []) (hp : pending s = 112 :: more) :
    ∃ ib ip ty, viPre s = Res.ok (0, s.ed.xrow, noeol s s.ed.xrow s.ed.xoff) (preSt s 112 ib ip ty) ∧ ib.drop ip ++ ty = more := by
  viPre_key s 112 more hv hp

theorem viPre_80 (s : VS) (more : Bytes) (hv : s.vibuf = []) (hp : pending s = 80 :: more) :
    ∃ ib ip ty, viPre s = Res.ok (0, s.ed.xrow, noeol s s.ed.xrow s.ed.xoff) (preSt s 80 ib ip ty) ∧ ib.drop ip ++ ty = more := by
  viPre_key s 80 more hv hp

theorem viPre_74 (s : VS) (more : Bytes) (hv : s.vibuf = []) (hp : pending s = 74 :: more) :
    ∃ ib ip ty, viPre s = Res.ok (0, s.ed.xrow, noeol s s.ed.xrow s.ed.xoff) (preSt s 74 ib ip ty) ∧ ib.drop ip ++ ty = more := by
  viPre_key s 74 more hv hp

theorem viPre_114 (s : VS) (more : Bytes) (hv : s.vibuf = []) (hp : pending s = 114 :: more) :
    ∃ ib ip ty, viPre s = Res.ok (0, s.ed.xrow, noeol s s.ed.xrow s.ed.xoff) (preSt s 114 ib ip ty) ∧ ib.drop ip ++ ty = more := by
  viPre_key s 114 more hv hp

theorem viPre_126 (s : VS) (more : Bytes) (hv : s.vibuf = []) (hp : pending s = 126 :: more) :
    ∃ ib ip ty, viPre s = Res.ok (0, s.ed.xrow, noeol s s.ed.xrow s.ed.xoff) (preSt s 126 ib ip ty) ∧ ib.drop ip ++ ty = more := by
  viPre_key s 126 more hv hp

theorem viPre_103 (s : VS) (more : Bytes) (hv : s.vibuf = []) (hp : pending s = 103 :: more) :
    ∃ ib ip ty, viPre s = Res.ok (0, s.ed.xrow, noeol s s.ed.xrow s.ed.xoff) (preSt s 103 ib ip ty) ∧ ib.drop ip ++ ty = more := by
  viPre_key s 103 more hv hp

theorem viPre_120 (s : VS) (more : Bytes) (hv : s.vibuf = []) (hp : pending s = 120 :: more) :
    ∃ ib ip ty, viPre s = Res.ok (0, s.ed.xrow, noeol s s.ed.xrow s.ed.xoff) (preSt s 120 ib ip ty) ∧ ib.drop ip ++ ty = more := by
  viPre_key s 120 more hv hp

theorem viPre_88 (s : VS) (more : Bytes) (hv : s.vibuf = []) (hp : pending s = 88 :: more) :
    ∃ ib ip ty, viPre s = Res.ok (0, s.ed.xrow, noeol s s.ed.xrow s.ed.xoff) (preSt s 88 ib ip ty) ∧ ib.drop ip ++ ty = more := by
  viPre_key s 88 more hv hp

theorem viPre_68 (s : VS) (more : Bytes) (hv : s.vibuf = []) (hp : pending s = 68 :: more) :
    ∃ ib ip ty, viPre s = Res.ok (0, s.ed.xrow, noeol s s.ed.xrow s.ed.xoff) (preSt s 68 ib ip ty) ∧ ib.drop ip ++ ty = more := by
  viPre_key s 68 more hv hp

theorem viPre_67 (s : VS) (more : Bytes) (hv : s.vibuf = []) (hp : pending s = 67 :: more) :
    ∃ ib ip ty, viPre s = Res.ok (0, s.ed.xrow, noeol s s.ed.xrow s.ed.xoff) (preSt s 67 ib ip ty) ∧ ib.drop ip ++ ty = more := by
  viPre_key s 67 more hv hp

theorem viPre_115 (s : VS) (more : Bytes) (hv : s.vibuf = []) (hp : pending s = 115 :: more) :
    ∃ ib ip ty, viPre s = Res.ok (0, s.ed.xrow, noeol s s.ed.xrow s.ed.xoff) (preSt s 115 ib ip ty) ∧ ib.drop ip ++ ty = more := by
  viPre_key s 115 more hv hp

theorem viPre_83 (s : VS) (more : Bytes) (hv : s.vibuf = []) (hp : pending s = 83 :: more) :
    ∃ ib ip ty, viPre s = Res.ok (0, s.ed.xrow, noeol s s.ed.xrow s.ed.xoff) (preSt s 83 ib ip ty) ∧ ib.drop ip ++ ty = more := by
  viPre_key s 83 more hv hp

theorem viPre_89 (s : VS) (more : Bytes) (hv : s.vibuf = []) (hp : pending s = 89 :: more) :
    ∃ ib ip ty, viPre s = Res.ok (0, s.ed.xrow, noeol s s.ed.xrow s.ed.xoff) (preSt s 89 ib ip ty) ∧ ib.drop ip ++ ty = more := by
  viPre_key s 89 more hv hp

/-- the command keys of this module: `c d y > < p P J r ~ g x X D C s S Y` -/
def isCmdKey (c : Nat) : Prop :=
  c = 99 ∨ c = 100 ∨ c = 121 ∨ c = 62 ∨ c = 60 ∨ c = 112 ∨ c = 80 ∨ c = 74 ∨ c = 114 ∨ c = 126 ∨ c = 103 ∨ c = 120 ∨
  c = 88 ∨ c = 68 ∨ c = 67 ∨ c = 115 ∨ c = 83 ∨ c = 89

/-- **`viPre` on a command key** typed without count or register prefix: no motion (`mv = 0`), the key is left on
the push-back stack -/
theorem viPre_cmd (c : Nat) (hc : isCmdKey c) (s : VS) (more : Bytes) (hv : s.vibuf = []) (hp : pending s = c :: more) :
    ∃ ib ip ty, viPre s = Res.ok (0, s.ed.xrow, noeol s s.ed.xrow s.ed.xoff) (preSt s c ib ip ty) ∧ ib.drop ip ++ ty = more := by
  rcases hc with rfl | rfl | rfl | rfl | rfl | rfl | rfl | rfl | rfl | rfl | rfl | rfl | rfl | rfl | rfl | rfl | rfl | rfl
  · exact viPre_99 s more hv hp
  · exact viPre_100 s more hv hp
  · exact viPre_121 s more hv hp
  · exact viPre_62 s more hv hp
  · exact viPre_60 s more hv hp
  · exact viPre_112 s more hv hp
  · exact viPre_80 s more hv hp
  · exact viPre_74 s more hv hp
  · exact viPre_114 s more hv hp
  · exact viPre_126 s more hv hp
  · exact viPre_103 s more hv hp
  · exact viPre_120 s more hv hp
  · exact viPre_88 s more hv hp
  · exact viPre_68 s more hv hp
  · exact viPre_67 s more hv hp
  · exact viPre_115 s more hv hp
  · exact viPre_83 s more hv hp
  · exact viPre_89 s more hv hp

end Neatvi.Lemmas.C08g
