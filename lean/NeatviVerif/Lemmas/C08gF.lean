import NeatviVerif.Lemmas.C08gE
/-!
# C08g: from the keys the terminal delivers to `vc_motion` / `vc_put` / …

`KeysMark ks s sm`: `sm` is `s` after the keys `ks` were read from the terminal and the mark `^` was set.
`keys_op`, `keys_short`: `commandTail` on an operator key followed by a motion key, and on the shorthands
`C s S ~ x X D Y` (which push their motion key back).

Where the command key itself comes from is left open (`viRead s = Res.ok c s1`): typed at the terminal
(`typed_key`), or — as in the loop of `vi()`, where `viPre` has looked at it three times — pushed back
(`pushed_key`).  The statements are about `s1`, the state once the command key has been read: nothing is pushed
back any more (`s1.vibuf = []`) and the rest of the command is pending.
-/
set_option linter.unusedSimpArgs false
set_option linter.unusedVariables false
namespace Neatvi.Lemmas.C08g
open Neatvi Neatvi.Uc Neatvi.Vi Neatvi.Ex Neatvi.Lbuf Neatvi.Mot Neatvi.Spec
open Neatvi.Lemmas.C08 Neatvi.Lemmas.C08b Neatvi.Lemmas.C08f
open Neatvi.Lemmas.C09 (finRec pending)
open Neatvi.Props.C07c (Utf8Buf refBufU)
open Neatvi.Props.C08f

/-- `sm` is `s` after the keys `ks` were read from the terminal and the mark `^` was set: the key queues moved
on, `icmd` recorded the keys, the marks of the buffer may differ; nothing else does -/
structure KeysMark (ks : Bytes) (s sm : VS) : Prop where
  eq : ∃ ib ip ty, sm =
    { s with ibuf := ib, ibufPos := ip, typed := ty, icmd := icmdAfterL s.icmd ks, ed := { s.ed with bufs := sm.ed.bufs } }
  lines : lines sm = lines s

theorem keysMark_of (ks : Bytes) (s s1 sm : VS) (h1 : Reads false ks s s1) (h2 : MarkOnly s1 sm) : KeysMark ks s sm := by
  obtain ⟨ib, ip, ty, xl, rfl, hx⟩ := h1
  have := hx rfl
  subst this
  refine ⟨⟨ib, ip, ty, ?_⟩, h2.lines⟩
  have := h2.eq
  rw [this]

namespace KeysMark
variable {ks : Bytes} {s sm : VS} (h : KeysMark ks s sm)
include h

theorem xrow : sm.ed.xrow = s.ed.xrow := by obtain ⟨ib, ip, ty, e⟩ := h.eq; rw [e]
theorem xoff : sm.ed.xoff = s.ed.xoff := by obtain ⟨ib, ip, ty, e⟩ := h.eq; rw [e]
theorem regs : sm.ed.regs = s.ed.regs := by obtain ⟨ib, ip, ty, e⟩ := h.eq; rw [e]
theorem xtd : sm.ed.xtd = s.ed.xtd := by obtain ⟨ib, ip, ty, e⟩ := h.eq; rw [e]
theorem ybuf : sm.ybuf = s.ybuf := by obtain ⟨ib, ip, ty, e⟩ := h.eq; rw [e]
theorem arg1 : sm.arg1 = s.arg1 := by obtain ⟨ib, ip, ty, e⟩ := h.eq; rw [e]
theorem xkmap : sm.xkmap = s.xkmap := by obtain ⟨ib, ip, ty, e⟩ := h.eq; rw [e]
theorem xai : sm.xai = s.xai := by obtain ⟨ib, ip, ty, e⟩ := h.eq; rw [e]
theorem vibuf : sm.vibuf = s.vibuf := by obtain ⟨ib, ip, ty, e⟩ := h.eq; rw [e]
theorem icmd : sm.icmd = icmdAfterL s.icmd ks := by obtain ⟨ib, ip, ty, e⟩ := h.eq; rw [e]
theorem lenOf : lenOf sm = lenOf s := by unfold Vi.lenOf; rw [h.lines]

/-- as a `MarkOnly` step from the state with the queues of `sm` -/
theorem markOnly : ∃ s1, MarkOnly s1 sm ∧ s1.ed = s.ed ∧ s1.ybuf = s.ybuf ∧ s1.arg1 = s.arg1 := by
  obtain ⟨ib, ip, ty, e⟩ := h.eq
  refine ⟨{ s with ibuf := ib, ibufPos := ip, typed := ty, icmd := icmdAfterL s.icmd ks }, ⟨?_, h.lines⟩, rfl, rfl, rfl⟩
  rw [e]

theorem onRow {body : List Nat} {o : Nat} (hrow : OnRow s body o) : OnRow sm body o :=
  ⟨by rw [h.xrow]; exact hrow.row0, by rw [h.lines, h.xrow]; exact hrow.line, hrow.valid, hrow.no10,
    by rw [h.xoff]; exact hrow.off, hrow.onChar⟩

theorem regGetLn (c : Nat) : regGetLn sm.ed c = regGetLn s.ed c := by
  obtain ⟨s1, hm, he, _, _⟩ := h.markOnly
  rw [hm.regGetLn c, he]

theorem leftToRight {body : List Nat} (hl : LeftToRight s body) : LeftToRight sm body := by
  obtain ⟨h1, h2⟩ := hl
  constructor
  · unfold posTab renOpts at h1 ⊢; rw [h.xtd]; exact h1
  · unfold dirCtx at h2 ⊢; rw [h.xtd]; exact h2

theorem opCount (a2 : Int) : opCount sm a2 = opCount s a2 := by
  rw [opCount_eq, opCount_eq, h.arg1]

theorem cnt1 : cnt1 sm = cnt1 s := by unfold Lemmas.C08g.cnt1; rw [h.arg1]

theorem indentOf (body : List Nat) : indentOf sm body = indentOf s body := indentOf_congr _ _ _ h.xai

end KeysMark

/-- a key typed at the terminal: `vi_read` delivers it -/
theorem typed_key (s : VS) (c : Nat) (more : Bytes) (hv : s.vibuf = []) (hp : pending s = c :: more) :
    ∃ s1, viRead s = Res.ok (c : Int) s1 ∧ s1.vibuf = [] ∧ pending s1 = more ∧ Reads false [c] s s1 := by
  obtain ⟨h1, h2, h3⟩ := viRead_pending s c more hv hp
  refine ⟨_, h1, ?_, h2, h3⟩
  obtain ⟨ib, ip, ty, xl, e, -⟩ := h3
  rw [e]; exact hv

/-- a key pushed back (as `viPre` leaves the command key): `vi_read` delivers it -/
theorem pushed_key (s1 : VS) (c : Int) : viRead { s1 with vibuf := c :: s1.vibuf } = Res.ok c s1 := rfl

/-- setting the mark `^` once the command key has been read (state `s1`) -/
theorem read_mark (s1 : VS) :
    ∃ sm, markSet 94 s1.ed.xrow s1.ed.xoff s1 = Res.ok () sm ∧ KeysMark [] s1 sm ∧ sm.vibuf = s1.vibuf ∧
      pending sm = pending s1 := by
  obtain ⟨sm, e, hm⟩ := markSet_markOnly 94 s1.ed.xrow s1.ed.xoff s1
  have hk := keysMark_of [] s1 s1 sm (Reads.refl false s1) hm
  exact ⟨sm, e, hk, hk.vibuf, hm.pending⟩

/-- **an operator key `c d y > <` followed by a motion key `k`** (not a digit `1`..`9`: no second count).  `s1` is
the state once the operator key has been read: nothing pushed back, `k` and `more` pending.  The dispatcher runs
`vc_motion` in the state `sm` (`s1` with the mark `^` set), from which `Prefixed sm 0 k s2` reads the key `k` -/
theorem keys_op (c : Nat) (hc : c = 99 ∨ c = 100 ∨ c = 121 ∨ c = 62 ∨ c = 60) (k : Nat) (hk : ¬ (49 ≤ k ∧ k ≤ 57))
    (s s1 : VS) (more : Bytes) (hr : viRead s = Res.ok (c : Int) s1) (hv : s1.vibuf = []) (hp : pending s1 = k :: more) :
    ∃ sm s2, KeysMark [] s1 sm ∧ Prefixed sm 0 (k : Int) s2 ∧ Reads false [k] sm s2 ∧ pending s2 = more ∧ s2.vibuf = [] ∧
      ∀ m s', vcMotion c sm = Res.ok m s' → commandTail s = finRec (c : Int) 0 m s' := by
  obtain ⟨sm, h2, h3, h4, h5⟩ := read_mark s1
  rw [hv] at h4
  rw [hp] at h5
  obtain ⟨g1, g2, g3⟩ := viRead_pending sm k more h4 h5
  refine ⟨sm, afterRead sm, h3, prefixed_none sm _ k g1 (by omega), g3, g2, ?_, ?_⟩
  · obtain ⟨ib, ip, ty, xl, e, -⟩ := g3
    rw [e]; exact h4
  · intro m s' hm
    rw [commandTail_op (c : Int) (by omega) s s1 hr]
    simp only [bind_apply, h2, Int.toNat_natCast, hm]

/-- pushing a key back does not move the cursor -/
theorem onRow_vibuf {s : VS} {body : List Nat} {o : Nat} (h : OnRow s body o) (v : List Int) :
    OnRow { s with vibuf := v } body o := ⟨h.row0, h.line, h.valid, h.no10, h.off, h.onChar⟩

/-- the shorthands: the key `c` stands for the operator `op` with the motion key `k` -/
def isShort (c op : Nat) (k : Int) : Prop :=
  (c = 120 ∧ op = 100 ∧ k = 32) ∨ (c = 88 ∧ op = 100 ∧ k = 8) ∨ (c = 68 ∧ op = 100 ∧ k = 36) ∨
  (c = 67 ∧ op = 99 ∧ k = 36) ∨ (c = 115 ∧ op = 99 ∧ k = 32) ∨ (c = 83 ∧ op = 99 ∧ k = 99) ∨
  (c = 89 ∧ op = 121 ∧ k = 121) ∨ (c = 126 ∧ op = 126 ∧ k = 32)

/-- **a shorthand key `x X D C s S Y ~`** (`s1`: the state once it has been read): the dispatcher pushes the motion
key `k` back and runs `vc_motion op` in the state `{ sm with vibuf := [k] }`; `sm` is that state once `k` has been
read again -/
theorem keys_short (c op : Nat) (k : Int) (hs : isShort c op k) (s s1 : VS) (hr : viRead s = Res.ok (c : Int) s1)
    (hv : s1.vibuf = []) :
    ∃ sm, KeysMark [] s1 sm ∧ sm.vibuf = [] ∧ pending sm = pending s1 ∧
      Prefixed { sm with vibuf := [k] } 0 k sm ∧
      ∀ m s', vcMotion op { sm with vibuf := [k] } = Res.ok m s' → commandTail s = finRec (c : Int) 0 m s' := by
  obtain ⟨sm, h2, h3, h4, h5⟩ := read_mark s1
  rw [hv] at h4
  have hpre : Prefixed { sm with vibuf := [k] } 0 k sm := by
    have := prefixed_none { sm with vibuf := k :: sm.vibuf } sm k (viRead_back sm k)
      (by rcases hs with ⟨_, _, rfl⟩ | ⟨_, _, rfl⟩ | ⟨_, _, rfl⟩ | ⟨_, _, rfl⟩ | ⟨_, _, rfl⟩ | ⟨_, _, rfl⟩ | ⟨_, _, rfl⟩ | ⟨_, _, rfl⟩ <;> decide)
    rw [h4] at this
    exact this
  refine ⟨sm, h3, h4, h5, hpre, ?_⟩
  intro m s' hm
  have hb : viBack k sm = Res.ok () { sm with vibuf := [k] } := by
    show Res.ok () { sm with vibuf := k :: sm.vibuf } = _
    rw [h4]
  rcases hs with ⟨rfl, rfl, rfl⟩ | ⟨rfl, rfl, rfl⟩ | ⟨rfl, rfl, rfl⟩ | ⟨rfl, rfl, rfl⟩ | ⟨rfl, rfl, rfl⟩ | ⟨rfl, rfl, rfl⟩ | ⟨rfl, rfl, rfl⟩ | ⟨rfl, rfl, rfl⟩
  · rw [commandTail_x s s1 hr]; simp only [bind_apply, h2, hb, hm]; rfl
  · rw [commandTail_X_ s s1 hr]; simp only [bind_apply, h2, hb, hm]; rfl
  · rw [commandTail_D_ s s1 hr]; simp only [bind_apply, h2, hb, hm]; rfl
  · rw [commandTail_C_ s s1 hr]; simp only [bind_apply, h2, hb, hm]; rfl
  · rw [commandTail_s s s1 hr]; simp only [bind_apply, h2, hb, hm]; rfl
  · rw [commandTail_S_ s s1 hr]; simp only [bind_apply, h2, hb, hm]; rfl
  · rw [commandTail_Y_ s s1 hr]; simp only [bind_apply, h2, hb, hm]; rfl
  · rw [commandTail_tilde s s1 hr]; simp only [bind_apply, h2, hb, hm]; rfl

end Neatvi.Lemmas.C08g
