import NeatviVerif.Lemmas.C09cVi
/-!
# C09c, part 8: the readers and the motions of vi.c on related states
-/
namespace Neatvi.Lemmas.C09c
open Neatvi Neatvi.Uc Neatvi.Lbuf Neatvi.Ex Neatvi.Vi Neatvi.Mot

theorem rel2_viYankbuf {w : Bool} {E : Nat → Nat → Prop} : Rel2 w E viYankbuf viYankbuf := by
  unfold viYankbuf
  rel_tac
macro_rules | `(tactic| rel_step) => `(tactic| with_reducible exact rel2_viYankbuf)

theorem rel2_viPrefix_digits {w : Bool} {E : Int → Int → Prop} (f : Nat) (n c : Int) :
    Rel2 w E (viPrefix.digits f n c) (viPrefix.digits f n c) := by
  induction f generalizing n c with
  | zero => unfold viPrefix.digits; rel_tac
  | succ f ih =>
    unfold viPrefix.digits
    repeat' (first | exact ih _ _ | rel_step)

theorem rel2_viPrefix {w : Bool} {E : Int → Int → Prop} : Rel2 w E viPrefix viPrefix := by
  unfold viPrefix
  repeat' (first | exact rel2_viPrefix_digits _ _ _ | rel_step)
macro_rules | `(tactic| rel_step) => `(tactic| with_reducible exact rel2_viPrefix)

theorem rel2_readKey_more {w : Bool} {E : Unit → Unit → Prop} (k : Nat) : Rel2 w E (readKey.more k) (readKey.more k) := by
  induction k with
  | zero => unfold readKey.more; rel_tac
  | succ k ih =>
    unfold readKey.more
    repeat' (first | exact ih | rel_step)

theorem rel2_readKey {w : Bool} {E : Int → Int → Prop} : Rel2 w E readKey readKey := by
  unfold readKey
  repeat' (first | exact rel2_readKey_more _ | rel_step)
macro_rules | `(tactic| rel_step) => `(tactic| with_reducible exact rel2_readKey)

theorem rel2_readCharS_more {w : Bool} {E : Bytes → Bytes → Prop} (k : Nat) (acc : Bytes) :
    Rel2 w E (readCharS.more k acc) (readCharS.more k acc) := by
  induction k generalizing acc with
  | zero => unfold readCharS.more; rel_tac
  | succ k ih =>
    unfold readCharS.more
    repeat' (first | exact ih _ | rel_step)

theorem rel2_readCharS {w : Bool} {E : Option Bytes → Option Bytes → Prop} (c : Int) (kmap : Nat) :
    Rel2 w E (readCharS c kmap) (readCharS c kmap) := by
  unfold readCharS
  repeat' (first | exact rel2_readCharS_more _ _ | rel_step)
macro_rules | `(tactic| rel_step) => `(tactic| with_reducible exact rel2_readCharS _ _)

theorem rel2_viChar_go {w : Bool} {E : Option Bytes → Option Bytes → Prop} (f : Nat) : Rel2 w E (viChar.go f) (viChar.go f) := by
  induction f with
  | zero => unfold viChar.go; rel_tac
  | succ f ih =>
    unfold viChar.go
    repeat' (first | exact ih | rel_step)

theorem rel2_viChar {w : Bool} {E : Option Bytes → Option Bytes → Prop} : Rel2 w E viChar viChar := by
  unfold viChar
  exact rel2_viChar_go _
macro_rules | `(tactic| rel_step) => `(tactic| with_reducible exact rel2_viChar)


/-! ### `led_line`, `vi_prompt` -/

theorem rel2_ledLine_go {w : Bool} {E : (Bytes × Int × Bytes) → (Bytes × Int × Bytes) → Prop} (post : Bytes) (aiMax : Nat)
    (im pe : Bool) (setKmap : Option Nat → M Unit) (getKmap : M Nat) (redraw : Bytes → Bytes → Bytes → M Unit)
    (hS : ∀ k, Rel2 w NoEsc (setKmap k) (setKmap k)) (hG : Rel2 w NoEsc getKmap getKmap)
    (hR : ∀ a b c, Rel2 w NoEsc (redraw a b c) (redraw a b c)) (f : Nat) (sb ai : Bytes) (c1 : Int) :
    Rel2 w E (ledLine.go post aiMax im pe setKmap getKmap redraw f sb ai c1)
      (ledLine.go post aiMax im pe setKmap getKmap redraw f sb ai c1) := by
  induction f generalizing sb ai c1 with
  | zero => unfold ledLine.go; rel_tac
  | succ f ih =>
    unfold ledLine.go
    repeat' (first | exact hS _ | exact hG | exact hR _ _ _ | exact ih _ _ _ | rel_step)

theorem sim_redraw {w : Bool} (a pref b c : Bytes) (s t : VS) (h : Sim w s t) :
    Sim w { s with ed := { s.ed with xleft := ledLeft s a pref b c s.ed.xleft } }
      { t with ed := { t.ed with xleft := ledLeft t a pref b c t.ed.xleft } } := by
  have he : EdRel w { s.ed with xleft := ledLeft s a pref b c s.ed.xleft }
      { t.ed with xleft := ledLeft t a pref b c t.ed.xleft } := by
    rw [h.ledLeft_eq, h.xleft]
    exact { h.ed with xleft := rfl }
  exact { h with ed := he }

theorem rel2_ledLine {w : Bool} {E : (Bytes × Int × Bytes) → (Bytes × Int × Bytes) → Prop} (pref post ai0 : Bytes)
    (aiMax : Nat) (im ex : Bool) : Rel2 w E (ledLine pref post ai0 aiMax im ex) (ledLine pref post ai0 aiMax im ex) := by
  unfold ledLine
  dsimp only
  apply rel2_ledLine_go
  · intro k
    rel_tac
  · rel_tac
  · intro a b c
    rel_tac
    exact rel2_modify (sim_redraw a pref b c)
macro_rules | `(tactic| rel_step) => `(tactic| with_reducible exact rel2_ledLine _ _ _ _ _ _)

theorem rel2_viPrompt {w : Bool} {E : Option Bytes → Option Bytes → Prop} (ex : Bool) : Rel2 w E (viPrompt ex) (viPrompt ex) := by
  unfold viPrompt
  rel_tac
macro_rules | `(tactic| rel_step) => `(tactic| with_reducible exact rel2_viPrompt _)

/-! ### searching and motions -/

theorem rel2_viSearch {w : Bool} {E : Option (Int × Int) → Option (Int × Int) → Prop} (cmd : Nat) (cnt r o : Int) :
    Rel2 w E (viSearch cmd cnt r o) (viSearch cmd cnt r o) := by
  unfold viSearch
  rel_tac
macro_rules | `(tactic| rel_step) => `(tactic| with_reducible exact rel2_viSearch _ _ _ _)

/-- the escape of the motions: while the mark `^` is exempt, a motion to a mark may end differently on the two sides,
but on both sides it is a motion (`mv ≠ 0`) -/
def EscLn (w : Bool) (a b : Int × Int) : Prop := w = true ∧ a.1 ≠ 0 ∧ b.1 ≠ 0
def EscMv (w : Bool) (a b : Int × Int × Int) : Prop := w = true ∧ a.1 ≠ 0 ∧ b.1 ≠ 0

theorem jump_agree {s t : VS} (h : Sim false s t) {c : Nat} {X Y : Option (Int × Int)}
    (hs : (s.ed.lb.bind fun lb => jump lb c) = X) (ht : (t.ed.lb.bind fun lb => jump lb c) = Y) : X = Y := by
  rw [← hs, ← ht]; exact h.jump_eq c

theorem ne_zero_of_beq {c k : Int} (h : (c == k) = true) (hk : k ≠ 0) : c ≠ 0 := by
  have : c = k := by simpa using h
  rw [this]; exact hk

/-- close a goal `Rel2 w Esc (pure a) (pure b)` left over from a read of a mark: without the exemption the two reads
agree; with it both sides report a motion -/
macro "esc_close" : tactic => `(tactic| (
  cases ‹Bool›
  · have e := jump_agree ‹Sim false _ _› ‹_› ‹_›
    cases e <;> first | exact rel2_pure _ | (exfalso; omega) | contradiction | (simp_all; done) | (simp_all; exact rel2_pure _)
  · refine fun _ _ _ => RR.esc _ _ _ _ ⟨rfl, ?_, ?_⟩ <;>
      first | (show (-1 : Int) ≠ 0; decide) | (refine ne_zero_of_beq ‹_› ?_; decide)))

theorem rel2_viMotionln {w : Bool} (row cmd : Int) : Rel2 w (EscLn w) (viMotionln row cmd) (viMotionln row cmd) := by
  unfold viMotionln
  rel_tac
  all_goals esc_close

theorem rel2_viMotion {w : Bool} (row off : Int) : Rel2 w (EscMv w) (viMotion row off) (viMotion row off) := by
  unfold viMotion
  refine rel2_get_bind ?_
  intro s0 t0 h0
  sim_reads h0
  refine rel2_bind_esc (rel2_viMotionln _ _) (fun a => ?_) (fun a b s t he => ?_)
  · rel_tac
    all_goals esc_close
  · obtain ⟨a1, a2⟩ := a
    obtain ⟨b1, b2⟩ := b
    obtain ⟨hw, ha, hb⟩ := he
    simp only at ha hb
    have ea : (a1 != 0) = true := bne_iff_ne.mpr ha
    have eb : (b1 != 0) = true := bne_iff_ne.mpr hb
    simp only [ea, eb, if_true]
    exact RR.esc _ _ _ _ ⟨hw, ha, hb⟩

theorem Rel2.mono {w : Bool} {α : Type} {E E' : α → α → Prop} (hE : ∀ a b, E a b → E' a b) {m m' : M α}
    (h : Rel2 w E m m') : Rel2 w E' m m' := fun s t hs => (h s t hs).mono hE

/-- without the exemption of the mark `^` the motions do not escape -/
theorem rel2_viMotionln0 {E : Int × Int → Int × Int → Prop} (row cmd : Int) :
    Rel2 false E (viMotionln row cmd) (viMotionln row cmd) :=
  (rel2_viMotionln row cmd).mono fun _ _ h => by cases h.1

theorem rel2_viMotion0 {E : Int × Int × Int → Int × Int × Int → Prop} (row off : Int) :
    Rel2 false E (viMotion row off) (viMotion row off) :=
  (rel2_viMotion row off).mono fun _ _ h => by cases h.1

macro_rules | `(tactic| rel_step) => `(tactic| with_reducible exact rel2_viMotionln0 _ _)
macro_rules | `(tactic| rel_step) => `(tactic| with_reducible exact rel2_viMotion0 _ _)

end Neatvi.Lemmas.C09c
