import NeatviVerif.Lemmas.C05fH
import NeatviVerif.Props.C05e
/-!
# C05f, part I: `lbuf_search`

`EngineOk`: the assumption on the regular-expression layer (`rstr_make`, `rstr_find`; another module's
subject): compiling a pattern never traps, matching never traps, and a match starts before the terminator
of the subject.  Under it `lbuf_search` does not trap when it is started on a character of an existing line,
and the match it reports starts on a character of its line.
-/
set_option linter.unusedSimpArgs false
set_option linter.unusedVariables false
namespace Neatvi.Lemmas.C05f
open Neatvi Neatvi.Uc Neatvi.Lbuf Neatvi.Ex Neatvi.Mot Neatvi.Vi Neatvi.Rset

/-- the assumption on `rstr.c` / `rset.c` / `regex.c` -/
def EngineOk : Prop :=
  ∀ (kw : Bytes) (flg : Nat), ∃ r, rstrMake kw flg = some r ∧
    ∀ re, r = some re → ∀ (s : Bytes) (f : Nat),
      ∃ res offs c, rstrFind re s 1 f search.Ex_ND search.Ex_NG = some (res, offs, c) ∧
        (0 ≤ res → 0 ≤ offs.getD 0 0 ∧ (offs.getD 0 0).toNat < s.length)

/-- a compiled pattern whose matcher never traps and reports matches that start inside the subject -/
def ReOk (re : RStr) : Prop :=
  ∀ (s : Bytes) (f : Nat), ∃ res offs c, rstrFind re s 1 f search.Ex_ND search.Ex_NG = some (res, offs, c) ∧
    (0 ≤ res → 0 ≤ offs.getD 0 0 ∧ (offs.getD 0 0).toNat < s.length)

theorem contRun_spec : ∀ (r : Bytes) (i : Nat), i < contRun r → contB (r.getD i 0) = true := by
  intro r
  induction r with
  | nil => intro i h; simp [contRun] at h
  | cons b r ih =>
    intro i h
    unfold contRun at h
    split at h
    · rename_i hb
      cases i with
      | zero => simpa using hb
      | succ i => simp only [List.getD_cons_succ]; exact ih i (by omega)
    · omega

theorem ucEnd_eq_contRun (c : Nat) (r : Bytes) : ucEnd (c :: r) ≤ contRun r := by
  simp only [ucEnd]
  split
  · omega
  · split
    · omega
    · have : contRun (c :: r) ≤ contRun r + 1 := by
        rw [contRun]; split <;> omega
      omega

/-- a string that is one character long and ends in a newline is that newline -/
theorem single_char_nl {s : Bytes} (h0 : Bytes.hd s ≠ 0) (hl : s.getLast? = some 10) (hn : s.length = ucNext s) :
    s.length = 1 := by
  cases s with
  | nil => simp at hl
  | cons c r =>
    rw [Lemmas.C08.ucNext_eq _ h0] at hn
    have he := ucEnd_eq_contRun c r
    simp only [List.length_cons] at hn ⊢
    by_cases hr : r.length = 0
    · omega
    · exfalso
      have hlast : r.getLast? = some 10 := by
        cases r with
        | nil => simp at hr
        | cons a r' => simpa [List.getLast?_cons_cons] using hl
      have hc := contRun_spec r (r.length - 1) (by omega)
      have : r.getD (r.length - 1) 0 = 10 := by
        rw [List.getLast?_eq_getElem?] at hlast
        rw [List.getD_eq_getElem?_getD, hlast]; rfl
      rw [this] at hc
      simp [contB] at hc

theorem ucOffF_lt : ∀ (f : Nat) (s : Bytes) (rem : Nat), s.length ≤ f → NoNul s → s.getLast? = some 10 →
    rem < s.length → ucOffF f s rem < ucSlen s := by
  intro f
  induction f with
  | zero => intro s rem hf _ _ hr; omega
  | succ f ih =>
    intro s rem hf hn hl hr
    have h0 : Bytes.hd s ≠ 0 := by
      cases s with
      | nil => simp at hr
      | cons c r => simpa using (noNul_cons.mp hn).1
    rw [Lemmas.C08.slen_chr s h0]
    unfold ucOffF
    split
    · rename_i hc
      have hp := Lemmas.C08.ucNext_pos s h0
      have hle := Lemmas.C08.ucNext_le s h0
      by_cases hlen : s.length = ucNext s
      · have := single_char_nl h0 hl hlen
        simp only [Bool.and_eq_true, decide_eq_true_eq] at hc
        omega
      · have hl' : (s.drop (ucNext s)).getLast? = some 10 := by
          rw [List.getLast?_drop, if_neg (by omega)]; exact hl
        by_cases hlt : rem - ucNext s < (s.drop (ucNext s)).length
        · have := ih (s.drop (ucNext s)) (rem - ucNext s) (by simp; omega) (hn.drop _) hl' hlt
          omega
        · simp at hlt
          have hz : rem - ucNext s = 0 := by omega
          have h2 := ih (s.drop (ucNext s)) 0 (by simp; omega) (hn.drop _) hl' (by simp; omega)
          rw [hz]; omega
    · omega

/-- on a line, the characters before a byte of the line are fewer than all its characters -/
theorem ucOff_lt {s : Bytes} (hs : LineOk s) {k : Nat} (hk : k < s.length) : ucOff s k < ucSlen s := by
  refine ucOffF_lt _ s k (Nat.le_refl _) hs.noNul ?_ hk
  obtain ⟨w, rfl, _, _⟩ := hs
  simp

/-- a result of `lbuf_search`: a character of an existing line -/
def HitOk (ls : Lines) (res : Option (Int × Int × Int)) : Prop :=
  ∀ r' o' len, res = some (r', o', len) → 0 ≤ r' ∧ r' < ls.length ∧ 0 ≤ o' ∧ o' < slenAt ls r'

/-- a hit on one line: a character of that line -/
def LineHit (s : Bytes) (b : Option (Int × Int)) : Prop := ∀ o l, b = some (o, l) → 0 ≤ o ∧ o < (ucSlen s : Int)

theorem search_go_ok (dir r0 o0 : Int) (re : RStr) (hre : ReOk re) (i : Int) (s : Bytes) (hs : LineOk s) :
    ∀ (f off : Nat) (best : Option (Int × Int)), LineHit s best →
      ∃ b, search.go dir r0 o0 re i s f off best = some b ∧ LineHit s b := by
  intro f
  induction f with
  | zero => intro off best hb; exact ⟨best, by unfold search.go; rfl, hb⟩
  | succ f ih =>
    intro off best hb
    unfold search.go
    obtain ⟨res, offs, c, hf, hres⟩ := hre (s.drop off) (if off != 0 then RE_NOTBOL else 0)
    rw [hf]
    simp only []
    by_cases h0 : res < 0
    · rw [if_pos h0]; exact ⟨best, rfl, hb⟩
    · rw [if_neg h0]
      obtain ⟨hso0, hso⟩ := hres (by omega)
      have hlt : off + (offs.getD 0 0).toNat < s.length := by
        simp only [List.length_drop] at hso; omega
      have hbest : LineHit s (some (((ucOff s (off + (offs.getD 0 0).toNat) : Nat) : Int),
          ((ucOff (s.drop (off + (offs.getD 0 0).toNat)) ((offs.getD 1 0).toNat - (offs.getD 0 0).toNat) : Nat) : Int))) := by
        intro o l he
        cases he
        have := ucOff_lt hs hlt
        omega
      splits
      all_goals first
        | exact ⟨best, rfl, hb⟩
        | exact ⟨_, rfl, hbest⟩
        | exact ih _ _ hbest

theorem search_rows_ok (ls : Lines) (dir : Int) (scan : Int → Bytes → Option (Option (Int × Int)))
    (hscan : ∀ i s, lineAt ls i = some s → ∃ b, scan i s = some b ∧ LineHit s b) :
    ∀ (f : Nat) (i : Int), ∃ res, search.rows ls dir ls.length scan f i = some res ∧ HitOk ls res := by
  intro f
  induction f with
  | zero => intro i; exact ⟨none, by unfold search.rows; rfl, by intro r' o' len h; cases h⟩
  | succ f ih =>
    intro i
    unfold search.rows
    have hnone : HitOk ls none := by intro r' o' len h; cases h
    split
    · exact ⟨none, rfl, hnone⟩
    · rename_i hi
      cases hl : lineAt ls i with
      | none => exact ⟨none, rfl, hnone⟩
      | some s =>
        obtain ⟨b, hb1, hb2⟩ := hscan i s hl
        simp only []
        rw [hb1]
        cases b with
        | none => exact ih _
        | some p =>
          obtain ⟨o, l⟩ := p
          refine ⟨_, rfl, ?_⟩
          intro r' o' len he
          cases he
          obtain ⟨a, b⟩ := hb2 o l rfl
          simp only [Bool.or_eq_true, decide_eq_true_eq, not_or] at hi
          refine ⟨by omega, by omega, a, ?_⟩
          unfold slenAt; rw [hl]; exact b

/-- **`lbuf_search`** started on a character of an existing line: no trap; a hit is a character of an existing line -/
theorem search_ok (hE : EngineOk) (ls : Lines) (kw : Bytes) (ic : Bool) (dir r o : Int)
    (hl : ∀ l ∈ ls, LineOk l) (ho : o < slenAt ls r) :
    ∃ res, search ls kw ic dir r o = some res ∧ HitOk ls res := by
  unfold search
  obtain ⟨m, hm, hre⟩ := hE kw (if ic then RE_ICASE else 0)
  rw [hm]
  cases m with
  | none => exact ⟨none, rfl, by intro r' o' len h; cases h⟩
  | some re =>
    simp only []
    refine search_rows_ok ls dir _ ?_ _ _
    intro i s hs
    have hsl : LineOk s := hl s (by
      unfold lineAt at hs
      split at hs
      · cases hs
      · exact List.mem_of_getElem? hs)
    have hgo := fun off => search_go_ok dir r o re (hre re rfl) i s hsl (s.length + 2) off none
      (by intro o l h; cases h)
    by_cases hc : (decide (dir > 0) && r == i) = true
    · rw [if_pos hc]
      simp only [Bool.and_eq_true, decide_eq_true_eq, beq_iff_eq] at hc
      obtain ⟨_, rfl⟩ := hc
      have hsl' : slenAt ls r = ucSlen s := by unfold slenAt; rw [hs]
      obtain ⟨b, hb⟩ := Lemmas.C08.chr_some_of_le (o + 1).toNat s (by omega)
      rw [hb]
      simp only []
      have := Lemmas.C08.chr_le_length _ _ _ hb
      rw [if_neg (by omega)]
      exact hgo b
    · rw [if_neg hc]
      rw [if_neg (by omega)]
      exact hgo 0

theorem search_rows_hit (ls : Lines) (dir : Int) (scan : Int → Bytes → Option (Option (Int × Int)))
    (hscan : ∀ i s b, lineAt ls i = some s → scan i s = some b → LineHit s b) :
    ∀ (f : Nat) (i : Int) res, search.rows ls dir ls.length scan f i = some res → HitOk ls res := by
  intro f
  induction f with
  | zero => intro i res h; unfold search.rows at h; cases h; intro r' o' len h; cases h
  | succ f ih =>
    intro i res h
    unfold search.rows at h
    have hnone : HitOk ls none := by intro r' o' len h; cases h
    split at h
    · cases h; exact hnone
    · rename_i hi
      cases hl : lineAt ls i with
      | none => rw [hl] at h; cases h; exact hnone
      | some s =>
        rw [hl] at h
        simp only [] at h
        cases hb : scan i s with
        | none => rw [hb] at h; cases h
        | some b =>
          rw [hb] at h
          have hb2 := hscan i s b hl hb
          cases b with
          | none => exact ih _ _ h
          | some p =>
            obtain ⟨o, l⟩ := p
            cases h
            intro r' o' len he
            cases he
            obtain ⟨a, b⟩ := hb2 o l rfl
            simp only [Bool.or_eq_true, decide_eq_true_eq, not_or] at hi
            refine ⟨by omega, by omega, a, ?_⟩
            unfold slenAt; rw [hl]; exact b

/-- whatever `lbuf_search` is started from: a hit is a character of an existing line -/
theorem search_hit (hE : EngineOk) (ls : Lines) (kw : Bytes) (ic : Bool) (dir r o : Int)
    (hl : ∀ l ∈ ls, LineOk l) (res : Option (Int × Int × Int)) (h : search ls kw ic dir r o = some res) : HitOk ls res := by
  unfold search at h
  obtain ⟨m, hm, hre⟩ := hE kw (if ic then RE_ICASE else 0)
  rw [hm] at h
  cases m with
  | none => cases h; intro r' o' len h; cases h
  | some re =>
    simp only [] at h
    refine search_rows_hit ls dir _ ?_ _ _ res h
    intro i s b hs hb
    have hsl : LineOk s := hl s (by
      unfold lineAt at hs
      split at hs
      · cases hs
      · exact List.mem_of_getElem? hs)
    generalize (if (decide (dir > 0) && r == i) = true then
          match ucChr s (o + 1).toNat with
          | some b => b
          | none => s.length + 1
        else 0) = off0 at hb
    by_cases hc : off0 > s.length
    · rw [if_pos hc] at hb; cases hb
    · rw [if_neg hc] at hb
      obtain ⟨b', h1, h2⟩ := search_go_ok dir r o re (hre re rfl) i s hsl (s.length + 2) off0 none
        (by intro o l h; cases h)
      rw [h1] at hb
      cases hb
      exact h2


/-! ## the repaired statements

`EngineOk` above is **false** (`Props/C05h.lean`: `engineOk_is_false`); it and `ReOk`, `HitOk`, `search_ok`, `search_hit`
are kept only because `Props/C05h.lean` states its refutations about them.  Nothing below, and nothing in the rest of
the C05f chain, uses them any more.  What replaces them:

* **no trap** — proved (`engine_c_strings`, from `Lemmas/C05e`): for a pattern without NUL, `rstr_make` does not trap and
  its matcher never traps; hence `lbuf_search` started on an existing character never traps (`search_total_c`);
* **position, weak** — proved without any hypothesis (`search_hit_in`): a hit lies on an existing line at a column
  `≤` the number of its characters (`HitIn`; the column *can* be the number of characters: C05h
  `search_hit_beyond_last_char`);
* **position, strict** — the residual hypothesis `PatIn kw ic ls` (decidable, per pattern and line: `hitInside`): every
  match the scan of a line can see starts before the end of the line.  Then a hit is a character of its line
  (`search_hit_strict`).  It is needed only to *restart* a counted search (`2n`, `3?x`) from the previous hit. -/

/-- a compiled pattern whose matcher never traps -/
def ReTot (re : RStr) : Prop :=
  ∀ (s : Bytes) (f : Nat), ∃ x, rstrFind re s 1 f search.Ex_ND search.Ex_NG = some x

/-- **the engine on C strings** (no hypothesis left): compiling a pattern without NUL does not trap, and the matcher
    never traps, on any subject -/
theorem engine_c_strings (kw : Bytes) (flg : Nat) (h0 : NoNul kw) :
    ∃ r, rstrMake kw flg = some r ∧ ∀ re, r = some re → ReTot re := by
  cases hm : rstrMake kw flg with
  | none => exact absurd hm (Lemmas.C05e.reSafe.make kw flg h0)
  | some r =>
    refine ⟨r, rfl, ?_⟩
    intro re hre s f
    subst hre
    exact Lemmas.C05e.rstrFind_total hm s 1 f _ _

theorem search_go_total_c (dir r0 o0 : Int) (re : RStr) (i : Int) (s : Bytes) (hre : ReTot re) :
    ∀ (f off : Nat) (best : Option (Int × Int)), ∃ b, search.go dir r0 o0 re i s f off best = some b := by
  intro f
  induction f with
  | zero => intro off best; exact ⟨best, by unfold search.go; rfl⟩
  | succ f ih =>
    intro off best
    unfold search.go
    obtain ⟨⟨res, offs, c⟩, hf⟩ := hre (s.drop off) (if off != 0 then RE_NOTBOL else 0)
    rw [hf]
    simp only []
    splits
    all_goals first
      | exact ⟨_, rfl⟩
      | exact ih _ _

theorem search_rows_total_c (ls : Lines) (dir : Int) (scan : Int → Bytes → Option (Option (Int × Int)))
    (hscan : ∀ i s, lineAt ls i = some s → ∃ b, scan i s = some b) :
    ∀ (f : Nat) (i : Int), ∃ res, search.rows ls dir ls.length scan f i = some res := by
  intro f
  induction f with
  | zero => intro i; exact ⟨none, by unfold search.rows; rfl⟩
  | succ f ih =>
    intro i
    unfold search.rows
    split
    · exact ⟨none, rfl⟩
    · cases hl : lineAt ls i with
      | none => exact ⟨none, rfl⟩
      | some s =>
        obtain ⟨b, hb1⟩ := hscan i s hl
        simp only []
        rw [hb1]
        cases b with
        | none => exact ih _
        | some p => obtain ⟨o, l⟩ := p; exact ⟨_, rfl⟩

/-- **`lbuf_search` with a pattern without NUL, started on an existing character, never traps** — whatever the bytes
    of the lines are -/
theorem search_total_c (ls : Lines) (kw : Bytes) (ic : Bool) (dir r o : Int) (h0 : NoNul kw) (ho : o < slenAt ls r) :
    ∃ res, search ls kw ic dir r o = some res := by
  unfold search
  obtain ⟨m, hm, hre⟩ := engine_c_strings kw (if ic then RE_ICASE else 0) h0
  rw [hm]
  cases m with
  | none => exact ⟨none, rfl⟩
  | some re =>
    simp only []
    refine search_rows_total_c ls dir _ ?_ _ _
    intro i s hs
    have hgo := fun off => search_go_total_c dir r o re i s (hre re rfl) (s.length + 2) off none
    by_cases hc : (decide (dir > 0) && r == i) = true
    · rw [if_pos hc]
      simp only [Bool.and_eq_true, decide_eq_true_eq, beq_iff_eq] at hc
      obtain ⟨_, rfl⟩ := hc
      have hsl' : slenAt ls r = ucSlen s := by unfold slenAt; rw [hs]
      obtain ⟨b, hb⟩ := Lemmas.C08.chr_some_of_le (o + 1).toNat s (by omega)
      rw [hb]
      simp only []
      have := Lemmas.C08.chr_le_length _ _ _ hb
      rw [if_neg (by omega)]
      exact hgo b
    · rw [if_neg hc]
      rw [if_neg (by omega)]
      exact hgo 0

/-! ### where a hit can be -/

/-- a result of `lbuf_search`, weak form: an existing line and a column that is at most the number of its characters -/
def HitIn (ls : Lines) (res : Option (Int × Int × Int)) : Prop :=
  ∀ r' o' len, res = some (r', o', len) → 0 ≤ r' ∧ r' < ls.length ∧ 0 ≤ o' ∧ o' ≤ slenAt ls r'

/-- a hit on one line with column at most `B` -/
def LineHitB (B : Nat) (b : Option (Int × Int)) : Prop := ∀ o l, b = some (o, l) → 0 ≤ o ∧ o ≤ (B : Int)

theorem search_go_hitB (dir r0 o0 : Int) (re : RStr) (i : Int) (s : Bytes) (B : Nat)
    (hin : ∀ (off : Nat) res offs c, off ≤ s.length →
      rstrFind re (s.drop off) 1 (if off != 0 then RE_NOTBOL else 0) search.Ex_ND search.Ex_NG = some (res, offs, c) →
      ¬ res < 0 → ucOff s (off + (offs.getD 0 0).toNat) ≤ B) :
    ∀ (f off : Nat) (best : Option (Int × Int)), off ≤ s.length → LineHitB B best →
      ∀ b, search.go dir r0 o0 re i s f off best = some b → LineHitB B b := by
  intro f
  induction f with
  | zero => intro off best _ hb b h; unfold search.go at h; cases h; exact hb
  | succ f ih =>
    intro off best hoff hb b h
    unfold search.go at h
    cases hf : rstrFind re (s.drop off) 1 (if off != 0 then RE_NOTBOL else 0) search.Ex_ND search.Ex_NG with
    | none => rw [hf] at h; cases h
    | some x =>
      obtain ⟨res, offs, c⟩ := x
      rw [hf] at h
      simp only [] at h
      by_cases h0 : res < 0
      · rw [if_pos h0] at h; cases h; exact hb
      · rw [if_neg h0] at h
        have hbest : LineHitB B (some (((ucOff s (off + (offs.getD 0 0).toNat) : Nat) : Int),
            ((ucOff (s.drop (off + (offs.getD 0 0).toNat)) ((offs.getD 1 0).toNat - (offs.getD 0 0).toNat) : Nat) : Int))) := by
          intro o l he
          cases he
          have := hin off res offs c hoff hf h0
          omega
        repeat' split at h
        all_goals first
          | (cases h; exact hb)
          | (cases h; exact hbest)
          | (rename_i hcont
             simp only [Bool.or_eq_true, decide_eq_true_eq, not_or, ge_iff_le, Nat.not_le] at hcont
             exact ih _ _ (by omega) hbest b h)

theorem search_rows_hitB (ls : Lines) (dir : Int) (scan : Int → Bytes → Option (Option (Int × Int))) (Bf : Bytes → Nat)
    (hscan : ∀ i s b, lineAt ls i = some s → scan i s = some b → LineHitB (Bf s) b) :
    ∀ (f : Nat) (i : Int) res, search.rows ls dir ls.length scan f i = some res →
      ∀ r' o' len, res = some (r', o', len) → 0 ≤ r' ∧ r' < ls.length ∧ 0 ≤ o' ∧
        ∃ s, lineAt ls r' = some s ∧ o' ≤ (Bf s : Int) := by
  intro f
  induction f with
  | zero => intro i res h; unfold search.rows at h; cases h; intro r' o' len h; cases h
  | succ f ih =>
    intro i res h
    unfold search.rows at h
    split at h
    · cases h; intro r' o' len h; cases h
    · rename_i hi
      cases hl : lineAt ls i with
      | none => rw [hl] at h; cases h; intro r' o' len h; cases h
      | some s =>
        rw [hl] at h
        simp only [] at h
        cases hb : scan i s with
        | none => rw [hb] at h; cases h
        | some b =>
          rw [hb] at h
          have hb2 := hscan i s b hl hb
          cases b with
          | none => exact ih _ _ h
          | some p =>
            obtain ⟨o, l⟩ := p
            cases h
            intro r' o' len he
            cases he
            obtain ⟨a, b⟩ := hb2 o l rfl
            simp only [Bool.or_eq_true, decide_eq_true_eq, not_or] at hi
            exact ⟨by omega, by omega, a, s, hl, b⟩

/-- the common part: what `lbuf_search` reports, for a bound `Bf` on the columns of the matches of each line -/
theorem search_hitB (ls : Lines) (kw : Bytes) (ic : Bool) (dir r o : Int) (Bf : Bytes → Nat)
    (hin : ∀ re, rstrMake kw (if ic then RE_ICASE else 0) = some (some re) → ∀ s ∈ ls, ∀ (off : Nat) res offs c,
      off ≤ s.length →
      rstrFind re (s.drop off) 1 (if off != 0 then RE_NOTBOL else 0) search.Ex_ND search.Ex_NG = some (res, offs, c) →
      ¬ res < 0 → ucOff s (off + (offs.getD 0 0).toNat) ≤ Bf s)
    (res : Option (Int × Int × Int)) (h : search ls kw ic dir r o = some res) :
    ∀ r' o' len, res = some (r', o', len) → 0 ≤ r' ∧ r' < ls.length ∧ 0 ≤ o' ∧
      ∃ s, lineAt ls r' = some s ∧ o' ≤ (Bf s : Int) := by
  unfold search at h
  cases hm : rstrMake kw (if ic then RE_ICASE else 0) with
  | none => rw [hm] at h; cases h
  | some m =>
    rw [hm] at h
    cases m with
    | none => cases h; intro r' o' len h; cases h
    | some re =>
      simp only [] at h
      refine search_rows_hitB ls dir _ Bf ?_ _ _ res h
      intro i s b hs hb
      have hmem : s ∈ ls := by
        unfold lineAt at hs
        split at hs
        · cases hs
        · exact List.mem_of_getElem? hs
      generalize (if (decide (dir > 0) && r == i) = true then
            match ucChr s (o + 1).toNat with
            | some b => b
            | none => s.length + 1
          else 0) = off0 at hb
      by_cases hc : off0 > s.length
      · rw [if_pos hc] at hb; cases hb
      · rw [if_neg hc] at hb
        exact search_go_hitB dir r o re i s (Bf s) (hin re hm s hmem) (s.length + 2) off0 none (by omega)
          (by intro o l h; cases h) b hb

/-- **a hit of `lbuf_search` lies on an existing line, at a column that is at most the number of its characters** —
    no hypothesis on the pattern or on the lines -/
theorem search_hit_in (ls : Lines) (kw : Bytes) (ic : Bool) (dir r o : Int)
    (res : Option (Int × Int × Int)) (h : search ls kw ic dir r o = some res) : HitIn ls res := by
  intro r' o' len he
  obtain ⟨a1, a2, a3, s, hs, a4⟩ := search_hitB ls kw ic dir r o ucSlen
    (fun re _ s _ off res offs c _ _ _ => ucOff_le_slen s _) res h r' o' len he
  refine ⟨a1, a2, a3, ?_⟩
  unfold slenAt; rw [hs]; exact a4

/-! ### the residual hypothesis on the position of a match: decidable, per pattern and line -/

/-- on the line `l`, every match of the pattern `kw` that the scan of `lbuf_search` can see (the rest of the line from
    any byte offset, `RE_NOTBOL` set away from the start) starts before the end of the line -/
def hitInside (kw : Bytes) (ic : Bool) (l : Bytes) : Bool :=
  match rstrMake kw (if ic then RE_ICASE else 0) with
  | some (some re) => (List.range (l.length + 1)).all fun off =>
      match rstrFind re (l.drop off) 1 (if off != 0 then RE_NOTBOL else 0) search.Ex_ND search.Ex_NG with
      | some (res, offs, _) => decide (res < 0) || decide (off + (offs.getD 0 0).toNat < l.length)
      | none => true
  | _ => true

/-- the pattern `kw` matches inside the lines `ls` (decidable) -/
def PatIn (kw : Bytes) (ic : Bool) (ls : Lines) : Prop := ∀ l ∈ ls, hitInside kw ic l = true

instance (kw : Bytes) (ic : Bool) (ls : Lines) : Decidable (PatIn kw ic ls) := by unfold PatIn; exact inferInstance

theorem hitInside_spec {kw : Bytes} {ic : Bool} {l : Bytes} (h : hitInside kw ic l = true) {re : RStr}
    (hm : rstrMake kw (if ic then RE_ICASE else 0) = some (some re)) (off : Nat) (res : Int) (offs : List Int) (c : Nat)
    (hoff : off ≤ l.length)
    (hf : rstrFind re (l.drop off) 1 (if off != 0 then RE_NOTBOL else 0) search.Ex_ND search.Ex_NG = some (res, offs, c))
    (h0 : ¬ res < 0) : off + (offs.getD 0 0).toNat < l.length := by
  unfold hitInside at h
  rw [hm] at h
  simp only [List.all_eq_true, List.mem_range] at h
  have := h off (by omega)
  rw [hf] at this
  simp only [Bool.or_eq_true, decide_eq_true_eq] at this
  rcases this with h1 | h1
  · exact absurd h1 h0
  · exact h1

/-- **with the residual hypothesis a hit is a character of its line** (`HitOk`) -/
theorem search_hit_strict (ls : Lines) (kw : Bytes) (ic : Bool) (dir r o : Int) (hl : ∀ l ∈ ls, LineOk l)
    (hp : PatIn kw ic ls) (res : Option (Int × Int × Int)) (h : search ls kw ic dir r o = some res) : HitOk ls res := by
  intro r' o' len he
  obtain ⟨a1, a2, a3, s, hs, a4⟩ := search_hitB ls kw ic dir r o (fun s => ucSlen s - 1)
    (fun re hm s hs off res offs c hoff hf h0 => by
      have := ucOff_lt (hl s hs) (hitInside_spec (hp s hs) hm off res offs c hoff hf h0)
      omega) res h r' o' len he
  refine ⟨a1, a2, a3, ?_⟩
  have hmem : s ∈ ls := by
    unfold lineAt at hs
    split at hs
    · cases hs
    · exact List.mem_of_getElem? hs
  have hpos : 0 < ucSlen s := by
    have := ucOff_lt (hl s hmem) (k := 0) (by obtain ⟨w, rfl, _, _⟩ := hl s hmem; simp)
    omega
  unfold slenAt; rw [hs]
  show o' < ((ucSlen s : Nat) : Int)
  omega

end Neatvi.Lemmas.C05f
