import NeatviVerif.Model.Render
import NeatviVerif.Lemmas.UcBits
import NeatviVerif.Lemmas.C17bWidth
/-!
# C19c lemmas, part 2: lines of printable ASCII (and the newline)

For such a line every character is one byte, one cell wide, has no placeholder, is not shaped,
and the left-to-right table is the identity.
-/
namespace Neatvi.Lemmas.C19c
open Neatvi Neatvi.Uc Neatvi.Ren Neatvi.Render

/-- the bytes handled here: printable ASCII and the newline -/
def lineByte (b : Nat) : Bool := b == 10 || (32 ≤ b && b ≤ 126)

/-- every byte of the line is printable ASCII or the newline -/
def LineBytes (s : Bytes) : Prop := ∀ b ∈ s, lineByte b = true

private theorem asciiTable : (List.range 128).all (fun b => !lineByte b ||
    ((renPlaceholder [b]).isNone && (ucWid [b] == some 1) && (ucLen b == 1) && !(ucR2L b) &&
     (ucIsPrint b == (b != 10)) && (b != 9))) = true := by decide +kernel

theorem lineByte_lt {b : Nat} (h : lineByte b = true) : 0 < b ∧ b < 128 := by
  unfold lineByte at h
  simp only [Bool.or_eq_true, Bool.and_eq_true, beq_iff_eq, decide_eq_true_eq] at h
  omega

theorem lineByte_facts {b : Nat} (h : lineByte b = true) :
    renPlaceholder [b] = none ∧ ucWid [b] = some 1 ∧ ucLen b = 1 ∧ ucR2L b = false ∧
    ucIsPrint b = (b != 10) ∧ b ≠ 9 := by
  have hb := lineByte_lt h
  have := List.all_eq_true.mp asciiTable b (by simpa using hb.2)
  rw [h] at this
  simp only [Bool.not_true, Bool.false_or, Bool.and_eq_true, beq_iff_eq, Bool.not_eq_true', bne_iff_ne, ne_eq,
    Option.isNone_iff_eq_none] at this
  obtain ⟨⟨⟨⟨⟨h1, h2⟩, h3⟩, h4⟩, h5⟩, h6⟩ := this
  exact ⟨h1, h2, h3, h4, h5, h6⟩

theorem lineBytes_append {a b : Bytes} (ha : LineBytes a) (hb : LineBytes b) : LineBytes (a ++ b) := by
  intro x hx
  rcases List.mem_append.mp hx with h | h
  · exact ha x h
  · exact hb x h

theorem lineBytes_of_printable (w : Bytes) (hw : ∀ b ∈ w, 32 ≤ b ∧ b ≤ 126) : LineBytes (w ++ [10]) := by
  apply lineBytes_append
  · intro b hb
    have := hw b hb
    unfold lineByte
    simp only [Bool.or_eq_true, Bool.and_eq_true, beq_iff_eq, decide_eq_true_eq]; omega
  · intro b hb
    simp only [List.mem_singleton] at hb
    subst hb; rfl

theorem lineBytes_no_zero {s : Bytes} (h : LineBytes s) : 0 ∉ s := by
  intro hm
  have := lineByte_lt (h 0 hm)
  omega

/-! ### chopping -/

theorem ucCode_lt {t : Bytes} (h : Bytes.hd t < 128) : ucCode t = some (Bytes.hd t) := by
  unfold ucCode
  have := andc0n (Bytes.hd t) (by omega)
  simp only [this]
  simp; omega

theorem ucNext_low (b : Nat) (r : Bytes) (h0 : 0 < b) (h : b < 128) : ucNext (b :: r) = 1 := by
  unfold ucNext ucEnd
  have h80 := and80 b (by omega)
  simp only [h80, decide_eq_true h, if_true, List.drop_zero, Bytes.hd_cons]
  have : (b != 0) = true := by simp; omega
  rw [if_pos this]

theorem chopF_low (f : Nat) (s : Bytes) (hs : ∀ b ∈ s, 0 < b ∧ b < 128) (hf : s.length ≤ f) (base : Nat) :
    ucChopF f s base = (List.range (s.length + 1)).map (base + ·) := by
  induction f generalizing s base with
  | zero =>
    have : s = [] := List.eq_nil_of_length_eq_zero (by omega)
    subst this; rfl
  | succ f ih =>
    cases s with
    | nil => rfl
    | cons b r =>
      have hb := hs b (by simp)
      unfold ucChopF
      have : ¬ (Bytes.hd (b :: r) == 0) = true := by simp; omega
      rw [if_neg this, ucNext_low b r hb.1 hb.2]
      simp only [List.drop_succ_cons, List.drop_zero, List.length_cons]
      rw [ih r (fun x hx => hs x (by simp [hx])) (by simpa using hf)]
      rw [List.range_succ_eq_map (n := r.length + 1)]
      simp only [List.map_cons, List.map_map, Nat.add_zero]
      congr 1
      apply List.map_congr_left
      intro k _
      simp only [Function.comp]; omega

/-- the characters of an ASCII line are its suffixes -/
theorem chrs_low (s : Bytes) (hs : ∀ b ∈ s, 0 < b ∧ b < 128) :
    chrs s = (List.range s.length).map (fun k => s.drop k) := by
  unfold chrs ucChop
  rw [chopF_low _ s hs (Nat.le_refl _) 0, List.range_succ, List.map_append]
  simp only [List.map_cons, List.map_nil, List.dropLast_concat, List.map_map]
  apply List.map_congr_left
  intro k _
  simp [Function.comp]

theorem chrs_low_length (s : Bytes) (hs : ∀ b ∈ s, 0 < b ∧ b < 128) : (chrs s).length = s.length := by
  rw [chrs_low s hs]; simp

theorem chrs_low_getD (s : Bytes) (hs : ∀ b ∈ s, 0 < b ∧ b < 128) (k : Nat) (hk : k < s.length) :
    (chrs s).getD k [] = s.drop k := by
  rw [chrs_low s hs, List.getD_eq_getElem?_getD, List.getElem?_map, List.getElem?_range hk]
  rfl

/-- an ASCII line has as many characters as bytes -/
theorem ucSlen_low (s : Bytes) (hs : ∀ b ∈ s, 0 < b ∧ b < 128) : ucSlen s = s.length := by
  have hz : 0 ∉ s := fun hm => by have := hs 0 hm; omega
  rw [← Lemmas.C17b.chrs_length s hz, chrs_low_length s hs]

theorem hd_drop_getD (s : Bytes) (k : Nat) : Bytes.hd (s.drop k) = s.getD k 0 := by
  unfold Bytes.hd
  rw [List.getD_eq_getElem?_getD, List.headD_eq_head?_getD, List.head?_drop]

theorem getD_mem {s : Bytes} {k : Nat} (hk : k < s.length) : s.getD k 0 ∈ s := by
  rw [List.getD_eq_getElem?_getD, List.getElem?_eq_getElem hk]; exact List.getElem_mem _

/-! ### cells -/

/-- `ren_placeholder` looks at the first byte and the code point only -/
theorem renPlaceholder_low (s : Bytes) (h : Bytes.hd s < 128) : renPlaceholder s = renPlaceholder [Bytes.hd s] := by
  have h1 := ucCode_lt h
  have h2 : ucCode [Bytes.hd s] = some (Bytes.hd s) := ucCode_lt (t := [Bytes.hd s]) h
  unfold renPlaceholder ucIsBell
  simp only [h1, h2, Bytes.hd_cons]
  rfl

theorem renPlaceholder_line (s : Bytes) (h : lineByte (Bytes.hd s) = true) : renPlaceholder s = none := by
  rw [renPlaceholder_low s (lineByte_lt h).2]
  exact (lineByte_facts h).1

theorem renCwid_line (s : Bytes) (h : lineByte (Bytes.hd s) = true) (col : Nat) : renCwid s col = 1 := by
  have hf := lineByte_facts h
  have hlt := (lineByte_lt h).2
  unfold renCwid
  have h9 : ¬ (Bytes.hd s == 9) = true := by simpa using hf.2.2.2.2.2
  rw [if_neg h9, renPlaceholder_line s h]
  simp only []
  have h2 := hf.2.1
  unfold ucWid at h2 ⊢
  rw [ucCode_lt (t := [Bytes.hd s]) hlt] at h2
  rw [ucCode_lt hlt]
  simp only [Option.map_some, Bytes.hd_cons] at h2 ⊢
  rw [Option.some.inj h2]; rfl

theorem layout_line (cs : List Bytes) (h : ∀ c ∈ cs, lineByte (Bytes.hd c) = true) (col : Nat) :
    layout cs col = (List.range cs.length).map (col + ·) ∧ layoutEnd cs col = col + cs.length := by
  induction cs generalizing col with
  | nil => exact ⟨rfl, rfl⟩
  | cons c r ih =>
    have hc := renCwid_line c (h c (by simp)) col
    obtain ⟨a, b⟩ := ih (fun d hd => h d (by simp [hd])) (col + 1)
    constructor
    · simp only [layout, hc, a, List.length_cons]
      rw [List.range_succ_eq_map]
      simp only [List.map_cons, List.map_map, Nat.add_zero]
      congr 1
      apply List.map_congr_left
      intro k _
      simp only [Function.comp]; omega
    · simp only [layoutEnd, hc, b, List.length_cons]; omega

/-- the left-to-right table of a line of printable ASCII is the identity -/
theorem fast_line (s : Bytes) (hs : LineBytes s) : renPositionFast s = List.range (s.length + 1) := by
  have hlow : ∀ b ∈ s, 0 < b ∧ b < 128 := fun b hb => lineByte_lt (hs b hb)
  have hc : ∀ c ∈ chrs s, lineByte (Bytes.hd c) = true := by
    intro c hc
    rw [chrs_low s hlow] at hc
    simp only [List.mem_map, List.mem_range] at hc
    obtain ⟨k, hk, rfl⟩ := hc
    rw [hd_drop_getD]
    exact hs _ (getD_mem hk)
  obtain ⟨a, b⟩ := layout_line (chrs s) hc 0
  unfold renPositionFast
  simp only []
  rw [a, b, chrs_low_length s hlow, List.range_succ (n := s.length)]
  simp

/-! ### translation -/

theorem translate_line (shape : Bool) (s : Bytes) (hs : LineBytes s) (k : Nat) (hk : k < s.length) :
    translate shape (chrs s) ((chrs s).map (fun c => (ucCode c).getD 0)) k = none := by
  have hlow : ∀ b ∈ s, 0 < b ∧ b < 128 := fun b hb => lineByte_lt (hs b hb)
  have hb : lineByte (s.getD k 0) = true := hs _ (getD_mem hk)
  unfold translate
  rw [chrs_low_getD s hlow k hk, renPlaceholder_line _ (by rw [hd_drop_getD]; exact hb)]
  simp only []
  cases shape with
  | false => rfl
  | true =>
    simp only [if_true]
    have hcode : ((chrs s).map (fun c => (ucCode c).getD 0)).getD k 0 = s.getD k 0 := by
      rw [List.getD_eq_getElem?_getD, List.getElem?_map,
        List.getElem?_eq_getElem (by rw [chrs_low_length s hlow]; exact hk)]
      simp only [Option.map_some, Option.getD_some]
      have : (chrs s)[k]'(by rw [chrs_low_length s hlow]; exact hk) = s.drop k := by
        have := chrs_low_getD s hlow k hk
        rw [List.getD_eq_getElem?_getD, List.getElem?_eq_getElem (by rw [chrs_low_length s hlow]; exact hk)] at this
        exact this
      rw [this, ucCode_lt (by rw [hd_drop_getD]; exact (lineByte_lt hb).2), hd_drop_getD]
      rfl
    unfold ucShapeAt
    simp only [hcode, (lineByte_facts hb).2.2.2.1]
    simp

end Neatvi.Lemmas.C19c
