import NeatviVerif.Props.C02
import NeatviVerif.Props.C20
/-!
# C02c lemmas, part 1: `ec_edit` cut into stages

`ecEdit` is one long function; here its stages get names (`plusSplit`, `C20.editGuard`, `C20.ewPre`,
`editGuard2`, `editOpen`, `editFinish`, `editPlus`) and `ecEdit_stages` says that `ecEdit` is their
composition.  Nothing here is a new model: every definition is a piece of the text of `ecEdit`.
-/
namespace Neatvi.Lemmas.C02c
open Neatvi Neatvi.Lbuf Neatvi.LbufIo Neatvi.Ex Neatvi.Lemmas.C02Ex

/-- `ex_plus`: (the `+cmd` word or `[]`, the rest of the argument) -/
def plusSplit (arg : Bytes) : Bytes × Bytes :=
  let arg := arg.dropWhile (· == 32)
  if arg.headD 0 == 43 then
    let (p, r) := copyUntilPlus (arg.length + 1) arg []
    (p, r.dropWhile (fun c => c == 32 || c == 9))
  else ([], arg)

/-- the second guard of `ec_edit`: the buffer `bufs_open` is going to drop -/
def editGuard2 (ed : Ed) (path : Bytes) : R Bool :=
  if (!path.isEmpty || ed.cur.isNone) && ed.xwa == 0 then
    bufsModified ed ed.findRoom (some (strOf "last buffer modified"))
  else some (false, ed)

/-- `bufs_switch(bufs_open(path))`, unless `:e` without a path re-reads the current buffer -/
def editOpen (ed : Ed) (path : Bytes) : Ed :=
  if !path.isEmpty || ed.cur.isNone then
    let (idx, ed) := ed.bufsOpen path; ed.bufsSwitch idx
  else ed

/-- read the file of the current buffer `b` if it can be opened -/
def editRead (ed : Ed) (b : Buf) : Option Ed :=
  match ed.findFile b.path with
  | some fl =>
    if b.path.isEmpty then some ed else
    (match rd b.lb [fl.data] false 0 b.lb.lines.length with
    | none => none
    | some (_, lb) =>
      let ed := ed.setLb lb
      some (ed.show ([34] ++ b.path ++ strOf "\"  [=" ++ natStr lb.lines.length ++ strOf "]  [r]")))
  | none => some ed

/-- the rest of `ec_edit` up to the `+cmd`: read, `lbuf_saved`, clamp the view -/
def editFinish (ed : Ed) (path : Bytes) : Option Ed :=
  match ed.cur with
  | none => none
  | some b =>
    match editRead ed b with
    | none => none
    | some ed =>
      match ed.cur with
      | none => none
      | some b =>
        let lb := savedCore b.lb (!path.isEmpty)
        let ed := ed.setCur { b with lb := (modified lb).2, mtime := ed.mtimeOf b.path }
        let len := ed.len
        some { ed with xrow := clampRow ed.xrow len, xoff := 0, xtop := clampRow ed.xtop len }

/-- the `+cmd` of `:e +cmd path` -/
def editPlus (f : Nat) (pls : Bytes) (ed : Ed) : R Int :=
  if pls.headD 0 == 43 then exCommand f ed (pls.drop 1) else some (0, ed)

/-- `editFinish` with the continuation inside, as `ecEdit` is written -/
def editFinishK (k : Ed → R Int) (ed : Ed) (path : Bytes) : R Int :=
  match ed.cur with
  | none => none
  | some b =>
    match editRead ed b with
    | none => none
    | some ed =>
      match ed.cur with
      | none => none
      | some b =>
        let lb := savedCore b.lb (!path.isEmpty)
        let ed := ed.setCur { b with lb := (modified lb).2, mtime := ed.mtimeOf b.path }
        let len := ed.len
        k { ed with xrow := clampRow ed.xrow len, xoff := 0, xtop := clampRow ed.xtop len }

theorem editFinishK_eq (k : Ed → R Int) (ed : Ed) (path : Bytes) :
    editFinishK k ed path = (match editFinish ed path with | none => none | some ed => k ed) := by
  unfold editFinishK editFinish
  cases ed.cur with
  | none => rfl
  | some b =>
    simp only []
    cases editRead ed b with
    | none => rfl
    | some ed1 =>
      simp only []
      cases ed1.cur with
      | none => rfl
      | some b1 => rfl

theorem ecEdit_stagesK (f : Nat) (ed : Ed) (cmd arg : Bytes) :
    ecEdit (f + 1) ed cmd arg =
      (match Props.C20.editGuard ed cmd with
      | none => none
      | some (true, ed) => some (1, ed)
      | some (false, ed) =>
        match pathExpand ed (plusSplit arg).2 false with
        | none => none
        | some (none, ed) => some (1, ed)
        | some (some path, ed) =>
          if !path.isEmpty && (Props.C20.ewPre ed cmd path).bufsFind path ≥ 0 then
            editPlus f (plusSplit arg).1
              ((Props.C20.ewPre ed cmd path).bufsSwitch ((Props.C20.ewPre ed cmd path).bufsFind path).toNat)
          else
            match editGuard2 (Props.C20.ewPre ed cmd path) path with
            | none => none
            | some (true, ed) => some (1, ed)
            | some (false, ed) => editFinishK (editPlus f (plusSplit arg).1) (editOpen ed path) path) := by
  rw [ecEdit.eq_2]
  rfl

/-- `ec_edit` is the composition of its stages -/
theorem ecEdit_stages (f : Nat) (ed : Ed) (cmd arg : Bytes) :
    ecEdit (f + 1) ed cmd arg =
      (match Props.C20.editGuard ed cmd with
      | none => none
      | some (true, ed) => some (1, ed)
      | some (false, ed) =>
        match pathExpand ed (plusSplit arg).2 false with
        | none => none
        | some (none, ed) => some (1, ed)
        | some (some path, ed) =>
          if !path.isEmpty && (Props.C20.ewPre ed cmd path).bufsFind path ≥ 0 then
            editPlus f (plusSplit arg).1
              ((Props.C20.ewPre ed cmd path).bufsSwitch ((Props.C20.ewPre ed cmd path).bufsFind path).toNat)
          else
            match editGuard2 (Props.C20.ewPre ed cmd path) path with
            | none => none
            | some (true, ed) => some (1, ed)
            | some (false, ed) =>
              match editFinish (editOpen ed path) path with
              | none => none
              | some ed => editPlus f (plusSplit arg).1 ed) := by
  rw [ecEdit_stagesK]
  simp only [editFinishK_eq]

end Neatvi.Lemmas.C02c
