import NeatviVerif.Lemmas.C19gEx
/-!
# C19g helper lemmas, part 4: whole runs of `vi()`

* `col_invariant_reachable`: `C19f.col_invariant_reachable_full`, now a theorem (`exKeepsLeft`);
* the state `vi()` starts in (`initState`: `ex_init`, then `viInit`): `xleft = 0` and every saved
  `left` is 0 (`LP (· = 0)`, an invariant of the ex layer like `LOk`), `Good cols`, the sticky column is
  the column of the first character of the cursor line;
* `viStep_window`: one iteration either goes through the end of the loop body — then the column
  window holds afterwards *whatever it was before* — or it hits `continue`, and then `xcol`, `xcols`,
  `xleft` are untouched;
* `run_window`, `runModel_window`: every state at a command boundary of every run;
* `StepVia`: the three phases of an iteration; `run_cursor_on_character`,
  `run_sticky_after_vertical_motion`, `run_sticky_cursor_on_character`: the statements of C19f lifted
  to the iterations of a run.
-/
set_option linter.unusedSimpArgs false
set_option linter.unusedVariables false

namespace Neatvi.Lemmas.C19g
open Neatvi Neatvi.Uc Neatvi.Spec Neatvi.Ren Neatvi.Render Neatvi.Lbuf Neatvi.Ex Neatvi.Mot Neatvi.Vi
open Neatvi.Lemmas.C19f
open Neatvi.Lemmas.C05b (CountsFit bind_apply)
open Neatvi.Lemmas.C05c (bind_inv)
open Neatvi.Lemmas.C17b (StrictInc)
open Neatvi.Props.C05c (iterate iterate_succ)

/-! ### the full invariant -/

/-- **`col_invariant_reachable_full` is a theorem**: from a state with `Good c`, `c > 0`, the sticky
    column inside the window and no negative `xleft`, current or saved, every state reached while the
    editor is not quitting has `xleft ≤ xcol < xleft + xcols` and `0 ≤ xleft` -/
theorem col_invariant_reachable : col_invariant_reachable_full := col_invariant_reachable_of_ex exKeepsLeft

/-- `LOk` in every state reached, with no hypothesis about the ex layer left -/
theorem lOk_reachable' (c : Int) (hc : 0 ≤ c) (n : Nat) (s₀ s : VS) (hg : Good c s₀)
    (hl : LOk s₀.ed) (h : iterate n s₀ = some s) : LOk s.ed :=
  lOk_reachable exKeepsLeft c hc n s₀ s hg hl h

/-- `GoodB true c` (that is `Good c`, `0 ≤ xcols`, `LOk`) is kept by an iteration -/
theorem goodT_viStep (c : Int) : Pres (GoodB true c) viStep := goodB_viStep true c (fun _ => exKeepsLeft)

theorem goodT_iterate (c : Int) : ∀ (n : Nat) (s₀ s : VS), GoodB true c s₀ → iterate n s₀ = some s → GoodB true c s := by
  intro n
  induction n with
  | zero =>
    intro s₀ s hg h
    unfold iterate at h
    cases h
    exact hg
  | succ n ih =>
    intro s₀ s hg h
    unfold iterate at h
    split at h
    · rename_i u s1 h1
      exact ih s1 s (goodT_viStep c s₀ u s1 hg h1) h
    · cases h

/-- the `n + 1`-st state of a run is one iteration after the `n`-th -/
theorem iterate_snoc : ∀ (n : Nat) (s0 s : VS), iterate n s0 = some s →
    iterate (n + 1) s0 = (match viStep s with | Res.ok _ s' => some s' | _ => none) := by
  intro n
  induction n with
  | zero =>
    intro s0 s h
    unfold iterate at h
    cases h
    conv => lhs; unfold iterate
    cases viStep s0 with
    | ok u s' => simp only []; unfold iterate; rfl
    | eof => rfl
    | trap => rfl
  | succ n ih =>
    intro s0 s h
    unfold iterate at h
    split at h
    · rename_i u s1 h1
      rw [iterate_succ (n + 1) s0 s1 u h1]
      exact ih s1 s h
    · cases h

/-! ### the ex commands entered from the vi loop -/

/-- `ex_command()` as the vi loop calls it (`:` and the shortcuts `ZZ`, `^^`, …) keeps `LP P`: it runs
    `exCommand 64` on the editor state with the output cleared -/
theorem exCommandV_lp {P : Int → Prop} [HasZero P] (ln : Bytes) (s s' : VS) (rc : Int)
    (h : exCommandV ln s = Res.ok rc s') (hl : LP P s.ed) : LP P s'.ed := by
  unfold exCommandV at h
  split at h
  · cases h; exact hl
  · simp only [] at h
    split at h
    · cases h
    · rename_i rc' ed he
      cases h
      refine exCommand_lk he ?_
      show LP P (match setOf ln with | some (v, val) => _ | none => s).ed
      split
      · split
        · exact hl
        · split <;> exact hl
      · exact hl

/-! ### the state `vi()` starts in -/

/-- the editor before `ex_init`: an empty buffer table, `xleft = 0` -/
theorem lp_start {P : Int → Prop} [HasZero P] (ed0 : Ed) (hb : ed0.bufs = List.replicate Gen.NBUFS none)
    (hx : ed0.xleft = 0) : LP P ed0 := by
  refine ⟨by rw [hx]; exact HasZero.zero, fun bf hbf => ?_⟩
  rw [hb] at hbf
  have := List.eq_of_mem_replicate hbf
  cases this

/-- `viInit` touches neither `xleft` nor the buffer table -/
theorem lp_viInit {P : Int → Prop} (ed : Ed) (keys : Bytes) (rows cols : Int) (h : LP P ed) :
    LP P (viInit ed keys rows cols).ed := h

/-- what `initState` is: `ex_init` on the empty table (with the file, if any, in the file system), then
    `viInit` -/
theorem initState_some (file : Option Bytes) (keys : Bytes) (rows cols : Int) (s0 : VS)
    (h : initState file keys rows cols = some s0) :
    ∃ ed0 rc ed, ed0.bufs = List.replicate Gen.NBUFS none ∧ ed0.xleft = 0 ∧
      exInit ed0 [strOf "fa"] = some (rc, ed) ∧ s0 = viInit ed keys (rows - 1) cols := by
  unfold initState at h
  cases file with
  | none =>
    simp only [] at h
    split at h
    · cases h
    · rename_i rc ed he
      cases h
      exact ⟨{}, rc, ed, rfl, rfl, he, rfl⟩
  | some d =>
    simp only [] at h
    split at h
    · cases h
    · rename_i rc ed he
      cases h
      refine ⟨_, rc, ed, ?_, ?_, he, rfl⟩
      · unfold Ed.putFile; split <;> rfl
      · unfold Ed.putFile; split <;> rfl

/-- **the state `vi()` starts in**, for every file, key sequence and window size:
    `xleft = 0` and every `left` saved in the buffer table is 0; `Good cols` (window width `cols`,
    `0 ≤ xcol`, counts 0); the cursor offset is 0 and the sticky column is the column of the first
    character of the cursor line — `vi()` computes it and does *not* adjust `xleft` before the first
    command (vi.c:1517–1522) — so the column window holds exactly when that column is `< cols`. -/
theorem initState_spec (file : Option Bytes) (keys : Bytes) (rows cols : Int) (s0 : VS)
    (h : initState file keys rows cols = some s0) :
    LP (fun x : Int => x = 0) s0.ed ∧ LOk s0.ed ∧ Good cols s0 ∧ s0.xcols = cols ∧ s0.ed.xoff = 0 ∧
    s0.xcol = off2col s0 s0.ed.xrow s0.ed.xoff ∧ 0 ≤ s0.xcol ∧ (ColWin s0 ↔ s0.xcol < cols) := by
  obtain ⟨ed0, rc, ed, hb, hx, he, rfl⟩ := initState_some file keys rows cols s0 h
  have hz : LP (fun x : Int => x = 0) ed := exInit_lk he (lp_start ed0 hb hx)
  have hl : LOk ed := exInit_lk (P := fun x : Int => 0 ≤ x) he (lp_start ed0 hb hx)
  have hg := good_viInit ed keys (rows - 1) cols
  have hxl : (viInit ed keys (rows - 1) cols).ed.xleft = 0 := hz.1
  refine ⟨lp_viInit ed keys (rows - 1) cols hz, lp_viInit ed keys (rows - 1) cols hl, hg, rfl, rfl, rfl, hg.2.1, ?_⟩
  unfold ColWin
  rw [hxl]
  have h0 := hg.2.1
  show _ ∧ _ < 0 + cols ↔ _
  constructor
  · intro hw; omega
  · intro hw; exact ⟨h0, by omega⟩

/-- the sticky column `vi()` starts with is 0 when the cursor line (if any) is laid out left to right
    from column 0: single-byte characters only, or more than 256 characters (`ren_position` reorders
    neither) — and then the column window holds from the start -/
theorem initState_colWin (file : Option Bytes) (keys : Bytes) (rows cols : Int) (hc : 0 < cols) (s0 : VS)
    (h : initState file keys rows cols = some s0)
    (hline : ∀ ln, lineOf s0 s0.ed.xrow = some ln → ucSlen ln = ln.length ∨ 256 < ucSlen ln) :
    s0.xcol = 0 ∧ ColWin s0 := by
  have hs := initState_spec file keys rows cols s0 h
  obtain ⟨ed0, rc, ed, hb, hx, he, rfl⟩ := initState_some file keys rows cols s0 h
  have h0 := viInit_xcol_zero ed keys (rows - 1) cols hline
  exact ⟨h0, hs.2.2.2.2.2.2.2.2 (by rw [h0]; exact hc)⟩

/-! ### one iteration -/

/-- the three phases of an iteration of `vi()`: the prefixes and the motion (`viPre`), the cursor
    update of a motion or the command switch (`stepCont`; `cont = none` is the `continue` of the C
    loop), the end of the loop body (`viPost`; `cont = some mod` carries the redraw class) -/
def StepVia (s s' : VS) (cont : Option Nat) : Prop :=
  ∃ r s1 s2, viPre s = Res.ok r s1 ∧ C07.stepCont r.1 r.2.1 r.2.2 s1 = Res.ok cont s2 ∧ viPost cont s2 = Res.ok () s'

theorem viStep_via (s s' : VS) : viStep s = Res.ok () s' ↔ ∃ cont, StepVia s s' cont := by
  constructor
  · intro h
    rw [viStep_unfold] at h
    obtain ⟨r, s1, hpre, h⟩ := bind_inv _ _ _ _ _ h
    obtain ⟨cont, s2, hcont, hpost⟩ := bind_inv _ _ _ _ _ h
    exact ⟨cont, r, s1, s2, hpre, hcont, hpost⟩
  · rintro ⟨cont, r, s1, s2, hpre, hcont, hpost⟩
    rw [viStep_unfold]
    rw [bind_apply, hpre]
    show ((C07.stepCont r.1 r.2.1 r.2.2 >>= viPost) s1) = _
    rw [bind_apply, hcont]
    exact hpost

/-- the middle of an iteration keeps `GoodB true c` -/
theorem stepVia_mid (c : Int) (s s' : VS) (cont : Option Nat) (hg : GoodB true c s) (h : StepVia s s' cont) :
    ∃ s2, viPost cont s2 = Res.ok () s' ∧ GoodB true c s2 := by
  obtain ⟨r, s1, s2, hpre, hcont, hpost⟩ := h
  have g1 := pres_viPre (HG.good true c) s r s1 hg hpre
  have g2 := good_stepCont true c (fun _ => exKeepsLeft) r.1 r.2.1 r.2.2 s1 cont s2 g1 hcont
  exact ⟨s2, hpost, g2⟩

/-- **one iteration and the column window**, from any state with `Good c`, `c > 0` — whether or not
    the window holds there: if the iteration reaches the end of the loop body and the editor is not
    quitting, `xleft ≤ xcol < xleft + xcols` afterwards; if it hits `continue` (no key, an unknown
    command key), `xcol`, `xcols`, `xleft` are what they were -/
theorem viStep_window (c : Int) (hc : 0 < c) (s s' : VS) (hg : Good c s)
    (h : viStep s = Res.ok () s') (hq : s'.ed.xquit = false) : ColWin s' ∨ hsnap s' = hsnap s := by
  rw [viStep_unfold] at h
  obtain ⟨r, s1, hpre, h⟩ := bind_inv _ _ _ _ _ h
  obtain ⟨cont, s2, hcont, hpost⟩ := bind_inv _ _ _ _ _ h
  have g1 : Good c s1 := pres_viPre (HG.good false c) s r s1 hg hpre
  have g2 : Good c s2 := good_stepCont false c (fun h => by cases h) r.1 r.2.1 r.2.2 s1 cont s2 g1 hcont
  have hs1 := viPre_hsnap s r s1 hpre
  cases cont with
  | none =>
    cases hpost
    rcases nk_stepCont r.1 r.2.1 r.2.2 s1 none s' hcont rfl with hquit | hk
    · rw [hquit] at hq; cases hq
    · exact Or.inr (hk.trans hs1)
  | some mod =>
    exact Or.inl (viPost_colWin mod s2 s' (by rw [g2.1]; exact hc) (Or.inr g2.2.1) hpost hq).1

/-! ### every state of a run -/

/-- the invariant of a run that starts in `s₀`: `Good c`, `0 ≤ xleft` and no negative saved `left`, and
    the column window — or nothing horizontal has moved since the start -/
def RunInv (c : Int) (s₀ s : VS) : Prop := GoodB true c s ∧ (ColWin s ∨ hsnap s = hsnap s₀)

theorem runInv_start (c : Int) (hc : 0 ≤ c) (s₀ : VS) (hg : Good c s₀) (hl : LOk s₀.ed) : RunInv c s₀ s₀ :=
  ⟨goodB_of c s₀ hg hc hl, Or.inr rfl⟩

theorem good_of_goodT {c : Int} {s : VS} (h : GoodB true c s) : Good c s :=
  ⟨h.1, h.2.1, h.2.2.1, h.2.2.2.1, fun hb => by cases hb⟩

theorem runInv_step (c : Int) (hc : 0 < c) (s₀ s s' : VS) (hi : RunInv c s₀ s)
    (h : viStep s = Res.ok () s') (hq : s'.ed.xquit = false) : RunInv c s₀ s' := by
  refine ⟨goodT_viStep c s () s' hi.1 h, ?_⟩
  rcases viStep_window c hc s s' (good_of_goodT hi.1) h hq with hw | hk
  · exact Or.inl hw
  · rcases hi.2 with hw | hk0
    · exact Or.inl (colWin_of_hsnap hk hw)
    · exact Or.inr (hk.trans hk0)

theorem runInv_iterate (c : Int) (hc : 0 < c) (s₀ : VS) : ∀ (n : Nat) (t s : VS), RunInv c s₀ t →
    iterate n t = some s → Alive n t → RunInv c s₀ s := by
  intro n
  induction n with
  | zero =>
    intro t s hi h _
    unfold iterate at h
    cases h
    exact hi
  | succ n ih =>
    intro t s hi h ha
    unfold iterate at h
    split at h
    · rename_i u s1 h1
      obtain ⟨hq1, ha1⟩ := alive_step n t s1 h1 ha
      exact ih s1 s (runInv_step c hc s₀ t s1 hi h1 hq1) h ha1
    · cases h

/-- what `RunInv` says, spelled out -/
theorem runInv_spec (c : Int) (s₀ s : VS) (h : RunInv c s₀ s) :
    s.xcols = c ∧ 0 ≤ s.xcol ∧ 0 ≤ s.ed.xleft ∧ (∀ bf, some bf ∈ s.ed.bufs → 0 ≤ bf.left) ∧
    (ColWin s ∨ (s.xcol = s₀.xcol ∧ s.ed.xleft = s₀.ed.xleft)) ∧ (ColWin s₀ → ColWin s) := by
  obtain ⟨hg, hw⟩ := h
  have hl := (hg.2.2.2.2 rfl).2
  refine ⟨hg.1, hg.2.1, hl.1, hl.2, ?_, ?_⟩
  · rcases hw with hw | hk
    · exact Or.inl hw
    · obtain ⟨a, _, b, _⟩ := hsnap_fields hk
      exact Or.inr ⟨a, b⟩
  · intro h0
    rcases hw with hw | hk
    · exact hw
    · exact colWin_of_hsnap hk h0

open Neatvi.Drive.ViD in
theorem runInv_loop (n : Nat) (c : Int) (hc : 0 < c) (s₀ : VS) : ∀ (f : Nat) (s : VS) (bds : List Bd) (sts : List VS) (um : Option Nat),
    RunInv c s₀ s → (∀ t ∈ sts, RunInv c s₀ t) → ∀ t ∈ (runModel.loop n f s bds sts um).states, RunInv c s₀ t := by
  intro f
  induction f with
  | zero =>
    intro s bds sts um hs hst t ht
    unfold runModel.loop at ht
    exact hst t (List.mem_reverse.mp ht)
  | succ f ih =>
    intro s bds sts um hs hst t ht
    have hall : ∀ t ∈ (s :: sts).reverse, RunInv c s₀ t := by
      intro t ht
      rcases List.mem_cons.mp (List.mem_reverse.mp ht) with e | e
      · exact e ▸ hs
      · exact hst t e
    unfold runModel.loop at ht
    dsimp only at ht
    split at ht
    · rename_i u s' h1
      split at ht
      · exact hall t ht
      · rename_i hq
        have hq' : s'.ed.xquit = false := by simpa using hq
        exact ih s' _ _ _ (runInv_step c hc s₀ s s' hs h1 hq')
          (fun t ht => hall t (List.mem_reverse.mpr ht)) t ht
    · exact hall t ht
    · exact hall t ht

open Neatvi.Drive.ViD in
/-- the driver's runs: `runModel` starts in `initState` and records the states at the command
    boundaries -/
theorem runModel_states (file : Option Bytes) (keys : Bytes) (rows cols : Int) (run : Run) (hc : 0 < cols)
    (h : runModel file keys rows cols = some run) :
    ∃ s0, initState file keys rows cols = some s0 ∧ ∀ t ∈ run.states, RunInv cols s0 t := by
  unfold runModel at h
  dsimp only at h
  split at h
  · cases h
  · rename_i rc ed he
    cases h
    have hi : initState file keys rows cols = some (viInit ed keys (rows - 1) cols) := by
      unfold initState
      cases file <;> (dsimp only at he ⊢; rw [he])
    refine ⟨_, hi, ?_⟩
    obtain ⟨_, hl, hg, _⟩ := initState_spec file keys rows cols _ hi
    exact runInv_loop _ cols hc _ _ _ _ _ _ (runInv_start cols (by omega) _ hg hl) (fun t ht => by cases ht)


/-! ### runs from the state `vi()` starts in -/

/-- every state of a run of `vi()` has `GoodB true cols`: window width `cols`, `0 ≤ xcol`, `0 ≤ xleft`, no
    negative saved `left`, counts within bounds -/
theorem run_goodT (file : Option Bytes) (keys : Bytes) (rows cols : Int) (hc : 0 < cols) (s0 : VS)
    (hi : initState file keys rows cols = some s0) (n : Nat) (s : VS) (hn : iterate n s0 = some s) :
    GoodB true cols s := by
  obtain ⟨_, hl, hg, _⟩ := initState_spec file keys rows cols s0 hi
  exact goodT_iterate cols n s0 s (goodB_of cols s0 hg (by omega) hl) hn

/-- **every command boundary of every run**: after `n` iterations from the state `vi()` starts in, none
    of which left the editor quitting -/
theorem run_window (file : Option Bytes) (keys : Bytes) (rows cols : Int) (hc : 0 < cols) (s0 : VS)
    (hi : initState file keys rows cols = some s0) (n : Nat) (s : VS) (hn : iterate n s0 = some s)
    (ha : Alive n s0) :
    s.xcols = cols ∧ 0 ≤ s.xcol ∧ 0 ≤ s.ed.xleft ∧ (∀ bf, some bf ∈ s.ed.bufs → 0 ≤ bf.left) ∧
    (ColWin s ∨ (s.xcol = s0.xcol ∧ s.ed.xleft = 0)) ∧ (s0.xcol < cols → ColWin s) := by
  obtain ⟨hz, hl, hg, _, _, _, _, hw⟩ := initState_spec file keys rows cols s0 hi
  have hr := runInv_iterate cols hc s0 n s0 s (runInv_start cols (by omega) s0 hg hl) hn ha
  obtain ⟨a, b, c, d, e, f⟩ := runInv_spec cols s0 s hr
  have hx0 : s0.ed.xleft = 0 := hz.1
  exact ⟨a, b, c, d, by rw [hx0] at e; exact e, fun h => f (hw.mpr h)⟩

open Neatvi.Drive.ViD in
/-- the same for the states the driver records -/
theorem runModel_window (file : Option Bytes) (keys : Bytes) (rows cols : Int) (run : Run) (hc : 0 < cols)
    (h : runModel file keys rows cols = some run) :
    ∃ s0, initState file keys rows cols = some s0 ∧ ∀ s ∈ run.states,
      s.xcols = cols ∧ 0 ≤ s.xcol ∧ 0 ≤ s.ed.xleft ∧ (∀ bf, some bf ∈ s.ed.bufs → 0 ≤ bf.left) ∧
      (ColWin s ∨ (s.xcol = s0.xcol ∧ s.ed.xleft = 0)) ∧ (s0.xcol < cols → ColWin s) := by
  obtain ⟨s0, hi, hall⟩ := runModel_states file keys rows cols run hc h
  refine ⟨s0, hi, fun s hs => ?_⟩
  obtain ⟨hz, _, _, _, _, _, _, hw⟩ := initState_spec file keys rows cols s0 hi
  obtain ⟨a, b, c, d, e, f⟩ := runInv_spec cols s0 s (hall s hs)
  have hx0 : s0.ed.xleft = 0 := hz.1
  exact ⟨a, b, c, d, by rw [hx0] at e; exact e, fun h => f (hw.mpr h)⟩

/-! ### before the first command -/

/-- **the first command boundary.**  `vi()` computes `xcol = vi_off2col(xrow, 0)` and puts the terminal
    cursor on `vi_pos(xcol)` (vi.c:1519–1522) — with `xleft = 0`, which it does not adjust, and without
    `ren_cursor`: the cell is that of the *lowest* visual column of the first character, `xcol` itself
    in a left-to-right context, `cols - 1 - xcol` in a right-to-left one; it is a cell of the window
    exactly when `xcol < cols`. -/
theorem first_boundary (file : Option Bytes) (keys : Bytes) (rows cols : Int) (s0 : VS)
    (hi : initState file keys rows cols = some s0) :
    s0.ed.xleft = 0 ∧ s0.ed.xoff = 0 ∧ s0.xcols = cols ∧ s0.xcol = off2col s0 s0.ed.xrow s0.ed.xoff ∧ 0 ≤ s0.xcol ∧
    (ColWin s0 ↔ s0.xcol < cols) ∧
    (0 ≤ curCtx s0 → colCell s0 = s0.xcol) ∧ (curCtx s0 < 0 → colCell s0 = cols - s0.xcol - 1) ∧
    (lineOf s0 s0.ed.xrow = none → s0.xcol = 0) := by
  obtain ⟨hz, _, _, h1, h2, h3, h4, h5⟩ := initState_spec file keys rows cols s0 hi
  have hx0 : s0.ed.xleft = 0 := hz.1
  refine ⟨hx0, h2, h1, h3, h4, h5, fun hctx => ?_, fun hctx => ?_, fun hl => ?_⟩
  · unfold colCell viPos Render.ledPos
    rw [if_pos hctx, hx0]; omega
  · unfold colCell viPos Render.ledPos
    rw [if_neg (by omega), hx0, h1]; omega
  · rw [h3]; unfold off2col; rw [hl]

/-- **what the first screen shows under the cursor.**  When the cursor line of the state `vi()` starts
    in is `body ++ "\n"` (valid code points, non-empty body) and all cells of its first character
    are inside the window (`xcol + w ≤ cols`): the cell `vi_pos(xcol)` the terminal cursor is first put
    on shows that character — its *first* cell (in a right-to-left context the rightmost on the
    screen), whereas after every command the cursor is put on `vi_pos(ren_cursor(xcol))`, its *last*
    cell: the two differ by `w - 1` (a tab, a wide character). -/
theorem first_boundary_shows (file : Option Bytes) (keys : Bytes) (rows cols : Int) (hc : 0 < cols) (s0 : VS)
    (hi : initState file keys rows cols = some s0)
    (body : List Nat) (hv : ∀ c ∈ body, ValidCp c) (h10 : 10 ∉ body) (hne : body ≠ [])
    (hln : lineOf s0 s0.ed.xrow = some (encStr (body ++ [10]))) :
    let cps := body ++ [10]
    let pos := posTab s0 (encStr cps)
    let w : Int := cellWidth (cps.getD 0 0) (pos.getD 0 0)
    s0.xcol = (pos.getD 0 0 : Nat) ∧ 1 ≤ w ∧ cursorCol s0 = s0.xcol + w - 1 ∧
    (s0.xcol + w ≤ cols →
      0 ≤ colCell s0 ∧ colCell s0 < cols ∧ rowShows s0 (encStr cps) (colCell s0).toNat = some 0 ∧
      0 ≤ termCursor s0 ∧ termCursor s0 < cols ∧ rowShows s0 (encStr cps) (termCursor s0).toNat = some 0 ∧
      (0 ≤ curCtx s0 → termCursor s0 = colCell s0 + (w - 1)) ∧
      (curCtx s0 < 0 → termCursor s0 = colCell s0 - (w - 1))) := by
  intro cps pos w
  obtain ⟨hx0, h2, h1, h3, h4, _⟩ := first_boundary file keys rows cols s0 hi
  have hvc := (body_line body hv h10 hne).1
  have hlen : 0 < body.length := List.length_pos_iff.mpr hne
  have hlt : 0 < cps.length := by show 0 < (body ++ [10]).length; simp
  have hnl : cps.getD 0 0 ≠ 10 := (wfCps_of_body body hv h10 hne).inner 0 (by show 0 + 1 < (body ++ [10]).length; simp; omega)
  have hxo : s0.ed.xoff = ((0 : Nat) : Int) := by rw [h2]; rfl
  obtain ⟨c1, c2, _, c4⟩ := cursor_columns s0 cps hvc hln 0 hxo hlt hnl h3
  refine ⟨c1, (by show (1 : Int) ≤ ((cellWidth (cps.getD 0 0) (pos.getD 0 0) : Nat) : Int); exact_mod_cast c2), c4, fun hr => ?_⟩
  have key := cursor_cells s0 cps hvc (by rw [h1]; exact hc) hln 0 hxo hlt hnl h3 (by rw [hx0]; exact h4)
    (by rw [hx0, h1]; show s0.xcol + w ≤ 0 + cols; omega)
  simp only [] at key
  rw [h1] at key
  exact key

/-! ### the cursor character at a command boundary -/


/-- **the cursor is on its character, as a statement about one state.**  A state with a valid cursor
    (`C07.CursorValid`), a non-negative offset, a window of at least one column that contains the
    sticky column, whose sticky column is the column of the cursor character, on a buffer line
    `body ++ "\n"` of valid code points with a non-empty body: the conclusions of
    `C19f.cursor_on_character`. -/
theorem state_cursor_on_character (s' : VS) (hcv : Props.C07.CursorValid s') (hc' : 0 < s'.xcols) (hw : ColWin s')
    (h0 : 0 ≤ s'.ed.xoff) (hx : s'.xcol = off2col s' s'.ed.xrow s'.ed.xoff)
    (body : List Nat) (hv : ∀ c ∈ body, ValidCp c) (h10 : 10 ∉ body) (hne : body ≠ [])
    (hln : lineOf s' s'.ed.xrow = some (encStr (body ++ [10]))) :
    let cps := body ++ [10]
    let off := s'.ed.xoff.toNat
    let pos := posTab s' (encStr cps)
    let w : Int := cellWidth (cps.getD off 0) (pos.getD off 0)
    (s'.ed.xoff = (off : Int) ∧ off < body.length) ∧
    (s'.xcol = (pos.getD off 0 : Nat) ∧ 1 ≤ w) ∧
    (∀ p : Int, s'.xcol ≤ p → p < s'.xcol + w → col2off s' s'.ed.xrow p = (off : Nat)) ∧
    cursorCol s' = s'.xcol + w - 1 ∧
    (0 ≤ colCell s' ∧ colCell s' < s'.xcols) ∧
    (s'.xcol + w ≤ s'.ed.xleft + s'.xcols →
      rowShows s' (encStr cps) (colCell s').toNat = some off ∧
      0 ≤ termCursor s' ∧ termCursor s' < s'.xcols ∧
      rowShows s' (encStr cps) (termCursor s').toNat = some off ∧
      (0 ≤ curCtx s' → termCursor s' = colCell s' + (w - 1)) ∧
      (curCtx s' < 0 → termCursor s' = colCell s' - (w - 1))) := by
  intro cps off pos w
  obtain ⟨e1, e2, e3⟩ := valid_cursor_char s' hcv h0 body hv h10 hne hln
  have hvc := (body_line body hv h10 hne).1
  have hlt : off < cps.length := by show s'.ed.xoff.toNat < (body ++ [10]).length; simp; omega
  obtain ⟨w1, w2⟩ := hw
  obtain ⟨c1, c2, c3, c4⟩ := cursor_columns s' cps hvc hln off e1 hlt e3 hx
  obtain ⟨k0, k1⟩ := ledPos_range (curCtx s') s'.xcol s'.ed.xleft (s'.ed.xleft + s'.xcols) w1 w2
  refine ⟨⟨e1, e2⟩, ⟨c1, (by show (1 : Int) ≤ ((cellWidth (cps.getD off 0) (pos.getD off 0) : Nat) : Int); exact_mod_cast c2)⟩, ?_, c4, ⟨k0, by unfold colCell viPos; omega⟩, ?_⟩
  · intro p hp1 hp2
    exact (c3 p (by omega) (by rw [← c1]; exact hp2)).1
  · intro hr
    obtain ⟨d1, d2, d3, d4, d5, d6, d7, d8⟩ := cursor_cells s' cps hvc hc' hln off e1 hlt e3 hx w1 hr
    exact ⟨d3, d4, d5, d6, d7, d8⟩

/-- `C19f.cursor_on_character` with its hypotheses about the state *after* the end of the iteration: the
    offset is not negative there, and the sticky column is the column of the cursor character (which
    `mod ≠ 0` guarantees, `viPost_xcol_mod`, and which also holds after a horizontal motion) -/
theorem cursor_on_character_post (s s' : VS) (mod : Nat) (hc : 0 < s.xcols) (hxc : mod ≠ 0 ∨ 0 ≤ s.xcol)
    (h : viPost (some mod) s = Res.ok () s') (hq : s'.ed.xquit = false) (h0 : 0 ≤ s'.ed.xoff)
    (hx : s'.xcol = off2col s' s'.ed.xrow s'.ed.xoff)
    (body : List Nat) (hv : ∀ c ∈ body, ValidCp c) (h10 : 10 ∉ body) (hne : body ≠ [])
    (hln : lineOf s' s'.ed.xrow = some (encStr (body ++ [10]))) :
    let cps := body ++ [10]
    let off := s'.ed.xoff.toNat
    let pos := posTab s' (encStr cps)
    let w : Int := cellWidth (cps.getD off 0) (pos.getD off 0)
    (s'.ed.xoff = (off : Int) ∧ off < body.length) ∧
    (s'.xcol = (pos.getD off 0 : Nat) ∧ 1 ≤ w) ∧
    (∀ p : Int, s'.xcol ≤ p → p < s'.xcol + w → col2off s' s'.ed.xrow p = (off : Nat)) ∧
    cursorCol s' = s'.xcol + w - 1 ∧
    (s'.ed.xleft ≤ s'.xcol ∧ s'.xcol < s'.ed.xleft + s'.xcols ∧ 0 ≤ colCell s' ∧ colCell s' < s'.xcols) ∧
    (s'.xcol + w ≤ s'.ed.xleft + s'.xcols →
      rowShows s' (encStr cps) (colCell s').toNat = some off ∧
      0 ≤ termCursor s' ∧ termCursor s' < s'.xcols ∧
      rowShows s' (encStr cps) (termCursor s').toNat = some off ∧
      (0 ≤ curCtx s' → termCursor s' = colCell s' + (w - 1)) ∧
      (curCtx s' < 0 → termCursor s' = colCell s' - (w - 1))) := by
  intro cps off pos w
  obtain ⟨hcv, _, _, _⟩ := Props.C07.viPost_cursor_valid mod s s' h
  obtain ⟨w1, w2, _, w4, _⟩ := viPost_col_in_window s s' mod hc hxc h hq
  have key := state_cursor_on_character s' hcv (by rw [w4]; exact hc) ⟨w1, w2⟩ h0 hx body hv h10 hne hln
  simp only [] at key
  obtain ⟨k1, k2, k3, k4, k5, k6⟩ := key
  exact ⟨k1, k2, k3, k4, ⟨w1, w2, k5.1, k5.2⟩, k6⟩

/-- after an iteration with `mod ≠ 0` that does not leave the editor quitting, the sticky column is the
    column of the cursor character -/
theorem stepVia_onChar (s s' : VS) (mod : Nat) (hmod : mod ≠ 0) (h : StepVia s s' (some mod))
    (hq : s'.ed.xquit = false) : s'.xcol = off2col s' s'.ed.xrow s'.ed.xoff := by
  obtain ⟨r, s1, s2, _, _, hpost⟩ := h
  exact viPost_xcol_mod mod hmod s2 s' hpost (viPost_quit_before mod s2 s' hpost hq)

/-- **the cursor is on its character at the command boundaries of a run.**  `s` is a state with the
    invariant of a run (`GoodB true c`, `c > 0`); the iteration from `s` reaches the end of the loop
    body with redraw class `mod` and ends in `s'`, not quitting, with a non-negative offset; the
    sticky column of `s'` is the column of its cursor character (always when `mod ≠ 0`:
    `stepVia_onChar`); the cursor line is `body ++ "\n"`.  Then `0 ≤ xleft` and the conclusions of
    `C19f.cursor_on_character` hold of `s'`. -/
theorem stepVia_cursor_on_character (c : Int) (hc : 0 < c) (s s' : VS) (mod : Nat) (hg : GoodB true c s)
    (hstep : StepVia s s' (some mod)) (hq : s'.ed.xquit = false) (h0 : 0 ≤ s'.ed.xoff)
    (hx : mod ≠ 0 ∨ s'.xcol = off2col s' s'.ed.xrow s'.ed.xoff)
    (body : List Nat) (hv : ∀ c ∈ body, ValidCp c) (h10 : 10 ∉ body) (hne : body ≠ [])
    (hln : lineOf s' s'.ed.xrow = some (encStr (body ++ [10]))) :
    let cps := body ++ [10]
    let off := s'.ed.xoff.toNat
    let pos := posTab s' (encStr cps)
    let w : Int := cellWidth (cps.getD off 0) (pos.getD off 0)
    0 ≤ s'.ed.xleft ∧ s'.xcols = c ∧
    (s'.ed.xoff = (off : Int) ∧ off < body.length) ∧
    (s'.xcol = off2col s' s'.ed.xrow s'.ed.xoff ∧ s'.xcol = (pos.getD off 0 : Nat) ∧ 1 ≤ w) ∧
    (∀ p : Int, s'.xcol ≤ p → p < s'.xcol + w → col2off s' s'.ed.xrow p = (off : Nat)) ∧
    cursorCol s' = s'.xcol + w - 1 ∧
    (s'.ed.xleft ≤ s'.xcol ∧ s'.xcol < s'.ed.xleft + s'.xcols ∧ 0 ≤ colCell s' ∧ colCell s' < s'.xcols) ∧
    (s'.xcol + w ≤ s'.ed.xleft + s'.xcols →
      rowShows s' (encStr cps) (colCell s').toNat = some off ∧
      0 ≤ termCursor s' ∧ termCursor s' < s'.xcols ∧
      rowShows s' (encStr cps) (termCursor s').toNat = some off ∧
      (0 ≤ curCtx s' → termCursor s' = colCell s' + (w - 1)) ∧
      (curCtx s' < 0 → termCursor s' = colCell s' - (w - 1))) := by
  intro cps off pos w
  have hx' : s'.xcol = off2col s' s'.ed.xrow s'.ed.xoff := by
    rcases hx with hm | hx
    · exact stepVia_onChar s s' mod hm hstep hq
    · exact hx
  obtain ⟨s2, hpost, g2⟩ := stepVia_mid c s s' (some mod) hg hstep
  have g3 := good_viPost true c (some mod) s2 () s' g2 hpost
  have key := cursor_on_character_post s2 s' mod (by rw [g2.1]; exact hc) (Or.inr g2.2.1) hpost hq h0 hx'
    body hv h10 hne hln
  simp only [] at key
  obtain ⟨k1, k2, k3, k4, k5, k6⟩ := key
  exact ⟨(g3.2.2.2.2 rfl).2.1, g3.1, k1, ⟨hx', k2.1, k2.2⟩, k3, k4, k5, k6⟩

/-! ### vertical motions -/

/-- the iteration of `j` / `k`: `viPre` returns the motion and its target row, the cursor update is
    `motionTail`, the redraw class is 0 -/
theorem jk_stepVia (s s1 s3 : VS) (mv nrow noff : Int) (hjk : mv = 106 ∨ mv = 107)
    (hpre : viPre s = Res.ok (mv, nrow, noff) s1) (h : viStep s = Res.ok () s3) :
    ∃ s2, motionTail mv nrow noff s1 = Res.ok (some 0) s2 ∧ viPost (some 0) s2 = Res.ok () s3 := by
  rw [C07.viStep_of_pre s s1 mv nrow noff hpre] at h
  obtain ⟨cont, s2, hcont, hpost⟩ := bind_inv _ _ _ _ _ h
  have hmv : mv > 0 := by rcases hjk with rfl | rfl <;> decide
  unfold C07.stepCont at hcont
  rw [if_pos hmv] at hcont
  have := motionTail_jk mv nrow noff hjk s1
  rw [this] at hcont
  cases hcont
  exact ⟨_, this, hpost⟩

/-- what `viPre` leaves alone: the text, `xcol`, `xcols`, `xleft`, `xtd`, `xquit` -/
theorem viPre_frame (s s1 : VS) (r : Int × Int × Int) (hpre : viPre s = Res.ok r s1) :
    (∀ k, lineOf s1 k = lineOf s k) ∧ s1.xcol = s.xcol ∧ s1.xcols = s.xcols ∧ s1.ed.xleft = s.ed.xleft ∧
    s1.ed.xtd = s.ed.xtd ∧ s1.ed.xquit = s.ed.xquit := by
  obtain ⟨a, b, c, d, e⟩ := hsnap_fields (viPre_hsnap s r s1 hpre)
  have hl := (Props.C07.viPre_lines s r s1 hpre).1
  exact ⟨fun k => by unfold lineOf; rw [hl], a, b, c, d, e⟩

/-- **`j` / `k` in a run**: `C19f.sticky_after_vertical_motion` for the iteration of a state `s` of a
    run (`GoodB true c`, `c > 0`, not quitting) whose motion is `j` or `k` to the row `nrow`, stated
    about `s` and the state `s3` at the next command boundary; and the column window and `0 ≤ xleft`
    hold of `s3`. -/
theorem stepVia_sticky (c : Int) (hc : 0 < c) (s s1 s3 : VS) (mv nrow noff : Int) (hjk : mv = 106 ∨ mv = 107)
    (hg : GoodB true c s) (hq : s.ed.xquit = false)
    (hpre : viPre s = Res.ok (mv, nrow, noff) s1) (h : viStep s = Res.ok () s3)
    (body : List Nat) (hv : ∀ c ∈ body, ValidCp c) (h10 : 10 ∉ body) (hne : body ≠ [])
    (hln : lineOf s nrow = some (encStr (body ++ [10]))) :
    let cps := body ++ [10]
    let pos := posTab s3 (encStr cps)
    let off := s3.ed.xoff.toNat
    let w : Int := cellWidth (cps.getD off 0) (pos.getD off 0)
    let col : Int := off2col s3 s3.ed.xrow s3.ed.xoff
    (s3.ed.xquit = false ∧ ColWin s3 ∧ 0 ≤ s3.ed.xleft ∧ s3.xcols = c) ∧
    (s3.xcol = s.xcol ∧ s3.ed.xrow = nrow ∧ lineOf s3 nrow = some (encStr cps) ∧
      s3.ed.xleft = postLeft s.xcol s.ed.xleft s.xcols) ∧
    (s3.ed.xoff = (off : Int) ∧ off < body.length ∧ col = (pos.getD off 0 : Nat)) ∧
    (∀ i, i < body.length → (pos.getD i 0 : Nat) ≤ s3.xcol →
      s3.xcol < (pos.getD i 0 : Nat) + (cellWidth (cps.getD i 0) (pos.getD i 0) : Int) → off = i) ∧
    (StrictInc pos cps.length → (pos.getD 0 0 : Nat) ≤ s3.xcol →
      col ≤ s3.xcol ∧
      (s3.xcol < (pos.getD body.length 0 : Nat) → s3.xcol < col + w) ∧
      ((pos.getD body.length 0 : Nat) ≤ s3.xcol → off + 1 = body.length ∧ col + w ≤ s3.xcol)) := by
  intro cps pos off w col
  obtain ⟨s2, h1, h2⟩ := jk_stepVia s s1 s3 mv nrow noff hjk hpre h
  obtain ⟨f1, f2, f3, f4, f5, f6⟩ := viPre_frame s s1 _ hpre
  have hq1 : s1.ed.xquit = false := by rw [f6]; exact hq
  have hln1 : lineOf s1 nrow = some (encStr (body ++ [10])) := by rw [f1]; exact hln
  have key := sticky_after_vertical_motion mv nrow noff hjk s1 s2 s3 (some 0) h1 h2 hq1 body hv h10 hne hln1
  simp only [] at key
  obtain ⟨⟨k1, k2, k3, k4⟩, k5, k6, k7⟩ := key
  have hwf := wfCps_of_body body hv h10 hne
  obtain ⟨_, _, _, _, _, _, a7, a8⟩ := jk_run mv nrow noff hjk s1 s2 s3 (some 0) h1 h2 hq1 _ hwf hln1
  have g3 := goodT_viStep c s () s3 hg h
  have g1 := pres_viPre (HG.good true c) s _ s1 hg hpre
  have g2 := good_motionTail true c mv nrow noff s1 _ s2 g1 h1
  have hw := (viPost_colWin 0 s2 s3 (by rw [g2.1]; exact hc) (Or.inr g2.2.1) h2 a8).1
  refine ⟨⟨a8, hw, (g3.2.2.2.2 rfl).2.1, g3.1⟩, ⟨by rw [k1, f2], k2, k3, by rw [k4, f2, f3, f4]⟩, k5, k6, k7⟩

/-- **... and then the cursor is on its character**: `C19f.sticky_cursor_on_character` for the iteration
    of a state of a run -/
theorem stepVia_sticky_cursor (c : Int) (hc : 0 < c) (s s1 s3 : VS) (mv nrow noff : Int) (hjk : mv = 106 ∨ mv = 107)
    (hg : GoodB true c s) (hq : s.ed.xquit = false)
    (hpre : viPre s = Res.ok (mv, nrow, noff) s1) (h : viStep s = Res.ok () s3)
    (body : List Nat) (hv : ∀ c ∈ body, ValidCp c) (h10 : 10 ∉ body) (hne : body ≠ [])
    (hln : lineOf s nrow = some (encStr (body ++ [10])))
    (i : Nat) (hi : i < body.length)
    (hp1 : ((posTab s3 (encStr (body ++ [10]))).getD i 0 : Nat) ≤ s3.xcol)
    (hp2 : s3.xcol < ((posTab s3 (encStr (body ++ [10]))).getD i 0 : Nat) +
      (cellWidth ((body ++ [10]).getD i 0) ((posTab s3 (encStr (body ++ [10]))).getD i 0) : Int))
    (hin1 : s3.ed.xleft ≤ ((posTab s3 (encStr (body ++ [10]))).getD i 0 : Nat))
    (hin2 : ((posTab s3 (encStr (body ++ [10]))).getD i 0 : Nat) +
      (cellWidth ((body ++ [10]).getD i 0) ((posTab s3 (encStr (body ++ [10]))).getD i 0) : Int) ≤
        s3.ed.xleft + s3.xcols) :
    s3.ed.xoff = (i : Nat) ∧
    cursorCol s3 = ((posTab s3 (encStr (body ++ [10]))).getD i 0 : Nat) +
      (cellWidth ((body ++ [10]).getD i 0) ((posTab s3 (encStr (body ++ [10]))).getD i 0) : Int) - 1 ∧
    0 ≤ colCell s3 ∧ colCell s3 < s3.xcols ∧ rowShows s3 (encStr (body ++ [10])) (colCell s3).toNat = some i ∧
    0 ≤ termCursor s3 ∧ termCursor s3 < s3.xcols ∧
    rowShows s3 (encStr (body ++ [10])) (termCursor s3).toNat = some i := by
  obtain ⟨s2, h1, h2⟩ := jk_stepVia s s1 s3 mv nrow noff hjk hpre h
  obtain ⟨f1, f2, f3, f4, f5, f6⟩ := viPre_frame s s1 _ hpre
  have g1 := pres_viPre (HG.good true c) s _ s1 hg hpre
  exact sticky_cursor_on_character mv nrow noff hjk s1 s2 s3 (some 0) h1 h2 (by rw [f6]; exact hq)
    (by rw [g1.1]; exact hc) body hv h10 hne (by rw [f1]; exact hln) i hi hp1 hp2 hin1 hin2

end Neatvi.Lemmas.C19g
