import NeatviVerif.Props.C08f
/-!
# C08g: a motion that lands on the cursor row (`Lands`), and the change operator `c` on one row

`Lands s s1 sm a2 k mv body o t` packages what `Props/C08f.lean` passes around as separate hypotheses: after
the count prefix (`Prefixed s a2 k s1`) the motion key `k` is not a line motion, `vi_motion` answers `mv > 0`
with the target `(cursor row, t)`, `t ≤ |body|`, in the state `sm`, which differs from `s` by the key queues
(and the find memory) only.  One lemma per motion key (`lands_spc` … `lands_h`), and one theorem per
operator (`row_change` here, `row_case` in `C08gC`) give every operator/motion pair.
-/
set_option linter.unusedSimpArgs false
set_option linter.unusedVariables false
namespace Neatvi.Lemmas.C08g
open Neatvi Neatvi.Uc Neatvi.Vi Neatvi.Ex Neatvi.Lbuf Neatvi.Mot Neatvi.Spec
open Neatvi.Lemmas.C08 Neatvi.Lemmas.C08b Neatvi.Lemmas.C08f
open Neatvi.Lemmas.C09 (finRec pending)
open Neatvi.Props.C07c (Utf8Buf refBufU)
open Neatvi.Props.C08f

/-! ### reading keys changes the key queues only -/

/-- `s1` is `s` up to the key queues (`ibuf`, `ibufPos`, `typed`, `icmd`, the push-back stack) -/
def QOnly (s s1 : VS) : Prop :=
  ∃ ib ip ty ic vb, s1 = { s with ibuf := ib, ibufPos := ip, typed := ty, icmd := ic, vibuf := vb }

theorem QOnly.refl (s : VS) : QOnly s s := ⟨_, _, _, _, _, rfl⟩

theorem QOnly.trans {s s1 s2 : VS} (h1 : QOnly s s1) (h2 : QOnly s1 s2) : QOnly s s2 := by
  obtain ⟨ib, ip, ty, ic, vb, rfl⟩ := h1
  obtain ⟨ib', ip', ty', ic', vb', rfl⟩ := h2
  exact ⟨ib', ip', ty', ic', vb', rfl⟩

theorem termRead_qonly (s s1 : VS) (c : Int) (h : termRead s = Res.ok c s1) : QOnly s s1 := by
  unfold termRead at h
  simp only [] at h
  split at h
  · cases h
  · injection h with _ h
    subst h
    split <;> exact ⟨_, _, _, _, _, rfl⟩

theorem viRead_qonly (s s1 : VS) (c : Int) (h : viRead s = Res.ok c s1) : QOnly s s1 := by
  unfold viRead at h
  split at h
  · injection h with _ h; subst h; exact ⟨_, _, _, _, _, rfl⟩
  · exact termRead_qonly s s1 c h

theorem viBack_qonly (c : Int) (s : VS) : QOnly s { s with vibuf := c :: s.vibuf } := ⟨_, _, _, _, _, rfl⟩

theorem digits_qonly : ∀ (f : Nat) (n c : Int) (s sp : VS) (a : Int),
    viPrefix.digits f n c s = Res.ok a sp → QOnly s sp := by
  intro f
  induction f with
  | zero =>
    intro n c s sp a h
    unfold viPrefix.digits at h
    injection h with _ h
    subst h
    exact viBack_qonly c s
  | succ f ih =>
    intro n c s sp a h
    unfold viPrefix.digits at h
    split at h
    · simp only [bind_apply] at h
      cases hr : viRead s with
      | ok c' s' =>
        rw [hr] at h
        exact (viRead_qonly s s' c' hr).trans (ih _ c' s' sp a h)
      | eof => rw [hr] at h; cases h
      | trap => rw [hr] at h; cases h
    · injection h with _ h
      subst h
      exact viBack_qonly c s

theorem viPrefix_qonly (s sp : VS) (a : Int) (h : viPrefix s = Res.ok a sp) : QOnly s sp := by
  unfold viPrefix at h
  simp only [bind_apply] at h
  cases hr : viRead s with
  | ok c s' =>
    rw [hr] at h
    simp only [] at h
    have hf := viRead_qonly s s' c hr
    split at h
    · exact hf.trans (digits_qonly 64 0 c s' sp a h)
    · injection h with _ h
      subst h
      exact hf.trans (viBack_qonly c s')
  | eof => rw [hr] at h; cases h
  | trap => rw [hr] at h; cases h

theorem prefixed_qonly {s s1 : VS} {a2 k : Int} (h : Prefixed s a2 k s1) : QOnly s s1 := by
  obtain ⟨sp, hp, hk⟩ := h
  exact (viPrefix_qonly s sp a2 hp).trans (viRead_qonly sp s1 k hk)

theorem QOnly.xai {s s1 : VS} (h : QOnly s s1) : s1.xai = s.xai := by
  obtain ⟨ib, ip, ty, ic, vb, rfl⟩ := h; rfl

/-- the motion key `k` (after the second count `a2`) moves from character `o` of the cursor row to character
`t` of the same row; `mv` is the motion `vi_motion` reports, `sm` the state it leaves -/
structure Lands (s s1 sm : VS) (a2 k mv : Int) (body : List Nat) (o t : Nat) : Prop where
  pre : Prefixed s a2 k s1
  key : k ≠ 99 ∧ k ≠ 100 ∧ k ≠ 121 ∧ k ≠ 126 ∧ k ≠ 117 ∧ k ≠ 85 ∧ k ≠ 62 ∧ k ≠ 60 ∧ isLnKey 0 k = false
  motion : viMotion s.ed.xrow o (motionSt a2 s1 k) = Res.ok (mv, s.ed.xrow, (t : Int)) sm
  pos : 0 < mv
  ed : sm.ed = s.ed
  ybuf : sm.ybuf = s.ybuf
  xkmap : sm.xkmap = s.xkmap
  le : t ≤ body.length

/-- such a key is not a line motion for any operator letter -/
theorem Lands.notLn {s s1 sm : VS} {a2 k mv : Int} {body : List Nat} {o t : Nat} (h : Lands s s1 sm a2 k mv body o t)
    (cmd : Nat) (hc : cmd = 99 ∨ cmd = 100 ∨ cmd = 121 ∨ cmd = 126 ∨ cmd = 117 ∨ cmd = 85 ∨ cmd = 62 ∨ cmd = 60) :
    isLnKey cmd k = false := by
  obtain ⟨k1, k2, k3, k4, k5, k6, k7, k8, k9⟩ := h.key
  unfold isLnKey at k9 ⊢
  simp only [Bool.or_eq_false_iff, beq_eq_false_iff_ne, ne_eq] at k9 ⊢
  obtain ⟨⟨⟨⟨⟨⟨⟨⟨⟨⟨⟨⟨a1, a2'⟩, a3⟩, a4⟩, a5⟩, a6⟩, a7⟩, a8⟩, a9⟩, a10⟩, a11⟩, a12⟩, a13⟩ := k9
  refine ⟨⟨⟨⟨⟨⟨⟨⟨⟨⟨⟨⟨a1, a2'⟩, a3⟩, a4⟩, a5⟩, a6⟩, a7⟩, a8⟩, a9⟩, a10⟩, a11⟩, ?_⟩, a13⟩
  rcases hc with rfl | rfl | rfl | rfl | rfl | rfl | rfl | rfl <;> assumption

theorem Lands.lines {s s1 sm : VS} {a2 k mv : Int} {body : List Nat} {o t : Nat} (h : Lands s s1 sm a2 k mv body o t) :
    lines sm = lines s := by
  unfold Vi.lines; rw [h.ed]

/-! ### the motions -/

private theorem keyOK (k : Int) (h : k = 32 ∨ k = 8 ∨ k = 36 ∨ k = 48 ∨ k = 101 ∨ k = 119 ∨ k = 102 ∨ k = 116 ∨ k = 108 ∨ k = 104) :
    k ≠ 99 ∧ k ≠ 100 ∧ k ≠ 121 ∧ k ≠ 126 ∧ k ≠ 117 ∧ k ≠ 85 ∧ k ≠ 62 ∧ k ≠ 60 ∧ isLnKey 0 k = false := by
  rcases h with rfl | rfl | rfl | rfl | rfl | rfl | rfl | rfl | rfl | rfl <;> decide

/-- `SPC` with the count `c`: to `min (o + c) |body|` -/
theorem lands_spc (s s1 : VS) (a2 : Int) (body : List Nat) (o : Nat) (hk : Prefixed s a2 32 s1) (hrow : OnRow s body o) :
    Lands s s1 (setArg2 a2 s1) a2 32 32 body o (min (o + (opCount s a2).toNat) body.length) :=
  ⟨hk, keyOK 32 (by simp), viMotion_spc_row s s1 a2 body o hk hrow, by decide, hk.frame.ed, hk.frame.ybuf,
    hk.frame.xkmap, by omega⟩

/-- `BS` with the count `c`: to `o - c` -/
theorem lands_bs (s s1 : VS) (a2 : Int) (body : List Nat) (o : Nat) (hk : Prefixed s a2 8 s1) (hrow : OnRow s body o) :
    Lands s s1 (setArg2 a2 s1) a2 8 8 body o (o - (opCount s a2).toNat) :=
  ⟨hk, keyOK 8 (by simp), viMotion_bs_row s s1 a2 body o hk hrow, by decide, hk.frame.ed, hk.frame.ybuf,
    hk.frame.xkmap, by have := hrow.onChar; omega⟩

/-- `$`: to the newline -/
theorem lands_dollar (s s1 : VS) (a2 : Int) (body : List Nat) (o : Nat) (hk : Prefixed s a2 36 s1) (hrow : OnRow s body o) :
    Lands s s1 (setArg2 a2 s1) a2 36 36 body o body.length :=
  ⟨hk, keyOK 36 (by simp), viMotion_dollar_row s s1 a2 body o hk hrow, by decide, hk.frame.ed, hk.frame.ybuf,
    hk.frame.xkmap, by omega⟩

/-- `0`: to the first character -/
theorem lands_zero (s s1 : VS) (a2 : Int) (body : List Nat) (o : Nat) (hk : Prefixed s a2 48 s1) :
    Lands s s1 (setArg2 a2 s1) a2 48 48 body o 0 :=
  ⟨hk, keyOK 48 (by simp), viMotion_zero_row s s1 a2 o hk, by decide, hk.frame.ed, hk.frame.ybuf,
    hk.frame.xkmap, by omega⟩

/-- `e` with the count: to the reference target, when that is on the row -/
theorem lands_e (s s1 : VS) (a2 : Int) (body : List Nat) (o t : Nat) (hk : Prefixed s a2 101 s1) (hrow : OnRow s body o)
    (hu : Utf8Buf (lines s))
    (href : Motion.wordEndFwdRaw false (refBufU (lines s)) ⟨s.ed.xrow.toNat, o⟩ (opCount s a2).toNat = ⟨s.ed.xrow.toNat, t⟩) :
    Lands s s1 (setArg2 a2 s1) a2 101 101 body o t := by
  have hf := hk.frame
  have hl : lines (setArg2 a2 s1) = lines s := hf.lines
  obtain ⟨g1, g2⟩ := go_e_row (lines s) hu (opCount s a2).toNat s.ed.xrow o t body hrow.row0 hrow.line hrow.valid
    (by have := hrow.onChar; omega) href
  have hm : viMotion s.ed.xrow o (motionSt a2 s1 101) = Res.ok (101, s.ed.xrow, (t : Int)) (setArg2 a2 s1) := by
    rw [viMotion_e _ _ _ (setArg2 a2 s1) (viRead_motionSt a2 s1 101), cntOf_motionSt s s1 a2 101 hk.frame, hl, g1]
  exact ⟨hk, keyOK 101 (by simp), hm, by decide, hf.ed, hf.ybuf, hf.xkmap, g2⟩

/-- `w` with the count: to the reference target, when that is on the row -/
theorem lands_w (s s1 : VS) (a2 : Int) (body : List Nat) (o t : Nat) (hk : Prefixed s a2 119 s1) (hrow : OnRow s body o)
    (hu : Utf8Buf (lines s))
    (href : Motion.wordFwdRaw false (refBufU (lines s)) ⟨s.ed.xrow.toNat, o⟩ (opCount s a2).toNat = ⟨s.ed.xrow.toNat, t⟩) :
    Lands s s1 (setArg2 a2 s1) a2 119 119 body o t := by
  have hf := hk.frame
  have hl : lines (setArg2 a2 s1) = lines s := hf.lines
  obtain ⟨g1, g2⟩ := go_w_row (lines s) hu (opCount s a2).toNat s.ed.xrow o t body hrow.row0 hrow.line hrow.valid
    (by have := hrow.onChar; omega) href
  have hm : viMotion s.ed.xrow o (motionSt a2 s1 119) = Res.ok (119, s.ed.xrow, (t : Int)) (setArg2 a2 s1) := by
    rw [viMotion_w _ _ _ (setArg2 a2 s1) (viRead_motionSt a2 s1 119), cntOf_motionSt s s1 a2 119 hk.frame, hl, g1]
  exact ⟨hk, keyOK 119 (by simp), hm, by decide, hf.ed, hf.ybuf, hf.xkmap, g2⟩

/-- `l` with the count on a row displayed left to right: to `min (o + c) (|body| - 1)` -/
theorem lands_l (s s1 : VS) (a2 : Int) (body : List Nat) (o : Nat) (hk : Prefixed s a2 108 s1) (hrow : OnRow s body o)
    (hltr : LeftToRight s body) :
    Lands s s1 (setArg2 a2 s1) a2 108 108 body o (min (o + (opCount s a2).toNat) (body.length - 1)) :=
  ⟨hk, keyOK 108 (by simp), viMotion_l_row s s1 a2 body o hk hrow hltr, by decide, hk.frame.ed, hk.frame.ybuf,
    hk.frame.xkmap, by omega⟩

/-- `h` with the count on such a row: to `o - c` -/
theorem lands_h (s s1 : VS) (a2 : Int) (body : List Nat) (o : Nat) (hk : Prefixed s a2 104 s1) (hrow : OnRow s body o)
    (hltr : LeftToRight s body) :
    Lands s s1 (setArg2 a2 s1) a2 104 104 body o (o - (opCount s a2).toNat) :=
  ⟨hk, keyOK 104 (by simp), viMotion_h_row s s1 a2 body o hk hrow hltr, by decide, hk.frame.ed, hk.frame.ybuf,
    hk.frame.xkmap, by have := hrow.onChar; omega⟩

/-- what reading the character of `f` / `t` leaves alone -/
theorem reads_false_frame {used : Bytes} {s s2 : VS} (h : Reads false used s s2) :
    s2.ed = s.ed ∧ s2.ybuf = s.ybuf ∧ s2.xkmap = s.xkmap ∧ s2.arg1 = s.arg1 ∧ s2.arg2 = s.arg2 := by
  obtain ⟨ib, ip, ty, xl, rfl, hx⟩ := h
  have := hx rfl
  subst this
  exact ⟨rfl, rfl, rfl, rfl, rfl⟩

/-- `f c` with the count: to the `n`-th `c` to the right of the cursor, when there is one -/
theorem lands_f (s s1 : VS) (a2 : Int) (body : List Nat) (o c : Nat) (rest : Bytes) (hk : Prefixed s a2 102 s1)
    (hrow : OnRow s body o) (ha : 0 ≤ s.arg1) (hc : ValidCp c ∧ 32 ≤ c ∧ c ≠ 127)
    (hp : pending s1 = enc c ++ rest) (hkm : s1.xkmap = 0) :
    ∃ s2, Reads false (enc c) (setArg2 a2 s1) s2 ∧ pending s2 = rest ∧
      ∀ t, Motion.findChar body o c true false (opCount s a2).toNat = some t →
        o ≤ t ∧ t < body.length ∧ Lands s s1 { s2 with charlast := enc c, charcmd := 102 } a2 102 102 body o t := by
  have hf := hk.frame
  obtain ⟨s2, h1, h2, hm⟩ := viMotion_f_row s s1 a2 body o c rest hk hrow ha hc hp hkm
  obtain ⟨e1, e2, e3, _, _⟩ := reads_false_frame h1
  refine ⟨s2, h1, h2, ?_⟩
  intro t ht
  obtain ⟨b1, b2, _⟩ := findChar_fwd_bounds body o c _ t false ht
  rw [ht] at hm
  exact ⟨b1, b2, hk, keyOK 102 (by simp), hm, by decide, e1.trans hf.ed, e2.trans hf.ybuf, e3.trans hf.xkmap, by omega⟩

/-- `t c` with the count: to the character before that `c` -/
theorem lands_t (s s1 : VS) (a2 : Int) (body : List Nat) (o c : Nat) (rest : Bytes) (hk : Prefixed s a2 116 s1)
    (hrow : OnRow s body o) (ha : 0 ≤ s.arg1) (hc : ValidCp c ∧ 32 ≤ c ∧ c ≠ 127)
    (hp : pending s1 = enc c ++ rest) (hkm : s1.xkmap = 0) :
    ∃ s2, Reads false (enc c) (setArg2 a2 s1) s2 ∧ pending s2 = rest ∧
      ∀ t, Motion.findChar body o c true true (opCount s a2).toNat = some t →
        o ≤ t ∧ t < body.length ∧ Lands s s1 { s2 with charlast := enc c, charcmd := 116 } a2 116 116 body o t := by
  have hf := hk.frame
  obtain ⟨s2, h1, h2, hm⟩ := viMotion_t_row s s1 a2 body o c rest hk hrow ha hc hp hkm
  obtain ⟨e1, e2, e3, _, _⟩ := reads_false_frame h1
  refine ⟨s2, h1, h2, ?_⟩
  intro t ht
  obtain ⟨b1, b2, _⟩ := findChar_fwd_bounds body o c _ t true ht
  rw [ht] at hm
  exact ⟨b1, b2, hk, keyOK 116 (by simp), hm, by decide, e1.trans hf.ed, e2.trans hf.ybuf, e3.trans hf.xkmap, by omega⟩

/-! ### `readMotion` and `opRegion` for a motion that lands on the row -/

/-- the span `[a, b)` of the motion: `a ≤ b ≤ |body|` -/
theorem span_bounds (incl : Bool) (o t len : Nat) (ho : o < len) (ht : t ≤ len) :
    (span incl o t len).1 ≤ (span incl o t len).2 ∧ (span incl o t len).2 ≤ len := by
  unfold span
  simp only []
  split
  · rename_i h
    simp only [Bool.and_eq_true, decide_eq_true_eq] at h
    omega
  · omega

/-- `vc_motion cmd` is the operator applied to the span, in the state the motion left -/
theorem vcMotion_lands (cmd : Nat) (hc : cmd = 99 ∨ cmd = 100 ∨ cmd = 121 ∨ cmd = 126 ∨ cmd = 117 ∨ cmd = 85 ∨ cmd = 62 ∨ cmd = 60)
    (s s1 sm : VS) (a2 k mv : Int) (body : List Nat) (o t : Nat) (hrow : OnRow s body o)
    (hl : Lands s s1 sm a2 k mv body o t) :
    vcMotion cmd s = applyOp cmd s.ed.xrow (((span (inclusive sm mv) o t body.length).1 : Nat) : Int) s.ed.xrow
      (((span (inclusive sm mv) o t body.length).2 : Nat) : Int) false sm := by
  obtain ⟨sp, e, hk', hf⟩ := vcMotion_prefixed cmd s s1 a2 k hl.pre
  rw [e, hrow.noeol]
  have hrm : readMotion cmd s.ed.xrow o (setArg2 a2 sp) = Res.ok (some (mv, s.ed.xrow, (t : Int))) sm :=
    readMotion_char cmd _ _ _ (setArg2 a2 s1) sm k mv _ _ hk' (hl.notLn cmd hc) hl.motion (by have := hl.pos; omega)
  rw [vcCore_apply, hrm]
  simp only []
  rw [if_neg (by have := hl.pos; omega),
    opRegion_span sm mv s.ed.xrow body o t hrow.row0 hrow.valid hrow.no10 (by rw [hl.lines]; exact hrow.line)
      hrow.onChar hl.le]

/-! ### the change operator on one row -/

/-- `RowChanged K s sm s' r body cs a b`: the characters `[a, b)` of the row `r` (line `body`) were replaced
by the typed text `cs`: the line is `body.take a ++ cs ++ body.drop b`, the register named by the prefix
received `body[a, b)` in character mode, the cursor is on the last typed character, and apart from the
editor record the state is `sm` (the state after the motion) with the keys `K` of the insertion read -/
structure RowChanged (K : Bytes) (s sm s' : VS) (r : Int) (body cs : List Nat) (a b : Nat) : Prop where
  lines : lines s' = (lines s).take r.toNat ++ [encStr (body.take a ++ cs ++ body.drop b ++ [10])] ++ (lines s).drop (r.toNat + 1)
  regs : s'.ed.regs = s.ed.regs.put s.ybuf (encStr ((body.take b).drop a)) 0
  xrow : s'.ed.xrow = r
  xoff : s'.ed.xoff = (a : Int) + cs.length - 1
  frame : ReadsEd K sm s'

/-- **generic**: `c` with a motion that lands on `(r, t)`, then the keys `K` that type `cs` and leave insert
mode: the reference span of the motion is replaced by `cs` -/
theorem row_change (s s1 sm : VS) (a2 k mv : Int) (body cs : List Nat) (o t : Nat) (K rest : Bytes)
    (hrow : OnRow s body o) (hl : Lands s s1 sm a2 k mv body o t)
    (hin : Inputs K cs) (hp : pending sm = K ++ rest) (hpl : ∀ c ∈ cs, ValidCp c) (h10 : 10 ∉ cs)
    (hne : cs.head? ≠ none ∧ cs.head? ≠ some 32 ∧ cs.head? ≠ some 9) (hkm : s.xkmap = 0) :
    ∃ s', vcMotion 99 s = Res.ok VC_OK s' ∧ pending s' = rest ∧
      RowChanged K s sm s' s.ed.xrow body cs (span (inclusive sm mv) o t body.length).1
        (span (inclusive sm mv) o t body.length).2 := by
  rw [vcMotion_lands 99 (by simp) s s1 sm a2 k mv body o t hrow hl]
  have hsp := span_bounds (inclusive sm mv) o t body.length hrow.onChar hl.le
  have hap : ∀ a b : Int, applyOp 99 s.ed.xrow a s.ed.xrow b false = viChange s.ed.xrow a s.ed.xrow b false := fun _ _ => rfl
  rw [hap]
  have hls : lines sm = lines s := hl.lines
  obtain ⟨s', e1, e2, e3, e4⟩ := Props.C08b.viChange_char_spec sm s.ed.xrow body cs _ _ K rest hrow.row0
    (by rw [hls]; exact hrow.line) hrow.valid hrow.no10 hsp.1 hsp.2 hin hp hpl h10 hne (by rw [hl.xkmap]; exact hkm)
  refine ⟨s', e1, e2, ?_, ?_, e4.xrow, e4.xoff, e4.frame.of_ed ⟨_, rfl⟩⟩
  · rw [e4.lines]
    show (lines sm).take _ ++ _ ++ (lines sm).drop _ = _
    rw [hls]
    simp only [List.append_assoc]
  · rw [e3, hl.ed, hl.ybuf]

end Neatvi.Lemmas.C08g
