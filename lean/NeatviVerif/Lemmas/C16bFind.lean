import NeatviVerif.Lemmas.C16bUtf8
/-!
# C16b, part 2: `rset_find` / `rstr_find` report offsets on character boundaries (the regex engine path)
-/
namespace Neatvi.Props.C16b
open Neatvi Neatvi.Uc Neatvi.Spec Neatvi.Regex Neatvi.Rset Neatvi.Ex Neatvi.Props.C11b Neatvi.Props.C14

theorem offB_pair_getD {cs : List Nat} {subs : List (Int × Int)}
    (h : ∀ so eo, (so, eo) ∈ subs → OffB cs so ∧ OffB cs eo) (k : Nat) :
    OffB cs (subs.getD k (-1, -1)).1 ∧ OffB cs (subs.getD k (-1, -1)).2 := by
  rw [List.getD_eq_getElem?_getD]
  cases hk : subs[k]? with
  | none => exact ⟨Or.inl rfl, Or.inl rfl⟩
  | some p =>
    obtain ⟨so, eo⟩ := p
    exact h so eo (List.mem_of_getElem? hk)

/-- every offset `rset_find` writes is `-1` or a character boundary, when the program was compiled from
    a valid UTF-8 pattern and the subject is valid UTF-8 -/
theorem find_offs_boundary (r : RSet) (ps cs : List Nat) (hvp : Valid ps) (hvs : Valid cs) (cflg : Nat)
    (hc : regcomp (encStr ps) cflg = some (some r.prog)) (n flg nd ngrps : Nat) (res : Int)
    (offs : List Int) (c : Nat) (h : Rset.find r (encStr cs) n flg nd ngrps = some (res, offs, c)) :
    ∀ x ∈ offs, OffB cs x := by
  unfold Rset.find at h
  split at h
  · cases h; intro x hx; cases hx
  · dsimp only at h
    split at h
    · cases h
    · cases h; intro x hx; cases hx
    · rename_i m c' subs hex
      split at h
      · cases h; intro x hx; cases hx
      · simp only [Option.some.injEq, Prod.mk.injEq] at h
        obtain ⟨_, ho, _⟩ := h
        have hb := (offsets_on_boundaries ps cs hvp hvs cflg _ _ nd ngrps r.prog hc m c' subs hex).2
        subst ho
        intro x hx
        simp only [List.mem_flatMap, List.mem_range] at hx
        obtain ⟨i, _, hi⟩ := hx
        split at hi
        · have := offB_pair_getD hb
          simp only [List.mem_cons, List.not_mem_nil, or_false] at hi
          rcases hi with rfl | rfl
          · exact (this _).1
          · exact (this _).2
        · simp only [List.mem_cons, List.not_mem_nil, or_false, or_self] at hi
          exact Or.inl hi

theorem offBd_getD_neg {s : Bytes} {offs : List Int} (h : ∀ x ∈ offs, OffBd s x) (i : Nat) :
    OffBd s (offs.getD i (-1)) := by
  rw [List.getD_eq_getElem?_getD]
  cases hi : offs[i]? with
  | none => exact Or.inl rfl
  | some x => exact h x (List.mem_of_getElem? hi)

theorem isBd_getD_toNat {s : Bytes} {offs : List Int} (hs : IsU8 s) (h : ∀ x ∈ offs, OffBd s x) (i : Nat) :
    IsBd s (offs.getD i 0).toNat := by
  rw [List.getD_eq_getElem?_getD]
  cases hi : offs[i]? with
  | none => exact isBd_zero hs
  | some x => exact isBd_toNat hs (h x (List.mem_of_getElem? hi))

/-- what `rsFind` hands to the scan, in terms of `rstr_find` -/
theorem rsFind_some {re : RStr} {s : Bytes} {nb : Bool} {so eo : Nat} {offs : List Int}
    (h : rsFind re s nb = some (some (so, eo, offs))) :
    ∃ res c, rstrFind re s 16 (if nb then RE_NOTBOL else 0) ND NG = some (res, offs, c) ∧ 0 ≤ res ∧
      so = (offs.getD 0 0).toNat ∧ eo = (offs.getD 1 0).toNat := by
  unfold rsFind at h
  split at h
  · cases h
  · rename_i res offs' c hr
    split at h
    · cases h
    · rename_i hres
      simp only [Option.some.injEq, Prod.mk.injEq] at h
      obtain ⟨h1, h2, h3⟩ := h
      subst h3
      exact ⟨res, c, hr, by omega, h1.symm, h2.symm⟩

/-- a matcher all of whose reported offsets are `-1` or boundaries is boundary-respecting in the sense
    of the scan — for every replacement -/
theorem boundary_of_offs {re : RStr} {s : Bytes} {nb : Bool} {so eo : Nat} {offs : List Int} (hs : IsU8 s)
    (h : rsFind re s nb = some (some (so, eo, offs))) (ho : ∀ x ∈ offs, OffBd s x) :
    IsBd s so ∧ IsBd s eo ∧ ∀ d : Nat, OffBd s (grpSo offs d) ∧ OffBd s (grpEo offs d) := by
  obtain ⟨res, c, _, _, rfl, rfl⟩ := rsFind_some h
  exact ⟨isBd_getD_toNat hs ho 0, isBd_getD_toNat hs ho 1,
    fun d => ⟨offBd_getD_neg ho _, offBd_getD_neg ho _⟩⟩

/-- **the regex engine path**: when `rstr_find` runs the compiled program of a valid UTF-8 pattern, every
    offset it writes for a valid subject is `-1` or a character boundary -/
theorem rsFind_rs_offs (re : RStr) (r : RSet) (hrs : re.rs = some r) (ps : List Nat) (hvp : Valid ps)
    (cflg : Nat) (hc : regcomp (encStr ps) cflg = some (some r.prog)) {s : Bytes} {nb : Bool} {so eo : Nat}
    {offs : List Int} (hs : IsU8 s) (h : rsFind re s nb = some (some (so, eo, offs))) :
    ∀ x ∈ offs, OffBd s x := by
  obtain ⟨res, c, hr, _, _, _⟩ := rsFind_some h
  obtain ⟨cs, hv, rfl⟩ := hs
  unfold rstrFind at hr
  simp only [hrs] at hr
  intro x hx
  exact offBd_of_offB hv (find_offs_boundary r ps cs hvp hv cflg hc _ _ _ _ res offs c hr x hx)

/-- the text `rset_make` compiles for the single pattern `p`: `((p))` -/
theorem combined_single (p : Bytes) : combined [some p] = [40, 40] ++ p ++ [41, 41] := by
  simp [combined]

theorem combined_single_enc (ps : List Nat) :
    combined [some (encStr ps)] = encStr ([40, 40] ++ ps ++ [41, 41]) := by
  rw [combined_single, encStr_append, encStr_append]
  rfl

theorem valid_combined {ps : List Nat} (h : Valid ps) : Valid ([40, 40] ++ ps ++ [41, 41]) :=
  valid_append.mpr ⟨valid_append.mpr ⟨by decide, h⟩, by decide⟩

/-- what `rstr_make` returns: the literal fast path, or the program compiled from `((pat))` -/
theorem rstrMake_cases {pat : Bytes} {flg : Nat} {re : RStr} (h : rstrMake pat flg = some (some re)) :
    (re.rs = none ∧ ∃ lbeg wbeg wend lend lit, simple pat = some (lbeg, wbeg, wend, lend, lit) ∧
        re.str = some lit ∧ re.lbeg = lbeg ∧ re.lend = lend ∧ re.wbeg = wbeg ∧ re.wend = wend) ∨
    (∃ r cflg, re.rs = some r ∧ regcomp (combined [some pat]) cflg = some (some r.prog)) := by
  unfold rstrMake at h
  dsimp only at h
  split at h
  · rename_i lbeg wbeg wend lend lit hsim
    simp only [Option.some.injEq] at h
    subst h
    exact Or.inl ⟨rfl, lbeg, wbeg, wend, lend, lit, hsim, rfl, rfl, rfl, rfl, rfl⟩
  · split at h
    · cases h
    · cases h
    · rename_i r hm
      simp only [Option.some.injEq] at h
      subst h
      right
      unfold make at hm
      dsimp only at hm
      split at hm
      · cases hm
      · cases hm
      · rename_i p hp
        simp only [Option.some.injEq] at hm
        subst hm
        exact ⟨_, _, rfl, hp⟩

end Neatvi.Props.C16b
