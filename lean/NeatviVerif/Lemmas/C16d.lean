import NeatviVerif.Lemmas.C09KeyEq
import NeatviVerif.Lemmas.C16bUtf8
/-!
# C16d helper lemmas: `led_readkey()` on the pending key stream, and the register `;`

* `readKey` (= `led_readkey()`, the argument reader of ^K and ^R): what it does to the pending stream,
  the queue invariant, the `icmd` bound — each from the corresponding fact about `termRead` by induction
  on the `more` loop.
* the text up to the newline of a valid UTF-8 line is valid UTF-8 (`isU8_takeWhile_nl`).
-/
namespace Neatvi.Lemmas.C16d
open Neatvi Neatvi.Uc Neatvi.Vi Neatvi.Ex Neatvi.Spec Neatvi.Lemmas.C09
open Neatvi.Props.C11b Neatvi.Props.C16b

/-! ### the frame of the key readers: only the queue and `icmd` change -/

/-- `s'` is `s` up to the key queue (`ibuf`, `ibufPos`, `typed`) and the recording `icmd` -/
def QFrame (s s' : VS) : Prop :=
  { s' with ibuf := s.ibuf, ibufPos := s.ibufPos, typed := s.typed, icmd := s.icmd } = s

theorem QFrame.refl (s : VS) : QFrame s s := rfl

theorem QFrame.trans {s t u : VS} (h1 : QFrame s t) (h2 : QFrame t u) : QFrame s u := by
  unfold QFrame at *
  rw [← h1, ← h2]

theorem QFrame.ed {s s' : VS} (h : QFrame s s') : s'.ed = s.ed := by
  have := congrArg VS.ed h
  exact this

/-- the `icmd` after reading the keys `ks` -/
def icmdAfterAll (ic : Bytes) (ks : Bytes) : Bytes := ks.foldl icmdAfter ic

theorem icmdAfter_bounded (ic : Bytes) (k : Nat) (h : ic.length ≤ 4096) : (icmdAfter ic k).length ≤ 4096 := by
  unfold icmdAfter
  split
  · simp only [List.length_append, List.length_singleton]; omega
  · exact h

/-! ### decomposition of a successful `readKey` -/

theorem readKey_more_zero (s : VS) : readKey.more 0 s = Res.ok () s := rfl

theorem readKey_more_succ (k : Nat) (s : VS) :
    readKey.more (k + 1) s = match termRead s with
      | Res.ok _ s' => readKey.more k s'
      | Res.eof => Res.eof
      | Res.trap => Res.trap := by
  rw [readKey.more, bind_apply]
  cases termRead s <;> rfl

theorem readKey_eq (s : VS) :
    readKey s = match termRead s with
      | Res.ok c s1 =>
        if c ≥ 192 then
          (match readKey.more (ucLen c.toNat - 1) s1 with
          | Res.ok _ s' => Res.ok c s'
          | Res.eof => Res.eof
          | Res.trap => Res.trap)
        else Res.ok c s1
      | Res.eof => Res.eof
      | Res.trap => Res.trap := by
  show (termRead >>= _) s = _
  rw [bind_apply]
  cases termRead s with
  | ok c s1 =>
    simp only []
    split
    · rw [bind_apply]
      cases readKey.more (ucLen c.toNat - 1) s1 <;> rfl
    · rfl
  | eof => rfl
  | trap => rfl

/-- a successful `readKey` is a successful `termRead`, followed — for a lead byte — by the `more` loop -/
theorem readKey_ok (s s' : VS) (c : Int) (h : readKey s = Res.ok c s') :
    ∃ s1, termRead s = Res.ok c s1 ∧
      ((c ≥ 192 ∧ readKey.more (ucLen c.toNat - 1) s1 = Res.ok () s') ∨ (¬ c ≥ 192 ∧ s' = s1)) := by
  rw [readKey_eq] at h
  cases ht : termRead s with
  | ok c1 s1 =>
    rw [ht] at h
    simp only [] at h
    split at h
    · rename_i hc
      cases hm : readKey.more (ucLen c1.toNat - 1) s1 with
      | ok u s2 =>
        rw [hm] at h
        cases h
        exact ⟨s1, rfl, Or.inl ⟨hc, hm⟩⟩
      | eof => rw [hm] at h; cases h
      | trap => rw [hm] at h; cases h
    · rename_i hc
      cases h
      exact ⟨_, rfl, Or.inr ⟨hc, rfl⟩⟩
  | eof => rw [ht] at h; cases h
  | trap => rw [ht] at h; cases h

/-- an invariant of `termRead` is an invariant of the `more` loop … -/
theorem readKey_more_inv (P : VS → Prop) (hP : ∀ s s' c, termRead s = Res.ok c s' → P s → P s') :
    ∀ (k : Nat) (s s' : VS), readKey.more k s = Res.ok () s' → P s → P s' := by
  intro k
  induction k with
  | zero => intro s s' h hp; cases h; exact hp
  | succ k ih =>
    intro s s' h hp
    rw [readKey_more_succ] at h
    cases ht : termRead s with
    | ok c s1 => rw [ht] at h; exact ih s1 s' h (hP s s1 c ht hp)
    | eof => rw [ht] at h; cases h
    | trap => rw [ht] at h; cases h

/-- … and of `readKey` -/
theorem readKey_inv (P : VS → Prop) (hP : ∀ s s' c, termRead s = Res.ok c s' → P s → P s')
    (s s' : VS) (c : Int) (h : readKey s = Res.ok c s') (hp : P s) : P s' := by
  obtain ⟨s1, h1, ⟨-, hm⟩ | ⟨-, rfl⟩⟩ := readKey_ok s s' c h
  · exact readKey_more_inv P hP _ s1 s' hm (hP s s1 c h1 hp)
  · exact hP s s' c h1 hp

theorem readKey_ne_trap (s : VS) : readKey s ≠ Res.trap := by
  have hm : ∀ (k : Nat) (s : VS), readKey.more k s ≠ Res.trap := by
    intro k
    induction k with
    | zero => intro s h; cases h
    | succ k ih =>
      intro s
      rw [readKey_more_succ]
      cases ht : termRead s with
      | ok c s1 => exact ih s1
      | eof => intro h; cases h
      | trap => exact absurd ht (termRead_ne_trap s)
  rw [readKey_eq]
  cases ht : termRead s with
  | ok c s1 =>
    simp only []
    split
    · cases hm' : readKey.more (ucLen c.toNat - 1) s1 with
      | ok u s2 => intro h; cases h
      | eof => intro h; cases h
      | trap => exact absurd hm' (hm _ s1)
    · intro h; cases h
  | eof => intro h; cases h
  | trap => exact absurd ht (termRead_ne_trap s)

/-! ### the queue invariant and the `icmd` bound -/

theorem qwf_termRead (s s' : VS) (c : Int) (h : termRead s = Res.ok c s') : QWf s' := by
  obtain ⟨k, rest, hp, -, -⟩ := termRead_key s s' c h
  obtain ⟨s1, h1, -, h3, -⟩ := termRead_pending s k rest hp
  rw [h1] at h
  injection h with _ hs
  exact hs ▸ h3

/-- `led_readkey()` establishes the queue invariant `ibuf_pos ≤ ibuf_cnt`, as `term_read()` does -/
theorem qwf_readKey (s s' : VS) (c : Int) (h : readKey s = Res.ok c s') : QWf s' := by
  obtain ⟨s1, h1, ⟨-, hm⟩ | ⟨-, rfl⟩⟩ := readKey_ok s s' c h
  · exact readKey_more_inv QWf (fun s s' c h _ => qwf_termRead s s' c h) _ s1 s' hm (qwf_termRead s s1 c h1)
  · exact qwf_termRead s s' c h1

theorem icmd_bounded_termRead (s s' : VS) (c : Int) (h : termRead s = Res.ok c s')
    (hb : s.icmd.length ≤ 4096) : s'.icmd.length ≤ 4096 := by
  cases hp : pending s with
  | nil => rw [termRead_eof s hp] at h; cases h
  | cons k rest =>
    obtain ⟨ib, ip, ty, h1, -⟩ := termRead_ok s k rest hp
    rw [h1] at h
    injection h with _ hs
    subst hs
    exact icmdAfter_bounded _ _ hb

/-- reading a whole character never grows the recording buffer beyond its 4096 bytes -/
theorem icmd_bounded_readKey (s s' : VS) (c : Int) (h : readKey s = Res.ok c s')
    (hb : s.icmd.length ≤ 4096) : s'.icmd.length ≤ 4096 :=
  readKey_inv (fun s => s.icmd.length ≤ 4096) icmd_bounded_termRead s s' c h hb

/-- the input buffer is not grown by reading: a bound of `ibuf` that is at least 1 is kept -/
theorem ibuf_bounded_termRead (n : Nat) (hn : 1 ≤ n) (s s' : VS) (c : Int) (h : termRead s = Res.ok c s')
    (hb : s.ibuf.length ≤ n) : s'.ibuf.length ≤ n := by
  cases hp : pending s with
  | nil => rw [termRead_eof s hp] at h; cases h
  | cons k rest =>
    obtain ⟨ib, ip, ty, h1, -, -, h4, h5⟩ := termRead_ok s k rest hp
    rw [h1] at h
    injection h with _ hs
    subst hs
    show ib.length ≤ n
    by_cases hlt : s.ibufPos < s.ibuf.length
    · rw [(h4 hlt).1]; exact hb
    · rw [(h5 (by omega)).1]; exact hn

theorem ibuf_bounded_readKey (s s' : VS) (c : Int) (h : readKey s = Res.ok c s')
    (hb : s.ibuf.length ≤ 4096) : s'.ibuf.length ≤ 4096 :=
  readKey_inv (fun s => s.ibuf.length ≤ 4096) (ibuf_bounded_termRead 4096 (by decide)) s s' c h hb

/-! ### `readKey` on the pending stream -/

theorem termRead_step (s : VS) (k : Nat) (rest : Bytes) (h : pending s = k :: rest) :
    ∃ s', termRead s = Res.ok (k : Int) s' ∧ pending s' = rest ∧ QWf s' ∧
      s'.icmd = icmdAfter s.icmd k ∧ QFrame s s' := by
  obtain ⟨s', h1, h2, h3, h4, h5⟩ := termRead_pending s k rest h
  exact ⟨s', h1, h2, h3, h4, h5⟩

/-- the `more` loop drops exactly `k` pending keys -/
theorem readKey_more_pending : ∀ (k : Nat) (s : VS) (xs rest : Bytes), xs.length = k → QWf s →
    pending s = xs ++ rest →
    ∃ s', readKey.more k s = Res.ok () s' ∧ pending s' = rest ∧ QWf s' ∧
      s'.icmd = icmdAfterAll s.icmd xs ∧ QFrame s s' := by
  intro k
  induction k with
  | zero =>
    intro s xs rest hl hq hp
    have : xs = [] := List.eq_nil_of_length_eq_zero hl
    subst this
    exact ⟨s, rfl, hp, hq, rfl, QFrame.refl s⟩
  | succ k ih =>
    intro s xs rest hl hq hp
    cases xs with
    | nil => cases hl
    | cons x xs =>
      obtain ⟨s1, h1, h2, h3, h4, h5⟩ := termRead_step s x (xs ++ rest) hp
      obtain ⟨s2, g1, g2, g3, g4, g5⟩ := ih s1 xs rest (by simpa using hl) h3 h2
      refine ⟨s2, ?_, g2, g3, ?_, h5.trans g5⟩
      · rw [readKey_more_succ, h1]; exact g1
      · rw [g4, h4]; rfl

/-- the `more` loop on a stream that ends too early: end of input (the C code then sees `term_read()`
return -1 for every missing byte) -/
theorem readKey_more_short : ∀ (k : Nat) (s : VS), (pending s).length < k → readKey.more k s = Res.eof := by
  intro k
  induction k with
  | zero => intro s h; omega
  | succ k ih =>
    intro s h
    rw [readKey_more_succ]
    cases hp : pending s with
    | nil => rw [termRead_eof s hp]
    | cons x r =>
      obtain ⟨s1, h1, h2, -⟩ := termRead_step s x r hp
      rw [h1]
      exact ih s1 (by rw [h2]; rw [hp] at h; simpa using h)

/-- a key below 192 (ASCII, or a stray continuation byte): `readKey` is `termRead` -/
theorem readKey_single (s : VS) (k : Nat) (rest : Bytes) (hk : k < 192) (h : pending s = k :: rest) :
    readKey s = termRead s := by
  obtain ⟨s1, h1, -⟩ := termRead_step s k rest h
  rw [readKey_eq, h1]
  simp only []
  rw [if_neg (by omega)]

theorem readKey_eof (s : VS) (h : pending s = []) : readKey s = Res.eof := by
  rw [readKey_eq, termRead_eof s h]

/-- **`led_readkey()` reads the whole character**: a lead byte `c ≥ 192` followed in the pending stream
by the `ucLen c − 1` further bytes `conts` of its character is returned as the key, and all of
`c :: conts` is consumed -/
theorem readKey_lead (s : VS) (c : Nat) (conts rest : Bytes) (hc : 192 ≤ c)
    (hl : conts.length = ucLen c - 1) (h : pending s = c :: (conts ++ rest)) :
    ∃ s', readKey s = Res.ok (c : Int) s' ∧ pending s' = rest ∧ QWf s' ∧
      s'.icmd = icmdAfterAll s.icmd (c :: conts) ∧ QFrame s s' := by
  obtain ⟨s1, h1, h2, h3, h4, h5⟩ := termRead_step s c (conts ++ rest) h
  obtain ⟨s2, g1, g2, g3, g4, g5⟩ := readKey_more_pending (ucLen c - 1) s1 conts rest hl h3 h2
  refine ⟨s2, ?_, g2, g3, ?_, h5.trans g5⟩
  · rw [readKey_eq, h1]
    simp only []
    rw [if_pos (by omega), Int.toNat_natCast, g1]
  · rw [g4, h4]; rfl

/-- the character is cut short by the end of the input: end of input -/
theorem readKey_lead_short (s : VS) (c : Nat) (rest : Bytes) (hc : 192 ≤ c)
    (hl : rest.length < ucLen c - 1) (h : pending s = c :: rest) : readKey s = Res.eof := by
  obtain ⟨s1, h1, h2, -⟩ := termRead_step s c rest h
  rw [readKey_eq, h1]
  simp only []
  rw [if_pos (by omega), Int.toNat_natCast, readKey_more_short _ s1 (by rw [h2]; exact hl)]

/-- whatever `readKey` returns is the head of the pending stream, and what is pending afterwards is a
suffix of what was pending behind it -/
theorem readKey_key (s s' : VS) (c : Int) (h : readKey s = Res.ok c s') :
    ∃ k rest, pending s = k :: rest ∧ c = (k : Int) ∧
      pending s' = rest.drop (if 192 ≤ k then ucLen k - 1 else 0) ∧
      (if 192 ≤ k then ucLen k - 1 else 0) ≤ rest.length := by
  cases hp : pending s with
  | nil => rw [readKey_eof s hp] at h; cases h
  | cons k rest =>
    refine ⟨k, rest, rfl, ?_⟩
    by_cases hk : 192 ≤ k
    · rw [if_pos hk]
      by_cases hl : rest.length < ucLen k - 1
      · rw [readKey_lead_short s k rest hk hl hp] at h; cases h
      · have hsplit : rest = rest.take (ucLen k - 1) ++ rest.drop (ucLen k - 1) := (List.take_append_drop _ _).symm
        obtain ⟨s2, g1, g2, -⟩ := readKey_lead s k (rest.take (ucLen k - 1)) (rest.drop (ucLen k - 1)) hk
          (by rw [List.length_take]; omega) (by rw [← hsplit]; exact hp)
        rw [g1] at h
        injection h with e1 e2
        subst e2
        exact ⟨e1.symm, g2, by omega⟩
    · rw [if_neg hk]
      obtain ⟨s1, h1, h2, -⟩ := termRead_step s k rest hp
      rw [readKey_single s k rest (by omega) hp, h1] at h
      injection h with e1 e2
      subst e2
      exact ⟨e1.symm, by simpa using h2, Nat.zero_le _⟩

/-! ### the register `;` -/

theorem regGet_line (ed : Ed) : regGet ed 59 = some (((ed.line ed.xrow).getD []).takeWhile (· != 10)) := rfl

theorem enc_ten : enc 10 = [10] := by decide

/-- no byte of the encoding of a code point other than the newline is the newline -/
theorem enc_no_nl {c : Nat} (hc : c ≠ 10) : ∀ x ∈ enc c, x ≠ 10 := by
  intro x hx
  unfold enc at hx
  split at hx
  · simp only [List.mem_cons, List.not_mem_nil, or_false] at hx; omega
  · split at hx
    · simp only [List.mem_cons, List.not_mem_nil, or_false] at hx; omega
    · split at hx
      · simp only [List.mem_cons, List.not_mem_nil, or_false] at hx; omega
      · simp only [List.mem_cons, List.not_mem_nil, or_false] at hx; omega

theorem takeWhile_append_of_all {α : Type} (p : α → Bool) (a b : List α) (h : ∀ x ∈ a, p x = true) :
    (a ++ b).takeWhile p = a ++ b.takeWhile p := by
  induction a with
  | nil => rfl
  | cons x a ih =>
    have hx : p x = true := h x (List.mem_cons_self ..)
    rw [List.cons_append, List.takeWhile_cons, if_pos hx, ih (fun y hy => h y (List.mem_cons_of_mem _ hy))]
    rfl

/-- cutting the bytes at the first newline is cutting the code points at the first newline -/
theorem encStr_takeWhile_nl (cs : List Nat) :
    (encStr cs).takeWhile (· != 10) = encStr (cs.takeWhile (· != 10)) := by
  induction cs with
  | nil => rfl
  | cons c cs ih =>
    rw [encStr_cons]
    by_cases hc : c = 10
    · subst hc
      rw [enc_ten]
      rfl
    · have h1 : (c != 10) = true := by simpa using hc
      rw [List.takeWhile_cons, if_pos h1, encStr_cons,
        takeWhile_append_of_all _ _ _ (fun x hx => by simpa using enc_no_nl hc x hx), ih]

/-- the text of a valid UTF-8 line up to its newline is valid UTF-8 -/
theorem isU8_takeWhile_nl {s : Bytes} (h : IsU8 s) : IsU8 (s.takeWhile (· != 10)) := by
  obtain ⟨cs, hv, rfl⟩ := h
  rw [encStr_takeWhile_nl]
  exact ⟨_, fun c hc => hv c ((List.takeWhile_sublist _).subset hc), rfl⟩

end Neatvi.Lemmas.C16d
