import NeatviVerif.Lemmas.C09cIter
/-!
# C09c, part 13: the iteration that executes `.`, as a function of the state

`dotState s rest`: the state after the iteration that executes a `.` typed at the terminal (no count, nothing pushed
unread).  Compared with the state before it: the recorded keys are pushed; `arg1`, `arg2`, `ybuf`, `icmd` are those of
the `.` command; in `ed` the mark `^` is set, `vi_wfix()` and the horizontal scroll have run, the pending output is
dropped, and `lbuf_modified()` has run twice.  `dot_sim`: that state, with the pushed keys typed instead, is related
(`Sim true`: up to the sequence numbers and the mark `^`) to the state before the `.` with the recorded keys typed
— when `vi_wfix()` had nothing to fix, nothing is waiting to be printed, and the sequence numbers of the current buffer
lie *strictly* below its counter.
-/
namespace Neatvi.Lemmas.C09c
open Neatvi Neatvi.Uc Neatvi.Lbuf Neatvi.Ex Neatvi.Vi Neatvi.Mot
open Neatvi.Lemmas.C09 (bind_apply pure_apply pending cnt1 pushN_room)
open Neatvi.Lemmas.C09b (Inv marked afterKey viPre_cmdkey dot_step_eq retype marked_ed_fields marked_lb max10)
open Neatvi.Props.C05c (iterate)

/-- `vi_wfix()` as a function of the state -/
def wfixEd (X : VS) : Ed :=
  let n := lenOf X
  let xrow := if X.ed.xrow < 0 || X.ed.xrow ≥ n then (if n != 0 then n - 1 else 0) else X.ed.xrow
  let xrows := X.xrows
  let xtop := X.ed.xtop
  let xtop := if xtop > xrow then (if xtop - xrows / 2 > xrow then max 0 (xrow - xrows / 2) else xrow) else xtop
  let xtop := if xtop + xrows ≤ xrow then (if xtop + xrows + xrows / 2 ≤ xrow then xrow - xrows / 2 else xrow - xrows + 1) else xtop
  let e1 : Ed := { X.ed with xrow := xrow, xtop := xtop }
  { e1 with xoff := match lineOf { X with ed := e1 } xrow with
      | some l => Ren.renNoeol l e1.xoff | none => Ren.renNoeol [] e1.xoff }

theorem viWfix_eq (X : VS) : viWfix X = Res.ok () { X with ed := wfixEd X } := rfl

/-- the horizontal scroll at the end of an iteration -/
def leftEd (xcol xcols : Int) (e : Ed) : Ed :=
  let e2 : Ed := if xcol ≥ e.xleft + xcols then { e with xleft := xcol - xcols / 2 } else e
  if xcol < e2.xleft then { e2 with xleft := if xcol < xcols then 0 else xcol - xcols / 2 } else e2

/-- `lbuf_modified(xb)` -/
def bumpEd (e : Ed) : Ed := match e.lb with | some lb => e.setLb (Lbuf.modified lb).2 | none => e

theorem postTail_eq (Z : VS) (hout : nlCount Z.ed.out ≤ 1) :
    (do viWait; lbufModified; lbufModified : M Unit) Z =
      Res.ok () { Z with ed := bumpEd (bumpEd { Z.ed with out := [] }) } := by
  unfold viWait
  simp only [bind_apply, Vi.get]
  rw [if_neg (by omega)]
  rfl

theorem viPostRest_zero (Y : VS) (hq : Y.ed.xquit = false) (hout : nlCount Y.ed.out ≤ 1) :
    Lemmas.C07.viPostRest 0 Y = Res.ok () { Y with ed := bumpEd (bumpEd { leftEd Y.xcol Y.xcols Y.ed with out := [] }) } := by
  unfold Lemmas.C07.viPostRest
  simp only [bind_apply, Vi.get, hq, Bool.false_eq_true, if_false, bne_self_eq_false]
  unfold leftEd
  by_cases c1 : Y.xcol ≥ Y.ed.xleft + Y.xcols
  · simp only [c1, if_true, bind_apply, withEd, Vi.modify, Vi.get]
    by_cases c2 : Y.xcol < Y.xcol - Y.xcols / 2
    · simp only [c2, if_true, bind_apply]
      exact postTail_eq _ hout
    · simp only [c2, if_false]
      exact postTail_eq _ hout
  · simp only [c1, if_false, bind_apply, Vi.get]
    by_cases c2 : Y.xcol < Y.ed.xleft
    · simp only [c2, if_true, bind_apply, withEd, Vi.modify]
      exact postTail_eq _ hout
    · simp only [c2, if_false]
      exact postTail_eq _ hout

/-- the end of an iteration that changed nothing (`viPost (some 0)`), as a function of the state -/
def postEd (X : VS) : Ed :=
  bumpEd (bumpEd { leftEd X.xcol X.xcols (wfixEd X) with out := [] })

theorem viPost_zero_eq (X : VS) (hq : X.ed.xquit = false) (hout : nlCount X.ed.out ≤ 1) :
    viPost (some 0) X = Res.ok () { X with ed := postEd X } := by
  rw [Lemmas.C07.viPost_some, bind_apply, viWfix_eq]
  exact viPostRest_zero { X with ed := wfixEd X } hq hout

/-- the state in which `viPost` runs in the iteration that executes `.` -/
def dotMid (s : VS) (rest : Bytes) : VS :=
  { marked (afterKey s 46 rest) with icmd := [], ibuf := [46] ++ s.repCmd }

/-- **the state after the iteration that executes `.`** -/
def dotState (s : VS) (rest : Bytes) : VS := { dotMid s rest with ed := postEd (dotMid s rest) }

theorem dot_iter (s : VS) (rest : Bytes) (hinv : Inv s) (hv : s.vibuf = []) (hd : s.ibuf.length ≤ s.ibufPos)
    (ht : s.typed = 46 :: rest) (hout : nlCount s.ed.out ≤ 1) (hq : s.ed.xquit = false) :
    viStep s = Res.ok () (dotState s rest) := by
  have hp : pending s = ((46 : Nat)) :: rest := by
    unfold pending; rw [List.drop_eq_nil_of_le hd, ht]; rfl
  obtain ⟨ib, ip, ty, hpre, -, -, -, h5⟩ := viPre_cmdkey s 46 (Or.inl rfl) rest hv hp
  obtain ⟨e1, e2, e3⟩ := h5 hd
  rw [e1, e2, e3] at hpre
  rw [dot_step_eq s _ (afterKey s 46 rest) _ _ hpre rfl]
  have hc : cnt1 (afterKey s 46 rest) = 1 := by simp [cnt1, afterKey, max10]
  have hrep := hinv.rep
  rw [hc, pushN_room 1 _ (marked (afterKey s 46 rest))
    (by show ([46] : Bytes).length + 1 * s.repCmd.length ≤ 4096; simp; omega)]
  have hX : ({ ({ marked (afterKey s 46 rest) with
        ibuf := (marked (afterKey s 46 rest)).ibuf ++ (List.replicate 1 (afterKey s 46 rest).repCmd).flatten } : VS) with
        icmd := [] } : VS) = dotMid s rest := by
    unfold dotMid
    simp [afterKey, marked]
  rw [hX]
  have hme : (dotMid s rest).ed = (marked (afterKey s 46 rest)).ed := rfl
  rw [viPost_zero_eq (dotMid s rest) (by rw [hme, marked_ed_fields]; exact hq)
    (by rw [hme, marked_ed_fields]; exact hout)]
  rfl

theorem leftEd_bufs (c w : Int) (e : Ed) : (leftEd c w e).bufs = e.bufs := by
  unfold leftEd; dsimp only; split <;> split <;> rfl

/-- what the end of an iteration leaves alone: everything but the buffer table, the cursor, the window, the output -/
def nb (e : Ed) : Ed := { e with bufs := [], xrow := 0, xoff := 0, xtop := 0, xleft := 0, out := [] }

theorem nb_setLb (e : Ed) (lb : Lb) : nb (e.setLb lb) = nb e := by
  unfold Ed.setLb; split <;> rfl

theorem nb_bumpEd (e : Ed) : nb (bumpEd e) = nb e := by
  unfold bumpEd; split
  · exact nb_setLb _ _
  · rfl

theorem nb_leftEd (c w : Int) (e : Ed) : nb (leftEd c w e) = nb e := by
  unfold leftEd; dsimp only; split <;> split <;> rfl

theorem nb_postEd (X : VS) : nb (postEd X) = nb X.ed := by
  unfold postEd
  rw [nb_bumpEd, nb_bumpEd]
  show nb (leftEd X.xcol X.xcols (wfixEd X)) = nb X.ed
  rw [nb_leftEd]
  rfl

theorem postEd_bufs_cons (s : VS) (rest : Bytes) (b : Buf) (l : List (Option Buf)) (hb : s.ed.bufs = some b :: l) :
    (postEd (dotMid s rest)).bufs =
      some { b with lb := (modified (modified (setMark b.lb 94 s.ed.xrow s.ed.xoff)).2).2 } :: l := by
  simp [postEd, bumpEd, leftEd_bufs, wfixEd, dotMid, marked, afterKey, Ed.lb, Ed.cur, Ed.setLb, Ed.setCur, hb]

theorem postEd_bufs_nil (s : VS) (rest : Bytes) (hb : s.ed.bufs = []) : (postEd (dotMid s rest)).bufs = [] := by
  simp [postEd, bumpEd, leftEd_bufs, wfixEd, dotMid, marked, afterKey, Ed.lb, Ed.cur, hb]

theorem postEd_bufs_none (s : VS) (rest : Bytes) (l : List (Option Buf)) (hb : s.ed.bufs = none :: l) :
    (postEd (dotMid s rest)).bufs = none :: l := by
  simp [postEd, bumpEd, leftEd_bufs, wfixEd, dotMid, marked, afterKey, Ed.lb, Ed.cur, hb]

/-- the sequence numbers of a line buffer lie *strictly* below its counter (as they do between two commands: the last
thing a command does is to bump the counter) -/
def SeqStrict (lb : Lb) : Prop := lb.useqZero < lb.useq ∧ lb.useqLast < lb.useq ∧ ∀ e ∈ lb.hist, e.seq < lb.useq

theorem dotLb_eq (lb : Lb) (r o : Int) :
    (modified (modified (setMark lb 94 r o)).2).2 =
      { lb with mark := lb.mark.set 30 r, markOff := lb.markOff.set 30 o, useq := lb.useq + 1 + 1 } := by
  have hm : markIdx 94 = some 30 := by decide
  unfold setMark
  rw [hm]
  rfl

/-- **what `.` itself does to the line buffer** — the mark `^` and two bumps of the counter — is covered by the
relation, when the numbers lie strictly below the counter -/
theorem lbRel_dot (lb : Lb) (h : SeqStrict lb) (r o : Int) :
    LbRel true (modified (modified (setMark lb 94 r o)).2).2 lb := by
  rw [dotLb_eq]
  obtain ⟨hz, hl, hh⟩ := h
  have key : ∀ p, SeqP { lb with mark := lb.mark.set 30 r, markOff := lb.markOff.set 30 o, useq := lb.useq + 1 + 1 } lb p →
      p = (lb.useq + 1 + 1, lb.useq) ∨ (p.1 = p.2 ∧ p.1 < lb.useq) := by
    intro p hp
    rcases hp with rfl | rfl | rfl | hp
    · exact Or.inl rfl
    · exact Or.inr ⟨rfl, hz⟩
    · exact Or.inr ⟨rfl, hl⟩
    · obtain ⟨e1, e, he, e2⟩ := HP.refl_mem hp
      exact Or.inr ⟨e1, by rw [← e2]; exact hh e he⟩
  refine ⟨rfl, rfl, rfl, ?_, ?_, rfl, rfl, rfl, All2.refl _ fun e _ => EntRel.rfl' e, ?_, ?_⟩
  · intro p
    show (lb.mark.set 30 r).set 30 p = lb.mark.set 30 p
    rw [List.set_set]
  · intro p
    show (lb.markOff.set 30 o).set 30 p = lb.markOff.set 30 p
    rw [List.set_set]
  · intro p q hp hq
    rcases key p hp with rfl | ⟨p1, p2⟩ <;> rcases key q hq with rfl | ⟨q1, q2⟩
    · simp
    · simp only; omega
    · simp only; omega
    · omega
  · intro p hp
    show p.1 ≤ lb.useq + 1 + 1 ∧ p.2 ≤ lb.useq
    rcases key p hp with rfl | ⟨p1, p2⟩
    · simp
    · omega


/-! ### the state after `.` and the state in which the recorded keys are typed instead -/

/-- `s` with `keys` waiting at the terminal, nothing pushed, and the fields `viPre` overwrites cleared -/
def typedAt (s : VS) (keys : Bytes) : VS :=
  { s with typed := keys, ibuf := [], ibufPos := 0, icmd := [], arg1 := 0, arg2 := 0, ybuf := 0 }

/-- the sequence numbers of every buffer lie below its counter, those of the current buffer strictly -/
def DotSeqOk (ed : Ed) : Prop := EdSeqOk ed ∧ ∀ b, ed.cur = some b → SeqStrict b.lb

/-- the iteration that executes `.` moves neither the cursor nor the window: `vi_wfix()` finds nothing to fix -/
def DotSettled (s : VS) (rest : Bytes) : Prop :=
  (dotState s rest).ed.xrow = s.ed.xrow ∧ (dotState s rest).ed.xoff = s.ed.xoff ∧
  (dotState s rest).ed.xtop = s.ed.xtop ∧ (dotState s rest).ed.xleft = s.ed.xleft

theorem bumpEd_out (e : Ed) : (bumpEd e).out = e.out := by
  unfold bumpEd; split
  · exact Lemmas.C09b.setLb_out _ _
  · rfl

theorem postEd_out (X : VS) : (postEd X).out = [] := by
  unfold postEd
  rw [bumpEd_out, bumpEd_out]

theorem nb_dotMid (s : VS) (rest : Bytes) : nb (dotMid s rest).ed = nb s.ed := by
  show nb (marked (afterKey s 46 rest)).ed = nb s.ed
  rw [marked_ed_fields]
  rfl

theorem postEd_bufsRel (s : VS) (rest : Bytes) (hseq : DotSeqOk s.ed) :
    BufsRel true (postEd (dotMid s rest)).bufs s.ed.bufs := by
  obtain ⟨hok, hst⟩ := hseq
  cases hb : s.ed.bufs with
  | nil => rw [postEd_bufs_nil s rest hb]; trivial
  | cons x l =>
    have hl : All2 (OBufRel false) l l :=
      All2.refl _ fun y hy => OBufRel.refl (fun b e => hok b (by rw [hb, ← e]; simp [hy])) false
    cases x with
    | none => rw [postEd_bufs_none s rest l hb]; exact ⟨trivial, hl⟩
    | some b =>
      rw [postEd_bufs_cons s rest b l hb]
      have hc : s.ed.cur = some b := by unfold Ed.cur; rw [hb]; rfl
      exact ⟨⟨rfl, lbRel_dot b.lb (hst b hc) _ _, rfl, rfl, rfl, rfl, rfl, rfl, rfl⟩, hl⟩

/-- **the state after `.`, with the pushed keys typed instead, is related to the state before the `.` with the
recorded keys typed** -/
theorem dot_sim (s : VS) (rest keys : Bytes) (hv : s.vibuf = []) (hout : s.ed.out = []) (hseq : DotSeqOk s.ed)
    (hset : DotSettled s rest) : Sim true (retype (dotState s rest) keys) (typedAt s keys) := by
  have hnb : nb (postEd (dotMid s rest)) = nb s.ed := (nb_postEd _).trans (nb_dotMid s rest)
  obtain ⟨h1, h2, h3, h4⟩ := hset
  have hed : EdRel true (postEd (dotMid s rest)) s.ed :=
    { bufs := postEd_bufsRel s rest hseq
      bufsCnt := (congrArg Ed.bufsCnt hnb :)
      xrow := h1, xoff := h2, xtop := h3, xleft := h4
      xtd := (congrArg Ed.xtd hnb :)
      xquit := (congrArg Ed.xquit hnb :)
      xvis := (congrArg Ed.xvis hnb :)
      xaw := (congrArg Ed.xaw hnb :)
      xwa := (congrArg Ed.xwa hnb :)
      xic := (congrArg Ed.xic hnb :)
      xkwd := (congrArg Ed.xkwd hnb :)
      xrep := (congrArg Ed.xrep hnb :)
      xkwddir := (congrArg Ed.xkwddir hnb :)
      xgdep := (congrArg Ed.xgdep hnb :)
      atDepth := (congrArg Ed.atDepth hnb :)
      regs := (congrArg Ed.regs hnb :)
      files := (congrArg Ed.files hnb :)
      clock := (congrArg Ed.clock hnb :)
      faults := (congrArg Ed.faults hnb :)
      calls := (congrArg Ed.calls hnb :)
      fired := (congrArg Ed.fired hnb :)
      input := (congrArg Ed.input hnb :)
      out := by rw [postEd_out, hout]
      msg := (congrArg Ed.msg hnb :)
      pipes := (congrArg Ed.pipes hnb :)
      unmodelled := (congrArg Ed.unmodelled hnb :) }
  exact { ed := hed, typed := rfl, ibuf := rfl, ibufPos := rfl, icmd := rfl, vibuf := hv.symm, xcol := rfl, arg1 := rfl,
          arg2 := rfl, ybuf := rfl, charlast := rfl, charcmd := rfl, pcol := rfl, soset := rfl, so := rfl,
          scroll := rfl, repCmd := rfl, execReg := rfl, msg := rfl, xrows := rfl, xcols := rfl, xai := rfl,
          xkmap := rfl, exKmap := rfl, xkmapAlt := rfl, unmodelled := rfl }

end Neatvi.Lemmas.C09c
