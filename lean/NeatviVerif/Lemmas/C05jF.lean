import NeatviVerif.Lemmas.C05jE
/-!
# C05j, part F: the run of the vi loop with the `:`-hypothesis reduced to the class of the typed lines
-/
set_option linter.unusedSimpArgs false
set_option linter.unusedVariables false
namespace Neatvi.Lemmas.C05j
open Neatvi Neatvi.Uc Neatvi.Lbuf Neatvi.LbufIo Neatvi.Ex Neatvi.Mot Neatvi.Vi Neatvi.Rset
open Neatvi.Lemmas.C05f Neatvi.Lemmas.ExFrame Neatvi.Lemmas.C05h
open Neatvi.Props.C05c (iterate)

/-- the line invariant at the state the `:` prompt returns in: the caret mark and the prompt change neither the lines
    nor the registers -/
theorem sok_at_colon {s s0 s1 : VS} {r : Option Bytes} (hs : SOk s True) (hat : ColonAt 58 s s0)
    (hp : viPrompt true s0 = Res.ok r s1) : SOk s1 True := by
  have h0 : SOk s0 True := by
    unfold SOk
    rw [hat.1]
    exact ⟨bufsOk_markSet hs.1 _ _ _, by rw [markCaret_regs]; exact hs.2⟩
  have hf : EdF s0.ed s1.ed :=
    wp_post (wp_viPrompt true s0 h0.paste (fun _ s' => EdF s0.ed s'.ed) (fun _ _ e _ => e)) hp
  unfold SOk
  rw [hf.bufs, hf.regs]
  exact h0

/-- what is asked of a state an iteration starts from, once `KeepsSOk` is proved: as C05f's `StepHyp`, with the
    `:`-clause reduced to "the line typed is in C05e's class and in `sokLine'`, and is entered in an `EdSafe` state
    whose remembered replacement is NUL-free" -/
structure StepHyp' (s : VS) : Prop where
  noquit : s.ed.xquit = false
  marks : MarksIn s
  caret : MarksIn (markCaret s)
  search : SearchOk s
  typed : ∀ (s0 : VS) (ln : Bytes) (s1 : VS), ColonAt 58 s s0 → viPrompt true s0 = Res.ok (some ln) s1 → ln.isEmpty = false →
    ColonLineOk (if ln.headD 0 != 58 then 58 :: ln else ln) ∧ sokLine' (if ln.headD 0 != 58 then 58 :: ln else ln) = true ∧
      EdSafe s1 ∧ NoNul s1.ed.xrep
  zz : ∀ (s0 : VS), ColonAt 90 s s0 → ExCallOk (strOf "x") s0

theorem keepsSOk_of_sokLine' {ln : Bytes} {s : VS} (hs : SOk s True) (hx : NoNul s.ed.xrep) (hl : sokLine' ln = true) :
    Props.C05i.KeepsSOk ln s := by
  intro rc s' hm
  have := (colon_keeps_xok hs hx hl hm).1
  exact ⟨BufsOk.weaken' this.1, this.2⟩

theorem stepHyp_of {s : VS} (hv : ViOk s) (h : StepHyp' s) : StepHyp s :=
  ⟨h.noquit, h.marks, h.caret, h.search,
    ⟨fun s0 ln s1 hat hm he => by
        obtain ⟨a, b, c, d⟩ := h.typed s0 ln s1 hat hm he
        exact Props.C05i.exCallOk_of_covered c a (keepsSOk_of_sokLine' (sok_at_colon hv.sok hat hm) d b),
     h.zz⟩⟩

theorem iterate_one {s s1 : VS} {u : Unit} (h : viStep s = Res.ok u s1) : iterate 1 s = some s1 := by
  unfold iterate
  rw [h]
  rfl

theorem iterate_shift {s s1 : VS} {u : Unit} (h : viStep s = Res.ok u s1) (k : Nat) : iterate (k + 1) s = iterate k s1 := by
  conv => lhs; unfold iterate
  rw [h]

/-- **the run**: the invariant and "no trap" at every boundary, from `StepHyp'` at the boundaries -/
theorem run_ok' : ∀ (n : Nat) (s₀ : VS), ViOk s₀ → (∀ k t, k ≤ n → iterate k s₀ = some t → StepHyp' t) →
    ∀ s, iterate n s₀ = some s → ViOk s ∧ viStep s ≠ Res.trap := by
  intro n
  induction n with
  | zero =>
    intro s₀ hv hh s h
    cases h
    have hs := stepHyp_of hv (hh 0 s₀ (Nat.le_refl _) rfl)
    exact ⟨hv, viStep_no_trap hv hs.marks hs.caret hs.search hs.colon⟩
  | succ n ih =>
    intro s₀ hv hh s h
    have hs := stepHyp_of hv (hh 0 s₀ (Nat.zero_le _) rfl)
    cases hst : viStep s₀ with
    | ok u s1 =>
      rw [iterate_shift hst] at h
      have h1 := hh 1 s1 (by omega) (iterate_one hst)
      have hv1 : ViOk s1 := viStep_keeps hv hs.marks hs.caret hs.search hs.colon (by cases u; exact hst) h1.noquit
      exact ih s1 hv1 (fun k t hk ht => hh (k + 1) t (by omega) (by rw [iterate_shift hst]; exact ht)) s h
    | eof => unfold iterate at h; rw [hst] at h; cases h
    | trap => unfold iterate at h; rw [hst] at h; cases h


theorem colonAt_mem {k : Int} {s s0 : VS} (h : ColonAt k s s0) : k ∈ allQ s :=
  h.2.subset (List.mem_cons_self ..)

/-- `StepHyp'` from `StepHyp` when neither `:` nor `Z` is pending -/
theorem stepHyp'_of_no_colon {s : VS} (h : StepHyp s) (h1 : (58 : Int) ∉ allQ s) (h2 : (90 : Int) ∉ allQ s) : StepHyp' s :=
  ⟨h.noquit, h.marks, h.caret, h.search, fun s0 ln s1 hat _ _ => absurd (colonAt_mem hat) h1,
    fun s0 hat => absurd (colonAt_mem hat) h2⟩

/-- instance: the example state of C08b, keys without `/ ? n N ^A : Z` -/
theorem exSt_stepHyp' (keys : Bytes) (h : ∀ k ∈ specialKeys, k ∉ keys) : StepHyp' (Props.C08b.exSt keys 0 0) :=
  stepHyp'_of_no_colon (exSt_stepHyp keys h) (exSt_allQ keys 58 (h 58 (by decide))) (exSt_allQ keys 90 (h 90 (by decide)))

end Neatvi.Lemmas.C05j
