import NeatviVerif.Lemmas.C09Cmd
/-!
# C09: observational equivalence of states that differ only in how the pending key stream is split
between `ibuf` (pushed keys) and `typed` (keys of the terminal)

`KeyEq s t`: same pending stream, same everything else.  A computation `Respects` it when it cannot
tell such states apart.  The key readers do; `term_push` does not (`push_not_respects`).
-/
namespace Neatvi.Lemmas.C09
open Neatvi Neatvi.Vi Neatvi.Ex

/-- normal form: the whole pending stream moved to the terminal side -/
def norm (s : VS) : VS := { s with ibuf := [], ibufPos := 0, typed := pending s }

/-- the two states differ only in how the pending stream is split between `ibuf` and `typed` -/
def KeyEq (s t : VS) : Prop := norm s = norm t

theorem keyEq_iff (s t : VS) : KeyEq s t ↔
    pending s = pending t ∧ s.icmd = t.icmd ∧ s.ed = t.ed ∧ s.vibuf = t.vibuf ∧ s.xcol = t.xcol ∧
    s.arg1 = t.arg1 ∧ s.arg2 = t.arg2 ∧ s.ybuf = t.ybuf ∧ s.charlast = t.charlast ∧
    s.charcmd = t.charcmd ∧ s.pcol = t.pcol ∧ s.soset = t.soset ∧ s.so = t.so ∧ s.scroll = t.scroll ∧
    s.repCmd = t.repCmd ∧ s.execReg = t.execReg ∧ s.msg = t.msg ∧ s.xrows = t.xrows ∧
    s.xcols = t.xcols ∧ s.xai = t.xai ∧ s.xkmap = t.xkmap ∧ s.exKmap = t.exKmap ∧
    s.xkmapAlt = t.xkmapAlt ∧ s.unmodelled = t.unmodelled := by
  unfold KeyEq norm
  constructor
  · intro h
    injection h with h0 h1 h2 h3 h4 h5 h6 h7 h8 h9 h10 h11 h12 h13 h14 h15 h16 h17 h18 h19 h20 h21 h22 h23 h24 h25
    exact ⟨h1, h4, h0, h5, h6, h7, h8, h9, h10, h11, h12, h13, h14, h15, h16, h17, h18, h19, h20, h21,
      h22, h23, h24, h25⟩
  · rintro ⟨h1, h4, h0, h5, h6, h7, h8, h9, h10, h11, h12, h13, h14, h15, h16, h17, h18, h19, h20, h21,
      h22, h23, h24, h25⟩
    simp only [h1, h4, h0, h5, h6, h7, h8, h9, h10, h11, h12, h13, h14, h15, h16, h17, h18, h19, h20,
      h21, h22, h23, h24, h25]

theorem KeyEq.refl (s : VS) : KeyEq s s := rfl
theorem KeyEq.symm {s t : VS} (h : KeyEq s t) : KeyEq t s := Eq.symm h
theorem KeyEq.trans {s t u : VS} (h : KeyEq s t) (h' : KeyEq t u) : KeyEq s u := Eq.trans h h'

theorem pending_norm (s : VS) : pending (norm s) = pending s := by simp [norm, pending]
theorem norm_norm (s : VS) : norm (norm s) = norm s := by
  simp only [norm, pending, List.drop_nil, List.nil_append]
theorem keyEq_norm (s : VS) : KeyEq s (norm s) := (norm_norm s).symm

theorem KeyEq.pending {s t : VS} (h : KeyEq s t) : pending s = pending t := by
  have h' : norm s = norm t := h
  have := congrArg VS.typed h'
  exact this
theorem KeyEq.icmd {s t : VS} (h : KeyEq s t) : s.icmd = t.icmd := by
  have h' : norm s = norm t := h
  have := congrArg VS.icmd h'
  exact this
theorem KeyEq.vibuf {s t : VS} (h : KeyEq s t) : s.vibuf = t.vibuf := by
  have h' : norm s = norm t := h
  have := congrArg VS.vibuf h'
  exact this

/-- related results: same value and `KeyEq` states, or both end of input, or both trap -/
inductive RelRes {α : Type} : Res α → Res α → Prop where
  | ok (a : α) (s t : VS) (h : KeyEq s t) : RelRes (Res.ok a s) (Res.ok a t)
  | eof : RelRes Res.eof Res.eof
  | trap : RelRes Res.trap Res.trap

/-- `m` cannot tell `KeyEq` states apart -/
def Respects {α : Type} (m : M α) : Prop := ∀ s t, KeyEq s t → RelRes (m s) (m t)

/-! ### the primitives -/

theorem termRead_norm (s : VS) (k : Nat) (rest : Bytes) (h : pending s = k :: rest) :
    ∃ s', termRead s = Res.ok (k : Int) s' ∧
      norm s' = { norm s with typed := rest, icmd := icmdAfter s.icmd k } := by
  obtain ⟨ib, ip, ty, h1, h2, -⟩ := termRead_ok s k rest h
  refine ⟨_, h1, ?_⟩
  simp only [norm, pending, h2]

/-- **`termRead_keyEq`** -/
theorem termRead_keyEq (s t : VS) (h : KeyEq s t) : RelRes (termRead s) (termRead t) := by
  have hp := h.pending
  cases hs : pending s with
  | nil =>
    rw [termRead_eof s hs, termRead_eof t (hp ▸ hs)]
    exact RelRes.eof
  | cons k rest =>
    obtain ⟨s', e1, e2⟩ := termRead_norm s k rest hs
    obtain ⟨t', e3, e4⟩ := termRead_norm t k rest (hp ▸ hs)
    rw [e1, e3]
    refine RelRes.ok _ _ _ ?_
    have hi := h.icmd
    unfold KeyEq at h ⊢
    rw [e2, e4, h, hi]

theorem respects_termRead : Respects termRead := termRead_keyEq

/-- **`viRead_keyEq`** -/
theorem viRead_keyEq (s t : VS) (h : KeyEq s t) : RelRes (viRead s) (viRead t) := by
  have hv := h.vibuf
  unfold viRead
  cases hs : s.vibuf with
  | nil =>
    rw [← hv, hs]
    exact termRead_keyEq s t h
  | cons c r =>
    rw [← hv, hs]
    refine RelRes.ok _ _ _ ?_
    unfold KeyEq norm at h ⊢
    injection h with h0 h1 h2 h3 h4 h5 h6 h7 h8 h9 h10 h11 h12 h13 h14 h15 h16 h17 h18 h19 h20 h21 h22 h23 h24 h25
    simp only [pending] at h1 ⊢
    simp only [h1, h4, h0, h6, h7, h8, h9, h10, h11, h12, h13, h14, h15, h16, h17, h18, h19, h20, h21,
      h22, h23, h24, h25]

theorem respects_viRead : Respects viRead := viRead_keyEq

/-- a state update commutes with `norm`: it neither inspects nor alters the queue -/
def QueueFree (f : VS → VS) : Prop := ∀ s, norm (f s) = f (norm s)

theorem respects_modify {f : VS → VS} (hf : QueueFree f) : Respects (Vi.modify f) := by
  intro s t h
  refine RelRes.ok _ _ _ ?_
  unfold KeyEq at h ⊢
  rw [hf s, hf t, h]

/-- **`viBack_keyEq`** -/
theorem respects_viBack (c : Int) : Respects (viBack c) := respects_modify (fun _ => rfl)
theorem viBack_keyEq (c : Int) (s t : VS) (h : KeyEq s t) : RelRes (viBack c s) (viBack c t) :=
  respects_viBack c s t h

/-- **`termCmd_keyEq`** -/
theorem termCmd_keyEq (s t : VS) (h : KeyEq s t) : RelRes (termCmd s) (termCmd t) := by
  rw [termCmd_eq, termCmd_eq, h.icmd]
  refine RelRes.ok _ _ _ ?_
  have hi := h.icmd
  have : QueueFree (fun s => { s with icmd := [] }) := fun _ => rfl
  unfold KeyEq at h ⊢
  rw [this s, this t, h]

theorem respects_termCmd : Respects termCmd := termCmd_keyEq

/-! ### closure -/

theorem respects_pure {α : Type} (a : α) : Respects (pure a : M α) :=
  fun s t h => RelRes.ok a s t h

theorem respects_bind {α β : Type} {m : M α} {f : α → M β} (hm : Respects m)
    (hf : ∀ a, Respects (f a)) : Respects (m >>= f) := by
  intro s t h
  rw [bind_apply, bind_apply]
  have hr := hm s t h
  revert hr
  generalize m s = r1
  generalize m t = r2
  intro hr
  cases hr with
  | ok a s' t' h' => exact hf a s' t' h'
  | eof => exact RelRes.eof
  | trap => exact RelRes.trap

theorem respects_trap {α : Type} : Respects (Vi.trap : M α) := fun _ _ _ => RelRes.trap

/-- `get` with a continuation: the general rule -/
theorem respects_get_bind' {β : Type} {f : VS → M β}
    (hf : ∀ s t, KeyEq s t → RelRes (f s s) (f t t)) : Respects (Vi.get >>= f) :=
  fun s t h => hf s t h

/-- `get` with a continuation that observes the state only up to `KeyEq` (`f s = f (norm s)`: it does
not look at `ibuf`/`ibufPos`/`typed` separately).  `get` with an arbitrary continuation does NOT respect
`KeyEq`: see `get_not_respects`. -/
theorem respects_get_bind {β : Type} {f : VS → M β} (hinv : ∀ s, f s = f (norm s))
    (hf : ∀ s, Respects (f s)) : Respects (Vi.get >>= f) := by
  intro s t h
  show RelRes (f s s) (f t t)
  rw [hinv s, hinv t, show norm t = norm s from h.symm]
  exact hf _ s t h

/-- reading a `KeyEq`-invariant observation `g` of the state -/
theorem respects_get_obs {β γ : Type} {g : VS → γ} {f : γ → M β} (hg : ∀ s, g s = g (norm s))
    (hf : ∀ x, Respects (f x)) : Respects (Vi.get >>= fun s => f (g s)) :=
  respects_get_bind (fun s => by rw [hg s]) (fun s => hf (g s))

theorem respects_ite {α : Type} {c : Prop} [Decidable c] {a b : M α} (ha : Respects a)
    (hb : Respects b) : Respects (if c then a else b) := by
  split
  · exact ha
  · exact hb

/-! ### the key readers of vi.c / led.c -/

theorem respects_viYankbuf : Respects viYankbuf := by
  unfold viYankbuf
  refine respects_bind respects_viRead fun c => respects_ite ?_ ?_
  · refine respects_bind respects_viRead fun c => respects_ite ?_ (respects_pure _)
    exact respects_bind respects_viRead fun d => respects_pure _
  · exact respects_bind (respects_viBack c) fun _ => respects_pure _

theorem respects_viPrefix_digits (f : Nat) (n c : Int) : Respects (viPrefix.digits f n c) := by
  induction f generalizing n c with
  | zero =>
    unfold viPrefix.digits
    exact respects_bind (respects_viBack c) fun _ => respects_pure _
  | succ f ih =>
    unfold viPrefix.digits
    refine respects_ite ?_ ?_
    · exact respects_bind respects_viRead fun c' => ih _ _
    · exact respects_bind (respects_viBack c) fun _ => respects_pure _

theorem respects_viPrefix : Respects viPrefix := by
  unfold viPrefix
  refine respects_bind respects_viRead fun c => respects_ite ?_ ?_
  · exact respects_viPrefix_digits _ _ _
  · exact respects_bind (respects_viBack c) fun _ => respects_pure _

theorem respects_readCharS_more (k : Nat) (acc : Bytes) : Respects (readCharS.more k acc) := by
  induction k generalizing acc with
  | zero => unfold readCharS.more; exact respects_pure _
  | succ k ih =>
    unfold readCharS.more
    exact respects_bind respects_termRead fun d => ih _

theorem respects_readKey_more (k : Nat) : Respects (readKey.more k) := by
  induction k with
  | zero => unfold readKey.more; exact respects_pure _
  | succ k ih =>
    unfold readKey.more
    exact respects_bind respects_termRead fun _ => ih

/-- `led_readkey()` cannot tell `KeyEq` states apart -/
theorem respects_readKey : Respects readKey := by
  unfold readKey
  refine respects_bind respects_termRead fun c => respects_ite ?_ (respects_pure _)
  exact respects_bind (respects_readKey_more _) fun _ => respects_pure _

theorem respects_readCharS (c : Int) (kmap : Nat) : Respects (readCharS c kmap) := by
  unfold readCharS
  refine respects_ite ?_ (respects_ite ?_ (respects_ite ?_ (respects_pure _)))
  · exact respects_bind respects_termRead fun d => respects_pure _
  · refine respects_bind respects_readKey fun c1 => respects_ite (respects_pure _) (respects_ite (respects_pure _) ?_)
    exact respects_bind respects_readKey fun c2 => respects_ite (respects_pure _) (respects_pure _)
  · exact respects_bind (respects_readCharS_more _ _) fun bs => respects_pure _

theorem respects_viChar_go (f : Nat) : Respects (viChar.go f) := by
  induction f with
  | zero => unfold viChar.go; exact respects_pure _
  | succ f ih =>
    unfold viChar.go
    refine respects_bind respects_termRead fun c => respects_ite (respects_pure _) (respects_ite ?_ (respects_ite ?_ ?_))
    · exact respects_bind (respects_modify fun _ => rfl) fun _ => ih
    · exact respects_bind (respects_modify fun _ => rfl) fun _ => ih
    · exact respects_get_obs (g := fun s => s.xkmap) (fun _ => rfl) fun x => respects_readCharS c x

theorem respects_viChar : Respects viChar := by
  unfold viChar
  exact respects_viChar_go _

/-! ### `term_push` does not respect `KeyEq` -/

/-- a state with the key `b` pushed and unread -/
def exPushed (ed : Ed) : VS := { ed := ed, ibuf := [98], ibufPos := 0, typed := [] }
/-- the state with the same key coming from the terminal instead -/
def exTyped (ed : Ed) : VS := { ed := ed, ibuf := [], ibufPos := 0, typed := [98] }

theorem exPushed_keyEq_exTyped (ed : Ed) : KeyEq (exPushed ed) (exTyped ed) := by
  simp [KeyEq, norm, pending, exPushed, exTyped]

/-- **`push_not_respects`**: pushed keys are queued behind the unread pushed keys but in front of the
terminal's keys, so pushing `a` on two `KeyEq` states gives `b a` on one and `a b` on the other.  This
is the recorded defect "`.` inside a macro is appended after the rest of the macro". -/
theorem push_differs (ed : Ed) :
    pending (push [97] (exPushed ed)) ≠ pending (push [97] (exTyped ed)) := by
  simp [pending, push, exPushed, exTyped]

theorem push_not_respects : ∃ (s t : VS) (x : Bytes), KeyEq s t ∧ QWf s ∧ QWf t ∧
    ∃ s' t', termPush x s = Res.ok () s' ∧ termPush x t = Res.ok () t' ∧ pending s' ≠ pending t' :=
  ⟨exPushed {}, exTyped {}, [97], exPushed_keyEq_exTyped _, Nat.zero_le _, Nat.le_refl _, _, _, rfl, rfl,
    push_differs _⟩

theorem termPush_not_respects : ¬ ∀ x, Respects (termPush x) := by
  intro h
  have := h [97] (exPushed {}) (exTyped {}) (exPushed_keyEq_exTyped _)
  rw [termPush_eq, termPush_eq] at this
  generalize ({} : Ed) = ed at this
  cases this with
  | ok _ _ _ h' => exact push_differs ed h'.pending

/-- `get` alone does not respect `KeyEq` when the continuation looks at `ibuf` -/
theorem get_not_respects : ¬ Respects (Vi.get >>= fun s => (pure s.ibuf.length : M Nat)) := by
  intro h
  have := h (exPushed {}) (exTyped {}) (exPushed_keyEq_exTyped _)
  generalize ({} : Ed) = ed at this
  simp only [bind_apply, Vi.get, pure_apply, exPushed, exTyped] at this
  cases this

end Neatvi.Lemmas.C09
