import NeatviVerif.Props.C17b
import NeatviVerif.Props.C19c
import NeatviVerif.Lemmas.C08bInsert
/-!
# C07d lemmas: `vi_nextcol` and `vi_col2off` on a line laid out left to right

`nextcol` (`vi_nextcol`) and `col2off` (`vi_col2off`) of `Model/Vi.lean` go through the position table
`posTab s ln` of the line.  Here: what they return when that table is increasing (`StrictInc`, no
reordering), when that is the case (`posTab_fast`, `posTab_inc`), and the iteration `repeatMove`.
-/
namespace Neatvi.Lemmas.C07d
open Neatvi Neatvi.Uc Neatvi.Vi Neatvi.Spec Neatvi.Ren Neatvi.Lemmas.C17b Neatvi.Lemmas.C08b

/-! ### `repeatMove` with a step that walks a segment `[0, L]` of offsets -/

/-- a step that moves one offset right until `L`, where it fails: `k` steps from `o` reach `min (o + k) L` -/
theorem repeatMove_fwd (step : Int → Int → Option (Int × Int)) (row : Int) (L : Nat)
    (hstep : ∀ o : Nat, o ≤ L → step row o = if o < L then some (row, ((o + 1 : Nat) : Int)) else none) :
    ∀ (k o : Nat), o ≤ L → repeatMove step k row o = (row, ((min (o + k) L : Nat) : Int)) := by
  intro k
  induction k with
  | zero => intro o ho; simp [repeatMove]; omega
  | succ k ih =>
    intro o ho
    unfold repeatMove
    rw [hstep o ho]
    by_cases hl : o < L
    · rw [if_pos hl]
      simp only []
      rw [ih (o + 1) (by omega)]
      congr 2; omega
    · rw [if_neg hl]
      simp only []
      congr 2; omega

/-- a step that moves one offset left until 0, where it fails: `k` steps from `o` reach `o - k` (at least 0) -/
theorem repeatMove_bwd (step : Int → Int → Option (Int × Int)) (row : Int) (L : Nat)
    (hstep : ∀ o : Nat, o ≤ L → step row o = if 0 < o then some (row, ((o - 1 : Nat) : Int)) else none) :
    ∀ (k o : Nat), o ≤ L → repeatMove step k row o = (row, ((o - k : Nat) : Int)) := by
  intro k
  induction k with
  | zero => intro o ho; simp [repeatMove]
  | succ k ih =>
    intro o ho
    unfold repeatMove
    rw [hstep o ho]
    by_cases hl : 0 < o
    · rw [if_pos hl]
      simp only []
      rw [ih (o - 1) (by omega)]
      congr 2; omega
    · rw [if_neg hl]
      simp only []
      congr 2; omega

/-! ### the line `body ++ "\n"` -/

theorem line_valid {body : List Nat} (hb : ∀ c ∈ body, ValidCp c) : ∀ c ∈ body ++ [10], ValidCp c :=
  valid_snoc_ten hb

theorem line_slen {body : List Nat} (hb : ∀ c ∈ body, ValidCp c) :
    ucSlen (encStr (body ++ [10])) = body.length + 1 := by
  rw [Props.C16.slen_spec (line_valid hb)]; simp

/-- the first byte of character `k` of the line is the newline iff `k` is the last character -/
theorem chrHd_line {body : List Nat} (hb : ∀ c ∈ body, ValidCp c) (hb10 : 10 ∉ body) (k : Nat) (hk : k ≤ body.length) :
    chrHd (encStr (body ++ [10])) k = 10 ↔ k = body.length := by
  rw [chrHd_enc_eq_10 (line_valid hb) k (by simp; omega)]
  constructor
  · intro h
    by_cases hlt : k < body.length
    · exfalso
      apply hb10
      have : (body ++ [10]).getD k 0 = body[k] := by
        rw [List.getD_eq_getElem?_getD, List.getElem?_append_left hlt, List.getElem?_eq_getElem hlt]; rfl
      rw [this] at h
      rw [← h]; exact List.getElem_mem _
    · omega
  · intro h
    subst h
    rw [List.getD_eq_getElem?_getD, List.getElem?_append_right (Nat.le_refl _)]
    simp

/-! ### `vi_nextcol` with an increasing table -/

/-- to the right (`dir ≥ 0`): the next character, failing on the last character of the body (and on
    the newline) -/
theorem nextcol_right (s : VS) (r : Int) (body : List Nat) (hl : lineOf s r = some (encStr (body ++ [10])))
    (hb : ∀ c ∈ body, ValidCp c) (hb10 : 10 ∉ body)
    (hinc : StrictInc (posTab s (encStr (body ++ [10]))) (body.length + 1))
    (dir : Int) (hdir : dir ≥ 0) (o : Nat) (ho : o ≤ body.length) :
    nextcol s dir r o = if o + 1 < body.length then some ((o + 1 : Nat) : Int) else none := by
  unfold nextcol
  rw [hl]
  simp only [line_slen hb, Int.toNat_natCast]
  by_cases h1 : o + 1 < body.length + 1
  · rw [Props.C17b.renNextT_inc_right _ hinc o h1 dir hdir]
    by_cases h2 : o + 1 < body.length
    · have hne : chrHd (encStr (body ++ [10])) (o + 1) ≠ 10 := by
        intro hc; rw [chrHd_line hb hb10 (o + 1) (by omega)] at hc; omega
      have hnn : ¬ ((renPosT (posTab s (encStr (body ++ [10]))) (body.length + 1) (o + 1) : Nat) : Int) < 0 := by omega
      rw [if_neg hne, if_neg hnn, if_pos h2]
      rw [Props.C17b.renOffT_renPosT (Props.C17b.strictInc_colTable hinc) (o + 1) h1]
    · have he : chrHd (encStr (body ++ [10])) (o + 1) = 10 := by
        rw [chrHd_line hb hb10 (o + 1) (by omega)]; omega
      rw [if_pos he, if_pos (show (-1 : Int) < 0 by omega), if_neg h2]
  · rw [Props.C17b.renNextT_inc_right_last _ hinc o (by omega) dir hdir, if_pos (show (-1 : Int) < 0 by omega),
      if_neg (by omega)]

/-- to the left (`dir < 0`): the previous character, failing on the first -/
theorem nextcol_left (s : VS) (r : Int) (body : List Nat) (hl : lineOf s r = some (encStr (body ++ [10])))
    (hb : ∀ c ∈ body, ValidCp c) (hb10 : 10 ∉ body)
    (hinc : StrictInc (posTab s (encStr (body ++ [10]))) (body.length + 1))
    (dir : Int) (hdir : dir < 0) (o : Nat) (ho : o ≤ body.length) :
    nextcol s dir r o = if 0 < o then some ((o - 1 : Nat) : Int) else none := by
  unfold nextcol
  rw [hl]
  simp only [line_slen hb, Int.toNat_natCast]
  cases o with
  | zero =>
    rw [Props.C17b.renNextT_inc_left_first _ hinc (by omega) dir hdir, if_pos (show (-1 : Int) < 0 by omega),
      if_neg (by omega)]
  | succ k =>
    rw [Props.C17b.renNextT_inc_left _ hinc k (by omega) dir hdir]
    have hne : chrHd (encStr (body ++ [10])) k ≠ 10 := by
      intro hc; rw [chrHd_line hb hb10 k (by omega)] at hc; omega
    have hnn : ¬ ((renPosT (posTab s (encStr (body ++ [10]))) (body.length + 1) k : Nat) : Int) < 0 := by omega
    rw [if_neg hne, if_neg hnn, if_pos (Nat.succ_pos k)]
    rw [Props.C17b.renOffT_renPosT (Props.C17b.strictInc_colTable hinc) k (by omega)]
    rfl

/-! ### when the table is the left-to-right one -/

/-- `ren_position` does not reorder a line without multi-byte characters, nor a line of more than
    `xlim = 256` characters: the table is the left-to-right one -/
theorem posTab_fast (s : VS) (ln : Bytes) (h : ucSlen ln = ln.length ∨ 256 < ucSlen ln) :
    posTab s ln = renPositionFast ln := by
  unfold posTab renPosition renOpts
  simp only []
  rw [if_neg]
  · rfl
  · rcases h with h | h
    · simp [h]
    · simp; intro h'; omega

/-- ... and it is increasing on a valid UTF-8 line -/
theorem posTab_inc (s : VS) (cps : List Nat) (hv : ∀ c ∈ cps, ValidCp c)
    (h : cps.length = (encStr cps).length ∨ 256 < cps.length) :
    StrictInc (posTab s (encStr cps)) cps.length := by
  rw [posTab_fast s _ (by rw [Props.C16.slen_spec hv]; exact h)]
  exact Props.C17b.fast_strictInc cps hv

/-- an ASCII body: the line has as many bytes as characters -/
theorem ascii_line_length (body : List Nat) (ha : ∀ c ∈ body, c < 128) :
    (body ++ [10]).length = (encStr (body ++ [10])).length := by
  rw [encStr_ascii (body ++ [10]) (by
    intro b hb
    rcases List.mem_append.mp hb with hb | hb
    · exact ha b hb
    · simp at hb; omega)]

/-! ### `vi_col2off` on a line of printable ASCII: the identity table -/

/-- in the identity table of `n ≥ 1` characters, `ren_off(p)` for `p ≥ 0` is `min p (n - 1)` -/
theorem renOffT_range (n : Nat) (hn : 0 < n) (p : Nat) :
    renOffT (List.range (n + 1)) n (p : Int) = min p (n - 1) := by
  have hg : ∀ j, j ≤ n → (List.range (n + 1)).getD j 0 = j := by
    intro j hj
    rw [List.getD_eq_getElem?_getD, List.getElem?_range (by omega)]; rfl
  have hinc : StrictInc (List.range (n + 1)) n := by
    refine ⟨by simp, ?_⟩
    intro i j hij hj
    rw [hg i (by omega), hg j hj]; exact hij
  apply renOffT_of_greatest (Props.C17b.strictInc_colTable hinc)
  refine ⟨by omega, ?_, ?_⟩
  · unfold PrevP
    rw [if_pos rfl, hg _ (by omega)]
    omega
  · intro j hj hP
    unfold PrevP at hP
    rw [if_pos rfl, hg j (by omega)] at hP
    rw [hg j (by omega), hg _ (by omega)]
    omega

/-! ### `vi_nextcol` with the model's own table (reordered or not): one step in visual order -/

/-- the table of a valid UTF-8 line satisfies the invariant `ColTable` -/
theorem posTab_colTable (s : VS) (cps : List Nat) (hv : ∀ c ∈ cps, ValidCp c) :
    ColTable (posTab s (encStr cps)) cps.length := by
  unfold posTab
  cases h : renPosition dirOracle (renOpts s) (encStr cps) with
  | none => exact Props.C17b.strictInc_colTable (Props.C17b.fast_strictInc cps hv)
  | some pos => exact Props.C17b.renPosition_colTable _ _ cps hv pos h

/-- to the right: the character `j` displayed immediately to the right of character `i`, failing when
    `j` is the newline -/
theorem nextcol_visual_right (s : VS) (r : Int) (body : List Nat) (hl : lineOf s r = some (encStr (body ++ [10])))
    (hb : ∀ c ∈ body, ValidCp c) (hb10 : 10 ∉ body) (dir : Int) (hdir : dir ≥ 0) (i j : Nat) (hi : i ≤ body.length)
    (hj : IsLeast (posTab s (encStr (body ++ [10]))) (body.length + 1)
      (fun x => (posTab s (encStr (body ++ [10]))).getD i 0 < x) j) :
    nextcol s dir r i = if j = body.length then none else some (j : Int) := by
  have hct : ColTable (posTab s (encStr (body ++ [10]))) (body.length + 1) := by
    have := posTab_colTable s (body ++ [10]) (line_valid hb)
    simpa using this
  unfold nextcol
  rw [hl]
  simp only [line_slen hb, Int.toNat_natCast]
  have hrp : renPosT (posTab s (encStr (body ++ [10]))) (body.length + 1) i =
      (posTab s (encStr (body ++ [10]))).getD i 0 := by
    unfold renPosT; rw [if_pos (by omega)]
  rw [hrp]
  rw [Props.C17b.renNextT_right_eq _ hct _ dir hdir i j (isGreatest_self i (by omega)) hj]
  have hjn : j ≤ body.length := by have := hj.1; omega
  by_cases he : j = body.length
  · rw [if_pos ((chrHd_line hb hb10 j hjn).mpr he), if_pos (show (-1 : Int) < 0 by omega), if_pos he]
  · have hne : chrHd (encStr (body ++ [10])) j ≠ 10 := fun hc => he ((chrHd_line hb hb10 j hjn).mp hc)
    have hnn : ¬ (((posTab s (encStr (body ++ [10]))).getD j 0 : Nat) : Int) < 0 := by omega
    rw [if_neg hne, if_neg hnn, if_neg he, renOffT_col hct j hj.1]

/-- ... and failing when nothing is displayed to the right of `i` -/
theorem nextcol_visual_right_none (s : VS) (r : Int) (body : List Nat)
    (hl : lineOf s r = some (encStr (body ++ [10])))
    (hb : ∀ c ∈ body, ValidCp c) (dir : Int) (hdir : dir ≥ 0) (i : Nat) (hi : i ≤ body.length)
    (hno : NoCol (posTab s (encStr (body ++ [10]))) (body.length + 1)
      (fun x => (posTab s (encStr (body ++ [10]))).getD i 0 < x)) :
    nextcol s dir r i = none := by
  have hct : ColTable (posTab s (encStr (body ++ [10]))) (body.length + 1) := by
    have := posTab_colTable s (body ++ [10]) (line_valid hb)
    simpa using this
  unfold nextcol
  rw [hl]
  simp only [line_slen hb, Int.toNat_natCast]
  have hrp : renPosT (posTab s (encStr (body ++ [10]))) (body.length + 1) i =
      (posTab s (encStr (body ++ [10]))).getD i 0 := by
    unfold renPosT; rw [if_pos (by omega)]
  rw [hrp]
  rw [Props.C17b.renNextT_right_none _ hct _ dir hdir i (isGreatest_self i (by omega)) hno,
    if_pos (show (-1 : Int) < 0 by omega)]

/-- to the left: the character `j` displayed immediately to the left of `i` -/
theorem nextcol_visual_left (s : VS) (r : Int) (body : List Nat) (hl : lineOf s r = some (encStr (body ++ [10])))
    (hb : ∀ c ∈ body, ValidCp c) (hb10 : 10 ∉ body) (dir : Int) (hdir : dir < 0) (i j : Nat) (hi : i ≤ body.length)
    (hj : IsGreatest (posTab s (encStr (body ++ [10]))) (body.length + 1)
      (fun x => x < (posTab s (encStr (body ++ [10]))).getD i 0) j) :
    nextcol s dir r i = if j = body.length then none else some (j : Int) := by
  have hct : ColTable (posTab s (encStr (body ++ [10]))) (body.length + 1) := by
    have := posTab_colTable s (body ++ [10]) (line_valid hb)
    simpa using this
  unfold nextcol
  rw [hl]
  simp only [line_slen hb, Int.toNat_natCast]
  have hrp : renPosT (posTab s (encStr (body ++ [10]))) (body.length + 1) i =
      (posTab s (encStr (body ++ [10]))).getD i 0 := by
    unfold renPosT; rw [if_pos (by omega)]
  rw [hrp]
  rw [Props.C17b.renNextT_left_eq _ hct _ dir hdir i j (isGreatest_self i (by omega)) hj]
  have hjn : j ≤ body.length := by have := hj.1; omega
  by_cases he : j = body.length
  · rw [if_pos ((chrHd_line hb hb10 j hjn).mpr he), if_pos (show (-1 : Int) < 0 by omega), if_pos he]
  · have hne : chrHd (encStr (body ++ [10])) j ≠ 10 := fun hc => he ((chrHd_line hb hb10 j hjn).mp hc)
    have hnn : ¬ (((posTab s (encStr (body ++ [10]))).getD j 0 : Nat) : Int) < 0 := by omega
    rw [if_neg hne, if_neg hnn, if_neg he, renOffT_col hct j hj.1]

theorem nextcol_visual_left_none (s : VS) (r : Int) (body : List Nat)
    (hl : lineOf s r = some (encStr (body ++ [10])))
    (hb : ∀ c ∈ body, ValidCp c) (dir : Int) (hdir : dir < 0) (i : Nat) (hi : i ≤ body.length)
    (hno : NoCol (posTab s (encStr (body ++ [10]))) (body.length + 1)
      (fun x => x < (posTab s (encStr (body ++ [10]))).getD i 0)) :
    nextcol s dir r i = none := by
  have hct : ColTable (posTab s (encStr (body ++ [10]))) (body.length + 1) := by
    have := posTab_colTable s (body ++ [10]) (line_valid hb)
    simpa using this
  unfold nextcol
  rw [hl]
  simp only [line_slen hb, Int.toNat_natCast]
  have hrp : renPosT (posTab s (encStr (body ++ [10]))) (body.length + 1) i =
      (posTab s (encStr (body ++ [10]))).getD i 0 := by
    unfold renPosT; rw [if_pos (by omega)]
  rw [hrp]
  rw [Props.C17b.renNextT_left_none _ hct _ dir hdir i (isGreatest_self i (by omega)) hno,
    if_pos (show (-1 : Int) < 0 by omega)]

end Neatvi.Lemmas.C07d
