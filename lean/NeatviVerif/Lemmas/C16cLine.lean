import NeatviVerif.Lemmas.C16cRun
/-!
# C16c, part 8: `:g`, `:e`, whole command lines, `ex_command`; the checker `okLine` and the induction on the fuel
-/
set_option linter.unusedSimpArgs false
set_option linter.unusedVariables false
namespace Neatvi.Lemmas.C16c
open Neatvi Neatvi.Uc Neatvi.Spec Neatvi.Lbuf Neatvi.LbufIo Neatvi.Ex Neatvi.Rset Neatvi.Props.C11b Neatvi.Props.C16b

/-- running the command line `s` with fuel `f` keeps the state valid -/
def LineOkAt (f : Nat) (s : Bytes) : Prop := ∀ ed r ed', EdOk ed → exExec f ed s = some (r, ed') → EdOk ed'

/-! ## `:g` -/

theorem adv_ok (dep : Nat) : ∀ (h : Nat) (ed : Ed) (i : Int), EdOk ed → EdOk (ecGlob.scan.adv dep h ed i).1 := by
  intro h
  induction h with
  | zero => intro ed i hi; rw [ecGlob.scan.adv]; exact hi
  | succ h ih =>
    intro ed i hi
    rw [ecGlob.scan.adv]
    split
    · exact hi
    · split
      · exact hi
      · rename_i lb hlb
        simp only []
        have e1 : EdOk (ed.setLb (globGet lb i.toNat dep).2) := hi.setLb (globGet_ok (hi.lb hlb) _ _)
        split
        · exact e1
        · exact ih _ _ e1

theorem scan_ok (f : Nat) (neg : Bool) (s : Bytes) (re : RStr) (dep : Nat) (hbody : LineOkAt f s) :
    ∀ (g : Nat) (ed : Ed) (i : Int) (ed' : Ed), EdOk ed → ecGlob.scan f neg s re dep g ed i = some ed' → EdOk ed' := by
  intro g
  induction g with
  | zero => intro ed i ed' _ h; rw [ecGlob.scan] at h; cases h
  | succ g ih =>
    intro ed i ed' hi h
    rw [ecGlob.scan] at h
    split at h
    · cases h; exact hi
    · split at h
      · cases h
      · split at h
        · cases h
        · simp only [] at h
          split at h
          · cases h
          · rename_i edx _ hstep
            cases h
            split at hstep
            · split at hstep
              · cases hstep
              · rename_i hx
                split at hstep
                · cases hstep
                  exact hbody _ _ _ (hi.to (by rfl)) hx
                · cases hstep
            · cases hstep
          · rename_i edx ix hstep
            have e1 : EdOk edx := by
              split at hstep
              · split at hstep
                · cases hstep
                · rename_i hx
                  split at hstep
                  · cases hstep
                  · cases hstep
                    exact hbody _ _ _ (hi.to (by rfl)) hx
              · cases hstep; exact hi
            split at h
            · cases h
            · exact ih _ _ _ (adv_ok _ _ _ _ e1) h

open Neatvi.Props.C15 in
/-- **`:g` / `:v`** with a command list that keeps the state valid -/
theorem ecGlob_ok (f : Nat) (ed ed' : Ed) (loc cmd arg : Bytes) (r : Int) (hbody : LineOkAt f (reRead arg).2) (hi : EdOk ed)
    (h : ecGlob (f + 1) ed loc cmd arg = some (r, ed')) : EdOk ed' := by
  rw [ecGlob_eq] at h
  by_cases hdep : ed.xgdep ≥ 7
  · rw [if_pos hdep] at h; cases h; exact hi.to (by rfl)
  rw [if_neg hdep] at h
  split at h
  · cases h
  · rename_i rc b e ed1 hr
    have e1 : EdOk ed1 := hi.region hr
    have e2 : EdOk (globPrep ed1 arg) := by
      unfold globPrep
      repeat' split
      all_goals first | exact e1 | exact e1.to rfl
    split at h
    · cases h; exact e1
    · split at h
      · cases h; exact e2
      · split at h
        · cases h
        · cases h; exact e2
        · split at h
          · cases h
          · rename_i ed2 hscan
            cases h
            have e4 : EdOk (globMark (globPrep ed1 arg) b e ((globPrep ed1 arg).xgdep + 1)) := by
              unfold globMark
              refine foldl_ok EdOk _ ?_ _ _ (e2.to (by rfl))
              intro s k hs
              exact hs.updLb (fun lb => globSet lb (b.toNat + 1 + k) ((globPrep ed1 arg).xgdep + 1)) (fun lb hl => globSet_ok hl _ _)
            have e3 := scan_ok f _ _ _ _ hbody _ _ _ _ e4 hscan
            have e5 : EdOk (globSweep ed2 ((globPrep ed1 arg).xgdep + 1)) := by
              unfold globSweep
              exact e3.updLb (fun lb => (List.range lb.lines.length).foldl
                  (fun lb k => (globGet lb k ((globPrep ed1 arg).xgdep + 1)).2) lb)
                (fun lb hl => foldl_ok LbOk _ (fun s k hs => globGet_ok hs _ _) _ _ hl)
            exact e5.to (by rfl)

/-! ## `:e` (without a `+command`) -/

theorem ecEdit_ok (f : Nat) (ed ed' : Ed) (cmd arg : Bytes) (r : Int) (ha : IsU8 arg)
    (hplus : (arg.dropWhile (· == 32)).headD 0 ≠ 43) (hi : EdOk ed)
    (h : ecEdit (f + 1) ed cmd arg = some (r, ed')) : EdOk ed' := by
  rw [ecEdit.eq_2] at h
  simp only [] at h
  have hpl : ((List.dropWhile (fun x => x == 32) arg).headD 0 == 43) = false := by simpa using hplus
  simp only [hpl, Bool.false_eq_true, if_false] at h
  have ha' : IsU8 (List.dropWhile (fun x => x == 32) arg) :=
    isU8_dropWhile_ascii ha _ (by intro b hb; simp at hb; omega)
  split at h
  · cases h
  · rename_i ed1 hg
    cases h
    exact guard_ok hi hg
  · rename_i ed1 hg
    have e1 : EdOk ed1 := guard_ok hi hg
    split at h
    · cases h
    · rename_i ed2 hp
      cases h
      exact e1.to (pathExpand_core hp)
    · rename_i path ed2 hp
      obtain ⟨hpv, hpc⟩ := pathExpand_ok e1 ha' hp
      have hpath : IsU8 path := hpv path rfl
      have e2 : EdOk ed2 := e1.to hpc
      generalize hE3 : (if (!List.isEmpty path && List.headD cmd 0 == 101 && List.getD cmd 1 0 == 119 && decide (ed2.bufsFind path > 1)) = true then ed2.bufsSwitch 1 else ed2) = ed3 at h
      have e3 : EdOk ed3 := by
        rw [← hE3]; split
        · exact e2.bufsSwitch _
        · exact e2
      split at h
      · split at h
        · rename_i hc; simp at hc
        · cases h; exact e3.bufsSwitch _
      · split at h
        · cases h
        · rename_i ed3g hg2
          cases h
          exact guard_ok e3 hg2
        · rename_i ed3g hg2
          have e3g : EdOk ed3g := guard_ok e3 hg2
          generalize hE4 : (if (!List.isEmpty path || ed3g.cur.isNone) = true then
              (ed3g.bufsOpen path).snd.bufsSwitch (ed3g.bufsOpen path).fst else ed3g) = ed4 at h
          have e4 : EdOk ed4 := by
            rw [← hE4]; split
            · exact (e3g.bufsOpen hpath).bufsSwitch _
            · exact e3g
          split at h
          · cases h
          · rename_i b hb
            split at h
            · cases h
            · rename_i ed5 hrd
              have e5 : EdOk ed5 := by
                split at hrd
                · rename_i fl hfl
                  split at hrd
                  · cases hrd; exact e4
                  · split at hrd
                    · cases hrd
                    · rename_i lb1 hr
                      cases hrd
                      have hx : EdOk (ed4.setLb lb1) :=
                        e4.setLb (rd_ok (e4.cur hb).1 (by simpa using e4.findFile hfl) hr)
                      exact hx.show _
                · cases hrd; exact e4
              split at h
              · cases h
              · rename_i b5 hb5
                have e6 : EdOk (ed5.setCur { b5 with lb := (modified (savedCore b5.lb (!path.isEmpty))).snd, mtime := ed5.mtimeOf b5.path }) :=
                  e5.setCur (modified_ok (savedCore_ok (e5.cur hb5).1 _)) (e5.cur hb5).2
                split at h
                · rename_i hc; simp at hc
                · cases h; exact e6.to (by rfl)

/-! ## command lines -/

/-- the optional text is valid (as a Boolean) -/
def optChk (o : Option Bytes) : Bool := decide (OptValid o)

/-- every command `ex_exec` will dispatch on the line (the split of a line into commands does not depend
on the editor state) is accepted by `okH`, and its inline text, if any, is valid UTF-8 -/
def okCmds (body : Bytes → Bool) : Nat → Bytes → Bool
  | 0, _ => true
  | g + 1, ln =>
    if ln.isEmpty then true else
    let (_, ln) := exLoc ln
    let (cmd, ln) := exCmd ln
    let idx := exIdx cmd
    let abbr := match idx with | some (a, _) => a | none => strOf "unknown"
    let (arg, ln) := exArg ln abbr
    let txt := (exTxt {} ln abbr).1.1
    let ln := (exTxt {} ln abbr).1.2
    match idx with
    | none => okCmds body g ln
    | some (_, h) => okH body h arg && optChk txt && okCmds body g ln

/-- **the hypothesis on a command line**, decidable by evaluation: the line is split as `ex_exec` splits it,
and every command is one `okH` accepts, with `:g` nested at most `d` deep -/
def okLine : Nat → Bytes → Bool
  | 0, ln => okCmds (fun _ => false) (ln.length + 1) ln
  | d + 1, ln => okCmds (okLine d) (ln.length + 1) ln

theorem exTxt_state_ok {ed : Ed} (hok : EdOk ed) (src ex : Bytes) : EdOk (exTxt ed src ex).2 := by
  unfold exTxt
  simp only []
  generalize (if (List.headD ex 0 != 0) = true then List.getD ex 1 0 else 0) = c1
  by_cases hc1 : (List.headD ex 0 == 114 && c1 == 115 && !List.isEmpty src) = true
  · rw [if_pos hc1]; exact hok
  · rw [if_neg hc1]
    by_cases hc2 : (List.headD ex 0 == 114 && c1 == 115 || c1 == 0 && (List.headD ex 0 == 105 || List.headD ex 0 == 97 || List.headD ex 0 == 99)) = true
    · rw [if_pos hc2]
      have := exTxt_rd_valid (ed.input.length + 1) ed.input [] isU8_nil hok.input
      exact ⟨hok.bufs, hok.regs, this.2, hok.pipes, hok.files, hok.nofault⟩
    · rw [if_neg hc2]; exact hok

theorem cmds_ok (f : Nat) (body : Bytes → Bool)
    (hrun : ∀ ed h loc cmd arg txt r ed', okH body h arg = true → OptValid txt → EdOk ed →
      runCmd f ed h loc cmd arg txt = some (r, ed') → EdOk ed') :
    ∀ (g : Nat) (ed : Ed) (ln : Bytes) (ret r : Int) (ed' : Ed), okCmds body g ln = true → EdOk ed →
      exExec.cmds f g ed ln ret = some (r, ed') → EdOk ed' := by
  intro g
  induction g with
  | zero => intro ed ln ret r ed' _ hi h; rw [exExec.cmds] at h; cases h; exact hi
  | succ g ih =>
    intro ed ln ret r ed' hq hi h
    rw [exExec.cmds] at h
    rw [okCmds] at hq
    split at h
    · cases h; exact hi
    · rename_i hne
      rw [if_neg hne] at hq
      generalize exLoc ln = p1 at h hq
      obtain ⟨loc, l1⟩ := p1
      simp only [] at h hq
      generalize exCmd l1 = p2 at h hq
      obtain ⟨cmd, l2⟩ := p2
      simp only [] at h hq
      generalize exIdx cmd = idx at h hq
      cases idx with
      | none =>
        simp only [] at h hq
        generalize exArg l2 (strOf "unknown") = p3 at h hq
        obtain ⟨arg, l3⟩ := p3
        simp only [] at h hq
        have hst := exTxt_state_ok hi l3 (strOf "unknown")
        have hrst := Props.C15.exTxt_rest ed l3 (strOf "unknown")
        generalize exTxt ed l3 (strOf "unknown") = T at h hst hrst
        obtain ⟨⟨txt, l4⟩, edT⟩ := T
        simp only [] at h hst hrst
        subst hrst
        exact ih _ _ _ _ _ hq (hst.show _) h
      | some ah =>
        obtain ⟨a, hh⟩ := ah
        simp only [] at h hq
        generalize exArg l2 a = p3 at h hq
        obtain ⟨arg, l3⟩ := p3
        simp only [] at h hq
        simp only [Bool.and_eq_true] at hq
        obtain ⟨⟨hq1, hq2⟩, hq3⟩ := hq
        have hinl : OptValid (exTxt {} l3 a).1.1 := by
          unfold optChk at hq2; exact of_decide_eq_true hq2
        have hst := exTxt_ok hi l3 a hinl
        have hrst := Props.C15.exTxt_rest ed l3 a
        generalize exTxt ed l3 a = T at h hst hrst
        obtain ⟨⟨txt, l4⟩, edT⟩ := T
        simp only [] at h hst hrst
        subst hrst
        split at h
        · cases h
        · rename_i r1 ed1 hr
          exact ih _ _ _ _ _ hq3 (hrun _ _ _ _ _ _ _ _ hq1 hst.1 hst.2 hr) h

/-- **`ex_exec` of a line `okLine` accepts keeps the state valid**, whatever the fuel -/
theorem exExec_ok : ∀ (f d : Nat) (ln : Bytes), okLine d ln = true → LineOkAt f ln := by
  intro f
  induction f using Nat.strongRecOn with
  | _ f ih =>
    intro d ln hq ed r ed' hi h
    cases f with
    | zero => rw [exExec] at h; cases h
    | succ f =>
      rw [exExec] at h
      split at h
      · cases h; exact hi.show _
      · have key : ∀ (body : Bytes → Bool), (∀ s, body s = true → ∀ f', f' < f + 1 → LineOkAt f' s) →
            okCmds body (ln.length + 1) ln = true → EdOk ed' := by
          intro body hbody hqc
          apply cmds_ok f body ?_ _ _ _ _ _ _ hqc hi h
          intro ed hdl loc cmd arg txt r ed' hqh htxt hi' hrun
          cases f with
          | zero => rw [runCmd] at hrun; cases hrun
          | succ f1 =>
            apply runCmd_ok1 f1 body ed ed' hdl loc cmd arg txt r ?_ ?_ hqh htxt hi' hrun
            · intro he ed2 r2 ed2' hi2 hglob
              subst he
              cases f1 with
              | zero => rw [ecGlob] at hglob; cases hglob
              | succ f2 =>
                exact ecGlob_ok f2 ed2 ed2' loc cmd arg r2 (hbody _ (okH_glob hqh) f2 (by omega)) hi2 hglob
            · intro he ed2 r2 ed2' hi2 hedit
              subst he
              cases f1 with
              | zero => rw [ecEdit] at hedit; cases hedit
              | succ f2 =>
                exact ecEdit_ok f2 ed2 ed2' cmd arg r2 (okH_edit hqh).1 (okH_edit hqh).2 hi2 hedit
        cases d with
        | zero =>
          exact key (fun _ => false) (fun s hs => by cases hs) hq
        | succ d =>
          exact key (okLine d) (fun s hs f' hf' => ih f' hf' d s hs) hq

/-- **the dispatcher on one parsed command** that `okH` accepts (nested `:g` lists accepted by `okLine d`), with a
valid text: the state stays valid — for every fuel -/
theorem runCmd_ok {f d : Nat} {ed ed' : Ed} {hd : String} {loc cmd arg : Bytes} {txt : Option Bytes} {r : Int}
    (hok : okH (okLine d) hd arg = true) (htxt : OptValid txt) (hi : EdOk ed)
    (h : runCmd f ed hd loc cmd arg txt = some (r, ed')) : EdOk ed' := by
  cases f with
  | zero => rw [runCmd] at h; cases h
  | succ f1 =>
    apply runCmd_ok1 f1 (okLine d) ed ed' hd loc cmd arg txt r ?_ ?_ hok htxt hi h
    · intro he ed2 r2 ed2' hi2 hglob
      subst he
      cases f1 with
      | zero => rw [ecGlob] at hglob; cases hglob
      | succ f2 => exact ecGlob_ok f2 ed2 ed2' loc cmd arg r2 (exExec_ok f2 d _ (okH_glob hok)) hi2 hglob
    · intro he ed2 r2 ed2' hi2 hedit
      subst he
      cases f1 with
      | zero => rw [ecEdit] at hedit; cases hedit
      | succ f2 => exact ecEdit_ok f2 ed2 ed2' cmd arg r2 (okH_edit hok).1 (okH_edit hok).2 hi2 hedit

/-- **`ex_command` of a line `okLine` accepts keeps the state valid** -/
theorem exCommand_ok {f d : Nat} {ed ed' : Ed} {ln : Bytes} {r : Int} (hq : okLine d ln = true) (hi : EdOk ed)
    (h : exCommand f ed ln = some (r, ed')) : EdOk ed' := by
  cases f with
  | zero => rw [exCommand] at h; cases h
  | succ f =>
    rw [exCommand] at h
    split at h
    · cases h
    · rename_i r1 ed1 he
      cases h
      exact (exExec_ok f d ln hq _ _ _ hi he).modifiedAt 0

/-- one round of the `ex()` loop (`exStep`): the line read from the input is run and remembered in register `:` -/
theorem exStep_ok {d : Nat} {ed ed' : Ed} {r : Int} (hi : EdOk ed)
    (hq : ∀ ln rest, ed.input = ln :: rest → okLine d ln = true)
    (h : exStep ed = some (r, ed')) : EdOk ed' := by
  unfold exStep at h
  split at h
  · cases h
  · rename_i ln rest hin
    simp only [] at h
    split at h
    · cases h
    · rename_i r1 ed1 he
      cases h
      have hln : IsU8 ln := hi.input ln (by rw [hin]; simp)
      have h0 : EdOk { ed with input := rest, out := [], msg := [], calls := 0, fired := 0 } :=
        ⟨hi.bufs, hi.regs, fun l hl => hi.input l (by rw [hin]; simp [hl]), hi.pipes, hi.files, hi.nofault⟩
      have h1 := exCommand_ok (hq ln rest hin) h0 he
      exact ⟨h1.bufs, h1.regs.put _ hln _, h1.input, h1.pipes, h1.files, rfl⟩

end Neatvi.Lemmas.C16c
