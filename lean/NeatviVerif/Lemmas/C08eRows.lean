import NeatviVerif.Lemmas.C08eInput
/-!
# C08 (insert mode): the rows an insertion of arbitrary typed lines produces

The text `loopText` of `Lemmas/C08eInput.lean` as rows of code points (`rowsG`), `vi_input` on such an
insertion (`viInput_lines_gen`), and the tails of `vc_insert` (`insertTail_lines_gen`, `openTail_lines_gen`).
-/
set_option linter.unusedSimpArgs false
namespace Neatvi.Lemmas.C08e
open Neatvi Neatvi.Uc Neatvi.Vi Neatvi.Ex Neatvi.Spec Neatvi.Lemmas.C08 Neatvi.Lemmas.C08b Neatvi.Lemmas.C09
open Neatvi.Lemmas.C08d

/-! ### the rule of the auto-indent on code points -/

/-- the leading blanks of a typed line -/
def blanksCp (l : List Nat) : List Nat := l.takeWhile isBlankC

/-- `keepB` on code points -/
def keepCp (pne lastNE : Bool) (l : List Nat) : Bool := decide ((blanksCp l).length < l.length) || pne || lastNE

/-- `aiNext` on code points -/
def aiNextCp (xai pne : Bool) (ai l : List Nat) : List Nat :=
  if !xai then [] else if pne then ai else ai ++ (blanksCp l).take (127 - ai.length)

/-- the rest of the line after a newline: without its leading blanks when `autoindent` is set -/
def dropCp (xai : Bool) (tail : List Nat) : List Nat := if xai then tail.dropWhile isBlankC else tail

/-- the auto-indent `led_input` splits off the head of the line: its leading blanks, at most 127 -/
def aiRaw (ps : List Nat) : List Nat := (ps.takeWhile isBlankC).take 127

/-- the head of the line after that auto-indent -/
def hdRest (ps : List Nat) : List Nat := ps.drop (aiRaw ps).length

/-- **the rows** (without their newlines) that the typed lines `ls`, `last` produce between the head `hd` (what
precedes the insertion point after the auto-indent `ai`) and the tail `tail` of the line: each typed line is
written after the auto-indent in force (unless `keepCp` drops it); the auto-indent is updated by `aiNextCp`,
the tail loses its leading blanks at the first newline (`dropCp`) -/
def rowsG (xai : Bool) : List Nat → List Nat → List (List Nat) → List Nat → List Nat → List (List Nat)
  | hd, ai, [], last, tail => [(if keepCp (!hd.isEmpty) (!tail.isEmpty) last then ai else []) ++ hd ++ last ++ tail]
  | hd, ai, l :: ls, last, tail =>
    ((if keepCp (!hd.isEmpty) false l then ai else []) ++ hd ++ l) ::
      rowsG xai [] (aiNextCp xai (!hd.isEmpty) ai l) ls last (dropCp xai tail)

/-- the rows before the last one -/
def initG (xai : Bool) : List Nat → List Nat → List (List Nat) → List (List Nat)
  | _, _, [] => []
  | hd, ai, l :: ls =>
    ((if keepCp (!hd.isEmpty) false l then ai else []) ++ hd ++ l) :: initG xai [] (aiNextCp xai (!hd.isEmpty) ai l) ls

/-- what the last row holds before the tail of the line: auto-indent (if kept), head (without a newline
typed), the last typed line -/
def lastPreG (xai : Bool) : List Nat → List Nat → List (List Nat) → List Nat → List Nat → List Nat
  | hd, ai, [], last, tail => (if keepCp (!hd.isEmpty) (!tail.isEmpty) last then ai else []) ++ hd ++ last
  | hd, ai, l :: ls, last, tail => lastPreG xai [] (aiNextCp xai (!hd.isEmpty) ai l) ls last (dropCp xai tail)

/-- the tail of the line after the insertion -/
def tailG (xai : Bool) (ls : List (List Nat)) (tail : List Nat) : List Nat := if ls = [] then tail else dropCp xai tail

/-! ### from bytes to code points -/

theorem lnBlanks_enc (l : List Nat) (hv : ∀ c ∈ l, ValidCp c) : lnBlanks (encStr l) = blanksCp l := by
  unfold lnBlanks blanksCp
  rw [takeWhile_blank_encStr l hv, encStr_blanks _ (blanks_takeWhile l)]

theorem encStr_isEmpty (l : List Nat) : (encStr l).isEmpty = l.isEmpty := by
  cases l with
  | nil => rfl
  | cons c t =>
    rw [encStr_cons]
    cases h : enc c with
    | nil => exact absurd h (enc_ne_nil c)
    | cons a u => rfl

theorem encStr_len_ge (cs : List Nat) : cs.length ≤ (encStr cs).length := by
  induction cs with
  | nil => simp
  | cons c r ih =>
    rw [encStr_cons, List.length_append, List.length_cons]
    have := enc_length_pos c; omega

theorem keepB_enc (pne lastNE : Bool) (l : List Nat) (hv : ∀ c ∈ l, ValidCp c) :
    keepB pne lastNE (encStr l) = keepCp pne lastNE l := by
  unfold keepB keepCp
  rw [lnBlanks_enc l hv]
  unfold blanksCp
  have hsplit : l = l.takeWhile isBlankC ++ l.dropWhile isBlankC := (List.takeWhile_append_dropWhile (p := isBlankC) (l := l)).symm
  have hlen : (encStr l).length = (l.takeWhile isBlankC).length + (encStr (l.dropWhile isBlankC)).length := by
    conv => lhs; rw [hsplit, encStr_append, encStr_blanks _ (blanks_takeWhile l)]
    rw [List.length_append]
  have hlen2 : l.length = (l.takeWhile isBlankC).length + (l.dropWhile isBlankC).length := by
    conv => lhs; rw [hsplit]
    rw [List.length_append]
  have hiff : (l.takeWhile isBlankC).length < (encStr l).length ↔ (l.takeWhile isBlankC).length < l.length := by
    have h1 := encStr_len_ge (l.dropWhile isBlankC)
    constructor
    · intro h
      by_cases hd : l.dropWhile isBlankC = []
      · rw [hd] at hlen; simp at hlen; omega
      · have : 0 < (l.dropWhile isBlankC).length := by
          cases h : l.dropWhile isBlankC with
          | nil => exact absurd h hd
          | cons a u => simp
        omega
    · intro h; omega
  simp only [hiff]

theorem aiNext_enc (xai pne : Bool) (ai : Bytes) (l : List Nat) (hv : ∀ c ∈ l, ValidCp c) :
    aiNext xai pne ai (encStr l) = aiNextCp xai pne ai l := by
  unfold aiNext aiNextCp
  rw [lnBlanks_enc l hv]

theorem aiNextCp_blank (xai pne : Bool) (ai l : List Nat) (h : ∀ c ∈ ai, isBlankC c = true) :
    ∀ c ∈ aiNextCp xai pne ai l, isBlankC c = true := by
  unfold aiNextCp
  split
  · intro c hc; simp at hc
  · split
    · exact h
    · intro c hc
      rcases List.mem_append.mp hc with hc | hc
      · exact h c hc
      · exact blanks_takeWhile l c (List.mem_of_mem_take hc)

theorem postNE_enc (tail : List Nat) (h10 : 10 ∉ tail) : postNE (encStr (tail ++ [10])) = !tail.isEmpty := by
  unfold postNE
  cases tail with
  | nil => rfl
  | cons c t =>
    have h1 := headD_line_ne_ten c t h10
    have h2 : (encStr (c :: t ++ [10])).isEmpty = false := by rw [encStr_isEmpty]; rfl
    rw [h2]
    simp only [bne, h1, Bool.not_false, Bool.and_self, List.isEmpty_cons]

theorem dropB_enc (b : Bool) (qs : List Nat) (hv : ∀ c ∈ qs, ValidCp c) : dropB b (encStr qs) = encStr (dropCp b qs) := by
  unfold dropB dropCp
  cases b
  · rfl
  · simp only [if_true]
    rw [takeWhile_blank_encStr qs hv]
    conv => lhs; arg 2; rw [← List.takeWhile_append_dropWhile (p := isBlankC) (l := qs), encStr_append]
    rw [List.drop_left' rfl]

theorem dropCp_snoc (b : Bool) (qs' : List Nat) : dropCp b (qs' ++ [10]) = dropCp b qs' ++ [10] := by
  unfold dropCp
  split
  · induction qs' with
    | nil => rfl
    | cons x t ih =>
      by_cases hx : isBlankC x = true
      · simp only [List.cons_append, List.dropWhile_cons, hx, if_true]; exact ih
      · simp only [List.cons_append, List.dropWhile_cons, hx, if_false, Bool.false_eq_true]
  · rfl

theorem dropCp_sub (b : Bool) (qs : List Nat) : ∀ c ∈ dropCp b qs, c ∈ qs := by
  unfold dropCp
  split
  · exact fun c hc => (List.dropWhile_sublist _).subset hc
  · exact fun c hc => hc

theorem dropWhile_idem {α : Type} (p : α → Bool) : ∀ (l : List α), (l.dropWhile p).dropWhile p = l.dropWhile p := by
  intro l
  induction l with
  | nil => rfl
  | cons x t ih =>
    by_cases hx : p x = true
    · simp only [List.dropWhile_cons, hx, if_true, ih]
    · simp only [List.dropWhile_cons, hx, if_false, Bool.false_eq_true]

theorem dropCp_idem (b : Bool) (qs : List Nat) : dropCp b (dropCp b qs) = dropCp b qs := by
  unfold dropCp
  cases b
  · rfl
  · simp only [if_true]; exact dropWhile_idem _ qs

theorem tailG_sub (xai : Bool) (ls : List (List Nat)) (tail : List Nat) : ∀ c ∈ tailG xai ls tail, c ∈ tail := by
  unfold tailG
  split
  · exact fun c hc => hc
  · exact dropCp_sub xai tail

theorem loopText_some_nil (b : Bool) (post ai : Bytes) (ls : List Bytes) (last : Bytes) :
    loopText b (some []) post ai ls last = loopText b none post ai ls last := by
  cases ls <;> rfl

theorem if_blank_enc (c : Bool) (ai : List Nat) (h : ∀ c ∈ ai, isBlankC c = true) :
    encStr (if c = true then ai else []) = if c = true then ai else [] := by
  cases c
  · rfl
  · exact encStr_blanks ai h

/-- **the text of `led_input` is the rows, each with its newline** -/
theorem loopText_rows (xai : Bool) (last : List Nat) (hlast : ∀ c ∈ last, ValidCp c) :
    ∀ (ls : List (List Nat)) (hd ai tail : List Nat),
      (∀ l ∈ ls, ∀ c ∈ l, ValidCp c) → (∀ c ∈ ai, isBlankC c = true) →
      (∀ c ∈ tail, ValidCp c) → 10 ∉ tail →
      loopText xai (some (encStr hd)) (encStr (tail ++ [10])) ai (ls.map encStr) (encStr last) =
        encStr (((rowsG xai hd ai ls last tail).map (fun r => r ++ [10])).flatten) := by
  intro ls
  induction ls with
  | nil =>
    intro hd ai tail _ hai _ ht10
    have e1 := postNE_enc tail ht10
    have e2 : ∀ p q, keepB p q (encStr last) = keepCp p q last := fun p q => keepB_enc p q last hlast
    have e3 : pneOf (some (encStr hd)) = !hd.isEmpty := by simp only [pneOf, encStr_isEmpty]
    simp only [List.map_nil, loopText, rowsG, e1, e2, e3]
    simp only [Option.getD_some, List.map_cons, List.map_nil, List.flatten_cons, List.flatten_nil, List.append_nil,
      encStr_append, if_blank_enc _ ai hai, List.append_assoc]
  | cons l ls ih =>
    intro hd ai tail hls hai htv ht10
    have hl := hls l (by simp)
    have hih := ih [] (aiNextCp xai (!hd.isEmpty) ai l) (dropCp xai tail) (fun l' hl' => hls l' (by simp [hl']))
        (aiNextCp_blank xai _ ai l hai) (fun c hc => htv c (dropCp_sub xai tail c hc))
        (fun h => ht10 (dropCp_sub xai tail 10 h))
    rw [show encStr ([] : List Nat) = ([] : Bytes) from rfl, loopText_some_nil] at hih
    have e2 : ∀ p q, keepB p q (encStr l) = keepCp p q l := fun p q => keepB_enc p q l hl
    have e3 : pneOf (some (encStr hd)) = !hd.isEmpty := by simp only [pneOf, encStr_isEmpty]
    have e4 : ∀ p a, aiNext xai p a (encStr l) = aiNextCp xai p a l := fun p a => aiNext_enc xai p a l hl
    rw [List.map_cons, loopText, dropB_enc xai _ (valid_snoc_ten htv), dropCp_snoc]
    simp only [e2, e3, e4, hih, Option.getD_some]
    simp only [rowsG, List.map_cons, List.flatten_cons, encStr_append, if_blank_enc _ ai hai, List.append_assoc]
    rfl

/-! ### the shape of the rows -/

theorem rowsG_length (xai : Bool) (last : List Nat) : ∀ (ls : List (List Nat)) (hd ai tail : List Nat),
    (rowsG xai hd ai ls last tail).length = ls.length + 1 := by
  intro ls
  induction ls with
  | nil => intro hd ai tail; rfl
  | cons l ls ih => intro hd ai tail; simp [rowsG, ih]

theorem rowsG_split (xai : Bool) (last : List Nat) : ∀ (ls : List (List Nat)) (hd ai tail : List Nat),
    rowsG xai hd ai ls last tail =
      initG xai hd ai ls ++ [lastPreG xai hd ai ls last tail ++ tailG xai ls tail] := by
  intro ls
  induction ls with
  | nil => intro hd ai tail; simp [rowsG, initG, lastPreG, tailG]
  | cons l ls ih =>
    intro hd ai tail
    have ht : tailG xai ls (dropCp xai tail) = tailG xai (l :: ls) tail := by
      unfold tailG
      simp only [reduceCtorEq, if_false, dropCp_idem, ite_self]
    rw [rowsG, ih, ht]
    rfl

/-- every character of the rows comes from the head, the auto-indent, a typed line or the tail -/
theorem rowsG_all (P : Nat → Prop) (xai : Bool) (last : List Nat) (hlast : ∀ c ∈ last, P c) :
    ∀ (ls : List (List Nat)) (hd ai tail : List Nat),
      (∀ c ∈ hd, P c) → (∀ c ∈ ai, P c) → (∀ l ∈ ls, ∀ c ∈ l, P c) → (∀ c ∈ tail, P c) →
      ∀ r ∈ rowsG xai hd ai ls last tail, ∀ c ∈ r, P c := by
  intro ls
  induction ls with
  | nil =>
    intro hd ai tail hhd hai _ ht r hr c hc
    simp only [rowsG, List.mem_singleton] at hr
    subst hr
    simp only [List.mem_append] at hc
    rcases hc with ((hc | hc) | hc) | hc
    · split at hc
      · exact hai c hc
      · simp at hc
    · exact hhd c hc
    · exact hlast c hc
    · exact ht c hc
  | cons l ls ih =>
    intro hd ai tail hhd hai hls ht r hr c hc
    have hl := hls l (by simp)
    simp only [rowsG, List.mem_cons] at hr
    rcases hr with rfl | hr
    · simp only [List.mem_append] at hc
      rcases hc with (hc | hc) | hc
      · split at hc
        · exact hai c hc
        · simp at hc
      · exact hhd c hc
      · exact hl c hc
    · refine ih [] (aiNextCp xai (!hd.isEmpty) ai l) (dropCp xai tail) (by intro c hc; simp at hc) ?_
        (fun l' hl' => hls l' (by simp [hl'])) (fun c hc => ht c (dropCp_sub xai tail c hc)) r hr c hc
      intro c hc
      unfold aiNextCp at hc
      split at hc
      · simp at hc
      · split at hc
        · exact hai c hc
        · rcases List.mem_append.mp hc with hc | hc
          · exact hai c hc
          · exact hl c ((List.takeWhile_sublist _).subset (List.mem_of_mem_take hc))

theorem lastPreG_all (P : Nat → Prop) (xai : Bool) (last : List Nat) (hlast : ∀ c ∈ last, P c)
    (ls : List (List Nat)) (hd ai tail : List Nat)
    (hhd : ∀ c ∈ hd, P c) (hai : ∀ c ∈ ai, P c) (hls : ∀ l ∈ ls, ∀ c ∈ l, P c) (ht : ∀ c ∈ tail, P c) :
    ∀ c ∈ lastPreG xai hd ai ls last tail, P c := by
  intro c hc
  refine rowsG_all P xai last hlast ls hd ai tail hhd hai hls ht
    (lastPreG xai hd ai ls last tail ++ tailG xai ls tail) ?_ c (List.mem_append_left _ hc)
  rw [rowsG_split]
  simp

/-! ### the auto-indent and the head that `led_input` splits the prefix into -/

theorem aiOf_enc (ps : List Nat) (hv : ∀ c ∈ ps, ValidCp c) : aiOf (encStr ps) = aiRaw ps := by
  unfold aiOf aiRaw
  rw [takeWhile_blank_encStr ps hv, encStr_blanks _ (blanks_takeWhile ps)]

theorem aiRaw_blank (ps : List Nat) : ∀ c ∈ aiRaw ps, isBlankC c = true :=
  fun c hc => blanks_takeWhile ps c (List.mem_of_mem_take hc)

theorem aiRaw_hdRest (ps : List Nat) : aiRaw ps ++ hdRest ps = ps := by
  unfold hdRest
  have hp : aiRaw ps <+: ps := List.IsPrefix.trans (List.take_prefix _ _) (List.takeWhile_prefix _)
  have h1 : aiRaw ps = ps.take (aiRaw ps).length := List.prefix_iff_eq_take.mp hp
  conv => lhs; arg 1; rw [h1]
  exact List.take_append_drop _ _

theorem aiRaw_sub (ps : List Nat) : ∀ c ∈ aiRaw ps, c ∈ ps :=
  fun _ hc => (List.takeWhile_sublist _).subset (List.mem_of_mem_take hc)

theorem hdRest_sub (ps : List Nat) : ∀ c ∈ hdRest ps, c ∈ ps := fun _ hc => List.mem_of_mem_drop hc

theorem aiRaw_length (ps : List Nat) : (aiRaw ps).length ≤ 127 := by
  unfold aiRaw
  rw [List.length_take]; omega

theorem prefRest_enc (ps : List Nat) (hv : ∀ c ∈ ps, ValidCp c) : prefRest (encStr ps) = encStr (hdRest ps) := by
  have h1 := aiOf_append_prefRest (encStr ps)
  have h2 : encStr ps = aiRaw ps ++ encStr (hdRest ps) := by
    conv => lhs; rw [← aiRaw_hdRest ps, encStr_append, encStr_blanks _ (aiRaw_blank ps)]
  have h3 : aiOf (encStr ps) ++ prefRest (encStr ps) = aiRaw ps ++ encStr (hdRest ps) := h1.trans h2
  rw [aiOf_enc ps hv] at h3
  exact List.append_cancel_left h3

/-! ### `vi_input` over arbitrary typed lines -/

/-- the offset `vi_input` returns when `n` characters precede the tail on the last row: that of the last of
them, 0 when there is none -/
def offG (n : Nat) : Int := if (n : Int) - 1 < 0 then 0 else (n : Int) - 1

theorem viInput_lines_gen (ps qs' : List Nat) (s : VS) (ls : List (List Nat)) (last : List Nat) (rest : Bytes)
    (hps : ∀ c ∈ ps, ValidCp c) (hqs : ∀ c ∈ qs', ValidCp c) (hps10 : 10 ∉ ps) (hqs10 : 10 ∉ qs')
    (hp : pending s = lineKeys ls last ++ rest) (hpl : ∀ l ∈ last :: ls, TLine l)
    (hlen : ls.length < 100000) (hk : s.xkmap = 0) :
    ∃ s1, viInput (encStr ps) (encStr (qs' ++ [10])) s =
        Res.ok (encStr (((rowsG s.xai (hdRest ps) (aiRaw ps) ls last qs').map (fun r => r ++ [10])).flatten),
          ((ls.length + 1 : Nat) : Int), offG (lastPreG s.xai (hdRest ps) (aiRaw ps) ls last qs').length) s1 ∧
      pending s1 = rest ∧ Typed (lineKeys ls last) ls.length s s1 := by
  obtain ⟨s1, h1, h2, h3⟩ := ledInput_lines_gen (encStr ps) (encStr (qs' ++ [10])) s ls last rest hp hpl hlen hk
  have hlast := hpl last (by simp)
  have hlsv : ∀ l ∈ ls, ∀ c ∈ l, ValidCp c := fun l hl => (hpl l (by simp [hl])).valid
  have hls10 : ∀ l ∈ ls, ∀ c ∈ l, c ≠ 10 := fun l hl c hc h => (hpl l (by simp [hl])).no10 (h ▸ hc)
  have hrep : inputTextB s.xai (encStr ps) (encStr (qs' ++ [10])) (ls.map encStr) (encStr last) =
      encStr (((rowsG s.xai (hdRest ps) (aiRaw ps) ls last qs').map (fun r => r ++ [10])).flatten) := by
    unfold inputTextB
    rw [aiOf_enc ps hps, prefRest_enc ps hps,
      loopText_rows s.xai last hlast.valid ls (hdRest ps) (aiRaw ps) qs' hlsv (aiRaw_blank ps) hqs hqs10]
  have hpost : postOf s ls (encStr (qs' ++ [10])) = encStr (tailG s.xai ls qs' ++ [10]) := postOf_enc s ls qs' hqs
  rw [hrep, hpost] at h1
  refine ⟨s1, ?_, h2, h3⟩
  rw [viInput_of_ledInput _ _ _ _ _ _ h1]
  have hrows10 : ∀ r ∈ rowsG s.xai (hdRest ps) (aiRaw ps) ls last qs', 10 ∉ r := by
    intro r hr h
    exact rowsG_all (· ≠ 10) s.xai last (fun c hc h => hlast.no10 (h ▸ hc)) ls (hdRest ps) (aiRaw ps) qs'
      (fun c hc h => hps10 (h ▸ hdRest_sub ps c hc)) (fun c hc h => hps10 (h ▸ aiRaw_sub ps c hc)) hls10
      (fun c hc h => hqs10 (h ▸ hc)) r hr 10 h rfl
  have hcc : charcount (encStr (((rowsG s.xai (hdRest ps) (aiRaw ps) ls last qs').map (fun r => r ++ [10])).flatten))
      (encStr (tailG s.xai ls qs' ++ [10])) = ((lastPreG s.xai (hdRest ps) (aiRaw ps) ls last qs').length : Nat) := by
    rw [rowsG_split]
    exact charcount_rows _ _ _
      (lastPreG_all ValidCp s.xai last hlast.valid ls (hdRest ps) (aiRaw ps) qs'
        (fun c hc => hps c (hdRest_sub ps c hc)) (fun c hc => hps c (aiRaw_sub ps c hc)) hlsv hqs)
      (fun c hc => hqs c (tailG_sub s.xai ls qs' c hc))
      (fun h => lastPreG_all (· ≠ 10) s.xai last (fun c hc h => hlast.no10 (h ▸ hc)) ls (hdRest ps) (aiRaw ps) qs'
        (fun c hc h => hps10 (h ▸ hdRest_sub ps c hc)) (fun c hc h => hps10 (h ▸ aiRaw_sub ps c hc)) hls10
        (fun c hc h => hqs10 (h ▸ hc)) 10 h rfl)
  have hnl : nlCount (encStr (((rowsG s.xai (hdRest ps) (aiRaw ps) ls last qs').map (fun r => r ++ [10])).flatten)) =
      ls.length + 1 := by
    rw [nlCount_rows _ hrows10, rowsG_length]
  rw [hcc, hnl]
  rfl

/-- the rows have no newline inside -/
theorem rowsG_no10 (ps qs' : List Nat) (xai : Bool) (ls : List (List Nat)) (last : List Nat)
    (hps10 : 10 ∉ ps) (hqs10 : 10 ∉ qs') (hpl : ∀ l ∈ last :: ls, TLine l) :
    ∀ r ∈ rowsG xai (hdRest ps) (aiRaw ps) ls last qs', 10 ∉ r := by
  intro r hr h
  exact rowsG_all (· ≠ 10) xai last (fun c hc h => (hpl last (by simp)).no10 (h ▸ hc)) ls (hdRest ps) (aiRaw ps) qs'
    (fun c hc h => hps10 (h ▸ hdRest_sub ps c hc)) (fun c hc h => hps10 (h ▸ aiRaw_sub ps c hc))
    (fun l hl c hc h => (hpl l (by simp [hl])).no10 (h ▸ hc))
    (fun c hc h => hqs10 (h ▸ hc)) r hr 10 h rfl

/-! ### the tails of `vc_insert` -/

/-- `insertTail` (the tail of `i a I A`) with arbitrary typed lines: the row under the cursor is replaced by
the rows `rowsG`; the cursor goes to the last character before the tail on the last of them -/
theorem insertTail_lines_gen (ps qs' : List Nat) (s : VS) (ls : List (List Nat)) (last : List Nat) (rest : Bytes) (L : Bytes)
    (hr0 : 0 ≤ s.ed.xrow) (hline : (Vi.lines s)[s.ed.xrow.toNat]? = some L)
    (hps : ∀ c ∈ ps, ValidCp c) (hqs : ∀ c ∈ qs', ValidCp c) (hps10 : 10 ∉ ps) (hqs10 : 10 ∉ qs')
    (hp : pending s = lineKeys ls last ++ rest) (hpl : ∀ l ∈ last :: ls, TLine l)
    (hlen : ls.length < 100000) (hk : s.xkmap = 0) :
    ∃ s', insertTail (encStr ps) (encStr (qs' ++ [10])) s = Res.ok VC_OK s' ∧ pending s' = rest ∧
      Inserted (lineKeys ls last) s s' s.ed.xrow (rowLines (rowsG s.xai (hdRest ps) (aiRaw ps) ls last qs')) 1
        (s.ed.xrow + (ls.length : Int)) (offG (lastPreG s.xai (hdRest ps) (aiRaw ps) ls last qs').length) := by
  obtain ⟨s1, h1, h2, h3⟩ := viInput_lines_gen ps qs' s ls last rest hps hqs hps10 hqs10 hp hpl hlen hk
  obtain ⟨lb, hlb⟩ := h3.readsEd_lb L _ hline
  have hrlt : s.ed.xrow.toNat < (Vi.lines s).length := (List.getElem?_eq_some_iff.mp hline).1
  have hbeg : s1.ed.xrow - ((ls.length + 1 : Nat) : Int) + 1 = s.ed.xrow := by rw [h3.xrow]; omega
  have hrows10 := rowsG_no10 ps qs' s.xai ls last hps10 hqs10 hpl
  obtain ⟨ed', he1, he2, he3⟩ := edEdit_spec s1
    (encStr (((rowsG s.xai (hdRest ps) (aiRaw ps) ls last qs').map (fun r => r ++ [10])).flatten))
    s.ed.xrow (s.ed.xrow + 1) lb hlb hr0 (by omega) (by unfold lenOf; rw [h3.lines]; omega)
  refine ⟨{ s1 with ed := { ed' with xoff := offG (lastPreG s.xai (hdRest ps) (aiRaw ps) ls last qs').length } }, ?_, h2, ?_⟩
  · unfold insertTail
    simp only [bind_apply, h1, get_apply, hbeg, he1, setOff_apply, pure_apply]
  · refine ⟨?_, ?_, rfl, ?_, ?_⟩
    · show Lemmas.C06.lines ed' = _
      rw [he2, h3.lines, split_rows _ hrows10, show (s.ed.xrow + 1).toNat = s.ed.xrow.toNat + 1 by omega]
      rfl
    · show ed'.xrow = _
      rw [he3]; exact h3.xrow
    · show ed'.regs = s.ed.regs
      rw [he3]; exact h3.regs
    · exact h3.frame.withEd _

/-- `openTail` (the tail of `o O`) with arbitrary typed lines: the rows `rowsG` are inserted before the row
of the cursor -/
theorem openTail_lines_gen (ind : List Nat) (s : VS) (ls : List (List Nat)) (last : List Nat) (rest : Bytes)
    (lb : Lbuf.Lb) (hlb : s.ed.lb = some lb)
    (hr0 : 0 ≤ s.ed.xrow) (hr1 : s.ed.xrow ≤ lenOf s) (hlen0 : lenOf s ≠ 0)
    (hi : ∀ c ∈ ind, ValidCp c) (hi10 : 10 ∉ ind)
    (hp : pending s = lineKeys ls last ++ rest) (hpl : ∀ l ∈ last :: ls, TLine l)
    (hlen : ls.length < 100000) (hk : s.xkmap = 0) :
    ∃ s', openTail (encStr ind) s = Res.ok VC_OK s' ∧ pending s' = rest ∧
      Inserted (lineKeys ls last) s s' s.ed.xrow (rowLines (rowsG s.xai (hdRest ind) (aiRaw ind) ls last [])) 0
        (s.ed.xrow + (ls.length : Int)) (offG (lastPreG s.xai (hdRest ind) (aiRaw ind) ls last []).length) := by
  obtain ⟨s1, h1, h2, h3⟩ := viInput_lines_gen ind [] s ls last rest hi (by intro c hc; simp at hc) hi10 (by simp) hp hpl hlen hk
  have e10 : encStr ([] ++ [10]) = [10] := rfl
  rw [e10] at h1
  have hbeg : s1.ed.xrow - ((ls.length + 1 : Nat) : Int) + 1 = s.ed.xrow := by rw [h3.xrow]; omega
  have hl1 : lenOf s1 = lenOf s := by unfold lenOf; rw [h3.lines]
  have hlb1 : s1.ed.lb = some lb := by rw [h3.lb]; exact hlb
  have hrows10 := rowsG_no10 ind [] s.xai ls last hi10 (by simp) hpl
  obtain ⟨ed', he1, he2, he3⟩ := edEdit_spec s1
    (encStr (((rowsG s.xai (hdRest ind) (aiRaw ind) ls last []).map (fun r => r ++ [10])).flatten))
    s.ed.xrow s.ed.xrow lb hlb1 hr0 (Int.le_refl _) (by rw [hl1]; exact hr1)
  have hlz : (lenOf s1 == 0) = false := by rw [hl1]; simpa using hlen0
  refine ⟨{ s1 with ed := { ed' with xoff := offG (lastPreG s.xai (hdRest ind) (aiRaw ind) ls last []).length } }, ?_, h2, ?_⟩
  · unfold openTail
    simp only [bind_apply, h1, get_apply, hlz, Bool.false_eq_true, if_false, pure_apply, hbeg, he1, setOff_apply]
  · refine ⟨?_, ?_, rfl, ?_, ?_⟩
    · show Lemmas.C06.lines ed' = _
      rw [he2, h3.lines, split_rows _ hrows10, Nat.add_zero]
      rfl
    · show ed'.xrow = _
      rw [he3]; exact h3.xrow
    · show ed'.regs = s.ed.regs
      rw [he3]; exact h3.regs
    · exact h3.frame.withEd _

/-- `insertTail` at the character offset `off` of the line `body`, with arbitrary typed lines -/
theorem insertTail_lines_at_gen (s : VS) (x : Int) (body : List Nat) (off : Nat) (ls : List (List Nat)) (last : List Nat)
    (rest : Bytes)
    (hr0 : 0 ≤ s.ed.xrow) (hline : (Vi.lines s)[s.ed.xrow.toNat]? = some (encStr (body ++ [10])))
    (hb : ∀ c ∈ body, ValidCp c) (hb10 : 10 ∉ body)
    (hp : pending s = lineKeys ls last ++ rest) (hpl : ∀ l ∈ last :: ls, TLine l)
    (hlen : ls.length < 100000) (hk : s.xkmap = 0) :
    ∃ s', insertTail (encStr (body.take off)) (encStr (body.drop off ++ [10])) { s with ed := { s.ed with xoff := x } }
        = Res.ok VC_OK s' ∧ pending s' = rest ∧
      Inserted (lineKeys ls last) s s' s.ed.xrow
        (rowLines (rowsG s.xai (hdRest (body.take off)) (aiRaw (body.take off)) ls last (body.drop off))) 1
        (s.ed.xrow + (ls.length : Int))
        (offG (lastPreG s.xai (hdRest (body.take off)) (aiRaw (body.take off)) ls last (body.drop off)).length) := by
  obtain ⟨s', h1, h2, h3⟩ := insertTail_lines_gen (body.take off) (body.drop off)
    { s with ed := { s.ed with xoff := x } } ls last rest _ hr0 hline
    (fun d hd => hb d (List.mem_of_mem_take hd)) (fun d hd => hb d (List.mem_of_mem_drop hd))
    (fun h => hb10 (List.mem_of_mem_take h)) (fun h => hb10 (List.mem_of_mem_drop h)) hp hpl hlen hk
  exact ⟨s', h1, h2, h3.of_ed rfl rfl⟩

end Neatvi.Lemmas.C08e
