import NeatviVerif.Lemmas.C05hB
/-!
# C05h, part C: `ExNoTrap` as stated is false; the two invariants (`SOk` of C05f, `Safe` of C05e) are incomparable;
the initial state; `MarksIn` is not an invariant
-/
set_option linter.unusedSimpArgs false
set_option linter.unusedVariables false
namespace Neatvi.Lemmas.C05h
open Neatvi Neatvi.Uc Neatvi.Lbuf Neatvi.Ex Neatvi.Mot Neatvi.Vi Neatvi.Rset
open Neatvi.Lemmas.C05e Neatvi.Lemmas.C05f Neatvi.Lemmas.C02b
open Neatvi.Props.C05c (iterate)

theorem regsOk_default : RegsOk ({} : Regs) := by
  intro c x hx
  have : ((List.replicate 256 (none : Option Bytes)).getD c none) = none := by
    rw [List.getD_eq_getElem?_getD]
    cases h : (List.replicate 256 (none : Option Bytes))[c]? with
    | none => rfl
    | some y =>
      rw [List.getElem?_replicate] at h
      split at h
      · cases h; rfl
      · cases h
  exact absurd (this.symm.trans hx) (by simp)

/-! ### `ExNoTrap` is false: the path limit of the model -/

/-- the empty buffer with a path of 500 bytes (`C05e.edLong`), as a vi state -/
def sLong : VS := { ed := edLong }

theorem sLong_sok : SOk sLong True :=
  ⟨⟨{ path := List.replicate 500 97, lb := Lbuf.make }, rfl, histOk_of_no_hist _ rfl rfl (by intro l hl; cases hl)⟩, regsOk_default⟩

theorem sLong_rowOk : RowOk sLong := ⟨Int.le_refl 0, fun h => absurd rfl h⟩

theorem sLong_edSafe : EdSafe sLong := ⟨edLong_safe, rfl⟩

/-- `edLong` as `exCommandV` hands it to `ex_command` -/
def edL : Ed := { edLong with out := [], msg := [], input := [], xvis := true }

theorem edL_path : pathExpand edL [37, 37] true = none := by decide +kernel

/-- `:w %%` on it: the expansion is 1000 bytes long, where the model stops following `ex_pathexpand` -/
theorem edL_write_traps : exCommand 64 edL [119, 32, 37, 37] = none := by
  rw [exCommand, exExec]
  rw [if_neg (by decide)]
  rw [exExec.cmds]
  rw [if_neg (by decide)]
  have h1 : exLoc [119, 32, 37, 37] = ([], [119, 32, 37, 37]) := by decide +kernel
  have h2 : exCmd [119, 32, 37, 37] = ([119], [32, 37, 37]) := by decide +kernel
  have h3 : exIdx [119] = some ([119], "ec_write") := by decide +kernel
  have h4 : exArg [32, 37, 37] [119] = ([37, 37], []) := by decide +kernel
  have h5 : exTxt edL [] [119] = ((none, []), edL) := by rfl
  simp only [h1, h2, h3, h4, h5]
  rw [write_of_path_none 61 edL [] _ 37 [37] none edL_path]

theorem sLong_traps : exCommandV [119, 32, 37, 37] sLong = Res.trap := by
  have hw : exWantsInput [119, 32, 37, 37] = false := by decide +kernel
  have hs : setOf [119, 32, 37, 37] = none := by decide +kernel
  unfold exCommandV
  simp only [hw, hs, Bool.false_eq_true, if_false]
  split
  · rfl
  · rename_i rc ed heq
    have h : exCommand 64 edL [119, 32, 37, 37] = some (rc, ed) := heq
    rw [edL_write_traps] at h
    cases h

/-- **`ExNoTrap` is false**: `:w %%` (a NUL-free line) on a state with C05f's invariant *and* C05e's, whose file name is
    500 bytes long, traps in the model (not in the C code, which truncates at 1023 bytes) -/
theorem exNoTrap_is_false : ¬ ExNoTrap := by
  intro h
  exact h [119, 32, 37, 37] sLong sLong_sok sLong_rowOk (by decide) sLong_traps

/-- the line `w %%` is outside the covered class, as it must be -/
theorem w_percent_not_covered : ¬ ColonLineOk [119, 32, 37, 37] := by
  intro h
  exact exCommandV_no_trap _ _ sLong_edSafe h sLong_traps

/-! ### the two invariants are incomparable -/

/-- C05f's invariant says nothing about the remembered pattern: a state with `SOk`, a valid row, whose `xkwd` is not a
    C string, is not `Safe` -/
def sKwd : VS := { ed := { edLong with xkwd := [92, 0] } }

theorem sok_not_safe : SOk sKwd True ∧ RowOk sKwd ∧ ¬ Safe sKwd.ed :=
  ⟨⟨⟨{ path := List.replicate 500 97, lb := Lbuf.make }, rfl, histOk_of_no_hist _ rfl rfl (by intro l hl; cases hl)⟩,
      regsOk_default⟩, ⟨Int.le_refl 0, fun h => absurd rfl h⟩, fun h => h.kwd (by decide)⟩

/-- C05e's invariant says nothing about the bytes of the lines: `lbuf_edit` accepts a text with a NUL inside (the model
    takes byte lists), the state is `Safe`, and C05f's invariant fails -/
theorem safe_not_sok : ∃ s : VS, EdSafe s ∧ RowOk s ∧ ∀ c, ¬ SOk s c := by
  have hne : Lbuf.edit Lbuf.make (some [97, 0, 98, 10]) 0 0 ≠ none := by decide +kernel
  cases he : Lbuf.edit Lbuf.make (some [97, 0, 98, 10]) 0 0 with
  | none => exact absurd he hne
  | some lb =>
    have hl : lb.lines = [[97, 0, 98, 10]] := by
      have h : (Lbuf.edit Lbuf.make (some [97, 0, 98, 10]) 0 0).map Lb.lines = some [[97, 0, 98, 10]] := by decide +kernel
      rw [he] at h
      exact Option.some.inj h
    have hg : GoodLb lb := goodLb_make.edit he
    refine ⟨{ ed := { bufs := some { path := [], lb := lb } :: List.replicate 15 none } }, ?_, ?_, ?_⟩
    · exact ⟨safe_single _ { path := [], lb := lb } hg rfl (by show (0 : Nat) ∉ ([] : Bytes); simp), rfl⟩
    · refine ⟨Int.le_refl 0, fun _ => ?_⟩
      show (0 : Int) < ((lb.lines.length : Nat) : Int)
      rw [hl]; decide
    · intro c h
      obtain ⟨b, hb, hh⟩ := h.1
      have hb' : b = { path := [], lb := lb } := by
        have : (some ({ path := [], lb := lb } : Buf)) = some b := hb
        exact (Option.some.inj this).symm
      subst hb'
      have := hh.lines [97, 0, 98, 10] (by show [97, 0, 98, 10] ∈ lb.lines; rw [hl]; simp)
      exact this.noNul (by decide)

/-! ### the initial state -/

/-- **the state `vi` starts from** — `ex_init` on the empty buffer table, then `viInit` — has C05e's invariant, for
    every file name C05e covers, every content of the file system, every key stream and window size -/
theorem init_edSafe (ed0 : Ed) (files : List Bytes) (h0 : ed0.bufs = List.replicate Gen.NBUFS none) (hk : 0 ∉ ed0.xkwd)
    (hd : ed0.atDepth = 0) (hn : NameOk files) (keys : Bytes) (rows cols : Int) :
    ∃ rc ed1, exInit ed0 files = some (rc, ed1) ∧ EdSafe (viInit ed1 keys rows cols) := by
  obtain ⟨rc, ed1, hi, h1, hd1⟩ := init_ok ed0 files h0 hk hd hn
  exact ⟨rc, ed1, hi, h1.of_bufs rfl, hd1⟩

/-! ### `MarksIn` is not an invariant -/

/-- mark `m` points beyond the buffer with a positive column -/
def badMark (m : Nat) (s : VS) : Bool :=
  match s.ed.lb with
  | some lb =>
    (match jump lb m with
     | some (p, q) => (lineAt (lines s) p).isNone && decide (0 < q)
     | none => false)
  | none => false

theorem not_marksIn_of_bad {m : Nat} {s : VS} (h : badMark m s = true) : ¬ MarksIn s := by
  intro hm
  unfold badMark at h
  split at h
  · rename_i lb hlb
    split at h
    · rename_i p q hj
      simp only [Bool.and_eq_true, Option.isNone_iff_eq_none, decide_eq_true_eq] at h
      have := hm lb m p q hlb hj h.1
      omega
    · cases h
  · cases h

theorem bad_after_undo :
    (iterate 3 (oneLine [36, 111, 120, 121, 122, 27, 117, 100, 96, 42])).any (badMark 42) = true := by decide +kernel

/-- **`MarksIn` is not preserved by the iterations of the loop**: it holds on the one-line buffer `hello w` (no mark is
    set) and fails three commands later (`$`, `oxyz<ESC>`, `u`): the mark `*` is `(1, 3)` in a buffer of one line -/
theorem marksIn_not_invariant :
    MarksIn (oneLine [36, 111, 120, 121, 122, 27, 117, 100, 96, 42]) ∧
    ∃ t, iterate 3 (oneLine [36, 111, 120, 121, 122, 27, 117, 100, 96, 42]) = some t ∧ ¬ MarksIn t := by
  constructor
  · refine marksIn_of_no_marks ?_
    intro lb hlb i
    have h : (oneLine [36, 111, 120, 121, 122, 27, 117, 100, 96, 42]).ed.lb =
        some { lines := [[104, 101, 108, 108, 111, 32, 119, 10]] } := rfl
    rw [h] at hlb
    cases hlb
    show (List.replicate Gen.NMARKS (-1 : Int)).getD i (-1) = -1
    rw [List.getD_eq_getElem?_getD]
    cases h : (List.replicate Gen.NMARKS (-1 : Int))[i]? with
    | none => rfl
    | some y => rw [List.getElem?_replicate] at h; split at h <;> simp_all
  · have h := bad_after_undo
    cases ht : iterate 3 (oneLine [36, 111, 120, 121, 122, 27, 117, 100, 96, 42]) with
    | none => rw [ht] at h; cases h
    | some t =>
      rw [ht] at h
      exact ⟨t, rfl, not_marksIn_of_bad h⟩

end Neatvi.Lemmas.C05h
