import NeatviVerif.Model.Lbuf
import NeatviVerif.Spec.Zipper
import NeatviVerif.Props.C01
/-!
# Lemmas about the undo history of the line buffer (used by Props/C04)

Part 1: splices and their inverses, frame lemmas of `replace`, faithful history entries,
the walk of `undoGo` / `redoGo` over one run of equal sequence numbers.
-/
namespace Neatvi.Lemmas.Hist
open Neatvi Neatvi.Lbuf Neatvi.Spec Neatvi.Props.C01

/-- lines of an optional C string (`NULL` has none) -/
def optLines (o : Option Bytes) : Text := match o with | none => [] | some x => splitLines x

theorem optLines_wf (o : Option Bytes) : ∀ l ∈ optLines o, WfLine l := by
  cases o with
  | none => intro l hl; simp [optLines] at hl
  | some x => exact lines_wf x

theorem lineCount_eq (o : Option Bytes) : lineCount o = (optLines o).length := by
  cases o <;> rfl

/-! ### the reference splitter is the model's splitter -/

theorem refLines_go_eq (s cur : Bytes) : refLines.go s cur = splitAux s cur := by
  induction s generalizing cur with
  | nil => cases cur <;> simp [refLines.go, splitAux]
  | cons b r ih =>
    simp only [refLines.go, splitAux, ih]
    by_cases hb : b = 10 <;> simp [hb]

theorem refLines_eq (s : Bytes) : refLines s = splitLines s := refLines_go_eq s []

/-! ### splices -/

theorem splice_length (t : Text) (pos n : Nat) (ins : Text) (h : pos + n ≤ t.length) :
    (splice t pos n ins).length = t.length - n + ins.length := by
  unfold splice
  simp only [List.length_append, List.length_take, List.length_drop]
  omega

theorem splice_inverse (t : Text) (pos ndel : Nat) (ins : Text) (h : pos + ndel ≤ t.length) :
    splice (splice t pos ndel ins) pos ins.length ((t.drop pos).take ndel) = t := by
  unfold splice
  have h1 : (t.take pos ++ ins ++ t.drop (pos + ndel)).take pos = t.take pos := by
    rw [List.append_assoc, List.take_append_of_le_length (by simp; omega)]
    simp [List.take_take]
  have h2 : (t.take pos ++ ins ++ t.drop (pos + ndel)).drop (pos + ins.length) = t.drop (pos + ndel) := by
    have : (t.take pos ++ ins).length = pos + ins.length := by simp; omega
    rw [← this, List.drop_left]
  rw [h1, h2]
  have : (t.drop pos).take ndel ++ t.drop (pos + ndel) = t.drop pos := by
    rw [← List.drop_drop]; exact List.take_append_drop _ _
  rw [List.append_assoc, this, List.take_append_drop]

theorem splice_wf (t : Text) (pos n : Nat) (ins : Text)
    (ht : ∀ l ∈ t, WfLine l) (hi : ∀ l ∈ ins, WfLine l) : ∀ l ∈ splice t pos n ins, WfLine l := by
  intro l hl
  unfold splice at hl
  simp only [List.mem_append] at hl
  rcases hl with (hl | hl) | hl
  · exact ht l (List.mem_of_mem_take hl)
  · exact hi l hl
  · exact ht l (List.mem_of_mem_drop hl)

theorem splice_noop (t : Text) (pos : Nat) : splice t pos 0 [] = t := by
  unfold splice
  simp

/-! ### frame lemmas: marks do not touch text or history -/

theorem setMark_hist (lb : Lb) (c : Nat) (p o : Int) : (setMark lb c p o).hist = lb.hist := by
  unfold setMark; split <;> rfl
theorem setMark_histU (lb : Lb) (c : Nat) (p o : Int) : (setMark lb c p o).histU = lb.histU := by
  unfold setMark; split <;> rfl
theorem setMark_useq (lb : Lb) (c : Nat) (p o : Int) : (setMark lb c p o).useq = lb.useq := by
  unfold setMark; split <;> rfl

theorem loadMarks_lines (lb : Lb) (e : Entry) : (loadMarks lb e).lines = lb.lines := by
  unfold loadMarks; split <;> rfl
theorem loadMarks_hist (lb : Lb) (e : Entry) : (loadMarks lb e).hist = lb.hist := by
  unfold loadMarks; split <;> rfl
theorem loadMarks_histU (lb : Lb) (e : Entry) : (loadMarks lb e).histU = lb.histU := by
  unfold loadMarks; split <;> rfl
theorem loadMarks_useq (lb : Lb) (e : Entry) : (loadMarks lb e).useq = lb.useq := by
  unfold loadMarks; split <;> rfl

/-- `lbuf_replace` within bounds never traps, splices the text, and leaves the history alone -/
theorem replace_spec (lb : Lb) (s : Option Bytes) (pos nDel : Nat) (h : pos + nDel ≤ lb.lines.length) :
    ∃ lb', replace lb s pos nDel = some lb' ∧ lb'.lines = splice lb.lines pos nDel (optLines s) ∧
      lb'.hist = lb.hist ∧ lb'.histU = lb.histU ∧ lb'.useq = lb.useq := by
  unfold replace
  simp only [h, if_true]
  refine ⟨_, rfl, ?_, ?_, ?_, ?_⟩
  · rw [setMark_lines, setMark_lines]; rfl
  · rw [setMark_hist, setMark_hist]
  · rw [setMark_histU, setMark_histU]
  · rw [setMark_useq, setMark_useq]

/-! ### faithful entries and chains of them -/

/-- the splice an entry records, replayed forwards -/
def fwd (e : Entry) (t : Text) : Text := splice t e.pos e.nDel (optLines e.ins)

/-- entry `e` is a faithful record of a splice applied to `t` -/
def EntOk (e : Entry) (t : Text) : Prop :=
  e.pos + e.nDel ≤ t.length ∧ e.nIns = (optLines e.ins).length ∧ optLines e.del = (t.drop e.pos).take e.nDel

def applyFwd (t : Text) : List Entry → Text
  | [] => t
  | e :: r => applyFwd (fwd e t) r

/-- every entry is faithful with respect to the text before it -/
def Chain : Text → List Entry → Prop
  | _, [] => True
  | t, e :: r => EntOk e t ∧ Chain (fwd e t) r

theorem applyFwd_append (t : Text) (a b : List Entry) : applyFwd t (a ++ b) = applyFwd (applyFwd t a) b := by
  induction a generalizing t with
  | nil => rfl
  | cons e r ih => simp only [List.cons_append, applyFwd, ih]

theorem chain_append (t : Text) (a b : List Entry) :
    Chain t (a ++ b) ↔ Chain t a ∧ Chain (applyFwd t a) b := by
  induction a generalizing t with
  | nil => simp [Chain, applyFwd]
  | cons e r ih => simp [Chain, applyFwd, ih, and_assoc]

theorem chain_single (t : Text) (e : Entry) : Chain t [e] ↔ EntOk e t := by
  simp [Chain]

theorem applyFwd_single (t : Text) (e : Entry) : applyFwd t [e] = fwd e t := rfl

/-- undoing a faithful entry gives the previous text back -/
theorem fwd_inverse (e : Entry) (t : Text) (h : EntOk e t) :
    splice (fwd e t) e.pos e.nIns (optLines e.del) = t := by
  obtain ⟨h1, h2, h3⟩ := h
  rw [h2, h3]
  exact splice_inverse t e.pos e.nDel (optLines e.ins) h1

theorem fwd_bound (e : Entry) (t : Text) (h : EntOk e t) : e.pos + e.nIns ≤ (fwd e t).length := by
  obtain ⟨h1, h2, _⟩ := h
  unfold fwd
  rw [splice_length _ _ _ _ h1, h2]
  omega

/-! ### one entry undone / redone -/

theorem undo_entry (lb : Lb) (e : Entry) (t : Text) (u : Nat) (hok : EntOk e t) (hl : lb.lines = fwd e t) :
    ∃ lb1, replace { lb with histU := u } e.del e.pos e.nIns = some lb1 ∧
      (loadMarks (loadPos lb1 e) e).lines = t ∧ (loadMarks (loadPos lb1 e) e).hist = lb.hist ∧
      (loadMarks (loadPos lb1 e) e).histU = u ∧ (loadMarks (loadPos lb1 e) e).useq = lb.useq := by
  have hb : e.pos + e.nIns ≤ ({ lb with histU := u } : Lb).lines.length := by
    show e.pos + e.nIns ≤ lb.lines.length
    rw [hl]; exact fwd_bound e t hok
  obtain ⟨lb1, h1, h2, h3, h4, h5⟩ := replace_spec { lb with histU := u } e.del e.pos e.nIns hb
  refine ⟨lb1, h1, ?_, ?_, ?_, ?_⟩
  · rw [loadMarks_lines]
    show lb1.lines = t
    rw [h2]
    show splice lb.lines e.pos e.nIns (optLines e.del) = t
    rw [hl]; exact fwd_inverse e t hok
  · rw [loadMarks_hist]; exact h3
  · rw [loadMarks_histU]; exact h4
  · rw [loadMarks_useq]; exact h5

theorem redo_entry (lb : Lb) (e : Entry) (u : Nat) (hok : EntOk e lb.lines) :
    ∃ lb1, replace { lb with histU := u } e.ins e.pos e.nDel = some lb1 ∧
      (loadPos lb1 e).lines = fwd e lb.lines ∧ (loadPos lb1 e).hist = lb.hist ∧
      (loadPos lb1 e).histU = u ∧ (loadPos lb1 e).useq = lb.useq := by
  obtain ⟨lb1, h1, h2, h3, h4, h5⟩ := replace_spec { lb with histU := u } e.ins e.pos e.nDel hok.1
  exact ⟨lb1, h1, h2, h3, h4, h5⟩

/-! ### the loops walk over exactly one run -/

/-- `undoGo` over the run `G` (given reversed) that sits between `P` and `F` -/
theorem undoGo_run (T0 : Text) (s : Nat) (Gr : List Entry) :
    ∀ (fuel : Nat) (P F : List Entry) (lb : Lb),
      lb.hist = P ++ Gr.reverse ++ F → lb.histU = (P ++ Gr.reverse).length →
      Chain T0 (P ++ Gr.reverse) → lb.lines = applyFwd T0 (P ++ Gr.reverse) →
      (∀ e ∈ Gr, e.seq = s) → (∀ p ∈ P, p.seq ≠ s) → Gr.length ≤ fuel →
      ∃ lb', undoGo s fuel lb = some lb' ∧ lb'.lines = applyFwd T0 P ∧ lb'.hist = lb.hist ∧
        lb'.histU = P.length ∧ lb'.useq = lb.useq := by
  induction Gr with
  | nil =>
    intro fuel P F lb hh hu _ hl _ hP _
    simp only [List.reverse_nil, List.append_nil] at hh hu hl
    cases fuel with
    | zero => exact ⟨lb, rfl, hl, rfl, hu, rfl⟩
    | succ f =>
      cases hU : lb.histU with
      | zero => exact ⟨lb, by simp [undoGo, hU], hl, rfl, hu ▸ hU ▸ rfl, rfl⟩
      | succ u =>
        have hlt : u < P.length := by omega
        have hget : lb.hist[u]? = P[u]? := by rw [hh]; exact List.getElem?_append_left hlt
        have hp : P[u]? = some P[u] := List.getElem?_eq_getElem hlt
        have hne : P[u].seq ≠ s := hP _ (List.getElem_mem hlt)
        refine ⟨lb, ?_, hl, rfl, hu, rfl⟩
        simp [undoGo, hU, hget, hp, hne]
  | cons e Gr ih =>
    intro fuel P F lb hh hu hc hl hG hP hf
    simp only [List.reverse_cons, ← List.append_assoc] at hh hu hc hl
    cases fuel with
    | zero => simp at hf
    | succ f =>
      have hU : lb.histU = (P ++ Gr.reverse).length + 1 := by rw [hu]; simp; omega
      have hget : lb.hist[(P ++ Gr.reverse).length]? = some e := by
        rw [hh, List.append_assoc (P ++ Gr.reverse)]
        rw [List.getElem?_append_right (Nat.le_refl _)]
        simp
      have hes : e.seq = s := hG e (by simp)
      rw [chain_append] at hc
      have hok : EntOk e (applyFwd T0 (P ++ Gr.reverse)) := (chain_single _ _).1 hc.2
      rw [applyFwd_append, applyFwd_single] at hl
      obtain ⟨lb1, h1, h2, h3, h4, h5⟩ := undo_entry lb e _ (P ++ Gr.reverse).length hok hl
      obtain ⟨lb', g1, g2, g3, g4, g5⟩ := ih f P ([e] ++ F) (loadMarks (loadPos lb1 e) e)
        (by rw [h3, hh]; simp) h4 hc.1 h2 (fun x hx => hG x (by simp [hx])) hP (by simp at hf; omega)
      refine ⟨lb', ?_, g2, by rw [g3, h3], g4, by rw [g5, h5]⟩
      rw [undoGo]
      simp only [hU, hget, hes, if_true, h1]
      exact g1

/-- `redoGo` over the run `G` that sits between `P` and `F` -/
theorem redoGo_run (T0 : Text) (s : Nat) (G : List Entry) :
    ∀ (fuel : Nat) (P F : List Entry) (lb : Lb),
      lb.hist = P ++ G ++ F → lb.histU = P.length →
      Chain (applyFwd T0 P) G → lb.lines = applyFwd T0 P →
      (∀ e ∈ G, e.seq = s) → (∀ p ∈ F, p.seq ≠ s) → G.length ≤ fuel →
      ∃ lb', redoGo s fuel lb = some lb' ∧ lb'.lines = applyFwd T0 (P ++ G) ∧ lb'.hist = lb.hist ∧
        lb'.histU = (P ++ G).length ∧ lb'.useq = lb.useq := by
  induction G with
  | nil =>
    intro fuel P F lb hh hu _ hl _ hF _
    simp only [List.append_nil] at hh ⊢
    cases fuel with
    | zero => exact ⟨lb, rfl, hl, rfl, hu, rfl⟩
    | succ f =>
      refine ⟨lb, ?_, hl, rfl, hu, rfl⟩
      rw [redoGo]
      by_cases hlt : lb.histU < lb.hist.length
      · have hlt' : lb.histU - P.length < F.length := by rw [hh] at hlt; simp at hlt; omega
        have hget : lb.hist[lb.histU]? = some F[lb.histU - P.length] := by
          rw [hh, List.getElem?_append_right (by omega)]
          exact List.getElem?_eq_getElem hlt'
        have hne : F[lb.histU - P.length].seq ≠ s := hF _ (List.getElem_mem hlt')
        simp only [hlt, if_true, hget, hne, if_false]
      · simp only [hlt, if_false]
  | cons e G ih =>
    intro fuel P F lb hh hu hc hl hG hF hf
    cases fuel with
    | zero => simp at hf
    | succ f =>
      have hlt : lb.histU < lb.hist.length := by rw [hh, hu]; simp
      have hget : lb.hist[lb.histU]? = some e := by
        rw [hh, hu, List.append_assoc, List.getElem?_append_right (Nat.le_refl _)]
        simp
      have hes : e.seq = s := hG e (by simp)
      have hok : EntOk e lb.lines := by rw [hl]; exact hc.1
      obtain ⟨lb1, h1, h2, h3, h4, h5⟩ := redo_entry lb e (lb.histU + 1) hok
      obtain ⟨lb', g1, g2, g3, g4, g5⟩ := ih f (P ++ [e]) F (loadPos lb1 e)
        (by rw [h3, hh]; simp) (by rw [h4, hu]; simp)
        (by rw [applyFwd_append, applyFwd_single]; exact hc.2)
        (by rw [h2, hl, applyFwd_append, applyFwd_single])
        (fun x hx => hG x (by simp [hx])) hF (by simp at hf; omega)
      refine ⟨lb', ?_, by rw [g2]; simp, by rw [g3, h3], by rw [g4]; simp, by rw [g5, h5]⟩
      rw [redoGo]
      simp only [hlt, if_true, hget, hes, h1]
      exact g1

/-! ### a logging `lbuf_edit` -/

theorem opt_spec (lb : Lb) (buf : Option Bytes) (pos nDel : Nat) :
    ∃ en : Entry, (opt lb buf pos nDel).hist = lb.hist.take lb.histU ++ [en] ∧
      (opt lb buf pos nDel).histU = (lb.hist.take lb.histU).length + 1 ∧
      (opt lb buf pos nDel).useq = lb.useq ∧ (opt lb buf pos nDel).lines = lb.lines ∧
      en.pos = pos ∧ en.nDel = nDel ∧ en.ins = buf ∧ en.nIns = lineCount buf ∧ en.seq = lb.useq ∧
      en.del = (if nDel > 0 then some (cp lb pos (pos + nDel)) else none) := by
  unfold opt
  exact ⟨_, rfl, rfl, rfl, rfl, rfl, rfl, rfl, rfl, rfl, rfl⟩

theorem del_faithful (lb : Lb) (pos nDel : Nat) (hwf : ∀ l ∈ lb.lines, WfLine l) :
    optLines (if nDel > 0 then some (cp lb pos (pos + nDel)) else none) = (lb.lines.drop pos).take nDel := by
  by_cases h : nDel > 0
  · rw [if_pos h]
    show splitLines (cp lb pos (pos + nDel)) = _
    unfold cp
    rw [show pos + nDel - pos = nDel by omega]
    apply split_of_join
    intro l hl
    exact hwf l (List.mem_of_mem_drop (List.mem_of_mem_take hl))
  · rw [if_neg h]
    have : nDel = 0 := by omega
    subst this
    simp [optLines]

/-- an `lbuf_edit` that is not the no-op case never traps, appends one faithful entry carrying the
    current sequence number after the undone-to position, and splices the text -/
theorem edit_log (lb : Lb) (buf : Option Bytes) (b e : Nat) (A B : List Entry)
    (hh : lb.hist = A ++ B) (hu : lb.histU = A.length) (hwf : ∀ l ∈ lb.lines, WfLine l) (hbe : b ≤ e)
    (hlog : ¬ (min b lb.lines.length = min e lb.lines.length ∧ buf = none)) :
    ∃ lb' en, edit lb buf b e = some lb' ∧ lb'.hist = A ++ [en] ∧ lb'.histU = A.length + 1 ∧
      en.seq = lb.useq ∧ EntOk en lb.lines ∧ lb'.lines = fwd en lb.lines ∧
      fwd en lb.lines = splice lb.lines (min b lb.lines.length)
        (min e lb.lines.length - min b lb.lines.length) (optLines buf) ∧
      lb'.useq = lb.useq := by
  generalize hb' : min b lb.lines.length = b' at *
  generalize he' : min e lb.lines.length = e' at *
  have hle : b' ≤ e' := by omega
  have hen : e' ≤ lb.lines.length := by omega
  obtain ⟨en, o1, o2, o3, o4, p1, p2, p3, p4, p5, p6⟩ := opt_spec lb buf b' (e' - b')
  have hbound : b' + (e' - b') ≤ (opt lb buf b' (e' - b')).lines.length := by rw [o4]; omega
  obtain ⟨lb', r1, r2, r3, r4, r5⟩ := replace_spec (opt lb buf b' (e' - b')) buf b' (e' - b') hbound
  have htake : lb.hist.take lb.histU = A := by rw [hh, hu]; exact List.take_left
  have hfwd : fwd en lb.lines = splice lb.lines b' (e' - b') (optLines buf) := by
    unfold fwd; rw [p1, p2, p3]
  refine ⟨lb', en, ?_, ?_, ?_, p5, ?_, ?_, hfwd, ?_⟩
  · unfold edit
    simp only [hb', he']
    rw [if_neg (by omega)]
    have hc : (b' == e' && buf.isNone) = false := by
      cases buf with
      | none =>
        have : b' ≠ e' := fun h => hlog ⟨h, rfl⟩
        simp [this]
      | some x => simp
    rw [hc]
    exact r1
  · rw [r3, o1, htake]
  · rw [r4, o2, htake]
  · refine ⟨by rw [p1, p2]; omega, by rw [p4, p3]; exact lineCount_eq buf, ?_⟩
    rw [p6, p1, p2]
    exact del_faithful lb b' (e' - b') hwf
  · rw [r2, o4, hfwd]
  · rw [r5, o3]

/-- the no-op case of `lbuf_edit` -/
theorem edit_noop (lb : Lb) (b e : Nat)
    (h : min b lb.lines.length = min e lb.lines.length) : edit lb none b e = some lb := by
  unfold edit
  simp only [h]
  simp

end Neatvi.Lemmas.Hist
