import NeatviVerif.Props.C16b
import NeatviVerif.Lemmas.C07cBuf
import NeatviVerif.Props.C01
/-!
# C16c, part 1: the toolbox — a checker for valid UTF-8, cuts at bytes that are not continuation bytes,
  lines (`splitLines`, `flatten`), character offsets (`uc_chr`, `uc_sub`)
-/
set_option linter.unusedSimpArgs false
set_option linter.unusedVariables false
namespace Neatvi.Lemmas.C16c
open Neatvi Neatvi.Uc Neatvi.Spec Neatvi.Lbuf Neatvi.Props.C11b Neatvi.Props.C16b

/-! ## a checker -/

/-- executable validity check: decode with the reference decoder, check the code points, re-encode
    (the check the test harness uses, `Drive/ExSpec.validU8`, plus the range of the code points) -/
def u8chk (s : Bytes) : Bool :=
  decide (Valid (decodeStr s.length s)) && (encStr (decodeStr s.length s) == s)

theorem u8chk_iff (s : Bytes) : u8chk s = true ↔ IsU8 s := by
  unfold u8chk
  constructor
  · intro h
    simp only [Bool.and_eq_true, decide_eq_true_eq, beq_iff_eq] at h
    exact ⟨_, h.1, h.2.symm⟩
  · rintro ⟨cs, hv, rfl⟩
    have := Lemmas.C07c.decodeStr_encStr hv _ (Nat.le_refl (encStr cs).length)
    rw [this]
    simp [hv]

instance (s : Bytes) : Decidable (IsU8 s) := decidable_of_iff _ (u8chk_iff s)

/-! ## ASCII -/

theorem encStr_ascii : ∀ (s : Bytes), (∀ b ∈ s, b < 128) → encStr s = s
  | [], _ => rfl
  | b :: r, h => by
    rw [encStr_cons, C12.enc_low (h b (by simp)), encStr_ascii r (fun x hx => h x (by simp [hx]))]
    rfl

/-- a string of non-zero ASCII bytes is valid -/
theorem isU8_ascii {s : Bytes} (h : ∀ b ∈ s, 0 < b ∧ b < 128) : IsU8 s :=
  ⟨s, fun c hc => ⟨(h c hc).1, by have := (h c hc).2; omega⟩, (encStr_ascii s (fun b hb => (h b hb).2)).symm⟩

theorem isU8_single {b : Nat} (h0 : 0 < b) (h1 : b < 128) : IsU8 [b] :=
  isU8_ascii (by intro x hx; simp at hx; subst hx; exact ⟨h0, h1⟩)

theorem isU8_nl : IsU8 [10] := isU8_single (by decide) (by decide)

theorem isU8_replicate {b : Nat} (h0 : 0 < b) (h1 : b < 128) (n : Nat) : IsU8 (List.replicate n b) :=
  isU8_ascii (by intro x hx; rw [List.mem_replicate] at hx; rw [hx.2]; exact ⟨h0, h1⟩)

theorem isU8_cons_ascii {b : Nat} {r : Bytes} (h0 : 0 < b) (h1 : b < 128) (h : IsU8 r) : IsU8 (b :: r) :=
  isU8_append (isU8_single h0 h1) h

/-! ## cuts -/

/-- a position of a valid string that does not hold a continuation byte is a character boundary -/
theorem isBd_of_noncont {s : Bytes} (h : IsU8 s) {k : Nat} (hk : k ≤ s.length)
    (hnc : ¬ (128 ≤ s.getD k 0 ∧ s.getD k 0 < 192)) : IsBd s k := by
  obtain ⟨cs, hv, rfl⟩ := h
  exact noncont_isBd hv hk hnc

/-- what follows a valid prefix of a valid string is valid -/
theorem isU8_drop_of_take {s : Bytes} {k : Nat} (h : IsU8 s) (ht : IsU8 (s.take k)) : IsU8 (s.drop k) := by
  obtain ⟨p, hp, rfl⟩ := h
  obtain ⟨q, hq, eq⟩ := ht
  refine isU8_cancel_left hp hq (x := (encStr p).drop k) ?_
  rw [← eq, List.take_append_drop]

theorem isBd_of_take {s : Bytes} {k : Nat} (h : IsU8 s) (ht : IsU8 (s.take k)) : IsBd s k :=
  ⟨ht, isU8_drop_of_take h ht⟩

/-- a valid string cut in front of an ASCII byte: both parts are valid -/
theorem isU8_split_ascii {a b : Bytes} {c : Nat} (h : IsU8 (a ++ c :: b)) (hc : c < 128) : IsU8 a ∧ IsU8 b := by
  have hb : IsBd (a ++ c :: b) a.length := by
    apply isBd_of_noncont h (by simp)
    rw [show (a ++ c :: b).getD a.length 0 = c by simp [List.getD]]
    omega
  have h1 : IsU8 a := by simpa using hb.1
  have h2 : IsU8 (c :: b) := by simpa using hb.2
  exact ⟨h1, isU8_ascii_cons h2 hc⟩

theorem isU8_of_append_left {a b : Bytes} (h : IsU8 (a ++ b)) (hb : ¬ (128 ≤ b.headD 0 ∧ b.headD 0 < 192)) : IsU8 a := by
  have hbd : IsBd (a ++ b) a.length := by
    apply isBd_of_noncont h (by simp)
    have : (a ++ b).getD a.length 0 = b.headD 0 := by
      cases b <;> simp [List.getD]
    rw [this]; exact hb
  simpa using hbd.1

theorem isU8_of_append_right {a b : Bytes} (h : IsU8 (a ++ b)) (ha : IsU8 a) : IsU8 b := by
  have := isU8_drop_of_take (k := a.length) h (by simpa using ha)
  simpa using this

theorem takeWhile_length_le' {α : Type} (p : α → Bool) (s : List α) : (s.takeWhile p).length ≤ s.length :=
  (List.takeWhile_sublist p).length_le

theorem getD_takeWhile_length (p : Nat → Bool) (s : Bytes) :
    s.getD (s.takeWhile p).length 0 = (s.dropWhile p).headD 0 := by
  induction s with
  | nil => rfl
  | cons a r ih =>
    rw [List.takeWhile_cons, List.dropWhile_cons]
    split
    · simpa [List.getD] using ih
    · simp [List.getD]

theorem headD_dropWhile_not (p : Nat → Bool) (s : Bytes) (x : Nat) (r : Bytes) (h : s.dropWhile p = x :: r) : p x = false := by
  induction s with
  | nil => simp at h
  | cons a t ih =>
    rw [List.dropWhile_cons] at h
    split at h
    · exact ih h
    · rename_i hpa
      injection h with h1 _
      subst h1
      simpa using hpa

theorem mem_takeWhile_imp' (p : Nat → Bool) (s : Bytes) (b : Nat) (h : b ∈ s.takeWhile p) : p b = true := by
  induction s with
  | nil => simp at h
  | cons a t ih =>
    rw [List.takeWhile_cons] at h
    split at h
    · rcases List.mem_cons.mp h with rfl | h
      · assumption
      · exact ih h
    · simp at h

/-- `takeWhile` that stops only in front of bytes that are not continuation bytes -/
theorem isBd_takeWhile_stop {s : Bytes} (h : IsU8 s) (p : Nat → Bool)
    (hp : ∀ b, p b = false → ¬ (128 ≤ b ∧ b < 192)) : IsBd s (s.takeWhile p).length := by
  apply isBd_of_noncont h (takeWhile_length_le' p s)
  rw [getD_takeWhile_length]
  cases hd : s.dropWhile p with
  | nil => simp
  | cons x r =>
    have hx := headD_dropWhile_not p s x r hd
    simpa using hp x hx

theorem take_takeWhile_length {α : Type} (p : α → Bool) (s : List α) : s.take (s.takeWhile p).length = s.takeWhile p := by
  induction s with
  | nil => rfl
  | cons a r ih =>
    rw [List.takeWhile_cons]
    split
    · simp [ih]
    · simp

theorem drop_takeWhile_length {α : Type} (p : α → Bool) (s : List α) : s.drop (s.takeWhile p).length = s.dropWhile p := by
  induction s with
  | nil => rfl
  | cons a r ih =>
    rw [List.takeWhile_cons, List.dropWhile_cons]
    split
    · simp [ih]
    · simp

theorem isU8_takeWhile_stop {s : Bytes} (h : IsU8 s) (p : Nat → Bool)
    (hp : ∀ b, p b = false → ¬ (128 ≤ b ∧ b < 192)) : IsU8 (s.takeWhile p) := by
  have := (isBd_takeWhile_stop h p hp).1
  rwa [take_takeWhile_length] at this

theorem isU8_dropWhile_stop {s : Bytes} (h : IsU8 s) (p : Nat → Bool)
    (hp : ∀ b, p b = false → ¬ (128 ≤ b ∧ b < 192)) : IsU8 (s.dropWhile p) := by
  have := (isBd_takeWhile_stop h p hp).2
  rwa [drop_takeWhile_length] at this

/-- `takeWhile` over ASCII bytes only (blanks, digits …) -/
theorem isU8_takeWhile_ascii {s : Bytes} (h : IsU8 s) (p : Nat → Bool)
    (hp : ∀ b, p b = true → b < 128) : IsU8 (s.takeWhile p) := by
  apply isU8_ascii
  intro b hb
  have hm := mem_takeWhile_imp' p s b hb
  have hs : b ∈ s := (List.takeWhile_sublist p).subset hb
  exact ⟨(isU8_wf h b hs).1, hp b hm⟩

theorem isU8_dropWhile_ascii {s : Bytes} (h : IsU8 s) (p : Nat → Bool)
    (hp : ∀ b, p b = true → b < 128) : IsU8 (s.dropWhile p) := by
  have := isU8_drop_of_take (k := (s.takeWhile p).length) h (by rw [take_takeWhile_length]; exact isU8_takeWhile_ascii h p hp)
  rwa [drop_takeWhile_length] at this

/-- dropping one leading ASCII byte -/
theorem isU8_drop_one_ascii {s : Bytes} (h : IsU8 s) (ha : s.headD 0 < 128) : IsU8 (s.drop 1) := by
  cases s with
  | nil => exact isU8_nil
  | cons a r => exact isU8_ascii_cons h ha

/-- dropping trailing ASCII: `dropLast` of a string that ends with an ASCII byte -/
theorem isU8_dropLast_ascii {s : Bytes} (h : IsU8 s) (ha : ∀ x, s.getLast? = some x → x < 128) : IsU8 s.dropLast := by
  rcases List.eq_nil_or_concat s with rfl | ⟨t, x, rfl⟩
  · exact isU8_nil
  · have hx : x < 128 := ha x (by simp)
    have : IsU8 (t ++ x :: []) := by simpa using h
    simpa using (isU8_split_ascii this hx).1

/-! ## lines -/

theorem isU8_flatten {L : List Bytes} (h : ∀ l ∈ L, IsU8 l) : IsU8 L.flatten := by
  have := isU8_flatMap L id (by simpa using h)
  simpa [List.flatMap_id] using this

theorem splitAux_valid : ∀ (s cur : Bytes), IsU8 (cur ++ s) → ∀ l ∈ splitAux s cur, IsU8 l
  | [], cur, h => by
    intro l hl
    unfold splitAux at hl
    split at hl
    · simp at hl
    · simp only [List.mem_singleton] at hl
      subst hl
      exact isU8_append (by simpa using h) isU8_nl
  | b :: r, cur, h => by
    intro l hl
    unfold splitAux at hl
    split at hl
    · rename_i hb
      subst hb
      obtain ⟨h1, h2⟩ := isU8_split_ascii h (by decide)
      rcases List.mem_cons.mp hl with rfl | hl
      · exact isU8_append h1 isU8_nl
      · exact splitAux_valid r [] (by simpa using h2) l hl
    · exact splitAux_valid r (cur ++ [b]) (by simpa using h) l hl

/-- **the lines `lbuf_replace` cuts out of a valid text are valid** -/
theorem splitLines_valid {s : Bytes} (h : IsU8 s) : ∀ l ∈ splitLines s, IsU8 l :=
  splitAux_valid s [] (by simpa using h)

/-- `lbuf_cp` -/
theorem cp_valid (lb : Lb) (h : ∀ l ∈ lb.lines, IsU8 l) (b e : Nat) : IsU8 (cp lb b e) := by
  unfold cp
  apply isU8_flatten
  intro l hl
  exact h l ((List.drop_sublist b _).subset ((List.take_sublist _ _).subset hl))

/-- `cstr`: a valid string holds no NUL -/
theorem cstr_valid {s : Bytes} (h : IsU8 s) : LbufIo.cstr s = s := by
  unfold LbufIo.cstr
  apply Props.C01.takeWhile_all
  intro x hx
  have := isU8_no_nul h x hx
  simpa using this

/-! ## character offsets -/

theorem ucChr_isBd {s : Bytes} (h : IsU8 s) {k i : Nat} (hc : ucChr s k = some i) : IsBd s i := by
  obtain ⟨cs, hv, rfl⟩ := h
  rw [Props.C16.chr_spec hv] at hc
  split at hc
  · rename_i hk
    injection hc with hc
    subst hc
    exact isBd_of_boundary hv ⟨k, hk, rfl⟩
  · cases hc

theorem chrI_isBd {s : Bytes} (h : IsU8 s) {off : Int} {i : Nat} (hc : Vi.chrI s off = some i) : IsBd s i := by
  unfold Vi.chrI at hc
  split at hc
  · injection hc with hc
    subst hc
    exact isBd_of_ge h (Nat.le_refl _)
  · exact ucChr_isBd h hc

/-- **`uc_sub` of a valid string is valid** — for all offsets -/
theorem subI_valid {s : Bytes} (h : IsU8 s) {b e : Int} {x : Bytes} (hs : Vi.subI s b e = some x) : IsU8 x := by
  unfold Vi.subI at hs
  split at hs
  · rename_i ib ie h1 h2
    injection hs with hs
    subst hs
    split
    · rename_i hle
      exact isU8_slice (chrI_isBd h h1) (chrI_isBd h h2) hle
    · exact isU8_nil
  · cases hs

theorem ucSub_valid {s : Bytes} (h : IsU8 s) (b e : Nat) : IsU8 (ucSub s b e) := by
  unfold ucSub
  split
  · rename_i ib ie h1 h2
    split
    · rename_i hle
      exact isU8_slice (ucChr_isBd h h1) (ucChr_isBd h h2) hle
    · exact isU8_nil
  · exact isU8_nil

/-! ## `take` at a byte count cuts a valid string only when it lands on a boundary -/

theorem isU8_take_of_isBd {s : Bytes} {k : Nat} (h : IsBd s k) : IsU8 (s.take k) := h.1
theorem isU8_drop_of_isBd {s : Bytes} {k : Nat} (h : IsBd s k) : IsU8 (s.drop k) := h.2

theorem isU8_take_ge {s : Bytes} (h : IsU8 s) {k : Nat} (hk : s.length ≤ k) : IsU8 (s.take k) := by
  rw [List.take_of_length_le hk]; exact h

end Neatvi.Lemmas.C16c
