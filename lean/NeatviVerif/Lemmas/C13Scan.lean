import NeatviVerif.Model.Mot
/-!
# C13, part 1: `Mot.search` restated over an abstract per-line matcher

`gSearch` is a copy of the loops of `Mot.search` in which the call of `rstr_find` on the suffix of
the line is a parameter (`Matcher`).  `search_eq_generic` says that `Mot.search` is `gSearch` at the
matcher `reMatcher re` of the compiled pattern.
-/
namespace Neatvi.Lemmas.C13
open Neatvi Neatvi.Uc Neatvi.Rset Neatvi.Mot

/-- a per-line matcher: `m s off` looks for the first match in the suffix of `s` that starts at
    byte `off`; outer `none` = trap, `some none` = no match, `some (some (so, eo))` = the byte
    offsets of the match *relative to the suffix* -/
abbrev Matcher := Bytes → Nat → Option (Option (Nat × Nat))

/-- the matcher `lbuf_search` uses: `rstr_find` on the suffix, `RE_NOTBOL` unless the suffix is the line -/
def reMatcher (re : RStr) : Matcher := fun s off =>
  match rstrFind re (s.drop off) 1 (if off != 0 then RE_NOTBOL else 0) search.Ex_ND search.Ex_NG with
  | none => none
  | some (res, offs, _) =>
    if res < 0 then some none else some (some ((offs.getD 0 0).toNat, (offs.getD 1 0).toNat))

/-- where the next successive search starts: after the match, one byte further after an empty match -/
def nextOff (off so eo : Nat) : Nat := off + (if eo > so then eo else eo + 1)

/-- the position the search reports for a match at bytes `[b, b + (eo - so))` of `s`:
    character offset and length in characters -/
def report (s : Bytes) (b n : Nat) : Int × Int := ((ucOff s b : Nat), (ucOff (s.drop b) n : Nat))

/-- the inner `while` of `lbuf_search` on one line -/
def gGo (m : Matcher) (dir r0 o0 i : Int) (s : Bytes) : Nat → Nat → Option (Int × Int) → Option (Option (Int × Int))
  | 0, _, best => some best
  | f + 1, off, best =>
    match m s off with
    | none => none
    | some none => some best
    | some (some (so, eo)) =>
      if dir < 0 && r0 == i && (report s (off + so) (eo - so)).1 ≥ o0 then some best else
      let best := some (report s (off + so) (eo - so))
      if dir > 0 || nextOff off so eo ≥ s.length || s.getD (nextOff off so eo) 0 == 10 then some best
      else gGo m dir r0 o0 i s f (nextOff off so eo) best

/-- the byte offset the scan of row `i` starts from -/
def startOff (dir r0 o0 i : Int) (s : Bytes) : Nat :=
  if dir > 0 && r0 == i then (match ucChr s (o0 + 1).toNat with | some b => b | none => s.length + 1) else 0

def gLineScan (m : Matcher) (dir r0 o0 i : Int) (s : Bytes) : Option (Option (Int × Int)) :=
  if startOff dir r0 o0 i s > s.length then none else gGo m dir r0 o0 i s (s.length + 2) (startOff dir r0 o0 i s) none

/-- the loop over the rows -/
def gRows (ls : Lines) (dir : Int) (scan : Int → Bytes → Option (Option (Int × Int))) : Nat → Int → Option (Option (Int × Int × Int))
  | 0, _ => some none
  | f + 1, i =>
    if i < 0 || i ≥ (ls.length : Int) then some none else
    match lineAt ls i with
    | none => some none
    | some s =>
      match scan i s with
      | none => none
      | some (some (o, l)) => some (some (i, o, l))
      | some none => gRows ls dir scan f (i + dir)

def gSearch (m : Matcher) (ls : Lines) (dir r0 o0 : Int) : Option (Option (Int × Int × Int)) :=
  gRows ls dir (gLineScan m dir r0 o0) (ls.length + 1) r0

theorem go_eq (re : RStr) (dir r0 o0 i : Int) (s : Bytes) (f off : Nat) (best : Option (Int × Int)) :
    search.go dir r0 o0 re i s f off best = gGo (reMatcher re) dir r0 o0 i s f off best := by
  induction f generalizing off best with
  | zero => simp [search.go, gGo]
  | succ f ih =>
    rw [search.go, gGo]
    simp only [reMatcher]
    cases hm : rstrFind re (s.drop off) 1 (if off != 0 then RE_NOTBOL else 0) search.Ex_ND search.Ex_NG with
    | none => rfl
    | some x =>
      obtain ⟨res, offs, c⟩ := x
      simp only []
      by_cases hres : res < 0
      · simp [hres]
      · simp only [hres, if_false, report, nextOff, ih]
        rfl

theorem rows_eq (ls : Lines) (dir : Int) (scan : Int → Bytes → Option (Option (Int × Int))) (f : Nat) (i : Int) :
    search.rows ls dir (ls.length : Int) scan f i = gRows ls dir scan f i := by
  induction f generalizing i with
  | zero => simp [search.rows, gRows]
  | succ f ih => rw [search.rows, gRows]; simp only [ih]; rfl

/-- `Mot.search` is the generic scan at the matcher of the compiled pattern -/
theorem search_eq_generic (ls : Lines) (kw : Bytes) (icase : Bool) (dir r0 o0 : Int) :
    search ls kw icase dir r0 o0 =
      match rstrMake kw (if icase then RE_ICASE else 0) with
      | none => none
      | some none => some none
      | some (some re) => gSearch (reMatcher re) ls dir r0 o0 := by
  unfold search
  cases rstrMake kw (if icase then RE_ICASE else 0) with
  | none => rfl
  | some x =>
    cases x with
    | none => rfl
    | some re =>
      simp only [rows_eq, gSearch]
      congr 1
      funext i s
      simp only [gLineScan, startOff, go_eq]
      rfl

end Neatvi.Lemmas.C13
