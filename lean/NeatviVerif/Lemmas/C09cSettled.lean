import NeatviVerif.Lemmas.C09cBoundary
/-!
# C09c, part 20: a condition on the state alone under which the iteration that executes `.` moves nothing

`Settled s`: `vi_wfix()` and the horizontal scroll have nothing to do in `s`.  `dotSettled_of_settled`: then the iteration
that executes `.` leaves cursor and window where they are (`DotSettled`).
-/
namespace Neatvi.Lemmas.C09c
open Neatvi Neatvi.Uc Neatvi.Lbuf Neatvi.Ex Neatvi.Vi Neatvi.Mot
open Neatvi.Lemmas.C09b (Inv marked afterKey retype marked_ed_fields runOk)
open Neatvi.Props.C05c (iterate)

theorem bumpEd_nbw (e : Ed) : (bumpEd e).xrow = e.xrow ∧ (bumpEd e).xoff = e.xoff ∧ (bumpEd e).xtop = e.xtop ∧
    (bumpEd e).xleft = e.xleft := by
  unfold bumpEd
  split
  · rw [Lemmas.C06.setLb_fields]; exact ⟨rfl, rfl, rfl, rfl⟩
  · exact ⟨rfl, rfl, rfl, rfl⟩

theorem leftEd_keep (c w : Int) (e : Ed) (h1 : e.xleft ≤ c) (h2 : c < e.xleft + w) : leftEd c w e = e := by
  unfold leftEd
  dsimp only
  rw [if_neg (show ¬ c ≥ e.xleft + w by omega)]
  rw [if_neg (show ¬ c < e.xleft by omega)]

theorem lines_dotMid (s : VS) (rest : Bytes) : lines (dotMid s rest) = lines s := by
  have h : (dotMid s rest).ed.lb = s.ed.lb.map (fun lb => Lbuf.setMark lb 94 s.ed.xrow s.ed.xoff) :=
    Lemmas.C09b.marked_lb (afterKey s 46 rest)
  unfold lines
  rw [h]
  cases s.ed.lb with
  | none => rfl
  | some lb => simp [Lemmas.C09b.setMark_lines]

/-- the text of the current buffer, from the buffer table -/
def linesOf (l : List (Option Buf)) : Lines := match (l.getD 0 none).map (·.lb) with | some lb => lb.lines | none => []

theorem lines_bufs (A : VS) : lines A = linesOf A.ed.bufs := rfl

/-- `vi_wfix()` looks at the text, the cursor, the top row and the height of the window only -/
theorem wfixEd_congr (X Y : VS) (hl : lines X = lines Y) (h1 : X.ed.xrow = Y.ed.xrow) (h2 : X.ed.xtop = Y.ed.xtop)
    (h3 : X.ed.xoff = Y.ed.xoff) (h4 : X.xrows = Y.xrows) :
    (wfixEd X).xrow = (wfixEd Y).xrow ∧ (wfixEd X).xtop = (wfixEd Y).xtop ∧ (wfixEd X).xoff = (wfixEd Y).xoff := by
  rw [lines_bufs, lines_bufs] at hl
  unfold wfixEd
  simp only [lenOf, lineOf, lines_bufs, hl, h1, h2, h3, h4]
  exact ⟨rfl, rfl, rfl⟩

/-- **`vi_wfix()` and the horizontal scroll have nothing to do in `s`**: the cursor row, the top row and the column are
where `vi_wfix()` would put them, the sticky column is inside the horizontal window — what the end of an iteration
establishes -/
def Settled (s : VS) : Prop :=
  (wfixEd s).xrow = s.ed.xrow ∧ (wfixEd s).xtop = s.ed.xtop ∧ (wfixEd s).xoff = s.ed.xoff ∧
  s.ed.xleft ≤ s.xcol ∧ s.xcol < s.ed.xleft + s.xcols

instance (s : VS) : Decidable (Settled s) := by unfold Settled; infer_instance

/-- a condition on `s` alone that gives `DotSettled` -/
theorem dotSettled_of_settled (s : VS) (rest : Bytes) (h : Settled s) : DotSettled s rest := by
  obtain ⟨s1, s2, s3, s4, s5⟩ := h
  have hme : (dotMid s rest).ed = (marked (afterKey s 46 rest)).ed := rfl
  have hxr : (dotMid s rest).ed.xrow = s.ed.xrow := by rw [hme, marked_ed_fields]; rfl
  have hxo : (dotMid s rest).ed.xoff = s.ed.xoff := by rw [hme, marked_ed_fields]; rfl
  have hxt : (dotMid s rest).ed.xtop = s.ed.xtop := by rw [hme, marked_ed_fields]; rfl
  have hxl : (dotMid s rest).ed.xleft = s.ed.xleft := by rw [hme, marked_ed_fields]; rfl
  obtain ⟨w1, w2, w3⟩ := wfixEd_congr (dotMid s rest) s (lines_dotMid s rest) hxr hxt hxo rfl
  have w4 : (wfixEd (dotMid s rest)).xleft = s.ed.xleft := hxl
  have hl : leftEd (dotMid s rest).xcol (dotMid s rest).xcols (wfixEd (dotMid s rest)) = wfixEd (dotMid s rest) :=
    leftEd_keep _ _ _ (by rw [w4]; exact s4) (by rw [w4]; exact s5)
  unfold DotSettled
  show (postEd (dotMid s rest)).xrow = _ ∧ (postEd (dotMid s rest)).xoff = _ ∧ (postEd (dotMid s rest)).xtop = _ ∧
    (postEd (dotMid s rest)).xleft = _
  unfold postEd
  rw [hl]
  obtain ⟨a1, a2, a3, a4⟩ := bumpEd_nbw (bumpEd { wfixEd (dotMid s rest) with out := [] })
  obtain ⟨b1, b2, b3, b4⟩ := bumpEd_nbw { wfixEd (dotMid s rest) with out := [] }
  rw [a1, a2, a3, a4, b1, b2, b3, b4]
  exact ⟨w1.trans s1, w3.trans s3, w2.trans s2, w4⟩


/-- **`dot_retyped` between two commands**: `s` is the state after an iteration of `vi()` that went through its end,
started in a state whose sequence numbers lie below the counters — this gives `DotSeqOk` and `out = []` — and
`vi_wfix()` has nothing to do in `s` -/
theorem dot_retyped_between (s0 s1 X s : VS) (mv r o : Int) (mod : Nat) (rest : Bytes) (k : Nat) (h0 : EdSeqOk s0.ed)
    (hpre : viPre s0 = Res.ok (mv, r, o) s1) (hmid : Lemmas.C09b.stepMid mv r o s1 = Res.ok (some mod) X)
    (hqX : X.ed.xquit = false) (hs : viStep s0 = Res.ok () s)
    (hinv : Inv s) (hv : s.vibuf = []) (hd : s.ibuf.length ≤ s.ibufPos) (ht : s.typed = 46 :: rest)
    (hq : s.ed.xquit = false) (hset : Settled s)
    (hcmd : cmdFirst { s with typed := s.repCmd ++ rest } = true) (hok : runOk (k + 1) s = true) :
    DotOut k (iterate (k + 1) s) (iterate k { s with typed := s.repCmd ++ rest }) := by
  obtain ⟨hseq, hout⟩ := boundary_ok s0 s1 X s mv r o mod h0 hpre hmid hqX hs
  exact dot_retyped s rest k hinv hv hd ht hout hq hseq (dotSettled_of_settled s rest hset) hcmd hok

end Neatvi.Lemmas.C09c
