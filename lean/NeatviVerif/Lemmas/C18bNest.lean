import NeatviVerif.Lemmas.C18bRuns
/-!
# C18b helpers: nested groups — one round with recursion, the index map of the whole `dirFix`
-/
namespace Neatvi.Props.C18b
open Neatvi Neatvi.Dir Neatvi.Props.C18

/-- where the recursive scan of the group starts (`if (c_beg == r_beg) c_beg++`) -/
def recBeg (m : DMatch) : Nat := if m.cBeg == m.rBeg then m.cBeg + 1 else m.cBeg

/-- where the element at position `p` of the result of `dirFix` comes from; independent of `ord` -/
def fixIdx (M : Matcher) : (fuel : Nat) → Int → Nat → Nat → Nat → Nat
  | 0, _, _, _, p => p
  | fuel + 1, dir, b, e, p =>
    if b < e then
      match M b e dir with
      | some (some m) =>
        let q := fixIdx M fuel dir m.rEnd e p
        let q' := if m.cRec then fixIdx M fuel m.cDir (recBeg m) m.cEnd q else q
        stepIdx (decide (dir < 0)) m q'
      | _ => p
    else p

theorem recBeg_bounds {m : DMatch} {b e : Nat} (hr : InRange m b e) :
    m.cBeg ≤ recBeg m ∧ b < recBeg m ∧ m.rBeg ≤ recBeg m := by
  unfold InRange at hr
  unfold recBeg
  split
  · omega
  · next hne =>
    have : m.cBeg ≠ m.rBeg := by simpa using hne
    omega

/-- one round of `dirFix` for an in-range match, nested or not: the two conditional reversals never
    trap; then the group is rescanned in its own direction when `cRec`, then the scan resumes -/
theorem fix_step (M : Matcher) (fuel : Nat) (ord : List Nat) (dir : Int) (b e : Nat) (m : DMatch)
    (hbe : b < e) (h : M b e dir = some (some m)) (hr : InRange m b e) (he : e ≤ ord.length) :
    dirFix M (fuel + 1) ord dir b e =
      ((if m.cRec then dirFix M fuel (stepRev (decide (dir < 0)) ord m) m.cDir (recBeg m) m.cEnd
        else some (stepRev (decide (dir < 0)) ord m)).bind fun o3 => dirFix M fuel o3 dir m.rEnd e) := by
  have hr' := hr
  unfold InRange at hr'
  simp only [dirFix, if_pos hbe, h]
  rw [revIf_eq (by omega)]
  simp only [Option.bind_some]
  rw [revIf_eq (by rw [revSliceIf_length (by omega)]; omega)]
  simp only [Option.bind_some]
  rfl

/-- `run_step` generalised to a nested match -/
theorem fix_step_rec (M : Matcher) (fuel : Nat) (ord : List Nat) (dir : Int) (b e : Nat) (m : DMatch)
    (hbe : b < e) (h : M b e dir = some (some m)) (hr : InRange m b e) (he : e ≤ ord.length)
    (hrec : m.cRec = true) :
    dirFix M (fuel + 1) ord dir b e =
      ((dirFix M fuel (stepRev (decide (dir < 0)) ord m) m.cDir (recBeg m) m.cEnd).bind
        fun o3 => dirFix M fuel o3 dir m.rEnd e) := by
  rw [fix_step M fuel ord dir b e m hbe h hr he, if_pos hrec]

/-- `f` moves positions only inside `[b, e)` -/
def Within (b e : Nat) (f : Nat → Nat) : Prop :=
  ∀ p, (¬ (b ≤ p ∧ p < e) → f p = p) ∧ (b ≤ p → p < e → b ≤ f p ∧ f p < e)

theorem within_mono {b e b' e' : Nat} {f : Nat → Nat} (h : Within b e f) (hb : b' ≤ b) (he : e ≤ e') :
    Within b' e' f := by
  intro p
  constructor
  · intro hp; exact (h p).1 (by omega)
  · intro h1 h2
    by_cases hin : b ≤ p ∧ p < e
    · have := (h p).2 hin.1 hin.2; omega
    · rw [(h p).1 hin]; exact ⟨h1, h2⟩

theorem stepIdx_within {neg : Bool} {m : DMatch} {b e : Nat} (hr : InRange m b e) :
    Within m.rBeg m.rEnd (stepIdx neg m) := by
  intro p
  exact ⟨fun h => stepIdx_out hr h, fun h1 h2 => stepIdx_range hr h1 h2⟩

/-- the index map of `dirFix` over a lawful matcher moves positions only inside `[b, e)` -/
theorem fixIdx_within {M : Matcher} (hM : Lawful M) : ∀ (fuel : Nat) (dir : Int) (b e : Nat),
    Within b e (fixIdx M fuel dir b e) := by
  intro fuel
  induction fuel with
  | zero => intro dir b e p; exact ⟨fun _ => rfl, fun h1 h2 => ⟨h1, h2⟩⟩
  | succ f ih =>
    intro dir b e p
    simp only [fixIdx]
    by_cases hbe : b < e
    · rw [if_pos hbe]
      obtain ⟨r, hr, hlaw⟩ := hM b e dir hbe
      rw [hr]
      cases r with
      | none => exact ⟨fun _ => rfl, fun h1 h2 => ⟨h1, h2⟩⟩
      | some m =>
        have hin : InRange m b e := hlaw m rfl
        have hin' := hin
        unfold InRange at hin'
        obtain ⟨rb1, rb2, rb3⟩ := recBeg_bounds hin
        dsimp only
        have w1 := ih dir m.rEnd e p
        generalize fixIdx M f dir m.rEnd e p = q at w1
        have w2 : (¬ (m.rBeg ≤ q ∧ q < m.rEnd) →
              (if m.cRec = true then fixIdx M f m.cDir (recBeg m) m.cEnd q else q) = q) ∧
            (m.rBeg ≤ q → q < m.rEnd →
              m.rBeg ≤ (if m.cRec = true then fixIdx M f m.cDir (recBeg m) m.cEnd q else q) ∧
              (if m.cRec = true then fixIdx M f m.cDir (recBeg m) m.cEnd q else q) < m.rEnd) := by
          split
          · exact within_mono (ih m.cDir (recBeg m) m.cEnd) rb3 (by omega) q
          · exact ⟨fun _ => rfl, fun h1 h2 => ⟨h1, h2⟩⟩
        generalize (if m.cRec = true then fixIdx M f m.cDir (recBeg m) m.cEnd q else q) = q' at w2
        have w3 := stepIdx_within (neg := decide (dir < 0)) hin q'
        generalize stepIdx (decide (dir < 0)) m q' = q'' at w3
        constructor
        · intro hp
          have e1 : q = p := w1.1 (by omega)
          have e2 : q' = q := w2.1 (by omega)
          have e3 : q'' = q' := w3.1 (by omega)
          omega
        · intro hp1 hp2
          by_cases hq : m.rBeg ≤ q ∧ q < m.rEnd
          · have := w2.2 hq.1 hq.2
            have := w3.2 this.1 this.2
            omega
          · have e2 : q' = q := w2.1 hq
            have e3 : q'' = q' := w3.1 (by omega)
            by_cases hp3 : m.rEnd ≤ p
            · have := w1.2 hp3 hp2; omega
            · have e1 : q = p := w1.1 (by omega)
              omega
    · rw [if_neg hbe]; exact ⟨fun _ => rfl, fun h1 h2 => ⟨h1, h2⟩⟩

/-- whole line, nesting allowed, any lawful matcher: `dirFix` does not trap, keeps the length, and
    the element at `p` of the result is the element at `fixIdx … p` of the input -/
theorem fix_idx {M : Matcher} (hM : Lawful M) : ∀ (fuel : Nat) (ord : List Nat) (dir : Int) (b e : Nat),
    e - b ≤ fuel → e ≤ ord.length →
    ∃ ord', dirFix M fuel ord dir b e = some ord' ∧ ord'.length = ord.length ∧
      ∀ p, ord'[p]? = ord[fixIdx M fuel dir b e p]? := by
  intro fuel
  induction fuel with
  | zero =>
    intro ord dir b e hf he
    simp only [dirFix, fixIdx]
    rw [if_neg (by omega)]
    exact ⟨ord, rfl, rfl, fun _ => rfl⟩
  | succ f ih =>
    intro ord dir b e hf he
    by_cases hbe : b < e
    · obtain ⟨r, hr, hlaw⟩ := hM b e dir hbe
      cases r with
      | none =>
        refine ⟨ord, no_match_identity M f ord dir b e hr, rfl, ?_⟩
        intro p; simp only [fixIdx, if_pos hbe, hr]
      | some m =>
        have hin : InRange m b e := hlaw m rfl
        have hin' := hin
        unfold InRange at hin'
        obtain ⟨rb1, rb2, rb3⟩ := recBeg_bounds hin
        rw [fix_step M f ord dir b e m hbe hr hin he]
        have hl2 := stepRev_length (neg := decide (dir < 0)) hin he
        have s3 : ∃ o3, (if m.cRec = true then
              dirFix M f (stepRev (decide (dir < 0)) ord m) m.cDir (recBeg m) m.cEnd
            else some (stepRev (decide (dir < 0)) ord m)) = some o3 ∧ o3.length = ord.length ∧
            ∀ q, o3[q]? = ord[stepIdx (decide (dir < 0)) m
              (if m.cRec = true then fixIdx M f m.cDir (recBeg m) m.cEnd q else q)]? := by
          split
          · obtain ⟨o3, h1, h2, h3⟩ := ih (stepRev (decide (dir < 0)) ord m) m.cDir (recBeg m) m.cEnd
              (by omega) (by omega)
            refine ⟨o3, h1, by omega, ?_⟩
            intro q; rw [h3 q, stepRev_getElem? hin he]
          · exact ⟨_, rfl, hl2, fun q => stepRev_getElem? hin he q⟩
        obtain ⟨o3, e3, n3, g3⟩ := s3
        rw [e3]
        simp only [Option.bind_some]
        obtain ⟨o4, e4, n4, g4⟩ := ih o3 dir m.rEnd e (by omega) (by omega)
        refine ⟨o4, e4, by omega, ?_⟩
        intro p
        rw [g4 p, g3]
        simp only [fixIdx, if_pos hbe, hr]
    · simp only [dirFix, fixIdx, if_neg hbe]
      exact ⟨ord, rfl, rfl, fun _ => rfl⟩

/-- the index map does not depend on the fuel once there is enough of it -/
theorem fixIdx_fuel {M : Matcher} (hM : Lawful M) : ∀ (f1 f2 : Nat) (dir : Int) (b e p : Nat),
    e - b ≤ f1 → e - b ≤ f2 → fixIdx M f1 dir b e p = fixIdx M f2 dir b e p := by
  intro f1
  induction f1 with
  | zero =>
    intro f2 dir b e p h1 _
    cases f2 with
    | zero => rfl
    | succ g => simp only [fixIdx]; rw [if_neg (by omega)]
  | succ f ih =>
    intro f2 dir b e p h1 h2
    cases f2 with
    | zero => simp only [fixIdx]; rw [if_neg (by omega)]
    | succ g =>
      simp only [fixIdx]
      by_cases hbe : b < e
      · rw [if_pos hbe, if_pos hbe]
        obtain ⟨r, hr, hlaw⟩ := hM b e dir hbe
        rw [hr]
        cases r with
        | none => rfl
        | some m =>
          have hin : InRange m b e := hlaw m rfl
          have hin' := hin
          unfold InRange at hin'
          obtain ⟨rb1, rb2, rb3⟩ := recBeg_bounds hin
          dsimp only
          rw [ih g dir m.rEnd e p (by omega) (by omega)]
          cases hrec : m.cRec with
          | false => rfl
          | true =>
            simp only [if_true]
            rw [ih g m.cDir (recBeg m) m.cEnd _ (by omega) (by omega)]
      · rw [if_neg hbe, if_neg hbe]

/-- the index map along the top-level scan: inside the range of a scanned match it is that match's
    two conditional mirrors composed with the index map of the recursive scan of its group (when
    nested); outside all ranges it is the identity -/
theorem fixIdx_scan {M : Matcher} (hM : Lawful M) {dir : Int} {e b : Nat} {ms : List DMatch}
    (hs : Scan M dir e b ms) : ∀ (fuel : Nat), e - b ≤ fuel → ∀ p,
      (∀ m ∈ ms, m.rBeg ≤ p → p < m.rEnd →
        fixIdx M fuel dir b e p = stepIdx (decide (dir < 0)) m
          (if m.cRec then fixIdx M fuel m.cDir (recBeg m) m.cEnd p else p)) ∧
      ((∀ m ∈ ms, ¬ (m.rBeg ≤ p ∧ p < m.rEnd)) → fixIdx M fuel dir b e p = p) := by
  induction hs with
  | @done b hbe =>
    intro fuel _ p
    refine ⟨fun m hm => (by cases hm), fun _ => ?_⟩
    cases fuel with
    | zero => rfl
    | succ f => simp only [fixIdx, if_neg hbe]
  | @stop b hbe hm =>
    intro fuel hf p
    refine ⟨fun m hm => (by cases hm), fun _ => ?_⟩
    cases fuel with
    | zero => rfl
    | succ f => simp only [fixIdx, if_pos hbe, hm]
  | @next b m ms hbe hm hs' ih =>
    intro fuel hf p
    obtain ⟨r, hr, hlaw⟩ := hM b e dir hbe
    rw [hm] at hr; cases hr
    have hin : InRange m b e := hlaw m rfl
    have hin' := hin
    unfold InRange at hin'
    obtain ⟨rb1, rb2, rb3⟩ := recBeg_bounds hin
    have hc := scan_chained hM hs'
    cases fuel with
    | zero => omega
    | succ f =>
      have hrest := fixIdx_within hM f dir m.rEnd e p
      have ihp := ih f (by omega) p
      have hunf : fixIdx M (f + 1) dir b e p = stepIdx (decide (dir < 0)) m
          (if m.cRec = true then fixIdx M f m.cDir (recBeg m) m.cEnd (fixIdx M f dir m.rEnd e p)
            else fixIdx M f dir m.rEnd e p) := by
        simp only [fixIdx, if_pos hbe, hm]
      have hfu : ∀ q, fixIdx M f m.cDir (recBeg m) m.cEnd q = fixIdx M (f + 1) m.cDir (recBeg m) m.cEnd q :=
        fun q => fixIdx_fuel hM f (f + 1) m.cDir (recBeg m) m.cEnd q (by omega) (by omega)
      have hfu2 : fixIdx M f dir m.rEnd e p = fixIdx M (f + 1) dir m.rEnd e p :=
        fixIdx_fuel hM f (f + 1) dir m.rEnd e p (by omega) (by omega)
      constructor
      · intro m' hm' h1 h2
        rcases List.mem_cons.mp hm' with rfl | hm''
        · rw [hunf, hrest.1 (by omega)]
          simp only [hfu]
        · have hr0 := chained_mem hc m' hm''
          have hr' := hr0
          unfold InRange at hr'
          have hrb := recBeg_bounds hr0
          have key := ihp.1 m' hm'' h1 h2
          have hw := (fixIdx_within hM f dir m.rEnd e p).2 (by omega) (by omega)
          rw [hunf]
          have hinner : (if m.cRec = true then fixIdx M f m.cDir (recBeg m) m.cEnd (fixIdx M f dir m.rEnd e p)
              else fixIdx M f dir m.rEnd e p) = fixIdx M f dir m.rEnd e p := by
            split
            · exact (fixIdx_within hM f m.cDir (recBeg m) m.cEnd _).1 (by omega)
            · rfl
          rw [hinner, stepIdx_out hin (by omega), key]
          congr 1
          split
          · exact fixIdx_fuel hM f (f + 1) m'.cDir (recBeg m') m'.cEnd p (by omega) (by omega)
          · rfl
      · intro hp
        have hp0 := hp m List.mem_cons_self
        have key := ihp.2 (fun m' hm' => hp m' (List.mem_cons_of_mem _ hm'))
        rw [hunf, key]
        have hinner : (if m.cRec = true then fixIdx M f m.cDir (recBeg m) m.cEnd p else p) = p := by
          split
          · exact (fixIdx_within hM f m.cDir (recBeg m) m.cEnd p).1 (by omega)
          · rfl
        rw [hinner, stepIdx_out hin hp0]

end Neatvi.Props.C18b
