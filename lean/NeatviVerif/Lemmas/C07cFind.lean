import NeatviVerif.Lemmas.C07cBuf
import NeatviVerif.Lemmas.C07Find
/-!
# C07c: `lbuf_findchar` on a valid UTF-8 line against `Spec.Motion.findChar`

The line is `encStr cs`; positions are character offsets; `occF` / `occB` of `Lemmas/C07Find` are used
over the list of code points.
-/
set_option linter.unusedSimpArgs false
set_option linter.unusedVariables false
namespace Neatvi.Lemmas.C07c
open Neatvi Neatvi.Uc Neatvi.Mot Neatvi.Spec Neatvi.Lemmas.C07

/-- the code point at character offset `p` of an encoded line (0 at the terminator) -/
theorem codeAt_enc {cs : List Nat} (h : ∀ c ∈ cs, ValidCp c) (p : Int) (h0 : 0 ≤ p) (h1 : p ≤ cs.length) :
    (ucCode (chrAt (encStr cs) p)).getD 0 = cs.getD p.toNat 0 := by
  obtain ⟨k, rfl⟩ : ∃ k : Nat, p = (k : Int) := ⟨p.toNat, by omega⟩
  rw [Int.toNat_natCast, chrAt_enc h k (by omega)]
  by_cases hk : k < cs.length
  · rw [drop_getD_cons cs k hk, encStr_cons]
    have hv : ValidCp (cs.getD k 0) := by
      rw [List.getD_eq_getElem?_getD, List.getElem?_eq_getElem hk]
      exact h _ (List.getElem_mem hk)
    rw [Props.C16.code_enc hv]; rfl
  · rw [List.drop_eq_nil_of_le (by omega), List.getD_eq_getElem?_getD, List.getElem?_eq_none (by omega)]
    rfl

theorem code_enc_self {c : Nat} (h : ValidCp c) : (ucCode (enc c)).getD 0 = c := by
  have := Props.C16.code_enc h []
  rw [List.append_nil] at this
  rw [this]; rfl

/-- the forward scan finds the `k`-th occurrence after `p` -/
theorem go_fwdU (cs : List Nat) (hs : ∀ c ∈ cs, ValidCp c) (c : Nat) (f : Nat) (p : Nat) (k : Int) (hk : 1 ≤ k)
    (hp : p < cs.length) (hf : cs.length - p ≤ f) :
    ∀ p' k', findchar.go (encStr cs) 1 c (stepdOf cs.length) f p k = (p', k') →
      (k' = 0 → 0 ≤ p' ∧ (occF cs c p)[k.toNat - 1]? = some p'.toNat) ∧
      (k' ≠ 0 → (occF cs c p)[k.toNat - 1]? = none) := by
  induction f generalizing p k with
  | zero => omega
  | succ f ih =>
    intro p' k' hgo
    unfold findchar.go at hgo
    rw [if_neg (by omega)] at hgo
    by_cases hend : (p : Int) + 1 ≥ cs.length
    · have : stepdOf (cs.length : Int) (p : Int) 1 = none := by
        unfold stepdOf; rw [if_neg (by omega), if_pos hend]
      rw [this] at hgo
      simp only [] at hgo
      cases hgo
      rw [occF_end cs c p (by omega)]
      exact ⟨fun h => by omega, fun _ => rfl⟩
    · have : stepdOf (cs.length : Int) (p : Int) 1 = some ((p : Int) + 1) := by
        unfold stepdOf; rw [if_neg (by omega), if_neg hend]
      rw [this] at hgo
      simp only [] at hgo
      have hcode := codeAt_enc hs ((p : Int) + 1) (by omega) (by omega)
      have htn : ((p : Int) + 1).toNat = p + 1 := by omega
      rw [hcode, htn] at hgo
      rw [occF_step cs c p (by omega)]
      by_cases hm : (cs.getD (p + 1) 0 == c) = true
      · rw [if_pos hm] at hgo
        rw [if_pos hm]
        by_cases hk1 : k = 1
        · subst hk1
          rw [go_zero _ _ _ _ _ _ _ (by omega)] at hgo
          cases hgo
          refine ⟨fun _ => ⟨by omega, ?_⟩, fun h => absurd rfl h⟩
          simp
        · have := ih (p + 1) (k - 1) (by omega) (by omega) (by omega) p' k' (by
            rw [← hgo]; congr 1)
          have hidx : k.toNat - 1 = ((k - 1).toNat - 1) + 1 := by omega
          rw [hidx]
          simpa using this
      · rw [if_neg hm] at hgo
        rw [if_neg hm]
        have := ih (p + 1) k hk (by omega) (by omega) p' k' (by rw [← hgo]; congr 1)
        simpa using this

/-- the backward scan finds the `k`-th occurrence before `p` -/
theorem go_bwdU (cs : List Nat) (hs : ∀ c ∈ cs, ValidCp c) (c : Nat) (f : Nat) (p : Nat) (k : Int) (hk : 1 ≤ k)
    (hp : p ≤ cs.length) (hf : p ≤ f) :
    ∀ p' k', findchar.go (encStr cs) (-1) c (stepdOf cs.length) f p k = (p', k') →
      (k' = 0 → 0 ≤ p' ∧ (occB cs c p)[k.toNat - 1]? = some p'.toNat) ∧
      (k' ≠ 0 → (occB cs c p)[k.toNat - 1]? = none) := by
  induction f generalizing p k with
  | zero =>
    intro p' k' hgo
    have : p = 0 := by omega
    subst this
    unfold findchar.go at hgo
    cases hgo
    exact ⟨fun h => by omega, fun _ => rfl⟩
  | succ f ih =>
    intro p' k' hgo
    unfold findchar.go at hgo
    rw [if_neg (by omega)] at hgo
    cases p with
    | zero =>
      have : stepdOf (cs.length : Int) ((0 : Nat) : Int) (-1) = none := by
        unfold stepdOf; simp
      rw [this] at hgo
      simp only [] at hgo
      cases hgo
      exact ⟨fun h => by omega, fun _ => rfl⟩
    | succ q =>
      have : stepdOf (cs.length : Int) ((q + 1 : Nat) : Int) (-1) = some (q : Int) := by
        unfold stepdOf
        rw [if_pos (by omega), if_neg (by omega)]
        congr 1; omega
      rw [this] at hgo
      simp only [] at hgo
      have hcode := codeAt_enc hs (q : Int) (by omega) (by omega)
      have htn : (q : Int).toNat = q := by omega
      rw [hcode, htn] at hgo
      rw [occB_step cs c q]
      by_cases hm : (cs.getD q 0 == c) = true
      · rw [if_pos hm] at hgo
        rw [if_pos hm]
        by_cases hk1 : k = 1
        · subst hk1
          rw [go_zero _ _ _ _ _ _ _ (by omega)] at hgo
          cases hgo
          refine ⟨fun _ => ⟨by omega, ?_⟩, fun h => absurd rfl h⟩
          simp
        · have := ih q (k - 1) (by omega) (by omega) (by omega) p' k' hgo
          have hidx : k.toNat - 1 = ((k - 1).toNat - 1) + 1 := by omega
          rw [hidx]
          simpa using this
      · rw [if_neg hm] at hgo
        rw [if_neg hm]
        have := ih q k hk (by omega) (by omega) p' k' hgo
        simpa using this

/-- what `lbuf_findchar` returns from the final state `(p, k)` of its scan -/
def fcRes (len : Int) (dir : Int) (till : Bool) : Int × Int → Option Int
  | (p, k) => if (k != 0) = true then none else
      some (if till = true then ((stepdOf len) p (-dir)).getD p else p)

/-- the direction of the scan: that of the command, reversed for a negative count (`,`) -/
def fcDir (cmd : Nat) (n : Int) : Int :=
  if n < 0 then -(if (cmd == 102 || cmd == 116) = true then 1 else -1)
  else (if (cmd == 102 || cmd == 116) = true then 1 else -1)

theorem findchar_eqU (ls : Lines) (r : Int) (cs : List Nat) (hline : lineAt ls r = some (encStr cs))
    (hs : ∀ c ∈ cs, ValidCp c) (c : Nat) (hc : ValidCp c) (cmd : Nat) (n : Int) (o : Int) :
    findchar ls (enc c) cmd n r o =
      fcRes cs.length (fcDir cmd n) (cmd == 116 || cmd == 84)
        (findchar.go (encStr cs) (fcDir cmd n) c (stepdOf cs.length) ((encStr cs).length + 2)
          (if o < cs.length then o else cs.length) (if n < 0 then -n else n)) := by
  unfold findchar
  rw [hline]
  simp only []
  rw [Props.C16.slen_spec hs, code_enc_self hc]
  rfl

theorem go_stuck (ln : Bytes) (dir : Int) (want : Nat) (len : Int) (f : Nat) (p k : Int)
    (h : stepdOf len p dir = none) : findchar.go ln dir want (stepdOf len) f p k = (p, k) := by
  cases f with
  | zero => unfold findchar.go; rfl
  | succ f =>
    unfold findchar.go
    by_cases hk : k ≤ 0
    · rw [if_pos hk]
    · rw [if_neg hk, h]

theorem occB_lineU (w : List Nat) (c p : Nat) (hc : c ≠ 10) (hp : p ≤ w.length + 1) :
    occB (w ++ [10]) c p = ((List.range (min p w.length)).filter (fun j => w.getD j 0 == c)).reverse := by
  by_cases hp' : p ≤ w.length
  · exact occB_line w c p hp'
  · have : p = w.length + 1 := by omega
    subst this
    rw [occB_step, getD_snoc_eq]
    have : (10 == c) = false := by simp; omega
    rw [this]
    simp only [Bool.false_eq_true, if_false, List.nil_append]
    rw [occB_line w c w.length (Nat.le_refl _)]
    congr 3
    omega

/-- forward scan (`f`, `t`, and `F`, `T` with a negative count) from character `s` of the line, which may
    be the terminator -/
theorem fc_fwd (w : List Nat) (hw : Utf8W w) (c : Nat) (hc10 : c ≠ 10) (till : Bool) (k : Int) (hk : 0 < k)
    (s : Nat) (hs : s ≤ w.length + 1) (F : Nat) (hF : w.length + 1 ≤ F) :
    (fcRes ((w ++ [10]).length : Nat) 1 till
      (findchar.go (encStr (w ++ [10])) 1 c (stepdOf ((w ++ [10]).length : Nat)) F s k)).map Int.toNat =
      Spec.Motion.findChar w s c true till k.toNat ∧
    ∀ q, fcRes ((w ++ [10]).length : Nat) 1 till
      (findchar.go (encStr (w ++ [10])) 1 c (stepdOf ((w ++ [10]).length : Nat)) F s k) = some q → 0 ≤ q := by
  have hv := Utf8W.line hw
  have hlen : (w ++ [10]).length = w.length + 1 := by simp
  have hcnt : (k.toNat == 0) = false := by simp; omega
  by_cases hs' : s ≤ w.length
  · cases hgo : findchar.go (encStr (w ++ [10])) 1 c (stepdOf ((w ++ [10]).length : Nat)) F s k with
    | mk p k' =>
      obtain ⟨g1, g2⟩ := go_fwdU (w ++ [10]) hv c _ s k (by omega) (by rw [hlen]; omega) (by omega) p k' hgo
      simp only [fcRes]
      unfold Spec.Motion.findChar
      simp only [hcnt, Bool.false_eq_true, if_false, if_true]
      rw [← occF_line w c s hc10]
      by_cases hk0 : k' = 0
      · obtain ⟨p0, hocc⟩ := g1 hk0
        have hkb : (k' != 0) = false := by simp [hk0]
        simp only [hkb, Bool.false_eq_true, if_false]
        rw [hocc]
        have hmem := occF_mem _ _ _ _ (List.mem_of_getElem? hocc)
        simp only []
        have hst : stepdOf ((w ++ [10]).length : Nat) p (-1) = some (p - 1) := by
          unfold stepdOf
          rw [if_pos (by omega), if_neg (by omega)]
        rw [hst]
        simp only [Option.getD_some, Option.map_some]
        cases till
        · simp only [Bool.false_eq_true, if_false]
          exact ⟨trivial, fun q hq => by cases hq; exact p0⟩
        · simp only [if_true]
          refine ⟨?_, fun q hq => by cases hq; omega⟩
          congr 1; omega
      · have hocc := g2 hk0
        have hkb : (k' != 0) = true := by simp [hk0]
        simp only [hkb, if_true]
        rw [hocc]
        exact ⟨rfl, fun q hq => by cases hq⟩
  · have hse : s = w.length + 1 := by omega
    have hst : stepdOf ((w ++ [10]).length : Nat) (s : Int) 1 = none := by
      unfold stepdOf; rw [if_neg (by omega), if_pos (by rw [hlen]; omega)]
    rw [go_stuck _ _ _ _ _ _ _ hst]
    have hkb : (k != 0) = true := by simp; omega
    simp only [fcRes, hkb, if_true]
    unfold Spec.Motion.findChar
    simp only [hcnt, Bool.false_eq_true, if_false, if_true]
    have hnil : (List.range w.length).filter (fun j => decide (j > s) && w.getD j 0 == c) = [] := by
      rw [List.filter_eq_nil_iff]
      intro j hj
      simp only [List.mem_range] at hj
      have : decide (j > s) = false := by simp; omega
      simp [this]
    rw [hnil]
    exact ⟨rfl, fun q hq => by cases hq⟩

/-- backward scan (`F`, `T`, and `f`, `t` with a negative count) from character `s` of the line, which may
    be the terminator -/
theorem fc_bwd (w : List Nat) (hw : Utf8W w) (c : Nat) (hc10 : c ≠ 10) (till : Bool) (k : Int) (hk : 0 < k)
    (s : Nat) (hs : s ≤ w.length + 1) (F : Nat) (hF : w.length + 1 ≤ F) :
    (fcRes ((w ++ [10]).length : Nat) (-1) till
      (findchar.go (encStr (w ++ [10])) (-1) c (stepdOf ((w ++ [10]).length : Nat)) F s k)).map Int.toNat =
      Spec.Motion.findChar w s c false till k.toNat ∧
    ∀ q, fcRes ((w ++ [10]).length : Nat) (-1) till
      (findchar.go (encStr (w ++ [10])) (-1) c (stepdOf ((w ++ [10]).length : Nat)) F s k) = some q → 0 ≤ q := by
  have hv := Utf8W.line hw
  have hlen : (w ++ [10]).length = w.length + 1 := by simp
  have hcnt : (k.toNat == 0) = false := by simp; omega
  cases hgo : findchar.go (encStr (w ++ [10])) (-1) c (stepdOf ((w ++ [10]).length : Nat)) F s k with
  | mk p k' =>
    obtain ⟨g1, g2⟩ := go_bwdU (w ++ [10]) hv c _ s k (by omega) (by rw [hlen]; omega) (by omega) p k' hgo
    simp only [fcRes]
    unfold Spec.Motion.findChar
    simp only [hcnt, Bool.false_eq_true, if_false]
    rw [← occB_lineU w c s hc10 hs]
    by_cases hk0 : k' = 0
    · obtain ⟨p0, hocc⟩ := g1 hk0
      have hkb : (k' != 0) = false := by simp [hk0]
      simp only [hkb, Bool.false_eq_true, if_false]
      rw [hocc]
      have hmem : p.toNat < w.length := by
        have h1 := List.mem_of_getElem? hocc
        rw [occB_lineU w c s hc10 hs] at h1
        have h2 := (List.mem_filter.mp (List.mem_reverse.mp h1)).1
        simp only [List.mem_range] at h2
        omega
      simp only []
      have hst : stepdOf ((w ++ [10]).length : Nat) p (- -1) = some (p + 1) := by
        unfold stepdOf
        rw [if_neg (by omega), if_neg (by omega)]
      rw [hst]
      simp only [Option.getD_some, Option.map_some]
      cases till
      · simp only [Bool.false_eq_true, if_false]
        exact ⟨trivial, fun q hq => by cases hq; exact p0⟩
      · simp only [if_true]
        refine ⟨?_, fun q hq => by cases hq; omega⟩
        congr 1; omega
    · have hocc := g2 hk0
      have hkb : (k' != 0) = true := by simp [hk0]
      simp only [hkb, if_true]
      rw [hocc]
      exact ⟨rfl, fun q hq => by cases hq⟩

/-- the reference does not look at how far beyond the line the column is -/
theorem findChar_clamp (l : List Nat) (col col' : Nat) (h : l.length ≤ col) (h' : l.length ≤ col') (c : Nat)
    (fwd till : Bool) (cnt : Nat) :
    Spec.Motion.findChar l col c fwd till cnt = Spec.Motion.findChar l col' c fwd till cnt := by
  unfold Spec.Motion.findChar
  have e1 : (List.range l.length).filter (fun j => decide (j > col) && l.getD j 0 == c) =
      (List.range l.length).filter (fun j => decide (j > col') && l.getD j 0 == c) := by
    apply List.filter_congr
    intro j hj
    simp only [List.mem_range] at hj
    have a : decide (j > col) = false := by simp; omega
    have b : decide (j > col') = false := by simp; omega
    rw [a, b]
  rw [e1, Nat.min_eq_right h, Nat.min_eq_right h']

/-- **`lbuf_findchar` on a valid UTF-8 line, in full**: any non-zero count (negative: the reversed search
    of `,`), any non-negative offset (also beyond the line), any valid target other than the newline -/
theorem findchar_allU (ls : Lines) (r : Int) (w : List Nat) (hline : lineAt ls r = some (encStr (w ++ [10])))
    (hw : Utf8W w) (c : Nat) (hc : ValidCp c) (hc10 : c ≠ 10) (cmd : Nat)
    (hcmd : cmd = 102 ∨ cmd = 70 ∨ cmd = 116 ∨ cmd = 84) (n : Int) (hn : n ≠ 0) (o : Int) (ho : 0 ≤ o) :
    (findchar ls (enc c) cmd n r o).map Int.toNat =
      Spec.Motion.findChar w o.toNat c ((cmd == 102 || cmd == 116) == decide (0 < n)) (cmd == 116 || cmd == 84)
        n.natAbs ∧
    ∀ p, findchar ls (enc c) cmd n r o = some p → 0 ≤ p := by
  have hv := Utf8W.line hw
  have hlen : (w ++ [10]).length = w.length + 1 := by simp
  have hbytes := encStr_length_ge (w ++ [10])
  rw [findchar_eqU ls r _ hline hv c hc cmd n o]
  -- the start of the scan
  obtain ⟨s, hs1, hs2, hs3⟩ : ∃ s : Nat, (if o < ((w ++ [10]).length : Nat) then o else (((w ++ [10]).length : Nat) : Int)) = (s : Int) ∧
      s ≤ w.length + 1 ∧ Spec.Motion.findChar w o.toNat c ((cmd == 102 || cmd == 116) == decide (0 < n))
        (cmd == 116 || cmd == 84) n.natAbs = Spec.Motion.findChar w s c ((cmd == 102 || cmd == 116) == decide (0 < n))
        (cmd == 116 || cmd == 84) n.natAbs := by
    by_cases hol : o < ((w ++ [10]).length : Nat)
    · refine ⟨o.toNat, by rw [if_pos hol]; omega, by rw [hlen] at hol; omega, rfl⟩
    · refine ⟨w.length + 1, by rw [if_neg hol, hlen], Nat.le_refl _, ?_⟩
      apply findChar_clamp
      · rw [hlen] at hol; omega
      · omega
  rw [hs1, hs3]
  have hkk : (if n < 0 then -n else n) = ((n.natAbs : Nat) : Int) := by split <;> omega
  have hk0 : (0 : Int) < ((n.natAbs : Nat) : Int) := by omega
  have hkt : (((n.natAbs : Nat) : Int)).toNat = n.natAbs := by omega
  rw [hkk]
  by_cases hfw : ((cmd == 102 || cmd == 116) == decide (0 < n)) = true
  · have hd : fcDir cmd n = 1 := by
      unfold fcDir
      by_cases hneg : n < 0
      · have : decide (0 < n) = false := by simp; omega
        rw [this] at hfw
        have : (cmd == 102 || cmd == 116) = false := by simpa using hfw
        rw [if_pos hneg, this]; rfl
      · have : decide (0 < n) = true := by simp; omega
        rw [this] at hfw
        have : (cmd == 102 || cmd == 116) = true := by simpa using hfw
        rw [if_neg hneg, this]; rfl
    rw [hd, hfw]
    have := fc_fwd w hw c hc10 (cmd == 116 || cmd == 84) _ hk0 s hs2 ((encStr (w ++ [10])).length + 2)
      (by rw [hlen] at hbytes; omega)
    rw [hkt] at this
    exact this
  · have hfw' : ((cmd == 102 || cmd == 116) == decide (0 < n)) = false := by simpa using hfw
    have hd : fcDir cmd n = -1 := by
      unfold fcDir
      by_cases hneg : n < 0
      · have : decide (0 < n) = false := by simp; omega
        rw [this] at hfw'
        have : (cmd == 102 || cmd == 116) = true := by
          cases h : (cmd == 102 || cmd == 116) with
          | true => rfl
          | false => rw [h] at hfw'; cases hfw'
        rw [if_pos hneg, this]; rfl
      · have : decide (0 < n) = true := by simp; omega
        rw [this] at hfw'
        have : (cmd == 102 || cmd == 116) = false := by
          cases h : (cmd == 102 || cmd == 116) with
          | false => rfl
          | true => rw [h] at hfw'; cases hfw'
        rw [if_neg hneg, this]; rfl
    rw [hd, hfw']
    have := fc_bwd w hw c hc10 (cmd == 116 || cmd == 84) _ hk0 s hs2 ((encStr (w ++ [10])).length + 2)
      (by rw [hlen] at hbytes; omega)
    rw [hkt] at this
    exact this

end Neatvi.Lemmas.C07c
