import NeatviVerif.Lemmas.C05bVi
import NeatviVerif.Lemmas.C06Ex
/-!
# C05b, ex level: numbers in addresses saturate at `NUMMAX`, so address arithmetic stays inside `int`

* `exAtoi`: bounded by `±NUMMAX`, equal to `atoi` inside that range, `NUMMAX` beyond;
* `exLineno`: the result is within `[-NUMMAX - 1, NUMMAX]` when the current row, the buffer length and the
  marks are; every sum `n + ex_atoi(s)` it forms is within `±(2^30 + 1)`; `offsChk` is the offset loop with
  the `int` range checked at the addition, and it is the loop of the model (`offsChk_eq`);
* a purely numeric address beyond the end of the buffer is rejected by `exRegion`.
-/
namespace Neatvi.Lemmas.C05b
open Neatvi Neatvi.Lbuf Neatvi.Ex Neatvi.Lemmas.C06

/-! ### `ex_atoi` -/

theorem exAtoi_bounded (s : Bytes) : -NUMMAX ≤ exAtoi s ∧ exAtoi s ≤ NUMMAX := by
  unfold exAtoi NUMMAX; omega

theorem exAtoi_small (s : Bytes) (h0 : -NUMMAX ≤ atoi s) (h1 : atoi s ≤ NUMMAX) : exAtoi s = atoi s := by
  unfold exAtoi; unfold NUMMAX at *; omega

theorem exAtoi_huge (s : Bytes) (h : atoi s > NUMMAX) : exAtoi s = NUMMAX := by
  unfold exAtoi; unfold NUMMAX at *; omega

theorem exAtoi_huge_neg (s : Bytes) (h : atoi s < -NUMMAX) : exAtoi s = -NUMMAX := by
  unfold exAtoi; unfold NUMMAX at *; omega

/-- `ex_atoi` is `atoi` clamped: monotone in the value of the number -/
theorem exAtoi_eq_clamp (s : Bytes) : exAtoi s = max (-NUMMAX) (min (atoi s) NUMMAX) := rfl

/-- the decimal value of a digit string -/
def decVal (l : Bytes) : Int := l.foldl (fun (a : Int) (d : Nat) => a * 10 + ((d : Int) - 48)) 0

theorem foldl_digits_nonneg : ∀ (l : Bytes) (a : Int), 0 ≤ a → (∀ d ∈ l, isDigitC d = true) →
    0 ≤ l.foldl (fun (a : Int) (d : Nat) => a * 10 + ((d : Int) - 48)) a := by
  intro l
  induction l with
  | nil => intro a h _; exact h
  | cons d r ih =>
    intro a h hd
    simp only [List.foldl_cons]
    apply ih
    · have := hd d (List.mem_cons_self ..)
      simp only [isDigitC, Bool.and_eq_true, decide_eq_true_eq] at this
      omega
    · intro x hx; exact hd x (List.mem_cons_of_mem _ hx)

theorem decVal_nonneg (l : Bytes) (h : ∀ d ∈ l, isDigitC d = true) : 0 ≤ decVal l :=
  foldl_digits_nonneg l 0 (Int.le_refl 0) h

theorem digit_not_space (c : Nat) (h : isDigitC c = true) : isSpaceC c = false := by
  simp only [isDigitC, Bool.and_eq_true, decide_eq_true_eq] at h
  simp only [isSpaceC, Bool.or_eq_false_iff, beq_eq_false_iff_ne, ne_eq, Bool.and_eq_false_iff,
    decide_eq_false_iff_not]
  omega

/-- `atoi` of a string that starts with a digit: the value of its leading digits -/
theorem atoi_digit_head (c : Nat) (r : Bytes) (h : isDigitC c = true) :
    atoi (c :: r) = decVal ((c :: r).takeWhile isDigitC) := by
  have hs := digit_not_space c h
  have h' := h
  simp only [isDigitC, Bool.and_eq_true, decide_eq_true_eq] at h'
  have h45 : (c == 45) = false := by simp only [beq_eq_false_iff_ne, ne_eq]; omega
  have h43 : (c == 43) = false := by simp only [beq_eq_false_iff_ne, ne_eq]; omega
  unfold atoi decVal
  simp only [List.dropWhile_cons, hs, Bool.false_eq_true, ↓reduceIte, List.headD_cons, h45, h43]

theorem mem_takeWhile_imp (p : Nat → Bool) : ∀ (l : Bytes) (d : Nat), d ∈ l.takeWhile p → p d = true := by
  intro l
  induction l with
  | nil => intro d hd; cases hd
  | cons x r ih =>
    intro d hd
    rw [List.takeWhile_cons] at hd
    split at hd
    · cases hd with
      | head => assumption
      | tail _ h => exact ih d h
    · cases hd

theorem takeWhile_all (p : Nat → Bool) : ∀ (l : Bytes), (∀ d ∈ l, p d = true) → l.takeWhile p = l := by
  intro l
  induction l with
  | nil => intro _; rfl
  | cons x r ih =>
    intro h
    rw [List.takeWhile_cons, if_pos (h x (List.mem_cons_self ..)), ih (fun d hd => h d (List.mem_cons_of_mem _ hd))]

theorem dropWhile_all (p : Nat → Bool) : ∀ (l : Bytes), (∀ d ∈ l, p d = true) → l.dropWhile p = [] := by
  intro l
  induction l with
  | nil => intro _; rfl
  | cons x r ih =>
    intro h
    rw [List.dropWhile_cons, if_pos (h x (List.mem_cons_self ..)), ih (fun d hd => h d (List.mem_cons_of_mem _ hd))]

theorem atoi_digit_head_nonneg (c : Nat) (r : Bytes) (h : isDigitC c = true) : 0 ≤ atoi (c :: r) := by
  rw [atoi_digit_head c r h]
  apply decVal_nonneg
  intro d hd
  exact mem_takeWhile_imp _ _ _ hd

/-- `atoi` of a string of digits is its decimal value -/
theorem atoi_digits (l : Bytes) (h : ∀ d ∈ l, isDigitC d = true) : atoi l = decVal l := by
  cases l with
  | nil => rfl
  | cons c r =>
    rw [atoi_digit_head c r (h c (List.mem_cons_self ..))]
    congr 1
    exact takeWhile_all _ _ h

/-! ### the offset loop of `ex_lineno` -/

/-- one offset: from `n` in `[-NUMMAX - 1, NUMMAX]` the sum `n + ex_atoi(s)` is within `±(2^30 + 1)`, hence
    an `int`, and the clamped sum is within `±NUMMAX` -/
theorem offs_step (n : Int) (s : Bytes) (h0 : -NUMMAX - 1 ≤ n) (h1 : n ≤ NUMMAX) :
    -1073741825 ≤ n + exAtoi s ∧ n + exAtoi s ≤ 1073741824 ∧ FitsInt (n + exAtoi s) ∧
    -NUMMAX ≤ max (-NUMMAX) (min (n + exAtoi s) NUMMAX) ∧ max (-NUMMAX) (min (n + exAtoi s) NUMMAX) ≤ NUMMAX := by
  have := exAtoi_bounded s
  unfold FitsInt
  unfold NUMMAX at *
  omega

theorem offs_bounded : ∀ (f : Nat) (n : Int) (s : Bytes), -NUMMAX - 1 ≤ n → n ≤ NUMMAX →
    -NUMMAX - 1 ≤ (exLineno.offs f n s).1 ∧ (exLineno.offs f n s).1 ≤ NUMMAX := by
  intro f
  induction f with
  | zero => intro n s h0 h1; rw [exLineno.offs]; exact ⟨h0, h1⟩
  | succ f ih =>
    intro n s h0 h1
    rw [exLineno.offs]
    split
    · obtain ⟨_, _, _, k0, k1⟩ := offs_step n s h0 h1
      exact ih _ _ (by omega) k1
    · exact ⟨h0, h1⟩

/-- the loop never moves the result away from a clamped value once an offset was applied: after at least one
    offset the result is within `±NUMMAX` (the `- 1` of a leading number is gone) -/
theorem offs_bounded' : ∀ (f : Nat) (n : Int) (s : Bytes), -NUMMAX ≤ n → n ≤ NUMMAX →
    -NUMMAX ≤ (exLineno.offs f n s).1 ∧ (exLineno.offs f n s).1 ≤ NUMMAX := by
  intro f
  induction f with
  | zero => intro n s h0 h1; rw [exLineno.offs]; exact ⟨h0, h1⟩
  | succ f ih =>
    intro n s h0 h1
    rw [exLineno.offs]
    split
    · obtain ⟨_, _, _, k0, k1⟩ := offs_step n s (by omega) h1
      exact ih _ _ k0 k1
    · exact ⟨h0, h1⟩

/-- the offset loop with a failure wherever the C addition `n += ex_atoi(...)` would leave `int` -/
def offsChk : Nat → Int → Bytes → Option (Int × Bytes)
  | 0, n, s => some (n, s)
  | f + 1, n, s =>
    if s.headD 0 == 45 || s.headD 0 == 43 then
      if FitsInt (n + exAtoi s) then
        offsChk f (max (-NUMMAX) (min (n + exAtoi s) NUMMAX)) ((s.drop 1).dropWhile isDigitC)
      else none
    else some (n, s)

/-- from `n` in `[-NUMMAX - 1, NUMMAX]` the checked loop is the loop of the model: the check never fires -/
theorem offsChk_eq : ∀ (f : Nat) (n : Int) (s : Bytes), -NUMMAX - 1 ≤ n → n ≤ NUMMAX →
    offsChk f n s = some (exLineno.offs f n s) := by
  intro f
  induction f with
  | zero => intro n s _ _; rw [offsChk, exLineno.offs]
  | succ f ih =>
    intro n s h0 h1
    rw [offsChk, exLineno.offs]
    obtain ⟨_, _, hfit, k0, k1⟩ := offs_step n s h0 h1
    by_cases hc : (s.headD 0 == 45 || s.headD 0 == 43) = true
    · rw [if_pos hc, if_pos hc, if_pos hfit]
      exact ih _ _ (by omega) k1
    · rw [if_neg hc, if_neg hc]

/-! ### `ex_search`: the row found is a row of the buffer -/

theorem scan_bounded (ed : Ed) (re : Rset.RStr) (dir len : Int) : ∀ (f : Nat) (row r : Int),
    exSearch.scan ed re dir len f row = some r → r = -1 ∨ (0 ≤ r ∧ r < len) := by
  intro f
  induction f with
  | zero => intro row r h; rw [exSearch.scan] at h; cases h; exact Or.inl rfl
  | succ f ih =>
    intro row r h
    rw [exSearch.scan] at h
    split at h
    · cases h; exact Or.inl rfl
    · rename_i hrow
      simp only [Bool.or_eq_true, decide_eq_true_eq, not_or, Int.not_lt, ge_iff_le, Int.not_le] at hrow
      split at h
      · cases h; exact Or.inl rfl
      · split at h
        · cases h
        · split at h
          · cases h; exact Or.inr ⟨hrow.1, hrow.2⟩
          · exact ih _ _ h

theorem exSearch_bounded (ed : Ed) (loc : Bytes) (n : Int) (rest : Bytes) (ed' : Ed)
    (h : exSearch ed loc = some ((n, rest), ed')) : n = -1 ∨ (0 ≤ n ∧ n < ed.len) := by
  have ha := exSearch_addrOnly ed loc _ _ h
  rw [exSearch_eq] at h
  have hk : AddrOnly ed (kwEd ed (reRead loc).1 (if loc.headD 0 == 47 then 1 else -1)) := kw_addrOnly _ _ _
  generalize kwEd ed (reRead loc).1 (if loc.headD 0 == 47 then 1 else -1) = ed1 at h hk
  simp only [] at h
  split at h
  · cases h; exact Or.inl rfl
  · split at h
    · cases h
    · cases h; exact Or.inl rfl
    · split at h
      · cases h
      · rename_i hs
        cases h
        rw [← hk.len]
        exact scan_bounded _ _ _ _ _ _ _ hs

/-! ### `ex_lineno` -/

/-- what address evaluation reads from the editor state is inside the range of line numbers: the current
    row, the length of the buffer, the marks -/
structure AddrFits (ed : Ed) : Prop where
  xrow_lo : -NUMMAX - 1 ≤ ed.xrow
  xrow_hi : ed.xrow ≤ NUMMAX
  len_hi : ed.len ≤ NUMMAX
  marks : ∀ lb c p o, ed.lb = some lb → jump lb c = some (p, o) → p ≤ NUMMAX

theorem jump_nonneg (lb : Lb) (c : Nat) (p o : Int) (h : jump lb c = some (p, o)) : 0 ≤ p := by
  unfold jump at h
  split at h
  · simp only [] at h
    split at h
    · cases h
    · cases h; omega
  · cases h

/-- the base of an address (before the offsets), or the marker `-1000000` -/
theorem exLineno_base_bounded (ed : Ed) (loc : Bytes) (hf : AddrFits ed) (n : Int) (rest : Bytes) (ed' : Ed)
    (h : (if loc.headD 0 == 46 then some ((ed.xrow, loc.drop 1), ed)
      else if loc.headD 0 == 36 then some ((ed.len - 1, loc.drop 1), ed)
      else if loc.headD 0 == 39 then
        match ed.lb.bind (fun l => jump l (loc.getD 1 0)) with
        | none => some ((-1000000, loc.drop 1), ed)
        | some (p, _) => some ((p, loc.drop 2), ed)
      else if loc.headD 0 == 47 || loc.headD 0 == 63 then
        match exSearch ed loc with
        | none => none
        | some ((n, rest), ed) => if n < 0 then some ((-1000000, rest), ed) else some ((n, rest), ed)
      else if isDigitC (loc.headD 0) then some ((exAtoi loc - 1, loc.dropWhile isDigitC), ed)
      else some ((ed.xrow, loc), ed) : R (Int × Bytes)) = some ((n, rest), ed')) :
    -NUMMAX - 1 ≤ n ∧ n ≤ NUMMAX := by
  have hl := len_nonneg ed
  have hN : NUMMAX = 536870912 := rfl
  have h1 := hf.xrow_lo
  have h2 := hf.xrow_hi
  have h3 := hf.len_hi
  split at h
  · cases h; exact ⟨h1, h2⟩
  · split at h
    · cases h; omega
    · split at h
      · split at h
        · cases h; omega
        · rename_i p o hj
          cases h
          cases hlb : ed.lb with
          | none => rw [hlb] at hj; cases hj
          | some lb =>
            rw [hlb] at hj
            simp only [Option.bind_some] at hj
            have := jump_nonneg _ _ _ _ hj
            have := hf.marks _ _ _ _ hlb hj
            omega
      · split at h
        · split at h
          · cases h
          · rename_i hs
            have hb := exSearch_bounded _ _ _ _ _ hs
            split at h <;> (cases h; omega)
        · split at h
          · cases h
            have := exAtoi_bounded loc
            omega
          · cases h; exact ⟨h1, h2⟩

/-- `ex_lineno` returns a number in `[-NUMMAX - 1, NUMMAX]` (`-2`, the failure marker, is one of them) -/
theorem exLineno_bounded (ed : Ed) (loc : Bytes) (hf : AddrFits ed) (n : Int) (rest : Bytes) (ed' : Ed)
    (h : exLineno ed loc = some ((n, rest), ed')) : -NUMMAX - 1 ≤ n ∧ n ≤ NUMMAX := by
  unfold exLineno at h
  simp only [] at h
  generalize hb : @ite (R (Int × Bytes)) ((loc.headD 0 == 46) = true) _ _ _ = base at h
  have hbase : ∀ n rest ed1, base = some ((n, rest), ed1) → -NUMMAX - 1 ≤ n ∧ n ≤ NUMMAX := by
    subst hb
    intro n rest ed1 hx
    exact exLineno_base_bounded ed loc hf n rest ed1 hx
  clear hb
  split at h
  · cases h
  · obtain ⟨k0, k1⟩ := hbase _ _ _ rfl
    split at h
    · cases h; unfold NUMMAX; omega
    · cases h
      exact offs_bounded _ _ _ k0 k1

/-! ### a purely numeric address -/

theorem exAtoi_digit_head_nonneg (c : Nat) (r : Bytes) (h : isDigitC c = true) : 0 ≤ exAtoi (c :: r) := by
  have := atoi_digit_head_nonneg c r h
  unfold exAtoi NUMMAX
  omega

/-- `ex_lineno` on a string of digits: the (saturated) number minus one, nothing left over -/
theorem exLineno_numeric (ed : Ed) (c : Nat) (r : Bytes) (hd : ∀ d ∈ c :: r, isDigitC d = true) :
    exLineno ed (c :: r) = some ((exAtoi (c :: r) - 1, []), ed) := by
  have hc := hd c (List.mem_cons_self ..)
  have hpos := exAtoi_digit_head_nonneg c r hc
  have hc' := hc
  simp only [isDigitC, Bool.and_eq_true, decide_eq_true_eq] at hc'
  have e46 : (c == 46) = false := by simp only [beq_eq_false_iff_ne, ne_eq]; omega
  have e36 : (c == 36) = false := by simp only [beq_eq_false_iff_ne, ne_eq]; omega
  have e39 : (c == 39) = false := by simp only [beq_eq_false_iff_ne, ne_eq]; omega
  have e47 : (c == 47) = false := by simp only [beq_eq_false_iff_ne, ne_eq]; omega
  have e63 : (c == 63) = false := by simp only [beq_eq_false_iff_ne, ne_eq]; omega
  have hm : (exAtoi (c :: r) - 1 == -1000000) = false := by
    simp only [beq_eq_false_iff_ne, ne_eq]; omega
  unfold exLineno
  simp only [List.headD_cons, e46, e36, e39, e47, e63, hc, dropWhile_all _ _ hd, Bool.false_eq_true,
    ↓reduceIte, Bool.or_self, hm, List.length_nil, Nat.zero_add]
  rw [exLineno.offs]
  simp

/-- a number `k` with `k - 1 ≥ len` as the only address: `ex_region` returns 1 (with the saturated number
    in `beg` / `end`); `len < NUMMAX` is the standing assumption on the size of a buffer -/
theorem region_numeric_beyond (ed : Ed) (loc : Bytes) (hne : loc ≠ []) (hd : ∀ d ∈ loc, isDigitC d = true)
    (hlen : ed.len < NUMMAX) (hk : atoi loc - 1 ≥ ed.len) :
    exRegion ed loc = some ((1, exAtoi loc - 1, exAtoi loc), ed) := by
  cases loc with
  | nil => exact absurd rfl hne
  | cons c r =>
    have hl := len_nonneg ed
    have hc := hd c (List.mem_cons_self ..)
    have hc' := hc
    simp only [isDigitC, Bool.and_eq_true, decide_eq_true_eq] at hc'
    have hx : exAtoi (c :: r) - 1 ≥ ed.len := by
      unfold exAtoi; unfold NUMMAX at *; omega
    have h37 : ((c :: r) == [37]) = false := by
      cases r with
      | nil =>
        have : c ≠ 37 := by omega
        simpa using this
      | cons _ _ => simp
    unfold exRegion
    simp only [h37, Bool.false_eq_true, ↓reduceIte, List.isEmpty_cons, List.length_cons]
    rw [exRegion.go]
    simp only [List.isEmpty_cons, Bool.false_eq_true, ↓reduceIte, exLineno_numeric ed c r hd,
      List.dropWhile_nil, List.isEmpty_nil]
    generalize exAtoi (c :: r) = x at hx
    simp
    have p1 : ¬ (x - 1 = -7 ∧ x = -7) := by omega
    have p2 : ¬ (x ≤ x - 1) := by omega
    have p3 : ¬ (x - 1 < 0 ∧ x = 0) := by omega
    have p4 : x - 1 < 0 ∨ ed.len ≤ x - 1 := Or.inr (by omega)
    have p0 : ¬ (x - 1 < -1) := by omega
    simp only [if_neg p0, if_neg p1, if_neg p2, if_neg p3, if_pos p4]

end Neatvi.Lemmas.C05b
