import NeatviVerif.Lemmas.C05bVi
import NeatviVerif.Lemmas.C06Ex
/-!
# C05b, ex level: the numbers of an address saturate at `TERMMAX = 2^40` before they are added, the line
# number at `NUMMAX = 2^29` after: address arithmetic is exact and stays inside `long long`, the result
# inside `int`

* `exNum s mx`: `atoi` clamped to `±mx`; `exAtoi = exNum · NUMMAX`;
* the offset loop of `exLineno` is not clamped: after `k` offsets the sum is within `k * TERMMAX` of where
  it started (`offs_bounded`), `k ≤` the length of the text; so with at most `EXLEN` bytes of text and a base
  within `±(TERMMAX + 1)` every sum is below `2^63`: `offsChk`, the loop with the range of `long long`
  checked at the addition, is the loop of the model (`offsChk_eq`);
* `exLineno` clamps the sum: the result is within `±NUMMAX` (`exLineno_bounded`);
* digits followed by `+k` / `-k` offsets with all numbers at most `TERMMAX` and an exact sum within
  `±NUMMAX`: `exLineno` returns the exact sum (`exLineno_exact`);
* a purely numeric address beyond the end of the buffer is rejected by `exRegion`.
-/
namespace Neatvi.Lemmas.C05b
open Neatvi Neatvi.Lbuf Neatvi.Ex Neatvi.Lemmas.C06

/-! ### `ex_num`, `ex_atoi` -/

theorem exNum_bounded (s : Bytes) (mx : Int) (h : 0 ≤ mx) : -mx ≤ exNum s mx ∧ exNum s mx ≤ mx := by
  unfold exNum; omega

theorem exNum_small (s : Bytes) (mx : Int) (h0 : -mx ≤ atoi s) (h1 : atoi s ≤ mx) : exNum s mx = atoi s := by
  unfold exNum; omega

theorem exNum_huge (s : Bytes) (mx : Int) (h0 : 0 ≤ mx) (h : atoi s > mx) : exNum s mx = mx := by
  unfold exNum; omega

theorem exNum_huge_neg (s : Bytes) (mx : Int) (h : atoi s < -mx) : exNum s mx = -mx := by
  unfold exNum; omega

theorem exAtoi_bounded (s : Bytes) : -NUMMAX ≤ exAtoi s ∧ exAtoi s ≤ NUMMAX :=
  exNum_bounded s NUMMAX (by decide)

theorem exAtoi_small (s : Bytes) (h0 : -NUMMAX ≤ atoi s) (h1 : atoi s ≤ NUMMAX) : exAtoi s = atoi s :=
  exNum_small s NUMMAX h0 h1

theorem exAtoi_huge (s : Bytes) (h : atoi s > NUMMAX) : exAtoi s = NUMMAX :=
  exNum_huge s NUMMAX (by decide) h

theorem exAtoi_huge_neg (s : Bytes) (h : atoi s < -NUMMAX) : exAtoi s = -NUMMAX :=
  exNum_huge_neg s NUMMAX h

/-- `ex_atoi` is `atoi` clamped: monotone in the value of the number -/
theorem exAtoi_eq_clamp (s : Bytes) : exAtoi s = max (-NUMMAX) (min (atoi s) NUMMAX) := rfl

/-- the decimal value of a digit string -/
def decVal (l : Bytes) : Int := l.foldl (fun (a : Int) (d : Nat) => a * 10 + ((d : Int) - 48)) 0

theorem foldl_digits_nonneg : ∀ (l : Bytes) (a : Int), 0 ≤ a → (∀ d ∈ l, isDigitC d = true) →
    0 ≤ l.foldl (fun (a : Int) (d : Nat) => a * 10 + ((d : Int) - 48)) a := by
  intro l
  induction l with
  | nil => intro a h _; exact h
  | cons d r ih =>
    intro a h hd
    simp only [List.foldl_cons]
    apply ih
    · have := hd d (List.mem_cons_self ..)
      simp only [isDigitC, Bool.and_eq_true, decide_eq_true_eq] at this
      omega
    · intro x hx; exact hd x (List.mem_cons_of_mem _ hx)

theorem decVal_nonneg (l : Bytes) (h : ∀ d ∈ l, isDigitC d = true) : 0 ≤ decVal l :=
  foldl_digits_nonneg l 0 (Int.le_refl 0) h

theorem digit_not_space (c : Nat) (h : isDigitC c = true) : isSpaceC c = false := by
  simp only [isDigitC, Bool.and_eq_true, decide_eq_true_eq] at h
  simp only [isSpaceC, Bool.or_eq_false_iff, beq_eq_false_iff_ne, ne_eq, Bool.and_eq_false_iff,
    decide_eq_false_iff_not]
  omega

/-- `atoi` of a string that starts with a digit: the value of its leading digits -/
theorem atoi_digit_head (c : Nat) (r : Bytes) (h : isDigitC c = true) :
    atoi (c :: r) = decVal ((c :: r).takeWhile isDigitC) := by
  have hs := digit_not_space c h
  have h' := h
  simp only [isDigitC, Bool.and_eq_true, decide_eq_true_eq] at h'
  have h45 : (c == 45) = false := by simp only [beq_eq_false_iff_ne, ne_eq]; omega
  have h43 : (c == 43) = false := by simp only [beq_eq_false_iff_ne, ne_eq]; omega
  unfold atoi decVal
  simp only [List.dropWhile_cons, hs, Bool.false_eq_true, ↓reduceIte, List.headD_cons, h45, h43]

theorem mem_takeWhile_imp (p : Nat → Bool) : ∀ (l : Bytes) (d : Nat), d ∈ l.takeWhile p → p d = true := by
  intro l
  induction l with
  | nil => intro d hd; cases hd
  | cons x r ih =>
    intro d hd
    rw [List.takeWhile_cons] at hd
    split at hd
    · cases hd with
      | head => assumption
      | tail _ h => exact ih d h
    · cases hd

theorem takeWhile_all (p : Nat → Bool) : ∀ (l : Bytes), (∀ d ∈ l, p d = true) → l.takeWhile p = l := by
  intro l
  induction l with
  | nil => intro _; rfl
  | cons x r ih =>
    intro h
    rw [List.takeWhile_cons, if_pos (h x (List.mem_cons_self ..)), ih (fun d hd => h d (List.mem_cons_of_mem _ hd))]

theorem dropWhile_all (p : Nat → Bool) : ∀ (l : Bytes), (∀ d ∈ l, p d = true) → l.dropWhile p = [] := by
  intro l
  induction l with
  | nil => intro _; rfl
  | cons x r ih =>
    intro h
    rw [List.dropWhile_cons, if_pos (h x (List.mem_cons_self ..)), ih (fun d hd => h d (List.mem_cons_of_mem _ hd))]

theorem atoi_digit_head_nonneg (c : Nat) (r : Bytes) (h : isDigitC c = true) : 0 ≤ atoi (c :: r) := by
  rw [atoi_digit_head c r h]
  apply decVal_nonneg
  intro d hd
  exact mem_takeWhile_imp _ _ _ hd

/-- `atoi` of a string of digits is its decimal value -/
theorem atoi_digits (l : Bytes) (h : ∀ d ∈ l, isDigitC d = true) : atoi l = decVal l := by
  cases l with
  | nil => rfl
  | cons c r =>
    rw [atoi_digit_head c r (h c (List.mem_cons_self ..))]
    congr 1
    exact takeWhile_all _ _ h

/-! ### the offset loop of `ex_lineno` -/

theorem length_dropWhile_le (p : Nat → Bool) (l : Bytes) : (l.dropWhile p).length ≤ l.length :=
  (List.dropWhile_sublist p).length_le

/-- the text left after one offset is shorter: the sign is consumed -/
theorem offs_rest_length (s : Bytes) (h : (s.headD 0 == 45 || s.headD 0 == 43) = true) :
    ((s.drop 1).dropWhile isDigitC).length + 1 ≤ s.length := by
  cases s with
  | nil => simp at h
  | cons c r =>
    have := length_dropWhile_le isDigitC r
    simp only [List.drop_succ_cons, List.drop_zero, List.length_cons]
    omega

/-- the number of offsets the loop applies -/
def offsCount : Nat → Bytes → Nat
  | 0, _ => 0
  | f + 1, s =>
    if s.headD 0 == 45 || s.headD 0 == 43 then offsCount f ((s.drop 1).dropWhile isDigitC) + 1 else 0

/-- each offset consumes at least one byte -/
theorem offsCount_le_length : ∀ (f : Nat) (s : Bytes), offsCount f s ≤ s.length := by
  intro f
  induction f with
  | zero => intro s; rw [offsCount]; omega
  | succ f ih =>
    intro s
    rw [offsCount]
    split
    · rename_i h
      have := offs_rest_length s h
      have := ih ((s.drop 1).dropWhile isDigitC)
      omega
    · omega

/-- one offset moves the sum by at most `TERMMAX` -/
theorem offs_step (n : Int) (s : Bytes) :
    n - TERMMAX ≤ n + exNum s TERMMAX ∧ n + exNum s TERMMAX ≤ n + TERMMAX := by
  have := exNum_bounded s TERMMAX (by decide)
  omega

/-- the loop is exact: after `k` offsets the sum is within `k * TERMMAX` of its start -/
theorem offs_bounded : ∀ (f : Nat) (n : Int) (s : Bytes),
    n - offsCount f s * TERMMAX ≤ (exLineno.offs f n s).1 ∧
    (exLineno.offs f n s).1 ≤ n + offsCount f s * TERMMAX := by
  intro f
  induction f with
  | zero => intro n s; rw [exLineno.offs, offsCount]; unfold TERMMAX; omega
  | succ f ih =>
    intro n s
    rw [exLineno.offs, offsCount]
    split
    · have h1 := offs_step n s
      have h2 := ih (n + exNum s TERMMAX) ((s.drop 1).dropWhile isDigitC)
      unfold TERMMAX at *
      omega
    · unfold TERMMAX; omega

/-- in terms of the length of the text -/
theorem offs_bounded_length (f : Nat) (n : Int) (s : Bytes) :
    n - s.length * TERMMAX ≤ (exLineno.offs f n s).1 ∧ (exLineno.offs f n s).1 ≤ n + s.length * TERMMAX := by
  have h1 := offs_bounded f n s
  have h2 := offsCount_le_length f s
  unfold TERMMAX at *
  omega

/-- the range of `long long` -/
def FitsLL (x : Int) : Prop := -9223372036854775808 ≤ x ∧ x ≤ 9223372036854775807

instance (x : Int) : Decidable (FitsLL x) := by unfold FitsLL; exact inferInstance

/-- the offset loop with a failure wherever the C addition `n += ex_num(...)` would leave `long long` -/
def offsChk : Nat → Int → Bytes → Option (Int × Bytes)
  | 0, n, s => some (n, s)
  | f + 1, n, s =>
    if s.headD 0 == 45 || s.headD 0 == 43 then
      if FitsLL (n + exNum s TERMMAX) then offsChk f (n + exNum s TERMMAX) ((s.drop 1).dropWhile isDigitC)
      else none
    else some (n, s)

/-- as long as `|n| + length * TERMMAX` is below `2^63` the checked loop is the loop of the model: the
    check never fires -/
theorem offsChk_eq_of_room : ∀ (f : Nat) (n : Int) (s : Bytes),
    -9223372036854775808 ≤ n - s.length * TERMMAX → n + s.length * TERMMAX ≤ 9223372036854775807 →
    offsChk f n s = some (exLineno.offs f n s) := by
  intro f
  induction f with
  | zero => intro n s _ _; rw [offsChk, exLineno.offs]
  | succ f ih =>
    intro n s h0 h1
    rw [offsChk, exLineno.offs]
    by_cases hc : (s.headD 0 == 45 || s.headD 0 == 43) = true
    · have hl := offs_rest_length s hc
      have hs := offs_step n s
      have hfit : FitsLL (n + exNum s TERMMAX) := by
        unfold FitsLL; unfold TERMMAX at *; omega
      rw [if_pos hc, if_pos hc, if_pos hfit]
      apply ih
      · unfold TERMMAX at *; omega
      · unfold TERMMAX at *; omega
    · rw [if_neg hc, if_neg hc]

/-- an address of at most `EXLEN` bytes, a base within `±(TERMMAX + 1)`: no sum leaves `long long` -/
theorem offsChk_eq (f : Nat) (n : Int) (s : Bytes) (hs : s.length ≤ Gen.EXLEN) (h0 : -TERMMAX - 1 ≤ n)
    (h1 : n ≤ TERMMAX + 1) : offsChk f n s = some (exLineno.offs f n s) := by
  have hE : Gen.EXLEN = 512 := rfl
  apply offsChk_eq_of_room <;> (unfold TERMMAX at *; omega)

/-- the same as a bound on the result: below `2^62`, in fact -/
theorem offs_fits64 (f : Nat) (n : Int) (s : Bytes) (hs : s.length ≤ Gen.EXLEN) (h0 : -TERMMAX - 1 ≤ n)
    (h1 : n ≤ TERMMAX + 1) :
    -9223372036854775808 < (exLineno.offs f n s).1 ∧ (exLineno.offs f n s).1 < 9223372036854775808 := by
  have hE : Gen.EXLEN = 512 := rfl
  have := offs_bounded_length f n s
  unfold TERMMAX at *
  omega

/-! ### `ex_search`: the row found is a row of the buffer -/

theorem scan_bounded (ed : Ed) (re : Rset.RStr) (dir len : Int) : ∀ (f : Nat) (row r : Int),
    exSearch.scan ed re dir len f row = some r → r = -1 ∨ (0 ≤ r ∧ r < len) := by
  intro f
  induction f with
  | zero => intro row r h; rw [exSearch.scan] at h; cases h; exact Or.inl rfl
  | succ f ih =>
    intro row r h
    rw [exSearch.scan] at h
    split at h
    · cases h; exact Or.inl rfl
    · rename_i hrow
      simp only [Bool.or_eq_true, decide_eq_true_eq, not_or, Int.not_lt, ge_iff_le, Int.not_le] at hrow
      split at h
      · cases h; exact Or.inl rfl
      · split at h
        · cases h
        · split at h
          · cases h; exact Or.inr ⟨hrow.1, hrow.2⟩
          · exact ih _ _ h

theorem exSearch_bounded (ed : Ed) (loc : Bytes) (n : Int) (rest : Bytes) (ed' : Ed)
    (h : exSearch ed loc = some ((n, rest), ed')) : n = -1 ∨ (0 ≤ n ∧ n < ed.len) := by
  have ha := exSearch_addrOnly ed loc _ _ h
  rw [exSearch_eq] at h
  have hk : AddrOnly ed (kwEd ed (reRead loc).1 (if loc.headD 0 == 47 then 1 else -1)) := kw_addrOnly _ _ _
  generalize kwEd ed (reRead loc).1 (if loc.headD 0 == 47 then 1 else -1) = ed1 at h hk
  simp only [] at h
  split at h
  · cases h; exact Or.inl rfl
  · split at h
    · cases h
    · cases h; exact Or.inl rfl
    · split at h
      · cases h
      · rename_i hs
        cases h
        rw [← hk.len]
        exact scan_bounded _ _ _ _ _ _ _ hs

/-! ### `ex_lineno` -/

/-- what address evaluation reads from the editor state is inside the range of line numbers: the current
    row, the length of the buffer, the marks -/
structure AddrFits (ed : Ed) : Prop where
  xrow_lo : -NUMMAX - 1 ≤ ed.xrow
  xrow_hi : ed.xrow ≤ NUMMAX
  len_hi : ed.len ≤ NUMMAX
  marks : ∀ lb c p o, ed.lb = some lb → jump lb c = some (p, o) → p ≤ NUMMAX

theorem jump_nonneg (lb : Lb) (c : Nat) (p o : Int) (h : jump lb c = some (p, o)) : 0 ≤ p := by
  unfold jump at h
  split at h
  · simp only [] at h
    split at h
    · cases h
    · cases h; omega
  · cases h

/-- the base of an address (before the offsets), or the marker `-1000000`: the first part of `exLineno` -/
def exLinenoBase (ed : Ed) (loc : Bytes) : R (Int × Bytes) :=
  if loc.headD 0 == 46 then some ((ed.xrow, loc.drop 1), ed)
  else if loc.headD 0 == 36 then some ((ed.len - 1, loc.drop 1), ed)
  else if loc.headD 0 == 39 then
    match ed.lb.bind (fun l => jump l (loc.getD 1 0)) with
    | none => some ((-1000000, loc.drop 1), ed)
    | some (p, _) => some ((p, loc.drop 2), ed)
  else if loc.headD 0 == 47 || loc.headD 0 == 63 then
    match exSearch ed loc with
    | none => none
    | some ((n, rest), ed) => if n < 0 then some ((-1000000, rest), ed) else some ((n, rest), ed)
  else if isDigitC (loc.headD 0) then some ((exNum loc TERMMAX - 1, loc.dropWhile isDigitC), ed)
  else some ((ed.xrow, loc), ed)

/-- `exLineno` is: the base, the offset loop, the clamp -/
theorem exLineno_eq (ed : Ed) (loc : Bytes) : exLineno ed loc =
    match exLinenoBase ed loc with
    | none => none
    | some ((n, rest), ed) =>
      if n == -1000000 then some ((-2, rest), ed) else
      some ((max (-NUMMAX) (min (exLineno.offs (rest.length + 1) n rest).1 NUMMAX),
        (exLineno.offs (rest.length + 1) n rest).2), ed) := rfl

/-- the base is within `[-NUMMAX - 1, TERMMAX - 1]` when the current row, the length of the buffer and the
    marks are within `±NUMMAX`: the sum starts inside `long long` with room for `EXLEN` offsets -/
theorem exLineno_base_bounded (ed : Ed) (loc : Bytes) (hf : AddrFits ed) (n : Int) (rest : Bytes) (ed' : Ed)
    (h : exLinenoBase ed loc = some ((n, rest), ed')) : -NUMMAX - 1 ≤ n ∧ n ≤ TERMMAX - 1 := by
  have hl := len_nonneg ed
  have hN : NUMMAX = 536870912 := rfl
  have hT : TERMMAX = 1099511627776 := rfl
  have h1 := hf.xrow_lo
  have h2 := hf.xrow_hi
  have h3 := hf.len_hi
  unfold exLinenoBase at h
  split at h
  · cases h; omega
  · split at h
    · cases h; omega
    · split at h
      · split at h
        · cases h; omega
        · rename_i p o hj
          cases h
          cases hlb : ed.lb with
          | none => rw [hlb] at hj; cases hj
          | some lb =>
            rw [hlb] at hj
            simp only [Option.bind_some] at hj
            have := jump_nonneg _ _ _ _ hj
            have := hf.marks _ _ _ _ hlb hj
            omega
      · split at h
        · split at h
          · cases h
          · rename_i hs
            have hb := exSearch_bounded _ _ _ _ _ hs
            split at h <;> (cases h; omega)
        · split at h
          · rename_i hdig
            cases h
            cases loc with
            | nil => simp [isDigitC] at hdig
            | cons c r =>
              have := atoi_digit_head_nonneg c r (by simpa using hdig)
              have := exNum_bounded (c :: r) TERMMAX (by decide)
              unfold exNum at *
              omega
          · cases h; omega

/-- `ex_lineno` returns a number within `±NUMMAX` (`-2`, the failure marker, is one of them): the clamp at
    its end, whatever the state and the text -/
theorem exLineno_bounded (ed : Ed) (loc : Bytes) (n : Int) (rest : Bytes) (ed' : Ed)
    (h : exLineno ed loc = some ((n, rest), ed')) : -NUMMAX ≤ n ∧ n ≤ NUMMAX := by
  rw [exLineno_eq] at h
  split at h
  · cases h
  · split at h
    · cases h; unfold NUMMAX; omega
    · cases h; unfold NUMMAX; omega

/-- `ex_lineno` with the range of `long long` checked at every addition of the offset loop -/
def exLinenoChk (ed : Ed) (loc : Bytes) : R (Int × Bytes) :=
  match exLinenoBase ed loc with
  | none => none
  | some ((n, rest), ed) =>
    if n == -1000000 then some ((-2, rest), ed) else
    match offsChk (rest.length + 1) n rest with
    | none => none
    | some (m, rest) => some ((max (-NUMMAX) (min m NUMMAX), rest), ed)

theorem reRead_go_length (delim : Nat) : ∀ (f : Nat) (s acc : Bytes),
    (reRead.go delim f s acc).2.length ≤ s.length := by
  intro f
  induction f with
  | zero => intro s acc; rw [reRead.go]; exact Nat.le_refl _
  | succ f ih =>
    intro s acc
    cases s with
    | nil => rw [reRead.go]; exact Nat.le_refl _
    | cons c r =>
      rw [reRead.go]
      split
      · simp only [List.length_cons]; omega
      · split
        · have := ih (r.drop 1) (if !(r.headD 0 == delim && decide (delim < 128)) then acc ++ [92, r.headD 0] else acc ++ [r.headD 0])
          simp only [List.length_drop, List.length_cons] at *
          omega
        · have := ih r (acc ++ [c])
          simp only [List.length_cons]; omega

theorem reRead_length (loc : Bytes) : (reRead loc).2.length ≤ loc.length := by
  cases loc with
  | nil => exact Nat.le_refl _
  | cons d s =>
    have := reRead_go_length d (s.length + 1) s []
    simp only [reRead, List.length_cons]
    omega

theorem exSearch_rest (ed : Ed) (loc : Bytes) (n : Int) (rest : Bytes) (ed' : Ed)
    (h : exSearch ed loc = some ((n, rest), ed')) : rest = (reRead loc).2 := by
  rw [exSearch_eq] at h
  generalize kwEd ed (reRead loc).1 (if loc.headD 0 == 47 then 1 else -1) = ed1 at h
  simp only [] at h
  split at h
  · cases h; rfl
  · split at h
    · cases h
    · cases h; rfl
    · split at h
      · cases h
      · cases h; rfl

/-- the base leaves a suffix of the text -/
theorem exLinenoBase_rest_length (ed : Ed) (loc : Bytes) (n : Int) (rest : Bytes) (ed' : Ed)
    (h : exLinenoBase ed loc = some ((n, rest), ed')) : rest.length ≤ loc.length := by
  unfold exLinenoBase at h
  split at h
  · cases h; simp only [List.length_drop]; omega
  · split at h
    · cases h; simp only [List.length_drop]; omega
    · split at h
      · split at h <;> (cases h; simp only [List.length_drop]; omega)
      · split at h
        · split at h
          · cases h
          · rename_i hs
            have hr := exSearch_rest _ _ _ _ _ hs
            have := reRead_length loc
            split at h <;> (cases h; rw [hr]; exact this)
        · split at h
          · cases h; exact length_dropWhile_le _ _
          · cases h; exact Nat.le_refl _

/-- an address of at most `EXLEN` bytes evaluated in a state within range: `ex_lineno` with every addition
    checked against `long long` is `ex_lineno` — no check ever fires -/
theorem exLinenoChk_eq (ed : Ed) (loc : Bytes) (hf : AddrFits ed) (hlen : loc.length ≤ Gen.EXLEN) :
    exLinenoChk ed loc = exLineno ed loc := by
  rw [exLineno_eq]
  unfold exLinenoChk
  cases hb : exLinenoBase ed loc with
  | none => rfl
  | some x =>
    obtain ⟨⟨n, rest⟩, ed1⟩ := x
    have hr := exLinenoBase_rest_length ed loc n rest ed1 hb
    obtain ⟨k0, k1⟩ := exLineno_base_bounded ed loc hf n rest ed1 hb
    have hchk := offsChk_eq (rest.length + 1) n rest (Nat.le_trans hr hlen)
      (by unfold NUMMAX TERMMAX at *; omega) (by omega)
    simp only [hchk]

/-! ### a numeric address with offsets: the arithmetic is exact -/

theorem takeWhile_digits_append (ds t : Bytes) (hd : ∀ d ∈ ds, isDigitC d = true)
    (ht : isDigitC (t.headD 0) = false) : (ds ++ t).takeWhile isDigitC = ds := by
  rw [List.takeWhile_append_of_pos hd]
  cases t with
  | nil => simp
  | cons x t =>
    simp only [List.headD_cons] at ht
    simp [ht]

theorem dropWhile_digits_append (ds t : Bytes) (hd : ∀ d ∈ ds, isDigitC d = true)
    (ht : isDigitC (t.headD 0) = false) : (ds ++ t).dropWhile isDigitC = t := by
  rw [List.dropWhile_append_of_pos hd]
  cases t with
  | nil => simp
  | cons x t =>
    simp only [List.headD_cons] at ht
    simp [ht]

/-- `atoi` of digits followed by something else: the value of the digits -/
theorem atoi_digits_append (c : Nat) (r t : Bytes) (hd : ∀ d ∈ c :: r, isDigitC d = true)
    (ht : isDigitC (t.headD 0) = false) : atoi ((c :: r) ++ t) = decVal (c :: r) := by
  rw [List.cons_append, atoi_digit_head c (r ++ t) (hd c (List.mem_cons_self ..))]
  congr 1
  rw [← List.cons_append]
  exact takeWhile_digits_append (c :: r) t hd ht

/-- `atoi` of a sign, digits, something else: the signed value of the digits (`+` alone is 0) -/
theorem atoi_sign_digits (neg : Bool) (ds t : Bytes) (hd : ∀ d ∈ ds, isDigitC d = true)
    (ht : isDigitC (t.headD 0) = false) :
    atoi ((if neg then 45 else 43) :: (ds ++ t)) = if neg then -decVal ds else decVal ds := by
  cases neg
  · unfold atoi decVal
    simp [isSpaceC, takeWhile_digits_append ds t hd ht]
  · unfold atoi decVal
    simp [isSpaceC, takeWhile_digits_append ds t hd ht]

/-- offsets as text: a sign (`true` is `-`) and digits each -/
def offsText : List (Bool × Bytes) → Bytes
  | [] => []
  | (neg, ds) :: l => (if neg then 45 else 43) :: (ds ++ offsText l)

/-- the exact sum of the offsets -/
def offsSum : List (Bool × Bytes) → Int
  | [] => 0
  | (neg, ds) :: l => (if neg then -decVal ds else decVal ds) + offsSum l

/-- every offset is a string of digits of value at most `TERMMAX` -/
def OffsOk (l : List (Bool × Bytes)) : Prop :=
  ∀ p ∈ l, (∀ d ∈ p.2, isDigitC d = true) ∧ decVal p.2 ≤ TERMMAX

/-- what follows the address is neither an offset nor a digit -/
def NoOffs (t : Bytes) : Prop :=
  (t.headD 0 == 45 || t.headD 0 == 43) = false ∧ isDigitC (t.headD 0) = false

theorem noOffs_nil : NoOffs [] := ⟨by decide, by decide⟩

instance (l : List (Bool × Bytes)) : Decidable (OffsOk l) := by unfold OffsOk; exact inferInstance
instance (t : Bytes) : Decidable (NoOffs t) := by unfold NoOffs; exact inferInstance

theorem offsText_length : ∀ l : List (Bool × Bytes), l.length ≤ (offsText l).length := by
  intro l
  induction l with
  | nil => exact Nat.le_refl _
  | cons p l ih =>
    obtain ⟨neg, ds⟩ := p
    simp only [offsText, List.length_cons, List.length_append]
    omega

theorem offsText_head_nondigit (l : List (Bool × Bytes)) (t : Bytes) (ht : isDigitC (t.headD 0) = false) :
    isDigitC ((offsText l ++ t).headD 0) = false := by
  cases l with
  | nil => simpa [offsText] using ht
  | cons p l =>
    obtain ⟨neg, ds⟩ := p
    cases neg <;> simp [offsText, isDigitC]

/-- the loop on such a text adds the exact values -/
theorem offs_exact : ∀ (l : List (Bool × Bytes)) (f : Nat) (n : Int) (t : Bytes),
    l.length < f → OffsOk l → NoOffs t →
    exLineno.offs f n (offsText l ++ t) = (n + offsSum l, t) := by
  intro l
  induction l with
  | nil =>
    intro f n t hf _ ht
    cases f with
    | zero => omega
    | succ f =>
      rw [exLineno.offs]
      simp only [offsText, List.nil_append, ht.1, Bool.false_eq_true, ↓reduceIte, offsSum, Int.add_zero]
  | cons p l ih =>
    intro f n t hf hok ht
    obtain ⟨neg, ds⟩ := p
    cases f with
    | zero => omega
    | succ f =>
      have hds : (∀ d ∈ ds, isDigitC d = true) ∧ decVal ds ≤ TERMMAX := hok (neg, ds) (List.mem_cons_self ..)
      have hok' : OffsOk l := fun q hq => hok q (List.mem_cons_of_mem _ hq)
      have hnd := offsText_head_nondigit l t ht.2
      have hpos := decVal_nonneg ds hds.1
      have htxt : offsText ((neg, ds) :: l) ++ t = (if neg then 45 else 43) :: (ds ++ (offsText l ++ t)) := by
        simp [offsText, List.append_assoc]
      have hsign : (((if neg then 45 else 43) :: (ds ++ (offsText l ++ t))).headD 0 == 45 ||
          ((if neg then 45 else 43) :: (ds ++ (offsText l ++ t))).headD 0 == 43) = true := by
        cases neg <;> simp
      have hnum : exNum ((if neg then 45 else 43) :: (ds ++ (offsText l ++ t))) TERMMAX =
          if neg then -decVal ds else decVal ds := by
        have hT : TERMMAX = 1099511627776 := rfl
        have hle := hds.2
        rw [exNum_small _ _ (by rw [atoi_sign_digits neg ds _ hds.1 hnd]; split <;> omega)
          (by rw [atoi_sign_digits neg ds _ hds.1 hnd]; split <;> omega)]
        exact atoi_sign_digits neg ds _ hds.1 hnd
      rw [htxt, exLineno.offs, if_pos hsign, hnum]
      simp only [List.drop_succ_cons, List.drop_zero]
      rw [dropWhile_digits_append ds _ hds.1 hnd, ih f _ t (by simp only [List.length_cons] at hf; omega) hok' ht]
      simp only [offsSum, Int.add_assoc]

/-- `ex_lineno` on a text that starts with a digit: the number, the offset loop, the clamp -/
theorem exLineno_digit (ed : Ed) (c : Nat) (r : Bytes) (hc : isDigitC c = true) :
    exLineno ed (c :: r) =
      some ((max (-NUMMAX) (min (exLineno.offs (((c :: r).dropWhile isDigitC).length + 1)
          (exNum (c :: r) TERMMAX - 1) ((c :: r).dropWhile isDigitC)).1 NUMMAX),
        (exLineno.offs (((c :: r).dropWhile isDigitC).length + 1)
          (exNum (c :: r) TERMMAX - 1) ((c :: r).dropWhile isDigitC)).2), ed) := by
  have hpos := atoi_digit_head_nonneg c r hc
  have hc' := hc
  simp only [isDigitC, Bool.and_eq_true, decide_eq_true_eq] at hc'
  have e46 : (c == 46) = false := by simp only [beq_eq_false_iff_ne, ne_eq]; omega
  have e36 : (c == 36) = false := by simp only [beq_eq_false_iff_ne, ne_eq]; omega
  have e39 : (c == 39) = false := by simp only [beq_eq_false_iff_ne, ne_eq]; omega
  have e47 : (c == 47) = false := by simp only [beq_eq_false_iff_ne, ne_eq]; omega
  have e63 : (c == 63) = false := by simp only [beq_eq_false_iff_ne, ne_eq]; omega
  have hm : (exNum (c :: r) TERMMAX - 1 == -1000000) = false := by
    simp only [beq_eq_false_iff_ne, ne_eq]
    unfold exNum TERMMAX; omega
  have hbase : exLinenoBase ed (c :: r) =
      some ((exNum (c :: r) TERMMAX - 1, (c :: r).dropWhile isDigitC), ed) := by
    unfold exLinenoBase
    simp only [List.headD_cons, e46, e36, e39, e47, e63, hc, Bool.false_eq_true, ↓reduceIte, Bool.or_self]
  rw [exLineno_eq, hbase]
  simp only [hm, Bool.false_eq_true, ↓reduceIte]

/-- digits followed by offsets, every number at most `TERMMAX`: `ex_lineno` returns the exact sum, clamped
    to `±NUMMAX` once, at the end; the rest of the text is left -/
theorem exLineno_numeric_offsets (ed : Ed) (c : Nat) (r : Bytes) (l : List (Bool × Bytes)) (t : Bytes)
    (hd : ∀ d ∈ c :: r, isDigitC d = true) (hv : decVal (c :: r) ≤ TERMMAX) (hl : OffsOk l) (ht : NoOffs t) :
    exLineno ed ((c :: r) ++ (offsText l ++ t)) =
      some ((max (-NUMMAX) (min (decVal (c :: r) - 1 + offsSum l) NUMMAX), t), ed) := by
  have hnd := offsText_head_nondigit l t ht.2
  have hpos := decVal_nonneg (c :: r) hd
  have hat := atoi_digits_append c r (offsText l ++ t) hd hnd
  have hnum : exNum ((c :: r) ++ (offsText l ++ t)) TERMMAX = decVal (c :: r) := by
    have hT : TERMMAX = 1099511627776 := rfl
    rw [exNum_small _ _ (by rw [hat]; omega) (by rw [hat]; omega), hat]
  have hdrop : ((c :: r) ++ (offsText l ++ t)).dropWhile isDigitC = offsText l ++ t :=
    dropWhile_digits_append (c :: r) _ hd hnd
  have hlen : l.length < (offsText l ++ t).length + 1 := by
    have := offsText_length l
    simp only [List.length_append]; omega
  rw [List.cons_append] at hdrop hnum ⊢
  rw [exLineno_digit ed c _ (hd c (List.mem_cons_self ..)), hdrop, hnum, offs_exact l _ _ t hlen hl ht]

/-- the reason for adding before clamping: when the exact sum is a line number (within `±NUMMAX`),
    `ex_lineno` returns it, however large the numbers in between are (up to `TERMMAX = 2^40`) -/
theorem exLineno_exact (ed : Ed) (c : Nat) (r : Bytes) (l : List (Bool × Bytes)) (t : Bytes)
    (hd : ∀ d ∈ c :: r, isDigitC d = true) (hv : decVal (c :: r) ≤ TERMMAX) (hl : OffsOk l) (ht : NoOffs t)
    (h0 : -NUMMAX ≤ decVal (c :: r) - 1 + offsSum l) (h1 : decVal (c :: r) - 1 + offsSum l ≤ NUMMAX) :
    exLineno ed ((c :: r) ++ (offsText l ++ t)) = some ((decVal (c :: r) - 1 + offsSum l, t), ed) := by
  rw [exLineno_numeric_offsets ed c r l t hd hv hl ht]
  have : max (-NUMMAX) (min (decVal (c :: r) - 1 + offsSum l) NUMMAX) = decVal (c :: r) - 1 + offsSum l := by
    omega
  rw [this]

/-! ### a purely numeric address -/

/-- `ex_lineno` on a string of digits: the number minus one, at most `NUMMAX`; nothing left over -/
theorem exLineno_numeric (ed : Ed) (c : Nat) (r : Bytes) (hd : ∀ d ∈ c :: r, isDigitC d = true) :
    exLineno ed (c :: r) = some ((min (atoi (c :: r) - 1) NUMMAX, []), ed) := by
  have hpos := atoi_digit_head_nonneg c r (hd c (List.mem_cons_self ..))
  rw [exLineno_digit ed c r (hd c (List.mem_cons_self ..)), dropWhile_all _ _ hd]
  simp only [List.length_nil, Nat.zero_add]
  rw [exLineno.offs]
  simp only [List.headD_nil]
  have : max (-NUMMAX) (min (exNum (c :: r) TERMMAX - 1) NUMMAX) = min (atoi (c :: r) - 1) NUMMAX := by
    unfold exNum TERMMAX NUMMAX; omega
  simp [this]

/-- a number `k` with `k - 1 ≥ len` as the only address: `ex_region` returns 1 (with the number, saturated at
    `NUMMAX`, in `beg` / `end`); `len < NUMMAX` is the standing assumption on the size of a buffer -/
theorem region_numeric_beyond (ed : Ed) (loc : Bytes) (hne : loc ≠ []) (hd : ∀ d ∈ loc, isDigitC d = true)
    (hlen : ed.len < NUMMAX) (hk : atoi loc - 1 ≥ ed.len) :
    exRegion ed loc = some ((1, min (atoi loc - 1) NUMMAX, min (atoi loc - 1) NUMMAX + 1), ed) := by
  cases loc with
  | nil => exact absurd rfl hne
  | cons c r =>
    have hl := len_nonneg ed
    have hc := hd c (List.mem_cons_self ..)
    have hc' := hc
    simp only [isDigitC, Bool.and_eq_true, decide_eq_true_eq] at hc'
    have hx : min (atoi (c :: r) - 1) NUMMAX ≥ ed.len := by omega
    have h37 : ((c :: r) == [37]) = false := by
      cases r with
      | nil =>
        have : c ≠ 37 := by omega
        simpa using this
      | cons _ _ => simp
    unfold exRegion
    simp only [h37, Bool.false_eq_true, ↓reduceIte, List.isEmpty_cons, List.length_cons]
    rw [exRegion.go]
    simp only [List.isEmpty_cons, Bool.false_eq_true, ↓reduceIte, exLineno_numeric ed c r hd,
      List.dropWhile_nil, List.isEmpty_nil]
    generalize min (atoi (c :: r) - 1) NUMMAX = x at hx
    simp
    have p1 : ¬ (x = -7 ∧ x + 1 = -7) := by omega
    have p2 : ¬ (x + 1 ≤ x) := by omega
    have p3 : ¬ (x < 0 ∧ x + 1 = 0) := by omega
    have p4 : x < 0 ∨ ed.len ≤ x := Or.inr (by omega)
    have p0 : ¬ (x < -1) := by omega
    simp only [if_neg p0, if_neg p1, if_neg p2, if_neg p3, if_pos p4]

end Neatvi.Lemmas.C05b
