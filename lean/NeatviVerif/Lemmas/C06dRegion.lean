import NeatviVerif.Lemmas.C06dLineno
/-!
# C06d: `ex_region` on the rendering of a location is the reference region
-/
namespace Neatvi.Lemmas.C06d
open Neatvi Neatvi.Lbuf Neatvi.Ex Neatvi.Rset Neatvi.Lemmas.C06 Neatvi.Lemmas.C05b

theorem dropWhile_junk (junk t : Bytes) (hj : ∀ c ∈ junk, c ≠ 44 ∧ c ≠ 59) (ht : SepTail t) :
    (junk ++ t).dropWhile (fun c => c != 59 && c != 44) = t := by
  rw [List.dropWhile_append_of_pos (fun c hc => by obtain ⟨h1, h2⟩ := hj c hc; simp [h1, h2])]
  cases t with
  | nil => rfl
  | cons x r =>
    rcases ht with h | h | h
    · cases h
    · simp only [List.headD_cons] at h; subst h; rfl
    · simp only [List.headD_cons] at h; subst h; rfl

/-- one round of the loop of `ex_region` on an address followed by its separator -/
theorem go_step (f : Nat) (ed : Ed) (a : Addr) (s : Sep) (rest : Bytes) (naddr : Nat) (b e : Int)
    (hok : a.Ok) (hcl : a.base.closed = false → s = .fin) (hfin : s = .fin → rest = [] ∧ a.render ≠ [])
    (hx : ed.xrow ≠ -1000000) :
    exRegion.go (f + 1) ed (a.render ++ (s.text ++ rest)) naddr b e =
      match a.eval (worldOf ed) (cursorOf ed) with
      | none => none
      | some (none, c1) => some ((-7, -7), withCursor ed c1)
      | some (some n, c1) =>
        if n < -1 then some ((-7, -7), withCursor ed c1) else
        if s = .fin then some ((if naddr != 0 then e - 1 else n, n + 1), withCursor ed c1)
        else exRegion.go f (withCursor ed (if s = .semi then { c1 with cur := n } else c1)) rest (naddr + 2)
          (if naddr != 0 then e - 1 else n) (n + 1) := by
  have htail : SepTail (s.text ++ rest) := by
    cases s with
    | comma => right; left; rfl
    | semi => right; right; rfl
    | fin => left; rw [(hfin rfl).1]; rfl
  have hc : a.base.closed = false → s.text ++ rest = [] := by
    intro h
    have hs := hcl h
    subst hs
    rw [(hfin rfl).1]; rfl
  have hne : (a.render ++ (s.text ++ rest)).isEmpty = false := by
    cases s with
    | comma => simp [Sep.text]
    | semi => simp [Sep.text]
    | fin =>
      obtain ⟨h1, h2⟩ := hfin rfl
      subst h1
      cases hr : a.render with
      | nil => exact absurd hr h2
      | cons x xs => rfl
  rw [exRegion.go]
  simp only [hne, Bool.false_eq_true, if_false]
  rw [exLineno_render ed a _ hok htail hc hx]
  cases hev : a.eval (worldOf ed) (cursorOf ed) with
  | none => rfl
  | some x =>
    obtain ⟨r, c1⟩ := x
    cases r with
    | none => simp
    | some n =>
      simp only []
      by_cases hn : n < -1
      · rw [if_pos hn, if_pos hn]
      · rw [if_neg hn, if_neg hn, dropWhile_junk _ _ hok.2.2.1.1 htail]
        have h1 : n + 1 - 1 = n := by omega
        rw [h1]
        cases s with
        | fin =>
          obtain ⟨hr, _⟩ := hfin rfl
          subst hr
          simp [Sep.text]
        | comma =>
          simp [Sep.text]
        | semi =>
          simp [Sep.text]
          rfl

/-- the region the loop of `ex_region` has reached after the values `vals` (`first`: no address seen yet) -/
def regionFrom (first : Bool) (b e : Int) : List Int → Int × Int
  | [] => (b, e)
  | n :: r => regionFrom false (if first then n else e - 1) (n + 1) r

theorem renderList_cons (a : Addr) (s : Sep) (r : AddrList) :
    renderList ((a, s) :: r) = a.render ++ (s.text ++ renderList r) := by
  simp [renderList, List.append_assoc]

theorem go_nil (f : Nat) (ed : Ed) (naddr : Nat) (b e : Int) : exRegion.go f ed [] naddr b e = some ((b, e), ed) := by
  cases f <;> (rw [exRegion.go]; try rfl)

theorem go_render : ∀ (l : AddrList), ListOk l → ∀ (f : Nat) (ed : Ed) (naddr : Nat) (b e : Int),
    (renderList l).length < f → ed.xrow ≠ -1000000 →
    exRegion.go f ed (renderList l) naddr b e =
      match evalList (worldOf ed) (cursorOf ed) l with
      | none => none
      | some (none, c1) => some ((-7, -7), withCursor ed c1)
      | some (some vals, c1) => some (regionFrom (naddr == 0) b e vals, withCursor ed c1) := by
  intro l
  induction l with
  | nil => intro h; exact absurd h (by simp [ListOk])
  | cons p r ih =>
    obtain ⟨a, s⟩ := p
    intro hok f ed naddr b e hf hx
    obtain ⟨f, rfl⟩ : ∃ g, f = g + 1 := ⟨f - 1, by omega⟩
    -- the facts `ListOk` gives for the head
    have hfacts : a.Ok ∧ (a.base.closed = false → s = .fin) ∧ (s = .fin → renderList r = [] ∧ a.render ≠ []) ∧
        (r ≠ [] → ListOk r) := by
      cases r with
      | nil =>
        obtain ⟨h1, h2, h3⟩ := hok
        refine ⟨h1, ?_, fun hs => ⟨rfl, h2 hs⟩, fun h => absurd rfl h⟩
        intro hcl
        cases s with
        | fin => rfl
        | comma => have := h3 (by decide); rw [this] at hcl; cases hcl
        | semi => have := h3 (by decide); rw [this] at hcl; cases hcl
      | cons q r' =>
        obtain ⟨h1, h2, h3, h4⟩ := hok
        refine ⟨h1, fun hcl => ?_, fun hs => absurd hs h2, fun _ => h4⟩
        rw [h3] at hcl; cases hcl
    obtain ⟨ha, hcl, hfin, hrest⟩ := hfacts
    rw [renderList_cons, go_step f ed a s (renderList r) naddr b e ha hcl hfin hx]
    simp only [evalList]
    cases hev : a.eval (worldOf ed) (cursorOf ed) with
    | none => rfl
    | some x =>
      obtain ⟨v, c1⟩ := x
      cases v with
      | none => rfl
      | some n =>
        simp only []
        by_cases hn : n < -1
        · rw [if_pos hn, if_pos hn]
        · rw [if_neg hn, if_neg hn]
          have hfirst : (if (naddr != 0) = true then e - 1 else n) = if (naddr == 0) = true then n else e - 1 := by
            cases naddr <;> simp
          rw [hfirst]
          cases r with
          | nil =>
            simp only [evalList, regionFrom]
            by_cases hs : s = .fin
            · rw [if_pos hs]
              subst hs
              rfl
            · rw [if_neg hs]
              have : renderList [] = [] := rfl
              rw [this, go_nil]
          | cons q r' =>
            have hs : s ≠ .fin := by
              intro h
              have := (hfin h).1
              rw [renderList_cons] at this
              obtain ⟨a', s'⟩ := q
              have hq := hrest (by simp)
              -- a non-empty well-formed list renders to a non-empty text
              cases r' with
              | nil =>
                obtain ⟨_, h2, _⟩ := hq
                cases s' with
                | fin => simp only [Sep.text, List.nil_append, List.append_eq_nil_iff] at this; exact h2 rfl this.1
                | comma => simp [Sep.text] at this
                | semi => simp [Sep.text] at this
              | cons q' r'' =>
                obtain ⟨_, h2, _⟩ := hq
                cases s' with
                | fin => exact h2 rfl
                | comma => simp [Sep.text] at this
                | semi => simp [Sep.text] at this
            rw [if_neg hs]
            have hlen : (renderList (q :: r')).length < f := by
              rw [renderList_cons] at hf
              cases s with
              | fin => exact absurd rfl hs
              | comma => simp [Sep.text] at hf; omega
              | semi => simp [Sep.text] at hf; omega
            have hx' : (withCursor ed (if s = .semi then { c1 with cur := n } else c1)).xrow ≠ -1000000 := by
              have hnot : n ≠ -1000000 := by omega
              split
              · exact hnot
              · -- the current row is unchanged: `Addr.eval` only touches the remembered search
                show c1.cur ≠ -1000000
                have : c1.cur = (cursorOf ed).cur := by
                  unfold Addr.eval at hev
                  cases hb : a.base.eval (worldOf ed) (cursorOf ed) with
                  | none => rw [hb] at hev; cases hev
                  | some y =>
                    obtain ⟨v', c'⟩ := y
                    rw [hb] at hev
                    have hc' : c'.cur = (cursorOf ed).cur := by
                      cases hbase : a.base with
                      | search back toks cl =>
                        rw [hbase, search_eval_eq] at hb
                        simp only [] at hb
                        have hk : (kwCursor (cursorOf ed) back (cookedPat (delimOf back) toks)).cur = (cursorOf ed).cur := by
                          unfold kwCursor; split <;> rfl
                        split at hb
                        · cases hb; exact hk
                        · split at hb
                          · cases hb
                          · cases hb; exact hk
                          · split at hb
                            · cases hb
                            · cases hb; exact hk
                      | implicit => rw [hbase] at hb; simp only [Base.eval, Option.some.injEq, Prod.mk.injEq] at hb; rw [← hb.2]
                      | dot => rw [hbase] at hb; simp only [Base.eval, Option.some.injEq, Prod.mk.injEq] at hb; rw [← hb.2]
                      | dollar => rw [hbase] at hb; simp only [Base.eval, Option.some.injEq, Prod.mk.injEq] at hb; rw [← hb.2]
                      | mark m => rw [hbase] at hb; simp only [Base.eval, Option.some.injEq, Prod.mk.injEq] at hb; rw [← hb.2]
                      | quote => rw [hbase] at hb; simp only [Base.eval, Option.some.injEq, Prod.mk.injEq] at hb; rw [← hb.2]
                      | num ds => rw [hbase] at hb; simp only [Base.eval, Option.some.injEq, Prod.mk.injEq] at hb; rw [← hb.2]
                    cases v' with
                    | none => cases hev
                    | some v'' =>
                      simp only [Option.some.injEq, Prod.mk.injEq] at hev
                      rw [← hev.2]; exact hc'
                rw [this]
                exact hx
            have hih := ih (hrest (by simp)) f _ (naddr + 2) (if (naddr == 0) = true then n else e - 1) (n + 1) hlen hx'
            rw [hih]
            simp only [worldOf_withCursor, cursorOf_withCursor, withCursor_withCursor]
            cases evalList (worldOf ed) (if s = .semi then { c1 with cur := n } else c1) (q :: r') with
            | none => rfl
            | some y =>
              obtain ⟨vs, c2⟩ := y
              cases vs with
              | none => rfl
              | some vals =>
                simp only [regionFrom]
                have : (naddr + 2 == 0) = false := by simp
                rw [this]

/-! ### the values of a list -/

theorem evalList_vals (w : World) : ∀ (l : AddrList) (c : Cursor) (vals : List Int) (c1 : Cursor),
    evalList w c l = some (some vals, c1) → vals.length = l.length ∧ ∀ v ∈ vals, -1 ≤ v := by
  intro l
  induction l with
  | nil =>
    intro c vals c1 h
    simp only [evalList, Option.some.injEq, Prod.mk.injEq] at h
    obtain ⟨rfl, _⟩ := h
    exact ⟨rfl, fun v hv => by cases hv⟩
  | cons p r ih =>
    obtain ⟨a, s⟩ := p
    intro c vals c1 h
    simp only [evalList] at h
    split at h
    · cases h
    · cases h
    · rename_i n c' _
      split at h
      · cases h
      · rename_i hn
        split at h
        · cases h
        · cases h
        · rename_i l' c2 hl
          simp only [Option.some.injEq, Prod.mk.injEq] at h
          obtain ⟨rfl, _⟩ := h
          obtain ⟨i1, i2⟩ := ih _ _ _ hl
          refine ⟨by simp [i1], ?_⟩
          intro v hv
          cases hv with
          | head => omega
          | tail _ hv => exact i2 v hv

theorem regionFrom_eq : ∀ (vals : List Int) (first : Bool) (b e : Int), vals ≠ [] →
    regionFrom first b e vals =
      ((vals.dropLast.getLast?).getD (if first then vals.getLast?.getD 0 else e - 1), vals.getLast?.getD 0 + 1) := by
  intro vals
  induction vals with
  | nil => intro _ _ _ h; exact absurd rfl h
  | cons n r ih =>
    intro first b e _
    cases r with
    | nil => simp [regionFrom]
    | cons m r' =>
      rw [regionFrom, ih false _ _ (by simp)]
      have h1 : (n :: m :: r').getLast? = (m :: r').getLast? := by simp [List.getLast?_cons_cons]
      rw [h1]
      congr 1
      cases r' with
      | nil => simp
      | cons k r'' =>
        simp only [List.dropLast, List.getLast?_cons_cons]
        cases hx : (m :: (k :: r'').dropLast).getLast? with
        | none => simp at hx
        | some y => rfl

theorem regionFrom_first (vals : List Int) (h : vals ≠ []) : regionFrom true 0 0 vals = (begOf vals, endOf vals) := by
  rw [regionFrom_eq vals true 0 0 h]
  rfl

theorem begOf_ge (vals : List Int) (h : ∀ v ∈ vals, -1 ≤ v) (hne : vals ≠ []) : -1 ≤ begOf vals := by
  unfold begOf
  cases hd : vals.dropLast.getLast? with
  | some x =>
    have : x ∈ vals.dropLast := List.mem_of_getLast? hd
    exact h x (List.dropLast_subset _ this)
  | none =>
    cases hl : vals.getLast? with
    | none => simp at hl; exact absurd hl hne
    | some y => exact h y (List.mem_of_getLast? hl)

theorem verdict_model {α : Type} (g : Nat × Int × Int → α) (len b e : Int) (hb : -1 ≤ b) :
    (if (b == -7 && e == -7) = true then g ((1 : Nat), (-1 : Int), (-1 : Int)) else
      if e ≤ b then g (1, -1, -1) else
      if (decide ((if (decide (b < 0) && e == 0) = true then 0 else b) < 0) ||
          decide ((if (decide (b < 0) && e == 0) = true then 0 else b) ≥ len)) = true then
        g (1, (if (decide (b < 0) && e == 0) = true then 0 else b), e)
      else if (decide (e < (if (decide (b < 0) && e == 0) = true then 0 else b)) || decide (e > len)) = true then
        g (1, (if (decide (b < 0) && e == 0) = true then 0 else b), e)
      else g (0, (if (decide (b < 0) && e == 0) = true then 0 else b), e)) = g (verdict len b e) := by
  unfold verdict
  have h7 : (b == -7 && e == -7) = false := by
    have : b ≠ -7 := by omega
    simp [this]
  rw [h7]
  simp only [Bool.false_eq_true, if_false]
  by_cases h1 : e ≤ b
  · rw [if_pos h1, if_pos h1]
  · rw [if_neg h1, if_neg h1]
    have hadj : (if (decide (b < 0) && e == 0) = true then 0 else b) = if b < 0 ∧ e = 0 then 0 else b := by
      by_cases hc : b < 0 ∧ e = 0
      · rw [if_pos hc, if_pos (by simp [hc.1, hc.2])]
      · rw [if_neg hc, if_neg (by simpa using hc)]
    rw [hadj]
    generalize (if b < 0 ∧ e = 0 then 0 else b) = b' at *
    by_cases h2 : b' < 0 ∨ b' ≥ len
    · rw [if_pos (by simpa using h2), if_neg (by omega)]
    · rw [if_neg (by simpa using h2)]
      by_cases h3 : e < b' ∨ e > len
      · rw [if_pos (by simpa using h3), if_neg (by omega)]
      · rw [if_neg (by simpa using h3), if_pos (by omega)]

/-! ### `ex_region` -/

theorem renderList_ne_nil : ∀ (l : AddrList), ListOk l → renderList l ≠ [] := by
  intro l h
  cases l with
  | nil => exact absurd h (by simp [ListOk])
  | cons p r =>
    obtain ⟨a, s⟩ := p
    rw [renderList_cons]
    cases r with
    | nil =>
      obtain ⟨_, h2, _⟩ := h
      cases s with
      | fin => simpa [Sep.text, renderList] using h2 rfl
      | comma => simp [Sep.text]
      | semi => simp [Sep.text]
    | cons q r' =>
      obtain ⟨_, h2, _⟩ := h
      cases s with
      | fin => exact absurd rfl h2
      | comma => simp [Sep.text]
      | semi => simp [Sep.text]

/-- **`ex_region` is the reference.**  For every location tree that is the parse of its rendering (`Loc.Ok`) and
    every editor state whose current row is not the model's internal failure marker, `ex_region` on the rendered
    text returns exactly what the reference evaluator returns — return code, `beg`, `end` — and leaves the state
    with the reference's cursor (current row, remembered search) and nothing else changed -/
theorem exRegion_ref (ed : Ed) (loc : Loc) (hok : loc.Ok) (hx : ed.xrow ≠ -1000000) :
    exRegion ed loc.render =
      (refRegion (worldOf ed) (cursorOf ed) loc).map (fun r => (r.1, withCursor ed r.2)) := by
  cases loc with
  | whole =>
    unfold exRegion
    simp only [Loc.render, beq_self_eq_true, if_true, refRegion, Option.map_some, withCursor_cursorOf]
    rfl
  | current =>
    unfold exRegion
    simp only [Loc.render, refRegion, Option.map_some, withCursor_cursorOf]
    have h1 : (([] : Bytes) == [37]) = false := by decide
    simp only [h1, Bool.false_eq_true, if_false, List.isEmpty_nil, if_true]
    have hl : (worldOf ed).len = ed.len := rfl
    have hc : (cursorOf ed).cur = ed.xrow := rfl
    rw [hl, hc]
    by_cases hb : max 0 (min ed.xrow ed.len) = ed.len
    · rw [if_pos hb, if_pos (by simpa using hb)]
    · rw [if_neg hb, if_neg (by simpa using hb)]
  | list l =>
    obtain ⟨hl, h37⟩ := hok
    have hne := renderList_ne_nil l hl
    have e37 : (renderList l == [37]) = false := by simpa using h37
    have eemp : (renderList l).isEmpty = false := by
      cases hr : renderList l with
      | nil => exact absurd hr hne
      | cons x xs => rfl
    unfold exRegion
    simp only [Loc.render, e37, eemp, Bool.false_eq_true, if_false]
    rw [go_render l hl _ ed 0 0 0 (Nat.lt_succ_self _) hx]
    simp only [refRegion]
    cases hev : evalList (worldOf ed) (cursorOf ed) l with
    | none => rfl
    | some x =>
      obtain ⟨vs, c1⟩ := x
      cases vs with
      | none => rfl
      | some vals =>
        obtain ⟨hlen, hge⟩ := evalList_vals _ _ _ _ _ hev
        have hvne : vals ≠ [] := by
          intro h
          rw [h] at hlen
          cases l with
          | nil => exact absurd hl (by simp [ListOk])
          | cons p r => simp at hlen
        simp only [beq_self_eq_true, Option.map_some]
        rw [regionFrom_first vals hvne]
        simp only []
        have := verdict_model (fun r => some (r, withCursor ed c1)) (withCursor ed c1).len (begOf vals) (endOf vals)
          (begOf_ge vals hge hvne)
        rw [this]
        rfl

end Neatvi.Lemmas.C06d
