import NeatviVerif.Lemmas.C19fCursor
/-!
# C19f helper lemmas: the sticky column after a vertical motion

`j` / `k` (`mv = 106 / 107` in `motionTail`) put the cursor on `vi_col2off(row, xcol)` and do *not*
reassign `xcol`; the end of the iteration (`viPost (some 0)`) keeps it too and adjusts `xleft` to
`xcol`, not to the column of the cursor character.

* `motionTail_jk`: the cursor update of `j` / `k` in closed form;
* `stickyOff pos n xcol`: the offset the cursor ends on — the character at or before column `xcol`,
  or the one before it if that is the newline; `jk_run`: the state after `j` / `k` and the end of the
  iteration;
* `stickyOff_on_char`: when `xcol` falls on a cell of a character other than the newline, that is
  the cursor character (any table of the model, reordered or not);
* `stickyOff_inc`: on a table that increases with the offset (no reordering): the column of the
  cursor character is `≤ xcol`; `xcol` is one of its cells when `xcol` is left of the end of the text;
  otherwise the cursor is on the last character and *all* its cells are left of `xcol`.
-/
set_option linter.unusedSimpArgs false
set_option linter.unusedVariables false

namespace Neatvi.Lemmas.C19f
open Neatvi Neatvi.Uc Neatvi.Spec Neatvi.Ren Neatvi.Render Neatvi.Vi Neatvi.Mot
open Neatvi.Lemmas.C17b
open Neatvi.Lemmas.C07 (lbText motionTail_eq)

/-! ### the cursor update of `j` / `k` -/

theorem strHas_jk : strHas "'`GHML/?{}[]nN" 106 = false ∧ strHas "'`GHML/?{}[]nN" 107 = false := by
  decide +kernel

/-- `j` / `k`: the row is the target row, the offset `ren_noeol` of `vi_col2off(row, xcol)`; the sticky
    column, `xleft` and everything else stay -/
theorem motionTail_jk (mv nrow noff : Int) (hjk : mv = 106 ∨ mv = 107) (s : VS) :
    motionTail mv nrow noff s = Res.ok (some 0)
      { s with ed := { s.ed with xrow := nrow, xoff := noeol s nrow (col2off s nrow s.xcol) } } := by
  rw [motionTail_eq]
  rcases hjk with rfl | rfl
  · rw [strHas_jk.1]; rfl
  · rw [strHas_jk.2]; rfl

/-! ### buffer lines as code points -/

/-- the code points of a buffer line with at least one character before its newline: valid code
    points, the last one the newline, no other newline -/
structure WfCps (cps : List Nat) : Prop where
  valid : ∀ c ∈ cps, ValidCp c
  two : 2 ≤ cps.length
  last : cps.getD (cps.length - 1) 0 = 10
  inner : ∀ i, i + 1 < cps.length → cps.getD i 0 ≠ 10

/-- `body ++ "\n"` with a non-empty body of valid code points other than the newline -/
theorem wfCps_of_body (body : List Nat) (hv : ∀ c ∈ body, ValidCp c) (h10 : 10 ∉ body) (hne : body ≠ []) :
    WfCps (body ++ [10]) := by
  have hlen : 0 < body.length := List.length_pos_iff.mpr hne
  refine ⟨(body_line body hv h10 hne).1, by simp; omega, by simp, ?_⟩
  intro i hi
  have hib : i < body.length := by simp at hi; omega
  rw [List.getD_eq_getElem?_getD, List.getElem?_append_left hib, List.getElem?_eq_getElem hib]
  intro hc
  exact h10 (by simp only [Option.getD_some] at hc; rw [← hc]; exact List.getElem_mem _)

/-- the offset `j` / `k` leave the cursor on: the character at or before the sticky column, or the one
    before it when that is the newline (the last character of the line) -/
def stickyOff (pos : List Nat) (n : Nat) (xcol : Int) : Nat :=
  let i := renOffT pos n xcol
  if i + 1 = n then i - 1 else i

theorem lineOf_some_range (s : VS) (r : Int) (ln : Bytes) (h : lineOf s r = some ln) : 0 ≤ r ∧ r < lenOf s := by
  unfold lineOf lineAt at h
  split at h
  · cases h
  · rename_i hr
    have := (List.getElem?_eq_some_iff.mp h).1
    unfold lenOf
    omega

/-- `ren_noeol` on a buffer line: one back from the newline -/
theorem renNoeol_enc (cps : List Nat) (h : WfCps cps) (i : Nat) (hi : i < cps.length) :
    renNoeol (encStr cps) (i : Int) = ((if i + 1 = cps.length then i - 1 else i : Nat) : Int) := by
  have h2 := h.two
  unfold renNoeol
  simp only [Props.C16.slen_spec h.valid]
  have hge : ¬ ((i : Int) ≥ (cps.length : Int)) := by omega
  simp only [hge, if_false, Int.toNat_natCast]
  have hc := chrHd_enc_eq_10 h.valid i hi
  by_cases hl : i + 1 = cps.length
  · have h10 : chrHd (encStr cps) i = 10 := hc.mpr (by rw [show i = cps.length - 1 by omega]; exact h.last)
    rw [if_pos hl, h10]
    simp only [beq_self_eq_true, Bool.and_true, decide_eq_true_eq]
    rw [if_pos (by omega)]
    omega
  · have h10 : chrHd (encStr cps) i ≠ 10 := fun hh => h.inner i (by omega) (hc.mp hh)
    rw [if_neg hl]
    have : (chrHd (encStr cps) i == 10) = false := by simpa using h10
    rw [this]
    simp

theorem renOffT_lt (pos : List Nat) (n : Nat) (p : Int) (hn : n ≤ pos.length) (h0 : 0 < n) : renOffT pos n p < n := by
  rcases Props.C17b.renOffT_spec pos n p hn with ⟨hg, _⟩ | ⟨_, he⟩
  · exact hg.1
  · omega

theorem stickyOff_lt (pos : List Nat) (cps : List Nat) (h : WfCps cps) (hn : cps.length ≤ pos.length) (xcol : Int) :
    stickyOff pos cps.length xcol + 1 < cps.length := by
  have h2 := h.two
  have := renOffT_lt pos cps.length xcol hn (by omega)
  unfold stickyOff
  simp only []
  split <;> omega

/-- the offset `ren_noeol(ren_noeol(vi_col2off(xcol)))` of `j` / `k` followed by `vi_wfix()` -/
theorem noeol_sticky (pos : List Nat) (cps : List Nat) (h : WfCps cps) (hn : cps.length ≤ pos.length) (xcol : Int) :
    renNoeol (encStr cps) (renNoeol (encStr cps) ((renOffT pos cps.length xcol : Nat) : Int)) =
      (stickyOff pos cps.length xcol : Nat) := by
  have h2 := h.two
  have hlt := renOffT_lt pos cps.length xcol hn (by omega)
  have hs := stickyOff_lt pos cps h hn xcol
  rw [renNoeol_enc cps h _ hlt]
  change renNoeol (encStr cps) ((stickyOff pos cps.length xcol : Nat) : Int) = _
  rw [renNoeol_enc cps h _ (by omega), if_neg (by omega)]

/-! ### the state after `j` / `k` and the end of the iteration -/

/-- **`j` / `k` then the end of the iteration**, on a target line with at least one character: the
    sticky column is unchanged, the cursor is on `stickyOff`, and `xleft` is adjusted to the *sticky
    column* -/
theorem jk_run (mv nrow noff : Int) (hjk : mv = 106 ∨ mv = 107) (s s2 s3 : VS) (c : Option Nat)
    (h1 : motionTail mv nrow noff s = Res.ok c s2) (h2 : viPost c s2 = Res.ok () s3)
    (hq : s.ed.xquit = false) (cps : List Nat) (hwf : WfCps cps) (hln : lineOf s nrow = some (encStr cps)) :
    s3.xcol = s.xcol ∧ s3.ed.xrow = nrow ∧
    s3.ed.xoff = (stickyOff (posTab s (encStr cps)) cps.length s.xcol : Nat) ∧
    s3.ed.xleft = postLeft s.xcol s.ed.xleft s.xcols ∧
    lbText s3 = lbText s ∧ s3.ed.xtd = s.ed.xtd ∧ s3.xcols = s.xcols ∧ s3.ed.xquit = false := by
  rw [motionTail_jk mv nrow noff hjk] at h1
  cases h1
  obtain ⟨r0, r1⟩ := lineOf_some_range s nrow _ hln
  obtain ⟨a1, a2, a3, a4, a5, a6, a7, a8⟩ := (viPost_run 0 _ s3 h2).2 hq
  have hrow : Props.C07.wfixRow
      { s with ed := { s.ed with xrow := nrow, xoff := noeol s nrow (col2off s nrow s.xcol) } } = nrow :=
    Props.C07.wfixRow_of_range _ r0 r1
  have hxc : s3.xcol = s.xcol := by rw [a7]; rfl
  refine ⟨hxc, by rw [a5, hrow], ?_, by rw [a8, hxc], a4, a3, a2, a1⟩
  rw [a6]
  unfold Props.C07.wfixOff
  rw [hrow]
  have hl2 : lineOf { s with ed := { s.ed with xrow := nrow, xoff := noeol s nrow (col2off s nrow s.xcol) } } nrow
      = some (encStr cps) := hln
  rw [hl2]
  show renNoeol (encStr cps) (noeol s nrow (col2off s nrow s.xcol)) = _
  have hct := (posTab_tiled s cps hwf.valid).table
  unfold noeol col2off
  rw [hln]
  simp only [Props.C16.slen_spec hwf.valid]
  exact noeol_sticky _ cps hwf (by rw [hct.len]; omega) s.xcol

/-! ### where `stickyOff` is -/

/-- the sticky column falls on a cell of character `i`, not the newline: the cursor is on `i` —
    for every tiled table (every table of the model for a valid UTF-8 line, reordered or not) -/
theorem stickyOff_on_char (cps pos : List Nat) (ht : Tiled cps pos) (hwf : WfCps cps) (xcol : Int)
    (i : Nat) (hi : i + 1 < cps.length) (h1 : (pos.getD i 0 : Nat) ≤ xcol)
    (h2 : xcol < (pos.getD i 0 : Nat) + (cellWidth (cps.getD i 0) (pos.getD i 0) : Int)) :
    stickyOff pos cps.length xcol = i := by
  have := (Props.C17b.renCursorT_tiled (encStr cps) ht i (by omega)
    (fun hc => hwf.inner i hi ((chrHd_enc_eq_10 hwf.valid i (by omega)).mp hc)) xcol h1 h2).1
  unfold stickyOff
  simp only []
  rw [this, if_neg (by omega)]

/-- in a tiled table that increases with the offset, a character ends where the next one starts -/
theorem inc_adjacent (cps pos : List Nat) (ht : Tiled cps pos) (hinc : StrictInc pos cps.length)
    (i : Nat) (hi : i + 1 < cps.length) :
    pos.getD (i + 1) 0 = pos.getD i 0 + cellWidth (cps.getD i 0) (pos.getD i 0) := by
  have hw := ht.width_pos i (by omega)
  have hlt := hinc.2 i (i + 1) (by omega) (by omega)
  have hap := ht.apart i (i + 1) (by omega) hi
  have hge : pos.getD i 0 + cellWidth (cps.getD i 0) (pos.getD i 0) ≤ pos.getD (i + 1) 0 := by omega
  rcases ht.succ i (by omega) with ⟨j, hj, he⟩ | he
  · have hji : i < j := by
      by_cases hc : j ≤ i
      · by_cases hc2 : j = i
        · subst hc2; omega
        · have := hinc.2 j i (by omega) (by omega); omega
      · omega
    by_cases hc : j = i + 1
    · subst hc; omega
    · have := hinc.2 (i + 1) j (by omega) (by omega); omega
  · have := hinc.2 (i + 1) cps.length hi (Nat.le_refl _); omega

/-- **the cursor character and the sticky column after `j` / `k`, without reordering.**  On a tiled
    table that increases with the offset, whose first column is `≤ xcol`: with `off = stickyOff`,
    * the column of the cursor character is `≤ xcol`;
    * if `xcol` is left of the newline's column (the width of the text) then `xcol` is a cell of the
      cursor character — with equality `pos[off] = xcol` exactly when `xcol` is its first cell;
    * otherwise (the line is not as wide as the sticky column) the cursor is on the last character of
      the line and every cell of it is left of `xcol`. -/
theorem stickyOff_inc (cps pos : List Nat) (ht : Tiled cps pos) (hinc : StrictInc pos cps.length)
    (hwf : WfCps cps) (xcol : Int) (h0 : (pos.getD 0 0 : Nat) ≤ xcol) :
    let off := stickyOff pos cps.length xcol
    let w := cellWidth (cps.getD off 0) (pos.getD off 0)
    (pos.getD off 0 : Nat) ≤ xcol ∧
    (xcol < (pos.getD (cps.length - 1) 0 : Nat) → xcol < (pos.getD off 0 : Nat) + (w : Int)) ∧
    ((pos.getD (cps.length - 1) 0 : Nat) ≤ xcol →
      off + 2 = cps.length ∧ (pos.getD off 0 : Nat) + (w : Int) ≤ xcol) := by
  intro off w
  have h2 := hwf.two
  have hn : cps.length ≤ pos.length := by rw [ht.table.len]; omega
  have hex : ¬ NoCol pos cps.length (PrevP xcol true) := fun hno =>
    hno 0 (by omega) (by unfold PrevP; simpa using h0)
  rcases Props.C17b.renOffT_spec pos cps.length xcol hn with ⟨hg, _⟩ | ⟨hno, _⟩
  · obtain ⟨gi, gp, gm⟩ := hg
    have gp' : (pos.getD (renOffT pos cps.length xcol) 0 : Nat) ≤ xcol := by unfold PrevP at gp; simpa using gp
    by_cases hl : renOffT pos cps.length xcol + 1 = cps.length
    · have hoff : off = renOffT pos cps.length xcol - 1 := by
        show stickyOff pos cps.length xcol = _
        unfold stickyOff; simp only []; rw [if_pos hl]
      have hadj := inc_adjacent cps pos ht hinc off (by omega)
      have e1 : off + 1 = cps.length - 1 := by omega
      have e2 : renOffT pos cps.length xcol = cps.length - 1 := by omega
      rw [e1] at hadj
      rw [e2] at gp'
      have hw := ht.width_pos off (by omega)
      refine ⟨?_, fun hlt => ?_, fun _ => ⟨by omega, ?_⟩⟩
      · have : (pos.getD (cps.length - 1) 0 : Int) = (pos.getD off 0 : Nat) + (w : Int) := by
          show ((pos.getD (cps.length - 1) 0 : Nat) : Int) = _
          rw [hadj]; simp only [Int.natCast_add]; rfl
        omega
      · omega
      · have : (pos.getD (cps.length - 1) 0 : Int) = (pos.getD off 0 : Nat) + (w : Int) := by
          show ((pos.getD (cps.length - 1) 0 : Nat) : Int) = _
          rw [hadj]; simp only [Int.natCast_add]; rfl
        omega
    · have hoff : off = renOffT pos cps.length xcol := by
        show stickyOff pos cps.length xcol = _
        unfold stickyOff; simp only []; rw [if_neg hl]
      have hi1 : off + 1 < cps.length := by omega
      have hadj := inc_adjacent cps pos ht hinc off hi1
      have hnext : xcol < (pos.getD (off + 1) 0 : Nat) := by
        by_cases hc : (pos.getD (off + 1) 0 : Nat) ≤ xcol
        · have := gm (off + 1) hi1 (by unfold PrevP; simpa using hc)
          have := hinc.2 off (off + 1) (by omega) (by omega)
          rw [← hoff] at *
          omega
        · omega
      have hmono : pos.getD (off + 1) 0 ≤ pos.getD (cps.length - 1) 0 := by
        by_cases hc : off + 1 = cps.length - 1
        · rw [hc]; exact Nat.le_refl _
        · have := hinc.2 (off + 1) (cps.length - 1) (by omega) (by omega); omega
      have hsum : (pos.getD (off + 1) 0 : Int) = (pos.getD off 0 : Nat) + (w : Int) := by
        show ((pos.getD (off + 1) 0 : Nat) : Int) = _
        rw [hadj]; simp only [Int.natCast_add]; rfl
      rw [← hoff] at gp'
      refine ⟨gp', fun _ => by omega, fun hge => ?_⟩
      exfalso
      omega
  · exact absurd hno hex

/-! ### lines laid out left to right -/

theorem fast_getD_zero (ln : Bytes) : (renPositionFast ln).getD 0 0 = 0 := by
  unfold renPositionFast
  simp only []
  cases chrs ln with
  | nil => rfl
  | cons c r => rfl

/-- a line of single-byte characters only (ASCII), or of more than 256 characters, is laid out left
    to right: `ren_position` does not reorder it -/
theorem posTab_fast (s : VS) (ln : Bytes) (h : ucSlen ln = ln.length ∨ 256 < ucSlen ln) :
    posTab s ln = renPositionFast ln := by
  unfold posTab renPosition renOpts
  simp only []
  rw [if_neg]
  · rfl
  · simp only [Bool.and_eq_true, decide_eq_true_eq, Bool.or_eq_true, beq_iff_eq, not_and, not_or]
    intro h1
    rcases h with h | h
    · exact ⟨by decide, fun _ => by omega⟩
    · omega

end Neatvi.Lemmas.C19f
