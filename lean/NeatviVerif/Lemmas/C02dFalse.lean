import NeatviVerif.Lemmas.C02dWitness
/-!
# C02d lemmas, part 8: proofs of the small statements of Props/C02d (contrapositive, footprint of a save,
what the sessions refute)
-/
namespace Neatvi.Lemmas.C02d
open Neatvi Neatvi.Lbuf Neatvi.LbufIo Neatvi.Ex Neatvi.Props Neatvi.Lemmas.C02b Neatvi.Lemmas.C02Ex

theorem dirty_while_file_differs (ed : Ed) (hi : Inv ed) (i : Nat) (b : Buf) (hb : ed.bufs.getD i none = some b)
    (hne : b.path ≠ []) (hfresh : ed.mtimeOf b.path = b.mtime) (fl : File) (hfl : ed.findFile b.path = some fl)
    (hdiff : ¬ FileIs fl.data b.lb.lines) : (modified b.lb).1 = true := by
  cases hm : (modified b.lb).1 with
  | true => rfl
  | false => exact absurd ((cleanSync_of_inv hi (C20.mem_of_getD _ _ _ hb).1 hm).2 hne hfresh fl hfl) hdiff

theorem lbufSave_footprint (ed ed' : Ed) (lb : Lb) (b : Nat) (e : Int) (path : Bytes) (force : Bool) (ts : Int)
    (r : Option Bytes) (h : lbufSave ed lb b e path force ts = some (r, ed')) :
    ed'.bufs = ed.bufs ∧ ed.clock ≤ ed'.clock ∧ (∀ q, q ≠ path → ed'.findFile q = ed.findFile q) ∧
    ((ed'.files = ed.files ∧ ed'.clock = ed.clock) ∨ ∃ fl, ed'.findFile path = some fl ∧ ed.clock < fl.mtime) ∧
    ed'.xquit = ed.xquit := by
  have he := lbufSave_eff ed ed' lb b e path force ts r h
  exact ⟨he.bufs, he.clock, he.other, he.self, he.xquit⟩

theorem without_freshness_false : ¬ (∀ (ed0 : Ed) (files : List Bytes) (n : Nat) (rc : Int) (ed1 ed : Ed),
    ed0.bufs = List.replicate Gen.NBUFS none → FsOk ed0.files ed0.clock →
    exInit ed0 files = some (rc, ed1) → C02.Ex.exRun n ed1 = some ed →
    ∀ i b, ed.bufs.getD i none = some b → (modified b.lb).1 = false → b.path ≠ [] →
      ∀ fl, ed.findFile b.path = some fl → FileIs fl.data b.lb.lines) := by
  intro H
  obtain ⟨rc, ed1, ed, b, fl, h1, h2, hb, hp, hl, hd, _, hfl, hdat, _⟩ := session1
  have := H { input := script1 } [] 4 rc ed1 ed rfl fsOk_default h1 h2 1 b hb hd (by rw [hp]; decide) fl
    (by rw [hp]; exact hfl)
  rw [hdat, hl] at this
  rcases this with h | h
  · exact absurd h (by decide)
  · exact absurd h (by decide)

theorem session1_slot1_is_stale :
    ∃ rc ed1 ed b, exInit { input := script1 } [] = some (rc, ed1) ∧ C02.Ex.exRun 4 ed1 = some ed ∧
      ed.bufs.getD 1 none = some b ∧ (modified b.lb).1 = false ∧ ed.mtimeOf b.path ≠ b.mtime := by
  obtain ⟨rc, ed1, ed, b, fl, h1, h2, hb, hp, _, hd, hm, hfl, _, hmt⟩ := session1
  refine ⟨rc, ed1, ed, b, h1, h2, hb, hd, ?_⟩
  rw [hp, hm, mtimeOf_eq, mtimeF_some hfl, hmt]
  decide

theorem forced_write_over_open_buffer :
    ∃ rc ed1 ed b fl ed', exInit { input := script2 } [[112]] = some (rc, ed1) ∧ C02.Ex.exRun 4 ed1 = some ed ∧
      ed.xquit = false ∧ ed.input = [[113]] ∧
      ed.bufs.getD 1 none = some b ∧ b.path = [112] ∧ b.lb.lines = [[120, 10]] ∧ (modified b.lb).1 = false ∧
      ed.findFile [112] = some fl ∧ fl.data = [] ∧ ed.mtimeOf b.path ≠ b.mtime ∧
      exStep ed = some (0, ed') ∧ ed'.xquit = true ∧ ed'.files = ed.files ∧
      (ed'.bufs.map bufKey).Perm (ed.bufs.map bufKey) := by
  obtain ⟨rc, ed1, ed, b, fl, ed', h1, h2, hq, hin, hb, hp, hl, hd, hm, hfl, hdat, hmt, hs, hq', hf', hperm⟩ := session2
  refine ⟨rc, ed1, ed, b, fl, ed', h1, h2, hq, hin, hb, hp, hl, hd, hfl, hdat, ?_, hs, hq', hf', hperm⟩
  rw [hp, hm, mtimeOf_eq, mtimeF_some hfl, hmt]
  decide

theorem missing_files_false : ¬ (∀ (ed0 : Ed) (files : List Bytes) (n : Nat) (rc : Int) (ed1 ed : Ed),
    ed0.bufs = List.replicate Gen.NBUFS none → FsOk ed0.files ed0.clock →
    exInit ed0 files = some (rc, ed1) → C02.Ex.exRun n ed1 = some ed →
    ∀ i b, ed.bufs.getD i none = some b → (modified b.lb).1 = false → b.path ≠ [] →
      ed.mtimeOf b.path = b.mtime → ed.findFile b.path = none → b.lb.lines = []) := by
  intro H
  obtain ⟨rc, ed1, ed, b, ed', h1, h2, _, _, hb, hp, hl, hd, hm, hmt, hfiles, _⟩ := session3
  have hnone : ed.findFile b.path = none := by unfold Ed.findFile; rw [hfiles]; rfl
  have := H { input := script3 } [[112]] 2 rc ed1 ed rfl fsOk_default h1 h2 0 b hb hd (by rw [hp]; decide)
    (by rw [hp, hmt, hm]) hnone
  rw [hl] at this
  exact absurd this (by decide)

theorem reload_of_missing_file_then_quit :
    ∃ rc ed1 ed b ed', exInit { input := script3 } [[112]] = some (rc, ed1) ∧ C02.Ex.exRun 2 ed1 = some ed ∧
      ed.xquit = false ∧ ed.input = [[113]] ∧
      ed.bufs.getD 0 none = some b ∧ b.path = [112] ∧ b.lb.lines = [[120, 10]] ∧ (modified b.lb).1 = false ∧
      ed.files = [] ∧ exStep ed = some (0, ed') ∧ ed'.xquit = true ∧ ed'.files = [] := by
  obtain ⟨rc, ed1, ed, b, ed', h1, h2, hq, hin, hb, hp, hl, hd, _, _, hfiles, hs, hq', hf'⟩ := session3
  exact ⟨rc, ed1, ed, b, ed', h1, h2, hq, hin, hb, hp, hl, hd, hfiles, hs, hq', hf'⟩

theorem without_fsOk_false : ¬ (∀ (ed0 : Ed) (files : List Bytes) (n : Nat) (rc : Int) (ed1 ed : Ed),
    ed0.bufs = List.replicate Gen.NBUFS none →
    exInit ed0 files = some (rc, ed1) → C02.Ex.exRun n ed1 = some ed →
    ∀ i b, ed.bufs.getD i none = some b → (modified b.lb).1 = false → b.path ≠ [] →
      ed.mtimeOf b.path = b.mtime → ∀ fl, ed.findFile b.path = some fl → FileIs fl.data b.lb.lines) := by
  intro H
  obtain ⟨rc, ed1, ed, b, fl, h1, h2, hb, hp, hl, hd, hf, hfl, hdat⟩ := session7
  have := H ed7 [[112]] 2 rc ed1 ed rfl h1 h2 1 b hb hd (by rw [hp]; decide) hf fl hfl
  rw [hdat, hl] at this
  rcases this with h | h
  · exact absurd h (by decide)
  · exact absurd h (by decide)

end Neatvi.Lemmas.C02d
