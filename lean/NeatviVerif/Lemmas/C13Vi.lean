import NeatviVerif.Model.ViCmd
import NeatviVerif.Lemmas.ExFrame
import NeatviVerif.Lemmas.C06Ex
/-!
# C13, vi level: a frame for the monad `Vi.M` (text and cursor untouched) and the count loop of `vi_search`
-/
namespace Neatvi.Lemmas.C13
open Neatvi Neatvi.Mot Neatvi.Vi Neatvi.Ex

/-- the text of the buffer and the cursor `(xrow, xoff)` are the same in both states -/
def Fr (s s' : VS) : Prop := lines s' = lines s ∧ s'.ed.xrow = s.ed.xrow ∧ s'.ed.xoff = s.ed.xoff

theorem Fr.refl (s : VS) : Fr s s := ⟨rfl, rfl, rfl⟩
theorem Fr.trans {a b c : VS} (h1 : Fr a b) (h2 : Fr b c) : Fr a c :=
  ⟨h2.1.trans h1.1, h2.2.1.trans h1.2.1, h2.2.2.trans h1.2.2⟩

/-- every successful run of `m` leaves the text and the cursor alone -/
structure Keeps {α : Type} (m : M α) : Prop where
  h : ∀ s a s', m s = Res.ok a s' → Fr s s'

theorem keeps_pure {α : Type} (a : α) : Keeps (pure a : M α) := by
  constructor; intro s b s' h; cases h; exact Fr.refl _

theorem keeps_bind {α β : Type} {m : M α} {f : α → M β} (hm : Keeps m) (hf : ∀ a, Keeps (f a)) : Keeps (m >>= f) := by
  constructor; intro s b s' h
  simp only [bind] at h
  cases hms : m s with
  | ok a s1 => rw [hms] at h; exact (hm.h _ _ _ hms).trans ((hf a).h _ _ _ h)
  | eof => rw [hms] at h; cases h
  | trap => rw [hms] at h; cases h

theorem keeps_ite {α : Type} {c : Prop} [Decidable c] {a b : M α} (ha : Keeps a) (hb : Keeps b) :
    Keeps (if c then a else b) := by
  split <;> assumption

theorem keeps_modify {f : VS → VS} (hf : ∀ s, Fr s (f s)) : Keeps (Vi.modify f) := by
  constructor; intro s a s' h; cases h; exact hf s

theorem keeps_get : Keeps Vi.get := by constructor; intro s a s' h; cases h; exact Fr.refl _
theorem keeps_trap {α : Type} : Keeps (Vi.trap : M α) := by constructor; intro s a s' h; cases h

/-- an update of the editor record that keeps the buffers and the cursor -/
theorem keeps_withEd {f : Ed → Ed} (hf : ∀ ed, (f ed).bufs = ed.bufs ∧ (f ed).xrow = ed.xrow ∧ (f ed).xoff = ed.xoff) :
    Keeps (withEd f) := by
  apply keeps_modify
  intro s
  obtain ⟨h1, h2, h3⟩ := hf s.ed
  exact ⟨by simp [lines, Ed.lb, Ed.cur, h1], h2, h3⟩

theorem keeps_setMsg (m : Bytes) : Keeps (setMsg m) := keeps_modify fun _ => ⟨rfl, rfl, rfl⟩

theorem keeps_termRead : Keeps termRead := by
  constructor; intro s a s' h
  unfold termRead at h
  simp only at h
  split at h
  · cases h
  · cases h; split <;> exact ⟨rfl, rfl, rfl⟩

/-- one step of frame reasoning over a `do` block -/
macro "keeps_step" : tactic => `(tactic| first
  | intro _
  | exact keeps_pure _
  | exact keeps_termRead
  | exact keeps_get
  | exact keeps_trap
  | exact keeps_setMsg _
  | apply keeps_bind
  | apply keeps_ite
  | assumption)

theorem keeps_more (k : Nat) (acc : Bytes) : Keeps (readCharS.more k acc) := by
  induction k generalizing acc with
  | zero => unfold readCharS.more; exact keeps_pure _
  | succ k ih =>
    unfold readCharS.more
    apply keeps_bind keeps_termRead
    intro d; exact ih _

theorem keeps_readKey_more (k : Nat) : Keeps (readKey.more k) := by
  induction k with
  | zero => unfold readKey.more; exact keeps_pure _
  | succ k ih =>
    unfold readKey.more
    apply keeps_bind keeps_termRead
    intro d; exact ih

/-- `led_readkey()` keeps the text and the cursor, like `termRead` -/
theorem keeps_readKey : Keeps readKey := by
  unfold readKey
  have := keeps_readKey_more
  repeat' keeps_step
  exact this _

theorem keeps_readCharS (c : Int) (k : Nat) : Keeps (readCharS c k) := by
  unfold readCharS
  have := keeps_more
  have hk := keeps_readKey
  repeat' first | exact hk | keeps_step
  exact this _ _

theorem keeps_unmodelled : Keeps Vi.unmodelled := keeps_modify fun _ => ⟨rfl, rfl, rfl⟩

theorem keeps_ledLine_go (post : Bytes) (aiMax : Nat) (insertMode prefEmpty : Bool) (setKmap : Option Nat → M Unit)
    (getKmap : M Nat) (redraw : Bytes → Bytes → Bytes → M Unit)
    (h1 : ∀ k, Keeps (setKmap k)) (h2 : Keeps getKmap) (h3 : ∀ a b c, Keeps (redraw a b c))
    (f : Nat) (sb ai : Bytes) (c1 : Int) :
    Keeps (ledLine.go post aiMax insertMode prefEmpty setKmap getKmap redraw f sb ai c1) := by
  induction f generalizing sb ai c1 with
  | zero => unfold ledLine.go; exact keeps_pure _
  | succ f ih =>
    unfold ledLine.go
    have hr := keeps_readCharS
    have hu := keeps_unmodelled
    have hk := keeps_readKey
    repeat' first
      | exact hk
      | exact ih _ _ _
      | exact h1 _
      | exact h3 _ _ _
      | exact hr _ _
      | exact hu
      | keeps_step
      | split

theorem keeps_ledLine (pref post ai0 : Bytes) (aiMax : Nat) (insertMode exPrompt : Bool) :
    Keeps (ledLine pref post ai0 aiMax insertMode exPrompt) := by
  unfold ledLine
  apply keeps_ledLine_go
  · intro k; apply keeps_modify; intro s; cases exPrompt <;> exact ⟨rfl, rfl, rfl⟩
  · constructor; intro s a s' h; cases h; exact Fr.refl _
  · intro a b c
    split
    · apply keeps_modify; intro s; exact ⟨rfl, rfl, rfl⟩
    · exact keeps_pure _

theorem keeps_viPrompt (exPrompt : Bool) : Keeps (viPrompt exPrompt) := by
  unfold viPrompt
  apply keeps_bind (keeps_ledLine _ _ _ _ _ _)
  intro x
  split
  split <;> exact keeps_pure _

/-- `vi_search` itself leaves the text and the cursor `(xrow, xoff)` alone, whatever it returns -/
theorem keeps_viSearch (cmd : Nat) (cnt r o : Int) : Keeps (viSearch cmd cnt r o) := by
  unfold viSearch
  have hp := keeps_viPrompt
  repeat' first
    | exact hp _
    | (apply keeps_withEd; intro ed; exact ⟨rfl, rfl, rfl⟩)
    | (apply keeps_modify; intro s; exact ⟨rfl, rfl, rfl⟩)
    | keeps_step
    | split
    | dsimp only

/-! ### the end of an iteration of `vi()` -/

theorem bind_ok {α β : Type} {m : M α} {f : α → M β} {s s' : VS} {b : β} (h : (m >>= f) s = Res.ok b s') :
    ∃ a s1, m s = Res.ok a s1 ∧ f a s1 = Res.ok b s' := by
  simp only [bind] at h
  cases hms : m s with
  | ok a s1 => rw [hms] at h; exact ⟨a, s1, rfl, h⟩
  | eof => rw [hms] at h; cases h
  | trap => rw [hms] at h; cases h

/-- `lbuf_modified` bumps the sequence counter of the buffer: the text and the cursor stay -/
theorem keeps_lbufModified : Keeps lbufModified := by
  unfold lbufModified
  apply keeps_modify
  intro s
  cases hlb : s.ed.lb with
  | none => simp only [hlb]; exact Fr.refl _
  | some lb =>
    simp only [hlb]
    refine ⟨?_, ?_, ?_⟩
    · simp only [lines, Lemmas.ExFrame.setLb_lb, hlb, Option.map_some]; rfl
    · rw [Lemmas.C06.setLb_fields]
    · rw [Lemmas.C06.setLb_fields]

theorem keeps_viWait : Keeps viWait := by
  unfold viWait
  have hl := keeps_ledLine
  repeat' first
    | exact hl _ _ _ _ _ _
    | (apply keeps_withEd; intro ed; exact ⟨rfl, rfl, rfl⟩)
    | keeps_step
    | split

/-- the part of `viPost (some 0)` after the window fix `vi_wfix` -/
theorem viPost_zero {s s' : VS} (h : viPost (some 0) s = Res.ok () s') :
    ∃ s1, viWfix s = Res.ok () s1 ∧ Fr s1 s' := by
  unfold viPost at h
  simp only [] at h
  obtain ⟨u, s1, h1, h2⟩ := bind_ok h
  refine ⟨s1, h1, ?_⟩
  revert h2
  generalize s' = t
  intro h2
  have hw := keeps_viWait
  have hm := keeps_lbufModified
  have : Keeps (do
      let s ← Vi.get
      if s.ed.xquit then pure () else
      if (0 : Nat) != 0 then Vi.modify fun s => { s with xcol := off2col s s.ed.xrow s.ed.xoff }
      let s ← Vi.get
      let xcol := s.xcol
      if xcol ≥ s.ed.xleft + s.xcols then withEd fun ed => { ed with xleft := xcol - s.xcols / 2 }
      let s ← Vi.get
      if xcol < s.ed.xleft then withEd fun ed => { ed with xleft := if xcol < s.xcols then 0 else xcol - s.xcols / 2 }
      viWait
      lbufModified
      lbufModified : M Unit) := by
    repeat' first
      | exact hw
      | exact hm
      | (apply keeps_withEd; intro ed; exact ⟨rfl, rfl, rfl⟩)
      | (apply keeps_modify; intro s; exact ⟨rfl, rfl, rfl⟩)
      | keeps_step
      | split
      | dsimp only
  exact this.h _ _ _ h2

/-! ### the count loop -/

-- keep `whnf` from unfolding the search (and the regex compiler behind it) when it looks at a `match`
attribute [local irreducible] Neatvi.Mot.search

/-- one search of the count loop from position `p`; with `adv` the offset handed to the next search
    is the end of the match (`/` with more repetitions to come) -/
def searchStep (ls : Lines) (kwd : Bytes) (icase : Bool) (dir : Int) (adv : Bool) (p : Int × Int) : Option (Option (Int × Int)) :=
  match search ls kwd icase dir p.1 p.2 with
  | none => none
  | some none => some none
  | some (some (r', o', len)) => some (some (r', if adv then o' + len else o'))

/-- `k` searches in a row, each from the position the previous one reported; stops at the first
    failure (`some none`) or trap (`none`).  `slash`: the command is `/`, whose intermediate
    searches continue from the end of the match. -/
def countSearch (ls : Lines) (kwd : Bytes) (icase : Bool) (dir : Int) (slash : Bool) : Nat → Int × Int → Option (Option (Int × Int))
  | 0, p => some (some p)
  | k + 1, p =>
    match searchStep ls kwd icase dir (slash && k != 0) p with
    | none => none
    | some none => some none
    | some (some p') => countSearch ls kwd icase dir slash k p'

theorem countSearch_zero (ls : Lines) (kwd : Bytes) (icase : Bool) (dir : Int) (slash : Bool) (p : Int × Int) :
    countSearch ls kwd icase dir slash 0 p = some (some p) := rfl

theorem countSearch_succ (ls : Lines) (kwd : Bytes) (icase : Bool) (dir : Int) (slash : Bool) (k : Nat) (p : Int × Int) :
    countSearch ls kwd icase dir slash (k + 1) p =
      match searchStep ls kwd icase dir (slash && k != 0) p with
      | none => none
      | some none => some none
      | some (some p') => countSearch ls kwd icase dir slash k p' := rfl

theorem searchStep_def (ls : Lines) (kwd : Bytes) (icase : Bool) (dir : Int) (adv : Bool) (p : Int × Int) :
    searchStep ls kwd icase dir adv p =
      match search ls kwd icase dir p.1 p.2 with
      | none => none
      | some none => some none
      | some (some (r', o', len)) => some (some (r', if adv then o' + len else o')) := rfl

theorem rep_eq_count (cmd : Nat) (cnt : Int) (s : VS) (kwd : Bytes) (dir : Int) (f : Nat) (r o i : Int)
    (hf : (cnt - i).toNat < f) :
    viSearch.rep cmd cnt s kwd dir f r o i =
      countSearch (lines s) kwd (s.ed.xic != 0) dir (cmd == 47) (cnt - i).toNat (r, o) := by
  induction f generalizing r o i with
  | zero => omega
  | succ f ih =>
    show (if i ≥ cnt then some (some (r, o)) else
      match search (lines s) kwd (s.ed.xic != 0) dir r o with
      | none => none
      | some none => some none
      | some (some (r', o', len)) =>
        viSearch.rep cmd cnt s kwd dir f r' (if i + 1 < cnt && cmd == 47 then o' + len else o') (i + 1)) = _
    by_cases hi : i ≥ cnt
    · have : (cnt - i).toNat = 0 := by omega
      rw [if_pos hi, this, countSearch_zero]
    · have hk : (cnt - i).toNat = (cnt - (i + 1)).toNat + 1 := by omega
      rw [if_neg hi, hk, countSearch_succ, searchStep_def]
      cases search (lines s) kwd (s.ed.xic != 0) dir r o with
      | none => rfl
      | some x =>
        cases x with
        | none => rfl
        | some t =>
          obtain ⟨r', o', len⟩ := t
          simp only []
          rw [ih _ _ _ (by omega)]
          have : (decide (i + 1 < cnt) && cmd == 47) = (cmd == 47 && (cnt - (i + 1)).toNat != 0) := by
            by_cases h1 : i + 1 < cnt
            · have : (cnt - (i + 1)).toNat ≠ 0 := by omega
              simp [h1, this]
            · have : (cnt - (i + 1)).toNat = 0 := by omega
              simp [h1, this]
          simp only [this]

end Neatvi.Lemmas.C13
