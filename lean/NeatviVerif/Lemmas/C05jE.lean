import NeatviVerif.Lemmas.C05jD
/-!
# C05j, part E: `|`-lists with `:s` at any place; `NoNul xrep` and `NoNul xkwd` across a covered `:` line
-/
set_option linter.unusedSimpArgs false
set_option linter.unusedVariables false
namespace Neatvi.Lemmas.C05j
open Neatvi Neatvi.Uc Neatvi.Lbuf Neatvi.LbufIo Neatvi.Ex Neatvi.Mot Neatvi.Vi Neatvi.Rset
open Neatvi.Lemmas.C05f Neatvi.Lemmas.ExFrame Neatvi.Lemmas.C06b Neatvi.Lemmas.C05h
open Neatvi.Lemmas.C05e (modelled)

/-- the invariant the list induction carries: the line/register invariant and a NUL-free remembered replacement -/
def XOk (ed : Ed) (c : Prop) : Prop := EOk ed c ∧ NoNul ed.xrep

/-- **frame**: a handler of the first group does not write `xrep` -/
theorem xrep_tailHandler (k : Nat) {ed ed' : Ed} (hd : String) (ht : tailHandler hd = true)
    (loc cmd arg : Bytes) (txt : Option Bytes) (r : Int)
    (hr : runCmd (k + 2) ed hd loc cmd arg txt = some (r, ed')) : ed'.xrep = ed.xrep := by
  simp only [tailHandler, Bool.or_eq_true, beq_iff_eq, Bool.not_eq_true', List.contains_eq_mem, decide_eq_false_iff_not] at ht
  rcases ht with ((((((((ht | ht) | ht) | ht) | ht) | ht) | ht) | ht) | ht) | ht
  · subst ht; exact xrep_print (k + 1) loc cmd arg txt r hr
  · subst ht; exact xrep_null k loc cmd arg txt r hr
  · subst ht; exact xrep_delete (k + 1) loc cmd arg txt r hr
  · subst ht; exact xrep_yank (k + 1) loc cmd arg txt r hr
  · subst ht; exact xrep_put (k + 1) loc cmd arg txt r hr
  · subst ht; exact xrep_lnum (k + 1) loc cmd arg txt r hr
  · subst ht; exact xrep_mark (k + 1) loc cmd arg txt r hr
  · subst ht; exact xrep_set (k + 1) loc cmd arg txt r hr
  · subst ht; exact xrep_echo (k + 1) loc cmd arg txt r hr
  · exact xrep_other (k + 1) hd ht loc cmd arg txt r hr

/-- a command after `|`: a handler of the first group, or `:s` with a NUL-free argument -/
def midCmd (p : Parsed) : Bool :=
  match p.idx with
  | none => true
  | some (_, hd) => tailHandler hd || (hd == "ec_substitute" && !p.arg.contains 0)

def sokTail' : Nat → Bytes → Bool
  | 0, _ => true
  | n + 1, ln => ln.isEmpty || (midCmd (parse1 ln) && sokTail' n (restOf ln))

/-- the larger class: as `sokLine`, and `:s` with a NUL-free argument may also follow a `|` -/
def sokLine' (ln : Bytes) : Bool := ln.isEmpty || (headCmd (parse1 ln) && sokTail' ln.length (restOf ln))

theorem sokTail_sub : ∀ (n : Nat) (ln : Bytes), sokTail n ln = true → sokTail' n ln = true := by
  intro n
  induction n with
  | zero => intro ln _; rfl
  | succ n ih =>
    intro ln h
    rw [sokTail] at h
    rw [sokTail']
    cases hq : ln.isEmpty with
    | true => rfl
    | false =>
      rw [hq, Bool.false_or, Bool.and_eq_true] at h
      rw [Bool.false_or, Bool.and_eq_true]
      refine ⟨?_, ih _ h.2⟩
      have h1 := h.1
      unfold tailCmd at h1
      unfold midCmd
      split
      · rfl
      · rename_i a hd hi
        rw [hi] at h1
        simp only [] at h1
        rw [h1]; rfl

theorem sokLine_sub {ln : Bytes} (h : sokLine ln = true) : sokLine' ln = true := by
  unfold sokLine at h
  unfold sokLine'
  cases hq : ln.isEmpty with
  | true => rfl
  | false =>
    rw [hq, Bool.false_or, Bool.and_eq_true] at h
    rw [Bool.false_or, Bool.and_eq_true]
    exact ⟨h.1, sokTail_sub _ _ h.2⟩

theorem runOne_xok (k : Nat) {ed : Ed} {c : Prop} (h : XOk ed c) (p : Parsed) (ret : Int)
    (hc : ∀ a hd, p.idx = some (a, hd) → ∀ r ed', runCmd (k + 2) (exTxt ed p.rest (abbrOf p.idx)).2 hd p.loc p.cmd p.arg
      (exTxt ed p.rest (abbrOf p.idx)).1.1 = some (r, ed') → XOk ed' False)
    (r : Int) (ed1 : Ed) (rest : Bytes) (hro : runOne (k + 2) ed p ret = some ((r, ed1), rest)) :
    XOk ed1 False ∧ rest = (exTxt ed p.rest (abbrOf p.idx)).1.2 := by
  unfold runOne at hro
  split at hro
  · cases hro
    have hT := exTxt_eok h.1 p.rest (abbrOf p.idx)
    exact ⟨⟨(hT.1.of_eq rfl rfl).weaken, by show NoNul (exTxt ed p.rest (abbrOf p.idx)).2.xrep; rw [hT.2]; exact h.2⟩, rfl⟩
  · rename_i a hd hi
    split at hro
    · cases hro
    · rename_i r1 e1 hrc
      cases hro
      exact ⟨hc a hd hi _ _ hrc, rfl⟩

theorem keeps_mid (k : Nat) {ed ed' : Ed} {c : Prop} (h : XOk ed c) (a : Bytes) (hd : String) (loc cmd arg : Bytes)
    (hm : (tailHandler hd || (hd == "ec_substitute" && !arg.contains 0)) = true) (txt : Option Bytes) (r : Int)
    (hr : runCmd (k + 2) ed hd loc cmd arg txt = some (r, ed')) : XOk ed' False := by
  rw [Bool.or_eq_true] at hm
  rcases hm with ht | hs
  · exact ⟨keeps_tailHandler k h.1 hd ht loc cmd arg txt r hr, by
      rw [xrep_tailHandler k hd ht loc cmd arg txt r hr]; exact h.2⟩
  · rw [Bool.and_eq_true, beq_iff_eq] at hs
    obtain ⟨rfl, ha⟩ := hs
    exact keeps_subst (k + 1) h.1 h.2 loc cmd arg txt (noNul_of_contains ha) r hr

theorem cmds_tail' (k : Nat) : ∀ (g : Nat) (ed : Ed) (ln : Bytes) (ret : Int) (c : Prop), XOk ed c → sokTail' g ln = true →
    ∀ r ed', exExec.cmds (k + 2) g ed ln ret = some (r, ed') → XOk ed' False := by
  intro g
  induction g with
  | zero => intro ed ln ret c h _ r ed' hr; rw [exExec.cmds] at hr; cases hr; exact ⟨h.1.weaken, h.2⟩
  | succ g ih =>
    intro ed ln ret c h hfl r ed' hr
    rw [cmds_succ] at hr
    split at hr
    · cases hr; exact ⟨h.1.weaken, h.2⟩
    · rename_i hne
      rw [sokTail'] at hfl
      have hemp : ln.isEmpty = false := by cases hq : ln.isEmpty <;> simp_all
      rw [hemp, Bool.false_or, Bool.and_eq_true] at hfl
      split at hr
      · cases hr
      · rename_i r1 ed1 rest hro
        have hT := exTxt_eok h.1 (parse1 ln).rest (abbrOf (parse1 ln).idx)
        obtain ⟨h1, hrest⟩ := runOne_xok k h (parse1 ln) ret (fun a hd hi r2 e2 hrc => by
          have hm : (tailHandler hd || (hd == "ec_substitute" && !(parse1 ln).arg.contains 0)) = true := by
            have := hfl.1; unfold midCmd at this; rw [hi] at this; exact this
          exact keeps_mid k (c := c) ⟨hT.1, by rw [hT.2]; exact h.2⟩ a hd _ _ _ hm _ _ hrc) r1 ed1 rest hro
        rw [hrest, show (exTxt ed (parse1 ln).rest (abbrOf (parse1 ln).idx)).1.2 = restOf ln from
          exTxt_rest_indep ed {} _ _] at hr
        exact ih ed1 (restOf ln) r1 False h1 hfl.2 r ed' hr

theorem xrep_headHandler (k : Nat) {ed ed' : Ed} (h : EOk ed True) (hx : NoNul ed.xrep) (hd : String)
    (ht : headHandler hd = true) (loc cmd arg : Bytes) (harg : NoNul arg) (txt : Option Bytes) (r : Int)
    (hr : runCmd (k + 2) ed hd loc cmd arg txt = some (r, ed')) : NoNul ed'.xrep := by
  simp only [headHandler, Bool.or_eq_true, beq_iff_eq] at ht
  rcases ht with ((ht | ht) | ht) | ht
  · rw [xrep_tailHandler k hd ht loc cmd arg txt r hr]; exact hx
  · subst ht; exact (keeps_subst (k + 1) h hx loc cmd arg txt harg r hr).2
  · subst ht; rw [xrep_undo (k + 1) loc cmd arg txt r hr]; exact hx
  · subst ht; rw [xrep_redo (k + 1) loc cmd arg txt r hr]; exact hx

/-- **`ex_exec` on a line of the larger class** -/
theorem exec_sok' (k : Nat) {ed ed' : Ed} (h : EOk ed True) (hx : NoNul ed.xrep) (ln : Bytes) (hl : sokLine' ln = true)
    (r : Int) (hr : exExec (k + 3) ed ln = some (r, ed')) : XOk ed' False := by
  rw [exExec] at hr
  split at hr
  · cases hr; exact ⟨(h.of_eq rfl rfl).weaken, hx⟩
  · rw [cmds_succ] at hr
    split at hr
    · cases hr; exact ⟨h.weaken, hx⟩
    · rename_i hne
      unfold sokLine' at hl
      have hemp : ln.isEmpty = false := by cases hq : ln.isEmpty <;> simp_all
      rw [hemp, Bool.false_or, Bool.and_eq_true] at hl
      split at hr
      · cases hr
      · rename_i r1 ed1 rest hro
        have hh := hl.1
        unfold headCmd at hh
        rw [Bool.and_eq_true] at hh
        have hT := exTxt_eok h (parse1 ln).rest (abbrOf (parse1 ln).idx)
        obtain ⟨h1, hrest⟩ := runOne_xok k (c := True) ⟨h, hx⟩ (parse1 ln) 0 (fun a hd hi r2 e2 hrc => by
          have ht : headHandler hd = true := by
            have := hh.2; rw [hi] at this; exact this
          exact ⟨keeps_headHandler k hT.1 (by rw [hT.2]; exact hx) hd ht _ _ _ (noNul_of_contains hh.1) _ _ hrc,
            xrep_headHandler k hT.1 (by rw [hT.2]; exact hx) hd ht _ _ _ (noNul_of_contains hh.1) _ _ hrc⟩)
          r1 ed1 rest hro
        rw [hrest, show (exTxt ed (parse1 ln).rest (abbrOf (parse1 ln).idx)).1.2 = restOf ln from
          exTxt_rest_indep ed {} _ _] at hr
        exact cmds_tail' k _ ed1 (restOf ln) r1 False h1 hl.2 r ed' hr

theorem modifiedAt_xrep (ed : Ed) (i : Nat) : (ed.modifiedAt i).2.xrep = ed.xrep := by
  unfold Ed.modifiedAt
  split <;> rfl

theorem command_sok' (k : Nat) {ed ed' : Ed} (h : EOk ed True) (hx : NoNul ed.xrep) (ln : Bytes) (hl : sokLine' ln = true)
    (r : Int) (hr : exCommand (k + 4) ed ln = some (r, ed')) : XOk ed' True := by
  rw [exCommand] at hr
  split at hr
  · cases hr
  · rename_i r1 ed1 he
    cases hr
    obtain ⟨h1, h2⟩ := exec_sok' k h hx ln hl _ he
    exact ⟨modifiedAt_eok h1, by rw [modifiedAt_xrep]; exact h2⟩

/-- **a covered `:` line entered from vi** keeps the line invariant and the NUL-freeness of the remembered replacement -/
theorem colon_keeps_xok {ln : Bytes} {s s' : VS} {rc : Int} (hs : SOk s True) (hx : NoNul s.ed.xrep)
    (hl : sokLine' ln = true) (hm : exCommandV ln s = Res.ok rc s') : SOk s' True ∧ NoNul s'.ed.xrep := by
  rcases Lemmas.C20c.exCommandV_eq ln s with e | ⟨s1, hed, e⟩
  · rw [e] at hm; cases hm; exact ⟨hs, hx⟩
  · rw [e] at hm
    unfold Lemmas.C20c.exCommandVCore at hm
    rw [hed] at hm
    split at hm
    · cases hm
    · rename_i rc1 ed1 hc
      cases hm
      exact command_sok' 60 (ed := { s.ed with out := [], msg := [], input := [], xvis := true })
        (EOk.of_eq (ed := s.ed) hs rfl rfl) hx ln hl _ hc

/-- … and, for a line of C05e's class entered in an `EdSafe` state, the remembered pattern stays a C string -/
theorem colon_keeps_xkwd {ln : Bytes} {s s' : VS} {rc : Int} (h : EdSafe s) (hl : ColonLineOk ln)
    (hm : exCommandV ln s = Res.ok rc s') : EdSafe s' ∧ NoNul s'.ed.xkwd := by
  obtain ⟨rc1, s1, he, h1⟩ := exCommandV_safe ln s h hl
  rw [he] at hm
  cases hm
  exact ⟨h1, h1.1.kwd⟩

end Neatvi.Lemmas.C05j
