import NeatviVerif.Lemmas.C19fExamples
/-!
# C19f: the theorems of `Props/C19f.lean`, assembled from the helper files
-/
set_option linter.unusedSimpArgs false
set_option linter.unusedVariables false

namespace Neatvi.Lemmas.C19f
open Neatvi Neatvi.Uc Neatvi.Spec Neatvi.Ren Neatvi.Render Neatvi.Lbuf Neatvi.Ex Neatvi.Mot Neatvi.Vi
open Neatvi.Lemmas.C05b (CountsFit)
open Neatvi.Lemmas.C17b (StrictInc Tiled)
open Neatvi.Lemmas.C07 (lbText)
open Neatvi.Props.C05c (iterate)

/-! ## 1. the end of an iteration -/

theorem viPost_col_in_window (s s' : VS) (mod : Nat) (hc : 0 < s.xcols) (hx : mod ≠ 0 ∨ 0 ≤ s.xcol)
    (h : viPost (some mod) s = Res.ok () s') (hq : s'.ed.xquit = false) :
    s'.ed.xleft ≤ s'.xcol ∧ s'.xcol < s'.ed.xleft + s'.xcols ∧ 0 ≤ s'.xcol ∧ s'.xcols = s.xcols ∧
    (0 ≤ s.ed.xleft → 0 ≤ s'.ed.xleft) ∧
    (s.ed.xleft ≤ s'.xcol → s'.xcol < s.ed.xleft + s.xcols → s'.ed.xleft = s.ed.xleft) ∧
    s'.ed.xleft = postLeft s'.xcol s.ed.xleft s.xcols ∧
    (mod ≠ 0 → s'.xcol = off2col s' s'.ed.xrow s'.ed.xoff) ∧ (mod = 0 → s'.xcol = s.xcol) := by
  obtain ⟨⟨w1, w2⟩, w3, w4⟩ := viPost_colWin mod s s' hc hx h hq
  have hq0 := viPost_quit_before mod s s' h hq
  have a8 := ((viPost_run mod s s' h).2 hq0).2.2.2.2.2.2.2
  refine ⟨w1, w2, w3, w4, fun hl => ?_, fun h1 h2 => ?_, a8, fun hm => viPost_xcol_mod mod hm s s' h hq0, fun hm => ?_⟩
  · rw [a8]; exact postLeft_nonneg _ _ _ (by omega) hl
  · rw [a8]; exact postLeft_same _ _ _ h1 h2
  · subst hm; exact viPost_xcol_zero s s' h hq0

theorem viPost_window_any_xcol_is_false :
    ¬ (∀ (s s' : VS) (mod : Nat), 0 < s.xcols → viPost (some mod) s = Res.ok () s' → s'.ed.xquit = false →
        s'.ed.xleft ≤ s'.xcol) := by
  intro hall
  obtain ⟨s', hr, hv⟩ := postView_some 0 negSt _ negSt_post
  simp only [Prod.mk.injEq] at hv
  obtain ⟨v1, v2, _, v4⟩ := hv
  have := hall negSt s' 0 (by decide) hr v4.symm
  omega

theorem viPost_xleft_nonneg_any_xleft_is_false :
    ¬ (∀ (s s' : VS) (mod : Nat), 0 < s.xcols → 0 ≤ s.xcol → viPost (some mod) s = Res.ok () s' →
        s'.ed.xquit = false → 0 ≤ s'.ed.xleft) := by
  intro hall
  obtain ⟨s', hr, hv⟩ := postView_some 0 farSt _ farSt_post
  simp only [Prod.mk.injEq] at hv
  obtain ⟨_, v2, _, v4⟩ := hv
  have := hall farSt s' 0 (by decide) (by decide) hr v4.symm
  omega

theorem viPost_window_no_columns_is_false :
    ¬ (∀ (s s' : VS) (mod : Nat), mod ≠ 0 → viPost (some mod) s = Res.ok () s' → s'.ed.xquit = false →
        s'.xcol < s'.ed.xleft + s'.xcols) := by
  intro hall
  obtain ⟨s', hr, hv⟩ := postView_some 1 zeroSt _ zeroSt_post
  simp only [Prod.mk.injEq] at hv
  obtain ⟨v1, v2, v3, v4⟩ := hv
  have := hall zeroSt s' 1 (by decide) hr v4.symm
  omega

/-! ## 2. the cursor cell -/

theorem cursor_on_character (s s' : VS) (mod : Nat) (hmod : mod ≠ 0) (hc : 0 < s.xcols)
    (h : viPost (some mod) s = Res.ok () s') (hq : s'.ed.xquit = false) (h0 : 0 ≤ s.ed.xoff)
    (body : List Nat) (hv : ∀ c ∈ body, ValidCp c) (h10 : 10 ∉ body) (hne : body ≠ [])
    (hln : lineOf s' s'.ed.xrow = some (encStr (body ++ [10]))) :
    let cps := body ++ [10]
    let off := s'.ed.xoff.toNat
    let pos := posTab s' (encStr cps)
    let w : Int := cellWidth (cps.getD off 0) (pos.getD off 0)
    (s'.ed.xoff = (off : Int) ∧ off < body.length) ∧
    (s'.xcol = off2col s' s'.ed.xrow s'.ed.xoff ∧ s'.xcol = (pos.getD off 0 : Nat) ∧ 1 ≤ w) ∧
    (∀ p : Int, s'.xcol ≤ p → p < s'.xcol + w → col2off s' s'.ed.xrow p = (off : Nat)) ∧
    cursorCol s' = s'.xcol + w - 1 ∧
    (s'.ed.xleft ≤ s'.xcol ∧ s'.xcol < s'.ed.xleft + s'.xcols ∧ 0 ≤ colCell s' ∧ colCell s' < s'.xcols) ∧
    (s'.xcol + w ≤ s'.ed.xleft + s'.xcols →
      rowShows s' (encStr cps) (colCell s').toNat = some off ∧
      0 ≤ termCursor s' ∧ termCursor s' < s'.xcols ∧
      rowShows s' (encStr cps) (termCursor s').toNat = some off ∧
      (0 ≤ curCtx s' → termCursor s' = colCell s' + (w - 1)) ∧
      (curCtx s' < 0 → termCursor s' = colCell s' - (w - 1))) := by
  intro cps off pos w
  have hq0 := viPost_quit_before mod s s' h hq
  obtain ⟨hcv, hoff0, _, _⟩ := Props.C07.viPost_cursor_valid mod s s' h
  obtain ⟨e1, e2, e3⟩ := valid_cursor_char s' hcv (hoff0 h0) body hv h10 hne hln
  have hvc := (body_line body hv h10 hne).1
  have hlt : off < cps.length := by show s'.ed.xoff.toNat < (body ++ [10]).length; simp; omega
  have hx := viPost_xcol_mod mod hmod s s' h hq0
  obtain ⟨w1, w2, _, w4, _⟩ := viPost_col_in_window s s' mod hc (Or.inl hmod) h hq
  have hc' : 0 < s'.xcols := by rw [w4]; exact hc
  obtain ⟨c1, c2, c3, c4⟩ := cursor_columns s' cps hvc hln off e1 hlt e3 hx
  have hctx : curCtx s' = dirCtx s' (encStr cps) := by unfold curCtx; rw [hln]; rfl
  obtain ⟨k0, k1⟩ := ledPos_range (curCtx s') s'.xcol s'.ed.xleft (s'.ed.xleft + s'.xcols) w1 w2
  refine ⟨⟨e1, e2⟩, ⟨hx, c1, (by show (1 : Int) ≤ ((cellWidth (cps.getD off 0) (pos.getD off 0) : Nat) : Int); exact_mod_cast c2)⟩, ?_, c4, ⟨w1, w2, k0, by unfold colCell viPos; omega⟩, ?_⟩
  · intro p hp1 hp2
    exact (c3 p (by omega) (by rw [← c1]; exact hp2)).1
  · intro hr
    obtain ⟨d1, d2, d3, d4, d5, d6, d7, d8⟩ := cursor_cells s' cps hvc hc' hln off e1 hlt e3 hx w1 hr
    exact ⟨d3, d4, d5, d6, d7, d8⟩

theorem cursor_on_empty_line (s : VS) (hln : lineOf s s.ed.xrow = some [10]) (ho : s.ed.xoff = 0) :
    off2col s s.ed.xrow s.ed.xoff = 0 ∧ (s.xcol = 0 → cursorCol s = 0) := by
  have hp : posTab s [10] = [0, 1] := by
    rw [posTab_fast s [10] (Or.inl (by decide))]
    decide
  constructor
  · unfold off2col
    rw [hln, ho]
    simp only [hp]
    decide
  · intro hx
    unfold cursorCol
    rw [hln]
    simp only [hp, hx]
    decide

theorem renderRow_of_posTab (s : VS) (ln : Bytes) (pos : List Nat) (shape : Bool)
    (h : renPosition dirOracle (renOpts s) ln = some pos) :
    posTab s ln = pos ∧
    renderRow dirOracle (renOpts s) shape ln s.ed.xleft (s.ed.xleft + s.xcols) =
      some (Lemmas.C19d.rowRef (chrs ln) ((chrs ln).map (fun c => (ucCode c).getD 0)) shape
        (offTable (chrs ln) (posTab s ln) (dirCtx s ln) s.ed.xleft (s.ed.xleft + s.xcols))
        s.ed.xleft (s.ed.xleft + s.xcols)) := by
  have hp : posTab s ln = pos := by unfold posTab; rw [h]; rfl
  refine ⟨hp, ?_⟩
  rw [Props.C19d.renderRow_eq_rowRef, h, hp]
  rfl

/-! ## 3. the sticky column -/

theorem sticky_after_vertical_motion (mv nrow noff : Int) (hjk : mv = 106 ∨ mv = 107) (s s2 s3 : VS) (c : Option Nat)
    (h1 : motionTail mv nrow noff s = Res.ok c s2) (h2 : viPost c s2 = Res.ok () s3)
    (hq : s.ed.xquit = false) (body : List Nat) (hv : ∀ c ∈ body, ValidCp c) (h10 : 10 ∉ body) (hne : body ≠ [])
    (hln : lineOf s nrow = some (encStr (body ++ [10]))) :
    let cps := body ++ [10]
    let pos := posTab s3 (encStr cps)
    let off := s3.ed.xoff.toNat
    let w : Int := cellWidth (cps.getD off 0) (pos.getD off 0)
    let col : Int := off2col s3 s3.ed.xrow s3.ed.xoff
    (s3.xcol = s.xcol ∧ s3.ed.xrow = nrow ∧ lineOf s3 nrow = some (encStr cps) ∧
      s3.ed.xleft = postLeft s.xcol s.ed.xleft s.xcols) ∧
    (s3.ed.xoff = (off : Int) ∧ off < body.length ∧ col = (pos.getD off 0 : Nat)) ∧
    (∀ i, i < body.length → (pos.getD i 0 : Nat) ≤ s3.xcol →
      s3.xcol < (pos.getD i 0 : Nat) + (cellWidth (cps.getD i 0) (pos.getD i 0) : Int) → off = i) ∧
    (StrictInc pos cps.length → (pos.getD 0 0 : Nat) ≤ s3.xcol →
      col ≤ s3.xcol ∧
      (s3.xcol < (pos.getD body.length 0 : Nat) → s3.xcol < col + w) ∧
      ((pos.getD body.length 0 : Nat) ≤ s3.xcol → off + 1 = body.length ∧ col + w ≤ s3.xcol)) := by
  intro cps pos off w col
  have hwf := wfCps_of_body body hv h10 hne
  obtain ⟨a1, a2, a3, a4, a5, a6, a7, a8⟩ := jk_run mv nrow noff hjk s s2 s3 c h1 h2 hq cps hwf hln
  have hpos : pos = posTab s (encStr cps) := posTab_congr a6 _
  have hl3 : lineOf s3 nrow = some (encStr cps) := by rw [C07.lineOf_of_lbText a5]; exact hln
  have hcl : cps.length = body.length + 1 := by simp [cps]
  have ht : Tiled cps pos := posTab_tiled s3 cps hwf.valid
  have hslt := stickyOff_lt pos cps hwf (by rw [ht.table.len]; omega) s.xcol
  have hoff : off = stickyOff pos cps.length s.xcol := by
    show s3.ed.xoff.toNat = _
    rw [a3, ← hpos]; simp
  have hxo : s3.ed.xoff = (off : Int) := by rw [a3, hoff, hpos]
  have hcol : col = (pos.getD off 0 : Nat) := by
    show off2col s3 s3.ed.xrow s3.ed.xoff = _
    rw [hxo]
    exact off2col_eq s3 cps hwf.valid (by rw [a2]; exact hl3) off (by omega)
  refine ⟨⟨a1, a2, hl3, a4⟩, ⟨hxo, by omega, hcol⟩, ?_, ?_⟩
  · intro i hi hp1 hp2
    rw [hoff]
    rw [a1] at hp1 hp2
    exact stickyOff_on_char cps pos ht hwf s.xcol i (by omega) hp1 hp2
  · intro hinc hp0
    rw [a1] at hp0
    have key := stickyOff_inc cps pos ht hinc hwf s.xcol hp0
    simp only [] at key
    rw [← hoff] at key
    obtain ⟨k1, k2, k3⟩ := key
    have e : cps.length - 1 = body.length := by omega
    rw [e] at k2 k3
    rw [a1, hcol]
    refine ⟨k1, k2, fun hge => ?_⟩
    obtain ⟨k4, k5⟩ := k3 hge
    exact ⟨by omega, k5⟩

theorem sticky_cursor_on_character (mv nrow noff : Int) (hjk : mv = 106 ∨ mv = 107) (s s2 s3 : VS) (c : Option Nat)
    (h1 : motionTail mv nrow noff s = Res.ok c s2) (h2 : viPost c s2 = Res.ok () s3)
    (hq : s.ed.xquit = false) (hc : 0 < s.xcols)
    (body : List Nat) (hv : ∀ c ∈ body, ValidCp c) (h10 : 10 ∉ body) (hne : body ≠ [])
    (hln : lineOf s nrow = some (encStr (body ++ [10])))
    (i : Nat) (hi : i < body.length)
    (hp1 : ((posTab s3 (encStr (body ++ [10]))).getD i 0 : Nat) ≤ s3.xcol)
    (hp2 : s3.xcol < ((posTab s3 (encStr (body ++ [10]))).getD i 0 : Nat) +
      (cellWidth ((body ++ [10]).getD i 0) ((posTab s3 (encStr (body ++ [10]))).getD i 0) : Int))
    (hin1 : s3.ed.xleft ≤ ((posTab s3 (encStr (body ++ [10]))).getD i 0 : Nat))
    (hin2 : ((posTab s3 (encStr (body ++ [10]))).getD i 0 : Nat) +
      (cellWidth ((body ++ [10]).getD i 0) ((posTab s3 (encStr (body ++ [10]))).getD i 0) : Int) ≤
        s3.ed.xleft + s3.xcols) :
    s3.ed.xoff = (i : Nat) ∧
    cursorCol s3 = ((posTab s3 (encStr (body ++ [10]))).getD i 0 : Nat) +
      (cellWidth ((body ++ [10]).getD i 0) ((posTab s3 (encStr (body ++ [10]))).getD i 0) : Int) - 1 ∧
    0 ≤ colCell s3 ∧ colCell s3 < s3.xcols ∧ rowShows s3 (encStr (body ++ [10])) (colCell s3).toNat = some i ∧
    0 ≤ termCursor s3 ∧ termCursor s3 < s3.xcols ∧
    rowShows s3 (encStr (body ++ [10])) (termCursor s3).toNat = some i := by
  have hwf := wfCps_of_body body hv h10 hne
  obtain ⟨_, a2, _, _, _, _, a7, _⟩ := jk_run mv nrow noff hjk s s2 s3 c h1 h2 hq _ hwf hln
  have key := sticky_after_vertical_motion mv nrow noff hjk s s2 s3 c h1 h2 hq body hv h10 hne hln
  simp only [] at key
  obtain ⟨⟨_, _, hl3, _⟩, ⟨hxo, _, _⟩, hon, _⟩ := key
  have hoi := hon i hi hp1 hp2
  have hl3' : lineOf s3 s3.ed.xrow = some (encStr (body ++ [10])) := by rw [a2]; exact hl3
  have hil : i < (body ++ [10]).length := by simp; omega
  have hnl : (body ++ [10]).getD i 0 ≠ 10 := hwf.inner i (by simp; omega)
  obtain ⟨c1, _⟩ := cursorCol_on_char s3 _ hwf.valid hl3' i hil hnl hp1 hp2
  obtain ⟨d1, d2, d3, d4, d5, d6⟩ := cursor_cells_on_char s3 _ hwf.valid (by rw [a7]; exact hc) hl3' i hil hnl
    hp1 hp2 hin1 hin2
  exact ⟨by rw [hxo, hoi], c1, d1, d2, d3, d4, d5, d6⟩

theorem sticky_column_finding :
    viewAfter 2 (exSt [106, 36, 107] 0 0) = some [1, 119, 119, 79, 119, 40, 40] ∧
    viewAfter 3 (exSt [106, 36, 107] 0 0) = some [0, 4, 119, 79, 4, -75, 40] ∧
    (match iterate 3 (exSt [106, 36, 107] 0 0) with
     | some s => decide (ColWin s) && decide (s.xcols = 80) && decide (s.ed.xquit = false) &&
         decide (lineOf s s.ed.xrow = some shortLn) &&
         decide (off2col s s.ed.xrow s.ed.xoff = 4) && decide (off2col s s.ed.xrow s.ed.xoff < s.ed.xleft) &&
         decide (renderRow dirOracle (renOpts s) true shortLn s.ed.xleft (s.ed.xleft + s.xcols) = some []) &&
         (List.range 80).all (fun k => rowShows s shortLn k == none)
     | none => false) = true :=
  ⟨ex_after_j_dollar, ex_after_j_dollar_k, ex_after_j_dollar_k_row⟩

theorem wide_character_at_edge_finding :
    viewAfter 2 (tabSt [36, 104]) = some [0, 9, 9, 0, 15, 15, 9] ∧
    (match iterate 2 (tabSt [36, 104]) with
     | some s => decide (ColWin s) && decide (s.xcol = off2col s s.ed.xrow s.ed.xoff) &&
         decide (renderRow dirOracle (renOpts s) true tabLn s.ed.xleft (s.ed.xleft + s.xcols) =
           some [97, 97, 97, 97, 97, 97, 97, 97, 97]) &&
         decide (rowShows s tabLn 9 = none)
     | none => false) = true :=
  ⟨tab_after_dollar_h, tab_after_dollar_h_row⟩

/-! ## 4. every state of a run -/

/-- the state `vi()` starts in, as `Drive.ViD.runModel` builds it -/
def initState (file : Option Bytes) (keys : Bytes) (rows cols : Int) : Option VS :=
  let ed0 : Ed := match file with
    | some d => { ({} : Ed).putFile ⟨strOf "fa", d, 1001⟩ with clock := 1001 }
    | none => {}
  match exInit ed0 [strOf "fa"] with
  | none => none
  | some (_, ed) => some (viInit ed keys (rows - 1) cols)

open Neatvi.Drive.ViD in
theorem colWin_runModel (file : Option Bytes) (keys : Bytes) (rows cols : Int) (run : Run) (hc : 0 < cols)
    (h : runModel file keys rows cols = some run)
    (h0 : ∀ s0, initState file keys rows cols = some s0 → ColWin s0) : ∀ s ∈ run.states, ColWin s := by
  unfold runModel at h
  dsimp only at h
  split at h
  · cases h
  · rename_i rc ed he
    cases h
    have hi : initState file keys rows cols = some (viInit ed keys (rows - 1) cols) := by
      unfold initState
      cases file <;> (dsimp only at he ⊢; rw [he])
    exact colWin_loop _ cols hc _ _ _ _ _ (good_viInit _ _ _ _) (h0 _ hi) (fun t ht => by cases ht)

/-- the column window of the initial state: `xleft ≤ vi_off2col(xrow, 0) < xleft + cols` -/
theorem colWin_viInit_iff (ed : Ed) (keys : Bytes) (rows cols : Int) :
    ColWin (viInit ed keys rows cols) ↔
      ed.xleft ≤ (viInit ed keys rows cols).xcol ∧ (viInit ed keys rows cols).xcol < ed.xleft + cols := Iff.rfl

/-- the sticky column of the initial state is column 0 when the cursor line (if any) is laid out left
    to right (single-byte characters only, or more than 256 characters) -/
theorem viInit_xcol_zero (ed : Ed) (keys : Bytes) (rows cols : Int)
    (hline : ∀ ln, lineOf (viInit ed keys rows cols) ed.xrow = some ln → ucSlen ln = ln.length ∨ 256 < ucSlen ln) :
    (viInit ed keys rows cols).xcol = 0 := by
  have hx : (viInit ed keys rows cols).xcol = off2col (viInit ed keys rows cols) ed.xrow 0 := rfl
  rw [hx]
  unfold off2col
  cases hl : lineOf (viInit ed keys rows cols) ed.xrow with
  | none => rfl
  | some ln =>
    simp only []
    rw [posTab_fast _ ln (hline ln hl)]
    unfold renPosT
    split
    · rw [show (0 : Int).toNat = 0 from rfl, fast_getD_zero]; rfl
    · rfl

/-- ... so with `xleft = 0` and at least one column the initial state has the column window -/
theorem colWin_viInit (ed : Ed) (keys : Bytes) (rows cols : Int) (hc : 0 < cols) (hl : ed.xleft = 0)
    (hline : ∀ ln, lineOf (viInit ed keys rows cols) ed.xrow = some ln → ucSlen ln = ln.length ∨ 256 < ucSlen ln) :
    ColWin (viInit ed keys rows cols) := by
  have hx := viInit_xcol_zero ed keys rows cols hline
  unfold ColWin
  rw [hx]
  show ed.xleft ≤ 0 ∧ 0 < ed.xleft + cols
  omega

/-- the full invariant of (1), `0 ≤ xleft` included, in every state of a run that starts with no
    negative `xleft`, current or saved in the buffer table (`LOk`; `:e`, `:b` restore a saved one) -/
def col_invariant_reachable_full : Prop :=
  ∀ (c : Int), 0 < c → ∀ (n : Nat) (s₀ s : VS), Good c s₀ → ColWin s₀ → LOk s₀.ed →
    iterate n s₀ = some s → Alive n s₀ → ColWin s ∧ 0 ≤ s.ed.xleft

/-- the full invariant follows from the one fact about the ex layer that is not proved here -/
theorem col_invariant_reachable_of_ex (hX : ExKeepsLeft) : col_invariant_reachable_full := by
  intro c hc n s₀ s hg hw hl h ha
  exact ⟨(colWin_reachable c hc n s₀ s hg hw h ha).1, (lOk_reachable hX c (by omega) n s₀ s hg hl h).1⟩

end Neatvi.Lemmas.C19f
