import NeatviVerif.Lemmas.C06dFrame
/-!
# C06d: the per-command specifications of C06 / C06b / C06c / C14 with the region given by the reference evaluator
-/
set_option linter.unusedSimpArgs false
namespace Neatvi.Lemmas.C06d
open Neatvi Neatvi.Lbuf Neatvi.LbufIo Neatvi.Ex Neatvi.Rset Neatvi.Lemmas.C06 Neatvi.Lemmas.C06b
open Neatvi.Lemmas.Hist (optLines)

/-- the reference's verdict on `loc` in state `ed` -/
abbrev refOf (ed : Ed) (loc : Loc) := refRegion (worldOf ed) (cursorOf ed) loc

/-- from the reference to `ex_region` -/
theorem exRegion_of_ref (ed : Ed) (loc : Loc) (hok : loc.Ok) (hx : ed.xrow ≠ -1000000) (r : Nat) (b e : Int) (c1 : Cursor)
    (h : refOf ed loc = some ((r, b, e), c1)) : exRegion ed loc.render = some ((r, b, e), withCursor ed c1) := by
  rw [exRegion_ref ed loc hok hx]
  unfold refOf at h
  rw [h]
  rfl

theorem delete_ref (f : Nat) (ed ed' : Ed) (loc : Loc) (cmd arg : Bytes) (txt : Option Bytes) (rc : Int)
    (hok : loc.Ok) (hx : ed.xrow ≠ -1000000)
    (h : runCmd (f + 1) ed "ec_delete" loc.render cmd arg txt = some (rc, ed')) :
    (rc = 0 ∨ rc = 1) ∧
    (rc = 0 → ∃ b e c1, refOf ed loc = some ((0, b, e), c1) ∧ 0 ≤ b ∧ b ≤ e ∧ e ≤ ed.len ∧
      lines ed' = (lines ed).take b.toNat ++ (lines ed).drop e.toNat ∧ ed'.xrow = b ∧
      ed'.regs = ed.regs.put (regName arg) (((lines ed).drop b.toNat).take (e.toNat - b.toNat)).flatten 1) ∧
    (rc = 1 → lines ed' = lines ed ∧ ed'.regs = ed.regs) := by
  obtain ⟨h1, h2, h3⟩ := Props.C06.ec_delete_spec f ed ed' loc.render cmd arg txt rc h
  refine ⟨h1, fun h0 => ?_, fun h0 => ⟨(h3 h0).1, (h3 h0).2.1⟩⟩
  obtain ⟨b, e, ed1, k1, k2, k3, k4, k5, k6, k7⟩ := h2 h0
  obtain ⟨c1, m1, _⟩ := region_transfer ed loc hok hx 0 b e ed1 k1
  exact ⟨b, e, c1, m1, k2, k3, k4, k5, k6, k7⟩

theorem yank_ref (f : Nat) (ed ed' : Ed) (loc : Loc) (cmd arg : Bytes) (txt : Option Bytes) (rc : Int)
    (hok : loc.Ok) (hx : ed.xrow ≠ -1000000)
    (h : runCmd (f + 1) ed "ec_yank" loc.render cmd arg txt = some (rc, ed')) :
    (rc = 0 ∨ rc = 1) ∧ lines ed' = lines ed ∧
    (rc = 0 → ∃ b e c1, refOf ed loc = some ((0, b, e), c1) ∧ 0 ≤ b ∧ b ≤ e ∧ e ≤ ed.len ∧
      ed'.regs = ed.regs.put (regName arg) (((lines ed).drop b.toNat).take (e.toNat - b.toNat)).flatten 1) ∧
    (rc = 1 → ed'.regs = ed.regs) := by
  obtain ⟨h1, h2, h3, h4⟩ := Props.C06.ec_yank_spec f ed ed' loc.render cmd arg txt rc h
  refine ⟨h1, h2, fun h0 => ?_, fun h0 => (h4 h0).1⟩
  obtain ⟨b, e, ed1, k1, k2, k3, k4, k5⟩ := h3 h0
  obtain ⟨c1, m1, _⟩ := region_transfer ed loc hok hx 0 b e ed1 k1
  exact ⟨b, e, c1, m1, k2, k3, k4, k5⟩

theorem insert_ref (f : Nat) (ed ed' : Ed) (loc : Loc) (cmd arg : Bytes) (txt : Option Bytes) (rc : Int)
    (hok : loc.Ok) (hx : ed.xrow ≠ -1000000)
    (h : runCmd (f + 1) ed "ec_insert" loc.render cmd arg txt = some (rc, ed')) :
    (rc = 0 ∨ rc = 1) ∧
    (rc = 0 → ∃ r b e c1, refOf ed loc = some ((r, b, e), c1) ∧ (r = 0 ∨ (b = 0 ∧ e = 0)) ∧
      0 ≤ b ∧ b ≤ e ∧ e ≤ ed.len ∧
      ∀ p q, p = (if cmd.headD 0 = 97 then e else b) → q = (if cmd.headD 0 = 99 then e else p) →
        lines ed' = (lines ed).take p.toNat ++ optLines txt ++ (lines ed).drop q.toNat ∧
        ed'.xrow = min (ed'.len - 1) (p + (optLines txt).length - 1)) ∧
    (rc = 1 → lines ed' = lines ed) := by
  obtain ⟨h1, h2, h3⟩ := Props.C06.ec_insert_spec f ed ed' loc.render cmd arg txt rc h
  refine ⟨h1, fun h0 => ?_, fun h0 => (h3 h0).1⟩
  obtain ⟨r, b, e, ed1, k1, k2, k3, k4, k5, k6⟩ := h2 h0
  obtain ⟨c1, m1, _⟩ := region_transfer ed loc hok hx r b e ed1 k1
  exact ⟨r, b, e, c1, m1, k2, k3, k4, k5, fun p q hp hq => ⟨(k6 p q hp hq).1, (k6 p q hp hq).2.2⟩⟩

theorem put_ref (f : Nat) (ed ed' : Ed) (loc : Loc) (cmd arg : Bytes) (txt : Option Bytes) (rc : Int)
    (hok : loc.Ok) (hx : ed.xrow ≠ -1000000)
    (h : runCmd (f + 1) ed "ec_put" loc.render cmd arg txt = some (rc, ed')) :
    (rc = 0 ∨ rc = 1) ∧
    (rc = 0 → ∃ buf r b e c1, regGet ed (regName arg) = some buf ∧ refOf ed loc = some ((r, b, e), c1) ∧
      (r = 0 ∨ (b = 0 ∧ e = 0)) ∧ 0 ≤ e ∧ e ≤ ed.len ∧
      lines ed' = (lines ed).take e.toNat ++ splitLines buf ++ (lines ed).drop e.toNat ∧
      ed'.xrow = min (ed'.len - 1) (e + (splitLines buf).length - 1)) ∧
    (rc = 1 → lines ed' = lines ed) := by
  obtain ⟨h1, h2, h3, _⟩ := Props.C06.ec_put_spec f ed ed' loc.render cmd arg txt rc h
  refine ⟨h1, fun h0 => ?_, fun h0 => (h3 h0).1⟩
  obtain ⟨buf, r, b, e, ed1, k0, k1, k2, k3, k4, k5, k6⟩ := h2 h0
  obtain ⟨c1, m1, _⟩ := region_transfer ed loc hok hx r b e ed1 k1
  exact ⟨buf, r, b, e, c1, k0, m1, k2, k3, k4, k5, k6⟩

theorem mark_ref (f : Nat) (ed ed' : Ed) (loc : Loc) (cmd arg : Bytes) (txt : Option Bytes) (rc : Int)
    (hok : loc.Ok) (hx : ed.xrow ≠ -1000000)
    (h : runCmd (f + 1) ed "ec_mark" loc.render cmd arg txt = some (rc, ed')) :
    (rc = 0 ∨ rc = 1) ∧ lines ed' = lines ed ∧
    (rc = 0 → ∃ b e c1 lb, refOf ed loc = some ((0, b, e), c1) ∧ 0 ≤ e - 1 ∧ e - 1 < ed.len ∧ ed.lb = some lb ∧
      ed'.lb = some (setMark lb (arg.headD 0) (e - 1) 0)) := by
  obtain ⟨h1, h2, h3, _⟩ := Props.C06.ec_mark_spec f ed ed' loc.render cmd arg txt rc h
  refine ⟨h1, h2, fun h0 => ?_⟩
  obtain ⟨b, e, ed1, lb, k1, k2, k3, k4, k5⟩ := h3 h0
  obtain ⟨c1, m1, _⟩ := region_transfer ed loc hok hx 0 b e ed1 k1
  exact ⟨b, e, c1, lb, m1, k2, k3, k4, k5⟩

theorem print_ref (f : Nat) (ed ed' : Ed) (loc : Loc) (cmd arg : Bytes) (txt : Option Bytes) (rc : Int)
    (hok : loc.Ok) (hx : ed.xrow ≠ -1000000)
    (h : runCmd (f + 1) ed "ec_print" loc.render cmd arg txt = some (rc, ed')) :
    (rc = 0 ∨ rc = 1) ∧ lines ed' = lines ed ∧
    (rc = 0 → ∃ b e c1, refOf ed loc = some ((0, b, e), c1) ∧ 0 ≤ b ∧ b ≤ e ∧ e ≤ ed.len ∧
      ed'.out = ed.out ++ (((lines ed).drop b.toNat).take (e.toNat - b.toNat)).flatMap printed ∧
      ed'.xrow = max b (e - 1)) ∧
    (rc = 1 → ed'.out = ed.out) := by
  obtain ⟨h1, h2, h3, h4⟩ := Props.C06.ec_print_spec f ed ed' loc.render cmd arg txt rc h
  refine ⟨h1, h2, fun h0 => ?_, fun h0 => (h4 h0).1⟩
  obtain ⟨b, e, ed1, k1, k2, k3, k4, k5, k6⟩ := h3 h0
  obtain ⟨c1, m1, _⟩ := region_transfer ed loc hok hx 0 b e ed1 k1
  exact ⟨b, e, c1, m1, k2, k3, k4, k5, k6⟩

/-- `:r` of a plain file -/
theorem read_ref (f : Nat) (ed ed' : Ed) (loc : Loc) (cmd arg : Bytes) (txt : Option Bytes) (rc : Int)
    (hok : loc.Ok) (hx : ed.xrow ≠ -1000000)
    (h : runCmd (f + 1) ed "ec_read" loc.render cmd arg txt = some (rc, ed')) :
    (rc = 0 ∨ rc = 1) ∧
    (rc = 0 → ∃ path b e c1, Props.C06b.readPath ed arg = some (some path, ed) ∧ refOf ed loc = some ((0, b, e), c1) ∧
      0 ≤ e ∧ e ≤ ed.len ∧
      lines ed' = (lines ed).take e.toNat ++ Props.C06b.readLines ed arg ++ (lines ed).drop e.toNat) ∧
    (rc = 1 → lines ed' = lines ed) := by
  obtain ⟨h1, h2, h3⟩ := Props.C06b.ec_read_spec f ed ed' loc.render cmd arg txt rc h
  refine ⟨h1, fun h0 => ?_, fun h0 => (h3 h0).1⟩
  obtain ⟨path, b, e, ed1, k0, k1, k2, k3, k4, k5⟩ := h2 h0
  obtain ⟨c1, m1, _⟩ := region_transfer ed loc hok hx 0 b e ed1 k1
  refine ⟨path, b, e, c1, k0, m1, k2, k3, ?_⟩
  simp only [Props.C06b.readLines, k0]
  by_cases hbang : path.headD 0 = 33
  · obtain ⟨_, n1, n2⟩ := k5 hbang
    simp only [hbang, if_true]
    cases hp : ed.pipe (path.drop 1) [] with
    | none =>
      rw [n1 hp]
      have : lines ({ ed1 with unmodelled := true } : Ed) = lines ed1 := rfl
      rw [this, (region_all _ _ _ _ _ _ k1).1.lines]
      simp
    | some o => exact (n2 o hp).1
  · obtain ⟨fl, n1, n2, _⟩ := k4 hbang
    simp only [hbang, if_false, n1]
    exact n2

/-- `:w` never changes a line, whatever the address -/
theorem write_ref (f : Nat) (ed ed' : Ed) (loc cmd arg : Bytes) (txt : Option Bytes) (rc : Int)
    (h : runCmd (f + 1) ed "ec_write" loc cmd arg txt = some (rc, ed')) : lines ed' = lines ed := by
  rw [runCmd] at h
  simp only [String.reduceBEq, Bool.false_eq_true, ↓reduceIte, Bool.or_false, Bool.or_self] at h
  exact ecWrite_lines ed ed' loc cmd arg rc h

/-- the filter `[range]!cmd` -/
theorem filter_ref (f : Nat) (ed ed' : Ed) (loc : Loc) (cmd arg : Bytes) (txt : Option Bytes) (rc : Int)
    (hok : loc.Ok) (hx : ed.xrow ≠ -1000000) (hloc : loc.render ≠ [])
    (h : runCmd (f + 1) ed "ec_exec" loc.render cmd arg txt = some (rc, ed')) :
    (rc = 0 ∨ rc = 1) ∧
    (rc = 0 → ∃ ecmd b e c1, pathExpand ed arg true = some (some ecmd, ed) ∧
      refOf ed loc = some ((0, b, e), c1) ∧ 0 ≤ b ∧ b ≤ e ∧ e ≤ ed.len ∧
      ((ed.pipe ecmd (ed.cp b e) = some none ∧ lines ed' = lines ed) ∨
       (∃ out, ed.pipe ecmd (ed.cp b e) = some (some out) ∧
          lines ed' = (lines ed).take b.toNat ++ splitLines out ++ (lines ed).drop e.toNat))) ∧
    (rc = 1 → lines ed' = lines ed) := by
  obtain ⟨h1, h2, h3⟩ := Props.C06c.filter_splice f ed ed' loc.render cmd arg txt rc hloc h
  refine ⟨h1, fun h0 => ?_, h3⟩
  obtain ⟨ecmd, b, e, ed1, k0, k1, k2, k3, k4, k5⟩ := h2 h0
  obtain ⟨c1, m1, _⟩ := region_transfer ed loc hok hx 0 b e ed1 k1
  exact ⟨ecmd, b, e, c1, k0, m1, k2, k3, k4, k5⟩

/-- **a location the reference rejects makes the command return 1, text unchanged** (`a i c` and `pu` let
    `beg = end = 0` through: address `0` on an empty buffer) -/
theorem rejected_ref (f : Nat) (ed : Ed) (hd : String) (loc : Loc) (cmd arg : Bytes) (txt : Option Bytes)
    (b e : Int) (c1 : Cursor) (hok : loc.Ok) (hx : ed.xrow ≠ -1000000)
    (hh : hd ∈ ["ec_insert", "ec_delete", "ec_yank", "ec_put", "ec_print", "ec_lnum", "ec_mark"])
    (href : refOf ed loc = some ((1, b, e), c1)) (hins : hd = "ec_insert" ∨ hd = "ec_put" → ¬ (b = 0 ∧ e = 0)) :
    ∃ ed', runCmd (f + 1) ed hd loc.render cmd arg txt = some (1, ed') ∧ lines ed' = lines ed :=
  Props.C06.invalid_region_rejected f ed (withCursor ed c1) hd loc.render cmd arg txt b e hh
    (exRegion_of_ref ed loc hok hx 1 b e c1 href) hins

/-- `0d` on a non-empty buffer: the reference accepts address `0` as the empty range before line 1, and `:d` then
    "succeeds": no line changes, but the register receives the empty text and the current row becomes 0 -/
theorem zero_delete (f : Nat) (ed : Ed) (lb : Lb) (cmd arg : Bytes) (txt : Option Bytes)
    (hlb : ed.lb = some lb) (hne : 0 < ed.len) :
    ∃ ed', runCmd (f + 1) ed "ec_delete" [48] cmd arg txt = some (0, ed') ∧ lines ed' = lines ed ∧ ed'.xrow = 0 ∧
      ed'.regs = ed.regs.put (regName arg) [] 1 := by
  have hr := Props.C06.region_zero ed
  rw [if_neg (by omega)] at hr
  have hlb3 : ({ ed with regs := ed.regs.put (regName arg) (ed.cp 0 0) 1 } : Ed).lb = some lb := hlb
  obtain ⟨ed4, hed4⟩ := ed_edit_total _ lb none 0 0 hlb3 (by omega) (by omega)
  have hl0 : (ed.len == 0) = false := by simp; omega
  have hrun : runCmd (f + 1) ed "ec_delete" [48] cmd arg txt = some (0, { ed4 with xrow := 0 }) := by
    rw [runCmd]
    simp only [String.reduceBEq, Bool.false_eq_true, ↓reduceIte, Bool.or_false, Bool.or_self, hr]
    simp only [bne_self_eq_false, hl0, Bool.or_self, Bool.false_eq_true, if_false, hed4]
  obtain ⟨_, s2, _⟩ := Props.C06.ec_delete_spec f ed _ [48] cmd arg txt 0 hrun
  obtain ⟨b, e, ed1, k1, _, _, _, k5, k6, k7⟩ := s2 rfl
  rw [hr] at k1
  simp only [Option.some.injEq, Prod.mk.injEq] at k1
  obtain ⟨⟨_, rfl, rfl⟩, _⟩ := k1
  refine ⟨_, hrun, ?_, rfl, ?_⟩
  · rw [k5]; simp
  · rw [k7]; simp

end Neatvi.Lemmas.C06d
