import NeatviVerif.Lemmas.C08gC
/-!
# C08g: `vc_put` (`p`, `P`) is total on a valid state, with its effect: a character-wise register on a row of
valid UTF-8, a line-wise register of well-formed lines
-/
set_option linter.unusedSimpArgs false
set_option linter.unusedVariables false
namespace Neatvi.Lemmas.C08g
open Neatvi Neatvi.Uc Neatvi.Vi Neatvi.Ex Neatvi.Lbuf Neatvi.Mot Neatvi.Spec
open Neatvi.Lemmas.C08 Neatvi.Lemmas.C08b Neatvi.Lemmas.C08f
open Neatvi.Lemmas.C09 (finRec pending)
open Neatvi.Props.C08f

/-- the count of `p` / `P`, `J`, `r`: `MAX(1, vi_arg1)` -/
def cnt1 (s : VS) : Nat := (max 1 s.arg1).toNat

/-- `n` copies of a text -/
def copies {α : Type} (n : Nat) (l : List α) : List α := (List.replicate n l).flatten

theorem copies_succ {α : Type} (n : Nat) (l : List α) : copies (n + 1) l = l ++ copies n l := by
  unfold copies; rw [List.replicate_succ, List.flatten_cons]

theorem copies_length {α : Type} (n : Nat) (l : List α) : (copies n l).length = n * l.length := by
  induction n with
  | zero => simp [copies]
  | succ n ih => rw [copies_succ, List.length_append, ih, Nat.succ_mul]; omega

theorem copies_mem {α : Type} (n : Nat) (l : List α) (x : α) (h : x ∈ copies n l) : x ∈ l := by
  induction n with
  | zero => simp [copies] at h
  | succ n ih =>
    rw [copies_succ] at h
    rcases List.mem_append.mp h with h | h
    · exact h
    · exact ih h

theorem encStr_copies (n : Nat) (bs : List Nat) : copies n (encStr bs) = encStr (copies n bs) := by
  induction n with
  | zero => rfl
  | succ n ih => rw [copies_succ, copies_succ, encStr_append, ih]

theorem putRep_eq (s : VS) (buf : Bytes) : putRep s buf = copies (cnt1 s) buf := rfl

/-! ### a character-wise register -/

/-- `PutChars s s' r body ins p`: the text `ins` was inserted before character `p` of the row `r` (line `body`);
the cursor is on the last inserted character; the registers are untouched -/
structure PutChars (s s' : VS) (r : Int) (body ins : List Nat) (p : Nat) : Prop where
  lines : lines s' = (lines s).take r.toNat ++ [encStr (body.take p ++ ins ++ body.drop p ++ [10])] ++ (lines s).drop (r.toNat + 1)
  regs : s'.ed.regs = s.ed.regs
  xrow : s'.ed.xrow = r
  xoff : s'.ed.xoff = (p : Int) + ins.length - 1

/-- the common part: the put at character `p ≤ |body|` of a row -/
theorem vcPut_chars_at (cmd : Nat) (s : VS) (body bs : List Nat) (p : Nat)
    (hr0 : 0 ≤ s.ed.xrow) (hline : (lines s)[s.ed.xrow.toNat]? = some (encStr (body ++ [10])))
    (hb : ∀ c ∈ body, ValidCp c) (hb10 : 10 ∉ body) (hat : p ≤ body.length)
    (hoff : putOff cmd s = (p : Int))
    (hreg : regGetLn s.ed s.ybuf = (some (encStr bs), some 0)) (hbs : ∀ c ∈ bs, ValidCp c) (hbs10 : 10 ∉ bs)
    (hne : bs ≠ []) :
    ∃ s', vcPut cmd s = Res.ok VC_OK s' ∧ PutChars s s' s.ed.xrow body (copies (cnt1 s) bs) p ∧ s' = { s with ed := s'.ed } := by
  have hrlt : s.ed.xrow.toNat < (lines s).length := (List.getElem?_eq_some_iff.mp hline).1
  have hlen : s.ed.xrow < lenOf s := by show s.ed.xrow < ((lines s).length : Int); omega
  have hlE : lineE s s.ed.xrow = encStr (body ++ [10]) := lineE_eq s _ hr0 _ hline
  have hL : putLine s = encStr (body ++ [10]) := by unfold putLine; rw [if_pos hlen, hlE]
  obtain ⟨lb, hlb⟩ := lb_of_line s _ _ hline
  obtain ⟨e1, e2⟩ := subI_line body hb p hat
  have hbne : (encStr bs).isEmpty = false := by
    cases bs with
    | nil => exact absurd rfl hne
    | cons c t =>
      rw [encStr_cons]
      have := enc_length_pos c
      cases h : enc c with
      | nil => rw [h] at this; simp at this
      | cons x y => rfl
  have hslen : ucSlen (encStr bs) = bs.length := Props.C16.slen_spec hbs
  have hcv : ∀ c ∈ copies (cnt1 s) bs, ValidCp c := fun c hc => hbs c (copies_mem _ _ _ hc)
  have hc10 : 10 ∉ copies (cnt1 s) bs := fun h => hbs10 (copies_mem _ _ _ h)
  obtain ⟨ed', he1, he2, he3⟩ := edEdit_spec s
    (encStr (body.take p ++ copies (cnt1 s) bs ++ (body.drop p ++ [10]))) s.ed.xrow (s.ed.xrow + 1) lb hlb hr0
    (by omega) (by omega)
  have hrun : vcPut cmd s = Res.ok VC_OK
      { s with ed := { ed' with xoff := (p : Int) + (ucSlen (encStr bs) : Int) * ((max 1 s.arg1).toNat : Nat) - 1 } } := by
    unfold vcPut
    simp only [bind_apply, get_apply, hreg, hbne, Bool.false_eq_true, if_false, bne_self_eq_false]
    have hL' : (if s.ed.xrow < lenOf s then lineE s s.ed.xrow else [10]) = putLine s := rfl
    rw [hL']
    have hO : (Ren.renNoeol (putLine s) s.ed.xoff + (if (putLine s).headD 0 != 10 && cmd == 112 then 1 else 0)) =
        putOff cmd s := rfl
    rw [hO, hoff, hL, e1, e2]
    simp only [liftO_some, bind_apply]
    have hR : (List.replicate (max 1 s.arg1).toNat (encStr bs)).flatten = copies (cnt1 s) (encStr bs) := rfl
    rw [hR, encStr_copies, ← encStr_append, ← encStr_append, he1]
    rfl
  refine ⟨_, hrun, ⟨?_, ?_, ?_, ?_⟩, rfl⟩
  · show Lemmas.C06.lines ed' = _
    rw [he2, splitLines_wf _ (wfLine_enc_snoc (by
      intro hm
      rcases List.mem_append.mp hm with hm | hm
      · exact hb10 (List.mem_of_mem_take hm)
      · exact hc10 hm) (fun h => hb10 (List.mem_of_mem_drop h)))]
    rw [show (s.ed.xrow + 1).toNat = s.ed.xrow.toNat + 1 by omega]
    simp only [List.append_assoc]
  · show ed'.regs = s.ed.regs
    rw [he3]
  · show ed'.xrow = s.ed.xrow
    rw [he3]
  · show (p : Int) + (ucSlen (encStr bs) : Int) * ((max 1 s.arg1).toNat : Nat) - 1 = _
    rw [hslen, copies_length]
    unfold cnt1
    rw [Int.mul_comm]
    simp only [Int.natCast_mul]

/-- `putOff` on a character of a row -/
theorem putOff_row (cmd : Nat) (s : VS) (body : List Nat) (o : Nat) (hrow : OnRow s body o) :
    putOff cmd s = (o : Int) + (if cmd = 112 then 1 else 0) := by
  have hrlt : s.ed.xrow.toNat < (lines s).length := (List.getElem?_eq_some_iff.mp hrow.line).1
  have hlen : s.ed.xrow < lenOf s := by show s.ed.xrow < ((lines s).length : Int); have := hrow.row0; omega
  have hlE : lineE s s.ed.xrow = encStr (body ++ [10]) := lineE_eq s _ hrow.row0 _ hrow.line
  have hL : putLine s = encStr (body ++ [10]) := by unfold putLine; rw [if_pos hlen, hlE]
  obtain ⟨c0, t0, rfl⟩ : ∃ c t, body = c :: t := by
    cases body with
    | nil => have := hrow.onChar; simp at this
    | cons c t => exact ⟨c, t, rfl⟩
  have hhd := headD_line_ne_ten c0 t0 hrow.no10
  unfold putOff
  rw [hL, hrow.off, renNoeol_body (c0 :: t0) hrow.valid hrow.no10 o hrow.onChar]
  have : ((encStr (c0 :: t0 ++ [10])).headD 0 != 10) = true := by
    rw [bne_iff_ne]; intro h; rw [h] at hhd; simp at hhd
  rw [this]
  by_cases hc : cmd = 112
  · subst hc; rfl
  · have : (cmd == 112) = false := by simpa using hc
    rw [this, if_neg hc]; rfl

/-- **`p` with a character-wise register**: `max 1 count` copies go in after the cursor character -/
theorem vcPut_chars_p (s : VS) (body bs : List Nat) (o : Nat) (hrow : OnRow s body o)
    (hreg : regGetLn s.ed s.ybuf = (some (encStr bs), some 0)) (hbs : ∀ c ∈ bs, ValidCp c) (hbs10 : 10 ∉ bs)
    (hne : bs ≠ []) :
    ∃ s', vcPut 112 s = Res.ok VC_OK s' ∧ PutChars s s' s.ed.xrow body (copies (cnt1 s) bs) (o + 1) ∧ s' = { s with ed := s'.ed } :=
  vcPut_chars_at 112 s body bs (o + 1) hrow.row0 hrow.line hrow.valid hrow.no10 (by have := hrow.onChar; omega)
    (by rw [putOff_row 112 s body o hrow]; simp) hreg hbs hbs10 hne

/-- **`P` with a character-wise register**: the copies go in before the cursor character -/
theorem vcPut_chars_P (s : VS) (body bs : List Nat) (o : Nat) (hrow : OnRow s body o)
    (hreg : regGetLn s.ed s.ybuf = (some (encStr bs), some 0)) (hbs : ∀ c ∈ bs, ValidCp c) (hbs10 : 10 ∉ bs)
    (hne : bs ≠ []) :
    ∃ s', vcPut 80 s = Res.ok VC_OK s' ∧ PutChars s s' s.ed.xrow body (copies (cnt1 s) bs) o ∧ s' = { s with ed := s'.ed } :=
  vcPut_chars_at 80 s body bs o hrow.row0 hrow.line hrow.valid hrow.no10 (by have := hrow.onChar; omega)
    (by rw [putOff_row 80 s body o hrow]; simp) hreg hbs hbs10 hne

/-- on an empty line `p` and `P` both put the text at its start -/
theorem vcPut_chars_emptyline (cmd : Nat) (s : VS) (bs : List Nat)
    (hr0 : 0 ≤ s.ed.xrow) (hline : (lines s)[s.ed.xrow.toNat]? = some [10]) (hoff0 : 0 ≤ s.ed.xoff)
    (hreg : regGetLn s.ed s.ybuf = (some (encStr bs), some 0)) (hbs : ∀ c ∈ bs, ValidCp c) (hbs10 : 10 ∉ bs)
    (hne : bs ≠ []) :
    ∃ s', vcPut cmd s = Res.ok VC_OK s' ∧ PutChars s s' s.ed.xrow [] (copies (cnt1 s) bs) 0 ∧ s' = { s with ed := s'.ed } := by
  have hrlt : s.ed.xrow.toNat < (lines s).length := (List.getElem?_eq_some_iff.mp hline).1
  have hlen : s.ed.xrow < lenOf s := by show s.ed.xrow < ((lines s).length : Int); omega
  have hlE : lineE s s.ed.xrow = [10] := lineE_eq s _ hr0 _ hline
  have hL : putLine s = [10] := by unfold putLine; rw [if_pos hlen, hlE]
  refine vcPut_chars_at cmd s [] bs 0 hr0 hline (by simp) (by simp) (by simp) ?_ hreg hbs hbs10 hne
  unfold putOff
  rw [hL]
  have h1 : Ren.renNoeol [10] s.ed.xoff = 0 := by
    unfold Ren.renNoeol
    have hn : ucSlen [10] = 1 := by decide
    simp only [hn]
    by_cases h : s.ed.xoff ≥ 1
    · simp [h]
    · have : s.ed.xoff = 0 := by omega
      rw [this]; decide
  rw [h1]
  rfl

/-! ### a line-wise register -/

theorem copies_flatten {α : Type} (n : Nat) (rows : List (List α)) : copies n rows.flatten = (copies n rows).flatten := by
  induction n with
  | zero => rfl
  | succ n ih => rw [copies_succ, copies_succ, List.flatten_append, ih]

/-- `PutLines s s' r new`: the lines `new` were inserted before the row `r` of `s`; the cursor is on the first
non-blank of the first of them; the registers are untouched -/
structure PutLines (s s' : VS) (r : Int) (new : List Bytes) : Prop where
  lines : lines s' = (lines s).take r.toNat ++ new ++ (lines s).drop r.toNat
  regs : s'.ed.regs = s.ed.regs
  xrow : s'.ed.xrow = r
  xoff : s'.ed.xoff = Mot.indents (Vi.lines s') r

/-- the register is not empty -/
theorem flatten_rows_ne (rows : List Bytes) (hrows : ∀ l ∈ rows, Props.C01.WfLine l) (hne : rows ≠ []) :
    rows.flatten.isEmpty = false := by
  cases rows with
  | nil => exact absurd rfl hne
  | cons l t =>
    obtain ⟨w, rfl, -⟩ := hrows l (by simp)
    cases w <;> rfl

/-- the common part of the line-wise put: the copies go in before row `r` -/
theorem putLines_edit (s : VS) (rows : List Bytes) (r : Int) (n : Nat) (lb : Lb) (hlb : s.ed.lb = some lb)
    (hrows : ∀ l ∈ rows, Props.C01.WfLine l) (hr0 : 0 ≤ r) (hr1 : r ≤ lenOf s) :
    ∃ ed', edEdit (some (copies n rows.flatten)) r r s = Res.ok () { s with ed := ed' } ∧
      Lemmas.C06.lines ed' = (lines s).take r.toNat ++ copies n rows ++ (lines s).drop r.toNat ∧
      ed' = { s.ed with bufs := ed'.bufs } := by
  obtain ⟨ed', he1, he2, he3⟩ := edEdit_spec s (copies n rows.flatten) r r lb hlb hr0 (by omega) hr1
  refine ⟨ed', he1, ?_, he3⟩
  rw [he2, copies_flatten, Props.C01.split_of_join _ (fun l hl => hrows l (copies_mem _ _ _ hl))]

/-- **`P` with a line-wise register** holding the lines `rows`: `max 1 count` copies of them are inserted
before the cursor row; the cursor stays on that row number, on the first non-blank -/
theorem vcPut_lines_P (s : VS) (rows : List Bytes) (lnm : Nat) (lb : Lb) (hlb : s.ed.lb = some lb)
    (hreg : regGetLn s.ed s.ybuf = (some rows.flatten, some lnm)) (hl : lnm ≠ 0)
    (hrows : ∀ l ∈ rows, Props.C01.WfLine l) (hne : rows ≠ [])
    (hlen : lenOf s ≠ 0) (h0 : 0 ≤ s.ed.xrow) (h1 : s.ed.xrow ≤ lenOf s) :
    ∃ s', vcPut 80 s = Res.ok VC_OK s' ∧ PutLines s s' s.ed.xrow (copies (cnt1 s) rows) ∧ s' = { s with ed := s'.ed } := by
  obtain ⟨ed', he1, he2, he3⟩ := putLines_edit s rows s.ed.xrow (cnt1 s) lb hlb hrows h0 h1
  have e1 := flatten_rows_ne rows hrows hne
  have e2 : (lnm != 0) = true := by simpa using hl
  have e3 : (lenOf s == 0) = false := by simpa using hlen
  have hx : ed'.xrow = s.ed.xrow := by rw [he3]
  have hrun : vcPut 80 s = Res.ok VC_OK { s with ed := { ed' with xoff := Mot.indents (Lemmas.C06.lines ed') ed'.xrow } } := by
    unfold vcPut
    simp only [bind_apply, get_apply, hreg, e1, e2, e3, Bool.false_eq_true, if_false, if_true,
      show ((80 : Nat) == 112) = false by decide, pure_apply]
    have hR : (List.replicate (max 1 s.arg1).toNat rows.flatten).flatten = copies (cnt1 s) rows.flatten := rfl
    rw [hR, he1]
    rfl
  refine ⟨_, hrun, ⟨he2, ?_, hx, ?_⟩, rfl⟩
  · show ed'.regs = s.ed.regs
    rw [he3]
  · show Mot.indents (Lemmas.C06.lines ed') ed'.xrow = Mot.indents (Lemmas.C06.lines ed') s.ed.xrow
    rw [hx]

/-- **`p` with a line-wise register**: the copies are inserted after the cursor row, the cursor moves onto the
first of them -/
theorem vcPut_lines_p (s : VS) (rows : List Bytes) (lnm : Nat) (lb : Lb) (hlb : s.ed.lb = some lb)
    (hreg : regGetLn s.ed s.ybuf = (some rows.flatten, some lnm)) (hl : lnm ≠ 0)
    (hrows : ∀ l ∈ rows, Props.C01.WfLine l) (hne : rows ≠ [])
    (h0 : 0 ≤ s.ed.xrow) (h1 : s.ed.xrow < lenOf s) :
    ∃ s', vcPut 112 s = Res.ok VC_OK s' ∧ PutLines s s' (s.ed.xrow + 1) (copies (cnt1 s) rows) ∧ s' = { s with ed := s'.ed } := by
  obtain ⟨ed', he1, he2, he3⟩ := putLines_edit { s with ed := { s.ed with xrow := s.ed.xrow + 1 } } rows (s.ed.xrow + 1)
    (cnt1 s) lb hlb hrows (by omega) (by show s.ed.xrow + 1 ≤ lenOf s; omega)
  have e1 := flatten_rows_ne rows hrows hne
  have e2 : (lnm != 0) = true := by simpa using hl
  have e3 : (lenOf s == 0) = false := by simp; omega
  have hx : ed'.xrow = s.ed.xrow + 1 := by rw [he3]
  have hrun : vcPut 112 s = Res.ok VC_OK { s with ed := { ed' with xoff := Mot.indents (Lemmas.C06.lines ed') ed'.xrow } } := by
    unfold vcPut
    simp only [bind_apply, get_apply, hreg, e1, e2, e3, Bool.false_eq_true, if_false, if_true,
      show ((112 : Nat) == 112) = true by decide, pure_apply, setRow_apply]
    have hR : (List.replicate (max 1 s.arg1).toNat rows.flatten).flatten = copies (cnt1 s) rows.flatten := rfl
    rw [hR, he1]
    rfl
  refine ⟨_, hrun, ⟨he2, ?_, hx, ?_⟩, rfl⟩
  · show ed'.regs = s.ed.regs
    rw [he3]
  · show Mot.indents (Lemmas.C06.lines ed') ed'.xrow = Mot.indents (Lemmas.C06.lines ed') (s.ed.xrow + 1)
    rw [hx]

/-- an empty (or unset) register: `p` / `P` do nothing and report failure -/
theorem vcPut_empty (cmd : Nat) (s : VS) (h : (regGetLn s.ed s.ybuf).1 = none ∨ (regGetLn s.ed s.ybuf).1 = some []) :
    vcPut cmd s = Res.ok 0 s := by
  unfold vcPut
  simp only [bind_apply, get_apply]
  rcases h with h | h
  · cases hr : regGetLn s.ed s.ybuf with
    | mk a b => rw [hr] at h; simp only [] at h; subst h; rfl
  · cases hr : regGetLn s.ed s.ybuf with
    | mk a b => rw [hr] at h; simp only [] at h; subst h; rfl


end Neatvi.Lemmas.C08g
