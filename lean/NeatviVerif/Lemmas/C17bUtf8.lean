import NeatviVerif.Lemmas.C17bTiling
import NeatviVerif.Props.C17
/-! Helper lemmas for C17b: on a valid UTF-8 line the characters `chrs`, their first bytes
`chrHd`, and the strictly increasing left-to-right table `renPositionFast`. -/
namespace Neatvi.Lemmas.C17b
open Neatvi Neatvi.Uc Neatvi.Spec Neatvi.Ren Neatvi.Props

theorem drop_byteOff (cs : List Nat) (k : Nat) : (encStr cs).drop (byteOff cs k) = encStr (cs.drop k) := by
  have e : encStr cs = encStr (cs.take k) ++ encStr (cs.drop k) := by
    rw [← encStr_append, List.take_append_drop]
  unfold byteOff
  rw [e, List.drop_left]

theorem encStr_drop (cs : List Nat) (k : Nat) (hk : k < cs.length) :
    encStr (cs.drop k) = enc (cs.getD k 0) ++ encStr (cs.drop (k + 1)) := by
  rw [List.drop_eq_getElem_cons hk, encStr_cons]
  congr 2
  rw [List.getD_eq_getElem?_getD, List.getElem?_eq_getElem hk]; rfl

theorem hd_enc_eq_10 {c : Nat} (h : ValidCp c) (r : Bytes) : Bytes.hd (enc c ++ r) = 10 ↔ c = 10 := by
  obtain ⟨h0, h1⟩ := h
  unfold enc
  split
  · simp
  split
  · simp only [List.cons_append, Bytes.hd_cons]; omega
  split
  · simp only [List.cons_append, Bytes.hd_cons]; omega
  · simp only [List.cons_append, Bytes.hd_cons]; omega

/-- the first byte of character `k` of an encoded line is the newline byte iff the code point is -/
theorem chrHd_enc_eq_10 {cs : List Nat} (h : ∀ c ∈ cs, ValidCp c) (k : Nat) (hk : k < cs.length) :
    chrHd (encStr cs) k = 10 ↔ cs.getD k 0 = 10 := by
  unfold chrHd
  rw [C16.chr_spec h k, if_pos (by omega)]
  simp only []
  rw [drop_byteOff, encStr_drop cs k hk]
  apply hd_enc_eq_10
  apply h
  rw [List.getD_eq_getElem?_getD, List.getElem?_eq_getElem hk]
  exact List.getElem_mem _

/-- the characters of an encoded line -/
theorem chrs_enc {cs : List Nat} (h : ∀ c ∈ cs, ValidCp c) :
    chrs (encStr cs) = (List.range cs.length).map (fun k => enc (cs.getD k 0) ++ encStr (cs.drop (k + 1))) := by
  unfold chrs
  rw [C16.chop_spec h, List.range_succ, List.map_append]
  simp only [List.map_cons, List.map_nil, List.dropLast_concat, List.map_map]
  apply List.map_congr_left
  intro k hk
  have hk' : k < cs.length := by simpa using hk
  simp only [Function.comp]
  rw [drop_byteOff, encStr_drop cs k hk']

theorem chrs_enc_length {cs : List Nat} (h : ∀ c ∈ cs, ValidCp c) : (chrs (encStr cs)).length = cs.length := by
  rw [chrs_enc h]; simp

theorem chrs_enc_getD {cs : List Nat} (h : ∀ c ∈ cs, ValidCp c) (k : Nat) (hk : k < cs.length) :
    (chrs (encStr cs)).getD k [] = enc (cs.getD k 0) ++ encStr (cs.drop (k + 1)) := by
  rw [chrs_enc h, List.getD_eq_getElem?_getD, List.getElem?_map, List.getElem?_range hk]
  rfl

/-! ### the left-to-right layout -/

/-- the table has `n + 1` entries and is strictly increasing, the end entry included -/
def StrictInc (pos : List Nat) (n : Nat) : Prop :=
  pos.length = n + 1 ∧ ∀ i j, i < j → j ≤ n → pos.getD i 0 < pos.getD j 0

theorem layout_ge (cs : List Bytes) (col : Nat) :
    (∀ k, k < cs.length → col ≤ (layout cs col).getD k 0) ∧ col ≤ layoutEnd cs col := by
  induction cs generalizing col with
  | nil => simp [layoutEnd]
  | cons c r ih =>
    obtain ⟨a, b⟩ := ih (col + renCwid c col)
    constructor
    · intro k hk
      cases k with
      | zero => simp [layout]
      | succ k =>
        simp only [layout, List.getD_cons_succ]
        have := a k (by simpa using hk); omega
    · simp only [layoutEnd]; omega

/-- the fast table as one list: columns then the end -/
theorem fastTable_strict (cs : List Bytes) (hw : ∀ c, c ∈ cs → ∀ col, 1 ≤ renCwid c col) (col : Nat) :
    ∀ i j, i < j → j ≤ cs.length →
      (layout cs col ++ [layoutEnd cs col]).getD i 0 < (layout cs col ++ [layoutEnd cs col]).getD j 0 := by
  induction cs generalizing col with
  | nil => intro i j hij hj; simp at hj; omega
  | cons c r ih =>
    intro i j hij hj
    have hc := hw c (by simp) col
    have hwr : ∀ d, d ∈ r → ∀ col, 1 ≤ renCwid d col := fun d hd => hw d (by simp [hd])
    simp only [layout, layoutEnd, List.cons_append]
    cases j with
    | zero => omega
    | succ j =>
      simp only [List.length_cons] at hj
      cases i with
      | zero =>
        simp only [List.getD_cons_zero, List.getD_cons_succ]
        obtain ⟨a, b⟩ := layout_ge r (col + renCwid c col)
        by_cases hjr : j < r.length
        · have := a j hjr
          rw [List.getD_eq_getElem?_getD, List.getElem?_append_left (by rw [layout_length]; exact hjr),
            ← List.getD_eq_getElem?_getD]
          omega
        · have hj' : j = r.length := by omega
          rw [List.getD_eq_getElem?_getD, List.getElem?_append_right (by rw [layout_length]; omega)]
          simp [layout_length, hj']
          omega
      | succ i =>
        simp only [List.getD_cons_succ]
        exact ih hwr _ i j (by omega) (by omega)

end Neatvi.Lemmas.C17b
