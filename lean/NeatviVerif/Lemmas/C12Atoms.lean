import NeatviVerif.Lemmas.C12Exec
/-!
# C12 lemmas, part 7: the atoms of a literal pattern on a newline-terminated line
-/
namespace Neatvi.C12
open Neatvi Neatvi.Uc Neatvi.Regex Neatvi.Rset

/-! ### `match_case` -/

theorem matchCase_cons (a b : Nat) (s r : Bytes) (ic : Bool) :
    matchCase (a :: s) (b :: r) ic =
      if (if ic then lowerB a != lowerB b else a != b) then false else matchCase s r ic := by
  rw [matchCase]

theorem matchCase_nil_left (b : Nat) (r : Bytes) (ic : Bool) : matchCase [] (b :: r) ic = false := by
  rw [matchCase]

theorem matchCase_nil (s : Bytes) (ic : Bool) : matchCase s [] ic = true := by
  cases s <;> rw [matchCase]

/-- without ICASE, `match_case` is "the literal is a prefix" (what the engine's `strncmp` tests) -/
theorem matchCase_false_iff : ∀ (s r : Bytes), matchCase s r false = true ↔ s.take r.length = r := by
  intro s r
  induction r generalizing s with
  | nil => simp [matchCase_nil]
  | cons b r ih =>
    cases s with
    | nil => simp [matchCase_nil_left]
    | cons a s =>
      rw [matchCase_cons]
      by_cases hab : a = b
      · subst hab; simp [ih]
      · simp [hab]

theorem matchCase_cons_iff (a b : Nat) (s r : Bytes) (ic : Bool) :
    matchCase (a :: s) (b :: r) ic = true ↔
      (if ic then lowerB a = lowerB b else a = b) ∧ matchCase s r ic = true := by
  rw [matchCase_cons]
  cases ic
  · by_cases h : a = b <;> simp [h]
  · by_cases h : lowerB a = lowerB b <;> simp [h]

theorem matchCase_length {ic : Bool} : ∀ (s r : Bytes), matchCase s r ic = true → r.length ≤ s.length := by
  intro s r
  induction r generalizing s with
  | nil => intro _; simp
  | cons b r ih =>
    cases s with
    | nil => simp [matchCase_nil_left]
    | cons a s =>
      rw [matchCase_cons_iff]
      intro h; have := ih s h.2; simp; omega

theorem lowerB_eq_nl {x : Nat} (h : lowerB 10 = lowerB x) : x = 10 := by
  unfold lowerB isUpperB at h
  simp at h
  split at h <;> omega

theorem matchCase_no_nl {ic : Bool} : ∀ (s r : Bytes), matchCase s r ic = true → ¬ 10 ∈ r →
    ∀ i, i < r.length → s.getD i 0 ≠ 10 := by
  intro s r
  induction r generalizing s with
  | nil => intro _ _ i hi; simp at hi
  | cons b r ih =>
    cases s with
    | nil => simp [matchCase_nil_left]
    | cons a s =>
      rw [matchCase_cons_iff]
      intro h hnl i hi
      cases i with
      | zero =>
        rw [List.getD_cons_zero]
        intro ha
        subst ha
        apply hnl
        have h1 := h.1
        cases ic
        · simp only [Bool.false_eq_true, if_false] at h1; simp [h1]
        · simp only [if_true] at h1; simp [lowerB_eq_nl h1]
      | succ i =>
        rw [List.getD_cons_succ]
        exact ih s h.2 (fun hm => hnl (by simp [hm])) i (by simp at hi; omega)

theorem getD_drop (s : Bytes) (r i : Nat) : (s.drop r).getD i 0 = s.getD (r + i) 0 := by
  simp [List.getD_eq_getElem?_getD, List.getElem?_drop]

theorem getD_body {body : Bytes} {j : Nat} (h : j < body.length) :
    (body ++ [10]).getD j 0 ∈ body := by
  rw [getD_append_left h]; exact getD_mem h

theorem getD_nl (body : Bytes) : (body ++ [10]).getD body.length 0 = 10 := by
  rw [getD_append_at]; rfl

/-- a literal without a newline matches strictly inside the body of a newline-terminated line -/
theorem match_bound {body lit : Bytes} {ic : Bool} {r : Nat} (hne : lit ≠ []) (hnl : ¬ 10 ∈ lit)
    (h : matchCase ((body ++ [10]).drop r) lit ic = true) : r + lit.length ≤ body.length := by
  have h1 := matchCase_length _ _ h
  have hpos : 0 < lit.length := by cases lit <;> simp_all
  simp only [List.length_drop, List.length_append, List.length_cons, List.length_nil] at h1
  by_cases h2 : r + lit.length ≤ body.length
  · exact h2
  · exfalso
    have h3 : r + lit.length = body.length + 1 := by omega
    have := matchCase_no_nl _ _ h hnl (lit.length - 1) (by omega)
    rw [getD_drop, show r + (lit.length - 1) = body.length by omega, getD_nl] at this
    exact this rfl

/-! ### the five kinds of atoms at a position `r ≤ |s|` -/

theorem atomMatch_beg {s : Bytes} {flg r : Nat} (hr : r ≤ s.length) (hnl : hasFlag flg REG_NEWLINE = true) :
    atomMatch ⟨AK.beg, []⟩ s flg r =
      if (r = 0 ∧ hasFlag flg REG_NOTBOL = false) ∨ (r ≠ 0 ∧ s.getD (r - 1) 0 = 10 ∧ s.getD r 0 ≠ 0)
      then AR.ok r else AR.fail := by
  simp only [atomMatch, rdb_le hr, hnl]
  generalize s.getD (r - 1) 0 = p
  generalize s.getD r 0 = c
  by_cases h0 : r = 0
  · subst h0; cases hasFlag flg REG_NOTBOL <;> simp
  · by_cases h1 : p = 10 <;> by_cases h2 : c = 0 <;> simp [h0, h1, h2]

theorem atomMatch_end {s : Bytes} {flg r : Nat} (hr : r ≤ s.length) (hnl : hasFlag flg REG_NEWLINE = true) :
    atomMatch ⟨AK.end_, []⟩ s flg r =
      if (s.getD r 0 = 0 ∧ hasFlag flg REG_NOTEOL = false) ∨ s.getD r 0 = 10 then AR.ok r else AR.fail := by
  simp only [atomMatch, rdb_le hr, hnl]
  generalize s.getD r 0 = c
  by_cases h0 : c = 0
  · cases hasFlag flg REG_NOTEOL <;> simp [h0]
  · by_cases h1 : c = 10 <;> simp [h0, h1]

theorem atomMatch_wbeg {s : Bytes} {flg r : Nat} (hr : r ≤ s.length) :
    atomMatch ⟨AK.wbeg, []⟩ s flg r =
      if (r = 0 ∨ isWordB (prevLead s r) = false) ∧ isWordB (s.getD r 0) = true then AR.ok r else AR.fail := by
  simp only [atomMatch, rdb_le hr]
  generalize s.getD r 0 = c
  by_cases h0 : r = 0 <;> cases isWordB (prevLead s r) <;> cases isWordB c <;> simp [h0]

theorem atomMatch_wend {s : Bytes} {flg r : Nat} (hr : r ≤ s.length) :
    atomMatch ⟨AK.wend, []⟩ s flg r =
      if r ≠ 0 ∧ isWordB (prevLead s r) = true ∧ (s.getD r 0 = 0 ∨ isWordB (s.getD r 0) = false)
      then AR.ok r else AR.fail := by
  simp only [atomMatch, rdb_le hr]
  generalize s.getD r 0 = c
  by_cases h0 : r = 0 <;> by_cases h1 : c = 0 <;>
    cases isWordB (prevLead s r) <;> cases isWordB c <;> simp [h0, h1]

theorem atomMatch_chr_nocase {s lit : Bytes} {flg r : Nat} (hr : r ≤ s.length)
    (hic : hasFlag flg REG_ICASE = false) :
    atomMatch ⟨AK.chr, lit⟩ s flg r =
      if matchCase (s.drop r) lit false = true then AR.ok (r + lit.length) else AR.fail := by
  simp only [atomMatch, rdb_le hr, hic, Bool.not_false, if_true]
  by_cases h : matchCase (s.drop r) lit false = true
  · rw [if_pos h]
    have := (matchCase_false_iff _ _).mp h
    simp [this]
  · rw [if_neg h]
    have : ¬ (s.drop r).take lit.length = lit := fun h' => h ((matchCase_false_iff _ _).mpr h')
    simp [this]

theorem atomMatch_chr_icase {s lit : Bytes} {flg r : Nat} (hr : r ≤ s.length)
    (hic : hasFlag flg REG_ICASE = true) :
    atomMatch ⟨AK.chr, lit⟩ s flg r = chrIcase lit s (lit.length + 2) 0 r := by
  simp only [atomMatch, rdb_le hr, hic, Bool.not_true, Bool.false_eq_true, if_false]

end Neatvi.C12
