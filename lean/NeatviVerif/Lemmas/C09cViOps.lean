import NeatviVerif.Lemmas.C09cViCmd
/-!
# C09c, part 9: the commands of vi.c on related states (operators, insert mode, put, join, replace, scrolling, `:`)
-/
namespace Neatvi.Lemmas.C09c
open Neatvi Neatvi.Uc Neatvi.Lbuf Neatvi.Ex Neatvi.Vi Neatvi.Mot

theorem rel2_markSave {w : Bool} {E : Unit → Unit → Prop} : Rel2 w E markSave markSave := by
  unfold markSave
  rel_tac
macro_rules | `(tactic| rel_step) => `(tactic| with_reducible exact rel2_markSave)

theorem rel2_drawfixTop {w : Bool} {E : Unit → Unit → Prop} (r : Int) (p : Bool) : Rel2 w E (drawfixTop r p) (drawfixTop r p) := by
  unfold drawfixTop
  rel_tac
macro_rules | `(tactic| rel_step) => `(tactic| with_reducible exact rel2_drawfixTop _ _)

theorem nextlineR_rel {w : Bool} (n : Int) {a b : Ed} (h : EdRel w a b) :
    EdRel w (if a.xrow == a.xtop + n - 1 then { a with xrow := a.xrow + 1, xtop := a.xtop + 1 } else { a with xrow := a.xrow + 1 })
      (if b.xrow == b.xtop + n - 1 then { b with xrow := b.xrow + 1, xtop := b.xtop + 1 } else { b with xrow := b.xrow + 1 }) := by
  rw [h.xrow, h.xtop]
  split
  · exact { h with xrow := rfl, xtop := rfl }
  · exact { h with xrow := rfl, xtop := rfl }

theorem rel2_viNextlineR {w : Bool} {E : Unit → Unit → Prop} : Rel2 w E viNextlineR viNextlineR := by
  unfold viNextlineR
  refine rel2_get_bind ?_
  intro s t h
  sim_reads h
  exact rel2_withEd fun a b hab => nextlineR_rel _ hab
macro_rules | `(tactic| rel_step) => `(tactic| with_reducible exact rel2_viNextlineR)

theorem rel2_ledInput_loop {w : Bool} {E : Bytes × Bytes → Bytes × Bytes → Prop} (xai : Bool) (f : Nat) (sb : Bytes)
    (pref : Option Bytes) (post ai : Bytes) :
    Rel2 w E (ledInput.loop xai f sb pref post ai) (ledInput.loop xai f sb pref post ai) := by
  induction f generalizing sb pref post ai with
  | zero => unfold ledInput.loop; rel_tac
  | succ f ih =>
    unfold ledInput.loop
    repeat' (first | exact ih _ _ _ _ | rel_step)

theorem rel2_ledInput {w : Bool} {E : Bytes × Bytes → Bytes × Bytes → Prop} (pref post : Bytes) :
    Rel2 w E (ledInput pref post) (ledInput pref post) := by
  unfold ledInput
  repeat' (first | exact rel2_ledInput_loop _ _ _ _ _ _ | rel_step)
macro_rules | `(tactic| rel_step) => `(tactic| with_reducible exact rel2_ledInput _ _)

theorem rel2_viInput {w : Bool} {E : Bytes × Int × Int → Bytes × Int × Int → Prop} (pref post : Bytes) :
    Rel2 w E (viInput pref post) (viInput pref post) := by
  unfold viInput
  rel_tac
macro_rules | `(tactic| rel_step) => `(tactic| with_reducible exact rel2_viInput _ _)

theorem rel2_viYank {w : Bool} {E : Nat → Nat → Prop} (r1 o1 r2 o2 : Int) (ln : Bool) :
    Rel2 w E (viYank r1 o1 r2 o2 ln) (viYank r1 o1 r2 o2 ln) := by
  unfold viYank
  rel_tac
macro_rules | `(tactic| rel_step) => `(tactic| with_reducible exact rel2_viYank _ _ _ _ _)

theorem rel2_viDelete {E : Nat → Nat → Prop} (r1 o1 r2 o2 : Int) (ln : Bool) :
    Rel2 false E (viDelete r1 o1 r2 o2 ln) (viDelete r1 o1 r2 o2 ln) := by
  unfold viDelete
  rel_tac
macro_rules | `(tactic| rel_step) => `(tactic| with_reducible exact rel2_viDelete _ _ _ _ _)

theorem rel2_viChange {E : Nat → Nat → Prop} (r1 o1 r2 o2 : Int) (ln : Bool) :
    Rel2 false E (viChange r1 o1 r2 o2 ln) (viChange r1 o1 r2 o2 ln) := by
  unfold viChange
  rel_tac
macro_rules | `(tactic| rel_step) => `(tactic| with_reducible exact rel2_viChange _ _ _ _ _)

theorem rel2_viCase {E : Nat → Nat → Prop} (r1 o1 r2 o2 : Int) (ln : Bool) (cmd : Nat) :
    Rel2 false E (viCase r1 o1 r2 o2 ln cmd) (viCase r1 o1 r2 o2 ln cmd) := by
  unfold viCase
  rel_tac
macro_rules | `(tactic| rel_step) => `(tactic| with_reducible exact rel2_viCase _ _ _ _ _ _)

theorem rel2_viShift_go {E : Unit → Unit → Prop} (r2 dir : Int) (f : Nat) (i : Int) :
    Rel2 false E (viShift.go r2 dir f i) (viShift.go r2 dir f i) := by
  induction f generalizing i with
  | zero => unfold viShift.go; rel_tac
  | succ f ih =>
    unfold viShift.go
    repeat' (first | exact ih _ | rel_step)

theorem rel2_viShift {E : Nat → Nat → Prop} (r1 r2 dir : Int) : Rel2 false E (viShift r1 r2 dir) (viShift r1 r2 dir) := by
  unfold viShift
  repeat' (first | exact rel2_viShift_go _ _ _ _ | rel_step)
macro_rules | `(tactic| rel_step) => `(tactic| with_reducible exact rel2_viShift _ _ _)

theorem rel2_vcMotion {E : Nat → Nat → Prop} (cmd : Nat) : Rel2 false E (vcMotion cmd) (vcMotion cmd) := by
  unfold vcMotion
  rel_tac
macro_rules | `(tactic| rel_step) => `(tactic| with_reducible exact rel2_vcMotion _)

theorem rel2_vcInsert {E : Nat → Nat → Prop} (cmd : Nat) : Rel2 false E (vcInsert cmd) (vcInsert cmd) := by
  unfold vcInsert
  rel_tac
macro_rules | `(tactic| rel_step) => `(tactic| with_reducible exact rel2_vcInsert _)

theorem rel2_vcPut {E : Nat → Nat → Prop} (cmd : Nat) : Rel2 false E (vcPut cmd) (vcPut cmd) := by
  unfold vcPut
  rel_tac
macro_rules | `(tactic| rel_step) => `(tactic| with_reducible exact rel2_vcPut _)

theorem rel2_vcJoin {E : Nat → Nat → Prop} : Rel2 false E vcJoin vcJoin := by
  unfold vcJoin
  rel_tac
macro_rules | `(tactic| rel_step) => `(tactic| with_reducible exact rel2_vcJoin)

theorem rel2_vcReplace {E : Nat → Nat → Prop} : Rel2 false E vcReplace vcReplace := by
  unfold vcReplace
  rel_tac
macro_rules | `(tactic| rel_step) => `(tactic| with_reducible exact rel2_vcReplace)

theorem rel2_scrollForward {w : Bool} {E : Bool → Bool → Prop} (cnt : Int) : Rel2 w E (scrollForward cnt) (scrollForward cnt) := by
  unfold scrollForward
  rel_tac
macro_rules | `(tactic| rel_step) => `(tactic| with_reducible exact rel2_scrollForward _)

theorem rel2_scrollBackward {w : Bool} {E : Bool → Bool → Prop} (cnt : Int) : Rel2 w E (scrollBackward cnt) (scrollBackward cnt) := by
  unfold scrollBackward
  rel_tac
macro_rules | `(tactic| rel_step) => `(tactic| with_reducible exact rel2_scrollBackward _)

theorem rel2_viWfix {w : Bool} {E : Unit → Unit → Prop} : Rel2 w E viWfix viWfix := by
  unfold viWfix
  rel_tac
macro_rules | `(tactic| rel_step) => `(tactic| with_reducible exact rel2_viWfix)

theorem rel2_viWait {w : Bool} {E : Unit → Unit → Prop} : Rel2 w E viWait viWait := by
  unfold viWait
  rel_tac
macro_rules | `(tactic| rel_step) => `(tactic| with_reducible exact rel2_viWait)

theorem rel2_vcRepeat {w : Bool} {E : Unit → Unit → Prop} : Rel2 w E vcRepeat vcRepeat := by
  unfold vcRepeat
  rel_tac
macro_rules | `(tactic| rel_step) => `(tactic| with_reducible exact rel2_vcRepeat)

theorem rel2_vcExecute {w : Bool} {E : Unit → Unit → Prop} : Rel2 w E vcExecute vcExecute := by
  unfold vcExecute
  rel_tac
macro_rules | `(tactic| rel_step) => `(tactic| with_reducible exact rel2_vcExecute)

end Neatvi.Lemmas.C09c
