import NeatviVerif.Props.C18
/-!
# C18b helpers: slice reversal as a total function and its position-wise description
-/
namespace Neatvi.Props.C18b
open Neatvi Neatvi.Dir Neatvi.Props.C18

/-- total version of `dirReverse` (the value it returns whenever it does not trap) -/
def revSlice (ord : List Nat) (b e : Nat) : List Nat :=
  if b < e then ord.take b ++ ((ord.drop b).take (e - b)).reverse ++ ord.drop e else ord

/-- position `p` mirrored inside `[b, e)`; positions outside stay -/
def mirror (b e p : Nat) : Nat := if b ≤ p ∧ p < e then b + e - 1 - p else p

theorem mirror_in {b e p : Nat} (h1 : b ≤ p) (h2 : p < e) : mirror b e p = b + e - 1 - p := by
  unfold mirror; rw [if_pos ⟨h1, h2⟩]

theorem mirror_out {b e p : Nat} (h : ¬ (b ≤ p ∧ p < e)) : mirror b e p = p := by
  unfold mirror; rw [if_neg h]

theorem mirror_range {b e p : Nat} (h1 : b ≤ p) (h2 : p < e) : b ≤ mirror b e p ∧ mirror b e p < e := by
  rw [mirror_in h1 h2]; omega

theorem mirror_mirror (b e p : Nat) : mirror b e (mirror b e p) = p := by
  unfold mirror
  by_cases h : b ≤ p ∧ p < e
  · rw [if_pos h, if_pos (by omega)]; omega
  · rw [if_neg h, if_neg h]

theorem dirReverse_eq {ord : List Nat} {b e : Nat} (h : e ≤ ord.length ∨ e ≤ b) :
    dirReverse ord b e = some (revSlice ord b e) := by
  unfold dirReverse revSlice
  by_cases hbe : b < e
  · rw [if_pos hbe, if_pos hbe, if_pos (by omega)]
  · rw [if_neg hbe, if_neg hbe]

theorem revSlice_length {ord : List Nat} {b e : Nat} (h : e ≤ ord.length) :
    (revSlice ord b e).length = ord.length := by
  unfold revSlice
  split
  · simp; omega
  · rfl

theorem revSlice_getElem? {ord : List Nat} {b e : Nat} (h : e ≤ ord.length) (p : Nat) :
    (revSlice ord b e)[p]? = ord[mirror b e p]? := by
  unfold revSlice
  by_cases hbe : b < e
  · rw [if_pos hbe]
    by_cases h1 : p < b
    · rw [mirror_out (by omega), List.append_assoc, List.getElem?_append_left (by simp; omega)]
      rw [List.getElem?_take_of_lt h1]
    · by_cases h2 : p < e
      · rw [mirror_in (by omega) h2]
        rw [List.getElem?_append_left (by simp; omega),
          List.getElem?_append_right (by simp; omega)]
        simp only [List.length_take]
        rw [List.getElem?_reverse (by simp; omega)]
        simp only [List.length_take, List.length_drop]
        rw [List.getElem?_take_of_lt (by omega), List.getElem?_drop]
        congr 1; omega
      · rw [mirror_out (by omega), List.getElem?_append_right (by simp; omega)]
        rw [List.getElem?_drop]
        congr 1; simp; omega
  · rw [if_neg hbe, mirror_out (by omega)]

end Neatvi.Props.C18b
