import NeatviVerif.Lemmas.C19Screen
/-!
# C19, pointwise description of `vi_drawagain` and `vi_drawupdate`
-/
namespace Neatvi.Lemmas.C19
open Neatvi Neatvi.Mot Neatvi.Screen

/-! ### `drawAgain` -/

theorem mem_againRows (xtop row x : Int) (m : Nat) :
    x ∈ ((List.range m).map (fun (k : Nat) => xtop + (k : Int))).filter (fun i => row < 0 || i == row) ↔
      xtop ≤ x ∧ x < xtop + (m : Int) ∧ (row < 0 ∨ x = row) := by
  rw [List.mem_filter, mem_rangeMap]
  simp only [Bool.or_eq_true, decide_eq_true_eq, beq_iff_eq]
  constructor
  · intro ⟨⟨h1, h2⟩, h3⟩; exact ⟨h1, h2, h3⟩
  · intro ⟨h1, h2, h3⟩; exact ⟨⟨h1, h2⟩, h3⟩

theorem drawAgain_length (s : Scr) (ls : Lines) (xtop xleft row : Int) :
    (drawAgain s ls xtop xleft row).length = s.length := by
  unfold drawAgain; rw [drawRows_length]

theorem drawAgain_getElem? (s : Scr) (ls : Lines) (xtop xleft row : Int) (j : Nat) :
    (drawAgain s ls xtop xleft row)[j]? =
      if j < s.length ∧ (row < 0 ∨ xtop + (j : Int) = row) then some (some (img ls xleft (xtop + (j : Int))))
      else s[j]? := by
  unfold drawAgain
  rw [drawRows_getElem?]
  by_cases h : j < s.length ∧ (row < 0 ∨ xtop + (j : Int) = row)
  · rw [if_pos h, if_pos ⟨h.1, (mem_againRows ..).mpr ⟨by omega, by omega, h.2⟩⟩]
  · rw [if_neg h, if_neg]
    intro ⟨h1, h2⟩
    exact h ⟨h1, ((mem_againRows ..).mp h2).2.2⟩

/-! ### `drawUpdate` -/

theorem drawUpdate_length (s : Scr) (ls : Lines) (otop xtop xleft : Int) :
    (drawUpdate s ls otop xtop xleft).length = s.length := by
  unfold drawUpdate
  simp only []
  split
  · rfl
  · split <;> rw [drawRows_length, room_length]

end Neatvi.Lemmas.C19
