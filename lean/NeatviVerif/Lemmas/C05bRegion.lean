import NeatviVerif.Lemmas.C05bEx
/-!
# C05b, `ex_region`: a whole address (`a,b;c…`) keeps every number inside `int`

`AddrFits` is an invariant of address evaluation: `ex_lineno` changes the search keyword only, `;` sets the
current row to a value in `[-1, NUMMAX]`; hence every call of `ex_lineno` inside `ex_region` starts its sum
inside `long long` (`exLinenoChk_eq`), every result is within `±NUMMAX` (`exLineno_bounded`), and `beg` /
`end` stay within `[-1, NUMMAX + 1]`.
-/
namespace Neatvi.Lemmas.C05b
open Neatvi Neatvi.Lbuf Neatvi.Ex Neatvi.Lemmas.C06

/-- only the search keyword and its direction differ -/
def KwOnly (ed ed' : Ed) : Prop := ∃ k d, ed' = { ed with xkwd := k, xkwddir := d }

theorem KwOnly.refl (ed : Ed) : KwOnly ed ed := ⟨_, _, rfl⟩

theorem kw_kwOnly (ed : Ed) (kw : Option Bytes) (d : Int) : KwOnly ed (kwEd ed kw d) := by
  unfold kwEd
  split
  · split
    · exact ⟨_, _, rfl⟩
    · exact KwOnly.refl _
  · exact KwOnly.refl _

theorem exSearch_kwOnly (ed : Ed) (loc : Bytes) (r : Int × Bytes) (ed' : Ed)
    (h : exSearch ed loc = some (r, ed')) : KwOnly ed ed' := by
  rw [exSearch_eq] at h
  have hk : KwOnly ed (kwEd ed (reRead loc).1 (if loc.headD 0 == 47 then 1 else -1)) := kw_kwOnly _ _ _
  generalize kwEd ed (reRead loc).1 (if loc.headD 0 == 47 then 1 else -1) = ed1 at h hk
  simp only [] at h
  split at h
  · cases h; exact hk
  · split at h
    · cases h
    · cases h; exact hk
    · split at h
      · cases h
      · cases h; exact hk

theorem exLineno_kwOnly (ed : Ed) (loc : Bytes) (r : Int × Bytes) (ed' : Ed)
    (h : exLineno ed loc = some (r, ed')) : KwOnly ed ed' := by
  unfold exLineno at h
  simp only [] at h
  generalize hb : @ite (R (Int × Bytes)) ((loc.headD 0 == 46) = true) _ _ _ = base at h
  have hbase : ∀ x ed1, base = some (x, ed1) → KwOnly ed ed1 := by
    subst hb
    intro x ed1 hx
    split at hx
    · cases hx; exact KwOnly.refl _
    · split at hx
      · cases hx; exact KwOnly.refl _
      · split at hx
        · split at hx <;> (cases hx; exact KwOnly.refl _)
        · split at hx
          · split at hx
            · cases hx
            · rename_i hs
              split at hx <;> (cases hx; exact exSearch_kwOnly _ _ _ _ hs)
          · split at hx <;> (cases hx; exact KwOnly.refl _)
  clear hb
  split at h
  · cases h
  · split at h <;> (cases h; exact hbase _ _ rfl)

theorem AddrFits.of_kwOnly {ed ed' : Ed} (hf : AddrFits ed) (h : KwOnly ed ed') : AddrFits ed' := by
  obtain ⟨k, d, rfl⟩ := h
  exact ⟨hf.xrow_lo, hf.xrow_hi, hf.len_hi, hf.marks⟩

/-- `xrow = end - 1` of `;` -/
theorem AddrFits.set_xrow {ed : Ed} (hf : AddrFits ed) (r : Int) (h0 : -NUMMAX - 1 ≤ r) (h1 : r ≤ NUMMAX) :
    AddrFits { ed with xrow := r } :=
  ⟨h0, h1, hf.len_hi, hf.marks⟩

/-- `ex_lineno` keeps the state in range -/
theorem exLineno_fits (ed : Ed) (loc : Bytes) (r : Int × Bytes) (ed' : Ed) (hf : AddrFits ed)
    (h : exLineno ed loc = some (r, ed')) : AddrFits ed' :=
  hf.of_kwOnly (exLineno_kwOnly ed loc r ed' h)

/-- the loop of `ex_region`: the state stays in range (so no `ex_lineno` it calls overflows), and the
    pair it delivers is the failure marker `(-7, -7)` or has `-1 ≤ beg ≤ NUMMAX`, `0 ≤ end ≤ NUMMAX + 1` -/
theorem go_bounded : ∀ (f : Nat) (ed : Ed) (loc : Bytes) (naddr : Nat) (b e : Int) (r : Int × Int) (ed' : Ed),
    AddrFits ed → -1 ≤ b → b ≤ NUMMAX → 0 ≤ e → e ≤ NUMMAX + 1 →
    exRegion.go f ed loc naddr b e = some (r, ed') →
    AddrFits ed' ∧ (r = (-7, -7) ∨ (-1 ≤ r.1 ∧ r.1 ≤ NUMMAX ∧ 0 ≤ r.2 ∧ r.2 ≤ NUMMAX + 1)) := by
  intro f
  induction f with
  | zero =>
    intro ed loc naddr b e r ed' hf hb0 hb1 he0 he1 h
    rw [exRegion.go] at h; cases h
    exact ⟨hf, Or.inr ⟨hb0, hb1, he0, he1⟩⟩
  | succ f ih =>
    intro ed loc naddr b e r ed' hf hb0 hb1 he0 he1 h
    rw [exRegion.go] at h
    simp only [] at h
    split at h
    · cases h; exact ⟨hf, Or.inr ⟨hb0, hb1, he0, he1⟩⟩
    · split at h
      · cases h
      · rename_i n rest ed1 hl
        have hf1 := exLineno_fits _ _ _ _ hf hl
        obtain ⟨n0, n1⟩ := exLineno_bounded _ _ _ _ _ hl
        split at h
        · cases h; exact ⟨hf1, Or.inl rfl⟩
        · rename_i hn
          have hn' : -1 ≤ n := by omega
          have hb' : -1 ≤ (if naddr != 0 then e - 1 else n + 1 - 1) ∧
              (if naddr != 0 then e - 1 else n + 1 - 1) ≤ NUMMAX := by
            split <;> omega
          split at h
          · cases h
            exact ⟨hf1, Or.inr ⟨hb'.1, hb'.2, by simp only []; omega, by simp only []; omega⟩⟩
          · refine ih _ _ _ _ _ _ _ ?_ hb'.1 hb'.2 (by omega) (by omega) h
            split
            · exact hf1.set_xrow _ (by omega) (by omega)
            · exact hf1

/-- `ex_region`: the state stays in range and `beg`, `end` are within `[-1, NUMMAX + 1]` -/
theorem exRegion_bounded (ed : Ed) (loc : Bytes) (rc : Nat) (b e : Int) (ed' : Ed) (hf : AddrFits ed)
    (h : exRegion ed loc = some ((rc, b, e), ed')) :
    AddrFits ed' ∧ -1 ≤ b ∧ b ≤ NUMMAX ∧ -1 ≤ e ∧ e ≤ NUMMAX + 1 := by
  have hl := len_nonneg ed
  have h3 := hf.len_hi
  have hN : NUMMAX = 536870912 := rfl
  unfold exRegion at h
  simp only [] at h
  split at h
  · cases h; exact ⟨hf, by omega, by omega, by omega, by omega⟩
  · split at h
    · cases h
      refine ⟨hf, by omega, by omega, ?_, ?_⟩ <;> split <;> omega
    · split at h
      · cases h
      · rename_i b0 e0 ed1 hgo
        obtain ⟨hf1, hr⟩ := go_bounded _ _ _ _ _ _ _ _ hf (by omega) (by omega) (by omega) (by omega) hgo
        simp only [Prod.mk.injEq] at hr
        split at h
        · cases h; exact ⟨hf1, by omega, by omega, by omega, by omega⟩
        · rename_i h7
          simp only [Bool.and_eq_true, beq_iff_eq] at h7
          have hr' : -1 ≤ b0 ∧ b0 ≤ NUMMAX ∧ 0 ≤ e0 ∧ e0 ≤ NUMMAX + 1 := by
            cases hr with
            | inl h => exact absurd h h7
            | inr h => exact h
          split at h
          · cases h; exact ⟨hf1, by omega, by omega, by omega, by omega⟩
          · split at h
            all_goals
              split at h
              · cases h; exact ⟨hf1, by omega, by omega, by omega, by omega⟩
              · split at h <;> (cases h; exact ⟨hf1, by omega, by omega, by omega, by omega⟩)

end Neatvi.Lemmas.C05b
