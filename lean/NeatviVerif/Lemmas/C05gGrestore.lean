import NeatviVerif.Lemmas.C05gGdepth
import NeatviVerif.Lemmas.C05gRestore
/-!
# C05g lemmas, part 7: the nesting level of `:g` is restored

`xgdep_restored`: every `ex_command` / `ex_exec` / handler call returns with the `xgdep` it was called with
(whatever the fuel): `ec_glob` counts it up for its scan and down again, everything else leaves it alone
(`Lemmas/C05gGdepth.lean`).
-/
namespace Neatvi.Lemmas.C05g
open Neatvi Neatvi.Lbuf Neatvi.LbufIo Neatvi.Ex Neatvi.Rset Neatvi.Lemmas.ExFrame

def ExecG (f : Nat) : Prop := ∀ ed ln r ed', exExec f ed ln = some (r, ed') → ed'.xgdep = ed.xgdep
def CmdG (f : Nat) : Prop := ∀ ed ln r ed', exCommand f ed ln = some (r, ed') → ed'.xgdep = ed.xgdep
def RunG (f : Nat) : Prop := ∀ ed h loc cmd arg txt r ed',
  runCmd f ed h loc cmd arg txt = some (r, ed') → ed'.xgdep = ed.xgdep

/-! ### `:g` -/

theorem adv_gdep (dep : Nat) : ∀ (h : Nat) (ed : Ed) (i : Int), (ecGlob.scan.adv dep h ed i).1.xgdep = ed.xgdep := by
  intro h
  induction h with
  | zero => intro ed i; rw [ecGlob.scan.adv]
  | succ h ih =>
    intro ed i
    rw [ecGlob.scan.adv]
    split
    · rfl
    · split
      · rfl
      · simp only []
        split
        · exact setLb_gdep _ _
        · rw [ih]; exact setLb_gdep _ _

theorem scan_gdep (f : Nat) (neg : Bool) (s : Bytes) (re : RStr) (dep : Nat) (hbody : ExecG f) :
    ∀ (g : Nat) (ed : Ed) (i : Int) (ed' : Ed), ecGlob.scan f neg s re dep g ed i = some ed' →
      ed'.xgdep = ed.xgdep := by
  intro g
  induction g with
  | zero => intro ed i ed' h; rw [ecGlob.scan] at h; cases h
  | succ g ih =>
    intro ed i ed' h
    rw [ecGlob.scan] at h
    simp only [] at h
    frame_cases
    all_goals depth_facts [hbody, ih]
    all_goals (try simp only [adv_gdep] at *)
    all_goals gdep_omega

theorem globPrep_gdep (ed : Ed) (arg : Bytes) : (Props.C15.globPrep ed arg).xgdep = ed.xgdep := by
  unfold Props.C15.globPrep
  gdep_omega

theorem foldl_ed_gdep {α : Type} (F : Ed → α → Ed) (hF : ∀ ed a, (F ed a).xgdep = ed.xgdep) :
    ∀ (l : List α) (ed : Ed), (l.foldl F ed).xgdep = ed.xgdep := by
  intro l
  induction l with
  | nil => intro ed; rfl
  | cons a l ih => intro ed; rw [List.foldl_cons, ih, hF]

theorem globMark_gdep (ed : Ed) (b e : Int) (dep : Nat) : (Props.C15.globMark ed b e dep).xgdep = dep := by
  unfold Props.C15.globMark
  rw [foldl_ed_gdep]
  intro ed a
  gdep_omega

theorem globSweep_gdep (ed : Ed) (dep : Nat) : (Props.C15.globSweep ed dep).xgdep = ed.xgdep := by
  unfold Props.C15.globSweep
  gdep_omega

theorem ecGlob_gdep (f : Nat) (hbody : ExecG f) (ed ed' : Ed) (loc cmd arg : Bytes) (r : Int)
    (h : ecGlob (f + 1) ed loc cmd arg = some (r, ed')) : ed'.xgdep = ed.xgdep := by
  rw [Props.C15.ecGlob_eq] at h
  by_cases hdep : ed.xgdep ≥ 7
  · rw [if_pos hdep] at h; cases h; rfl
  rw [if_neg hdep] at h
  split at h
  · cases h
  · rename_i rc b e ed1 hr
    have e1 := exRegion_gdep hr
    have e2 := globPrep_gdep ed1 arg
    split at h
    · cases h; exact e1
    · split at h
      · cases h; omega
      · split at h
        · cases h
        · cases h; omega
        · split at h
          · cases h
          · cases h
            show (Props.C15.globPrep ed1 arg).xgdep + 1 - 1 = ed.xgdep
            omega

/-- inside the scan of `ec_glob` the level is one more than outside -/
theorem ecGlob_scan_gdep (f : Nat) (hbody : ExecG f) (neg : Bool) (s : Bytes) (re : RStr) (dep g : Nat) (ed ed' : Ed)
    (i : Int) (h : ecGlob.scan f neg s re dep g ed i = some ed') : ed'.xgdep = ed.xgdep :=
  scan_gdep f neg s re dep hbody g ed i ed' h

/-! ### `:@` -/

theorem ecAt_gdep (f : Nat) (hcmd : CmdG f) (ed ed' : Ed) (loc cmd arg : Bytes) (r : Int)
    (h : ecAt (f + 1) ed loc cmd arg = some (r, ed')) : ed'.xgdep = ed.xgdep := by
  rw [ecAt] at h
  split at h
  · cases h; rfl
  · split at h
    · cases h
    · rename_i hr
      have e1 := exRegion_gdep hr
      split at h
      · cases h; exact e1
      · split at h
        · cases h; exact e1
        · simp only [] at h
          split at h
          · cases h; exact e1
          · split at h
            · cases h
            · rename_i r2 ed2 hx
              cases h
              exact (hcmd _ _ _ _ hx).trans e1

/-! ### `:e` -/

open Neatvi.Lemmas.C02c Neatvi.Lemmas.C05d in
theorem editStage_gdep {ed : Ed} {cmd arg : Bytes} {x : Sum (Int × Ed) Ed} (h : editStage ed cmd arg = some x) :
    (match x with | .inl y => y.2.xgdep | .inr e => e.xgdep) = ed.xgdep := by
  have hpre : ∀ e p, (Props.C20.ewPre e cmd p).xgdep = e.xgdep := by
    intro e p; unfold Props.C20.ewPre; gdep_omega
  have hopen : ∀ e p, (editOpen e p).xgdep = e.xgdep := by
    intro e p; unfold editOpen
    split
    · simp only [bufsSwitch_gdep, bufsOpen_gdep]
    · rfl
  have hfin : ∀ e p e', editFinish e p = some e' → e'.xgdep = e.xgdep := by
    intro e p e' hf
    unfold editFinish editRead at hf
    simp only [] at hf
    frame_cases
    all_goals gdep_omega
  unfold editStage at h
  cases hg : Props.C20.editGuard ed cmd with
  | none => rw [hg] at h; cases h
  | some y =>
    obtain ⟨g, ed1⟩ := y
    have e1 : ed1.xgdep = ed.xgdep := by
      unfold Props.C20.editGuard at hg
      split at hg
      · exact bufsModified_gdep hg
      · cases hg; rfl
    rw [hg] at h
    cases g with
    | true => cases h; exact e1
    | false =>
      simp only [] at h
      cases hp : pathExpand ed1 (plusSplit arg).2 false with
      | none => rw [hp] at h; cases h
      | some z =>
        obtain ⟨p, ed2⟩ := z
        have e2 : ed2.xgdep = ed.xgdep := (pathExpand_gdep hp).trans e1
        rw [hp] at h
        cases p with
        | none => cases h; exact e2
        | some path =>
          simp only [] at h
          split at h
          · cases h
            show (Ed.bufsSwitch _ _).xgdep = _
            rw [bufsSwitch_gdep, hpre]; exact e2
          · cases hg2 : editGuard2 (Props.C20.ewPre ed2 cmd path) path with
            | none => rw [hg2] at h; cases h
            | some w =>
              obtain ⟨g2, ed3⟩ := w
              have e3 : ed3.xgdep = ed.xgdep := by
                unfold editGuard2 at hg2
                split at hg2
                · rw [bufsModified_gdep hg2, hpre]; exact e2
                · cases hg2; rw [hpre]; exact e2
              rw [hg2] at h
              cases g2 with
              | true => cases h; exact e3
              | false =>
                simp only [] at h
                cases hf : editFinish (editOpen ed3 path) path with
                | none => rw [hf] at h; cases h
                | some ed4 =>
                  rw [hf] at h
                  cases h
                  show ed4.xgdep = _
                  rw [hfin _ _ _ hf, hopen]; exact e3

open Neatvi.Lemmas.C02c Neatvi.Lemmas.C05d in
theorem ecEdit_gdep (f : Nat) (hcmd : CmdG f) (ed ed' : Ed) (cmd arg : Bytes) (r : Int)
    (h : ecEdit (f + 1) ed cmd arg = some (r, ed')) : ed'.xgdep = ed.xgdep := by
  rw [ecEdit_stage] at h
  split at h
  · cases h
  · rename_i x hs
    cases h
    exact editStage_gdep hs
  · rename_i edX hs
    have e1 : edX.xgdep = ed.xgdep := editStage_gdep hs
    unfold editPlus at h
    split at h
    · exact (hcmd _ _ _ _ h).trans e1
    · cases h; exact e1

/-! ### command lines -/

theorem cmds_gdep (f : Nat) (hrun : RunG f) :
    ∀ (g : Nat) (ed : Ed) (ln : Bytes) (ret r : Int) (ed' : Ed),
      exExec.cmds f g ed ln ret = some (r, ed') → ed'.xgdep = ed.xgdep := by
  intro g
  induction g with
  | zero => intro ed ln ret r ed' h; rw [exExec.cmds] at h; cases h; rfl
  | succ g ih =>
    intro ed ln ret r ed' h
    rw [exExec.cmds] at h
    split at h
    · cases h; rfl
    · generalize exLoc ln = p1 at h
      obtain ⟨loc, l1⟩ := p1
      simp only [] at h
      generalize exCmd l1 = p2 at h
      obtain ⟨cmd, l2⟩ := p2
      simp only [] at h
      generalize exIdx cmd = idx at h
      cases idx with
      | none =>
        simp only [] at h
        generalize exArg l2 (strOf "unknown") = p3 at h
        obtain ⟨arg, l3⟩ := p3
        simp only [] at h
        have hb := exTxt_gdep ed l3 (strOf "unknown")
        generalize exTxt ed l3 (strOf "unknown") = T at h hb
        obtain ⟨⟨txt, l4⟩, edT⟩ := T
        simp only [] at h hb
        have := ih _ _ _ _ _ h
        simp only [show_gdep] at this
        omega
      | some ah =>
        obtain ⟨a, hh⟩ := ah
        simp only [] at h
        generalize exArg l2 a = p3 at h
        obtain ⟨arg, l3⟩ := p3
        simp only [] at h
        have hb := exTxt_gdep ed l3 a
        generalize exTxt ed l3 a = T at h hb
        obtain ⟨⟨txt, l4⟩, edT⟩ := T
        simp only [] at h hb
        split at h
        · cases h
        · rename_i r1 ed1 hr
          have e1 := hrun _ _ _ _ _ _ _ _ hr
          have e2 := ih _ _ _ _ _ h
          omega

theorem exExec_gdep (f : Nat) (hrun : RunG f) : ExecG (f + 1) := by
  intro ed ln r ed' h
  rw [exExec] at h
  split at h
  · cases h; rfl
  · exact cmds_gdep f hrun _ _ _ _ _ _ h

theorem exCommand_gdep (f : Nat) (hx : ExecG f) : CmdG (f + 1) := by
  intro ed ln r ed' h
  rw [exCommand] at h
  split at h
  · cases h
  · rename_i r1 ed1 he
    cases h
    rw [modifiedAt_gdep]
    exact hx _ _ _ _ he

theorem runG_succ (f : Nat) (hx : ExecG f) (hc : CmdG f) : RunG (f + 2) := by
  intro ed hd loc cmd arg txt r ed' h
  refine runCmd_gdep (f + 1) ed ed' hd loc cmd arg txt r ?_ ?_ ?_ h
  · intro ed r ed' h; exact ecAt_gdep f hc ed ed' loc cmd arg r h
  · intro ed r ed' h; exact ecGlob_gdep f hx ed ed' loc cmd arg r h
  · intro ed r ed' h; exact ecEdit_gdep f hc ed ed' cmd arg r h

theorem runG_zero : RunG 0 := by
  intro ed hd loc cmd arg txt r ed' h; rw [runCmd] at h; cases h

theorem runG_one : RunG 1 := by
  intro ed hd loc cmd arg txt r ed' h
  refine runCmd_gdep 0 ed ed' hd loc cmd arg txt r ?_ ?_ ?_ h
  · intro ed r ed' h; rw [ecAt] at h; cases h
  · intro ed r ed' h; rw [ecGlob] at h; cases h
  · intro ed r ed' h; rw [ecEdit] at h; cases h

theorem all_gdep : ∀ f : Nat, ExecG f ∧ CmdG f ∧ RunG f ∧ RunG (f + 1) := by
  intro f
  induction f with
  | zero =>
    refine ⟨?_, ?_, runG_zero, runG_one⟩
    · intro ed ln r ed' h; rw [exExec] at h; cases h
    · intro ed ln r ed' h; rw [exCommand] at h; cases h
  | succ f ih =>
    obtain ⟨hx, hc, hr0, hr1⟩ := ih
    exact ⟨exExec_gdep f hr0, exCommand_gdep f hx, hr1, runG_succ f hx hc⟩

end Neatvi.Lemmas.C05g
