import NeatviVerif.Lemmas.C06Ex
import NeatviVerif.Lemmas.ExFrame
import NeatviVerif.Props.C01
/-!
# C06b, helpers for `:r`, `:u`, `:redo`: what `pathExpand`, `rd`, `setLb` leave alone
-/
namespace Neatvi.Lemmas.C06b
open Neatvi Neatvi.Lbuf Neatvi.LbufIo Neatvi.Ex Neatvi.Lemmas.C06 Neatvi.Lemmas.Hist

/-- `ed'` is `ed` up to the address side effects (`xrow`, search keyword) and the message line -/
def Quiet (ed ed' : Ed) : Prop :=
  ∃ r k d m, ed' = { ed with xrow := r, xkwd := k, xkwddir := d, msg := m }

theorem Quiet.refl (ed : Ed) : Quiet ed ed := ⟨_, _, _, _, rfl⟩

theorem Quiet.trans {a b c : Ed} (h1 : Quiet a b) (h2 : Quiet b c) : Quiet a c := by
  obtain ⟨r, k, d, m, rfl⟩ := h1
  obtain ⟨r', k', d', m', rfl⟩ := h2
  exact ⟨_, _, _, _, rfl⟩

theorem Quiet.of_addrOnly {a b : Ed} (h : AddrOnly a b) : Quiet a b := by
  obtain ⟨r, k, d, rfl⟩ := h
  exact ⟨_, _, _, _, rfl⟩

theorem Quiet.show (ed : Ed) (m : Bytes) : Quiet ed (ed.show m) := ⟨_, _, _, _, rfl⟩

theorem Quiet.bufs {a b : Ed} (h : Quiet a b) : b.bufs = a.bufs := by
  obtain ⟨_, _, _, _, rfl⟩ := h; rfl
theorem Quiet.lines {a b : Ed} (h : Quiet a b) : lines b = lines a := by
  obtain ⟨_, _, _, _, rfl⟩ := h; rfl
theorem Quiet.len {a b : Ed} (h : Quiet a b) : b.len = a.len := by
  obtain ⟨_, _, _, _, rfl⟩ := h; rfl
theorem Quiet.lb {a b : Ed} (h : Quiet a b) : b.lb = a.lb := by
  obtain ⟨_, _, _, _, rfl⟩ := h; rfl
theorem Quiet.regs {a b : Ed} (h : Quiet a b) : b.regs = a.regs := by
  obtain ⟨_, _, _, _, rfl⟩ := h; rfl
theorem Quiet.files {a b : Ed} (h : Quiet a b) : b.files = a.files := by
  obtain ⟨_, _, _, _, rfl⟩ := h; rfl
theorem Quiet.out {a b : Ed} (h : Quiet a b) : b.out = a.out := by
  obtain ⟨_, _, _, _, rfl⟩ := h; rfl
theorem Quiet.pipes {a b : Ed} (h : Quiet a b) : b.pipes = a.pipes := by
  obtain ⟨_, _, _, _, rfl⟩ := h; rfl

/-- `ex_pathexpand` that yields a path leaves the state alone; one that fails only adds a message -/
theorem pathExpand_cases {ed ed' : Ed} {src : Bytes} {sp : Bool} {r : Option Bytes}
    (h : pathExpand ed src sp = some (r, ed')) :
    (r.isSome → ed' = ed) ∧ (r = none → ed' = ed.show (strOf "pathname \"%\" or \"#\" is not set")) := by
  unfold pathExpand at h
  split at h
  · cases h
  · cases h
    exact ⟨fun h => (by cases h), fun _ => rfl⟩
  · split at h
    · cases h
    · cases h
      exact ⟨fun _ => rfl, fun h => (by cases h)⟩

theorem pathExpand_quiet {ed ed' : Ed} {src : Bytes} {sp : Bool} {r : Option Bytes}
    (h : pathExpand ed src sp = some (r, ed')) : Quiet ed ed' := by
  obtain ⟨h1, h2⟩ := pathExpand_cases h
  cases r with
  | none => rw [h2 rfl]; exact Quiet.show _ _
  | some p => rw [h1 rfl]; exact Quiet.refl _

/-! ### `lbuf_rd` of a whole file delivered in one chunk -/

/-- reading never overflows the string buffer: `lbuf_rd` of one chunk is `lbuf_edit` of the C string read -/
theorem rd_single (lb : Lb) (data : Bytes) (b e : Nat) :
    rd lb [data] false b e = (Lbuf.edit lb (some (cstr data)) b e).map (fun l => (0, l)) := by
  obtain ⟨sb, h1, h2, h3⟩ := Props.C01.rdAcc_ok [data] {} (Or.inr ⟨rfl, rfl⟩)
  have hs : sb.s = data := by rw [h2]; simp
  unfold rd
  simp only [h1, Props.C01.buf_ok sb h3, hs, Bool.false_eq_true, if_false]
  cases Lbuf.edit lb (some (cstr data)) b e <;> rfl

/-- any chunking of the file gives the same result -/
theorem rd_chunks (lb : Lb) (chunks : List Bytes) (b e : Nat) :
    rd lb chunks false b e = (Lbuf.edit lb (some (cstr chunks.flatten)) b e).map (fun l => (0, l)) := by
  obtain ⟨sb, h1, h2, h3⟩ := Props.C01.rdAcc_ok chunks {} (Or.inr ⟨rfl, rfl⟩)
  have hs : sb.s = chunks.flatten := by rw [h2]; simp
  unfold rd
  simp only [h1, Props.C01.buf_ok sb h3, hs, Bool.false_eq_true, if_false]
  cases Lbuf.edit lb (some (cstr chunks.flatten)) b e <;> rfl

theorem cstr_nulfree (s : Bytes) (h : 0 ∉ s) : cstr s = s := by
  unfold cstr
  apply Props.C01.takeWhile_all
  intro x hx
  simp only [ne_eq, decide_not, Bool.not_eq_eq_eq_not, Bool.not_true, decide_eq_false_iff_not]
  intro h0; subst h0; exact h hx

/-- the read step of `ec_read` is `lbuf_edit(xb, text, pos, pos)` on the editor state -/
theorem read_step (ed : Ed) (data : Bytes) (pos : Int) (hp : 0 ≤ pos) (r : Nat) (lb' : Lb)
    (h : ed.lb.bind (fun lb => rd lb [data] false pos.toNat pos.toNat) = some (r, lb')) :
    r = 0 ∧ ed.edit (some (cstr data)) pos pos = some (ed.setLb lb') := by
  cases hlb : ed.lb with
  | none => rw [hlb] at h; cases h
  | some lb =>
    rw [hlb] at h
    simp only [Option.bind_some, rd_single, Option.map_eq_some_iff] at h
    obtain ⟨l, hl, hr⟩ := h
    cases hr
    refine ⟨rfl, ?_⟩
    unfold Ed.edit
    rw [if_neg (by simp; omega), hlb]
    simp [hl]

theorem read_step_total (ed : Ed) (lb : Lb) (data : Bytes) (pos : Int) (hlb : ed.lb = some lb) :
    ∃ lb', ed.lb.bind (fun lb => rd lb [data] false pos.toNat pos.toNat) = some (0, lb') := by
  obtain ⟨lb', h⟩ := edit_total lb (some (cstr data)) pos.toNat pos.toNat (Nat.le_refl _)
  exact ⟨lb', by rw [hlb]; simp [rd_single, h]⟩

/-! ### the buffer table under `setLb` -/

/-- only the line buffer of the current buffer differs -/
def OnlyLb (ed ed' : Ed) : Prop :=
  ∃ b lb', ed.cur = some b ∧ ed'.bufs = ed.bufs.set 0 (some { b with lb := lb' })

theorem setLb_onlyLb (ed : Ed) (lb0 lb' : Lb) (h : ed.lb = some lb0) : OnlyLb ed (ed.setLb lb') := by
  unfold Ed.lb at h
  cases hc : ed.cur with
  | none => rw [hc] at h; cases h
  | some b =>
    refine ⟨b, lb', hc, ?_⟩
    unfold Ed.setLb
    rw [hc]
    rfl

theorem OnlyLb.tail {ed ed' : Ed} (h : OnlyLb ed ed') : ed'.bufs.drop 1 = ed.bufs.drop 1 := by
  obtain ⟨b, lb', _, h2⟩ := h
  rw [h2]
  cases ed.bufs <;> simp

theorem OnlyLb.path {ed ed' : Ed} (h : OnlyLb ed ed') : ed'.cur.map (·.path) = ed.cur.map (·.path) := by
  obtain ⟨b, lb', h1, h2⟩ := h
  unfold Ed.cur at *
  rw [h2]
  cases hb : ed.bufs with
  | nil => rw [hb] at h1; simp at h1
  | cons x xs => rw [hb] at h1; simp at h1; subst h1; simp

theorem edit_onlyLb {ed ed' : Ed} {s : Option Bytes} {b e : Int} (h : ed.edit s b e = some ed') : OnlyLb ed ed' := by
  obtain ⟨_, _, lb, lb', h1, _, h3, _⟩ := ExFrame.Ed_edit_some h
  rw [h3]
  exact setLb_onlyLb ed lb lb' h1

/-- putting back the line buffer that is already there changes nothing -/
theorem setLb_same (ed : Ed) (lb : Lb) (h : ed.lb = some lb) : ed.setLb lb = ed := by
  unfold Ed.lb at h
  cases hc : ed.cur with
  | none => rw [hc] at h; cases h
  | some b =>
    rw [hc] at h
    simp only [Option.map_some, Option.some.injEq] at h
    unfold Ed.setLb
    rw [hc]
    unfold Ed.cur at hc
    have hb : ed.bufs.set 0 (some { b with lb := lb }) = ed.bufs := by
      subst h
      cases hbs : ed.bufs with
      | nil => rfl
      | cons x xs => rw [hbs] at hc; simp at hc; subst hc; rfl
    show ({ ed with bufs := ed.bufs.set 0 (some { b with lb := lb }) } : Ed) = ed
    rw [hb]

/-- the bump of the sequence counter at the end of `ex_command` does not touch the text -/
theorem modifiedAt0_lines (ed : Ed) : lines (ed.modifiedAt 0).2 = lines ed := by
  unfold Ed.modifiedAt
  cases h : ed.bufs.getD 0 none with
  | none => rfl
  | some b =>
    simp only []
    unfold lines Ed.lb Ed.cur
    cases hb : ed.bufs with
    | nil => rw [hb] at h; simp at h
    | cons x xs =>
      rw [hb] at h
      simp at h
      subst h
      simp [Lbuf.modified]

end Neatvi.Lemmas.C06b
