import NeatviVerif.Lemmas.C05fQ
/-!
# C05f, part R: `commandTail` — every command of the switch of `vi()`
-/
set_option linter.unusedSimpArgs false
set_option linter.unusedVariables false
namespace Neatvi.Lemmas.C05f
open Neatvi Neatvi.Uc Neatvi.Lbuf Neatvi.Ex Neatvi.Mot Neatvi.Vi Neatvi.Rset

theorem noNul_strOf_x : NoNul (strOf "x") := by
  intro h
  have := strOf_ascii ['x'] (by decide) 0 (by rw [show String.ofList ['x'] = "x" from rfl]; exact h)
  omega

theorem rowOk_congr {s s' : VS} (h : RowOk s) (h1 : s'.ed.xrow = s.ed.xrow) (h2 : lines s' = lines s) : RowOk s' := by
  unfold RowOk lenOf at *
  rw [h1, h2]; exact h

theorem lines_markCaret {s : VS} {c : Prop} (hs : SOk s c) : lines (markCaret s) = lines s := by
  obtain ⟨lb, hlb, _⟩ := hs.1.lb s.ed rfl
  have hl2 : (markCaret s).ed.lb = some (setMark lb 94 s.ed.xrow s.ed.xoff) := by
    unfold markCaret markEd
    dsimp only
    rw [hlb]
    exact setLb_lb hs.1 _
  unfold Vi.lines
  rw [hl2, hlb]
  exact Lemmas.C07.setMark_lines _ _ _ _

theorem sok_markCaret {s : VS} {c : Prop} (hs : SOk s c) : SOk (markCaret s) c := by
  refine ⟨bufsOk_markSet hs.1 94 _ _, ?_⟩
  rw [markCaret_regs]; exact hs.2

/-- **the command switch of `vi()`**: no command traps, and each keeps the invariant -/
theorem wp_commandTail {s : VS} (hs : SOk s True) (hr : RowOk s)
    (hoff : s.ed.xoff ≤ slenAt (lines s) s.ed.xrow) (hmk : MarksIn (markCaret s)) (hsl : SearchOk s) (hcol : ColonOk s)
    (Q : Option Nat → VS → Prop)
    (hQ : ∀ r s', CtPost r s' → Q r s') : wp commandTail Q s := by
  unfold commandTail
  refine (wp_bind _ _ _ _).mpr ?_
  refine wp_viRead s _ (fun c s1 e1 q1 => ?_)
  try dsimp (zeta := false) only
  have hs1 : SOk s1 True := hs.congr (by rw [e1]) (by rw [e1])
  have hl1 : lines s1 = lines s := by unfold Vi.lines; rw [e1]
  have hr1 : RowOk s1 := rowOk_congr hr (by rw [e1]) hl1
  wpif hc
  · exact (wp_pure _ _ _).mpr (hQ _ _ (Or.inr ⟨hs1, hr1, by rw [hl1, e1]; exact hoff⟩))
  refine (wp_bind _ _ _ _).mpr ?_
  refine (wp_get _ _).mpr ?_
  try dsimp (zeta := false) only
  refine (wp_bind _ _ _ _).mpr ?_
  refine (wp_markSet _ _ _ _ _).mpr ?_
  try dsimp (zeta := false) only
  -- the state the switch runs in
  have hmc : markCaret s1 = { s1 with ed := markEd s1.ed 94 s1.ed.xrow s1.ed.xoff } := rfl
  have hs2 : SOk (markCaret s1) True := sok_markCaret hs1
  have hl2 : lines (markCaret s1) = lines s := (lines_markCaret hs1).trans hl1
  have hr2 : RowOk (markCaret s1) := rowOk_congr hr1 (markCaret_xrow s1) (lines_markCaret hs1)
  have hed : (markCaret s1).ed = (markCaret s).ed := by
    unfold markCaret
    dsimp only
    rw [e1]
  have hmk2 : MarksIn (markCaret s1) := hmk.of_lb (by rw [hed])
  have hsl2 : SearchOk (markCaret s1) := by
    refine hsl.mono ?_ hl2 ?_ ?_
    · show allQ (markCaret s1) <:+ allQ s
      have : allQ (markCaret s1) = allQ s1 := rfl
      rw [this, q1]; exact List.suffix_cons _ _
    · rw [markCaret_regs, e1]
    · rw [markCaret_xkwd, e1]
  have hq2 : (markCaret s1).ed.xquit = s.ed.xquit := by rw [markCaret_xquit, e1]
  have ho2 : (markCaret s1).ed.xoff ≤ slenAt (lines (markCaret s1)) (markCaret s1).ed.xrow := by
    rw [hl2, markCaret_xoff, markCaret_xrow, e1]; exact hoff
  rw [hmc] at hs2 hl2 hr2 hmk2 hsl2 hq2 ho2
  generalize hed2 : markEd s1.ed 94 s1.ed.xrow s1.ed.xoff = ed2 at hs2 hl2 hr2 hmk2 hsl2 hq2 ho2 ⊢
  clear hmc hed
  refine (wp_bind _ _ _ _).mpr ?_
  refine (wp_get _ _).mpr ?_
  try dsimp (zeta := false) only
  extract_lets a1 fin j5 j4 j3 j2 j1 j0
  -- `fin`: record the command for `.`
  have hfin : ∀ (mod : Nat) (k : Int) (st : VS), SOk st False → wp (fin mod k) Q st := by
    intro mod k st hst
    dsimp only [fin]
    wpn
    wpif hrep
    · wpn
      refine hQ _ _ (show SOk _ False from ⟨hst.1, ?_⟩)
      exact regsOk_put hst.2 _ (noNul_takeWhile_ne _) _
    · exact (wp_pure _ _ _).mpr (hQ _ _ (show SOk _ False from ⟨hst.1, hst.2⟩))
  have hfinO : ∀ (base : VS) (mod : Nat) (k : Int) (st : VS), OpPost base st → wp (fin mod k) Q st :=
    fun base mod k st h => hfin mod k st h.1
  clear_value fin
  have hj5 : ∀ (u : Unit) (st : VS), SOk st False → wp (j5 u) Q st := by
    intro u st hst
    dsimp only [j5]
    wpn
    exact hfin _ _ _ (hst.congr rfl rfl)
  clear_value j5
  have hj4 : ∀ (u : Unit) (st : VS), SOk st False → wp (j4 u) Q st := by
    intro u st hst
    dsimp only [j4]
    wpn
    wpif ht
    · wpn; exact hj5 _ _ (hst.congr rfl rfl)
    · exact hj5 _ _ (hst.congr rfl rfl)
  have hj3 : ∀ (u : Unit) (st : VS), SOk st False → wp (j3 u) Q st := by
    intro u st hst
    dsimp only [j3]
    wpn
    exact hfin _ _ _ (hst.congr rfl rfl)
  clear_value j3
  have hj2 : ∀ (u : Unit) (st : VS), SOk st False → wp (j2 u) Q st := by
    intro u st hst
    dsimp only [j2]
    wpn
    wpif ht
    · wpn; exact hj3 _ _ (hst.congr rfl rfl)
    · exact hj3 _ _ (hst.congr rfl rfl)
  have hj1 : ∀ (u : Unit) (st : VS), SOk st False → wp (j1 u) Q st := fun u st hst => hfin _ _ _ hst
  have hj0 : ∀ (u : Unit) (st : VS), SOk st False → wp (j0 u) Q st := fun u st hst => hfin _ _ _ hst
  clear_value j4 j2 j1 j0
  have hw2 : SOk ({ s1 with ed := ed2 } : VS) False := hs2.weaken
  -- ^B
  wpif h
  · wpn
    refine wp_scrollBackward _ _ _ (fun a s3 b3 g3 => ?_)
    have h3 : SOk s3 False := hw2.congr b3 g3
    wpif ha
    · exact hfin _ _ _ h3
    · wpn; exact hfin _ _ _ (h3.congr rfl rfl)
  -- ^F
  wpif h
  · wpn
    refine wp_scrollForward _ _ _ (fun a s3 b3 g3 => ?_)
    have h3 : SOk s3 False := hw2.congr b3 g3
    wpif ha
    · exact hfin _ _ _ h3
    · wpn; exact hfin _ _ _ (h3.congr rfl rfl)
  -- ^E
  wpif h
  · wpn
    refine wp_scrollForward _ _ _ (fun a s3 b3 g3 => ?_)
    have h3 : SOk s3 False := hw2.congr b3 g3
    wpif ha
    · exact hfin _ _ _ h3
    · wpn; exact hfin _ _ _ (h3.congr rfl rfl)
  -- ^Y
  wpif h
  · wpn
    refine wp_scrollBackward _ _ _ (fun a s3 b3 g3 => ?_)
    have h3 : SOk s3 False := hw2.congr b3 g3
    wpif ha
    · exact hfin _ _ _ h3
    · wpn; exact hfin _ _ _ (h3.congr rfl rfl)
  -- ^U
  wpif h
  · wpif h0
    · exact hfin _ _ _ hw2
    wpif ha
    · wpn; exact hj4 _ _ (hw2.congr rfl rfl)
    · exact hj4 _ _ hw2
  -- ^D
  wpif h
  · wpif h0
    · exact hfin _ _ _ hw2
    wpif ha
    · wpn; exact hj2 _ _ (hw2.congr rfl rfl)
    · exact hj2 _ _ hw2
  -- u ^R
  wpif h
  · obtain ⟨lb, hlb, hh⟩ := hs2.1.lb ed2 rfl
    rw [hlb]
    dsimp only
    have hur : ∃ rc lb', (if (c == 117) = true then undo lb else redo lb) = some (rc, lb') ∧ HistOk lb' True := by
      by_cases h117 : (c == 117) = true
      · rw [if_pos h117]; exact hh.undo
      · rw [if_neg h117]; exact hh.redo
    obtain ⟨rc, lb', hu, hlb'⟩ := hur
    rw [hu]
    dsimp only
    have h3 : SOk ({ s1 with ed := ed2.setLb lb' } : VS) False :=
      ⟨(bufsOk_setLb hs2.1 hlb').weaken, by simp only [setLb_regs]; exact hs2.2⟩
    wpif hrc
    · wpn
      cases jump lb' 94 with
      | none => exact hj1 _ _ h3
      | some ro =>
        obtain ⟨r, o⟩ := ro
        dsimp only
        wpn
        exact hj1 _ _ (h3.congr rfl rfl)
    · wpn
      exact hfin _ _ _ h3
  -- ^G
  wpif h
  · wpn
    refine hfin _ _ _ ⟨(bufsOk_modified hs2.1).weaken, ?_⟩
    show RegsOk (modEd ed2).regs
    rw [modEd_regs]; exact hs2.2
  -- :
  wpif h
  · refine (wp_bind_eqn _ _ _ _).mpr ?_
    refine wp_viPrompt _ _ hs2.paste _ (fun r s3 e3 hr3 hm3 => ?_)
    have hs3 : SOk s3 True := (MvF.of_EdF e3).sok hs2
    have hr3' : RowOk s3 := rowOk_congr hr2 e3.xrow e3.lines
    cases r with
    | none => exact hfin _ _ _ hs3.weaken
    | some ln =>
      have hln := hr3 ln rfl
      dsimp only
      wpif hemp
      · exact hfin _ _ _ hs3.weaken
      · wpn
        have hln2 : NoNul (if (ln.headD 0 != 58) = true then 58 :: ln else ln) := by
          split
          · exact noNul_cons.mpr ⟨by decide, hln⟩
          · exact hln
        have hat : ColonAt 58 s ({ s1 with ed := ed2 } : VS) := by
          refine ⟨?_, ?_⟩
          · show ed2 = (markCaret s).ed
            rw [← hed2]; unfold markCaret; dsimp only; rw [e1]
          · show 58 :: allQ s1 <:+ allQ s
            have hc58 : c = 58 := by simpa using h
            rw [q1, hc58]; exact List.suffix_refl _
        refine wp_exCommandV (hcol.colon _ ln s3 hat hm3 (by simpa using hemp)) _ (fun rc s4 h4 => ?_)
        wpn
        wpif hq
        · refine (wp_pure _ _ _).mpr (hQ _ _ (Or.inl ?_))
          exact hq
        · exact hfin _ _ _ ⟨h4.1, regsOk_put h4.2 _ hln2 _⟩
  -- c d y ! > <
  wpif h
  · wpn
    exact wp_vcMotion _ hs2 hr2 hmk2 hsl2 _ (fun m s3 hp => hfinO _ _ _ _ hp)
  -- i I a A o O
  wpif h
  · wpn
    exact wp_vcInsert _ hs2 hr2 _ (fun m s3 hp => hfinO _ _ _ _ hp)
  -- J
  wpif h
  · wpn
    exact wp_vcJoin hs2 hr2 _ (fun m s3 hp => hfinO _ _ _ _ hp)
  -- ^L
  wpif h
  · exact hfin _ _ _ hw2
  -- m
  wpif h
  · wpn
    refine wp_viRead _ _ (fun m s3 e3 _ => ?_)
    have h3 : SOk s3 False := hw2.congr (by rw [e3]) (by rw [e3])
    wpif hm
    · wpn
      refine hj0 _ _ ⟨bufsOk_markSet h3.1 _ _ _, ?_⟩
      show RegsOk (markEd s3.ed _ _ _).regs
      rw [markEd_regs]; exact h3.2
    · exact hj0 _ _ h3
  -- p P
  wpif h
  · wpn
    exact wp_vcPut _ hs2 hr2 _ (fun m s3 hp => hfinO _ _ _ _ hp)
  -- z
  wpif h
  · wpn
    refine wp_viRead _ _ (fun k s3 e3 _ => ?_)
    have h3 : SOk s3 False := hw2.congr (by rw [e3]) (by rw [e3])
    wpif hk
    · wpn; exact hfin _ _ _ (h3.congr rfl rfl)
    wpif hk
    · wpn; exact hfin _ _ _ (h3.congr rfl rfl)
    wpif hk
    · wpn; exact hfin _ _ _ (h3.congr rfl rfl)
    wpif hk
    · wpn; exact hfin _ _ _ (h3.congr rfl rfl)
    wpif hk
    · exact hfin _ _ _ h3
    wpif hk
    · wpn; exact hfin _ _ _ (h3.congr rfl rfl)
    wpif hk
    · wpn; exact hfin _ _ _ (h3.congr rfl rfl)
    · exact hfin _ _ _ h3
  -- g
  wpif h
  · wpn
    refine wp_viRead _ _ (fun k s3 e3 q3 => ?_)
    have h3t : SOk s3 True := hs2.congr (by rw [e3]) (by rw [e3])
    have h3 : SOk s3 False := h3t.weaken
    have hl3 : lines s3 = lines ({ s1 with ed := ed2 } : VS) := by unfold Vi.lines; rw [e3]
    wpif hk
    · wpn
      refine wp_vcMotion _ h3t (rowOk_congr hr2 (by rw [e3]) hl3) (hmk2.of_lb (by rw [e3])) ?_ _
        (fun m s4 hp => hfinO _ _ _ _ hp)
      exact hsl2.pfx (pfx_read e3 q3)
    wpif hk
    · exact hfin _ _ _ h3
    wpif hk
    · wpn; exact hfin _ _ _ (h3.congr rfl rfl)
    · exact hfin _ _ _ h3
  -- x X C D s S Y ~ : an operator on a pushed-back motion key
  have hvb : ∀ (k : Int) (cmd : Nat), k ∉ searchKeys →
      wp (vcMotion cmd) (fun m s' => wp (fin m) Q s')
        ({ ({ s1 with ed := ed2 } : VS) with vibuf := k :: s1.vibuf } : VS) := by
    intro k cmd hk
    refine wp_vcMotion (c := True) (s := ({ ({ s1 with ed := ed2 } : VS) with vibuf := k :: s1.vibuf } : VS)) _ ?_ ?_ ?_ ?_ _
      (fun m s4 hp => hfinO _ _ _ _ hp)
    · exact hs2.congr rfl rfl
    · exact rowOk_congr hr2 rfl rfl
    · exact hmk2.of_lb rfl
    · exact hsl2.back' hk rfl rfl rfl rfl
  wpif h
  · wpn; exact hvb _ _ (by decide)
  wpif h
  · wpn; exact hvb _ _ (by decide)
  wpif h
  · wpn; exact hvb _ _ (by decide)
  wpif h
  · wpn; exact hvb _ _ (by decide)
  -- r
  wpif h
  · wpn
    exact wp_vcReplace hs2 hr2 _ (fun m s3 hp => hfinO _ _ _ _ hp)
  wpif h
  · wpn; exact hvb _ _ (by decide)
  wpif h
  · wpn; exact hvb _ _ (by decide)
  wpif h
  · wpn; exact hvb _ _ (by decide)
  -- ZZ
  wpif h
  · wpn
    refine wp_viRead _ _ (fun k s3 e3 q3 => ?_)
    have h3t : SOk s3 True := hs2.congr (by rw [e3]) (by rw [e3])
    have hl3 : lines s3 = lines ({ s1 with ed := ed2 } : VS) := by unfold Vi.lines; rw [e3]
    wpif hk
    · wpn
      have hat : ColonAt 90 s s3 := by
        refine ⟨?_, ?_⟩
        · rw [e3]
          show ed2 = (markCaret s).ed
          rw [← hed2]; unfold markCaret; dsimp only; rw [e1]
        · refine List.IsSuffix.trans (l₂ := allQ s1) ?_ (by rw [q1]; exact List.suffix_cons _ _)
          have hk90 : k = 90 := by simpa using hk
          show 90 :: allQ s3 <:+ allQ ({ s1 with ed := ed2 } : VS)
          rw [q3, hk90]; exact List.suffix_refl _
      refine wp_exCommandV (hcol.zz s3 hat) _ (fun rc s4 h4 => ?_)
      exact hfin _ _ _ h4
    · exact hfin _ _ _ h3t.weaken
  -- ~
  wpif h
  · wpn; exact hvb _ _ (by decide)
  -- .
  wpif h
  · wpn
    refine wp_vcRepeat _ _ (fun s3 e3 => ?_)
    exact hfin _ _ _ (hw2.congr (by rw [e3]) (by rw [e3]))
  -- @
  wpif h
  · wpn
    refine wp_vcExecute _ _ (fun s3 e3 => ?_)
    exact hfin _ _ _ (hw2.congr (by rw [e3]) (by rw [e3]))
  wpif h
  · wpn; exact hfin _ _ _ (hw2.congr rfl rfl)
  · exact (wp_pure _ _ _).mpr (hQ _ _ (Or.inr ⟨hs2, hr2, ho2⟩))

end Neatvi.Lemmas.C05f
