import NeatviVerif.Lemmas.C09bRel
/-!
# C09b: `Resp` (the simulation relation `K` is kept) for the readers of vi.c / led.c

The same syntax-directed traversal as `Lemmas/C09Respects.lean`, for the stronger relation `K`.
-/
namespace Neatvi.Lemmas.C09b
open Neatvi Neatvi.Vi Neatvi.Ex Neatvi.Lemmas.C09

/-! ### further primitives -/

theorem resp_modify' {f : VS → VS}
    (hf : ∀ s, norm (f s) = f (norm s) ∧ (f s).ibuf = s.ibuf ∧ (f s).ibufPos = s.ibufPos ∧
      (f s).repCmd = s.repCmd ∧ (f s).icmd = s.icmd) : Resp (Vi.modify f) := resp_modify hf

theorem resp_withEd (f : Ed → Ed) : Resp (withEd f) := resp_modify (fun _ => ⟨rfl, rfl, rfl, rfl, rfl⟩)
theorem resp_setMsg (m : Bytes) : Resp (setMsg m) := resp_modify (fun _ => ⟨rfl, rfl, rfl, rfl, rfl⟩)
theorem resp_unmodelled : Resp Vi.unmodelled := resp_modify (fun _ => ⟨rfl, rfl, rfl, rfl, rfl⟩)
theorem resp_setPos (r o : Int) : Resp (setPos r o) := resp_withEd _
theorem resp_setRow (r : Int) : Resp (setRow r) := resp_withEd _
theorem resp_setOff (o : Int) : Resp (setOff o) := resp_withEd _
theorem resp_setTop (t : Int) : Resp (setTop t) := resp_withEd _
theorem resp_markSet (c : Nat) (r o : Int) : Resp (markSet c r o) := resp_withEd _
theorem resp_regPut (c : Nat) (x : Bytes) (ln : Nat) : Resp (regPut c x ln) := resp_withEd _
theorem resp_lbufModified : Resp lbufModified := resp_withEd _
theorem resp_viNextline : Resp viNextline := resp_withEd _

/-- a pure observation of the state that does not look at the queue -/
theorem resp_reader {α : Type} (g : VS → α) (hg : ∀ s, g s = g (norm s)) :
    Resp (fun s => Res.ok (g s) s) := by
  intro s t h
  show RelK (Res.ok (g s) s) (Res.ok (g t) t)
  rw [hg s, hg t, show norm t = norm s from h.keq.symm]
  exact RelK.ok _ _ _ h

theorem resp_liftO {α : Type} (o : Option α) : Resp (liftO o) := by
  intro s t h
  unfold liftO
  cases o with
  | none => exact RelK.trap
  | some a => exact RelK.ok _ _ _ h

theorem resp_edEdit (txt : Option Bytes) (b e : Int) : Resp (edEdit txt b e) := by
  intro s t h
  have he : s.ed = t.ed := keyEq_ed h.keq
  unfold edEdit
  rw [← he]
  cases s.ed.edit txt b e with
  | none => exact RelK.trap
  | some ed =>
    have : Frame (fun s => { s with ed := ed }) := fun _ => ⟨rfl, rfl, rfl, rfl, rfl⟩
    exact resp_modify this s t h

theorem resp_repeatM (n : Nat) {m : M Unit} (hm : Resp m) : Resp (repeatM n m) := by
  induction n with
  | zero => exact resp_pure _
  | succ n ih => exact resp_bind hm fun _ => ih

syntax "resp_step" : tactic
macro_rules | `(tactic| resp_step) => `(tactic| first
  | with_reducible exact resp_termRead
  | with_reducible exact resp_viRead
  | with_reducible exact resp_termCmd
  | with_reducible exact resp_viBack _
  | with_reducible exact resp_pure _
  | with_reducible exact resp_trap
  | with_reducible exact resp_withEd _
  | with_reducible exact resp_setMsg _
  | with_reducible exact resp_unmodelled
  | with_reducible exact resp_setPos _ _
  | with_reducible exact resp_setRow _
  | with_reducible exact resp_setOff _
  | with_reducible exact resp_setTop _
  | with_reducible exact resp_markSet _ _ _
  | with_reducible exact resp_regPut _ _ _
  | with_reducible exact resp_lbufModified
  | with_reducible exact resp_viNextline
  | with_reducible exact resp_liftO _
  | with_reducible exact resp_edEdit _ _ _
  | with_reducible exact resp_viYankbuf
  | with_reducible exact resp_viPrefix
  | with_reducible exact resp_viChar
  | with_reducible exact resp_readKey
  | with_reducible exact resp_readCharS _ _
  | ((with_reducible refine resp_reader _ (fun _ => ?_)); (norm_inv; try rfl))
  | (with_reducible refine resp_repeatM _ ?_)
  | (with_reducible refine resp_modify' (fun _ => ?_)); exact ⟨rfl, rfl, rfl, rfl, rfl⟩
  | with_reducible assumption
  | ((with_reducible refine resp_get_bind (fun _ => ?_) (fun _ => ?_)); (norm_inv; try rfl))
  | with_reducible refine resp_bind ?_ (fun _ => ?_)
  | with_reducible refine resp_ite ?_ ?_
  | dsimp only
  | (show Resp _; split))

macro "resp_tac" : tactic => `(tactic| repeat' resp_step)

theorem resp_viMotionln (row cmd : Int) : Resp (viMotionln row cmd) := by
  unfold viMotionln
  resp_tac

macro_rules | `(tactic| resp_step) => `(tactic| with_reducible exact resp_viMotionln _ _)

/-! ### `led_line`, `vi_prompt` -/

theorem resp_ledLine_go (post : Bytes) (aiMax : Nat) (im pe : Bool)
    (setKmap : Option Nat → M Unit) (getKmap : M Nat) (redraw : Bytes → Bytes → Bytes → M Unit)
    (hS : ∀ k, Resp (setKmap k)) (hG : Resp getKmap) (hR : ∀ a b c, Resp (redraw a b c))
    (f : Nat) (sb ai : Bytes) (c1 : Int) :
    Resp (ledLine.go post aiMax im pe setKmap getKmap redraw f sb ai c1) := by
  induction f generalizing sb ai c1 with
  | zero => unfold ledLine.go; exact resp_pure _
  | succ f ih =>
    unfold ledLine.go
    repeat' (first | exact hS _ | exact hG | exact hR _ _ _ | exact ih _ _ _ | resp_step)

theorem resp_ledLine (pref post ai0 : Bytes) (aiMax : Nat) (im ex : Bool) :
    Resp (ledLine pref post ai0 aiMax im ex) := by
  unfold ledLine
  dsimp only
  apply resp_ledLine_go
  · intro k
    resp_tac
  · resp_tac
  · intro a b c
    resp_tac

macro_rules | `(tactic| resp_step) => `(tactic| with_reducible exact resp_ledLine _ _ _ _ _ _)

theorem resp_viPrompt (ex : Bool) : Resp (viPrompt ex) := by
  unfold viPrompt
  resp_tac

macro_rules | `(tactic| resp_step) => `(tactic| with_reducible exact resp_viPrompt _)

/-! ### searching and motions -/

theorem resp_viSearch (cmd : Nat) (cnt r o : Int) : Resp (viSearch cmd cnt r o) := by
  unfold viSearch
  resp_tac

macro_rules | `(tactic| resp_step) => `(tactic| with_reducible exact resp_viSearch _ _ _ _)

theorem resp_viMotion (row off : Int) : Resp (viMotion row off) := by
  unfold viMotion
  resp_tac

macro_rules | `(tactic| resp_step) => `(tactic| with_reducible exact resp_viMotion _ _)

end Neatvi.Lemmas.C09b
