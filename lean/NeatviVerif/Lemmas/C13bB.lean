import NeatviVerif.Lemmas.C13bA
import NeatviVerif.Lemmas.C10bRef
/-!
# C13b, part B: the reference parses of a context-free pattern on a suffix of the line

`results_shift`: for a `ContextFree` pattern the ordered list of parses from position `i` of the rest
`line.drop k` (flag `REG_NOTBOL`) is the ordered list of parses from position `i + k` of the whole
line, every offset (end position and group marks) shifted by `k`.

The only place where the length of the subject enters the reference is the iteration budget of an
unbounded repetition (`subj.length + 2`); `starRes_fuel` shows the budget is irrelevant once it
exceeds the number of bytes left.
-/
namespace Neatvi.Lemmas.C13b
open Neatvi Neatvi.Regex Neatvi.Spec.RegexSem Neatvi.Lemmas.C10b

/-- an offset written by a match on the rest, as an offset of the whole line (`-1` = unset stays) -/
def shiftI (k : Nat) (v : Int) : Int := if 0 ≤ v then v + k else v
/-- group marks shifted by `k` -/
def shiftM (k : Nat) (g : Marks) : Marks := g.map (shiftI k)
/-- a parse on the rest read as a parse on the whole line -/
def shiftR (k : Nat) (r : R) : R := (r.1 + k, shiftM k r.2)

theorem shiftM_setMark (k : Nat) (g : Marks) (j v : Nat) :
    shiftM k (setMark g j v) = setMark (shiftM k g) j (v + k) := by
  have e : shiftI k ((v : Nat) : Int) = ((v + k : Nat) : Int) := by
    unfold shiftI; rw [if_pos (by omega)]; omega
  unfold shiftM setMark
  rw [List.map_set, e]

theorem shiftM_replicate (k n : Nat) : shiftM k (List.replicate n (-1)) = List.replicate n (-1) := by
  unfold shiftM
  rw [List.map_replicate]
  rfl

theorem shiftM_zero (g : Marks) : shiftM 0 g = g := by
  unfold shiftM
  have : shiftI 0 = id := by
    funext v; unfold shiftI; split <;> simp
  rw [this, List.map_id]

/-- `bW` on the whole line is `bS` on the rest, shifted -/
def ShiftB (k : Nat) (bW bS : R → List R) : Prop := ∀ r, bW (shiftR k r) = (bS r).map (shiftR k)

theorem bindR_shift {k : Nat} {aW aS bW bS : R → List R} (ha : ShiftB k aW aS) (hb : ShiftB k bW bS) :
    ShiftB k (fun r => bindR (aW r) bW) (fun r => bindR (aS r) bS) := by
  intro r
  simp only [bindR]
  rw [ha r, List.flatMap_map, List.map_flatMap]
  congr 1
  funext x
  exact hb x

theorem copies_shift {k : Nat} {bW bS : R → List R} (h : ShiftB k bW bS) :
    ∀ n, ShiftB k (copies bW n) (copies bS n) := by
  intro n
  induction n with
  | zero => intro r; simp [copies]
  | succ n ih => exact bindR_shift h ih

theorem optRes_shift {k : Nat} {bW bS : R → List R} (h : ShiftB k bW bS) :
    ∀ n, ShiftB k (optRes bW n) (optRes bS n) := by
  intro n
  induction n with
  | zero => intro r; simp [optRes]
  | succ n ih =>
    intro r
    simp only [optRes, List.map_append, List.map_cons, List.map_nil]
    have e : bindR (bW (shiftR k r)) (optRes bW n) = List.map (shiftR k) (bindR (bS r) (optRes bS n)) :=
      bindR_shift h ih r
    rw [e]

theorem starRes_shift {k : Nat} {bW bS : R → List R} (h : ShiftB k bW bS) :
    ∀ f, ShiftB k (starRes bW f) (starRes bS f) := by
  intro f
  induction f with
  | zero => intro r; simp [starRes]
  | succ f ih =>
    intro r
    simp only [starRes, List.map_append, List.map_cons, List.map_nil, bindR]
    rw [h r, List.flatMap_map, List.map_flatMap]
    congr 2
    funext x
    have e : ((shiftR k x).1 == (shiftR k r).1) = (x.1 == r.1) := by
      simp only [shiftR]
      rw [Bool.eq_iff_iff]
      simp only [beq_iff_eq]
      omega
    rw [e]
    split
    · rfl
    · exact ih x

theorem flatMap_congr' {α β : Type} (f g : α → List β) : ∀ (l : List α), (∀ x ∈ l, f x = g x) →
    l.flatMap f = l.flatMap g := by
  intro l
  induction l with
  | nil => intro _; rfl
  | cons a l ih =>
    intro h
    rw [List.flatMap_cons, List.flatMap_cons, h a List.mem_cons_self,
      ih (fun x hx => h x (List.mem_cons_of_mem _ hx))]

/-- the iteration budget of an unbounded repetition is irrelevant once it exceeds the bytes left -/
theorem starRes_fuel {len : Nat} {L : R → List R} (h : Bounded len L) :
    ∀ (f f' : Nat) (r : R), len + 1 - r.1 < f → len + 1 - r.1 < f' → starRes L f r = starRes L f' r := by
  intro f
  induction f with
  | zero => intro f' r h1; omega
  | succ f ih =>
    intro f' r h1 h2
    cases f' with
    | zero => omega
    | succ f' =>
      simp only [starRes, bindR]
      congr 1
      apply flatMap_congr'
      intro x hx
      have hb := h r x hx
      split
      · rfl
      · rename_i hne
        have hne : x.1 ≠ r.1 := by simpa using hne
        have h3 : r.1 < x.1 := by have := hb.1; omega
        have h4 : x.1 ≤ len := by have := hb.2; omega
        exact ih f' x (by omega) (by omega)

/-- the repetition wrapper, with the budget of the whole line on one side and that of the rest on the other -/
theorem repRes_shift {k : Nat} (envW envS : Env) {bW bS : R → List R} (h : ShiftB k bW bS)
    (hbd : Bounded envS.subj.length bS) (hlen : envS.subj.length ≤ envW.subj.length) (mn mx : Int) :
    ShiftB k (repRes envW bW mn mx) (repRes envS bS mn mx) := by
  intro r
  by_cases h00 : mn = 0 ∧ mx = 0
  · simp [repRes, h00]
  by_cases h11 : mn = 1 ∧ mx = 1
  · simp only [repRes, h11, beq_self_eq_true, Bool.and_self, if_true]
    exact h r
  rw [repRes_general envW bW h00 h11, repRes_general envS bS h00 h11]
  have hafter : ShiftB k
      (if mx < 0 then starRes bW (envW.subj.length + 2) else optRes bW (mx - max 1 mn).toNat)
      (if mx < 0 then starRes bS (envS.subj.length + 2) else optRes bS (mx - max 1 mn).toNat) := by
    split
    · intro x
      rw [starRes_fuel hbd (envS.subj.length + 2) (envW.subj.length + 2) x (by omega) (by omega)]
      exact starRes_shift h _ x
    · exact optRes_shift h _
  have main : bindR (copies bW (max 1 mn).toNat (shiftR k r))
        (if mx < 0 then starRes bW (envW.subj.length + 2) else optRes bW (mx - max 1 mn).toNat) =
      List.map (shiftR k) (bindR (copies bS (max 1 mn).toNat r)
        (if mx < 0 then starRes bS (envS.subj.length + 2) else optRes bS (mx - max 1 mn).toNat)) :=
    bindR_shift (copies_shift h (max 1 mn).toNat) hafter r
  split
  · simp only [List.map_append, List.map_cons, List.map_nil]
    rw [main]
  · exact main

/-- the hypothesis on `^`: no `^` in the pattern, or the rest does not begin right after a newline
    inside the line (`NlFree`) -/
def BegOk (t : RNode) (line : Bytes) (k : Nat) : Prop := NoBeg t = true ∨ NlFree line k

instance (t : RNode) (line : Bytes) (k : Nat) : Decidable (BegOk t line k) := by unfold BegOk; infer_instance

theorem atomL_shift (a : Atom) (line : Bytes) (k fw fs : Nat) (hcf : CFAtom a = true) (hk : k ≤ line.length)
    (hk0 : 0 < k) (hfl : FlagsRest fw fs) (hbol : a.k = AK.beg → NlFree line k) :
    ShiftB k (atomL ⟨line, fw⟩ a) (atomL ⟨line.drop k, fs⟩ a) := by
  intro r
  simp only [atomL, shiftR]
  rw [atomMatch_shift a line k fw fs r.1 hcf hk hk0 hfl hbol]
  cases atomMatch a (line.drop k) fs r.1 <;> simp [shiftAR, shiftR]

theorem grpL_shift {k : Nat} {iW iS : R → List R} (h : ShiftB k iW iS) (g : Nat) :
    ShiftB k (grpL iW g) (grpL iS g) := by
  intro r
  simp only [grpL, shiftR]
  rw [← shiftM_setMark]
  have := h (r.1, setMark r.2 (2 * g) r.1)
  simp only [shiftR] at this
  rw [this, List.map_map, List.map_map]
  congr 1
  funext x
  simp only [Function.comp, shiftR, shiftM_setMark]

/-- **results_shift**: the ordered parses of a `ContextFree` pattern from position `r.1 + k` of the whole
    line are those from position `r.1` of the rest `line.drop k` under `REG_NOTBOL`, shifted by `k`
    (`0 < k ≤ line.length`; a pattern with `^` needs the byte before the rest not to be a newline). -/
theorem results_shift (line : Bytes) (k fw fs : Nat) (hk : k ≤ line.length) (hk0 : 0 < k) (hfl : FlagsRest fw fs) :
    ∀ (t : RNode), ContextFree t = true → BegOk t line k →
      ShiftB k (results ⟨line, fw⟩ t) (results ⟨line.drop k, fs⟩ t) := by
  have hlen : (line.drop k).length ≤ line.length := by rw [List.length_drop]; omega
  intro t
  induction t with
  | nul => intro _ _ r; simp [results]
  | atom a mn mx =>
    intro hcf hb r
    rw [results_atom, results_atom]
    have hbol : a.k = AK.beg → NlFree line k := by
      intro ha
      rcases hb with hb | hb
      · simp [NoBeg, ha] at hb
      · exact hb
    exact repRes_shift ⟨line, fw⟩ ⟨line.drop k, fs⟩ (atomL_shift a line k fw fs hcf hk hk0 hfl hbol)
      (atomL_bounded ⟨line.drop k, fs⟩ a) hlen mn mx r
  | cat a b iha ihb =>
    intro hcf hb
    simp only [ContextFree, Bool.and_eq_true] at hcf
    have hba : BegOk a line k := by
      rcases hb with hb | hb
      · simp only [NoBeg, Bool.and_eq_true] at hb; exact Or.inl hb.1
      · exact Or.inr hb
    have hbb : BegOk b line k := by
      rcases hb with hb | hb
      · simp only [NoBeg, Bool.and_eq_true] at hb; exact Or.inl hb.2
      · exact Or.inr hb
    exact bindR_shift (iha hcf.1 hba) (ihb hcf.2 hbb)
  | alt a b iha ihb =>
    intro hcf hb r
    simp only [ContextFree, Bool.and_eq_true] at hcf
    have hba : BegOk a line k := by
      rcases hb with hb | hb
      · simp only [NoBeg, Bool.and_eq_true] at hb; exact Or.inl hb.1
      · exact Or.inr hb
    have hbb : BegOk b line k := by
      rcases hb with hb | hb
      · simp only [NoBeg, Bool.and_eq_true] at hb; exact Or.inl hb.2
      · exact Or.inr hb
    simp only [results, List.map_append]
    rw [iha hcf.1 hba r, ihb hcf.2 hbb r]
  | grp a g mn mx iha =>
    intro hcf hb r
    rw [results_grp, results_grp]
    have hba : BegOk a line k := by
      rcases hb with hb | hb
      · exact Or.inl hb
      · exact Or.inr hb
    exact repRes_shift ⟨line, fw⟩ ⟨line.drop k, fs⟩ (grpL_shift (iha hcf hba) g)
      (grpL_bounded (results_bounded ⟨line.drop k, fs⟩ a) g) hlen mn mx r

/-! ## the start positions -/

/-- the character starts of the rest are those of the whole line from `k` on -/
theorem starts_drop (line : Bytes) (k : Nat) : ∀ (f i : Nat),
    (starts (line.drop k) f i).map (· + k) = starts line f (i + k) := by
  intro f
  induction f with
  | zero => intro i; rfl
  | succ f ih =>
    intro i
    simp only [starts, List.length_drop]
    by_cases h : i + k ≥ line.length
    · rw [if_pos h, if_pos (by omega)]; rfl
    · rw [if_neg h, if_neg (by omega), List.map_cons, rxLen_drop, ih]
      congr 2
      omega

/-- budget irrelevance for the list of starts -/
theorem starts_fuel (s : Bytes) : ∀ (f f' i : Nat), s.length + 1 - i < f → s.length + 1 - i < f' →
    starts s f i = starts s f' i := by
  intro f
  induction f with
  | zero => intro f' i h; omega
  | succ f ih =>
    intro f' i h1 h2
    cases f' with
    | zero => omega
    | succ f' =>
      simp only [starts]
      split
      · rfl
      · congr 1
        exact ih f' _ (by omega) (by omega)

theorem starts_le (s : Bytes) : ∀ (f i x : Nat), i ≤ s.length → x ∈ starts s f i → x ≤ s.length := by
  intro f
  induction f with
  | zero => intro i x _ h; simp [starts] at h
  | succ f ih =>
    intro i x hi h
    simp only [starts] at h
    split at h
    · simp at h; omega
    · simp only [List.mem_cons] at h
      rcases h with h | h
      · omega
      · have := rxLen_le s i
        exact ih _ _ (by omega) h

theorem starts_ge (s : Bytes) : ∀ (f i x : Nat), x ∈ starts s f i → i ≤ x := by
  intro f
  induction f with
  | zero => intro i x h; simp [starts] at h
  | succ f ih =>
    intro i x h
    simp only [starts] at h
    split at h
    · simp at h; omega
    · simp only [List.mem_cons] at h
      rcases h with h | h
      · omega
      · have := ih _ _ h; omega

/-- a character start `k` splits the list of starts: those before `k`, then the starts from `k` -/
theorem starts_split (s : Bytes) (k : Nat) : ∀ (f i : Nat), k ∈ starts s f i →
    ∃ pre f', starts s f i = pre ++ starts s f' k ∧ (∀ x ∈ pre, x < k) ∧ f + i ≤ f' + k := by
  intro f
  induction f with
  | zero => intro i h; simp [starts] at h
  | succ f ih =>
    intro i h
    by_cases hik : k = i
    · subst hik; exact ⟨[], f + 1, rfl, by simp, by omega⟩
    · simp only [starts] at h
      split at h
      · simp at h; exact absurd h hik
      · rename_i hlen
        simp only [List.mem_cons] at h
        rcases h with h | h
        · exact absurd h hik
        · obtain ⟨pre, f', h1, h2, h3⟩ := ih _ h
          have hge := starts_ge s _ _ _ h
          refine ⟨i :: pre, f', ?_, ?_, by omega⟩
          · simp only [starts, if_neg hlen, List.cons_append, h1]
          · intro x hx
            simp only [List.mem_cons] at hx
            rcases hx with hx | hx
            · omega
            · exact h2 x hx

/-- from a character start `k` of the whole line (one of the positions `regexec` tries), the starts
    at or after `k` are exactly the positions tried from `k` on -/
theorem starts_filter_ge (s : Bytes) (k : Nat) (hk : k ∈ starts s (s.length + 2) 0) :
    (starts s (s.length + 2) 0).filter (fun x => decide (x ≥ k)) = starts s (s.length + 2) k := by
  obtain ⟨pre, f', h1, h2, h3⟩ := starts_split s k _ _ hk
  rw [h1, List.filter_append]
  have e1 : pre.filter (fun x => decide (x ≥ k)) = [] := by
    rw [List.filter_eq_nil_iff]
    intro x hx
    have := h2 x hx
    simp; omega
  have e2 : (starts s f' k).filter (fun x => decide (x ≥ k)) = starts s f' k := by
    rw [List.filter_eq_self]
    intro x hx
    have := starts_ge s _ _ _ hx
    simp; omega
  rw [e1, e2, List.nil_append]
  have := starts_le s _ _ _ (Nat.zero_le _) hk
  exact starts_fuel s _ _ _ (by omega) (by omega)

end Neatvi.Lemmas.C13b
