import NeatviVerif.Props.C18b
/-!
# C18c helpers: matchers that are lawful only on slices ending inside `[0, n]`

`dir_match` is in range only when asked about a slice of the line; `C18.Lawful` asks for every slice.
`LawfulOn M n` is the restricted law; `clamp n M` answers "no match" outside, is `Lawful`, and
`dirFix`, `fixIdx` and `Scan` do not see the difference on slices ending inside `[0, n]` — so every
theorem of C18 / C18b about lawful matchers transfers.
-/
namespace Neatvi.Props.C18c
open Neatvi Neatvi.Dir Neatvi.Props.C18 Neatvi.Props.C18b

/-- `C18.Lawful` restricted to slices that end inside the first `n` positions -/
def LawfulOn (M : Matcher) (n : Nat) : Prop :=
  ∀ b e dir, b < e → e ≤ n → ∃ r, M b e dir = some r ∧
    ∀ m, r = some m → b ≤ m.rBeg ∧ m.rBeg < m.rEnd ∧ m.rEnd ≤ e ∧
      m.rBeg ≤ m.cBeg ∧ m.cBeg ≤ m.cEnd ∧ m.cEnd ≤ m.rEnd

theorem lawfulOn_mono {M : Matcher} {n n' : Nat} (h : LawfulOn M n) (hn : n' ≤ n) : LawfulOn M n' :=
  fun b e dir hbe he => h b e dir hbe (Nat.le_trans he hn)

theorem lawful_iff_on (M : Matcher) : Lawful M ↔ ∀ n, LawfulOn M n :=
  ⟨fun h _ b e dir hbe _ => h b e dir hbe, fun h b e dir hbe => h e b e dir hbe (Nat.le_refl _)⟩

/-- `C18b.scan_chained` for a matcher that is lawful on `[0, n]` -/
theorem scan_chained_on {M : Matcher} {n : Nat} (hM : LawfulOn M n) {dir : Int} {e b : Nat}
    {ms : List DMatch} (he : e ≤ n) (h : Scan M dir e b ms) : Chained e b ms := by
  induction h with
  | done _ => trivial
  | stop _ _ => trivial
  | next hbe hm _ ih =>
    obtain ⟨r, hr, hlaw⟩ := hM _ _ dir hbe he
    rw [hm] at hr; cases hr
    exact ⟨hlaw _ rfl, ih⟩

/-- the matcher that answers like `M` on slices ending inside `[0, n]` and "no match" elsewhere -/
def clamp (n : Nat) (M : Matcher) : Matcher := fun b e dir => if e ≤ n then M b e dir else some none

theorem clamp_in {n : Nat} {M : Matcher} {b e : Nat} {dir : Int} (he : e ≤ n) : clamp n M b e dir = M b e dir :=
  if_pos he

theorem clamp_lawful {M : Matcher} {n : Nat} (hM : LawfulOn M n) : Lawful (clamp n M) := by
  intro b e dir hbe
  by_cases he : e ≤ n
  · rw [clamp_in he]; exact hM b e dir hbe he
  · exact ⟨none, if_neg he, fun m hm => by cases hm⟩

/-- `dirFix` only ever asks about sub-slices of its slice -/
theorem dirFix_clamp {M : Matcher} {n : Nat} (hM : LawfulOn M n) :
    ∀ (fuel : Nat) (ord : List Nat) (dir : Int) (b e : Nat), e ≤ n →
      dirFix (clamp n M) fuel ord dir b e = dirFix M fuel ord dir b e := by
  intro fuel
  induction fuel with
  | zero => intro ord dir b e _; simp only [dirFix]
  | succ f ih =>
    intro ord dir b e he
    simp only [dirFix]
    by_cases hbe : b < e
    · rw [if_pos hbe, if_pos hbe, clamp_in he]
      obtain ⟨r, hr, hlaw⟩ := hM b e dir hbe he
      rw [hr]
      cases r with
      | none => rfl
      | some m =>
        obtain ⟨l1, l2, l3, l4, l5, l6⟩ := hlaw m rfl
        have h1 : m.cEnd ≤ n := by omega
        simp only [ih _ _ _ _ h1, ih _ _ _ _ he]
    · rw [if_neg hbe, if_neg hbe]

theorem fixIdx_clamp {M : Matcher} {n : Nat} (hM : LawfulOn M n) :
    ∀ (fuel : Nat) (dir : Int) (b e p : Nat), e ≤ n →
      fixIdx (clamp n M) fuel dir b e p = fixIdx M fuel dir b e p := by
  intro fuel
  induction fuel with
  | zero => intro dir b e p _; simp only [fixIdx]
  | succ f ih =>
    intro dir b e p he
    simp only [fixIdx]
    by_cases hbe : b < e
    · rw [if_pos hbe, if_pos hbe, clamp_in he]
      obtain ⟨r, hr, hlaw⟩ := hM b e dir hbe he
      rw [hr]
      cases r with
      | none => rfl
      | some m =>
        obtain ⟨l1, l2, l3, l4, l5, l6⟩ := hlaw m rfl
        have h1 : m.cEnd ≤ n := by omega
        simp only [ih _ _ _ _ h1, ih _ _ _ _ he]
    · rw [if_neg hbe, if_neg hbe]

theorem scan_clamp {M : Matcher} {n : Nat} {dir : Int} {e b : Nat} {ms : List DMatch} (he : e ≤ n)
    (h : Scan M dir e b ms) : Scan (clamp n M) dir e b ms := by
  induction h with
  | done hbe => exact Scan.done hbe
  | stop hbe hm => exact Scan.stop hbe (by rw [clamp_in he]; exact hm)
  | next hbe hm _ ih => exact Scan.next hbe (by rw [clamp_in he]; exact hm) ih

theorem scan_unclamp {M : Matcher} {n : Nat} {dir : Int} {e b : Nat} {ms : List DMatch} (he : e ≤ n)
    (h : Scan (clamp n M) dir e b ms) : Scan M dir e b ms := by
  induction h with
  | done hbe => exact Scan.done hbe
  | stop hbe hm => exact Scan.stop hbe (by rw [clamp_in he] at hm; exact hm)
  | next hbe hm _ ih => exact Scan.next hbe (by rw [clamp_in he] at hm; exact hm) ih

/-- a matcher lawful on `[0, n]` always yields a (unique: `scan_unique`) scan of a slice ending there -/
theorem scan_exists_on {M : Matcher} {n : Nat} (hM : LawfulOn M n) (dir : Int) {e : Nat} (he : e ≤ n) (b : Nat) :
    ∃ ms, Scan M dir e b ms := by
  obtain ⟨ms, h⟩ := matchesFrom_total (clamp_lawful hM) dir (e - b) b e (Nat.le_refl _)
  exact ⟨ms, scan_unclamp he (scan_of_matchesFrom _ _ _ _ _ _ h)⟩

/-- `C18.fix_frame` for a matcher lawful on `[0, n]` -/
theorem fix_frame_on {M : Matcher} {n : Nat} (hM : LawfulOn M n) (fuel : Nat) (ord : List Nat) (dir : Int)
    (b e : Nat) (hn : e ≤ n) (hf : e - b ≤ fuel) (he : e ≤ ord.length) :
    ∃ ord', dirFix M fuel ord dir b e = some ord' ∧ ord'.length = ord.length ∧
      ord'.take b = ord.take b ∧ ord'.drop e = ord.drop e := by
  rw [← dirFix_clamp hM fuel ord dir b e hn]
  exact fix_frame _ (clamp_lawful hM) fuel ord dir b e hf he

/-- `C18b.fix_nested_pos` for a matcher lawful on `[0, n]` -/
theorem fix_nested_pos_on {M : Matcher} {n : Nat} (hM : LawfulOn M n) {dir : Int} {e b : Nat}
    {ms : List DMatch} (hn : e ≤ n) (hs : Scan M dir e b ms) (fuel : Nat) (ord : List Nat)
    (he : e ≤ ord.length) (hf : e - b ≤ fuel) :
    ∃ ord', dirFix M fuel ord dir b e = some ord' ∧ ord'.length = ord.length ∧
      (∀ m ∈ ms, ∀ p, m.rBeg ≤ p → p < m.rEnd →
        ord'[p]? = ord[stepIdx (decide (dir < 0)) m
          (if m.cRec then fixIdx M fuel m.cDir (recBeg m) m.cEnd p else p)]?) ∧
      (∀ p, (∀ m ∈ ms, ¬ (m.rBeg ≤ p ∧ p < m.rEnd)) → ord'[p]? = ord[p]?) := by
  obtain ⟨ord', h1, h2, h3, h4⟩ := fix_nested_pos (clamp_lawful hM) (scan_clamp hn hs) fuel ord he hf
  rw [dirFix_clamp hM fuel ord dir b e hn] at h1
  refine ⟨ord', h1, h2, ?_, h4⟩
  intro m hm p hp1 hp2
  have hr := chained_mem (scan_chained_on hM hn hs) m hm
  unfold InRange at hr
  rw [h3 m hm p hp1 hp2, fixIdx_clamp hM fuel m.cDir (recBeg m) m.cEnd p (by omega)]

end Neatvi.Props.C18c
