import NeatviVerif.Lemmas.C08bInsert
/-!
# C08 (insert mode): `vc_insert` for `o` and `O`
-/
set_option linter.unusedSimpArgs false
namespace Neatvi.Lemmas.C08b
open Neatvi Neatvi.Uc Neatvi.Vi Neatvi.Ex Neatvi.Spec Neatvi.Lemmas.C08 Neatvi.Lemmas.C09

/-- `vc_insert` for `o` / `O` after the cursor was settled: the new line is typed after the indent -/
def openTail (pref : Bytes) : M Nat := do
  let (rep, row, off') ← viInput pref [10]
  let s ← Vi.get
  if lenOf s == 0 then edEdit (some [10]) 0 0
  let s ← Vi.get
  let beg := s.ed.xrow - row + 1
  edEdit (some rep) beg beg
  setOff off'
  pure VC_OK

/-- the state after `vi_nextline()` -/
def nextlineSt (s : VS) : VS :=
  { s with ed := if s.ed.xrow == s.ed.xtop + s.xrows - 1 then { s.ed with xrow := s.ed.xrow + 1, xtop := s.ed.xtop + 1 }
                 else { s.ed with xrow := s.ed.xrow + 1 } }

theorem viNextlineR_apply (s : VS) : viNextlineR s = Res.ok () (nextlineSt s) := rfl

theorem vcInsert_o_red (s : VS) (l : Bytes) (hl : lineOf s s.ed.xrow = some l) :
    vcInsert 111 s = openTail (viIndents s (some l))
      (nextlineSt { s with ed := { s.ed with xoff := Ren.renNoeol l s.ed.xoff } }) := by
  unfold vcInsert openTail
  simp only [bind_apply, get_apply, hl, setOff_apply, pure_apply, viNextlineR_apply,
    show ((111 : Nat) == 73) = false from rfl, show ((111 : Nat) == 65) = false from rfl,
    show ((111 : Nat) == 111) = true from rfl, show ((111 : Nat) == 105) = false from rfl,
    show ((111 : Nat) == 79) = false from rfl, show ((111 : Nat) == 97) = false from rfl,
    Bool.false_eq_true, if_false, if_true, Bool.or_false, Bool.true_or, Bool.or_true, Bool.not_false, Bool.or_self,
    Bool.not_true, Bool.true_and, Int.add_zero]

theorem vcInsert_O_red (s : VS) (l : Bytes) (hl : lineOf s s.ed.xrow = some l) :
    vcInsert 79 s = openTail (viIndents s (some l)) { s with ed := { s.ed with xoff := Ren.renNoeol l s.ed.xoff } } := by
  unfold vcInsert openTail
  simp only [bind_apply, get_apply, hl, setOff_apply, pure_apply, viNextlineR_apply,
    show ((79 : Nat) == 73) = false from rfl, show ((79 : Nat) == 65) = false from rfl,
    show ((79 : Nat) == 111) = false from rfl, show ((79 : Nat) == 105) = false from rfl,
    show ((79 : Nat) == 79) = true from rfl, show ((79 : Nat) == 97) = false from rfl,
    Bool.false_eq_true, if_false, if_true, Bool.or_false, Bool.true_or, Bool.or_true, Bool.not_false, Bool.or_self,
    Bool.not_true, Bool.true_and, Int.add_zero]

/-- the leading blanks of a line, as bytes and as characters -/
theorem takeWhile_blank_enc : ∀ (body : List Nat), (∀ c ∈ body, ValidCp c) →
    (encStr (body ++ [10])).takeWhile isBlankC = encStr (body.takeWhile isBlankC) := by
  intro body
  induction body with
  | nil => intro _; rfl
  | cons c t ih =>
    intro hv
    have hc := hv c (by simp)
    rw [List.cons_append, encStr_cons]
    by_cases hs : isBlankC c = true
    · have hlt : c < 128 := by unfold isBlankC at hs; simp at hs; omega
      have he : enc c = [c] := by unfold enc; rw [if_pos hlt]
      rw [he, List.takeWhile_cons, if_pos hs, encStr_cons, he]
      simp only [List.singleton_append, List.takeWhile_cons, hs, if_true]
      rw [ih (fun d hd => hv d (by simp [hd]))]
    · obtain ⟨a, u, he, hch⟩ := enc_chr hc
      have ha : isBlankC a = false := by
        unfold enc at he
        split at he
        · injection he with he1 _; subst he1; simpa using hs
        split at he
        · injection he with he1 _; subst he1; unfold isBlankC; simp; omega
        split at he
        · injection he with he1 _; subst he1; unfold isBlankC; simp; omega
        · injection he with he1 _; subst he1; unfold isBlankC; simp; omega
      rw [he, List.takeWhile_cons, if_neg hs]
      simp [ha]

/-- the indentation `o`/`O` start the new line with -/
def indentOf (s : VS) (body : List Nat) : List Nat := if s.xai then body.takeWhile isBlankC else []

theorem viIndents_line (s : VS) (body : List Nat) (hb : ∀ c ∈ body, ValidCp c) :
    viIndents s (some (encStr (body ++ [10]))) = encStr (indentOf s body) := by
  show (if s.xai then (encStr (body ++ [10])).takeWhile isBlankC else []) = _
  unfold indentOf
  cases s.xai
  · rfl
  · exact takeWhile_blank_enc body hb

theorem indentOf_valid (s : VS) (body : List Nat) (hb : ∀ c ∈ body, ValidCp c) (hb10 : 10 ∉ body) :
    (∀ c ∈ indentOf s body, ValidCp c) ∧ 10 ∉ indentOf s body := by
  unfold indentOf
  split
  · exact ⟨fun c hc => hb c ((List.takeWhile_sublist _).subset hc),
      fun h => hb10 ((List.takeWhile_sublist _).subset h)⟩
  · exact ⟨fun c hc => by simp at hc, by simp⟩

/-- `openTail` inserts the line `indent ++ text` before row `s.ed.xrow` -/
theorem openTail_spec (ind cs : List Nat) (s : VS) (K rest : Bytes) (lb : Lbuf.Lb) (hlb : s.ed.lb = some lb)
    (hr0 : 0 ≤ s.ed.xrow) (hr1 : s.ed.xrow ≤ lenOf s) (hlen0 : lenOf s ≠ 0)
    (hi : ∀ c ∈ ind, ValidCp c) (hi10 : 10 ∉ ind)
    (hin : Inputs K cs) (hp : pending s = K ++ rest) (hpl : ∀ c ∈ cs, ValidCp c) (h10 : 10 ∉ cs)
    (hne : cs.head? ≠ none ∧ cs.head? ≠ some 32 ∧ cs.head? ≠ some 9)
    (hk : s.xkmap = 0) :
    ∃ s', openTail (encStr ind) s = Res.ok VC_OK s' ∧ pending s' = rest ∧
      Inserted K s s' s.ed.xrow [encStr (ind ++ cs ++ [10])] 0 s.ed.xrow
        ((ind.length : Int) + cs.length - 1) := by
  obtain ⟨c, t, rfl⟩ : ∃ c t, cs = c :: t := by
    cases cs with
    | nil => exact absurd rfl hne.1
    | cons c t => exact ⟨c, t, rfl⟩
  have hc32 : c ≠ 32 := fun h => hne.2.1 (by simp [h])
  have hc9 : c ≠ 9 := fun h => hne.2.2 (by simp [h])
  have hcv := hpl c (by simp)
  have hkeep := keepAi_of_text (encStr ind) (encStr [10]) c t hcv hc32 hc9
  obtain ⟨s1, h1, h2, h3⟩ := viInput_single_line_aux ind [10] s K (c :: t) rest hi (by intro d hd; simp at hd; subst hd; decide)
    hi10 hin hp hpl h10 hk hkeep
  have hnl : nlCount (encStr [10]) = 1 := rfl
  rw [hnl] at h1
  obtain ⟨offv, hoffv⟩ : ∃ x : Int, x = (if ((ind.length + (c :: t).length : Nat) : Int) - 1 < 0 then 0
      else ((ind.length + (c :: t).length : Nat) : Int) - 1) := ⟨_, rfl⟩
  rw [← hoffv] at h1
  have hbeg : s1.ed.xrow - ((1 : Nat) : Int) + 1 = s.ed.xrow := by rw [h3.xrow]; omega
  have hl1 : lenOf s1 = lenOf s := by unfold lenOf; rw [h3.lines]
  obtain ⟨ed', he1, he2, he3⟩ := edEdit_spec s1 (encStr (ind ++ (c :: t) ++ [10])) s.ed.xrow s.ed.xrow lb
    (by rw [h3.lb]; exact hlb) hr0 (Int.le_refl _) (by rw [hl1]; exact hr1)
  have hlz : (lenOf s1 == 0) = false := by rw [hl1]; simpa using hlen0
  refine ⟨{ s1 with ed := { ed' with xoff := offv } }, ?_, h2, ?_⟩
  · unfold openTail
    have e10 : encStr [10] = [10] := rfl
    rw [e10] at h1
    simp only [bind_apply, h1, get_apply, hlz, Bool.false_eq_true, if_false, pure_apply, hbeg, he1, setOff_apply]
  · refine ⟨?_, ?_, ?_, ?_, ?_⟩
    · show Lemmas.C06.lines ed' = _
      rw [he2, h3.lines, splitLines_wf _ (wfLine_enc (by
        intro hm
        rcases List.mem_append.mp hm with hm | hm
        · exact hi10 hm
        · exact h10 hm)), Nat.add_zero]
    · show ed'.xrow = s.ed.xrow
      rw [he3]; exact h3.xrow
    · show offv = _
      rw [hoffv, if_neg (by simp only [List.length_cons]; omega)]
      simp only [List.length_cons]; omega
    · show ed'.regs = s.ed.regs
      rw [he3, h3.ed]
    · exact (h3.readsEd).withEd _

theorem nextlineSt_eq (s : VS) : ∃ ed, nextlineSt s = { s with ed := ed } ∧ ed.xrow = s.ed.xrow + 1 ∧
    ed.bufs = s.ed.bufs ∧ ed.regs = s.ed.regs := by
  unfold nextlineSt
  split
  · exact ⟨_, rfl, rfl, rfl, rfl⟩
  · exact ⟨_, rfl, rfl, rfl, rfl⟩

theorem lines_of_bufs (s : VS) (ed : Ed) (h : ed.bufs = s.ed.bufs) : Vi.lines { s with ed := ed } = Vi.lines s := by
  unfold Vi.lines Ed.lb Ed.cur
  simp only [h]

theorem lb_of_bufs (s : VS) (ed : Ed) (h : ed.bufs = s.ed.bufs) : ed.lb = s.ed.lb := by
  unfold Ed.lb Ed.cur
  rw [h]

/-- move an `Inserted` fact back over a change of the editor record that kept the text and the registers -/
theorem Inserted.of_ed {used : Bytes} {s s' : VS} {ed : Ed} {r : Int} {new : List Bytes} {del : Nat} {row off : Int}
    (h : Inserted used { s with ed := ed } s' r new del row off) (hb : ed.bufs = s.ed.bufs) (hr : ed.regs = s.ed.regs) :
    Inserted used s s' r new del row off := by
  obtain ⟨a1, a2, a3, a4, a5⟩ := h
  refine ⟨?_, a2, a3, a4.trans hr, a5.of_ed ⟨_, rfl⟩⟩
  rw [a1, lines_of_bufs s ed hb]

end Neatvi.Lemmas.C08b
