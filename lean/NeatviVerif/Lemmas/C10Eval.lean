import NeatviVerif.Lemmas.C10Seg
/-!
# C10 lemmas, part 3: a fuel-indexed (structurally recursive) copy of the VM and of `regexec`

`loop`/`act` are defined by well-founded recursion, which `decide` cannot unfold.  The copies here
are structural in a fuel argument and proved to agree with the model whenever they return `some`,
so that concrete runs of the model can be established by `decide`.
-/
namespace Neatvi.Lemmas.C10
open Neatvi Neatvi.Regex

/-- fuel-indexed copy of `loop`/`act` (structural, so `decide` can run it) -/
def loopF (cx : Ctx) : Nat → Nat → Nat → Nat → Marks → Nat → Option Res
  | 0, _, _, _, _, _ => none
  | f + 1, dep, pc, pos, m, cuts =>
    match cx.prog[pc]? with
    | none => some Res.trap
    | some (Inst.atom a) =>
      match atomMatch a cx.subj cx.flg pos with
      | AR.fail => some (Res.fail cuts)
      | AR.trap => some Res.trap
      | AR.ok pos' => loopF cx f dep (pc + 1) pos' m cuts
    | some (Inst.mark k) => loopF cx f dep (pc + 1) pos (setMk cx.ngrps m k pos) cuts
    | some (Inst.jump a) => if a > pc then loopF cx f dep a pos m cuts else some Res.trap
    | some (Inst.fork a1 a2) =>
      match (if dep ≥ cx.nd then some (Res.fail (cuts + 1)) else loopF cx f (dep + 1) a1 pos m cuts) with
      | none => none
      | some (Res.ok p' m' c') => some (Res.ok p' m' c')
      | some Res.trap => some Res.trap
      | some (Res.fail c') => if a2 > pc then loopF cx f dep a2 pos m c' else some Res.trap
    | some Inst.mtch => some (Res.ok pos m cuts)

theorem loopF_sound (cx : Ctx) : ∀ f dep pc pos m cuts r,
    loopF cx f dep pc pos m cuts = some r → loop cx dep pc pos m cuts = r := by
  intro f
  induction f with
  | zero => intro dep pc pos m cuts r h; simp [loopF] at h
  | succ f ih =>
    intro dep pc pos m cuts r h
    rw [loopF] at h
    split at h
    · rename_i hn
      rw [loop]; split <;> simp_all
    · rename_i a hi
      rw [loop_atom cx hi]
      split at h
      · rename_i hm; rw [hm]; simpa using h
      · rename_i hm; rw [hm]; simpa using h
      · rename_i p hm; rw [hm]; exact ih _ _ _ _ _ _ h
    · rename_i k hi
      rw [loop_mark cx hi]; exact ih _ _ _ _ _ _ h
    · rename_i a hi
      rw [loop_jump cx hi]
      split at h
      · rename_i hgt; rw [if_pos hgt]; exact ih _ _ _ _ _ _ h
      · rename_i hgt; rw [if_neg hgt]; simpa using h
    · rename_i a1 a2 hi
      rw [loop_fork cx hi, act_eq]
      split at h
      · cases h
      · rename_i p' m' c' hact
        split at hact
        · cases hact
        · rename_i hd; rw [if_neg hd, ih _ _ _ _ _ _ hact]; simpa using h
      · rename_i hact
        split at hact
        · cases hact
        · rename_i hd; rw [if_neg hd, ih _ _ _ _ _ _ hact]; simpa using h
      · rename_i c1 hact
        split at hact
        · rename_i hd
          rw [if_pos hd]
          injection hact with hact; injection hact with hact; subst hact
          split at h
          · rename_i hgt; simp only [if_pos hgt]; exact ih _ _ _ _ _ _ h
          · rename_i hgt; simp only [if_neg hgt]; simpa using h
        · rename_i hd; rw [if_neg hd, ih _ _ _ _ _ _ hact]
          split at h
          · rename_i hgt; simp only [if_pos hgt]; exact ih _ _ _ _ _ _ h
          · rename_i hgt; simp only [if_neg hgt]; simpa using h
    · rename_i hi
      rw [loop_mtch cx hi]; simpa using h

def actF (cx : Ctx) (f dep pc pos : Nat) (m : Marks) (cuts : Nat) : Option Res :=
  if dep ≥ cx.nd then some (Res.fail (cuts + 1)) else loopF cx f (dep + 1) pc pos m cuts

theorem actF_sound (cx : Ctx) {f dep pc pos m cuts r} (h : actF cx f dep pc pos m cuts = some r) :
    act cx dep pc pos m cuts = r := by
  unfold actF at h
  rw [act_eq]
  split at h
  · rename_i hd; rw [if_pos hd]; simpa using h
  · rename_i hd; rw [if_neg hd]; exact loopF_sound cx _ _ _ _ _ _ _ h

def execLoopF (cx : Ctx) (fuel : Nat) : Nat → Nat → Nat → Option ExecRes
  | 0, _, cuts => some (ExecRes.nomatch cuts)
  | f + 1, start, cuts =>
    match rdb cx.subj start with
    | none => some ExecRes.trap
    | some b =>
      match actF cx fuel 0 0 start (List.replicate (2 * cx.ngrps) (-1)) cuts with
      | none => none
      | some (Res.ok _ m c) => some (ExecRes.found m c)
      | some Res.trap => some ExecRes.trap
      | some (Res.fail c) =>
        if b == 0 then some (ExecRes.nomatch c) else execLoopF cx fuel f (start + rxLen cx.subj start) c

theorem execLoopF_sound (cx : Ctx) (fuel : Nat) : ∀ f start cuts r,
    execLoopF cx fuel f start cuts = some r → execLoop cx f start cuts = r := by
  intro f
  induction f with
  | zero => intro start cuts r h; simpa [execLoopF, execLoop] using h
  | succ f ih =>
    intro start cuts r h
    rw [execLoopF] at h
    rw [execLoop]
    split at h
    · rename_i hr; rw [hr]; simpa using h
    · rename_i b hr
      rw [hr]
      simp only []
      split at h
      · cases h
      · rename_i p m c ha
        rw [recmatch, actF_sound cx ha]; simpa using h
      · rename_i ha
        rw [recmatch, actF_sound cx ha]; simpa using h
      · rename_i c ha
        rw [recmatch, actF_sound cx ha]
        simp only []
        split at h
        · rename_i hb; rw [if_pos hb]; simpa using h
        · rename_i hb; rw [if_neg hb]; exact ih _ _ _ h

def regexecF (fuel : Nat) (p : Prog) (subj : Bytes) (nsub eflg nd ngrps : Nat) :
    Option (ExecRes × List (Int × Int)) :=
  let cx : Ctx := { prog := p.code, subj := subj, flg := p.flg ||| eflg, nd := nd, ngrps := ngrps }
  if subj.isEmpty then some (ExecRes.nomatch 0, []) else
  match execLoopF cx fuel (subj.length + 2) 0 0 with
  | none => none
  | some (ExecRes.found m c) =>
    some (ExecRes.found m c, (List.range nsub).map (fun i =>
      if i * 2 < 2 * ngrps then (m.getD (i * 2) (-1), m.getD (i * 2 + 1) (-1)) else (-1, -1)))
  | some r => some (r, [])

theorem regexecF_sound {fuel : Nat} {p : Prog} {subj : Bytes} {nsub eflg nd ngrps : Nat}
    {r : ExecRes × List (Int × Int)} (h : regexecF fuel p subj nsub eflg nd ngrps = some r) :
    regexec p subj nsub eflg nd ngrps = r := by
  unfold regexecF at h
  unfold regexec
  simp only [] at h ⊢
  split at h
  · rename_i he; rw [if_pos he]; simpa using h
  · rename_i he
    rw [if_neg he]
    split at h
    · cases h
    · rename_i m c hx
      rw [execLoopF_sound _ _ _ _ _ _ hx]; simpa using h
    · rename_i r' hnf hx
      rw [execLoopF_sound _ _ _ _ _ _ hx]
      split
      · rename_i m c; exact absurd rfl (hnf m c)
      · simpa using h

end Neatvi.Lemmas.C10
